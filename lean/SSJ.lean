import SSJ.Py.F64
import SSJ.Py.Val
import SSJ.Gen.FilterUtils
import SSJ.Gen.Validation
import SSJ.Gen.Helper

/-
  Driver — JSON line protocol around the executable model (one request per line on stdin,
  one response per line on stdout).  Imports no Mathlib, so it links as a `lean_exe`.
-/
import Lean.Data.Json
import SSJ.Model.Matcher
import SSJ.Model.Session
import SSJ.Model.Converter
import SSJ.Model.Profiler
import SSJ.Spec.Spec

open Lean SSJ

/-! ### decoding -/
def hexVal (c : Char) : Nat :=
  if '0' ≤ c ∧ c ≤ '9' then c.toNat - '0'.toNat
  else if 'a' ≤ c ∧ c ≤ 'f' then c.toNat - 'a'.toNat + 10
  else if 'A' ≤ c ∧ c ≤ 'F' then c.toNat - 'A'.toNat + 10 else 0

def hexToNat (s : String) : Nat := s.toList.foldl (fun n c => n * 16 + hexVal c) 0

def natToHex16 (n : Nat) : String :=
  let digs := "0123456789abcdef".toList
  let rec go (k : Nat) (n : Nat) (acc : List Char) : List Char :=
    match k with
    | 0 => acc
    | k + 1 => go k (n / 16) (digs.getD (n % 16) '0' :: acc)
  String.ofList (go 16 n [])

def ratOfHex (s : String) : Option Rat := F64.ofBits (UInt64.ofNat (hexToNat s))
def hexOfRat (q : Rat) : String := natToHex16 (F64.toBits q).toNat

abbrev D := Except String

def fld (j : Json) (k : String) : D Json := j.getObjVal? k
def fldD (j : Json) (k : String) (d : Json) : Json := (j.getObjVal? k).toOption.getD d
def strF (j : Json) (k : String) : D String := do (← fld j k).getStr?
def intF (j : Json) (k : String) : D Int := do (← fld j k).getInt?
def natF (j : Json) (k : String) : D Nat := do (← fld j k).getNat?
def boolF (j : Json) (k : String) : D Bool := do (← fld j k).getBool?
def boolFD (j : Json) (k : String) (d : Bool) : Bool := (do (← fld j k).getBool? : D Bool).toOption.getD d
def strFD (j : Json) (k : String) (d : String) : String := (strF j k).toOption.getD d
def intFD (j : Json) (k : String) (d : Int) : Int := (intF j k).toOption.getD d
def arrF (j : Json) (k : String) : D (Array Json) := do (← fld j k).getArr?

def decPyV (j : Json) : D PyV :=
  match j with
  | .null => pure .none
  | _ =>
    match j.getObjVal? "i" with
    | .ok v => do pure (.int (← v.getInt?))
    | .error _ =>
    match j.getObjVal? "f" with
    | .ok v => do
        let h ← v.getStr?
        match ratOfHex h with
        | some q => pure (.float q)
        | none =>
          -- only +inf is a value of the model; NaN and -inf are refused rather than silently mapped
          if h == "7ff0000000000000" then pure .inf
          else throw s!"unsupported float {h}: NaN and -inf are outside the value model PyV"
    | .error _ =>
    match j.getObjVal? "s" with
    | .ok v => do pure (.str (← v.getStr?))
    | .error _ =>
    match j.getObjVal? "b" with
    | .ok v => do pure (.bool (← v.getBool?))
    | .error _ => throw s!"bad PyV {j.compress}"

/-- a threshold / overlap size as the package sees it: in Python `bool` is a subclass of `int` (`True` behaves as `1` in every
    comparison and product the package forms), so a bool threshold is decoded as that int -/
def decThr (j : Json) : D PyV := do
  match ← decPyV j with
  | .bool b => pure (.int (if b then 1 else 0))
  | v => pure v

def encErr : PyErr → String
  | .zeroDiv => "ZeroDivisionError" | .overflow => "OverflowError" | .typeErr => "TypeError"
  | .assertion => "AssertionError" | .other => "Other"

def encPyV : PyV → Json
  | .int i => Json.mkObj [("i", Json.num (JsonNumber.fromInt i))]
  | .float q => Json.mkObj [("f", Json.str (hexOfRat q))]
  | .inf => Json.mkObj [("f", Json.str "7ff0000000000000")]
  | .str s => Json.mkObj [("s", Json.str s)]
  | .bool b => Json.mkObj [("b", Json.bool b)]
  | .none => Json.null
  | .err e => Json.mkObj [("err", Json.str (encErr e))]

def decCell (j : Json) : D Cell :=
  match j with
  | .null => pure .missing
  | _ =>
    match j.getObjVal? "s" with
    | .ok v => do pure (.str (← v.getStr?))
    | .error _ =>
    match j.getObjVal? "i" with
    | .ok v => do pure (.int (← v.getInt?))
    | .error _ =>
    match j.getObjVal? "f" with
    | .ok v => do
        let h ← v.getStr?
        match ratOfHex h with
        | some q => pure (.flt q)
        | none => pure (.other ("f:" ++ h))
    | .error _ =>
    match j.getObjVal? "o" with
    | .ok v => do pure (.other (← v.getStr?))
    | .error _ => throw s!"bad cell {j.compress}"

def encCell : Cell → Json
  | .missing => Json.null
  | .str s => Json.mkObj [("s", Json.str s)]
  | .int i => Json.mkObj [("i", Json.num (JsonNumber.fromInt i))]
  | .flt q => Json.mkObj [("f", Json.str (hexOfRat q))]
  | .other t => if t.startsWith "f:" then Json.mkObj [("f", Json.str (t.drop 2).toString)] else Json.mkObj [("o", Json.str t)]

def decRow (j : Json) : D Row := do (← j.getArr?).toList.mapM decCell
def encRow (r : Row) : Json := Json.arr (r.map encCell).toArray

def decStrList (j : Json) : D (List String) := do (← j.getArr?).toList.mapM (·.getStr?)
def decNatList (j : Json) : D (List Nat) := do (← j.getArr?).toList.mapM (·.getNat?)
def encNatList (l : List Nat) : Json := Json.arr (l.map (fun n => Json.num (JsonNumber.fromNat n))).toArray
def encStrList (l : List String) : Json := Json.arr (l.map Json.str).toArray
def encInt (i : Int) : Json := Json.num (JsonNumber.fromInt i)

def decOptStrList (j : Json) (k : String) : D (Option (List String)) :=
  match j.getObjVal? k with
  | .ok .null => pure none
  | .ok v => do pure (some (← decStrList v))
  | .error _ => pure none

def decFrame (j : Json) : D (Option Frame) :=
  match j with
  | .null => pure none          -- "not a DataFrame"
  | _ => do
    let cols ← decStrList (← fld j "columns")
    let dt ← decStrList (fldD j "dtypes" (Json.arr #[]))
    let idx ← decRow (fldD j "index" (Json.arr #[]))
    let rows ← (← arrF j "rows").toList.mapM decRow
    pure (some { columns := cols, dtypes := dt, index := idx, rows := rows })

def encFrame (f : Frame) : Json :=
  Json.mkObj [("columns", encStrList f.columns), ("index", encRow f.index),
              ("rows", Json.arr (f.rows.map encRow).toArray)]

def encExceptFrame : Except PyErr Frame → Json
  | .ok f => Json.mkObj [("ok", encFrame f)]
  | .error e => Json.mkObj [("err", Json.str (encErr e))]

/-- one `filter_pair` answer: the boolean, or `{"err": …}` when the call raises (non-string value) -/
def encExceptBool : Except PyErr Bool → Json
  | .ok b => Json.bool b
  | .error e => Json.mkObj [("err", Json.str (encErr e))]

/-- tokenization table: {"set": {string: [tokens]}, "bag": {…}} -/
def decToks (j : Json) : TokFn := fun mode s =>
  let tbl := fldD j (if mode then "set" else "bag") Json.null
  match tbl.getObjVal? s with
  | .ok v => (decStrList v).toOption.getD []
  | .error _ => []

def decTokObj (j : Json) : D (Option TokObj) :=
  match j with
  | .null => pure none
  | _ => pure (some { isTokenizer := boolFD j "is_tokenizer" true, isQgram := boolFD j "is_qgram" false,
                      qval := intFD j "qval" 2, returnSet := boolFD j "return_set" false })

def decFCfg (j : Json) : D FCfg := do
  let m ← strF j "measure"
  match Measure.ofName? m with
  | none => throw s!"bad measure {m}"
  | some mm => pure { measure := mm, threshold := ← decThr (← fld j "threshold"), qval := ← decPyV (fldD j "qval" Json.null) }

def decFilterObj (j : Json) : D FilterObj := do
  pure { cfg := ← decFCfg j, allowEmpty := boolFD j "allow_empty" true, allowMissing := boolFD j "allow_missing" false }

def decTableArgs (j : Json) : D TableArgs := do
  pure { ltable := ← decFrame (fldD j "ltable" Json.null), rtable := ← decFrame (fldD j "rtable" Json.null),
         lKey := ← strF j "l_key", rKey := ← strF j "r_key", lAttr := ← strF j "l_attr", rAttr := ← strF j "r_attr",
         lOut := ← decOptStrList j "l_out", rOut := ← decOptStrList j "r_out",
         lPre := strFD j "l_pre" "l_", rPre := strFD j "r_pre" "r_", nJobs := intFD j "n_jobs" 1 }

def decJoinArgs (j : Json) : D JoinArgs := do
  pure { toTableArgs := ← decTableArgs j, threshold := ← decThr (← fld j "threshold"),
         compOp := strFD j "comp_op" ">=", allowEmpty := boolFD j "allow_empty" true,
         allowMissing := boolFD j "allow_missing" false, outSimScore := boolFD j "out_sim_score" true }

def encOutcome (o : Outcome) : Json :=
  match o.result with
  | .ok f => Json.mkObj [("ok", encFrame f), ("flag", Json.bool o.flagAfter)]
  | .error e => Json.mkObj [("err", Json.str (encErr e)), ("flag", Json.bool o.flagAfter)]

def encDictNatList (d : List (Nat × List Nat)) : Json :=
  Json.arr (d.map (fun (k, v) => Json.arr #[Json.num (JsonNumber.fromNat k), encNatList v])).toArray

def encPairs (l : List (Nat × Nat)) : Json :=
  Json.arr (l.map (fun (a, b) => encNatList [a, b])).toArray

def encCand (d : List (Nat × Int)) : Json :=
  Json.arr (d.map (fun (k, v) => Json.arr #[Json.num (JsonNumber.fromNat k), encInt v])).toArray

/-- similarity table for apply_matcher: list of [larg, rarg, value]; args are token lists or cells -/
def decSimArg (j : Json) : D SimArg :=
  match j with
  | .arr a => do pure (.toks (← a.toList.mapM (·.getStr?)))
  | _ => do pure (.raw (← decCell j))

def decSimTable (j : Json) : D (SimArg → SimArg → PyV) := do
  let entries ← (← j.getArr?).toList.mapM (fun e => do
    let a ← e.getArr?
    let l ← decSimArg (a.getD 0 Json.null)
    let r ← decSimArg (a.getD 1 Json.null)
    let v ← decPyV (a.getD 2 Json.null)
    pure ((l, r), v))
  pure (fun l r => match entries.find? (fun e => e.1 == (l, r)) with
                   | some e => e.2
                   | none => .err .other)

def filterKindOf (s : String) : D FilterKind :=
  if s == "size" then pure .size else if s == "prefix" then pure .prefix
  else if s == "position" then pure .position else if s == "suffix" then pure .suffix
  else throw s!"bad filter kind {s}"

/-! ### operations -/
def handle (j : Json) : D Json := do
  let op ← strF j "op"
  let cpu := intFD j "cpu" 16
  match op with
  | "gen" =>
    let fn ← strF j "fn"
    let args ← (← arrF j "args").toList.mapM decThr
    let a (i : Nat) : PyV := args.getD i .none
    let r ← match fn with
      | "get_size_lower_bound" => pure (Gen.get_size_lower_bound (a 0) (a 1) (a 2))
      | "get_size_upper_bound" => pure (Gen.get_size_upper_bound (a 0) (a 1) (a 2))
      | "get_prefix_length" => pure (Gen.get_prefix_length (a 0) (a 1) (a 2) (a 3))
      | "get_overlap_threshold" => pure (Gen.get_overlap_threshold (a 0) (a 1) (a 2) (a 3) (a 4))
      | "validate_threshold" => pure (Gen.validate_threshold (a 0) (a 1))
      | "validate_comp_op_for_sim_measure" => pure (Gen.validate_comp_op_for_sim_measure (a 0) (a 1))
      | "validate_comp_op" => pure (Gen.validate_comp_op (a 0))
      | "validate_sim_measure_type" => pure (Gen.validate_sim_measure_type (a 0))
      | "get_num_processes_to_launch" => pure (Gen.get_num_processes_to_launch (a 0) (a 1))
      | _ => throw s!"unknown gen fn {fn}"
    pure (Json.mkObj [("ok", encPyV r)])
  | "f64" =>
    let f ← strF j "f"
    let x := (ratOfHex (strFD j "a" "0")).getD 0
    let y := (ratOfHex (strFD j "b" "0")).getD 0
    let r : PyV := match f with
      | "mul" => PyV.mul (.float x) (.float y)
      | "div" => PyV.div (.float x) (.float y)
      | "add" => PyV.add (.float x) (.float y)
      | "sub" => PyV.sub (.float x) (.float y)
      | "sqrt" => PyV.sqrt (.float x)
      | "round4" => PyV.round (.float x) (.int 4)
      | "round2" => PyV.round (.float x) (.int 2)
      | "round0" => PyV.round0 (.float x)
      | "ceil" => PyV.ceil (.float x)
      | "floor" => PyV.floor (.float x)
      | "int" => PyV.toInt (.float x)
      | "ofint" => PyV.toFloat (.int (intFD j "n" 0))
      | _ => .err .other
    pure (Json.mkObj [("ok", encPyV r)])
  | "token_ordering" =>
    let lists ← (← arrF j "lists").toList.mapM decStrList
    let o := genTokenOrdering lists
    pure (Json.mkObj [("ok", Json.arr (o.map (fun (t, r) => Json.arr #[Json.str t, Json.num (JsonNumber.fromNat r)])).toArray)])
  | "order_using" =>
    let toks ← decStrList (← fld j "tokens")
    let lists ← (← arrF j "lists").toList.mapM decStrList
    pure (Json.mkObj [("ok", encNatList (orderUsing toks (genTokenOrdering lists)))])
  | "index_build" =>
    -- builds all four indexes over token lists `ltoks` (ordering from ltoks ++ rtoks)
    let c ← decFCfg j
    let lt ← (← arrF j "ltoks").toList.mapM decStrList
    let rt ← (← arrF j "rtoks").toList.mapM decStrList
    let ce := boolFD j "cache_empty" true
    let ordering := genTokenOrdering (lt ++ rt)
    let ord := lt.map (fun t => orderUsing t ordering)
    let p := PosIndex.build c ord ce true
    let pf := PrefIndex.build c ord ce
    let sz := SizeIndex.build (lt.map List.length) ce
    let iv := InvIndex.build lt true ce
    pure (Json.mkObj [("ok", Json.mkObj [
      ("pos_index", Json.arr (p.index.map (fun (k, v) => Json.arr #[Json.num (JsonNumber.fromNat k), encPairs v])).toArray),
      ("pos_size_cache", encNatList p.sizeCache), ("pos_min", encInt p.minLength), ("pos_max", encInt p.maxLength),
      ("pos_cached", Json.arr (p.cachedTokens.map encNatList).toArray), ("pos_empty", encNatList p.emptyRecords),
      ("pref_index", encDictNatList pf.index), ("pref_empty", encNatList pf.emptyRecords),
      ("size_index", encDictNatList sz.index), ("size_min", encInt sz.minLength), ("size_max", encInt sz.maxLength),
      ("size_empty", encNatList sz.emptyRecords),
      ("inv_index", Json.arr (iv.index.map (fun (k, v) => Json.arr #[Json.str k, encNatList v])).toArray),
      ("inv_size_cache", encNatList iv.sizeCache), ("inv_empty", encNatList iv.emptyRecords)])])
  | "find_candidates" =>
    let f ← decFilterObj j
    let lt ← (← arrF j "ltoks").toList.mapM decStrList
    let rt ← (← arrF j "rtoks").toList.mapM decStrList
    let ordering := genTokenOrdering (lt ++ rt)
    let ord := lt.map (fun t => orderUsing t ordering)
    let pidx := PosIndex.build f.cfg ord true false
    let fidx := PrefIndex.build f.cfg ord true
    let sidx := SizeIndex.build (lt.map List.length) true
    let iidx := InvIndex.build lt false false
    let res := rt.map (fun t =>
      let ro := orderUsing t ordering
      Json.mkObj [("position", encCand (positionFindCandidates f ro pidx)),
                  ("prefix", encNatList (prefixFindCandidates f ro fidx)),
                  ("size", encNatList (sizeFindCandidates f t.length sidx)),
                  ("overlap", encCand (overlapFindCandidates t iidx))])
    pure (Json.mkObj [("ok", Json.arr res.toArray)])
  | "filter_pair" =>
    let kind ← strF j "kind"
    let toks := decToks (fldD j "toks" Json.null)
    let mode := boolFD j "return_set" true
    let pairs ← (← arrF j "pairs").toList.mapM (fun p => do
      let a ← p.getArr?
      pure (← decCell (a.getD 0 Json.null), ← decCell (a.getD 1 Json.null)))
    if kind == "overlap" then
      let f : OverlapFilterObj := { overlapSize := ← decThr (← fld j "overlap_size"), compOp := strFD j "comp_op" ">=",
                                    allowMissing := boolFD j "allow_missing" false }
      pure (Json.mkObj [("ok", Json.arr (pairs.map (fun (l, r) => encExceptBool (overlapFilterPairPy f (toks mode) l r))).toArray)])
    else
      let k ← filterKindOf kind
      let f ← decFilterObj j
      pure (Json.mkObj [("ok", Json.arr (pairs.map (fun (l, r) => encExceptBool (filterPairPy k f (toks mode) l r))).toArray)])
  | "suffix_internals" =>
    let f ← decFilterObj j
    let l ← decNatList (← fld j "l")
    let r ← decNatList (← fld j "r")
    let hmax ← intF j "hmax"
    let est := suffixEstHamming 2 4 l r l.length r.length hmax 1
    let (pl, pr, flag, diff) := suffixPartition l (← natF j "probe") (← intF j "left") (← intF j "right")
    let fs := suffixFilterSuffixN f l r (← intF j "lp") (← intF j "rp") (← natF j "ln") (← natF j "rn")
    pure (Json.mkObj [("ok", Json.mkObj [("est", encInt est), ("partition", Json.arr #[encNatList pl, encNatList pr, encInt flag, encInt diff]),
                                         ("filter_suffix", Json.bool fs)])])
  | "split_table" =>
    let len ← natF j "len"
    let k ← natF j "k"
    pure (Json.mkObj [("ok", Json.arr ((splitTable (List.range len) k).map encNatList).toArray)])
  | "chunks_for" =>
    let len ← natF j "len"
    pure (Json.mkObj [("ok", Json.arr ((chunksFor (List.range len) (← intF j "n_jobs") cpu).map encNatList).toArray)])
  | "missing_pairs" =>
    let a ← decTableArgs j
    match a.ltable, a.rtable with
    | some l, some r =>
      match getPairsWithMissingValue l r a.lKey a.rKey a.lAttr a.rAttr a.lOut a.rOut a.lPre a.rPre (boolFD j "out_sim_score" false) with
      | .ok (h, rows) => pure (Json.mkObj [("ok", Json.mkObj [("columns", encStrList h), ("rows", Json.arr (rows.map encRow).toArray)])])
      | .error e => pure (Json.mkObj [("err", Json.str (encErr e))])
    | _, _ => throw "missing_pairs needs frames"
  | "spec_sim" =>
    -- the Lean SPEC (not the model) evaluated on two token sets: used to validate the spec against py_stringmatching
    let m ← strF j "measure"
    let a ← decStrList (← fld j "a")
    let b ← decStrList (← fld j "b")
    let t ← decThr (← fld j "threshold")
    let cop := strFD j "comp_op" ">="
    match Measure.ofName? m with
    | none => throw s!"bad measure {m}"
    | some mm =>
      pure (Json.mkObj [("ok", Json.mkObj [
        ("sim", encPyV (Spec.simSet mm a b)), ("score4", encPyV (Spec.score4 mm a b)),
        ("strict", Json.bool (Spec.qualStrict mm cop t a b)), ("rounded", Json.bool (Spec.qualRounded mm cop t a b)),
        ("ovc", encPyV (Spec.ovcScore a b)), ("both_empty", Json.bool (Spec.bothEmpty a b))])])
  | "qgrams" =>
    let s ← strF j "s"
    pure (Json.mkObj [("ok", encStrList (qgrams (← natF j "q") (boolFD j "pad" true) s))])
  | "lev" =>
    pure (Json.mkObj [("ok", Json.num (JsonNumber.fromNat (lev (← strF j "a") (← strF j "b"))))])
  | "join" =>
    let which ← strF j "which"
    let a ← decJoinArgs j
    let t := (← decTokObj (fldD j "tokenizer" Json.null)).getD { isTokenizer := false }
    let toks := decToks (fldD j "toks" Json.null)
    let o ← match which with
      | "jaccard" => pure (setSimJoinPy .jaccard a t toks cpu)
      | "cosine" => pure (setSimJoinPy .cosine a t toks cpu)
      | "dice" => pure (setSimJoinPy .dice a t toks cpu)
      | "overlap_coefficient" => pure (overlapCoefficientJoinPy a t toks cpu)
      | "overlap" => pure (overlapJoinPy a t toks cpu)
      | "edit_distance" => pure (editDistanceJoinPy a t toks cpu)
      | _ => throw s!"unknown join {which}"
    pure (encOutcome o)
  | "filter_tables" =>
    let kind ← strF j "kind"
    let a ← decTableArgs j
    let t := (← decTokObj (fldD j "tokenizer" Json.null)).getD { isTokenizer := false }
    let toks := decToks (fldD j "toks" Json.null)
    if kind == "overlap" then
      match mkOverlapFilter (← decThr (← fld j "overlap_size")) (strFD j "comp_op" ">=") (boolFD j "allow_missing" false) t with
      | .error e => pure (Json.mkObj [("err", Json.str (encErr e)), ("stage", Json.str "ctor")])
      | .ok f => pure (encExceptFrame (overlapFilterTables f a (boolFD j "out_sim_score" false) (toks t.returnSet) cpu))
    else
      let k ← filterKindOf kind
      match mkFilter (← strF j "measure") (← decThr (← fld j "threshold")) (boolFD j "allow_empty" true) (boolFD j "allow_missing" false) t with
      | .error e => pure (Json.mkObj [("err", Json.str (encErr e)), ("stage", Json.str "ctor")])
      | .ok f => pure (encExceptFrame (filterTables k f a t toks cpu))
  | "filter_candset" =>
    let kind ← strF j "kind"
    let t := (← decTokObj (fldD j "tokenizer" Json.null)).getD { isTokenizer := false }
    let toks := decToks (fldD j "toks" Json.null)
    let ca : CandsetArgs := { candset := ← decFrame (fldD j "candset" Json.null), candLKey := ← strF j "cand_l_key", candRKey := ← strF j "cand_r_key",
                              ltable := ← decFrame (fldD j "ltable" Json.null), rtable := ← decFrame (fldD j "rtable" Json.null),
                              lKey := ← strF j "l_key", rKey := ← strF j "r_key", lAttr := ← strF j "l_attr", rAttr := ← strF j "r_attr",
                              nJobs := intFD j "n_jobs" 1 }
    if kind == "overlap" then
      match mkOverlapFilter (← decThr (← fld j "overlap_size")) (strFD j "comp_op" ">=") (boolFD j "allow_missing" false) t with
      | .error e => pure (Json.mkObj [("err", Json.str (encErr e)), ("stage", Json.str "ctor")])
      | .ok f => pure (encExceptFrame (filterCandset ca (overlapFilterPairPy f (toks t.returnSet)) cpu))
    else
      let k ← filterKindOf kind
      match mkFilter (← strF j "measure") (← decThr (← fld j "threshold")) (boolFD j "allow_empty" true) (boolFD j "allow_missing" false) t with
      | .error e => pure (Json.mkObj [("err", Json.str (encErr e)), ("stage", Json.str "ctor")])
      | .ok f => pure (encExceptFrame (filterCandset ca (filterPairPy k f (toks t.returnSet)) cpu))
  | "apply_matcher" =>
    let t ← decTokObj (fldD j "tokenizer" Json.null)
    let toks := decToks (fldD j "toks" Json.null)
    let sim ← decSimTable (fldD j "sim" (Json.arr #[]))
    let ma : MatcherArgs := { candset := ← decFrame (fldD j "candset" Json.null), candLKey := ← strF j "cand_l_key", candRKey := ← strF j "cand_r_key",
                              ltable := ← decFrame (fldD j "ltable" Json.null), rtable := ← decFrame (fldD j "rtable" Json.null),
                              lKey := ← strF j "l_key", rKey := ← strF j "r_key", lAttr := ← strF j "l_attr", rAttr := ← strF j "r_attr",
                              threshold := ← decThr (← fld j "threshold"), compOp := strFD j "comp_op" ">=",
                              allowMissing := boolFD j "allow_missing" false,
                              lOut := ← decOptStrList j "l_out", rOut := ← decOptStrList j "r_out",
                              lPre := strFD j "l_pre" "l_", rPre := strFD j "r_pre" "r_",
                              outSimScore := boolFD j "out_sim_score" true, nJobs := intFD j "n_jobs" 1 }
    pure (encExceptFrame (applyMatcher ma t toks sim cpu))
  | "session" =>
    -- calls share tokenizer objects (by id); each call is a join request with "tok_id"
    let flags0 ← (← arrF j "flags").toList.mapM (·.getBool?)
    let calls ← (← arrF j "calls").toList.mapM (fun c => do
      let which ← strF c "which"
      let a ← decJoinArgs c
      let t := (← decTokObj (fldD c "tokenizer" Json.null)).getD { isTokenizer := false }
      pure ({ which := which, args := a, tok := t, tokId := ← natF c "tok_id", toks := decToks (fldD c "toks" Json.null) } : Session.Call))
    let (fl, outs) := Session.run cpu flags0 calls
    pure (Json.mkObj [("ok", Json.mkObj [("flags", Json.arr (fl.map Json.bool).toArray),
                                         ("outcomes", Json.arr (outs.map encOutcome).toArray)])])
  | "converter" =>
    let col ← (← arrF j "values").toList.mapM decCell
    let reprTbl := fldD j "repr" Json.null
    let reprF : Rat → String := fun q => (strF reprTbl (hexOfRat q)).toOption.getD "?"
    let c : Converter.Column := { dtype := ← strF j "dtype", values := col }
    let encCol (c : Converter.Column) : Json := Json.mkObj [("dtype", Json.str c.dtype), ("values", encRow c.values)]
    if strFD j "mode" "series" == "series" then
      match Converter.seriesToStr reprF c (boolFD j "inplace" false) with
      | .retTrue a => pure (Json.mkObj [("ok", Json.mkObj [("ret", Json.str "True"), ("after", encCol a)])])
      | .retCol a => pure (Json.mkObj [("ok", Json.mkObj [("ret", Json.str "col"), ("col", encCol a)])])
      | .err e => pure (Json.mkObj [("err", Json.str (encErr e))])
    else
      match Converter.dataframeColumnToStr reprF c (boolFD j "inplace" false) (boolFD j "return_col" false) with
      | .retTrue a => pure (Json.mkObj [("ok", Json.mkObj [("ret", Json.str "True"), ("after", encCol a)])])
      | .retCol a => pure (Json.mkObj [("ok", Json.mkObj [("ret", Json.str "col"), ("col", encCol a)])])
      | .retFrame a => pure (Json.mkObj [("ok", Json.mkObj [("ret", Json.str "frame"), ("col", encCol a)])])
      | .err e => pure (Json.mkObj [("err", Json.str (encErr e))])
  | "profiler" =>
    let cols ← (← arrF j "cols").toList.mapM (fun c => do (← c.getArr?).toList.mapM decCell)
    pure (Json.mkObj [("ok", Json.arr (cols.map (fun c =>
      let p := Profiler.profileColumn c
      Json.arr #[Json.str p.1, Json.str p.2.1, Json.str p.2.2])).toArray)])
  | "profile_table" =>
    let t ← decFrame (fldD j "table" Json.null)
    let attrs ← decOptStrList j "attrs"
    match Profiler.profileTable t attrs with
    | .ok rows => pure (Json.mkObj [("ok", Json.arr (rows.map (fun r => Json.arr #[Json.str r.1, Json.str r.2.1, Json.str r.2.2.1, Json.str r.2.2.2])).toArray)])
    | .error e => pure (Json.mkObj [("err", Json.str (encErr e))])
  | _ => throw s!"unknown op {op}"

partial def loop (h : IO.FS.Stream) (out : IO.FS.Stream) : IO Unit := do
  let line ← h.getLine
  if line.isEmpty then return ()
  let resp : Json :=
    match Json.parse line with
    | .error e => Json.mkObj [("fail", Json.str s!"parse: {e}")]
    | .ok j =>
      match handle j with
      | .ok r => r
      | .error e => Json.mkObj [("fail", Json.str e)]
  out.putStrLn resp.compress
  loop h out

def main : IO Unit := do
  let out ← IO.getStdout
  loop (← IO.getStdin) out
  out.flush

/-
  C05 — apply_matcher keeps exactly the candidate rows that satisfy the predicate.

  STATEMENT.  apply_matcher returns exactly those rows of the candidate set, in their original order and carrying
  their original _id, for which sim_function applied to the two referenced values (tokenized first when a tokenizer
  is given) satisfies comp_op against the threshold, for each of the six operators; _sim_score is the value
  sim_function returned.  Rows with a missing value on either side are kept iff allow_missing (score NaN), and the
  outcome does not depend on whether the token cache is used or on n_jobs.

  MODEL FUNCTION.  `SSJ.applyMatcher a t toks sim cpu` (`SSJ/Model/Matcher.lean`): `a : MatcherArgs` are the keyword
  arguments (candset, its two key columns, the two tables with key / join attribute, threshold, comp_op,
  allow_missing, output attributes, prefixes, out_sim_score, n_jobs); `t : Option TokObj` the optional tokenizer
  object, `toks` its tokenization table (mode → string → tokens), `sim : SimArg → SimArg → PyV` the similarity
  function (an arbitrary function of the two arguments it is handed: token lists when a tokenizer is given, the raw
  cells otherwise), `cpu` the machine's cpu count.  The result is `.ok frame` or an exception.

  HOW THE THEOREMS SPEAK.  `srcRow f key k` is the row of table `f` whose key cell is Python-equal to `k`
  (`Cell.pyEq`: the dictionaries `_apply_matcher_split` builds from the tables are probed with the CANDSET's key
  values, and a Python dict finds `1` under the probe `1.0` or `True`; a candset key column is `float64` as soon as it
  passed through a NaN, a CSV file or a merge); `pairSpec` says what happens to a candidate row given its two source
  rows when its key cells are the tables' own, `pairSpecK` when they are merely Python-equal to them (the only
  difference: without output attributes the output row carries the CANDSET's key values — `pairSpecK_eq_map`);
  `rowSpec` = look the two source rows up, then `pairSpecK`.
  `keeps_exactly`: the result's rows are `candset.rows.filterMap rowSpec` — same order, nothing else.
  Companion file `C05_keys.lean`: a candidate row whose keys are Python-equal (not identical) to table keys is
  processed exactly like one with identical keys.

  HYPOTHESES / SCOPE.
  * `validateMatcher a t = .ok (c, l, r)`: the validation block at the top of apply_matcher accepts — equivalently
    (`C15.apply_matcher_accepts_iff`) the documented preconditions `MatcherValid` hold: three DataFrames, all named
    attributes exist, tokenizer (if given) is a Tokenizer, comp_op is one of the six operators, both keys are
    duplicate-free without missing values.
  * every candidate key occurs in its table up to Python equality (`PyMem`: some key of the table is `==` to it;
    otherwise Python raises KeyError, and so does the model: `applyMatcherSplit_error`);
  * the candset has fewer than 2⁴⁰ rows (precision limit of `split_table`'s binary64 chunk boundaries; discharges the
    "chunks form a partition" hypothesis via `chunksFor_flatten`, for EVERY n_jobs and cpu count).
  * when a tokenizer is given, both match columns hold only strings and missing values (`hstr`, `StrColumn` of
    SSJ/Props/Common.lean): a present value of another type makes `tokenizer.tokenize` raise TypeError — in
    `generate_tokens` for ANY row of the tables when the token cache is built, else at the first candidate row that
    references it (`C15.apply_matcher_nonstring_raises`).  Without a tokenizer the raw values go to `sim_function`
    and nothing is assumed about them.
  * the candset's first column is its `_id` column (cell 0 of a candidate row), as produced by every join / filter
    of the package.

  NOT COVERED.  Exceptions raised by `sim_function` or the tokenizer themselves (they are total functions here);
  the DataFrame index of the result (in the model, as with `pd.concat` of the per-chunk frames, it restarts at 0 in
  every chunk and therefore does depend on n_jobs — rows, order, columns and `_id`s do not).  Tie to the real code:
  the `matcher` correspondence suite.
-/
import SSJ.Props.Common
import SSJ.Proofs.EntryMatcher

namespace SSJ.Props.C05
open SSJ SSJ.Props

/-! ## Specification vocabulary -/

/-- the source row of table `f` whose key cell is Python-equal to `k` — what the lookup `table_dict[k]` finds
    (validated keys are pairwise Python-different, so "the" row: `srcRow_iff`) -/
def srcRow (f : Frame) (key : String) (k : Cell) : Option Row :=
  f.rows.find? (fun s => (keyOf f key s).pyEq k)

/-- the tokenization function apply_matcher uses: the given tokenizer in ITS CURRENT mode, or none -/
def tokOf (t : Option TokObj) (toks : TokFn) : Option (String → List Tok) :=
  t.map (fun tk => toks tk.returnSet)

/-- the two arguments handed to `sim_function`: tokens when a tokenizer is given, the raw values otherwise -/
def simArgs (tok : Option (String → List Tok)) (lv rv : Cell) : SimArg × SimArg :=
  match tok with
  | some tk => (.toks (tk lv.strVal), .toks (tk rv.strVal))
  | none => (.raw lv, .raw rv)

/-- the value `sim_function` returns for the two join values -/
def simValue (tok : Option (String → List Tok)) (sim : SimArg → SimArg → PyV) (lv rv : Cell) : PyV :=
  sim (simArgs tok lv rv).1 (simArgs tok lv rv).2

/-- the output attributes actually emitted: the requested ones without the key, duplicates removed -/
def outAttrs (out : Option (List String)) (key : String) : List String :=
  (removeRedundantAttrs out key).getD []

/-- the output row for candidate `_id` `id`, source rows `ls` / `rs` and score cell `score`:
    `_id`, left key, right key, requested left attributes, requested right attributes, (`_sim_score`) -/
def outRow (a : MatcherArgs) (l r : Frame) (id : Cell) (ls rs : Row) (score : Cell) : Row :=
  withScore a.outSimScore
    (id :: keyOf l a.lKey ls :: keyOf r a.rKey rs ::
      ((outAttrs a.lOut a.lKey).map (fun x => valOf l x ls) ++ (outAttrs a.rOut a.rKey).map (fun x => valOf r x rs)))
    score

/-- what apply_matcher must do with a candidate whose keys name the source rows `ls`, `rs` (`none` = dropped):
    a missing value on either side ⇒ kept iff allow_missing, with a missing (NaN) score;
    otherwise kept iff `sim_function(values) comp_op threshold`, with the value of `sim_function` as score -/
def pairSpec (a : MatcherArgs) (tok : Option (String → List Tok)) (sim : SimArg → SimArg → PyV)
    (l r : Frame) (id : Cell) (ls rs : Row) : Option Row :=
  let lv := valOf l a.lAttr ls
  let rv := valOf r a.rAttr rs
  if lv.isMissing || rv.isMissing then
    if a.allowMissing then some (outRow a l r id ls rs .missing) else none
  else
    let s := simValue tok sim lv rv
    if compFn a.compOp s a.threshold then some (outRow a l r id ls rs (scoreCell s)) else none

/-- are output attributes requested (after the key attribute and duplicates were removed from the lists)?
    `has_output_attributes` of `_apply_matcher_split` -/
def hasOutAttrs (a : MatcherArgs) : Bool :=
  (removeRedundantAttrs a.lOut a.lKey).isSome || (removeRedundantAttrs a.rOut a.rKey).isSome

/-- `outRow` for a candidate row whose key cells are `lk`, `rk`: WITHOUT output attributes `_apply_matcher_split`
    emits `[candset_row[0], l_id, r_id]` — the CANDSET's key values (`1.0` stays `1.0`); WITH output attributes
    `get_output_row_from_tables(l_row, r_row, …)` — the TABLES' key values -/
def outRowK (a : MatcherArgs) (l r : Frame) (id lk rk : Cell) (ls rs : Row) (score : Cell) : Row :=
  withScore a.outSimScore
    (id :: (if hasOutAttrs a then keyOf l a.lKey ls else lk) :: (if hasOutAttrs a then keyOf r a.rKey rs else rk) ::
      ((outAttrs a.lOut a.lKey).map (fun x => valOf l x ls) ++ (outAttrs a.rOut a.rKey).map (fun x => valOf r x rs)))
    score

/-- `pairSpec` for a candidate row whose key cells are `lk`, `rk` (Python-equal to the keys of `ls`, `rs`): the same
    decision and score, the output row is `outRowK` -/
def pairSpecK (a : MatcherArgs) (tok : Option (String → List Tok)) (sim : SimArg → SimArg → PyV)
    (l r : Frame) (id lk rk : Cell) (ls rs : Row) : Option Row :=
  let lv := valOf l a.lAttr ls
  let rv := valOf r a.rAttr rs
  if lv.isMissing || rv.isMissing then
    if a.allowMissing then some (outRowK a l r id lk rk ls rs .missing) else none
  else
    let s := simValue tok sim lv rv
    if compFn a.compOp s a.threshold then some (outRowK a l r id lk rk ls rs (scoreCell s)) else none

/-- the candidate row `cr`: look up the two source rows by the candset's key columns (Python equality), then
    `pairSpecK` with the candidate's own key cells; its `_id` is cell 0 -/
def rowSpec (a : MatcherArgs) (tok : Option (String → List Tok)) (sim : SimArg → SimArg → PyV)
    (c l r : Frame) (cr : Row) : Option Row :=
  match srcRow l a.lKey (cr.cell (c.colIdx a.candLKey)), srcRow r a.rKey (cr.cell (c.colIdx a.candRKey)) with
  | some ls, some rs =>
    pairSpecK a tok sim l r (cr.cell 0) (cr.cell (c.colIdx a.candLKey)) (cr.cell (c.colIdx a.candRKey)) ls rs
  | _, _ => none

/-- key cells that ARE the tables' own: `outRowK` is `outRow` -/
theorem outRowK_self (a : MatcherArgs) (l r : Frame) (id : Cell) (ls rs : Row) (score : Cell) :
    outRowK a l r id (keyOf l a.lKey ls) (keyOf r a.rKey rs) ls rs score = outRow a l r id ls rs score := by
  unfold outRowK outRow
  simp only [ite_self]

/-- key cells that ARE the tables' own: `pairSpecK` is `pairSpec` -/
theorem pairSpecK_self (a : MatcherArgs) (tok : Option (String → List Tok)) (sim : SimArg → SimArg → PyV)
    (l r : Frame) (id : Cell) (ls rs : Row) :
    pairSpecK a tok sim l r id (keyOf l a.lKey ls) (keyOf r a.rKey rs) ls rs = pairSpec a tok sim l r id ls rs := by
  unfold pairSpecK pairSpec
  simp only [outRowK_self]

/-- with output attributes the candidate's key cells do not show at all -/
theorem pairSpecK_of_outAttrs (a : MatcherArgs) (tok : Option (String → List Tok)) (sim : SimArg → SimArg → PyV)
    (l r : Frame) (id lk rk : Cell) (ls rs : Row) (h : hasOutAttrs a = true) :
    pairSpecK a tok sim l r id lk rk ls rs = pairSpec a tok sim l r id ls rs := by
  unfold pairSpecK pairSpec outRowK outRow
  simp only [h, if_true]

/-- in general: the same candidates are kept with the same score; without output attributes the two key cells of
    the output row are the candidate's own -/
theorem pairSpecK_eq_map (a : MatcherArgs) (tok : Option (String → List Tok)) (sim : SimArg → SimArg → PyV)
    (l r : Frame) (id lk rk : Cell) (ls rs : Row) :
    pairSpecK a tok sim l r id lk rk ls rs =
      (pairSpec a tok sim l r id ls rs).map (fun row =>
        if hasOutAttrs a then row else row.take 1 ++ [lk, rk] ++ row.drop 3) := by
  by_cases h : hasOutAttrs a = true
  · rw [pairSpecK_of_outAttrs _ _ _ _ _ _ _ _ _ _ h]
    simp only [h, if_true]
    cases pairSpec a tok sim l r id ls rs <;> rfl
  · have hrow : ∀ score, outRowK a l r id lk rk ls rs score =
        (outRow a l r id ls rs score).take 1 ++ [lk, rk] ++ (outRow a l r id ls rs score).drop 3 := by
      intro score
      unfold outRowK outRow withScore
      simp only [h, if_false, Bool.false_eq_true]
      split <;> rfl
    unfold pairSpecK pairSpec
    simp only [h, if_false, Bool.false_eq_true, hrow]
    split
    · split <;> rfl
    · split <;> rfl

/-- with a validated key column (pairwise Python-different cells), `srcRow` returns THE row whose key is
    Python-equal to the probe -/
theorem srcRow_iff (f : Frame) (key : String) (hk : PyDistinct (f.col key)) (k : Cell) (s : Row) :
    srcRow f key k = some s ↔ s ∈ f.rows ∧ (keyOf f key s).pyEq k = true := by
  constructor
  · intro h
    exact ⟨List.mem_of_find?_eq_some h, List.find?_some (p := fun s : Row => (keyOf f key s).pyEq k) h⟩
  · rintro ⟨hs, he⟩
    cases hf : srcRow f key k with
    | none => exact absurd he (List.find?_eq_none.1 hf s hs)
    | some s' =>
      have hs' := List.mem_of_find?_eq_some hf
      have hk' : (keyOf f key s').pyEq k = true := List.find?_some (p := fun s : Row => (keyOf f key s).pyEq k) hf
      have hkeys : keyOf f key s' = keyOf f key s :=
        hk.unique (List.mem_map_of_mem (f := fun row : Row => row.cell (f.colIdx key)) hs')
          (List.mem_map_of_mem (f := fun row : Row => row.cell (f.colIdx key)) hs) hk' he
      exact congrArg some (List.inj_on_of_nodup_map hk.nodup hs' hs hkeys)

/-- the lookup sees the probe only up to Python equality: `table_dict[1.0]` is `table_dict[1]` -/
theorem srcRow_congr (f : Frame) (key : String) {k k' : Cell} (h : k.pyEq k' = true) :
    srcRow f key k = srcRow f key k' := by
  unfold srcRow
  congr 1
  funext s
  exact Cell.pyEq_congr_right h _

/-! ## The property -/

/-- MAIN THEOREM.  For valid arguments, candidate keys present in the tables (up to Python equality: a `float64`
    candset key column against `int64` table keys is fine) and a candset of fewer than 2⁴⁰ rows,
    `apply_matcher` returns a DataFrame whose rows are exactly the `rowSpec` images of the candidate rows, in candset
    order; its columns are the candset's if the candset is empty and `_id`, keys, output attributes, (`_sim_score`)
    otherwise.  Nothing else is assumed: any `sim`, any tokenization, any of the six operators, any `n_jobs`/cpu count,
    either side of the token-cache switch. -/
theorem keeps_exactly (a : MatcherArgs) (t : Option TokObj) (toks : TokFn) (sim : SimArg → SimArg → PyV) (cpu : Int)
    (c l r : Frame) (hv : validateMatcher a t = .ok (c, l, r))
    (hl : ∀ cr ∈ c.rows, PyMem (cr.cell (c.colIdx a.candLKey)) (l.col a.lKey))
    (hr : ∀ cr ∈ c.rows, PyMem (cr.cell (c.colIdx a.candRKey)) (r.col a.rKey))
    (hlen : c.rows.length < 2 ^ 40)
    (hstr : t.isSome → StrColumn l a.lAttr ∧ StrColumn r a.rAttr) :
    ∃ fr, applyMatcher a t toks sim cpu = .ok fr ∧
      fr.rows = c.rows.filterMap (rowSpec a (tokOf t toks) sim c l r) ∧
      fr.columns = (if c.rows.isEmpty then c.columns else
        "_id" :: (getOutputHeader a.lKey a.rKey (removeRedundantAttrs a.lOut a.lKey) (removeRedundantAttrs a.rOut a.rKey)
                    a.lPre a.rPre ++ (if a.outSimScore then ["_sim_score"] else []))) := by
  obtain ⟨fr, hfr, hcols, hrows⟩ := applyMatcher_rows' a t toks sim cpu c l r hv hl hr hlen hstr
  have hV := (validateMatcher_ok_iff a t c l r).1 hv
  refine ⟨fr, hfr, ?_, hcols⟩
  rw [hrows]
  apply List.filterMap_congr
  intro cr _
  rw [matcherTableSpec_eq a t toks sim c l r hV.lKeyValid.1 hV.rKeyValid.1 cr]
  rfl

/-- Under the hypotheses of `keeps_exactly` both source rows of every candidate exist, so `rowSpec` is `pairSpecK`
    of THE left row and THE right row whose keys are Python-equal to the candidate's keys. -/
theorem rowSpec_eq_pairSpecK (a : MatcherArgs) (tok : Option (String → List Tok)) (sim : SimArg → SimArg → PyV)
    (c l r : Frame) (hlk : PyDistinct (l.col a.lKey)) (hrk : PyDistinct (r.col a.rKey)) (cr ls rs : Row)
    (hls : ls ∈ l.rows) (hrs : rs ∈ r.rows)
    (hkl : (keyOf l a.lKey ls).pyEq (cr.cell (c.colIdx a.candLKey)) = true)
    (hkr : (keyOf r a.rKey rs).pyEq (cr.cell (c.colIdx a.candRKey)) = true) :
    rowSpec a tok sim c l r cr =
      pairSpecK a tok sim l r (cr.cell 0) (cr.cell (c.colIdx a.candLKey)) (cr.cell (c.colIdx a.candRKey)) ls rs := by
  unfold rowSpec
  rw [(srcRow_iff l a.lKey hlk _ ls).2 ⟨hls, hkl⟩, (srcRow_iff r a.rKey hrk _ rs).2 ⟨hrs, hkr⟩]

/-- … and when the candidate's key cells are the tables' own, `pairSpec` of these two rows. -/
theorem rowSpec_eq_pairSpec (a : MatcherArgs) (tok : Option (String → List Tok)) (sim : SimArg → SimArg → PyV)
    (c l r : Frame) (hlk : PyDistinct (l.col a.lKey)) (hrk : PyDistinct (r.col a.rKey)) (cr ls rs : Row)
    (hls : ls ∈ l.rows) (hrs : rs ∈ r.rows)
    (hkl : keyOf l a.lKey ls = cr.cell (c.colIdx a.candLKey))
    (hkr : keyOf r a.rKey rs = cr.cell (c.colIdx a.candRKey)) :
    rowSpec a tok sim c l r cr = pairSpec a tok sim l r (cr.cell 0) ls rs := by
  rw [rowSpec_eq_pairSpecK a tok sim c l r hlk hrk cr ls rs hls hrs (Cell.pyEq_of_eq hkl) (Cell.pyEq_of_eq hkr),
    ← hkl, ← hkr, pairSpecK_self]

/-- Present values: the candidate is kept iff `sim_function(values) comp_op threshold` holds, and then its
    `_sim_score` is the value `sim_function` returned. -/
theorem present_kept_iff (a : MatcherArgs) (tok : Option (String → List Tok)) (sim : SimArg → SimArg → PyV)
    (l r : Frame) (id : Cell) (ls rs : Row) (hl : Present l a.lAttr ls) (hr : Present r a.rAttr rs) :
    pairSpec a tok sim l r id ls rs =
      if compFn a.compOp (simValue tok sim (valOf l a.lAttr ls) (valOf r a.rAttr rs)) a.threshold then
        some (outRow a l r id ls rs (scoreCell (simValue tok sim (valOf l a.lAttr ls) (valOf r a.rAttr rs))))
      else none := by
  unfold Present at hl hr
  unfold pairSpec
  simp only [hl, hr, Bool.or_self, Bool.false_eq_true, if_false]

/-- A missing value on either side: the candidate is kept iff `allow_missing`, with a missing (NaN) score —
    `sim_function` is not consulted. -/
theorem missing_kept_iff (a : MatcherArgs) (tok : Option (String → List Tok)) (sim : SimArg → SimArg → PyV)
    (l r : Frame) (id : Cell) (ls rs : Row) (h : ¬ Present l a.lAttr ls ∨ ¬ Present r a.rAttr rs) :
    pairSpec a tok sim l r id ls rs =
      if a.allowMissing then some (outRow a l r id ls rs .missing) else none := by
  have hm : ((valOf l a.lAttr ls).isMissing || (valOf r a.rAttr rs).isMissing) = true := by
    unfold Present at h
    simp only [Bool.not_eq_false] at h
    rcases h with h | h
    · simp [h]
    · simp [h]
  unfold pairSpec
  simp only [hm, if_true]

/-- The score column: with `out_sim_score` the last cell of an output row is the score cell, and the cells before
    it do not depend on the score. -/
theorem score_is_last (a : MatcherArgs) (l r : Frame) (id : Cell) (ls rs : Row) (score : Cell)
    (h : a.outSimScore = true) : rowScore (outRow a l r id ls rs score) = score := by
  unfold rowScore outRow withScore
  rw [if_pos h]
  exact List.getLastD_concat

/-- Every output row carries the `_id` of the candidate row it stems from, and output rows come in candset order:
    the `_id` column of the result is a subsequence of the candset's `_id` column. -/
theorem order_and_ids_preserved (a : MatcherArgs) (t : Option TokObj) (toks : TokFn) (sim : SimArg → SimArg → PyV)
    (cpu : Int) (c l r : Frame) (hv : validateMatcher a t = .ok (c, l, r))
    (hl : ∀ cr ∈ c.rows, PyMem (cr.cell (c.colIdx a.candLKey)) (l.col a.lKey))
    (hr : ∀ cr ∈ c.rows, PyMem (cr.cell (c.colIdx a.candRKey)) (r.col a.rKey))
    (hlen : c.rows.length < 2 ^ 40)
    (hstr : t.isSome → StrColumn l a.lAttr ∧ StrColumn r a.rAttr) :
    ∃ fr, applyMatcher a t toks sim cpu = .ok fr ∧
      (fr.rows.map (·.cell 0)).Sublist (c.rows.map (·.cell 0)) := by
  obtain ⟨fr, hfr, _, hrows⟩ := applyMatcher_rows' a t toks sim cpu c l r hv hl hr hlen hstr
  refine ⟨fr, hfr, ?_⟩
  rw [hrows]
  exact filterMap_cell_zero_sublist _ _ (fun cr row h => matcherTableSpec_cell_zero a t toks sim c l r cr row h)

/-- The `_id` of a kept candidate is its own: cell 0 of `outRow` is the candidate's `_id`. -/
theorem outRow_id (a : MatcherArgs) (l r : Frame) (id : Cell) (ls rs : Row) (score : Cell) :
    (outRow a l r id ls rs score).cell 0 = id :=
  withScore_cons_cell_zero _ _ _ _

/-- n_jobs and the cpu count are irrelevant: two calls differing only in `n_jobs` (and run on machines with
    different cpu counts) return the same rows in the same order under the same columns. -/
theorem njobs_irrelevant (a : MatcherArgs) (t : Option TokObj) (toks : TokFn) (sim : SimArg → SimArg → PyV)
    (cpu cpu' nJobs' : Int) (c l r : Frame) (hv : validateMatcher a t = .ok (c, l, r))
    (hl : ∀ cr ∈ c.rows, PyMem (cr.cell (c.colIdx a.candLKey)) (l.col a.lKey))
    (hr : ∀ cr ∈ c.rows, PyMem (cr.cell (c.colIdx a.candRKey)) (r.col a.rKey))
    (hlen : c.rows.length < 2 ^ 40)
    (hstr : t.isSome → StrColumn l a.lAttr ∧ StrColumn r a.rAttr) :
    ∃ fr fr', applyMatcher a t toks sim cpu = .ok fr ∧
      applyMatcher { a with nJobs := nJobs' } t toks sim cpu' = .ok fr' ∧
      fr'.rows = fr.rows ∧ fr'.columns = fr.columns := by
  obtain ⟨fr, hfr, hrows, hcols⟩ := keeps_exactly a t toks sim cpu c l r hv hl hr hlen hstr
  obtain ⟨fr', hfr', hrows', hcols'⟩ := keeps_exactly { a with nJobs := nJobs' } t toks sim cpu' c l r hv hl hr hlen hstr
  exact ⟨fr, fr', hfr, hfr', hrows'.trans hrows.symm, hcols'.trans hcols.symm⟩

/-- The token cache is irrelevant.  `apply_matcher` pre-tokenizes both tables iff
    `len(ltable) + len(rtable) < 2 · len(candset)`; `keeps_exactly` holds on both sides of that switch (its
    statement never mentions it).  At the level of the per-chunk worker `_apply_matcher_split`: with unique keys
    (pairwise Python-different, as `validate_key_attr` guarantees),
    running with the cache the entry point builds (`useCache = true`) or without it gives the same result — rows
    or KeyError alike — provided, when a tokenizer is given, the two columns hold only strings and missing values
    (`StrCells`; a non-string makes the no-cache worker raise TypeError at the row referencing it, whereas with the
    cache `generate_tokens` has raised before the worker starts). -/
theorem cache_irrelevant (a : MatcherArgs) (candLIdx candRIdx : Nat) (lRows rRows : List Row)
    (lKeyIdx lAttrIdx rKeyIdx rAttrIdx : Nat) (o : OutCfg) (tok : Option (String → List Tok))
    (sim : SimArg → SimArg → PyV) (useCache : Bool) (chunk : List Row)
    (hlk : PyDistinct (lRows.map (·.cell lKeyIdx))) (hrk : PyDistinct (rRows.map (·.cell rKeyIdx)))
    (hstr : tok.isSome → StrCells lRows lAttrIdx ∧ StrCells rRows rAttrIdx) :
    applyMatcherSplit a candLIdx candRIdx lRows rRows lKeyIdx lAttrIdx rKeyIdx rAttrIdx o tok sim
        (match (generalizing := false) tok, useCache with
         | some tk, true => some (generateTokens lRows lKeyIdx lAttrIdx tk, generateTokens rRows rKeyIdx rAttrIdx tk)
         | _, _ => none)
        chunk
      = applyMatcherSplit a candLIdx candRIdx lRows rRows lKeyIdx lAttrIdx rKeyIdx rAttrIdx o tok sim none chunk :=
  applyMatcherSplit_cache_irrel a candLIdx candRIdx lRows rRows lKeyIdx lAttrIdx rKeyIdx rAttrIdx o tok sim
    useCache chunk hlk hrk hstr

/-- … and at table level, for both positions of the switch: `apply_matcher` builds the token cache iff
    `len(l) + len(r) < 2·len(c)` (inside `applyMatcher`), and NOTHING is assumed here about the three row counts, so
    the statement covers the call with the cache and the call without it: in both the rows are the `rowSpec` rows,
    which do not mention the cache.  (This is the first part of `keeps_exactly`, restated under the name of the
    property clause; an earlier version carried a boolean `small` naming the switch position, which the statement
    never used — removed.) -/
theorem cache_irrelevant_tables (a : MatcherArgs) (t : Option TokObj) (toks : TokFn) (sim : SimArg → SimArg → PyV)
    (cpu : Int) (c l r : Frame)
    (hv : validateMatcher a t = .ok (c, l, r))
    (hl : ∀ cr ∈ c.rows, PyMem (cr.cell (c.colIdx a.candLKey)) (l.col a.lKey))
    (hr : ∀ cr ∈ c.rows, PyMem (cr.cell (c.colIdx a.candRKey)) (r.col a.rKey))
    (hlen : c.rows.length < 2 ^ 40)
    (hstr : t.isSome → StrColumn l a.lAttr ∧ StrColumn r a.rAttr) :
    ∃ fr, applyMatcher a t toks sim cpu = .ok fr ∧
      fr.rows = c.rows.filterMap (rowSpec a (tokOf t toks) sim c l r) := by
  obtain ⟨fr, hfr, hrows, _⟩ := keeps_exactly a t toks sim cpu c l r hv hl hr hlen hstr
  exact ⟨fr, hfr, hrows⟩

/-- All six operators: `keeps_exactly` is uniform in `a.compOp`; the comparison it uses is the entry of the
    generated COMP_OP_MAP — Python's `>=`, `>`, `<=`, `<`, `==`, `!=` on the value `sim_function` returned and the
    threshold — and the validation block accepts exactly these six names. -/
theorem all_six_operators :
    compFn ">=" = PyV.geb ∧ compFn ">" = PyV.gtb ∧ compFn "<=" = PyV.leb ∧
    compFn "<" = PyV.ltb ∧ compFn "=" = PyV.eqb ∧ compFn "!=" = PyV.neb ∧
    (∀ (a : MatcherArgs) (t : Option TokObj) (c l r : Frame), validateMatcher a t = .ok (c, l, r) →
        a.compOp ∈ [">=", ">", "<=", "<", "=", "!="]) ∧
    (∀ op : String, (Gen.comp_op_map op).isSome = true ↔ op ∈ [">=", ">", "<=", "<", "=", "!="]) :=
  ⟨rfl, rfl, rfl, rfl, rfl, rfl,
    fun a t c l r h => ((validateMatcher_ok_iff a t c l r).1 h).op, comp_op_map_isSome_iff⟩

/-! ## Non-vacuity -/

section Examples

def exL : Frame := { columns := ["id", "name"], dtypes := ["int64", "object"],
                     rows := [[.int 1, .str "ann"], [.int 2, .missing]] }
def exR : Frame := { columns := ["rid", "title"], dtypes := ["int64", "object"],
                     rows := [[.int 7, .str "ann"], [.int 8, .str "bob"]] }
/-- candset: `_id`, `l_id`, `r_rid` — three candidates -/
def exC : Frame := { columns := ["_id", "l_id", "r_rid"],
                     rows := [[.int 0, .int 1, .int 7], [.int 1, .int 1, .int 8], [.int 2, .int 2, .int 7]] }
def exArgs : MatcherArgs :=
  { candset := some exC, candLKey := "l_id", candRKey := "r_rid", ltable := some exL, rtable := some exR,
    lKey := "id", rKey := "rid", lAttr := "name", rAttr := "title", threshold := .int 1, compOp := ">=" }
/-- exact-match "similarity" on the raw values: 1 if equal, else 0 -/
def exSim : SimArg → SimArg → PyV := fun x y => if x = y then .int 1 else .int 0

/-- the hypotheses of `keeps_exactly` are satisfiable … -/
example : validateMatcher exArgs none = .ok (exC, exL, exR) := by decide
example : ∀ cr ∈ exC.rows, PyMem (cr.cell (exC.colIdx exArgs.candLKey)) (exL.col exArgs.lKey) := by decide
/-- … and the specification is not trivial: the first candidate (equal names) is kept with score 1, the second
    (different names) is dropped, the third (missing left value) is dropped unless allow_missing -/
example : exC.rows.filterMap (rowSpec exArgs none exSim exC exL exR) = [[.int 0, .int 1, .int 7, .int 1]] := by decide
example : exC.rows.filterMap (rowSpec { exArgs with allowMissing := true } none exSim exC exL exR)
    = [[.int 0, .int 1, .int 7, .int 1], [.int 2, .int 2, .int 7, .missing]] := by decide

end Examples

end SSJ.Props.C05

/-
  C14 (companion 2) — Filters prune what their technique promises to prune: the clause C14_more.lean leaves open.

  "… the pairs PositionFilter.filter_tables keeps are a subset of those kept by PrefixFilter and by SizeFilter with the
   same parameters on the same tables."

  C14.lean proves PositionFilter ⊆ SizeFilter for JACCARD / COSINE / DICE and EDIT_DISTANCE (int threshold), C14_more.lean
  for OVERLAP with an INT threshold, and lists as NOT COVERED "the inclusion under OVERLAP with a FLOAT threshold (prefix
  length `⌊rn(rn(n − t) + 1)⌋`; the same argument needs `rn(rn(n − t) + 1) ≥ 1 → ⌈t⌉ ≤ n`, not proved)".

  THIS FILE: `position_subset_size_overlap_float` — under OVERLAP with a FLOAT threshold `t` every row of
  `PositionFilter.filter_tables` occurs, up to `_id`, in `SizeFilter.filter_tables` with the same parameters on the same
  arguments.  THE CLAUSE IS TRUE for every Python float threshold `t ≤ 2⁵³` (also `t ≤ 0`, which the filter constructor
  does not reject): no finding.

  WHY.  SizeFilter's early exit fires for a probe (right record) with `n < ⌈t⌉` tokens, i.e. `n < t`.  PositionFilter
  gives such a probe the prefix length `int(max(n − t + 1, 0))`, where `n − t` and `… + 1` are each rounded to double
  precision.  The danger is a `t` a hair above `n`: if `n − t` were a tiny negative number such as `−2⁻⁶⁰`, then
  `−2⁻⁶⁰ + 1` would round to `1.0`, the probe would get a prefix of length 1, and PositionFilter could keep a pair that
  SizeFilter drops.  It cannot happen for a threshold that IS a double: a double `t > n ≥ 1` is a multiple of `2⁻⁵²`, so
  `n − t ≤ −2⁻⁵²`, and `1 − 2⁻⁵²` is itself a double `< 1`; rounding is monotone, hence the computed `n − t + 1` is
  `≤ 1 − 2⁻⁵² < 1` and the prefix is empty (`OverlapFloat.overlap_prefix_facts_float`, the float analogue of
  `EntryFilters.overlap_prefix_facts`).

  MODEL: `filterTables k f a t toks cpu` (`filter_tables`), as in C14.lean / C14_more.lean.

  HYPOTHESES: as in `position_subset_size_overlap` (valid table arguments `hv`, `hk`; both calls `hp`, `hx` on the same
  arguments; any tokenizer, `n_jobs`, cpu count, `allow_missing`), plus, for the threshold `.float t`:
    * `hd : rn t = t` — `t` is (the exact value of) a double.  Every Python float satisfies it; it is a hypothesis only
      because the model's `.float t` carries an arbitrary rational.  It cannot be dropped IN THE MODEL:
      `OverlapFloat.not_double_counterexample` (`t = 3 + 2⁻⁶⁰`, 3 tokens: prefix length 1, size lower bound 4).
    * `ht1 : t ≤ 2⁵³` — beyond it a count `n ≥ 2⁵³` is itself rounded by `float(n)` (`OverlapFloat.huge_counterexample`:
      `t = 2⁵³ + 4`, `n = 2⁵³ + 3`); irrelevant for real inputs (no record has 2⁵³ tokens), but the theorem quantifies
      over all counts.
  No lower bound on `t`, no bound on the number of tokens or rows.

  NOT COVERED: double thresholds above `2⁵³` (for these the inclusion holds as long as all token counts are below `2⁵³`;
  not proved); thresholds `inf` / `nan` (not representable as `.float t`).
-/
import SSJ.Props.C14_more
import SSJ.Proofs.OverlapFloat

namespace SSJ.Props.C14
open SSJ SSJ.Spec SSJ.Props F64

section SubsetsFloat
variable (f : FilterObj) (a : TableArgs) (t : TokObj) (toks : TokFn) (cpu : Int) (l r fp fx : Frame)
  (hv : validateTablesAttrs a = .ok (l, r)) (hk : validateOutAndKeys a l r = .ok ())
include hv hk

/-- OVERLAP with a FLOAT threshold `thr` that is a double (`rn thr = thr`), `thr ≤ 2⁵³`: every row of
    `PositionFilter.filter_tables` occurs (up to `_id`) in `SizeFilter.filter_tables` with the same parameters on the
    same arguments; in particular every key pair kept by the former is kept by the latter.  Any tokenizer, `n_jobs`,
    cpu count, `allow_missing`. -/
theorem position_subset_size_overlap_float (thr : Rat) (hd : rn thr = thr) (ht1 : thr ≤ 2 ^ 53)
    (hm : f.cfg.measure = .overlap) (hthr : f.cfg.threshold = .float thr)
    (hp : filterTables .position f a t toks cpu = .ok fp)
    (hx : filterTables .size f a t toks cpu = .ok fx) :
    ∀ row ∈ fp.rows, ∃ row' ∈ fx.rows, row'.drop 1 = row.drop 1 ∧ rowKeys row' = rowKeys row :=
  position_subset_size_of_prefix f a t toks cpu l r fp fx hv hk
    (OverlapFloat.overlap_prefix_facts_float f.cfg thr hm hthr hd ht1).1
    (OverlapFloat.overlap_prefix_facts_float f.cfg thr hm hthr hd ht1).2 hp hx

end SubsetsFloat

/-- the arithmetic core, stated on the computed bounds: for a double threshold `thr ≤ 2⁵³` a record with a non-empty
    prefix has at least `⌈thr⌉` tokens (the size lower bound), and prefix lengths are never negative -/
theorem overlap_float_prefix_vs_lower (c : FCfg) (thr : Rat) (hd : rn thr = thr) (ht1 : thr ≤ 2 ^ 53)
    (hm : c.measure = .overlap) (hthr : c.threshold = .float thr) (n : Nat) :
    0 ≤ c.prefixLen n ∧ c.lower n = thr.ceil ∧ (1 ≤ c.prefixLen n → thr.ceil ≤ (n : Int)) :=
  ⟨OverlapFloat.prefixLen_overlap_f_nonneg c thr hm hthr n, FloatThr.lower_overlap_f c thr hm hthr n,
    OverlapFloat.ceil_le_of_prefix c thr hm hthr hd ht1 n⟩

/-! ## non-vacuity -/
section NonVacuity
open EntryFilters.Ex

/-- the side conditions are satisfiable: `2.5` is a double `≤ 2⁵³` -/
example : rn (5 / 2) = 5 / 2 ∧ (5 / 2 : Rat) ≤ 2 ^ 53 := by decide +kernel

/-- OVERLAP, float threshold 2.5, on the two small tables of C14.lean (`n_jobs = 2`, a missing value): both calls
    return and the inclusion applies -/
example : ∃ fp fx, filterTables .position { cfg := { measure := .overlap, threshold := .float (5 / 2) } } exA exT exToks 4 = .ok fp ∧
    filterTables .size { cfg := { measure := .overlap, threshold := .float (5 / 2) } } exA exT exToks 4 = .ok fx ∧
    ∀ row ∈ fp.rows, ∃ row' ∈ fx.rows, row'.drop 1 = row.drop 1 ∧ rowKeys row' = rowKeys row := by
  obtain ⟨fp, hp⟩ := EntryFilters.filterTables_total .position { cfg := { measure := .overlap, threshold := .float (5 / 2) } }
    exA exT exToks 4 exL exR ex_valid ex_keys (by decide +kernel)
  obtain ⟨fx, hx⟩ := EntryFilters.filterTables_total .size { cfg := { measure := .overlap, threshold := .float (5 / 2) } }
    exA exT exToks 4 exL exR ex_valid ex_keys (by decide +kernel)
  exact ⟨fp, fx, hp, hx, position_subset_size_overlap_float _ exA exT exToks 4 exL exR fp fx ex_valid ex_keys (5 / 2)
    (by decide +kernel) (by norm_num) rfl rfl hp hx⟩

/-- the critical case: the threshold `2 + 2⁻⁵¹` is the double next above `2.0` (Python:
    `float.fromhex('0x1.0000000000001p+1')`).  The right record "y" has 2 tokens: SizeFilter's early exit fires
    (`⌈t⌉ = 3 > 2`), and its prefix is empty (`2 − t + 1 = 1 − 2⁻⁵¹` exactly, truncated to 0); "z" (4 tokens) has a prefix
    of length 2.  Both calls return and the inclusion applies. -/
example :
    let c : FCfg := { measure := .overlap, threshold := .float (2 + 1 / 2 ^ 51) }
    c.lower 2 = 3 ∧ c.prefixLen 2 = 0 ∧ c.prefixLen 4 = 2 := by decide +kernel

example : ∃ fp fx, filterTables .position { cfg := { measure := .overlap, threshold := .float (2 + 1 / 2 ^ 51) } } exA exT exToks 4 = .ok fp ∧
    filterTables .size { cfg := { measure := .overlap, threshold := .float (2 + 1 / 2 ^ 51) } } exA exT exToks 4 = .ok fx ∧
    ∀ row ∈ fp.rows, ∃ row' ∈ fx.rows, row'.drop 1 = row.drop 1 ∧ rowKeys row' = rowKeys row := by
  obtain ⟨fp, hp⟩ := EntryFilters.filterTables_total .position
    { cfg := { measure := .overlap, threshold := .float (2 + 1 / 2 ^ 51) } }
    exA exT exToks 4 exL exR ex_valid ex_keys (by decide +kernel)
  obtain ⟨fx, hx⟩ := EntryFilters.filterTables_total .size
    { cfg := { measure := .overlap, threshold := .float (2 + 1 / 2 ^ 51) } }
    exA exT exToks 4 exL exR ex_valid ex_keys (by decide +kernel)
  exact ⟨fp, fx, hp, hx, position_subset_size_overlap_float _ exA exT exToks 4 exL exR fp fx ex_valid ex_keys
    (2 + 1 / 2 ^ 51) (by decide +kernel) (by norm_num) rfl rfl hp hx⟩

end NonVacuity

section AxiomCheck
/-- info: 'SSJ.Props.C14.position_subset_size_overlap_float' depends on axioms: [propext, Classical.choice, Quot.sound] -/
#guard_msgs in #print axioms position_subset_size_overlap_float
/-- info: 'SSJ.Props.C14.overlap_float_prefix_vs_lower' depends on axioms: [propext, Classical.choice, Quot.sound] -/
#guard_msgs in #print axioms overlap_float_prefix_vs_lower
end AxiomCheck

end SSJ.Props.C14

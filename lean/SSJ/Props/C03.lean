/-
  C03 — edit_distance_join returns only pairs whose Levenshtein distance satisfies the comparison (<=, <, =) against
  the integral threshold, each key pair at most once, with _sim_score equal to that distance.  It returns every such
  pair whose two strings share at least one q-gram under the supplied q-gram tokenizer; the documented approximation
  may only lose qualifying pairs that have no q-gram in common.  Corollary with padding: every qualifying pair with
  max(len) >= q*threshold - q + 2 is returned.

  MODEL.  The theorems are about the entry point `SSJ.editDistanceJoinPy a t toks cpu : Outcome`
  (lean/SSJ/Model/Frame.lean; DataFrames in, DataFrame out): the validation block `validateJoin "EDIT_DISTANCE"`,
  the integral threshold `τ = int(floor(threshold))`, the tokenizer switched to bag mode (`toks false`), projection,
  dropna, chunking by `n_jobs`, `_edit_distance_join_split` per chunk (`editDistanceJoinSplit`: token ordering,
  prefix index, prefix filter with prefix length `min(q·τ+1, n)`, length filter, Levenshtein, comparison), the
  missing-value pairs, and `_id`.
    * `lev` (SSJ/Model/Strings.lean) is a Lean transcription of py_stringmatching's Levenshtein `get_raw_score`
      (row-by-row DP), `qgrams q pad` of its `QgramTokenizer(qval=q, padding=pad, return_set=False).tokenize`
      (prefix pad '#', suffix pad '$').  Both are external code, transcribed and correspondence-checked against the
      real library (suites `lev`, `qgrams`); `lev` is PROVED equal to the textbook recursive definition of edit
      distance (`SSJ.lev_eq_levSpec`, Proofs/QGram.lean), where also the two classical facts used here are proved:
      length difference ≤ distance (`lev_length_diff`) and the q-gram count lemma (`qgrams_diff_le`: one edit
      operation destroys at most q q-grams).
    * Spec vocabulary (SSJ/Spec/Spec.lean): `qualED op τ s t` — "the comparison `op` holds for `lev s t` against `τ`"
      (spelled out for the three operators in `comparison_meaning`); `shareToken tok s t` — some token of `tok s`
      occurs in `tok t`.
    * Vocabulary of Props/Common.lean: `keyOf`, `valOf`, `strOf`, `Present` (join value not None/NaN), `rowKeys`
      (cells 1 and 2 of a result row: the two keys), `rowScore` (last cell).

  SCOPE / HYPOTHESES (in plain words), the same for all theorems:
    `hv`    — the call passed validation, which returned the two tables `l`, `r` (so: keys unique and present,
              threshold ≥ 0, operator among `<=`, `<`, `=`, tokenizer a q-gram tokenizer, …; `validateJoin_ok_iff`);
    `htau`  — `τ` is the integral threshold `int(floor(threshold))` (lemmas `threshold_int`, `threshold_float`;
              `0 ≤ τ` follows, `threshold_nonneg`);
    `hrows` — the right table has fewer than 2⁴⁰ rows (precision limit of the double-precision arithmetic in
              `split_table` under which the chunks provably partition the table; not an enumeration bound);
    `hres`  — the call returned the frame `fr` (it does under `hv`, `htau` and `BodyOK`: `returns_frame`).
  Everything else is arbitrary: tables, out attributes, prefixes, `n_jobs`, cpu count, `allow_missing`,
  `out_sim_score`, the tokenizer flag, and (for `sound`, `once`) the tokenization function itself.
  For completeness the tokenizer must satisfy the q-gram count lemma (`complete_of_count`), which the q-gram tokenizer
  does (`complete`, hypothesis `htok : ∀ s, toks false s = qgrams q pad s` with `q = t.qval.toNat`, any padding mode).

  NOT COVERED here: the other columns of the result rows (output attributes — property C09), the rows produced for
  missing values beyond their keys/score (C08), the `_id` column (C10), the flag (C12); join values that are neither
  strings nor missing (the real tokenizer raises; outside the model).
-/
import SSJ.Proofs.EntryED

namespace SSJ.Props.C03
open SSJ SSJ.Spec SSJ.Props

variable (a : JoinArgs) (t : TokObj) (toks : TokFn) (cpu : Int) (l r fr : Frame) (tau : Int)

/-- the result frame `fr` has a row for the key pair of the source rows `ls` (left) and `rs` (right) -/
def InResult (a : JoinArgs) (l r fr : Frame) (ls rs : Row) : Prop :=
  ∃ row ∈ fr.rows, rowKeys row = (keyOf l a.lKey ls, keyOf r a.rKey rs)

/-! ### the integral threshold and the comparison -/

/-- an int threshold is used as it is -/
theorem threshold_int (k : Int) : PyV.toInt (PyV.floor (.int k)) = .int k := rfl

/-- a float threshold `x` is replaced by `⌊x⌋` -/
theorem threshold_float (x : Rat) : PyV.toInt (PyV.floor (.float x)) = .int ⌊x⌋ := rfl

/-- after validation the integral threshold is nonnegative -/
theorem threshold_nonneg (hv : validateJoin "EDIT_DISTANCE" a t = .ok (l, r))
    (htau : PyV.toInt (PyV.floor a.threshold) = .int tau) : 0 ≤ tau :=
  EntryED.tau_nonneg a.threshold tau htau ((validateJoin_ok_iff _ a t l r).1 hv).2.2.1

/-- after validation the operator is one of `<=`, `<`, `=` -/
theorem operator_cases (hv : validateJoin "EDIT_DISTANCE" a t = .ok (l, r)) :
    a.compOp = "<=" ∨ a.compOp = "<" ∨ a.compOp = "=" :=
  EntryED.op_cases a.compOp ((validateJoin_ok_iff _ a t l r).1 hv).2.2.2.1

/-- what `qualED` (the generated COMP_OP_MAP applied to the distance and `τ`) means for the three operators -/
theorem comparison_meaning (s s' : String) :
    (qualED "<=" tau s s' = true ↔ (lev s s' : Int) ≤ tau) ∧
    (qualED "<" tau s s' = true ↔ (lev s s' : Int) < tau) ∧
    (qualED "=" tau s s' = true ↔ (lev s s' : Int) = tau) :=
  ⟨EntryED.qualED_le_iff tau s s', EntryED.qualED_lt_iff tau s s', EntryED.qualED_eq_iff tau s s'⟩

/-- for the three admitted operators a pair satisfying the comparison has distance at most `τ` -/
theorem qualifies_dist_le (hv : validateJoin "EDIT_DISTANCE" a t = .ok (l, r)) (s s' : String)
    (h : qualED a.compOp tau s s' = true) : (lev s s' : Int) ≤ tau :=
  EntryED.qualED_dist_le a.compOp (operator_cases a t l r hv) tau s s' h

/-- a validated call whose present join values are strings and whose output header has no `_id` column (`BodyOK`,
    SSJ/Props/Common.lean) returns a frame; without `BodyOK` it raises TypeError resp. ValueError (`C15_body`) -/
theorem returns_frame (hv : validateJoin "EDIT_DISTANCE" a t = .ok (l, r))
    (htau : PyV.toInt (PyV.floor a.threshold) = .int tau)
    (hb : BodyOK a.toTableArgs l r a.outSimScore) :
    ∃ fr, (editDistanceJoinPy a t toks cpu).result = .ok fr :=
  EntryED.total a t toks cpu l r tau hv htau hb

/-! ### SOUND -/

/-- SOUND: every result row either names (by its two key cells) a left and a right source row with present join
    values whose Levenshtein distance satisfies the comparison against `τ = ⌊threshold⌋`, is the reported
    `_sim_score`, and whose strings share a token of the supplied tokenizer (bag mode);
    or — only with `allow_missing` — it names a pair of source rows one of whose join values is missing, and then
    its score is missing.  Holds for every tokenization function. -/
theorem sound (hv : validateJoin "EDIT_DISTANCE" a t = .ok (l, r))
    (htau : PyV.toInt (PyV.floor a.threshold) = .int tau) (hrows : r.rows.length < 2 ^ 40)
    (hres : (editDistanceJoinPy a t toks cpu).result = .ok fr) (row : Row) (hrow : row ∈ fr.rows) :
    (∃ ls ∈ l.rows, ∃ rs ∈ r.rows, Present l a.lAttr ls ∧ Present r a.rAttr rs ∧
        rowKeys row = (keyOf l a.lKey ls, keyOf r a.rKey rs) ∧
        qualED a.compOp tau (strOf l a.lAttr ls) (strOf r a.rAttr rs) = true ∧
        shareToken (toks false) (strOf l a.lAttr ls) (strOf r a.rAttr rs) = true ∧
        (a.outSimScore = true → rowScore row = .int (lev (strOf l a.lAttr ls) (strOf r a.rAttr rs))))
    ∨ (a.allowMissing = true ∧ ∃ ls ∈ l.rows, ∃ rs ∈ r.rows,
        (¬ Present l a.lAttr ls ∨ ¬ Present r a.rAttr rs) ∧
        rowKeys row = (keyOf l a.lKey ls, keyOf r a.rKey rs) ∧
        (a.outSimScore = true → rowScore row = .missing)) := by
  obtain ⟨p, i, hpi, rfl⟩ := (EntryED.mem_rows_iff a t toks cpu l r tau fr hv htau hres row).1 hrow
  have hp : p ∈ EntryED.payloads a t toks cpu l r tau := List.mem_of_getElem? hpi
  rcases List.mem_append.1 hp with hp | hp
  · left
    obtain ⟨ls, hls, rs, hrs, hlp, hrp, rfl, hq, hs⟩ := EntryED.chunk_sound a t toks cpu l r tau hrows p hp
    refine ⟨ls, hls, rs, hrs, hlp, hrp, ?_, hq, hs, ?_⟩
    · rw [EntryED.rowKeys_cons]; exact EntryED.pk_chunk _ _ _ _ _ _ _
    · intro hs; rw [hs]; exact EntryED.rowScore_cons_withScore _ _ _
  · right
    obtain ⟨ham, ls, hls, rs, hrs, hm, rfl⟩ := EntryED.miss_sound a l r p hp
    refine ⟨ham, ls, hls, rs, hrs, ?_, ?_, ?_⟩
    · unfold Present
      rcases hm with h | h
      · left; rw [h]; simp
      · right; rw [h]; simp
    · rw [EntryED.rowKeys_cons]; exact EntryED.pk_miss _ _ _ _ _ _
    · intro hs; rw [hs]; exact EntryED.rowScore_cons_withScore _ _ _

/-- SOUND, read from the tables: a result row carrying the keys of two source rows with present join values
    certifies that their distance satisfies the comparison, that it is the reported score, and that the two strings
    share a token -/
theorem sound_present (hv : validateJoin "EDIT_DISTANCE" a t = .ok (l, r))
    (htau : PyV.toInt (PyV.floor a.threshold) = .int tau) (hrows : r.rows.length < 2 ^ 40)
    (hres : (editDistanceJoinPy a t toks cpu).result = .ok fr)
    (ls rs : Row) (hls : ls ∈ l.rows) (hrs : rs ∈ r.rows)
    (hlp : Present l a.lAttr ls) (hrp : Present r a.rAttr rs)
    (row : Row) (hrow : row ∈ fr.rows) (hkeys : rowKeys row = (keyOf l a.lKey ls, keyOf r a.rKey rs)) :
    qualED a.compOp tau (strOf l a.lAttr ls) (strOf r a.rAttr rs) = true ∧
    shareToken (toks false) (strOf l a.lAttr ls) (strOf r a.rAttr rs) = true ∧
    (a.outSimScore = true → rowScore row = .int (lev (strOf l a.lAttr ls) (strOf r a.rAttr rs))) := by
  obtain ⟨hvl, hvr⟩ := EntryED.keys_valid _ a t l r hv
  rcases sound a t toks cpu l r fr tau hv htau hrows hres row hrow with
    ⟨ls', hls', rs', hrs', -, -, hk, hq, hs, hsc⟩ | ⟨-, ls', hls', rs', hrs', hm, hk, -⟩
  · rw [hkeys, Prod.mk.injEq] at hk
    have e1 : ls = ls' := row_eq_of_key_eq a.lKey l hvl ls ls' hls hls' hk.1
    have e2 : rs = rs' := row_eq_of_key_eq a.rKey r hvr rs rs' hrs hrs' hk.2
    subst e1 e2
    exact ⟨hq, hs, hsc⟩
  · rw [hkeys, Prod.mk.injEq] at hk
    have e1 : ls = ls' := row_eq_of_key_eq a.lKey l hvl ls ls' hls hls' hk.1
    have e2 : rs = rs' := row_eq_of_key_eq a.rKey r hvr rs rs' hrs hrs' hk.2
    subst e1 e2
    rcases hm with h | h
    · exact absurd hlp h
    · exact absurd hrp h

/-! ### ONCE -/

/-- ONCE: no key pair occurs in two rows of the result — over the WHOLE result, missing-value rows included -/
theorem once (hv : validateJoin "EDIT_DISTANCE" a t = .ok (l, r))
    (htau : PyV.toInt (PyV.floor a.threshold) = .int tau) (hrows : r.rows.length < 2 ^ 40)
    (hres : (editDistanceJoinPy a t toks cpu).result = .ok fr) :
    (fr.rows.map rowKeys).Nodup := by
  obtain ⟨hvl, hvr⟩ := EntryED.keys_valid _ a t l r hv
  rw [EntryED.map_rowKeys_eq a t toks cpu l r tau fr hv htau hres]
  exact EntryED.payloads_keys_nodup a t toks cpu l r tau hvl hvr hrows

/-- ONCE, index form: two positions of the result with the same key pair are the same position -/
theorem once_index (hv : validateJoin "EDIT_DISTANCE" a t = .ok (l, r))
    (htau : PyV.toInt (PyV.floor a.threshold) = .int tau) (hrows : r.rows.length < 2 ^ 40)
    (hres : (editDistanceJoinPy a t toks cpu).result = .ok fr)
    (i j : Nat) (hi : i < fr.rows.length) (hj : j < fr.rows.length)
    (h : rowKeys fr.rows[i] = rowKeys fr.rows[j]) : i = j :=
  EntryED.getD_inj_of_nodup_map rowKeys fr.rows [] (once a t toks cpu l r fr tau hv htau hrows hres) i j hi hj
    (by rw [List.getD_eq_getElem?_getD, List.getD_eq_getElem?_getD, List.getElem?_eq_getElem hi,
          List.getElem?_eq_getElem hj]; exact h)

/-! ### COMPLETE up to the documented gap -/

/-- COMPLETE, general form: for ANY tokenizer obeying the q-gram count lemma `hcount` (the bag of `s` loses at most
    `q · lev s s'` tokens against the bag of `s'`), every pair of source rows with present join values whose distance
    satisfies the comparison and whose strings share a token is in the result, with the distance as score -/
theorem complete_of_count (hv : validateJoin "EDIT_DISTANCE" a t = .ok (l, r))
    (htau : PyV.toInt (PyV.floor a.threshold) = .int tau) (hrows : r.rows.length < 2 ^ 40)
    (hres : (editDistanceJoinPy a t toks cpu).result = .ok fr)
    (hq : 0 ≤ t.qval)
    (hcount : ∀ s s' : String, ((toks false s).diff (toks false s')).length ≤ t.qval.toNat * lev s s')
    (ls rs : Row) (hls : ls ∈ l.rows) (hrs : rs ∈ r.rows)
    (hlp : Present l a.lAttr ls) (hrp : Present r a.rAttr rs)
    (hqual : qualED a.compOp tau (strOf l a.lAttr ls) (strOf r a.rAttr rs) = true)
    (hshare : shareToken (toks false) (strOf l a.lAttr ls) (strOf r a.rAttr rs) = true) :
    ∃ row ∈ fr.rows, rowKeys row = (keyOf l a.lKey ls, keyOf r a.rKey rs) ∧
      (a.outSimScore = true → rowScore row = .int (lev (strOf l a.lAttr ls) (strOf r a.rAttr rs))) := by
  have htau0 := threshold_nonneg a t l r tau hv htau
  have hdist := qualifies_dist_le a t l r tau hv _ _ hqual
  have hp := EntryED.chunk_complete a t toks cpu l r tau hrows hq htau0 ls rs hls hrs hlp hrp
    (hcount _ _) (by rw [lev_comm]; exact hcount _ _) hdist hqual hshare
  have hp' : _ ∈ EntryED.payloads a t toks cpu l r tau := List.mem_append_left _ hp
  obtain ⟨i, hi⟩ := List.getElem?_of_mem hp'
  refine ⟨_, (EntryED.mem_rows_iff a t toks cpu l r tau fr hv htau hres _).2 ⟨_, i, hi, rfl⟩, ?_, ?_⟩
  · rw [EntryED.rowKeys_cons]; exact EntryED.pk_chunk _ _ _ _ _ _ _
  · intro hs; rw [hs]; exact EntryED.rowScore_cons_withScore _ _ _

/-- COMPLETE up to the documented gap: with the q-gram tokenizer (`q = t.qval`, either padding mode), every pair of
    source rows with present join values whose distance satisfies the comparison against `τ` and whose strings share
    at least one q-gram is in the result, with the distance as `_sim_score`.  So the only qualifying pairs the join
    can lose are those without a common q-gram. -/
theorem complete (hv : validateJoin "EDIT_DISTANCE" a t = .ok (l, r))
    (htau : PyV.toInt (PyV.floor a.threshold) = .int tau) (hrows : r.rows.length < 2 ^ 40)
    (hres : (editDistanceJoinPy a t toks cpu).result = .ok fr)
    (pad : Bool) (htok : ∀ s, toks false s = qgrams t.qval.toNat pad s)
    (ls rs : Row) (hls : ls ∈ l.rows) (hrs : rs ∈ r.rows)
    (hlp : Present l a.lAttr ls) (hrp : Present r a.rAttr rs)
    (hqual : qualED a.compOp tau (strOf l a.lAttr ls) (strOf r a.rAttr rs) = true)
    (hshare : shareToken (qgrams t.qval.toNat pad) (strOf l a.lAttr ls) (strOf r a.rAttr rs) = true) :
    ∃ row ∈ fr.rows, rowKeys row = (keyOf l a.lKey ls, keyOf r a.rKey rs) ∧
      (a.outSimScore = true → rowScore row = .int (lev (strOf l a.lAttr ls) (strOf r a.rAttr rs))) := by
  have hfun : toks false = qgrams t.qval.toNat pad := funext htok
  have hq : 0 ≤ t.qval := by
    -- a shared q-gram exists, so `q ≠ 0`
    by_contra hneg
    have h0 : t.qval.toNat = 0 := by omega
    rw [h0] at hshare
    simp [shareToken, qgrams, qgramsChars] at hshare
  refine complete_of_count a t toks cpu l r fr tau hv htau hrows hres hq ?_ ls rs hls hrs hlp hrp hqual
    (by rw [hfun]; exact hshare)
  intro s s'
  rw [hfun]
  exact qgrams_diff_le _ _ _ _

/-! ### EXACT -/

/-- EXACT: with the q-gram tokenizer, a pair of source rows with present join values is in the result
    IF AND ONLY IF its distance satisfies the comparison against `τ` and the two strings share a q-gram -/
theorem exact (hv : validateJoin "EDIT_DISTANCE" a t = .ok (l, r))
    (htau : PyV.toInt (PyV.floor a.threshold) = .int tau) (hrows : r.rows.length < 2 ^ 40)
    (hres : (editDistanceJoinPy a t toks cpu).result = .ok fr)
    (pad : Bool) (htok : ∀ s, toks false s = qgrams t.qval.toNat pad s)
    (ls rs : Row) (hls : ls ∈ l.rows) (hrs : rs ∈ r.rows)
    (hlp : Present l a.lAttr ls) (hrp : Present r a.rAttr rs) :
    InResult a l r fr ls rs ↔
      qualED a.compOp tau (strOf l a.lAttr ls) (strOf r a.rAttr rs) = true ∧
      shareToken (qgrams t.qval.toNat pad) (strOf l a.lAttr ls) (strOf r a.rAttr rs) = true := by
  have hfun : toks false = qgrams t.qval.toNat pad := funext htok
  constructor
  · rintro ⟨row, hrow, hk⟩
    have h := sound_present a t toks cpu l r fr tau hv htau hrows hres ls rs hls hrs hlp hrp row hrow hk
    rw [hfun] at h
    exact ⟨h.1, h.2.1⟩
  · rintro ⟨hq, hs⟩
    obtain ⟨row, hrow, hk, -⟩ :=
      complete a t toks cpu l r fr tau hv htau hrows hres pad htok ls rs hls hrs hlp hrp hq hs
    exact ⟨row, hrow, hk⟩

/-! ### PADDING COROLLARY -/

/-- with padded q-grams, two strings within distance `τ` the longer of which has at least `q·τ − q + 2` characters
    share a q-gram (the longer string has `len + q − 1` padded q-grams, at most `q·τ` of which are destroyed) -/
theorem padded_long_share (q : Nat) (hq : 1 ≤ q) (s s' : String) (hdist : (lev s s' : Int) ≤ tau)
    (hlong : (q : Int) * tau - q + 2 ≤ max (s.length : Int) (s'.length : Int)) :
    shareToken (qgrams q true) s s' = true :=
  EntryED.shareToken_of_long q hq tau s s' hdist hlong

/-- PADDING COROLLARY: with the padding q-gram tokenizer, every pair of source rows with present join values whose
    distance satisfies the comparison against `τ` and whose longer string has at least `q·τ − q + 2` characters is in
    the result, with the distance as `_sim_score` -/
theorem padded_long_pairs_complete (hv : validateJoin "EDIT_DISTANCE" a t = .ok (l, r))
    (htau : PyV.toInt (PyV.floor a.threshold) = .int tau) (hrows : r.rows.length < 2 ^ 40)
    (hres : (editDistanceJoinPy a t toks cpu).result = .ok fr)
    (hq : 1 ≤ t.qval) (htok : ∀ s, toks false s = qgrams t.qval.toNat true s)
    (ls rs : Row) (hls : ls ∈ l.rows) (hrs : rs ∈ r.rows)
    (hlp : Present l a.lAttr ls) (hrp : Present r a.rAttr rs)
    (hqual : qualED a.compOp tau (strOf l a.lAttr ls) (strOf r a.rAttr rs) = true)
    (hlong : t.qval * tau - t.qval + 2 ≤
      max ((strOf l a.lAttr ls).length : Int) ((strOf r a.rAttr rs).length : Int)) :
    ∃ row ∈ fr.rows, rowKeys row = (keyOf l a.lKey ls, keyOf r a.rKey rs) ∧
      (a.outSimScore = true → rowScore row = .int (lev (strOf l a.lAttr ls) (strOf r a.rAttr rs))) := by
  have hdist := qualifies_dist_le a t l r tau hv _ _ hqual
  have hcast : ((t.qval.toNat : Nat) : Int) = t.qval := Int.toNat_of_nonneg (by omega)
  refine complete a t toks cpu l r fr tau hv htau hrows hres true htok ls rs hls hrs hlp hrp hqual ?_
  exact padded_long_share tau t.qval.toNat (by omega) _ _ hdist (by rw [hcast]; exact hlong)

/-- … hence for such long pairs the join is exact: in the result iff the distance satisfies the comparison -/
theorem padded_long_pairs_exact (hv : validateJoin "EDIT_DISTANCE" a t = .ok (l, r))
    (htau : PyV.toInt (PyV.floor a.threshold) = .int tau) (hrows : r.rows.length < 2 ^ 40)
    (hres : (editDistanceJoinPy a t toks cpu).result = .ok fr)
    (hq : 1 ≤ t.qval) (htok : ∀ s, toks false s = qgrams t.qval.toNat true s)
    (ls rs : Row) (hls : ls ∈ l.rows) (hrs : rs ∈ r.rows)
    (hlp : Present l a.lAttr ls) (hrp : Present r a.rAttr rs)
    (hlong : t.qval * tau - t.qval + 2 ≤
      max ((strOf l a.lAttr ls).length : Int) ((strOf r a.rAttr rs).length : Int)) :
    InResult a l r fr ls rs ↔ qualED a.compOp tau (strOf l a.lAttr ls) (strOf r a.rAttr rs) = true := by
  constructor
  · intro h
    exact ((exact a t toks cpu l r fr tau hv htau hrows hres true htok ls rs hls hrs hlp hrp).1 h).1
  · intro hqual
    obtain ⟨row, hrow, hk, -⟩ := padded_long_pairs_complete a t toks cpu l r fr tau hv htau hrows hres hq htok
      ls rs hls hrs hlp hrp hqual hlong
    exact ⟨row, hrow, hk⟩

/-! ### non-vacuity: the hypotheses are satisfiable, and the documented gap is real -/
section NonVacuity

/-- two tiny tables (one join value missing), float threshold 1.5 (so `τ = 1`), `<=`, padded 2-grams, 2 jobs -/
def exL : Frame := { columns := ["id", "name"], rows := [[.int 1, .str "abc"], [.int 2, .missing]] }
def exR : Frame := { columns := ["id", "name"], rows := [[.int 7, .str "abd"], [.int 8, .str "xyz"]] }
def exA : JoinArgs :=
  { ltable := some exL, rtable := some exR, lKey := "id", rKey := "id", lAttr := "name", rAttr := "name",
    threshold := .float (3/2), compOp := "<=", allowMissing := true, nJobs := 2 }
def exT : TokObj := { isQgram := true, qval := 2 }
def exToks : TokFn := fun _ s => qgrams 2 true s

theorem ex_valid : validateJoin "EDIT_DISTANCE" exA exT = .ok (exL, exR) := by
  rw [validateJoin_ok_iff]
  refine ⟨⟨rfl, rfl, by decide, by decide, by decide, by decide, by decide, by decide⟩, ⟨rfl, fun _ => rfl⟩, ?_, ?_,
    ⟨by decide, by decide⟩, (keyTest_iff _ _).1 (by decide), (keyTest_iff _ _).1 (by decide)⟩
  · rw [Ne, show exA.threshold = .float (3/2) from rfl, Gen.validate_threshold_ed_float]; norm_num
  · rw [Ne, Gen.validate_comp_op_for_sim_measure_ed]; decide

theorem ex_tau : PyV.toInt (PyV.floor exA.threshold) = .int 1 := by
  have h : ⌊(3/2 : ℚ)⌋ = 1 := by rw [Int.floor_eq_iff]; norm_num
  exact congrArg PyV.int h

/-- all hypotheses of `returns_frame`, `once` and `padded_long_pairs_complete` hold for this call; hence the pair
    ("abc", "abd") — distance 1 ≤ ⌊1.5⌋, longer string of 3 ≥ 2·1 − 2 + 2 characters — is returned -/
example : ∃ fr, (editDistanceJoinPy exA exT exToks 4).result = .ok fr ∧
    InResult exA exL exR fr [.int 1, .str "abc"] [.int 7, .str "abd"] ∧ (fr.rows.map rowKeys).Nodup := by
  obtain ⟨fr, hfr⟩ := returns_frame exA exT exToks 4 exL exR 1 ex_valid ex_tau (by decide +kernel)
  refine ⟨fr, hfr, ?_, once exA exT exToks 4 exL exR fr 1 ex_valid ex_tau (by decide) hfr⟩
  obtain ⟨row, hrow, hk, -⟩ := padded_long_pairs_complete exA exT exToks 4 exL exR fr 1 ex_valid ex_tau (by decide) hfr
    (by decide) (fun _ => rfl) [.int 1, .str "abc"] [.int 7, .str "abd"] (by decide) (by decide)
    (by unfold Present; decide) (by unfold Present; decide)
    ((comparison_meaning 1 "abc" "abd").1.2 (by decide)) (by decide)
  exact ⟨row, hrow, hk⟩

/-! the gap is real: without padding, "ab" and "cb" are at distance 1 ≤ 1 but have no common 2-gram, and (by `exact`)
    the pair is NOT returned -/
def gapL : Frame := { columns := ["id", "name"], rows := [[.int 1, .str "ab"]] }
def gapR : Frame := { columns := ["id", "name"], rows := [[.int 7, .str "cb"]] }
def gapA : JoinArgs :=
  { ltable := some gapL, rtable := some gapR, lKey := "id", rKey := "id", lAttr := "name", rAttr := "name",
    threshold := .int 1, compOp := "<=" }
def gapToks : TokFn := fun _ s => qgrams 2 false s

theorem gap_valid : validateJoin "EDIT_DISTANCE" gapA exT = .ok (gapL, gapR) := by
  rw [validateJoin_ok_iff]
  refine ⟨⟨rfl, rfl, by decide, by decide, by decide, by decide, by decide, by decide⟩, ⟨rfl, fun _ => rfl⟩, ?_, ?_,
    ⟨by decide, by decide⟩, (keyTest_iff _ _).1 (by decide), (keyTest_iff _ _).1 (by decide)⟩
  · rw [Ne, show gapA.threshold = .int 1 from rfl, Gen.validate_threshold_ed]; norm_num
  · rw [Ne, Gen.validate_comp_op_for_sim_measure_ed]; decide

example (fr : Frame) (hfr : (editDistanceJoinPy gapA exT gapToks 4).result = .ok fr) :
    qualED gapA.compOp 1 "ab" "cb" = true ∧ ¬ InResult gapA gapL gapR fr [.int 1, .str "ab"] [.int 7, .str "cb"] := by
  refine ⟨(comparison_meaning 1 "ab" "cb").1.2 (by decide), fun h => ?_⟩
  have := ((exact gapA exT gapToks 4 gapL gapR fr 1 gap_valid rfl (by decide) hfr false (fun _ => rfl)
    [.int 1, .str "ab"] [.int 7, .str "cb"] (by decide) (by decide)
    (by unfold Present; decide) (by unfold Present; decide)).1 h).2
  revert this
  decide

end NonVacuity

end SSJ.Props.C03

/-
  C02 (wide threshold scope) — Set-similarity joins return only qualifying pairs, once, with true score.

  Companion of SSJ/Props/C02.lean (same namespace `SSJ.Props.C02`; property text, model and vocabulary as there).
  The C02 theorems never needed a restriction on the SIZE of the threshold (no `ThrOK`), but `setsim_sound` and
  `setsim_sound_of_keys` are stated for a Python FLOAT threshold (`a.threshold = .float thr`), which leaves out the
  threshold passed as the Python int `1` (accepted by the validation).

  WHAT CHANGED.  `setsim_sound_wide`, `setsim_sound_of_keys_wide`: the same statements with the comparison
  `Spec.qualRounded m a.compOp a.threshold A B` taken against the threshold VALUE `a.threshold : PyV`, whatever it is
  (every float in (0, 1] and the int `1` pass the validation; the theorems need no hypothesis on it at all — soundness
  does not depend on the pruning bounds being right, so there is no lower limit `thrLo` here).  `compFn` compares `PyV`
  values by Python semantics (int and float numerically).  `setsim_once`, `setsim_once_positions` of C02.lean already
  hold for every threshold value.

  STILL OUTSIDE: tokenizers / tables outside `InScope` (as in C02.lean).
-/
import SSJ.Proofs.EntryWide
import SSJ.Props.C02

namespace SSJ.Props.C02
open SSJ SSJ.Props

/-- `setsim_sound` for ANY threshold value: every row of the result either stems from a missing value, or names a
    pair of existing rows with present join values which is an accepted empty-empty pair (score 1.0) or a pair, not
    both empty, whose rounded similarity satisfies the comparison against `a.threshold` and is the reported score. -/
theorem setsim_sound_wide (m : Measure) (a : JoinArgs) (t : TokObj) (toks : TokFn) (cpu : Int)
    (l r : Frame) (hv : validateJoin m.name a t = .ok (l, r)) (hs : InScope (toks true) r)
    (fr : Frame) (hres : (setSimJoinPy m a t toks cpu).result = .ok fr) (row : Row) (hrow : row ∈ fr.rows) :
    (a.allowMissing = true ∧ ∃ ls ∈ l.rows, ∃ rs ∈ r.rows,
      (¬ Present l a.lAttr ls ∨ ¬ Present r a.rAttr rs) ∧
      rowKeys row = (keyOf l a.lKey ls, keyOf r a.rKey rs) ∧
      (a.outSimScore = true → rowScore row = Cell.missing)) ∨
    (∃ ls ∈ l.rows, ∃ rs ∈ r.rows, Present l a.lAttr ls ∧ Present r a.rAttr rs ∧
      rowKeys row = (keyOf l a.lKey ls, keyOf r a.rKey rs) ∧
      ((Spec.bothEmpty (tokensOf (toks true) l a.lAttr ls) (tokensOf (toks true) r a.rAttr rs) = true ∧
          a.allowEmpty = true ∧ (a.outSimScore = true → rowScore row = Cell.flt 1)) ∨
       (Spec.bothEmpty (tokensOf (toks true) l a.lAttr ls) (tokensOf (toks true) r a.rAttr rs) = false ∧
          Spec.qualRounded m a.compOp a.threshold (tokensOf (toks true) l a.lAttr ls)
            (tokensOf (toks true) r a.rAttr rs) = true ∧
          (a.outSimScore = true → rowScore row = scoreCell (Spec.score4 m (tokensOf (toks true) l a.lAttr ls)
            (tokensOf (toks true) r a.rAttr rs)))))) :=
  EntryWide.sound_any m a t toks cpu l r hv hs fr hres row hrow

/-- `setsim_sound_of_keys` for ANY threshold value: a result row carrying the keys of two rows `ls`, `rs` with present
    join values is about exactly that pair — an accepted empty-empty pair with 1.0, or a pair whose rounded similarity
    satisfies the comparison against `a.threshold` and is the reported score. -/
theorem setsim_sound_of_keys_wide (m : Measure) (a : JoinArgs) (t : TokObj) (toks : TokFn) (cpu : Int)
    (l r : Frame) (hv : validateJoin m.name a t = .ok (l, r)) (hs : InScope (toks true) r)
    (fr : Frame) (hres : (setSimJoinPy m a t toks cpu).result = .ok fr) (row : Row) (hrow : row ∈ fr.rows)
    (ls : Row) (hls : ls ∈ l.rows) (rs : Row) (hrs : rs ∈ r.rows)
    (hpl : Present l a.lAttr ls) (hpr : Present r a.rAttr rs)
    (hk : rowKeys row = (keyOf l a.lKey ls, keyOf r a.rKey rs)) :
    (Spec.bothEmpty (tokensOf (toks true) l a.lAttr ls) (tokensOf (toks true) r a.rAttr rs) = true ∧
        a.allowEmpty = true ∧ (a.outSimScore = true → rowScore row = Cell.flt 1)) ∨
    (Spec.bothEmpty (tokensOf (toks true) l a.lAttr ls) (tokensOf (toks true) r a.rAttr rs) = false ∧
        Spec.qualRounded m a.compOp a.threshold (tokensOf (toks true) l a.lAttr ls)
          (tokensOf (toks true) r a.rAttr rs) = true ∧
        (a.outSimScore = true → rowScore row = scoreCell (Spec.score4 m (tokensOf (toks true) l a.lAttr ls)
          (tokensOf (toks true) r a.rAttr rs)))) :=
  EntryWide.sound_of_keys_any m a t toks cpu l r hv hs fr hres row hrow ls hls rs hrs hpl hpr hk

/-! non-vacuity: the request of `EntrySetSim.Ex` with the threshold `2⁻³⁰` resp. the Python int `1`
    (`EntryWide.Ex.exArgsSmall`, `exArgsInt`) is valid and in scope; its result exists and contains a row for the key
    pair (1, 7) (C01, wide) — to which `setsim_sound_of_keys_wide` applies: the pair is not empty-empty, so its rounded
    similarity satisfies `>= threshold`. -/
section Example
open EntrySetSim.Ex EntryWide.Ex

example : ∃ fr, (setSimJoinPy .jaccard exArgsSmall {} exToks 4).result = .ok fr ∧
    ∃ row ∈ fr.rows, rowKeys row = (keyOf exL "id" exLs, keyOf exR "id" exRs) ∧
      Spec.qualRounded .jaccard ">=" (.float (1 / 2 ^ 30)) (tokensOf (exToks true) exL "s" exLs)
        (tokensOf (exToks true) exR "s" exRs) = true := by
  obtain ⟨fr, hres, row, hrow, hk, -⟩ :=
    EntryWide.complete_wide .jaccard exArgsSmall {} exToks 4 exL exR (Or.inl rfl) exValidSmall (thrSmall .jaccard) exScope
      exLs exLs_mem exRs exRs_mem exLs_present exRs_present exPair_nonempty exPair_qual_small (by decide +kernel)
  refine ⟨fr, hres, row, hrow, hk, ?_⟩
  rcases setsim_sound_of_keys_wide .jaccard exArgsSmall {} exToks 4 exL exR exValidSmall exScope fr hres row hrow
    exLs exLs_mem exRs exRs_mem exLs_present exRs_present hk with ⟨he, -, -⟩ | ⟨-, hq, -⟩
  · exact absurd he (by rw [show exArgsSmall.lAttr = exArgs.lAttr from rfl, show exArgsSmall.rAttr = exArgs.rAttr from rfl,
      exPair_nonempty]; decide)
  · exact hq

example : ∃ fr, (setSimJoinPy .jaccard exArgsInt {} exToks1 4).result = .ok fr ∧
    ∃ row ∈ fr.rows, rowKeys row = (keyOf exL "id" exLs, keyOf exR "id" exRs) ∧
      Spec.qualRounded .jaccard ">=" (.int 1) (tokensOf (exToks1 true) exL "s" exLs)
        (tokensOf (exToks1 true) exR "s" exRs) = true := by
  obtain ⟨fr, hres, row, hrow, hk, -⟩ :=
    EntryWide.complete_wide .jaccard exArgsInt {} exToks1 4 exL exR (Or.inl rfl) exValidInt .intOne exScope1
      exLs exLs_mem exRs exRs_mem exLs_present exRs_present exPair_nonempty1 exPair_qual_int (by decide +kernel)
  refine ⟨fr, hres, row, hrow, hk, ?_⟩
  rcases setsim_sound_of_keys_wide .jaccard exArgsInt {} exToks1 4 exL exR exValidInt exScope1 fr hres row hrow
    exLs exLs_mem exRs exRs_mem exLs_present exRs_present hk with ⟨he, -, -⟩ | ⟨-, hq, -⟩
  · exact absurd he (by rw [show exArgsInt.lAttr = exArgs.lAttr from rfl, show exArgsInt.rAttr = exArgs.rAttr from rfl,
      exPair_nonempty1]; decide)
  · exact hq

end Example

section AxiomCheck
#print axioms setsim_sound_wide
#print axioms setsim_sound_of_keys_wide
end AxiomCheck

end SSJ.Props.C02

/-
  C07 — A join equals filter_tables followed by apply_matcher.

  "For the set-similarity measures, applying any of the safe filters' filter_tables (size, prefix, position,
   overlap>=1) and then apply_matcher with the same tokenizer, the measure's similarity function, threshold and
   operator yields the same key pairs as the corresponding join, with scores equal after rounding to 4 decimals.
   For edit distance the join's result is contained in the pipeline's result and the two agree on every pair sharing
   a q-gram.  Quantifier: all tables, measures, thresholds, operators, filters used as the first stage, n_jobs of both
   stages; excluded from the comparison: pairs of two empty token sets (threshold-independent, see C09) and pairs
   whose raw and 4-decimal-rounded scores fall on different sides of the threshold."

  MODEL (entry points of lean/SSJ/Model/Frame.lean, Matcher.lean — DataFrame in, DataFrame out).  Three calls:
    the JOIN      `(setSimJoinPy m a t toks cpu).result = .ok J`   (m ∈ {jaccard, cosine, dice}), resp.
                  `(editDistanceJoinPy a t toks cpu).result = .ok J`,                 `a : JoinArgs`;
    STAGE 1       `filterTables k f (stage1Args a nj₁) t toks cpu₁ = .ok C`   (Size/Prefix/Position/SuffixFilter
                  constructed with the join's measure and threshold), or
                  `overlapFilterTables fo (stage1Args a nj₁) false (toks t.returnSet) cpu₁ = .ok C`
                  (OverlapFilter, overlap_size 1, '>=');
    STAGE 2       `applyMatcher (stage2Args a C nj₂) (some t | none) toks sim cpu₂ = .ok P`.
  `stage1Args a nj` are the join's tables, keys, join attributes and prefixes, NO output attributes, own `n_jobs`;
  `stage2Args a C nj` hand `apply_matcher` the candidate set `C` with key columns `l_pre+l_key`, `r_pre+r_key`, and
  the join's tables, keys, join attributes, threshold, operator, flags, output attributes, prefixes; own `n_jobs`
  (both unfolded by `rfl` in the section "vocabulary").  The three calls may run with different cpu counts.
  `sim` is the `sim_function` argument, a function of the two values it is handed:
    * set measures: the tokenizer is given, so it receives the two token LISTS as the tokenizer returns them, and it is
      py_stringmatching's `get_raw_score` of the measure: `sim (.toks A) (.toks B) = simRaw m A B`
      (exact-LIST-match shortcut 1.0, one side empty ↦ 0, else the double-precision formula on the set sizes);
    * edit distance: no tokenizer, it receives the raw strings: `sim (.raw (.str s)) (.raw (.str s')) = .int (lev s s')`.

  FORM OF THE STATEMENTS (vocabulary of C13): per pair of source rows `ls ∈ l.rows`, `rs ∈ r.rows` with present join
  values, about the key pair `(keyOf l a.lKey ls, keyOf r a.rKey rs)`:  `InResult fr kl kr` — some row of `fr` names
  the pair;  `ScoreOf fr kl kr s` — every row of `fr` naming it has `_sim_score` `s`.  No key pair occurs twice in a
  join result (C02/C03 `once`) and keys identify source rows, so "the same key pairs" is `InResult P ↔ InResult J`.

  WHAT IS PROVED.
    `pipeline_returns`, `pipeline_ed_returns` : stage 2 does not raise on the candidate set stage 1 produced.
    `pipeline_iff`  (jaccard / cosine / dice; first stage Size, Prefix, Position, Suffix filter or OverlapFilter(1, '>='))
        for a pair not both empty and NON-STRADDLING:  `InResult P ↔ InResult J`;  the pipeline reports
        `s = sim_function(tokens)` unrounded, the join reports `round(s, 4)` — "scores equal after rounding".
    `score_rounds_to_join_score` : `round(simRaw m A B, 4) = Spec.score4 m A B` for ALL duplicate-free token lists
        (< 2³² tokens) — the join's score in the vocabulary of C01/C02/C13 is the rounded pipeline score.  This covers
        the corner where the two token lists are the same SET in a different ORDER: the join (which sorts tokens)
        and `Spec.simSet` take the "equal ↦ 1.0" shortcut, `sim_function` on the unsorted lists evaluates the formula
        (e.g. cosine `n / (sqrt n · sqrt n)`, a few ulp off 1); both round to 1.0 (float reasoning, all three measures).
        FINDING (example after the theorem): cosine of {a, b} listed as [a, b] and [b, a] is `1 − 2⁻⁵²` for
        `sim_function` and 1.0 for the join, so at threshold 1.0 the pipeline drops a pair the join keeps — a
        straddling pair, excluded as the property says.
    `nonStraddling_implies_c13` : the exclusion used here implies the one of C13.
    `pipeline_ed`  (edit distance; first stage SizeFilter or PrefixFilter under EDIT_DISTANCE):
        `InResult J → InResult P` (containment), `InResult P ↔ InResult J` for pairs sharing a q-gram, both report
        the Levenshtein distance; plus the exact description of each side
        (`InResult P ↔ listed by stage 1 ∧ comparison holds`, `InResult J ↔ comparison holds ∧ common q-gram`).

  HYPOTHESES, in plain words.
    * the join's arguments pass its validation block (`validateJoin … = .ok (l, r)`); validity of the two stages'
      arguments is DERIVED from it (`EntryPipeline.stage1_valid`, `stage2_valid`);
    * ADDED (natural, needed so that the candidate set's key columns can be addressed by name): the prefixed key
      names `l_pre+l_key`, `r_pre+r_key` differ from `_id` and from each other — otherwise `C` has two columns of the
      same name and `candset[name]` is not a key column;
    * ADDED: the candidate set has fewer than 2⁴⁰ rows (hypothesis of C05: precision limit of `split_table`);
    * set measures: float threshold `thr`, `2⁻²⁰ ≤ thr ≤ 1` (`ThrOK`), `InScope` (set-mode tokenizer returns
      duplicate-free lists of < 2³² tokens, right table < 2⁴⁰ rows), the tokenizer object is IN SET MODE when the two
      stages run (`t.returnSet = true`; the join forces set mode itself, filter_tables and apply_matcher use the
      tokenizer as it is); the filter carries the join's measure and threshold; SuffixFilter (not required by the
      property, included) needs `prefThr m ≤ thr` as in C04;
      the pair is not both-empty and `NonStraddling`: `sim_function`'s value and its rounding to 4 decimals lie on the
      same side of the threshold — the pipeline tests the former, the join the latter;
    * edit distance: INT threshold `τ` (a float threshold is floored by the join but by neither stage), tokenizer in bag
      mode (`t.returnSet = false`) equal to the q-gram tokenizer `qgrams q pad`, `q = t.qval`; right table < 2⁴⁰ rows;
      the filter carries `EDIT_DISTANCE`, `τ` (and `q` for the PrefixFilter); the two join values are strings.
    Everything else — tables, other rows, operators (`>=`, `>`, `=` resp. `<=`, `<`, `=`), `n_jobs` and cpu count of
    each of the three calls, `allow_empty`, `allow_missing` of join and filter, output attributes, prefixes — is
    arbitrary.

  PositionFilter / SuffixFilter as first stage under EDIT_DISTANCE: NOT in this file (`FirstStageED` has the two
  constructors `size`, `prefix`), but PROVED in the companion SSJ/Props/C07_ed.lean (`pipeline_ed_position`,
  `pipeline_ed_suffix`, and `pipeline_ed_filter` for any of the four filters) from `C04.tables_safe_position_ed`
  (SSJ/Props/C04_ed.lean) and `C04.tables_safe_suffix_ed` (SSJ/Props/C04_suffix.lean).

  NOT COVERED: float edit-distance
  thresholds; rows for missing join values (C08) and the non-key, non-score columns (C09/C11) — for these the pipeline
  and the join agree by those properties separately; both-empty pairs (C09: the join lists them iff `allow_empty`,
  the pipeline iff the filter lists them, with score 1.0 = exact-match shortcut); straddling pairs.

  KNOWN FINDING K6 (why `t.returnSet = true` is a hypothesis).  The joins switch the supplied tokenizer to set mode for the
  duration of the call; `filter_tables` and `apply_matcher` use it as it is.  With a tokenizer in BAG mode (py_stringmatching's
  default) and a value with repeated tokens the pipeline "with the same tokenizer" differs from the join on the REAL code:
  `jaccard_join('a a a a b', 'a b')` at 0.8 returns the pair (score 1.0), `SizeFilter(tok, 'JACCARD', 0.8).filter_tables`
  drops it (5 tokens against 2).  The filters document the set-tokenizer assumption (C04 states it), C07's wording does not;
  recorded in /verif/known_findings.json, exercised as the fixed first case of the pipeline oracle.
-/
import SSJ.Proofs.EntryPipeline
import SSJ.Props.C03
import SSJ.Props.C04

namespace SSJ.Props.C07
open SSJ SSJ.Props SSJ.Spec SSJ.EntryPipeline
open SSJ.Props.C13 (InResult ScoreOf)

/-! ## vocabulary -/

/-- the two stages' arguments, unfolded -/
example (a : JoinArgs) (nj : Int) : stage1Args a nj =
    { ltable := a.ltable, rtable := a.rtable, lKey := a.lKey, rKey := a.rKey, lAttr := a.lAttr, rAttr := a.rAttr,
      lOut := none, rOut := none, lPre := a.lPre, rPre := a.rPre, nJobs := nj } := rfl
example (a : JoinArgs) (C : Frame) (nj : Int) : stage2Args a C nj =
    { candset := some C, candLKey := a.lPre ++ a.lKey, candRKey := a.rPre ++ a.rKey,
      ltable := a.ltable, rtable := a.rtable, lKey := a.lKey, rKey := a.rKey, lAttr := a.lAttr, rAttr := a.rAttr,
      threshold := a.threshold, compOp := a.compOp, allowMissing := a.allowMissing,
      lOut := a.lOut, rOut := a.rOut, lPre := a.lPre, rPre := a.rPre, outSimScore := a.outSimScore, nJobs := nj } := rfl

/-- the (prefixed) key column names of the candidate set are usable: different from `_id` and from each other -/
structure KeyNamesOK (a : JoinArgs) : Prop where
  left : a.lPre ++ a.lKey ≠ "_id"
  right : a.rPre ++ a.rKey ≠ "_id"
  distinct : a.lPre ++ a.lKey ≠ a.rPre ++ a.rKey

/-- `C` is what a SAFE first stage returned for the join `a` with measure `m` and threshold `thr`: `filter_tables` of a
    Size / Prefix / Position / Suffix filter carrying `m` and `thr` (SuffixFilter: `prefThr m ≤ thr`, see C04), or of
    OverlapFilter(overlap_size = 1, comp_op = '>='); any `allow_empty` / `allow_missing` of the filter, any `n_jobs`,
    any cpu count; the tokenizer is used as it is (`t.returnSet`) -/
inductive FirstStage (m : Measure) (thr : Rat) (a : JoinArgs) (t : TokObj) (toks : TokFn) (C : Frame) : Prop
  | filter (k : FilterKind) (f : FilterObj) (nj cpu : Int)
      (hsuffix : k = .suffix → prefThr m ≤ thr)
      (hmeas : f.cfg.measure = m) (hthr : f.cfg.threshold = .float thr)
      (hres : filterTables k f (stage1Args a nj) t toks cpu = .ok C)
  | overlap (fo : OverlapFilterObj) (nj cpu : Int)
      (hsize : fo.overlapSize = .int 1) (hop : fo.compOp = ">=")
      (hres : overlapFilterTables fo (stage1Args a nj) false (toks t.returnSet) cpu = .ok C)

/-- … and for edit distance with int threshold `tau` and q-grams of length `q`: SizeFilter or PrefixFilter under
    EDIT_DISTANCE -/
inductive FirstStageED (tau : Int) (q : Nat) (a : JoinArgs) (t : TokObj) (toks : TokFn) (C : Frame) : Prop
  | size (f : FilterObj) (nj cpu : Int)
      (hmeas : f.cfg.measure = .editDistance) (hthr : f.cfg.threshold = .int tau)
      (hres : filterTables .size f (stage1Args a nj) t toks cpu = .ok C)
  | prefix (f : FilterObj) (nj cpu : Int)
      (hcfg : f.cfg = { measure := .editDistance, threshold := .int tau, qval := .int q })
      (hres : filterTables .prefix f (stage1Args a nj) t toks cpu = .ok C)

/-- the value `sim_function` returns for the two token lists and its rounding to 4 decimals lie on the same side of
    the threshold `thr` under the comparison `op` (the second stage tests the former, the join the latter) -/
def NonStraddling (m : Measure) (op : String) (thr : Rat) (A B : List Tok) : Prop :=
  compFn op (simRaw m A B) (.float thr) = compFn op (PyV.round (simRaw m A B) (.int 4)) (.float thr)

/-! ## jaccard / cosine / dice -/

/-- SCORES AGREE AFTER ROUNDING, in the vocabulary of C01/C02/C13: rounded to 4 decimals, py_stringmatching's
    similarity of the two token LISTS (what `apply_matcher` reports) is `Spec.score4` (what the join reports) — for
    all duplicate-free lists of fewer than 2³² tokens, including two lists denoting the same set in different
    order, where the former evaluates the floating-point formula and the latter is the exact-match value 1.0. -/
theorem score_rounds_to_join_score (m : Measure) (hm : SetMeasure m) (A B : List Tok) (hA : A.Nodup) (hB : B.Nodup)
    (hAs : A.length < 2 ^ 32) (hBs : B.length < 2 ^ 32) :
    PyV.round (simRaw m A B) (.int 4) = score4 m A B :=
  round_simRaw_eq_score4 m hm A B hA hB hAs hBs

/-- FINDING (model level; why straddling must be excluded even at threshold 1.0).  For one and the same SET listed in
    two different ORDERS (py_stringmatching's set-mode tokenizers keep first-occurrence order: "a b" ↦ [a, b],
    "b a" ↦ [b, a]) `sim_function` does not take its exact-match shortcut: cosine is computed as
    `2 / (sqrt 2 · sqrt 2) = 1 − 2⁻⁵²`, while the join — which compares the globally SORTED token lists — reports 1.0.
    Rounded to 4 decimals both are 1.0 (`score_rounds_to_join_score`), but with threshold 1.0 and `>=` the join keeps
    the pair and the pipeline drops it: the pair straddles the threshold. -/
example : simRaw .cosine ["a", "b"] ["b", "a"] = .float (1 - 1 / 2 ^ 52) ∧
    simSet .cosine ["a", "b"] ["b", "a"] = .float 1 ∧
    PyV.round (simRaw .cosine ["a", "b"] ["b", "a"]) (.int 4) = .float 1 ∧
    ¬ NonStraddling .cosine ">=" 1 ["a", "b"] ["b", "a"] := by
  unfold NonStraddling
  decide +kernel

/-- the exclusion of straddling pairs used here implies the one used by C13 (w.r.t. the set similarity) -/
theorem nonStraddling_implies_c13 (m : Measure) (hm : SetMeasure m) (op : String) (thr : Rat) (A B : List Tok)
    (hA : A.Nodup) (hB : B.Nodup) (hAs : A.length < 2 ^ 32) (hBs : B.length < 2 ^ 32)
    (h : NonStraddling m op thr A B) : C13.NonStraddling m op thr A B :=
  c13_nonStraddling m hm op thr A B hA hB hAs hBs h

section SetSim
variable (m : Measure) (a : JoinArgs) (t : TokObj) (toks : TokFn) (l r : Frame)

/-- THE PIPELINE RUNS: on the candidate set a first stage returned (fewer than 2⁴⁰ rows), `apply_matcher` with the
    join's tokenizer, threshold and operator returns a frame — for any `sim_function`, `n_jobs`, cpu count. -/
theorem pipeline_returns (hm : SetMeasure m) (hv : validateJoin m.name a t = .ok (l, r)) (hnames : KeyNamesOK a)
    (thr : Rat) (C : Frame) (h1 : FirstStage m thr a t toks C) (hClen : C.rows.length < 2 ^ 40)
    (sim : SimArg → SimArg → PyV) (nj₂ cpu₂ : Int) :
    ∃ P, applyMatcher (stage2Args a C nj₂) (some t) toks sim cpu₂ = .ok P := by
  obtain ⟨-, -, hop⟩ := EntrySetSim.of_validateJoin hm hv
  have hop6 : a.compOp ∈ [">=", ">", "<=", "<", "=", "!="] := by
    simp only [List.mem_cons, List.not_mem_nil, or_false] at hop ⊢
    rcases hop with h | h | h <;> simp [h]
  cases h1 with
  | filter k f nj cpu₁ _ _ _ hres =>
    obtain ⟨hv1, hk1⟩ := stage1_valid m.name a t l r nj hv
    exact stage2_total m.name a t l r hv hop6 hnames.left hnames.right hnames.distinct nj
      (.filterTables k f (stage1Args a nj) t toks l r hv1 hk1) f.allowMissing nj cpu₁ C hres hClen
      (some t) (Or.inl rfl) toks sim nj₂ cpu₂
  | overlap fo nj cpu₁ _ _ hres =>
    obtain ⟨hv1, hk1⟩ := stage1_valid m.name a t l r nj hv
    exact stage2_total m.name a t l r hv hop6 hnames.left hnames.right hnames.distinct nj
      (.overlapFilterTables fo (stage1Args a nj) false (toks t.returnSet) l r hv1 hk1) fo.allowMissing nj cpu₁ C hres
      hClen (some t) (Or.inl rfl) toks sim nj₂ cpu₂

/-- C07 for JACCARD / COSINE / DICE.  Run a safe filter's `filter_tables` (candidate set `C`), then `apply_matcher`
    on `C` with the tokenizer (in set mode), the measure's similarity function, the join's threshold and operator
    (result `P`); run the join (result `J`).  For every pair of source rows with present join values, not both
    tokenizing to nothing and non-straddling:
      the pair is in the pipeline's result IFF it is in the join's result,
    and (when a score column is requested) the pipeline reports `s = sim_function(l_tokens, r_tokens)` and the join
    reports `round(s, 4)` — equal after rounding to 4 decimals. -/
theorem pipeline_iff (hm : SetMeasure m) (hv : validateJoin m.name a t = .ok (l, r)) (hnames : KeyNamesOK a)
    (thr : Rat) (hthr : a.threshold = .float thr) (hok : ThrOK thr)
    (hs : InScope (toks true) r) (hset : t.returnSet = true)
    -- stage 1: filter_tables of a safe filter
    (C : Frame) (h1 : FirstStage m thr a t toks C) (hClen : C.rows.length < 2 ^ 40)
    -- stage 2: apply_matcher with the measure's similarity function
    (sim : SimArg → SimArg → PyV) (hsim : ∀ A B, sim (.toks A) (.toks B) = simRaw m A B)
    (nj₂ cpu₂ : Int) (P : Frame) (h2 : applyMatcher (stage2Args a C nj₂) (some t) toks sim cpu₂ = .ok P)
    -- the join
    (cpu : Int) (J : Frame) (hJ : (setSimJoinPy m a t toks cpu).result = .ok J)
    -- the pair
    (ls rs : Row) (hls : ls ∈ l.rows) (hrs : rs ∈ r.rows)
    (hpl : Present l a.lAttr ls) (hpr : Present r a.rAttr rs)
    (hne : bothEmpty (tokensOf (toks true) l a.lAttr ls) (tokensOf (toks true) r a.rAttr rs) = false)
    (hns : NonStraddling m a.compOp thr (tokensOf (toks true) l a.lAttr ls) (tokensOf (toks true) r a.rAttr rs)) :
    (InResult P (keyOf l a.lKey ls) (keyOf r a.rKey rs) ↔ InResult J (keyOf l a.lKey ls) (keyOf r a.rKey rs)) ∧
    (a.outSimScore = true →
      ScoreOf P (keyOf l a.lKey ls) (keyOf r a.rKey rs)
        (scoreCell (simRaw m (tokensOf (toks true) l a.lAttr ls) (tokensOf (toks true) r a.rAttr rs))) ∧
      ScoreOf J (keyOf l a.lKey ls) (keyOf r a.rKey rs)
        (scoreCell (PyV.round (simRaw m (tokensOf (toks true) l a.lAttr ls) (tokensOf (toks true) r a.rAttr rs))
          (.int 4)))) := by
  cases h1 with
  | filter k f nj cpu₁ hsuffix hmeas hfthr hres =>
    -- safety of the first stage: `C04.tables_safe_size / _prefix / _position / _suffix`
    obtain ⟨hv1, hk1⟩ := stage1_valid m.name a t l r nj hv
    exact setsim_core m a t toks l r hm hv thr hthr hok hs hset hnames.left hnames.right hnames.distinct nj
      (.filterTables k f (stage1Args a nj) t toks l r hv1 hk1) f.allowMissing nj cpu₁ C hres hClen sim hsim nj₂ cpu₂ P h2
      cpu J hJ ls rs hls hrs hpl hpr hne
      (fun s hs1 hs2 => filter_stage_safe m a t toks l r hm m.name hv thr hok hs hset k f hsuffix hmeas hfthr nj cpu₁ C hres
        ls rs hls hrs hpl hpr hne s hs1 hs2)
      hns
  | overlap fo nj cpu₁ hsize hop hres =>
    -- safety of the first stage: a pair reaching a positive threshold has a common token, `C04.overlap_filter_tables_exact`
    obtain ⟨hv1, hk1⟩ := stage1_valid m.name a t l r nj hv
    exact setsim_core m a t toks l r hm hv thr hthr hok hs hset hnames.left hnames.right hnames.distinct nj
      (.overlapFilterTables fo (stage1Args a nj) false (toks t.returnSet) l r hv1 hk1) fo.allowMissing nj cpu₁ C hres hClen
      sim hsim nj₂ cpu₂ P h2 cpu J hJ ls rs hls hrs hpl hpr hne
      (fun s hs1 hs2 => overlap_stage_safe m a t toks l r hm m.name hv thr hok hs hset fo hsize hop nj cpu₁ C hres
        ls rs hls hrs hpl hpr hne s hs1 hs2)
      hns

end SetSim

/-! ## edit distance -/

section ED
variable (a : JoinArgs) (t : TokObj) (toks : TokFn) (l r : Frame)

/-- THE PIPELINE RUNS (edit distance): `apply_matcher` without tokenizer returns a frame on the candidate set of the
    first stage. -/
theorem pipeline_ed_returns (hv : validateJoin "EDIT_DISTANCE" a t = .ok (l, r)) (hnames : KeyNamesOK a)
    (tau : Int) (q : Nat) (C : Frame) (h1 : FirstStageED tau q a t toks C) (hClen : C.rows.length < 2 ^ 40)
    (sim : SimArg → SimArg → PyV) (nj₂ cpu₂ : Int) :
    ∃ P, applyMatcher (stage2Args a C nj₂) none toks sim cpu₂ = .ok P := by
  have hopED := EntryED.op_cases a.compOp ((validateJoin_ok_iff _ a t l r).1 hv).2.2.2.1
  have hop6 : a.compOp ∈ [">=", ">", "<=", "<", "=", "!="] := by
    rcases hopED with h | h | h <;> simp [h]
  cases h1 with
  | size f nj cpu₁ _ _ hres =>
    obtain ⟨hv1, hk1⟩ := stage1_valid _ a t l r nj hv
    exact stage2_total _ a t l r hv hop6 hnames.left hnames.right hnames.distinct nj
      (.filterTables .size f (stage1Args a nj) t toks l r hv1 hk1) f.allowMissing nj cpu₁ C hres hClen
      none (Or.inr rfl) toks sim nj₂ cpu₂
  | «prefix» f nj cpu₁ _ hres =>
    obtain ⟨hv1, hk1⟩ := stage1_valid _ a t l r nj hv
    exact stage2_total _ a t l r hv hop6 hnames.left hnames.right hnames.distinct nj
      (.filterTables .prefix f (stage1Args a nj) t toks l r hv1 hk1) f.allowMissing nj cpu₁ C hres hClen
      none (Or.inr rfl) toks sim nj₂ cpu₂

/-- C07 for EDIT DISTANCE (int threshold `τ`, q-gram tokenizer in bag mode).  Run SizeFilter's or PrefixFilter's
    `filter_tables` under EDIT_DISTANCE (candidate set `C`), then `apply_matcher` on `C` without tokenizer, with the
    Levenshtein distance as `sim_function` and the join's threshold and operator (result `P`); run the join (result
    `J`).  For every pair of source rows whose join values are the strings `s`, `s'`:
      * CONTAINMENT: if the pair is in the join's result it is in the pipeline's result;
      * AGREEMENT: if `s`, `s'` share a q-gram, the pair is in the pipeline's result IFF it is in the join's result;
      * both report the distance `lev s s'` as `_sim_score`;
      * exactly: the pipeline has the pair iff stage 1 lists it and the comparison holds; the join has it iff the
        comparison holds and the strings share a q-gram (C03). -/
theorem pipeline_ed (hv : validateJoin "EDIT_DISTANCE" a t = .ok (l, r)) (hnames : KeyNamesOK a)
    (tau : Int) (hthr : a.threshold = .int tau) (hrows : r.rows.length < 2 ^ 40)
    (hbag : t.returnSet = false) (q : Nat) (hq : t.qval = q) (pad : Bool) (htok : ∀ s, toks false s = qgrams q pad s)
    -- stage 1: filter_tables of SizeFilter / PrefixFilter under EDIT_DISTANCE
    (C : Frame) (h1 : FirstStageED tau q a t toks C) (hClen : C.rows.length < 2 ^ 40)
    -- stage 2: apply_matcher, no tokenizer, Levenshtein distance on the raw strings
    (sim : SimArg → SimArg → PyV) (hsim : ∀ s s', sim (.raw (.str s)) (.raw (.str s')) = .int (lev s s'))
    (nj₂ cpu₂ : Int) (P : Frame) (h2 : applyMatcher (stage2Args a C nj₂) none toks sim cpu₂ = .ok P)
    -- the join
    (cpu : Int) (J : Frame) (hJ : (editDistanceJoinPy a t toks cpu).result = .ok J)
    -- the pair
    (ls rs : Row) (hls : ls ∈ l.rows) (hrs : rs ∈ r.rows)
    (s s' : String) (hsl : valOf l a.lAttr ls = .str s) (hsr : valOf r a.rAttr rs = .str s') :
    (InResult J (keyOf l a.lKey ls) (keyOf r a.rKey rs) → InResult P (keyOf l a.lKey ls) (keyOf r a.rKey rs)) ∧
    (shareToken (qgrams q pad) s s' = true →
      (InResult P (keyOf l a.lKey ls) (keyOf r a.rKey rs) ↔ InResult J (keyOf l a.lKey ls) (keyOf r a.rKey rs))) ∧
    (a.outSimScore = true →
      ScoreOf P (keyOf l a.lKey ls) (keyOf r a.rKey rs) (.int (lev s s')) ∧
      ScoreOf J (keyOf l a.lKey ls) (keyOf r a.rKey rs) (.int (lev s s'))) ∧
    (InResult P (keyOf l a.lKey ls) (keyOf r a.rKey rs) ↔
      InResult C (keyOf l a.lKey ls) (keyOf r a.rKey rs) ∧ qualED a.compOp tau s s' = true) ∧
    (InResult J (keyOf l a.lKey ls) (keyOf r a.rKey rs) ↔
      qualED a.compOp tau s s' = true ∧ shareToken (qgrams q pad) s s' = true) := by
  have hpl : Present l a.lAttr ls := by unfold Present; rw [hsl]; rfl
  have hpr : Present r a.rAttr rs := by unfold Present; rw [hsr]; rfl
  have hstrL : strOf l a.lAttr ls = s := by unfold strOf; rw [hsl]; rfl
  have hstrR : strOf r a.rAttr rs = s' := by unfold strOf; rw [hsr]; rfl
  have hopED := EntryED.op_cases a.compOp ((validateJoin_ok_iff _ a t l r).1 hv).2.2.2.1
  have htok' : ∀ x, toks t.returnSet x = qgrams q pad x := by rw [hbag]; exact htok
  have hd' : qualED "<=" tau s s' = true → qualED "<=" tau (strOf l a.lAttr ls) (strOf r a.rAttr rs) = true := by
    rw [hstrL, hstrR]; exact id
  have hsh' : shareToken (qgrams q pad) s s' = true →
      shareToken (qgrams q pad) (strOf l a.lAttr ls) (strOf r a.rAttr rs) = true := by
    rw [hstrL, hstrR]; exact id
  -- stage 1 is safe for the pair (C04) and is an entry point in the sense of `TableCall`
  have key : (qualED "<=" tau s s' = true → shareToken (qgrams q pad) s s' = true →
        InResult C (keyOf l a.lKey ls) (keyOf r a.rKey rs)) ∧
      (InResult P (keyOf l a.lKey ls) (keyOf r a.rKey rs) ↔
        InResult C (keyOf l a.lKey ls) (keyOf r a.rKey rs) ∧ qualED a.compOp tau s s' = true) ∧
      (InResult J (keyOf l a.lKey ls) (keyOf r a.rKey rs) ↔
        qualED a.compOp tau s s' = true ∧ shareToken (qgrams q pad) s s' = true) ∧
      (a.outSimScore = true →
        ScoreOf P (keyOf l a.lKey ls) (keyOf r a.rKey rs) (.int (lev s s')) ∧
        ScoreOf J (keyOf l a.lKey ls) (keyOf r a.rKey rs) (.int (lev s s'))) := by
    cases h1 with
    | size f nj cpu₁ hmeas hfthr hres =>
      obtain ⟨hv1, hk1⟩ := stage1_valid _ a t l r nj hv
      refine ⟨fun hd hsh => ?_, ed_core a t toks l r hv tau hthr hrows q hq pad htok hnames.left hnames.right
        hnames.distinct nj (.filterTables .size f (stage1Args a nj) t toks l r hv1 hk1) f.allowMissing nj cpu₁ C hres
        hClen sim hsim nj₂ cpu₂ P h2 cpu J hJ ls rs hls hrs s s' hsl hsr⟩
      exact C04.tables_safe_size_ed f tau q pad (stage1Args a nj) t toks cpu₁ l r C hv1 hk1 hrows htok' hmeas hfthr hres
        ls rs hls hrs hpl hpr (hd' hd) (hsh' hsh)
    | «prefix» f nj cpu₁ hcfg hres =>
      obtain ⟨hv1, hk1⟩ := stage1_valid _ a t l r nj hv
      refine ⟨fun hd hsh => ?_, ed_core a t toks l r hv tau hthr hrows q hq pad htok hnames.left hnames.right
        hnames.distinct nj (.filterTables .prefix f (stage1Args a nj) t toks l r hv1 hk1) f.allowMissing nj cpu₁ C hres
        hClen sim hsim nj₂ cpu₂ P h2 cpu J hJ ls rs hls hrs s s' hsl hsr⟩
      exact C04.tables_safe_prefix_ed f tau q pad (stage1Args a nj) t toks cpu₁ l r C hv1 hk1 hrows htok' hcfg hres
        ls rs hls hrs hpl hpr (hd' hd) (hsh' hsh)
  obtain ⟨hsafe, hP, hJ', hscore⟩ := key
  -- a pair satisfying the comparison is within distance τ
  have hle : qualED a.compOp tau s s' = true → qualED "<=" tau s s' = true := fun h =>
    (EntryED.qualED_le_iff _ _ _).2 (EntryED.qualED_dist_le a.compOp hopED tau s s' h)
  refine ⟨?_, ?_, hscore, hP, hJ'⟩
  · intro h
    obtain ⟨hq', hsh⟩ := hJ'.1 h
    exact hP.2 ⟨hsafe (hle hq') hsh, hq'⟩
  · intro hsh
    rw [hP, hJ']
    exact ⟨fun h => ⟨h.2, hsh⟩, fun h => ⟨hsafe (hle h.1) hsh, h.1⟩⟩

end ED

/-! ## non-vacuity -/

/-! (1) The request of `EntrySetSim.Ex` — `jaccard_join(exL, exR, 'id', 'id', 's', 's', tok, 0.5, allow_missing=True,
    n_jobs=2)`, left rows (1,"ab") (2,"") (3,NaN) (4,"x"), right rows (7,"abc") (8,"") (9,NaN) — with the tokenizer in
    set mode.  Stage 1: `SizeFilter(tok, 'JACCARD', 0.5).filter_tables(…, n_jobs=2)` on 4 cpus returns the candidate set
    `exC` = {(1,7), (2,8)} (evaluated by the kernel); stage 2 runs with `n_jobs=3` on 8 cpus.  All hypotheses of
    `pipeline_returns` and `pipeline_iff` hold for the pair ((1,"ab"), (7,"abc")) (Jaccard = the double nearest 2/3,
    0.6667 after rounding: non-straddling for 0.5), so both results name the key pair (1, 7). -/
section NonVacuity
open EntrySetSim.Ex F64

def exT : TokObj := { returnSet := true }

/-- py_stringmatching's Jaccard `get_raw_score` as a `sim_function` -/
def exSimFn : SimArg → SimArg → PyV
  | .toks A, .toks B => simRaw .jaccard A B
  | _, _ => .err .typeErr

def exC : Frame :=
  { columns := ["_id", "l_id", "r_id"]
    index := [Cell.int 0, Cell.int 0]
    rows := [[.int 0, .int 1, .int 7], [.int 1, .int 2, .int 8]] }

theorem ex_valid : validateJoin Measure.jaccard.name exArgs exT = .ok (exL, exR) := by decide +kernel

theorem ex_names : KeyNamesOK exArgs := ⟨by decide, by decide, by decide⟩

theorem ex_stage1 :
    filterTables .size { cfg := cfgOf .jaccard (1 / 2) } (stage1Args exArgs 2) exT exToks 4 = .ok exC := by
  decide +kernel

theorem ex_first : FirstStage .jaccard (1 / 2) exArgs exT exToks exC :=
  .filter .size { cfg := cfgOf .jaccard (1 / 2) } 2 4 (fun h => by cases h) rfl rfl ex_stage1

/-- … the OverlapFilter(1, '>=') is a first stage for the same request as well (candidate set {(1,7)}) -/
example : FirstStage .jaccard (1 / 2) exArgs exT exToks
    { columns := ["_id", "l_id", "r_id"], index := [Cell.int 0], rows := [[.int 0, .int 1, .int 7]] } :=
  .overlap { overlapSize := .int 1, compOp := ">=" } 2 4 rfl rfl (by decide +kernel)

theorem ex_nonStraddling : NonStraddling .jaccard exArgs.compOp (1 / 2)
    (tokensOf (exToks true) exL exArgs.lAttr exLs) (tokensOf (exToks true) exR exArgs.rAttr exRs) := by
  rw [exLs_tokens, exRs_tokens]
  have hraw : simRaw .jaccard ["a", "b"] ["a", "b", "c"] = .float (rn (2 / 3)) := by
    rw [simRaw_eq_simSet .jaccard _ _ (by decide) (by decide) (fun h => absurd h (by decide))]
    exact exSim
  have h1 := EntryLaws.Ex.exRaw_gt
  have h2 := EntryLaws.Ex.exRounded_gt
  have h1' : (1 / 2 : Rat) ≤ rn (2 / 3) := by linarith
  have h2' : (1 / 2 : Rat) ≤ round4 (rn (2 / 3)) := by linarith
  unfold NonStraddling
  rw [hraw, round4_f]
  show compFn ">=" _ _ = compFn ">=" _ _
  simp only [EntryLaws.compFn_ge, PyV.geb, PyV.leb, PyV.numVal?]
  rw [decide_eq_true h1', decide_eq_true h2']

example : ∃ P J, applyMatcher (stage2Args exArgs exC 3) (some exT) exToks exSimFn 8 = .ok P ∧
    (setSimJoinPy .jaccard exArgs exT exToks 4).result = .ok J ∧
    InResult P (.int 1) (.int 7) ∧ InResult J (.int 1) (.int 7) := by
  obtain ⟨P, hP⟩ := pipeline_returns .jaccard exArgs exT exToks exL exR (Or.inl rfl) ex_valid ex_names (1 / 2) exC
    ex_first (by decide) exSimFn 3 8
  obtain ⟨J, hJ, row, hrow, hk, -⟩ := C01.setsim_complete .jaccard (Or.inl rfl) exArgs exT exToks 4 exL exR ex_valid
    (1 / 2) rfl exThr exScope exLs exLs_mem exRs exRs_mem exLs_present exRs_present exPair_nonempty exPair_qual
    (by decide +kernel)
  have hkeys : (keyOf exL exArgs.lKey exLs, keyOf exR exArgs.rKey exRs) = (Cell.int 1, Cell.int 7) := by decide +kernel
  have hJin : InResult J (keyOf exL exArgs.lKey exLs) (keyOf exR exArgs.rKey exRs) := ⟨row, hrow, hk⟩
  have hiff := (pipeline_iff .jaccard exArgs exT exToks exL exR (Or.inl rfl) ex_valid ex_names (1 / 2) rfl exThr exScope
    rfl exC ex_first (by decide) exSimFn (fun _ _ => rfl) 3 8 P hP 4 J hJ exLs exRs exLs_mem exRs_mem exLs_present
    exRs_present exPair_nonempty ex_nonStraddling).1
  have hPin := hiff.2 hJin
  rw [Prod.mk.injEq] at hkeys
  rw [hkeys.1, hkeys.2] at hPin hJin
  exact ⟨P, J, hP, hJ, hPin, hJin⟩

/-! (2) Edit distance: the tables of `C03`'s example, int threshold 1, `<=`, padded 2-grams in bag mode.  Stage 1:
    `SizeFilter(qg2, 'EDIT_DISTANCE', 1).filter_tables(…, n_jobs=2)` returns {(1,7), (1,8)}; ("abc", "abd") are at
    distance 1 and share the 2-gram "ab": the join has the pair, hence (containment) so has the pipeline; ("abc", "xyz")
    passes the size filter but not the matcher. -/

def edA : JoinArgs :=
  { ltable := some C03.exL, rtable := some C03.exR, lKey := "id", rKey := "id", lAttr := "name", rAttr := "name",
    threshold := .int 1, compOp := "<=", nJobs := 2 }

def edC : Frame :=
  { columns := ["_id", "l_id", "r_id"]
    index := [Cell.int 0, Cell.int 0]
    rows := [[.int 0, .int 1, .int 7], [.int 1, .int 1, .int 8]] }

/-- Levenshtein distance on the raw strings as a `sim_function` -/
def edSimFn : SimArg → SimArg → PyV
  | .raw (.str s), .raw (.str s') => .int (lev s s')
  | _, _ => .err .typeErr

theorem ed_valid : validateJoin "EDIT_DISTANCE" edA C03.exT = .ok (C03.exL, C03.exR) := by
  rw [validateJoin_ok_iff]
  refine ⟨⟨rfl, rfl, by decide, by decide, by decide, by decide, by decide, by decide⟩, ⟨rfl, fun _ => rfl⟩, ?_, ?_,
    ⟨by decide, by decide⟩, (keyTest_iff _ _).1 (by decide), (keyTest_iff _ _).1 (by decide)⟩
  · rw [Ne, show edA.threshold = .int 1 from rfl, Gen.validate_threshold_ed]; norm_num
  · rw [Ne, Gen.validate_comp_op_for_sim_measure_ed]; decide

theorem ed_first : FirstStageED 1 2 edA C03.exT C03.exToks edC :=
  .size { cfg := { measure := .editDistance, threshold := .int 1, qval := .int 2 } } 2 4 rfl rfl (by decide +kernel)

example : ∃ P J, applyMatcher (stage2Args edA edC 3) none C03.exToks edSimFn 8 = .ok P ∧
    (editDistanceJoinPy edA C03.exT C03.exToks 4).result = .ok J ∧
    InResult J (.int 1) (.int 7) ∧ InResult P (.int 1) (.int 7) ∧ ¬ InResult P (.int 1) (.int 8) := by
  obtain ⟨P, hP⟩ := pipeline_ed_returns edA C03.exT C03.exToks C03.exL C03.exR ed_valid ⟨by decide, by decide, by decide⟩
    1 2 edC ed_first (by decide) edSimFn 3 8
  obtain ⟨J, hJ⟩ := C03.returns_frame edA C03.exT C03.exToks 4 C03.exL C03.exR 1 ed_valid rfl (by decide +kernel)
  have h7 := pipeline_ed edA C03.exT C03.exToks C03.exL C03.exR ed_valid ⟨by decide, by decide, by decide⟩ 1 rfl
    (by decide) rfl 2 rfl true (fun _ => rfl) edC ed_first (by decide) edSimFn (fun _ _ => rfl) 3 8 P hP 4 J hJ
    [.int 1, .str "abc"] [.int 7, .str "abd"] (by decide) (by decide) "abc" "abd" (by decide) (by decide)
  have h8 := pipeline_ed edA C03.exT C03.exToks C03.exL C03.exR ed_valid ⟨by decide, by decide, by decide⟩ 1 rfl
    (by decide) rfl 2 rfl true (fun _ => rfl) edC ed_first (by decide) edSimFn (fun _ _ => rfl) 3 8 P hP 4 J hJ
    [.int 1, .str "abc"] [.int 8, .str "xyz"] (by decide) (by decide) "abc" "xyz" (by decide) (by decide)
  have hJin : InResult J (.int 1) (.int 7) :=
    h7.2.2.2.2.2 ⟨(C03.comparison_meaning 1 "abc" "abd").1.2 (by decide), by decide⟩
  refine ⟨P, J, hP, hJ, hJin, h7.1 hJin, fun h => ?_⟩
  have := (h8.2.2.2.1.1 h).2
  rw [show edA.compOp = "<=" from rfl, EntryED.qualED_le_iff] at this
  revert this
  decide

end NonVacuity

section AxiomCheck
#print axioms score_rounds_to_join_score
#print axioms nonStraddling_implies_c13
#print axioms pipeline_returns
#print axioms pipeline_iff
#print axioms pipeline_ed_returns
#print axioms pipeline_ed
end AxiomCheck

end SSJ.Props.C07

/-
  C04 (continued) — FLOAT thresholds under EDIT_DISTANCE and OVERLAP: no qualifying pair is dropped.

  PROPERTY (C04).  "For SizeFilter, PrefixFilter, PositionFilter and SuffixFilter under … OVERLAP or EDIT_DISTANCE … a pair
  of present values whose similarity meets the filter's threshold (>= for similarities; <= for edit distance, where the
  pair must also share a q-gram) is never dropped: filter_pair reports it as not dropped, filter_tables lists it."
  SSJ/Props/C04.lean, C04_ed.lean, C04_suffix.lean prove this for INT thresholds.  The documented type of `threshold`
  is float.

  FINDING F9 (repaired in filter_utils.py).  Before the repair every FLOAT threshold under EDIT_DISTANCE or OVERLAP made
  Prefix/Position/SuffixFilter (and SizeFilter.filter_tables) raise TypeError: `min(q*threshold + 1, n)` was used as a
  slice index, `xrange(n - threshold, …)` got a float.  The repair makes every bound of `filter_utils` an int:
      get_size_lower_bound   EDIT_DISTANCE  int(ceil(num_tokens - threshold))           OVERLAP  int(ceil(threshold))
      get_size_upper_bound   EDIT_DISTANCE  int(floor(num_tokens + threshold))
      get_prefix_length      EDIT_DISTANCE  int(min(qval * threshold + 1, num_tokens))  OVERLAP  int(max(num_tokens - threshold + 1, 0))
      get_overlap_threshold  EDIT_DISTANCE  int(ceil(max(l + q - 1, r + q - 1) - q + 1 - q * threshold))
                                                                                        OVERLAP  int(ceil(threshold))
  With a float threshold `t` these are computed in binary64 (`q * t`, `n - t`, `… + 1` are each rounded to nearest) and
  then truncated.  The theorems of this file say that the repaired formulas are SAFE for float thresholds.

  MODEL.  `filterPair k f tok l r` (`filter_pair` of the filter of kind `k`; `true` = dropped) and
  `filterTables k f a t toks cpu` (`filter_tables`, entry level: validations, projection, dropna, chunking by `n_jobs`,
  `_filter_tables_split` per chunk, missing-value pairs, `_id`), SSJ/Model/Frame.lean; the bounds are the GENERATED
  `SSJ/Gen/FilterUtils.lean` (translation of the repaired filter_utils.py) on the float value `.float t`.

  HOW.  Under a float threshold `t` every bound the filters use is at least as permissive as under the int threshold
  `⌊t⌋` (EDIT_DISTANCE) resp. `⌈t⌉` (OVERLAP) — `ed_float_at_least_as_permissive`, `overlap_float_at_least_as_permissive`:
  rounding to nearest never crosses a representable integer (`F64.rn_le_int`, `rn_ge_int`), so
  `⌈rn(n − t)⌉ ≤ n − ⌊t⌋`, `⌊rn(n + t)⌋ ≥ n + ⌊t⌋`, `⌊rn(rn(q·t) + 1)⌋ ≥ q·⌊t⌋ + 1`, `⌈rn(max(l,r) − rn(q·t))⌉ ≤ max(l,r) − q·⌊t⌋`,
  `⌊rn(rn(n − t) + 1)⌋ ≥ n − ⌈t⌉ + 1`.  The prefix may be LONGER and the required overlap SMALLER than with `⌊t⌋`; the four
  filters are safe for any such bounds (`SSJ.FloatThr.EdBounds`, SSJ/Proofs/FloatThr.lean: the proofs of C04.lean /
  C04_ed.lean / C04_suffix.lean redone for bounds that are only known up to these inequalities).
  A pair is within the float threshold, `lev s u ≤ t`, iff it is within `⌊t⌋` (`within_float_iff`).

  HYPOTHESES / SCOPE in plain words.
    * EDIT_DISTANCE: the filter object carries the float threshold `t` (any rational — in particular any double — with
      `0 ≤ t ≤ 2³⁰`) and `qval = q ≤ 2¹⁰` (`f.cfg = { measure := .editDistance, threshold := .float t, qval := .int q }`;
      SizeFilter: only measure and threshold matter); the tokenizer is the q-gram tokenizer `qgrams q pad` (bag mode,
      padded or not); the two strings have fewer than 2³² q-grams (binary64 is exact on these magnitudes; not an
      enumeration bound); they are at Levenshtein distance `≤ t` and (except SizeFilter.filter_pair) share a q-gram.
    * OVERLAP: float threshold `0 < t ≤ 2³⁰`, any of the four filters, a tokenizer returning duplicate-free lists, the two
      token sets have fewer than 2³² tokens and at least `⌈t⌉` common tokens (i.e. `|A ∩ B| ≥ t`).
      For `t ≤ 1` and a tiny `t` the computed prefix length can be `n + 1 > n` (`int(max(n − t + 1, 0))` with `n − t`
      rounding to `n`); the SuffixFilter is still safe there: the required overlap is 1 and `_filter_suffix` leaves
      through its early exit (`SSJ.FloatThr.suffixFilterSuffixN_overlap_small`).
    * filter_tables: the call's table arguments passed validation, the right table has fewer than 2⁴⁰ rows; everything
      else (out attributes, prefixes, `n_jobs`, cpu count, `allow_empty`, `allow_missing`) is arbitrary.

  NOT COVERED: thresholds above 2³⁰, `q > 2¹⁰`, strings with 2³² or more q-grams.  (`filter_candset`:
  `candset_safe_ed_float`, `candset_safe_overlap_float`, from the `pair_safe_*` theorems with `C04.candset_safe_of_pair`.)
  NOTHING FALSE WAS FOUND: within the scope above there is no float threshold for which the repaired formulas drop a
  qualifying pair (the theorems below are unconditional in `t`).
-/
import SSJ.Proofs.FloatThr
import SSJ.Props.C04_suffix

namespace SSJ.Props.C04
open SSJ SSJ.Spec SSJ.Props

/-! ## the float threshold against the int thresholds `⌊t⌋`, `⌈t⌉` -/

/-- a pair is within the float threshold `t` iff it is within the int threshold `⌊t⌋` (`Spec.qualED`) -/
theorem within_float_iff (t : Rat) (s u : String) :
    ((lev s u : Nat) : Rat) ≤ t ↔ qualED "<=" t.floor s u = true := by
  rw [EntryED.qualED_le_iff, FloatThr.lev_le_floor_iff]

/-- EDIT_DISTANCE: with the float threshold `t` every generated bound is at least as permissive as with the int
    threshold `⌊t⌋`, for all token counts below 2³²: the size window is wider, the prefix at least as long, the
    required overlap at most as large -/
theorem ed_float_at_least_as_permissive (t : Rat) (q : Nat) (ht0 : 0 ≤ t) (ht1 : t ≤ 2 ^ 30) (hq : q ≤ 2 ^ 10)
    (cf ci : FCfg) (hcf : cf = { measure := .editDistance, threshold := .float t, qval := .int q })
    (hci : ci = { measure := .editDistance, threshold := .int t.floor, qval := .int q })
    (n k : Nat) (hn : n < 2 ^ 32) (hk : k < 2 ^ 32) :
    cf.lower n ≤ ci.lower n ∧ ci.upper n ≤ cf.upper n ∧ ci.prefixLen n ≤ cf.prefixLen n ∧ cf.ovThr n k ≤ ci.ovThr n k := by
  subst hcf hci
  obtain ⟨f0, -, -⟩ := FloatThr.floor_bounds t ht0 ht1
  have hb := FloatThr.edBounds_float t q ht0 ht1 hq
  rw [EntryFilters.lower_ed (EntryFilters.edCfg t.floor q) t.floor rfl rfl,
    EntryFilters.upper_ed (EntryFilters.edCfg t.floor q) t.floor rfl rfl,
    EntryFilters.ovThr_ed (EntryFilters.edCfg t.floor q) t.floor q rfl rfl rfl, prefixLen_ed]
  have hqt : 0 ≤ (q : Int) * t.floor := Int.mul_nonneg (Int.natCast_nonneg q) f0
  have hK : ((((q : Int) * t.floor).toNat : Nat) : Int) = (q : Int) * t.floor := Int.toNat_of_nonneg hqt
  have h4 : (FloatThr.edCfgF t q).ovThr n k ≤ max (n : Int) k - (q : Int) * t.floor := by
    have := hb.ovThr n k hn hk; rw [hK] at this; exact this
  refine ⟨hb.lower n hn, hb.upper n hn, ?_, h4⟩
  by_cases hn0 : n = 0
  · subst hn0
    rw [if_pos rfl, FloatThr.prefixLen_ed_f t q ht0 ht1 hq, if_pos rfl]
  · rw [if_neg hn0, hb.pref n hn0 hn]
    have := hb.hK
    omega

/-- OVERLAP: with the float threshold `t` the size lower bound and the required overlap are those of the int
    threshold `⌈t⌉`, and the prefix is at least as long, for all token counts `⌈t⌉ ≤ n < 2³²` -/
theorem overlap_float_at_least_as_permissive (t : Rat) (ht0 : 0 < t) (ht1 : t ≤ 2 ^ 30)
    (cf ci : FCfg) (hcf : cf = { measure := .overlap, threshold := .float t })
    (hci : ci = { measure := .overlap, threshold := .int t.ceil })
    (n k : Nat) (hn : n < 2 ^ 32) (hc : t.ceil ≤ n) :
    cf.lower n = ci.lower n ∧ cf.upper n = ci.upper n ∧ ci.prefixLen n ≤ cf.prefixLen n ∧ cf.ovThr n k = ci.ovThr n k := by
  subst hcf hci
  have hc1 := FloatThr.ceil_pos t ht0
  have hn0 : n ≠ 0 := by omega
  rw [EntryFilters.lower_overlap { measure := .overlap, threshold := .int t.ceil } t.ceil rfl rfl,
    EntryFilters.upper_overlap { measure := .overlap, threshold := .int t.ceil } rfl,
    EntryFilters.upper_overlap { measure := .overlap, threshold := .float t } rfl,
    EntryFilters.ovThr_overlap { measure := .overlap, threshold := .int t.ceil } t.ceil rfl rfl,
    EntryFilters.prefixLen_overlap { measure := .overlap, threshold := .int t.ceil } t.ceil rfl rfl, if_neg hn0,
    FloatThr.lower_overlap_f { measure := .overlap, threshold := .float t } t rfl rfl,
    FloatThr.ovThr_overlap_f { measure := .overlap, threshold := .float t } t rfl rfl]
  refine ⟨rfl, rfl, ?_, rfl⟩
  have := FloatThr.prefixLen_overlap_f_ge { measure := .overlap, threshold := .float t } t rfl rfl ht0 ht1 n hn hn0 hc
  omega

/-! ## EDIT_DISTANCE, float threshold `0 ≤ t ≤ 2³⁰`, bags of q-grams -/

section EditDistanceFloat
variable (f : FilterObj) (t : Rat) (q : Nat) (pad : Bool) (ht0 : 0 ≤ t) (ht1 : t ≤ 2 ^ 30)
include ht0 ht1

/-- SizeFilter.filter_pair keeps every pair of present strings within distance `t` (float threshold); any `q`, padded
    or not, whether or not they share a q-gram -/
theorem pair_safe_size_ed_float (hm : f.cfg.measure = .editDistance) (hthr : f.cfg.threshold = .float t)
    (l r : Cell) (hl : l.isMissing = false) (hr : r.isMissing = false)
    (hnl : (qgrams q pad l.strVal).length < 2 ^ 32)
    (hd : ((lev l.strVal r.strVal : Nat) : Rat) ≤ t) :
    filterPair .size f (qgrams q pad) l r = false :=
  FloatThr.sizeFilterPair_safe_ed_f f t q pad ht0 ht1 hm hthr l r hl hr hnl hd

/-- PrefixFilter.filter_pair keeps every pair of present strings within distance `t` (float threshold) which share a
    q-gram -/
theorem pair_safe_prefix_ed_float (hq : q ≤ 2 ^ 10)
    (hf : f.cfg = { measure := .editDistance, threshold := .float t, qval := .int q })
    (l r : Cell) (hl : l.isMissing = false) (hr : r.isMissing = false)
    (hnl : (qgrams q pad l.strVal).length < 2 ^ 32) (hnr : (qgrams q pad r.strVal).length < 2 ^ 32)
    (hd : ((lev l.strVal r.strVal : Nat) : Rat) ≤ t)
    (hshare : shareToken (qgrams q pad) l.strVal r.strVal = true) :
    filterPair .prefix f (qgrams q pad) l r = false :=
  FloatThr.filterPair_safe_qg f _ _ q _ (by rw [hf]; exact FloatThr.edBounds_float t q ht0 ht1 hq) pad .prefix (by decide)
    l r hl hr hnl hnr ((FloatThr.lev_le_floor_iff t _).2 hd) hshare

/-- PositionFilter.filter_pair keeps every pair of present strings within distance `t` (float threshold) which share
    a q-gram -/
theorem pair_safe_position_ed_float (hq : q ≤ 2 ^ 10)
    (hf : f.cfg = { measure := .editDistance, threshold := .float t, qval := .int q })
    (l r : Cell) (hl : l.isMissing = false) (hr : r.isMissing = false)
    (hnl : (qgrams q pad l.strVal).length < 2 ^ 32) (hnr : (qgrams q pad r.strVal).length < 2 ^ 32)
    (hd : ((lev l.strVal r.strVal : Nat) : Rat) ≤ t)
    (hshare : shareToken (qgrams q pad) l.strVal r.strVal = true) :
    filterPair .position f (qgrams q pad) l r = false :=
  FloatThr.filterPair_safe_qg f _ _ q _ (by rw [hf]; exact FloatThr.edBounds_float t q ht0 ht1 hq) pad .position (by decide)
    l r hl hr hnl hnr ((FloatThr.lev_le_floor_iff t _).2 hd) hshare

/-- SuffixFilter.filter_pair (code repaired by commit 113c284) keeps every pair of present strings within distance `t`
    (float threshold) which share a q-gram -/
theorem pair_safe_suffix_ed_float (hq : q ≤ 2 ^ 10)
    (hf : f.cfg = { measure := .editDistance, threshold := .float t, qval := .int q })
    (l r : Cell) (hl : l.isMissing = false) (hr : r.isMissing = false)
    (hnl : (qgrams q pad l.strVal).length < 2 ^ 32) (hnr : (qgrams q pad r.strVal).length < 2 ^ 32)
    (hd : ((lev l.strVal r.strVal : Nat) : Rat) ≤ t)
    (hshare : shareToken (qgrams q pad) l.strVal r.strVal = true) :
    filterPair .suffix f (qgrams q pad) l r = false :=
  FloatThr.filterPair_safe_qg f _ _ q _ (by rw [hf]; exact FloatThr.edBounds_float t q ht0 ht1 hq) pad .suffix (by decide)
    l r hl hr hnl hnr ((FloatThr.lev_le_floor_iff t _).2 hd) hshare

/-- all four filters at once: `filter_pair` of the filter of kind `k` keeps every pair of present strings within
    distance `t` (float threshold) which share a q-gram -/
theorem pair_safe_ed_float (k : FilterKind) (hq : q ≤ 2 ^ 10)
    (hf : f.cfg = { measure := .editDistance, threshold := .float t, qval := .int q })
    (l r : Cell) (hl : l.isMissing = false) (hr : r.isMissing = false)
    (hnl : (qgrams q pad l.strVal).length < 2 ^ 32) (hnr : (qgrams q pad r.strVal).length < 2 ^ 32)
    (hd : ((lev l.strVal r.strVal : Nat) : Rat) ≤ t)
    (hshare : shareToken (qgrams q pad) l.strVal r.strVal = true) :
    filterPair k f (qgrams q pad) l r = false := by
  cases k
  · exact pair_safe_size_ed_float f t q pad ht0 ht1 (by rw [hf]) (by rw [hf]) l r hl hr hnl hd
  · exact pair_safe_prefix_ed_float f t q pad ht0 ht1 hq hf l r hl hr hnl hnr hd hshare
  · exact pair_safe_position_ed_float f t q pad ht0 ht1 hq hf l r hl hr hnl hnr hd hshare
  · exact pair_safe_suffix_ed_float f t q pad ht0 ht1 hq hf l r hl hr hnl hnr hd hshare

/-- `filter_candset` of any of the four filters keeps a candidate row referencing two rows whose present strings are
    within distance `t` (float threshold) and share a q-gram -/
theorem candset_safe_ed_float (k : FilterKind) (hq : q ≤ 2 ^ 10)
    (hf : f.cfg = { measure := .editDistance, threshold := .float t, qval := .int q })
    (a : CandsetArgs) (cpu : Int) (c l r fr : Frame)
    (hval : EntryFilters.CandsetValid a c l r)
    (hres : filterCandset a (filterPairPy k f (qgrams q pad)) cpu = .ok fr)
    (cr ls rs : Row) (hcr : cr ∈ c.rows) (hls : ls ∈ l.rows) (hrs : rs ∈ r.rows)
    (hkl : keyOf l a.lKey ls = cr.cell (c.colIdx a.candLKey)) (hkr : keyOf r a.rKey rs = cr.cell (c.colIdx a.candRKey))
    (hlp : Present l a.lAttr ls) (hrp : Present r a.rAttr rs)
    (hnl : (qgrams q pad (strOf l a.lAttr ls)).length < 2 ^ 32)
    (hnr : (qgrams q pad (strOf r a.rAttr rs)).length < 2 ^ 32)
    (hd : ((lev (strOf l a.lAttr ls) (strOf r a.rAttr rs) : Nat) : Rat) ≤ t)
    (hshare : shareToken (qgrams q pad) (strOf l a.lAttr ls) (strOf r a.rAttr rs) = true) :
    cr ∈ fr.rows :=
  candset_safe_of_pair a _ _ (filterPairPy_ok_eq _ _ _) cpu c l r fr hval hres cr ls rs hcr hls hrs hkl hkr
    (pair_safe_ed_float f t q pad ht0 ht1 k hq hf _ _ hlp hrp hnl hnr hd hshare)

variable (a : TableArgs) (tk : TokObj) (toks : TokFn) (cpu : Int) (l r fr : Frame)
  (hv : validateTablesAttrs a = .ok (l, r)) (hk : validateOutAndKeys a l r = .ok ())
  (hrows : r.rows.length < 2 ^ 40) (htok : ∀ s, toks tk.returnSet s = qgrams q pad s)
include hv hk hrows htok

/-- SizeFilter.filter_tables lists every pair of present source rows within distance `t` (float threshold) which
    share a q-gram -/
theorem tables_safe_size_ed_float (hm : f.cfg.measure = .editDistance) (hthr : f.cfg.threshold = .float t)
    (hres : filterTables .size f a tk toks cpu = .ok fr)
    (ls rs : Row) (hls : ls ∈ l.rows) (hrs : rs ∈ r.rows)
    (hlp : Present l a.lAttr ls) (hrp : Present r a.rAttr rs)
    (hnr : (qgrams q pad (strOf r a.rAttr rs)).length < 2 ^ 32)
    (hd : ((lev (strOf l a.lAttr ls) (strOf r a.rAttr rs) : Nat) : Rat) ≤ t)
    (hshare : shareToken (qgrams q pad) (strOf l a.lAttr ls) (strOf r a.rAttr rs) = true) :
    ∃ row ∈ fr.rows, rowKeys row = (keyOf l a.lKey ls, keyOf r a.rKey rs) := by
  obtain ⟨g, hg, -⟩ := (EntryFilters.shareToken_iff _ _ _).1 hshare
  exact FloatThr.filterTables_size_safe_ed_f f t q pad ht0 ht1 hm hthr a tk toks cpu l r fr htok hv hk hrows hres
    ls rs hls hrs hlp hrp hnr hd (List.ne_nil_of_mem hg)

/-- PrefixFilter.filter_tables lists every pair of present source rows within distance `t` (float threshold) which
    share a q-gram -/
theorem tables_safe_prefix_ed_float (hq : q ≤ 2 ^ 10)
    (hf : f.cfg = { measure := .editDistance, threshold := .float t, qval := .int q })
    (hres : filterTables .prefix f a tk toks cpu = .ok fr)
    (ls rs : Row) (hls : ls ∈ l.rows) (hrs : rs ∈ r.rows)
    (hlp : Present l a.lAttr ls) (hrp : Present r a.rAttr rs)
    (hnl : (qgrams q pad (strOf l a.lAttr ls)).length < 2 ^ 32)
    (hnr : (qgrams q pad (strOf r a.rAttr rs)).length < 2 ^ 32)
    (hd : ((lev (strOf l a.lAttr ls) (strOf r a.rAttr rs) : Nat) : Rat) ≤ t)
    (hshare : shareToken (qgrams q pad) (strOf l a.lAttr ls) (strOf r a.rAttr rs) = true) :
    ∃ row ∈ fr.rows, rowKeys row = (keyOf l a.lKey ls, keyOf r a.rKey rs) :=
  FloatThr.filterTables_safe_qg f _ _ q _ (by rw [hf]; exact FloatThr.edBounds_float t q ht0 ht1 hq) pad a tk toks cpu l r fr
    htok hv hk hrows .prefix hres ls rs hls hrs hlp hrp hnl hnr ((FloatThr.lev_le_floor_iff t _).2 hd) hshare

/-- PositionFilter.filter_tables lists every pair of present source rows within distance `t` (float threshold) which
    share a q-gram -/
theorem tables_safe_position_ed_float (hq : q ≤ 2 ^ 10)
    (hf : f.cfg = { measure := .editDistance, threshold := .float t, qval := .int q })
    (hres : filterTables .position f a tk toks cpu = .ok fr)
    (ls rs : Row) (hls : ls ∈ l.rows) (hrs : rs ∈ r.rows)
    (hlp : Present l a.lAttr ls) (hrp : Present r a.rAttr rs)
    (hnl : (qgrams q pad (strOf l a.lAttr ls)).length < 2 ^ 32)
    (hnr : (qgrams q pad (strOf r a.rAttr rs)).length < 2 ^ 32)
    (hd : ((lev (strOf l a.lAttr ls) (strOf r a.rAttr rs) : Nat) : Rat) ≤ t)
    (hshare : shareToken (qgrams q pad) (strOf l a.lAttr ls) (strOf r a.rAttr rs) = true) :
    ∃ row ∈ fr.rows, rowKeys row = (keyOf l a.lKey ls, keyOf r a.rKey rs) :=
  FloatThr.filterTables_safe_qg f _ _ q _ (by rw [hf]; exact FloatThr.edBounds_float t q ht0 ht1 hq) pad a tk toks cpu l r fr
    htok hv hk hrows .position hres ls rs hls hrs hlp hrp hnl hnr ((FloatThr.lev_le_floor_iff t _).2 hd) hshare

/-- SuffixFilter.filter_tables (code repaired by commit 113c284) lists every pair of present source rows within
    distance `t` (float threshold) which share a q-gram -/
theorem tables_safe_suffix_ed_float (hq : q ≤ 2 ^ 10)
    (hf : f.cfg = { measure := .editDistance, threshold := .float t, qval := .int q })
    (hres : filterTables .suffix f a tk toks cpu = .ok fr)
    (ls rs : Row) (hls : ls ∈ l.rows) (hrs : rs ∈ r.rows)
    (hlp : Present l a.lAttr ls) (hrp : Present r a.rAttr rs)
    (hnl : (qgrams q pad (strOf l a.lAttr ls)).length < 2 ^ 32)
    (hnr : (qgrams q pad (strOf r a.rAttr rs)).length < 2 ^ 32)
    (hd : ((lev (strOf l a.lAttr ls) (strOf r a.rAttr rs) : Nat) : Rat) ≤ t)
    (hshare : shareToken (qgrams q pad) (strOf l a.lAttr ls) (strOf r a.rAttr rs) = true) :
    ∃ row ∈ fr.rows, rowKeys row = (keyOf l a.lKey ls, keyOf r a.rKey rs) :=
  FloatThr.filterTables_safe_qg f _ _ q _ (by rw [hf]; exact FloatThr.edBounds_float t q ht0 ht1 hq) pad a tk toks cpu l r fr
    htok hv hk hrows .suffix hres ls rs hls hrs hlp hrp hnl hnr ((FloatThr.lev_le_floor_iff t _).2 hd) hshare

end EditDistanceFloat

/-! ## OVERLAP, float threshold `0 < t ≤ 2³⁰`: "similarity meets the threshold" is `|A ∩ B| ≥ t`, i.e. `≥ ⌈t⌉` -/

section OverlapFloat
variable (kind : FilterKind) (f : FilterObj) (t : Rat)
  (hm : f.cfg.measure = .overlap) (hthr : f.cfg.threshold = .float t) (ht0 : 0 < t) (ht1 : t ≤ 2 ^ 30)
include hm hthr ht0 ht1

/-- `filter_pair` of any of the four filters under OVERLAP with a float threshold keeps a pair of present values with
    at least `t` common tokens (token sets of fewer than 2³² elements) -/
theorem pair_safe_overlap_float (tok : String → List Tok) (hnd : ∀ s, (tok s).Nodup)
    (l r : Cell) (hl : l.isMissing = false) (hr : r.isMissing = false)
    (hnl : (tok l.strVal).length < 2 ^ 32) (hnr : (tok r.strVal).length < 2 ^ 32)
    (ho : t ≤ ((interCount (tok l.strVal) (tok r.strVal) : Nat) : Rat)) :
    filterPair kind f tok l r = false :=
  FloatThr.filterPair_safe_overlap_f kind f t hm hthr ht0 ht1 tok hnd l r hl hr hnl hnr
    (Rat.ceil_le_iff.2 (by exact_mod_cast ho))

/-- `filter_tables` of any of the four filters under OVERLAP with a float threshold lists every pair of present source
    rows with at least `t` common tokens -/
theorem tables_safe_overlap_float (a : TableArgs) (tk : TokObj) (toks : TokFn) (cpu : Int) (l r fr : Frame)
    (hv : validateTablesAttrs a = .ok (l, r)) (hk : validateOutAndKeys a l r = .ok ())
    (hrows : r.rows.length < 2 ^ 40)
    (hnd : ∀ s, (toks tk.returnSet s).Nodup)
    (hres : filterTables kind f a tk toks cpu = .ok fr)
    (ls rs : Row) (hls : ls ∈ l.rows) (hrs : rs ∈ r.rows)
    (hlp : Present l a.lAttr ls) (hrp : Present r a.rAttr rs)
    (hnl : (tokensOf (toks tk.returnSet) l a.lAttr ls).length < 2 ^ 32)
    (hnr : (tokensOf (toks tk.returnSet) r a.rAttr rs).length < 2 ^ 32)
    (ho : t ≤ ((interCount (tokensOf (toks tk.returnSet) l a.lAttr ls)
      (tokensOf (toks tk.returnSet) r a.rAttr rs) : Nat) : Rat)) :
    ∃ row ∈ fr.rows, rowKeys row = (keyOf l a.lKey ls, keyOf r a.rKey rs) :=
  FloatThr.filterTables_safe_overlap_f kind f t hm hthr ht0 ht1 a tk toks cpu l r fr hv hk hrows hnd hres
    ls rs hls hrs hlp hrp hnl hnr (Rat.ceil_le_iff.2 (by exact_mod_cast ho))

/-- `filter_candset` of any of the four filters under OVERLAP with a float threshold keeps a candidate row referencing
    two rows with present join values and at least `t` common tokens -/
theorem candset_safe_overlap_float (tok : String → List Tok) (hnd : ∀ s, (tok s).Nodup)
    (a : CandsetArgs) (cpu : Int) (c l r fr : Frame)
    (hval : EntryFilters.CandsetValid a c l r) (hres : filterCandset a (filterPairPy kind f tok) cpu = .ok fr)
    (cr ls rs : Row) (hcr : cr ∈ c.rows) (hls : ls ∈ l.rows) (hrs : rs ∈ r.rows)
    (hkl : keyOf l a.lKey ls = cr.cell (c.colIdx a.candLKey)) (hkr : keyOf r a.rKey rs = cr.cell (c.colIdx a.candRKey))
    (hlp : Present l a.lAttr ls) (hrp : Present r a.rAttr rs)
    (hnl : (tokensOf tok l a.lAttr ls).length < 2 ^ 32) (hnr : (tokensOf tok r a.rAttr rs).length < 2 ^ 32)
    (ho : t ≤ ((interCount (tokensOf tok l a.lAttr ls) (tokensOf tok r a.rAttr rs) : Nat) : Rat)) :
    cr ∈ fr.rows :=
  candset_safe_of_pair a _ _ (filterPairPy_ok_eq _ _ _) cpu c l r fr hval hres cr ls rs hcr hls hrs hkl hkr
    (pair_safe_overlap_float kind f t hm hthr ht0 ht1 tok hnd _ _ hlp hrp hnl hnr ho)

end OverlapFloat

/-! ## non-vacuity -/
section NonVacuity
open EntryFilters.Ex

/-- the generated bounds with the float threshold 1.5, q = 2, on records of 7 (and 9) tokens: size window [6, 8], prefix
    of 4 tokens, required overlap 6 — exactly the values of the repaired `filter_utils` in CPython -/
example : let c : FCfg := { measure := .editDistance, threshold := .float (3 / 2), qval := .int 2 }
    (c.lower 7, c.upper 7, c.prefixLen 7, c.ovThr 7 9) = (6, 8, 4, 6) := by decide +kernel

/-- EDIT_DISTANCE, float threshold 1.5, padded 2-grams: "abc" / "abd" are at distance 1 ≤ 1.5 and share the 2-gram
    "ab"; the SuffixFilter keeps the pair -/
example : filterPair .suffix { cfg := { measure := .editDistance, threshold := .float (3 / 2), qval := .int 2 } }
    (qgrams 2 true) (.str "abc") (.str "abd") = false := by
  have h : lev "abc" "abd" ≤ 1 := by decide
  have h' : ((lev "abc" "abd" : Nat) : Rat) ≤ 1 := by exact_mod_cast h
  exact pair_safe_suffix_ed_float _ (3 / 2) 2 true (by norm_num) (by norm_num) (by norm_num) rfl _ _ rfl rfl
    (by decide) (by decide) (le_trans h' (by norm_num)) (by decide)

/-- EDIT_DISTANCE, float threshold 1.5, padded 2-grams, the tables of SSJ/Props/C04_ed.lean: "aab" (row 1) / "aaab"
    (row 7) are at distance 1; PositionFilter.filter_tables (`n_jobs = 2`) returns a frame and lists the pair -/
example : ∃ fr, filterTables .position { cfg := { measure := .editDistance, threshold := .float (3 / 2), qval := .int 2 } }
      edA edT edToks 4 = .ok fr ∧ ∃ row ∈ fr.rows, rowKeys row = (Cell.int 1, Cell.int 7) := by
  obtain ⟨fr, hfr⟩ := tables_returns_frame .position
    { cfg := { measure := .editDistance, threshold := .float (3 / 2), qval := .int 2 } } edA edT edToks 4 edL edR
    ed_valid ed_keys (by decide +kernel)
  refine ⟨fr, hfr, ?_⟩
  have h : lev "aab" "aaab" ≤ 1 := by decide
  have h' : ((lev "aab" "aaab" : Nat) : Rat) ≤ 1 := by exact_mod_cast h
  exact tables_safe_position_ed_float _ (3 / 2) 2 true (by norm_num) (by norm_num) edA edT edToks 4 edL edR fr
    ed_valid ed_keys (by decide) (fun _ => rfl) (by norm_num) rfl hfr
    [.int 1, .str "aab"] [.int 7, .str "aaab"] (by decide) (by decide) (by unfold Present; decide)
    (by unfold Present; decide) (by decide) (by decide)
    (le_trans h' (by norm_num)) (by decide)

/-- OVERLAP, float threshold 0.5: the pair ("x", "y") has one common token ≥ 0.5 and is kept by the SuffixFilter
    (the early exit of `_filter_suffix`) -/
example : filterPair .suffix { cfg := { measure := .overlap, threshold := .float (1 / 2) } } exTok (.str "x") (.str "y")
    = false :=
  pair_safe_overlap_float .suffix _ (1 / 2) rfl rfl (by norm_num) (by norm_num) exTok exTok_nodup _ _ rfl rfl
    (exTok_small _) (exTok_small _)
    (by have : interCount (exTok "x") (exTok "y") = 1 := by decide
        show (1 / 2 : Rat) ≤ ((interCount (exTok "x") (exTok "y") : Nat) : Rat)
        rw [this]; norm_num)

end NonVacuity

end SSJ.Props.C04

section AxiomCheck
open SSJ.Props.C04
/-- info: 'SSJ.Props.C04.within_float_iff' depends on axioms: [propext, Classical.choice, Quot.sound] -/
#guard_msgs in #print axioms within_float_iff
/-- info: 'SSJ.Props.C04.ed_float_at_least_as_permissive' depends on axioms: [propext, Classical.choice, Quot.sound] -/
#guard_msgs in #print axioms ed_float_at_least_as_permissive
/-- info: 'SSJ.Props.C04.overlap_float_at_least_as_permissive' depends on axioms: [propext, Classical.choice, Quot.sound] -/
#guard_msgs in #print axioms overlap_float_at_least_as_permissive
/-- info: 'SSJ.Props.C04.pair_safe_size_ed_float' depends on axioms: [propext, Classical.choice, Quot.sound] -/
#guard_msgs in #print axioms pair_safe_size_ed_float
/-- info: 'SSJ.Props.C04.pair_safe_prefix_ed_float' depends on axioms: [propext, Classical.choice, Quot.sound] -/
#guard_msgs in #print axioms pair_safe_prefix_ed_float
/-- info: 'SSJ.Props.C04.pair_safe_position_ed_float' depends on axioms: [propext, Classical.choice, Quot.sound] -/
#guard_msgs in #print axioms pair_safe_position_ed_float
/-- info: 'SSJ.Props.C04.pair_safe_suffix_ed_float' depends on axioms: [propext, Classical.choice, Quot.sound] -/
#guard_msgs in #print axioms pair_safe_suffix_ed_float
/-- info: 'SSJ.Props.C04.tables_safe_size_ed_float' depends on axioms: [propext, Classical.choice, Quot.sound] -/
#guard_msgs in #print axioms tables_safe_size_ed_float
/-- info: 'SSJ.Props.C04.tables_safe_prefix_ed_float' depends on axioms: [propext, Classical.choice, Quot.sound] -/
#guard_msgs in #print axioms tables_safe_prefix_ed_float
/-- info: 'SSJ.Props.C04.tables_safe_position_ed_float' depends on axioms: [propext, Classical.choice, Quot.sound] -/
#guard_msgs in #print axioms tables_safe_position_ed_float
/-- info: 'SSJ.Props.C04.tables_safe_suffix_ed_float' depends on axioms: [propext, Classical.choice, Quot.sound] -/
#guard_msgs in #print axioms tables_safe_suffix_ed_float
/-- info: 'SSJ.Props.C04.pair_safe_ed_float' depends on axioms: [propext, Classical.choice, Quot.sound] -/
#guard_msgs in #print axioms pair_safe_ed_float
/-- info: 'SSJ.Props.C04.candset_safe_ed_float' depends on axioms: [propext, Classical.choice, Quot.sound] -/
#guard_msgs in #print axioms candset_safe_ed_float
/-- info: 'SSJ.Props.C04.candset_safe_overlap_float' depends on axioms: [propext, Classical.choice, Quot.sound] -/
#guard_msgs in #print axioms candset_safe_overlap_float
/-- info: 'SSJ.Props.C04.pair_safe_overlap_float' depends on axioms: [propext, Classical.choice, Quot.sound] -/
#guard_msgs in #print axioms pair_safe_overlap_float
/-- info: 'SSJ.Props.C04.tables_safe_overlap_float' depends on axioms: [propext, Classical.choice, Quot.sound] -/
#guard_msgs in #print axioms tables_safe_overlap_float
end AxiomCheck

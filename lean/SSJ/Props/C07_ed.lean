/-
  C07 (edit distance, all four filters) — A join equals filter_tables followed by apply_matcher.

  Companion of SSJ/Props/C07.lean (same namespace `SSJ.Props.C07`; property text, model, the three calls, `stage1Args`,
  `stage2Args`, `KeyNamesOK`, `InResult`, `ScoreOf` as there).  `pipeline_ed` of C07.lean has SizeFilter or PrefixFilter
  under EDIT_DISTANCE as the first stage (`FirstStageED`), because the safety of the two other filters' `filter_tables`
  on BAGS of q-grams was not available when it was written.  It is now: `C04.tables_safe_position_ed`
  (SSJ/Props/C04_ed.lean) and `C04.tables_safe_suffix_ed` (SSJ/Props/C04_suffix.lean, for the code repaired by F8).

  WHAT IS PROVED.  `pipeline_ed_filter`: the conclusion of `pipeline_ed` — containment `InResult J → InResult P`,
  agreement `InResult P ↔ InResult J` on pairs sharing a q-gram, both report the Levenshtein distance, and the exact
  description of each side — for ANY of the four filters (`k : FilterKind`: Size, Prefix, Position, Suffix) under
  EDIT_DISTANCE as the first stage; `pipeline_ed_filter_returns`: stage 2 does not raise on that candidate set;
  `pipeline_ed_position`, `pipeline_ed_position_returns`, `pipeline_ed_suffix`: the instances the property names and
  C07.lean did not cover.

  HYPOTHESES.  Those of `pipeline_ed` (see the header of C07.lean: join arguments valid, `KeyNamesOK`, int threshold `τ`,
  q-gram tokenizer in bag mode, right table and candidate set < 2⁴⁰ rows, the two join values are strings), with the
  first stage given directly: the filter object carries `EDIT_DISTANCE`, `τ` and `qval = q`
  (`f.cfg = { measure := .editDistance, threshold := .int τ, qval := .int q }`; for the SizeFilter `qval` is not
  used, `pipeline_ed` needs measure and threshold only) and `filter_tables` returned `C` on `stage1Args a nj₁`; any
  `allow_empty` / `allow_missing` of the filter, any `n_jobs`, any cpu count.

  NOT COVERED: as in C07.lean (float edit-distance thresholds; rows for missing values; non-key columns).
-/
import SSJ.Props.C07
import SSJ.Props.C04_ed
import SSJ.Props.C04_suffix

namespace SSJ.Props.C07
open SSJ SSJ.Props SSJ.Spec SSJ.EntryPipeline
open SSJ.Props.C13 (InResult ScoreOf)

section ED
variable (a : JoinArgs) (t : TokObj) (toks : TokFn) (l r : Frame)

/-- THE PIPELINE RUNS (edit distance, any of the four filters as first stage): `apply_matcher` without tokenizer returns a
    frame on the candidate set of the first stage. -/
theorem pipeline_ed_filter_returns (hv : validateJoin "EDIT_DISTANCE" a t = .ok (l, r)) (hnames : KeyNamesOK a)
    (k : FilterKind) (f : FilterObj) (nj₁ cpu₁ : Int) (C : Frame)
    (hres : filterTables k f (stage1Args a nj₁) t toks cpu₁ = .ok C) (hClen : C.rows.length < 2 ^ 40)
    (sim : SimArg → SimArg → PyV) (nj₂ cpu₂ : Int) :
    ∃ P, applyMatcher (stage2Args a C nj₂) none toks sim cpu₂ = .ok P := by
  have hopED := EntryED.op_cases a.compOp ((validateJoin_ok_iff _ a t l r).1 hv).2.2.2.1
  have hop6 : a.compOp ∈ [">=", ">", "<=", "<", "=", "!="] := by
    rcases hopED with h | h | h <;> simp [h]
  obtain ⟨hv1, hk1⟩ := stage1_valid _ a t l r nj₁ hv
  exact stage2_total _ a t l r hv hop6 hnames.left hnames.right hnames.distinct nj₁
    (.filterTables k f (stage1Args a nj₁) t toks l r hv1 hk1) f.allowMissing nj₁ cpu₁ C hres hClen
    none (Or.inr rfl) toks sim nj₂ cpu₂

/-- C07 for EDIT DISTANCE with ANY of the four filters as first stage (int threshold `τ`, q-gram tokenizer in bag mode).
    Run the `filter_tables` of a Size / Prefix / Position / SuffixFilter constructed under EDIT_DISTANCE with the join's
    threshold and `qval` (candidate set `C`), then `apply_matcher` on `C` without tokenizer, with the Levenshtein distance
    as `sim_function` and the join's threshold and operator (result `P`); run the join (result `J`).  For every pair of
    source rows whose join values are the strings `s`, `s'`:
      * CONTAINMENT: if the pair is in the join's result it is in the pipeline's result;
      * AGREEMENT: if `s`, `s'` share a q-gram, the pair is in the pipeline's result IFF it is in the join's result;
      * both report the distance `lev s s'` as `_sim_score`;
      * exactly: the pipeline has the pair iff stage 1 lists it and the comparison holds; the join has it iff the
        comparison holds and the strings share a q-gram (C03). -/
theorem pipeline_ed_filter (hv : validateJoin "EDIT_DISTANCE" a t = .ok (l, r)) (hnames : KeyNamesOK a)
    (tau : Int) (hthr : a.threshold = .int tau) (hrows : r.rows.length < 2 ^ 40)
    (hbag : t.returnSet = false) (q : Nat) (hq : t.qval = q) (pad : Bool) (htok : ∀ s, toks false s = qgrams q pad s)
    -- stage 1: filter_tables of any of the four filters under EDIT_DISTANCE
    (k : FilterKind) (f : FilterObj) (nj₁ cpu₁ : Int)
    (hcfg : f.cfg = { measure := .editDistance, threshold := .int tau, qval := .int q })
    (C : Frame) (hres : filterTables k f (stage1Args a nj₁) t toks cpu₁ = .ok C) (hClen : C.rows.length < 2 ^ 40)
    -- stage 2: apply_matcher, no tokenizer, Levenshtein distance on the raw strings
    (sim : SimArg → SimArg → PyV) (hsim : ∀ s s', sim (.raw (.str s)) (.raw (.str s')) = .int (lev s s'))
    (nj₂ cpu₂ : Int) (P : Frame) (h2 : applyMatcher (stage2Args a C nj₂) none toks sim cpu₂ = .ok P)
    -- the join
    (cpu : Int) (J : Frame) (hJ : (editDistanceJoinPy a t toks cpu).result = .ok J)
    -- the pair
    (ls rs : Row) (hls : ls ∈ l.rows) (hrs : rs ∈ r.rows)
    (s s' : String) (hsl : valOf l a.lAttr ls = .str s) (hsr : valOf r a.rAttr rs = .str s') :
    (InResult J (keyOf l a.lKey ls) (keyOf r a.rKey rs) → InResult P (keyOf l a.lKey ls) (keyOf r a.rKey rs)) ∧
    (shareToken (qgrams q pad) s s' = true →
      (InResult P (keyOf l a.lKey ls) (keyOf r a.rKey rs) ↔ InResult J (keyOf l a.lKey ls) (keyOf r a.rKey rs))) ∧
    (a.outSimScore = true →
      ScoreOf P (keyOf l a.lKey ls) (keyOf r a.rKey rs) (.int (lev s s')) ∧
      ScoreOf J (keyOf l a.lKey ls) (keyOf r a.rKey rs) (.int (lev s s'))) ∧
    (InResult P (keyOf l a.lKey ls) (keyOf r a.rKey rs) ↔
      InResult C (keyOf l a.lKey ls) (keyOf r a.rKey rs) ∧ qualED a.compOp tau s s' = true) ∧
    (InResult J (keyOf l a.lKey ls) (keyOf r a.rKey rs) ↔
      qualED a.compOp tau s s' = true ∧ shareToken (qgrams q pad) s s' = true) := by
  have hpl : Present l a.lAttr ls := by unfold Present; rw [hsl]; rfl
  have hpr : Present r a.rAttr rs := by unfold Present; rw [hsr]; rfl
  have hstrL : strOf l a.lAttr ls = s := by unfold strOf; rw [hsl]; rfl
  have hstrR : strOf r a.rAttr rs = s' := by unfold strOf; rw [hsr]; rfl
  have hopED := EntryED.op_cases a.compOp ((validateJoin_ok_iff _ a t l r).1 hv).2.2.2.1
  have htok' : ∀ x, toks t.returnSet x = qgrams q pad x := by rw [hbag]; exact htok
  obtain ⟨hv1, hk1⟩ := stage1_valid _ a t l r nj₁ hv
  -- stage 2 and the join, whatever the first stage lists (`EntryPipeline.ed_core`)
  obtain ⟨hP, hJ', hscore⟩ := ed_core a t toks l r hv tau hthr hrows q hq pad htok hnames.left hnames.right
    hnames.distinct nj₁ (.filterTables k f (stage1Args a nj₁) t toks l r hv1 hk1) f.allowMissing nj₁ cpu₁ C hres
    hClen sim hsim nj₂ cpu₂ P h2 cpu J hJ ls rs hls hrs s s' hsl hsr
  -- stage 1 is safe for the pair: C04, one theorem per filter
  have hsafe : qualED "<=" tau s s' = true → shareToken (qgrams q pad) s s' = true →
      InResult C (keyOf l a.lKey ls) (keyOf r a.rKey rs) := by
    intro hd hsh
    rw [← hstrL, ← hstrR] at hd hsh
    cases k with
    | size =>
      exact C04.tables_safe_size_ed f tau q pad (stage1Args a nj₁) t toks cpu₁ l r C hv1 hk1 hrows htok'
        (by rw [hcfg]) (by rw [hcfg]) hres ls rs hls hrs hpl hpr hd hsh
    | «prefix» =>
      exact C04.tables_safe_prefix_ed f tau q pad (stage1Args a nj₁) t toks cpu₁ l r C hv1 hk1 hrows htok' hcfg hres
        ls rs hls hrs hpl hpr hd hsh
    | position =>
      exact C04.tables_safe_position_ed f tau q pad (stage1Args a nj₁) t toks cpu₁ l r C hv1 hk1 hrows htok' hcfg hres
        ls rs hls hrs hpl hpr hd hsh
    | suffix =>
      exact C04.tables_safe_suffix_ed f tau q pad (stage1Args a nj₁) t toks cpu₁ l r C hv1 hk1 hrows htok' hcfg hres
        ls rs hls hrs hpl hpr hd hsh
  -- a pair satisfying the comparison is within distance τ
  have hle : qualED a.compOp tau s s' = true → qualED "<=" tau s s' = true := fun h =>
    (EntryED.qualED_le_iff _ _ _).2 (EntryED.qualED_dist_le a.compOp hopED tau s s' h)
  refine ⟨?_, ?_, hscore, hP, hJ'⟩
  · intro h
    obtain ⟨hq', hsh⟩ := hJ'.1 h
    exact hP.2 ⟨hsafe (hle hq') hsh, hq'⟩
  · intro hsh
    rw [hP, hJ']
    exact ⟨fun h => ⟨h.2, hsh⟩, fun h => ⟨hsafe (hle h.1) hsh, h.1⟩⟩

/-- THE PIPELINE RUNS with PositionFilter under EDIT_DISTANCE as first stage. -/
theorem pipeline_ed_position_returns (hv : validateJoin "EDIT_DISTANCE" a t = .ok (l, r)) (hnames : KeyNamesOK a)
    (f : FilterObj) (nj₁ cpu₁ : Int) (C : Frame)
    (hres : filterTables .position f (stage1Args a nj₁) t toks cpu₁ = .ok C) (hClen : C.rows.length < 2 ^ 40)
    (sim : SimArg → SimArg → PyV) (nj₂ cpu₂ : Int) :
    ∃ P, applyMatcher (stage2Args a C nj₂) none toks sim cpu₂ = .ok P :=
  pipeline_ed_filter_returns a t toks l r hv hnames .position f nj₁ cpu₁ C hres hClen sim nj₂ cpu₂

/-- C07 for EDIT DISTANCE with `PositionFilter(tok, 'EDIT_DISTANCE', τ).filter_tables` as the first stage: the join's
    result is contained in the pipeline's result, the two agree on every pair sharing a q-gram, both report the
    Levenshtein distance (the conclusion of `pipeline_ed`; rests on `C04.tables_safe_position_ed`). -/
theorem pipeline_ed_position (hv : validateJoin "EDIT_DISTANCE" a t = .ok (l, r)) (hnames : KeyNamesOK a)
    (tau : Int) (hthr : a.threshold = .int tau) (hrows : r.rows.length < 2 ^ 40)
    (hbag : t.returnSet = false) (q : Nat) (hq : t.qval = q) (pad : Bool) (htok : ∀ s, toks false s = qgrams q pad s)
    (f : FilterObj) (nj₁ cpu₁ : Int)
    (hcfg : f.cfg = { measure := .editDistance, threshold := .int tau, qval := .int q })
    (C : Frame) (hres : filterTables .position f (stage1Args a nj₁) t toks cpu₁ = .ok C)
    (hClen : C.rows.length < 2 ^ 40)
    (sim : SimArg → SimArg → PyV) (hsim : ∀ s s', sim (.raw (.str s)) (.raw (.str s')) = .int (lev s s'))
    (nj₂ cpu₂ : Int) (P : Frame) (h2 : applyMatcher (stage2Args a C nj₂) none toks sim cpu₂ = .ok P)
    (cpu : Int) (J : Frame) (hJ : (editDistanceJoinPy a t toks cpu).result = .ok J)
    (ls rs : Row) (hls : ls ∈ l.rows) (hrs : rs ∈ r.rows)
    (s s' : String) (hsl : valOf l a.lAttr ls = .str s) (hsr : valOf r a.rAttr rs = .str s') :
    (InResult J (keyOf l a.lKey ls) (keyOf r a.rKey rs) → InResult P (keyOf l a.lKey ls) (keyOf r a.rKey rs)) ∧
    (shareToken (qgrams q pad) s s' = true →
      (InResult P (keyOf l a.lKey ls) (keyOf r a.rKey rs) ↔ InResult J (keyOf l a.lKey ls) (keyOf r a.rKey rs))) ∧
    (a.outSimScore = true →
      ScoreOf P (keyOf l a.lKey ls) (keyOf r a.rKey rs) (.int (lev s s')) ∧
      ScoreOf J (keyOf l a.lKey ls) (keyOf r a.rKey rs) (.int (lev s s'))) ∧
    (InResult P (keyOf l a.lKey ls) (keyOf r a.rKey rs) ↔
      InResult C (keyOf l a.lKey ls) (keyOf r a.rKey rs) ∧ qualED a.compOp tau s s' = true) ∧
    (InResult J (keyOf l a.lKey ls) (keyOf r a.rKey rs) ↔
      qualED a.compOp tau s s' = true ∧ shareToken (qgrams q pad) s s' = true) :=
  pipeline_ed_filter a t toks l r hv hnames tau hthr hrows hbag q hq pad htok .position f nj₁ cpu₁ hcfg C hres hClen
    sim hsim nj₂ cpu₂ P h2 cpu J hJ ls rs hls hrs s s' hsl hsr

/-- … and with `SuffixFilter(tok, 'EDIT_DISTANCE', τ).filter_tables` (the code repaired by F8; rests on
    `C04.tables_safe_suffix_ed`). -/
theorem pipeline_ed_suffix (hv : validateJoin "EDIT_DISTANCE" a t = .ok (l, r)) (hnames : KeyNamesOK a)
    (tau : Int) (hthr : a.threshold = .int tau) (hrows : r.rows.length < 2 ^ 40)
    (hbag : t.returnSet = false) (q : Nat) (hq : t.qval = q) (pad : Bool) (htok : ∀ s, toks false s = qgrams q pad s)
    (f : FilterObj) (nj₁ cpu₁ : Int)
    (hcfg : f.cfg = { measure := .editDistance, threshold := .int tau, qval := .int q })
    (C : Frame) (hres : filterTables .suffix f (stage1Args a nj₁) t toks cpu₁ = .ok C)
    (hClen : C.rows.length < 2 ^ 40)
    (sim : SimArg → SimArg → PyV) (hsim : ∀ s s', sim (.raw (.str s)) (.raw (.str s')) = .int (lev s s'))
    (nj₂ cpu₂ : Int) (P : Frame) (h2 : applyMatcher (stage2Args a C nj₂) none toks sim cpu₂ = .ok P)
    (cpu : Int) (J : Frame) (hJ : (editDistanceJoinPy a t toks cpu).result = .ok J)
    (ls rs : Row) (hls : ls ∈ l.rows) (hrs : rs ∈ r.rows)
    (s s' : String) (hsl : valOf l a.lAttr ls = .str s) (hsr : valOf r a.rAttr rs = .str s') :
    (InResult J (keyOf l a.lKey ls) (keyOf r a.rKey rs) → InResult P (keyOf l a.lKey ls) (keyOf r a.rKey rs)) ∧
    (shareToken (qgrams q pad) s s' = true →
      (InResult P (keyOf l a.lKey ls) (keyOf r a.rKey rs) ↔ InResult J (keyOf l a.lKey ls) (keyOf r a.rKey rs))) ∧
    (a.outSimScore = true →
      ScoreOf P (keyOf l a.lKey ls) (keyOf r a.rKey rs) (.int (lev s s')) ∧
      ScoreOf J (keyOf l a.lKey ls) (keyOf r a.rKey rs) (.int (lev s s'))) ∧
    (InResult P (keyOf l a.lKey ls) (keyOf r a.rKey rs) ↔
      InResult C (keyOf l a.lKey ls) (keyOf r a.rKey rs) ∧ qualED a.compOp tau s s' = true) ∧
    (InResult J (keyOf l a.lKey ls) (keyOf r a.rKey rs) ↔
      qualED a.compOp tau s s' = true ∧ shareToken (qgrams q pad) s s' = true) :=
  pipeline_ed_filter a t toks l r hv hnames tau hthr hrows hbag q hq pad htok .suffix f nj₁ cpu₁ hcfg C hres hClen
    sim hsim nj₂ cpu₂ P h2 cpu J hJ ls rs hls hrs s s' hsl hsr

end ED

/-! ## non-vacuity: the request of C07.lean's edit-distance example (`edA`: left (1,"abc"), (2,NaN); right (7,"abd"),
    (8,"xyz"); τ = 1, padded 2-grams, `n_jobs = 2`) -/
section NonVacuity

/-- (1) ALL hypotheses of `pipeline_ed_filter` hold with the SizeFilter as first stage (its candidate set `edC` is
    evaluated by the kernel): both results name the key pair (1, 7). -/
example : ∃ P J, applyMatcher (stage2Args edA edC 3) none C03.exToks edSimFn 8 = .ok P ∧
    (editDistanceJoinPy edA C03.exT C03.exToks 4).result = .ok J ∧
    InResult J (.int 1) (.int 7) ∧ InResult P (.int 1) (.int 7) := by
  have h1 : filterTables .size { cfg := { measure := .editDistance, threshold := .int 1, qval := .int 2 } }
      (stage1Args edA 2) C03.exT C03.exToks 4 = .ok edC := by decide +kernel
  obtain ⟨P, hP⟩ := pipeline_ed_filter_returns edA C03.exT C03.exToks C03.exL C03.exR ed_valid
    ⟨by decide, by decide, by decide⟩ .size _ 2 4 edC h1 (by decide) edSimFn 3 8
  obtain ⟨J, hJ⟩ := C03.returns_frame edA C03.exT C03.exToks 4 C03.exL C03.exR 1 ed_valid rfl (by decide +kernel)
  have h7 := pipeline_ed_filter edA C03.exT C03.exToks C03.exL C03.exR ed_valid ⟨by decide, by decide, by decide⟩ 1 rfl
    (by decide) rfl 2 rfl true (fun _ => rfl) .size _ 2 4 rfl edC h1 (by decide) edSimFn (fun _ _ => rfl)
    3 8 P hP 4 J hJ
    [.int 1, .str "abc"] [.int 7, .str "abd"] (by decide) (by decide) "abc" "abd" (by decide) (by decide)
  have hJin : InResult J (.int 1) (.int 7) :=
    h7.2.2.2.2.2 ⟨(C03.comparison_meaning 1 "abc" "abd").1.2 (by decide), by decide⟩
  exact ⟨P, J, hP, hJ, hJin, h7.1 hJin⟩

/-- (2) The PositionFilter as first stage of the same request: `filter_tables` returns a candidate set `C`
    (`C04.tables_returns_frame`) which lists the pair (1, 7) (`C04.tables_safe_position_ed`), and on it all hypotheses
    of `pipeline_ed_position` hold, so both results name (1, 7).  The row bound of `C` is kept as a hypothesis: the
    kernel cannot evaluate this candidate set (the token ordering sorts by well-founded recursion); `#eval` of the
    model gives the one row `[0, 1, 7]`. -/
example : ∃ C, filterTables .position { cfg := { measure := .editDistance, threshold := .int 1, qval := .int 2 } }
      (stage1Args edA 2) C03.exT C03.exToks 4 = .ok C ∧ InResult C (.int 1) (.int 7) ∧
    (C.rows.length < 2 ^ 40 →
      ∃ P J, applyMatcher (stage2Args edA C 3) none C03.exToks edSimFn 8 = .ok P ∧
        (editDistanceJoinPy edA C03.exT C03.exToks 4).result = .ok J ∧
        InResult J (.int 1) (.int 7) ∧ InResult P (.int 1) (.int 7)) := by
  obtain ⟨hv1, hk1⟩ := stage1_valid _ edA C03.exT C03.exL C03.exR 2 ed_valid
  obtain ⟨C, hC⟩ := C04.tables_returns_frame .position
    { cfg := { measure := .editDistance, threshold := .int 1, qval := .int 2 } } (stage1Args edA 2) C03.exT C03.exToks 4
    C03.exL C03.exR hv1 hk1 (by decide +kernel)
  refine ⟨C, hC, ?_, fun hlen => ?_⟩
  · exact C04.tables_safe_position_ed _ 1 2 true (stage1Args edA 2) C03.exT C03.exToks 4 C03.exL C03.exR C hv1 hk1
      (by decide) (fun _ => rfl) rfl hC
      [.int 1, .str "abc"] [.int 7, .str "abd"] (by decide) (by decide) (by unfold Present; decide)
      (by unfold Present; decide) ((EntryED.qualED_le_iff _ _ _).2 (by decide)) (by decide)
  · obtain ⟨P, hP⟩ := pipeline_ed_position_returns edA C03.exT C03.exToks C03.exL C03.exR ed_valid
      ⟨by decide, by decide, by decide⟩ _ 2 4 C hC hlen edSimFn 3 8
    obtain ⟨J, hJ⟩ := C03.returns_frame edA C03.exT C03.exToks 4 C03.exL C03.exR 1 ed_valid rfl (by decide +kernel)
    have h7 := pipeline_ed_position edA C03.exT C03.exToks C03.exL C03.exR ed_valid ⟨by decide, by decide, by decide⟩ 1
      rfl (by decide) rfl 2 rfl true (fun _ => rfl) _ 2 4 rfl C hC hlen edSimFn (fun _ _ => rfl)
      3 8 P hP 4 J hJ
      [.int 1, .str "abc"] [.int 7, .str "abd"] (by decide) (by decide) "abc" "abd" (by decide) (by decide)
    have hJin : InResult J (.int 1) (.int 7) :=
      h7.2.2.2.2.2 ⟨(C03.comparison_meaning 1 "abc" "abd").1.2 (by decide), by decide⟩
    exact ⟨P, J, hP, hJ, hJin, h7.1 hJin⟩

end NonVacuity

section AxiomCheck
#print axioms pipeline_ed_filter_returns
#print axioms pipeline_ed_filter
#print axioms pipeline_ed_position_returns
#print axioms pipeline_ed_position
#print axioms pipeline_ed_suffix
end AxiomCheck

end SSJ.Props.C07

/-
  C15 (companion: KEY COLUMNS) — which key columns `validate_key_attr` accepts, exactly.

  STATEMENT.  The real check (utils/validation.py) is
        len(table[key].unique()) == len(table)   and   no null in table[key]
  and pandas' `unique()` on an object column identifies values that are EQUAL AS PYTHON VALUES: `1`, `1.0` and `True`
  are ONE value (so are `0`, `0.0`, `-0.0`, `False`), whereas `'1'` differs from `1`.  Hence a key column `[1, 1.0]` —
  two cells that are different objects of different types — is REJECTED with
  `AssertionError: 'id' is not a key attribute`, by every join, `filter_tables`, `filter_candset` and `apply_matcher`.
  "Key with duplicates" in C15 therefore means: two rows whose key values are equal under Python `==`.

  MODEL FUNCTIONS.  `validateKeyAttr` (SSJ/Model/Frame.lean), which counts `dedupBy Cell.pyEq` (the profiler's `nunique`
  uses the same table, C17); `Cell.pyEq` / `Cell.numVal?` (SSJ/Model/Basic.lean) — numbers (ints, finite floats, and
  the bools, encoded `.other "bool:True"` / `.other "bool:False"`) compare by exact rational value, everything else only
  with itself; and the validation blocks / entry points of `C15.lean`.

  VOCABULARY (SSJ/Props/Common.lean): `KeyColumn f key` — no missing value and no two rows with Python-equal values
  (`KeyValid` of the acceptance theorems `join_accepts_iff`, `filter_tables_accepts_iff`, `MatcherValid`,
  `CandsetValid` IS this: `keyValid_iff_keyColumn`); `SameKeyTwice f key` — two rows `i < j` with Python-equal key values.

  THEOREMS.
  * `key_numerically_equal_values_rejected`   `SameKeyTwice` ⇒ `validate_key_attr` raises AssertionError (stated once,
    for the validation function every entry point calls);
  * `validate_key_attr_accepts_iff`           accepted ⇔ `KeyColumn`;   `key_column_nodup` (⇒ pairwise different cells;
    the converse FAILS: `[1, 1.0]`, example below);   `key_column_iff_no_same_key_twice`;
  * `join_rejects_numerically_equal_keys`, `filter_tables_rejects_…`, `apply_matcher_rejects_…`,
    `filter_candset_rejects_…`          the validation BLOCKS raise AssertionError when all earlier checks pass (the checks
    are sequential), and with them the entry points (`set_sim_join_…`, `overlap_coefficient_join_…`,
    `edit_distance_join_…`, `overlap_join_…`, `filter_tables_…`, `overlap_filter_tables_…`, `apply_matcher_…`,
    `filter_candset_…` `_numerically_equal_keys_rejected`), whatever the tokenization / similarity function / cpu count,
    the joins leaving the tokenizer flag as they found it.

  NOT COVERED.  NaN / None / pd.NA keys are the "missing" half of the check (`join_rejects_bad_key`).  Infinities, and
  floats that are not finite doubles, are opaque cells (`.other`), equal only to themselves — as in Python.  Python
  `complex`, `Decimal`, `Fraction` keys (which also compare equal to ints) are opaque cells in the model: out of scope
  of the harness's cell encoding.
-/
import SSJ.Props.C15

namespace SSJ.Props.C15
open SSJ

/-! ## A. `validate_key_attr` itself -/

/-- `KeyValid` — the key conjunct of every acceptance theorem of C15 — is `KeyColumn`. -/
theorem keyValid_iff_keyColumn (f : Frame) (key : String) : KeyValid f key ↔ KeyColumn f key := Iff.rfl

/-- `validate_key_attr` accepts EXACTLY the key columns: no missing value, no two rows with Python-equal values. -/
theorem validate_key_attr_accepts_iff (key : String) (f : Frame) :
    validateKeyAttr key f = .ok () ↔ KeyColumn f key :=
  validateKeyAttr_ok_iff key f

/-- … and whenever it does not accept, it raises AssertionError. -/
theorem validate_key_attr_rejects_iff (key : String) (f : Frame) :
    validateKeyAttr key f = .error .assertion ↔ ¬ KeyColumn f key := by
  rw [← validate_key_attr_accepts_iff]
  constructor
  · intro h h'; rw [h] at h'; cases h'
  · exact validateKeyAttr_not_ok key f

/-- Two rows whose key values are equal as Python values — `1` and `1.0`, `1` and `True`, `0.0` and `False`, or the
    same value twice — ⇒ `validate_key_attr` raises AssertionError ("… is not a key attribute").  This is the function
    every join, `filter_tables`, `filter_candset` and `apply_matcher` validates its two key attributes with. -/
theorem key_numerically_equal_values_rejected (key : String) (f : Frame) (h : SameKeyTwice f key) :
    validateKeyAttr key f = .error .assertion := by
  obtain ⟨i, j, hij, hj, he⟩ := h
  exact validateKeyAttr_pyEq_rejected key f i j hij hj he

/-- The cells of a key column are pairwise different.  (Not conversely: `[1, 1.0]`.) -/
theorem key_column_nodup (f : Frame) (key : String) (h : KeyColumn f key) : (f.col key).Nodup :=
  KeyValid.nodup h

/-- A column is a key column iff no value is missing and no two rows hold Python-equal values. -/
theorem key_column_iff_no_same_key_twice (f : Frame) (key : String) :
    KeyColumn f key ↔ ¬ SameKeyTwice f key ∧ ∀ srow ∈ f.rows, (keyOf f key srow).isMissing = false := by
  have hmiss : (∀ c ∈ f.col key, c.isMissing = false) ↔ ∀ srow ∈ f.rows, (keyOf f key srow).isMissing = false := by
    simp [Frame.col, keyOf]
  unfold KeyColumn
  rw [hmiss]
  refine and_congr_left fun hm => ?_
  constructor
  · rintro hd ⟨i, j, hij, hj, he⟩
    exact not_keyValid_of_pyEq f key i j hij hj he ⟨hd, hmiss.2 hm⟩
  · intro hs
    rw [List.pairwise_iff_getElem]
    intro i j hi hj hij
    have hlen : (f.col key).length = f.rows.length := by simp [Frame.col]
    cases he : ((f.col key)[i]).pyEq ((f.col key)[j]) with
    | false => rfl
    | true =>
      exfalso
      apply hs
      refine ⟨i, j, hij, hlen ▸ hj, ?_⟩
      have hi' : i < f.rows.length := hlen ▸ hi
      have hj' : j < f.rows.length := hlen ▸ hj
      simp only [List.getD_eq_getElem?_getD, List.getElem?_eq_getElem hi', List.getElem?_eq_getElem hj',
        Option.getD_some, keyOf]
      simpa [Frame.col] using he

/-! ## B. The validation blocks (all earlier checks passing) -/

/-- Joins: a key column of either table with two Python-equal values ⇒ AssertionError. -/
theorem join_rejects_numerically_equal_keys (mname : String) (a : JoinArgs) (t : TokObj) (l r : Frame)
    (hv : TablesValid a.toTableArgs l r) (ht : TokValid mname t)
    (hthr : Gen.validate_threshold a.threshold (.str mname) ≠ .err .assertion)
    (hop : Gen.validate_comp_op_for_sim_measure (.str a.compOp) (.str mname) ≠ .err .assertion)
    (hout : OutValid a.toTableArgs l r)
    (h : SameKeyTwice l a.lKey ∨ SameKeyTwice r a.rKey) :
    validateJoin mname a t = .error .assertion :=
  validateJoin_key mname a t l r hv ht hthr hop hout
    (h.imp (not_keyValid_of_sameKeyTwice _ _) (not_keyValid_of_sameKeyTwice _ _))

/-- `filter_tables` (all five filters; also the table part of `overlap_join`): the same. -/
theorem filter_tables_rejects_numerically_equal_keys (a : TableArgs) (l r : Frame) (hv : TablesValid a l r)
    (hout : OutValid a l r) (h : SameKeyTwice l a.lKey ∨ SameKeyTwice r a.rKey) :
    validateFilterTables a = .error .assertion :=
  validateFilterTables_key a l r hv hout
    (h.imp (not_keyValid_of_sameKeyTwice _ _) (not_keyValid_of_sameKeyTwice _ _))

/-- `apply_matcher`: candset, tables, attributes, output attributes, tokenizer and operator in order, a key column of
    either table with two Python-equal values ⇒ AssertionError. -/
theorem apply_matcher_rejects_numerically_equal_keys (a : MatcherArgs) (t : Option TokObj) (c l r : Frame)
    (hc : a.candset = some c) (hl : a.ltable = some l) (hr : a.rtable = some r)
    (h1 : c.hasCol a.candLKey = true) (h2 : c.hasCol a.candRKey = true)
    (hlk : l.hasCol a.lKey = true) (hrk : r.hasCol a.rKey = true)
    (hla : l.hasCol a.lAttr = true) (hra : r.hasCol a.rAttr = true)
    (hlo : ∀ x ∈ a.lOut.getD [], l.hasCol x = true) (hro : ∀ x ∈ a.rOut.getD [], r.hasCol x = true)
    (htok : ∀ tk, t = some tk → tk.isTokenizer = true)
    (hop : Gen.validate_comp_op (.str a.compOp) ≠ .err .assertion)
    (h : SameKeyTwice l a.lKey ∨ SameKeyTwice r a.rKey) :
    validateMatcher a t = .error .assertion := by
  rw [apply_matcher_checks a t c l r hc hl hr h1 h2]
  have h5 : ((a.lOut.getD []).any fun x => !l.hasCol x) = false := by simpa using hlo
  have h6 : ((a.rOut.getD []).any fun x => !r.hasCol x) = false := by simpa using hro
  have h7 : (t.any fun tk => !tk.isTokenizer) = false := by
    cases t with
    | none => rfl
    | some tk => simp [htok tk rfl]
  simp only [hlk, hrk, hla, hra, h5, h6, h7, hop, Bool.not_true, Bool.false_eq_true, if_false]
  rcases h with h | h
  · simp [keyTest_of_sameKeyTwice _ _ h]
  · rw [keyTest_of_sameKeyTwice _ _ h]
    cases keyTest l a.lKey <;> rfl

/-- `filter_candset`: candset, tables, attributes and dtypes in order, a key column of either table with two
    Python-equal values ⇒ AssertionError. -/
theorem filter_candset_rejects_numerically_equal_keys (a : CandsetArgs) (c l r : Frame)
    (hc : a.candset = some c) (hl : a.ltable = some l) (hr : a.rtable = some r)
    (h1 : c.hasCol a.candLKey = true) (h2 : c.hasCol a.candRKey = true)
    (hlk : l.hasCol a.lKey = true) (hrk : r.hasCol a.rKey = true)
    (hla : l.hasCol a.lAttr = true) (hra : r.hasCol a.rAttr = true)
    (hld : l.dtype a.lAttr = "object" ∨ l.dtype a.lAttr = "str")
    (hrd : r.dtype a.rAttr = "object" ∨ r.dtype a.rAttr = "str")
    (h : SameKeyTwice l a.lKey ∨ SameKeyTwice r a.rKey) :
    validateCandset a = .error .assertion := by
  rw [filter_candset_checks a c l r hc hl hr h1 h2]
  have h5 : (l.dtype a.lAttr != "object" && l.dtype a.lAttr != "str") = false := by
    rcases hld with e | e <;> simp [e]
  have h6 : (r.dtype a.rAttr != "object" && r.dtype a.rAttr != "str") = false := by
    rcases hrd with e | e <;> simp [e]
  simp only [hlk, hrk, hla, hra, h5, h6, Bool.not_true, Bool.false_eq_true, if_false]
  rcases h with h | h
  · simp [keyTest_of_sameKeyTwice _ _ h]
  · rw [keyTest_of_sameKeyTwice _ _ h]
    cases keyTest l a.lKey <;> rfl

/-! ## C. The entry points -/

section EntryPoints
variable (a : JoinArgs) (t : TokObj) (toks : TokFn) (cpu : Int) (l r : Frame)

/-- jaccard / cosine / dice joins -/
theorem set_sim_join_numerically_equal_keys_rejected (m : Measure)
    (hv : TablesValid a.toTableArgs l r) (ht : TokValid m.name t)
    (hthr : Gen.validate_threshold a.threshold (.str m.name) ≠ .err .assertion)
    (hop : Gen.validate_comp_op_for_sim_measure (.str a.compOp) (.str m.name) ≠ .err .assertion)
    (hout : OutValid a.toTableArgs l r) (h : SameKeyTwice l a.lKey ∨ SameKeyTwice r a.rKey) :
    (setSimJoinPy m a t toks cpu).result = .error .assertion ∧ (setSimJoinPy m a t toks cpu).flagAfter = t.returnSet :=
  set_sim_join_rejected m a t toks cpu _ (join_rejects_numerically_equal_keys _ a t l r hv ht hthr hop hout h)

/-- overlap coefficient join -/
theorem overlap_coefficient_join_numerically_equal_keys_rejected
    (hv : TablesValid a.toTableArgs l r) (ht : TokValid "OVERLAP_COEFFICIENT" t)
    (hthr : Gen.validate_threshold a.threshold (.str "OVERLAP_COEFFICIENT") ≠ .err .assertion)
    (hop : Gen.validate_comp_op_for_sim_measure (.str a.compOp) (.str "OVERLAP_COEFFICIENT") ≠ .err .assertion)
    (hout : OutValid a.toTableArgs l r) (h : SameKeyTwice l a.lKey ∨ SameKeyTwice r a.rKey) :
    (overlapCoefficientJoinPy a t toks cpu).result = .error .assertion ∧
      (overlapCoefficientJoinPy a t toks cpu).flagAfter = t.returnSet :=
  overlap_coefficient_join_rejected a t toks cpu _ (join_rejects_numerically_equal_keys _ a t l r hv ht hthr hop hout h)

/-- edit distance join -/
theorem edit_distance_join_numerically_equal_keys_rejected
    (hv : TablesValid a.toTableArgs l r) (ht : TokValid "EDIT_DISTANCE" t)
    (hthr : Gen.validate_threshold a.threshold (.str "EDIT_DISTANCE") ≠ .err .assertion)
    (hop : Gen.validate_comp_op_for_sim_measure (.str a.compOp) (.str "EDIT_DISTANCE") ≠ .err .assertion)
    (hout : OutValid a.toTableArgs l r) (h : SameKeyTwice l a.lKey ∨ SameKeyTwice r a.rKey) :
    (editDistanceJoinPy a t toks cpu).result = .error .assertion ∧
      (editDistanceJoinPy a t toks cpu).flagAfter = t.returnSet :=
  edit_distance_join_rejected a t toks cpu _ (join_rejects_numerically_equal_keys _ a t l r hv ht hthr hop hout h)

/-- overlap join (its OverlapFilter constructed, the tables are validated by `filter_tables`) -/
theorem overlap_join_numerically_equal_keys_rejected (f : OverlapFilterObj)
    (hf : mkOverlapFilter a.threshold a.compOp a.allowMissing t = .ok f)
    (hv : TablesValid a.toTableArgs l r) (hout : OutValid a.toTableArgs l r)
    (h : SameKeyTwice l a.lKey ∨ SameKeyTwice r a.rKey) :
    (overlapJoinPy a t toks cpu).result = .error .assertion ∧ (overlapJoinPy a t toks cpu).flagAfter = t.returnSet :=
  overlap_join_rejected_tables a t toks cpu f _ hf
    (filter_tables_rejects_numerically_equal_keys a.toTableArgs l r hv hout h)

end EntryPoints

/-- `filter_tables` of the Size / Prefix / Position / Suffix filters -/
theorem filter_tables_numerically_equal_keys_rejected (k : FilterKind) (f : FilterObj) (a : TableArgs) (t : TokObj)
    (toks : TokFn) (cpu : Int) (l r : Frame) (hv : TablesValid a l r) (hout : OutValid a l r)
    (h : SameKeyTwice l a.lKey ∨ SameKeyTwice r a.rKey) :
    filterTables k f a t toks cpu = .error .assertion :=
  filter_tables_rejected k f a t toks cpu _ (filter_tables_rejects_numerically_equal_keys a l r hv hout h)

/-- `OverlapFilter.filter_tables` -/
theorem overlap_filter_tables_numerically_equal_keys_rejected (f : OverlapFilterObj) (a : TableArgs) (oss : Bool)
    (tok : String → List Tok) (cpu : Int) (l r : Frame) (hv : TablesValid a l r) (hout : OutValid a l r)
    (h : SameKeyTwice l a.lKey ∨ SameKeyTwice r a.rKey) :
    overlapFilterTables f a oss tok cpu = .error .assertion :=
  overlap_filter_tables_rejected f a oss tok cpu _ (filter_tables_rejects_numerically_equal_keys a l r hv hout h)

/-- `apply_matcher` -/
theorem apply_matcher_numerically_equal_keys_rejected (a : MatcherArgs) (t : Option TokObj) (toks : TokFn)
    (sim : SimArg → SimArg → PyV) (cpu : Int) (c l r : Frame)
    (hc : a.candset = some c) (hl : a.ltable = some l) (hr : a.rtable = some r)
    (h1 : c.hasCol a.candLKey = true) (h2 : c.hasCol a.candRKey = true)
    (hlk : l.hasCol a.lKey = true) (hrk : r.hasCol a.rKey = true)
    (hla : l.hasCol a.lAttr = true) (hra : r.hasCol a.rAttr = true)
    (hlo : ∀ x ∈ a.lOut.getD [], l.hasCol x = true) (hro : ∀ x ∈ a.rOut.getD [], r.hasCol x = true)
    (htok : ∀ tk, t = some tk → tk.isTokenizer = true)
    (hop : Gen.validate_comp_op (.str a.compOp) ≠ .err .assertion)
    (h : SameKeyTwice l a.lKey ∨ SameKeyTwice r a.rKey) :
    applyMatcher a t toks sim cpu = .error .assertion :=
  apply_matcher_rejected a t toks sim cpu _
    (apply_matcher_rejects_numerically_equal_keys a t c l r hc hl hr h1 h2 hlk hrk hla hra hlo hro htok hop h)

/-- `filter_candset` -/
theorem filter_candset_numerically_equal_keys_rejected (a : CandsetArgs) (fp : Cell → Cell → Except PyErr Bool)
    (cpu : Int) (c l r : Frame)
    (hc : a.candset = some c) (hl : a.ltable = some l) (hr : a.rtable = some r)
    (h1 : c.hasCol a.candLKey = true) (h2 : c.hasCol a.candRKey = true)
    (hlk : l.hasCol a.lKey = true) (hrk : r.hasCol a.rKey = true)
    (hla : l.hasCol a.lAttr = true) (hra : r.hasCol a.rAttr = true)
    (hld : l.dtype a.lAttr = "object" ∨ l.dtype a.lAttr = "str")
    (hrd : r.dtype a.rAttr = "object" ∨ r.dtype a.rAttr = "str")
    (h : SameKeyTwice l a.lKey ∨ SameKeyTwice r a.rKey) :
    filterCandset a fp cpu = .error .assertion :=
  filter_candset_rejected a fp cpu _
    (filter_candset_rejects_numerically_equal_keys a c l r hc hl hr h1 h2 hlk hrk hla hra hld hrd h)

/-! ## D. Non-vacuity: the key column `[1, 1.0]` -/

section Examples

/-- a table whose key column is `[1, 1.0]`: two DIFFERENT cells (an int and a float) … -/
def exDup : Frame :=
  { columns := ["id", "name"], dtypes := ["object", "object"],
    rows := [[.int 1, .str "ann lee"], [.flt 1, .str "bob ray"]] }

/-- … `1`, `True`, `'1'`: the first two are equal in Python, the string is not -/
def exBool : Frame :=
  { columns := ["id", "name"], dtypes := ["object", "object"],
    rows := [[.int 1, .str "ann lee"], [.str "1", .str "bob ray"], [.other "bool:True", .str "cy"]] }

/-- … and `1`, `'1'`, `2.5`, `False`: a key column -/
def exMixed : Frame :=
  { columns := ["id", "name"], dtypes := ["object", "object"],
    rows := [[.int 1, .str "ann lee"], [.str "1", .str "bob ray"], [.flt (mkRat 5 2), .str "cy"],
      [.other "bool:False", .str "di"]] }

/-- the cells of `[1, 1.0]` are pairwise different … -/
example : (exDup.col "id").Nodup := by decide
/-- … but `1 == 1.0`: rows 0 and 1 hold the same key twice … -/
example : SameKeyTwice exDup "id" := ⟨0, 1, by decide, by decide, by decide⟩
/-- … so `[1, 1.0]` is not a key column and `validate_key_attr` raises AssertionError … -/
example : ¬ KeyColumn exDup "id" := by decide
example : validateKeyAttr "id" exDup = .error .assertion := by decide
example : validateKeyAttr "id" exDup = .error .assertion :=
  key_numerically_equal_values_rejected "id" exDup ⟨0, 1, by decide, by decide, by decide⟩
/-- … `1` and `True` likewise (rows 0 and 2) … -/
example : SameKeyTwice exBool "id" := ⟨0, 2, by decide, by decide, by decide⟩
example : validateKeyAttr "id" exBool = .error .assertion := by decide
/-- … whereas `1`, `'1'`, `2.5`, `False` is accepted -/
example : KeyColumn exMixed "id" := by decide
example : validateKeyAttr "id" exMixed = .ok () := by decide

/-- every join rejects the table with key column `[1, 1.0]`, on either side, for every tokenization and cpu count -/
example (toks : TokFn) (cpu : Int) :
    (setSimJoinPy .jaccard (exArgs exDup exR (.float (mkRat 3 10)) ">=") exTok toks cpu).result = .error .assertion :=
  (set_sim_join_rejected .jaccard _ exTok toks cpu _ (by decide)).1
example (toks : TokFn) (cpu : Int) :
    (editDistanceJoinPy (exArgs exL exDup (.int 2) "<=") exTok toks cpu).result = .error .assertion :=
  (edit_distance_join_rejected _ exTok toks cpu _ (by decide)).1
example : validateFilterTables (exArgs exDup exR (.int 1) ">=").toTableArgs = .error .assertion := by decide
/-- the hypotheses of the entry-level theorem are satisfiable -/
example (toks : TokFn) (cpu : Int) :
    (setSimJoinPy .jaccard (exArgs exDup exR (.float (mkRat 3 10)) ">=") exTok toks cpu).result = .error .assertion :=
  (set_sim_join_numerically_equal_keys_rejected (exArgs exDup exR (.float (mkRat 3 10)) ">=") exTok toks cpu exDup exR
    .jaccard ((validateTablesAttrs_ok_iff _ _ _).1 (by decide)) ⟨by decide, by decide⟩ (by decide) (by decide)
    ⟨by decide, by decide⟩
    (Or.inl ⟨0, 1, by decide, by decide, by decide⟩)).1

end Examples

namespace AxiomCheck
#print axioms keyValid_iff_keyColumn
#print axioms validate_key_attr_accepts_iff
#print axioms validate_key_attr_rejects_iff
#print axioms key_numerically_equal_values_rejected
#print axioms key_column_nodup
#print axioms key_column_iff_no_same_key_twice
#print axioms join_rejects_numerically_equal_keys
#print axioms filter_tables_rejects_numerically_equal_keys
#print axioms apply_matcher_rejects_numerically_equal_keys
#print axioms filter_candset_rejects_numerically_equal_keys
#print axioms set_sim_join_numerically_equal_keys_rejected
#print axioms overlap_coefficient_join_numerically_equal_keys_rejected
#print axioms edit_distance_join_numerically_equal_keys_rejected
#print axioms overlap_join_numerically_equal_keys_rejected
#print axioms filter_tables_numerically_equal_keys_rejected
#print axioms overlap_filter_tables_numerically_equal_keys_rejected
#print axioms apply_matcher_numerically_equal_keys_rejected
#print axioms filter_candset_numerically_equal_keys_rejected
end AxiomCheck

end SSJ.Props.C15

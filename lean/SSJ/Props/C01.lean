/-
  C01 — Set-similarity joins return every qualifying pair.

  "For jaccard_join, cosine_join, dice_join, overlap_coefficient_join and overlap_join, every (left row, right row)
   pair whose join values are both present and whose token-set similarity satisfies the requested comparison against
   the threshold is present in the output, whatever other rows the two tables contain.  'Satisfies' means the
   comparison holds for the similarity both as computed in double precision and as rounded to the four decimals the
   library reports (overlap and overlap-coefficient are not rounded); pairs of two empty token sets are governed by
   allow_empty instead (C09)."

  Model: the `*_join_py` entry points of lean/SSJ/Model/Frame.lean — DataFrame in, DataFrame out, including
  validation, projection / dropna, `n_jobs` chunking of the right table, concatenation, missing-value pairs, `_id`.
  Vocabulary: lean/SSJ/Props/Common.lean (`keyOf`, `Present`, `tokensOf`, `rowKeys`, `rowScore`, `InScope`);
  specification: lean/SSJ/Spec/Spec.lean (`simSet`, `score4`, `qualStrict`, `bothEmpty`).

  One section per join family; theorem names carry the family as prefix (`setsim_` = jaccard / cosine / dice).

  ── jaccard_join / cosine_join / dice_join: `setSimJoinPy m a t toks cpu`, `m ∈ {jaccard, cosine, dice}` ──
  Hypotheses, in plain words:
    * the arguments pass the validation block of the join (`validateJoin … = .ok (l, r)`: both tables are frames,
      the attributes exist and are string-typed, key columns are keys, operator is one of `>=`, `>`, `=`, …);
    * the threshold is a Python float `thr` with `2⁻²⁰ ≤ thr ≤ 1` (`ThrOK`);
    * scope (`InScope`): the tokenizer in set mode returns duplicate-free lists of fewer than 2³² tokens, the right
      table has fewer than 2⁴⁰ rows;
    * `BodyOK` (SSJ/Props/Common.lean): both join columns hold only strings and missing values (a present value of
      another type makes the tokenizer raise TypeError) and the output header has no column `_id` (else the final
      `insert(0, '_id', …)` raises ValueError) — needed because the theorems CONCLUDE that the call returns;
    * everything else is arbitrary: the other rows of both tables, `n_jobs`, the CPU count, `allow_empty`,
      `allow_missing`, `out_sim_score`, output attributes and prefixes, the tokenizer object's current flag.
  NOT covered: a threshold passed as the Python int `1`; thresholds below 2⁻²⁰; tokenizers / tables outside
  `InScope`; pairs of two empty token sets (C09); pairs with a missing join value (C08).
-/
import SSJ.Proofs.EntrySetSim
import SSJ.Props.C01_exact

namespace SSJ.Props.C01
open SSJ SSJ.Props

/-! ## jaccard / cosine / dice -/

/-- The call succeeds, and every pair of rows with present join values, not both tokenizing to nothing, whose
    similarity satisfies the comparison both raw and rounded, is named by a row of the result; when requested,
    that row's `_sim_score` is the similarity rounded to 4 decimals. -/
theorem setsim_complete (m : Measure) (hm : SetMeasure m) (a : JoinArgs) (t : TokObj) (toks : TokFn) (cpu : Int)
    (l r : Frame) (hv : validateJoin m.name a t = .ok (l, r))
    (thr : Rat) (hthr : a.threshold = .float thr) (hok : ThrOK thr) (hs : InScope (toks true) r)
    (ls : Row) (hls : ls ∈ l.rows) (rs : Row) (hrs : rs ∈ r.rows)
    (hpl : Present l a.lAttr ls) (hpr : Present r a.rAttr rs)
    (hne : Spec.bothEmpty (tokensOf (toks true) l a.lAttr ls) (tokensOf (toks true) r a.rAttr rs) = false)
    (hq : Spec.qualStrict m a.compOp (.float thr) (tokensOf (toks true) l a.lAttr ls)
      (tokensOf (toks true) r a.rAttr rs) = true)
    (hb : BodyOK a.toTableArgs l r a.outSimScore) :
    ∃ fr, (setSimJoinPy m a t toks cpu).result = .ok fr ∧
      ∃ row ∈ fr.rows, rowKeys row = (keyOf l a.lKey ls, keyOf r a.rKey rs) ∧
        (a.outSimScore = true → rowScore row = scoreCell (Spec.score4 m (tokensOf (toks true) l a.lAttr ls)
          (tokensOf (toks true) r a.rAttr rs))) :=
  EntrySetSim.complete m a t toks cpu l r hm hv thr hthr hok hs ls hls rs hrs hpl hpr hne hq hb

/-- Validated arguments, string join columns and an output header without `_id` (`BodyOK`) never make the join
    raise: the call returns a frame (whatever the threshold).  Without `BodyOK` it raises: `C15.nonstring_join_value_raises`,
    `C15.id_clash_raises`. -/
theorem setsim_returns (m : Measure) (a : JoinArgs) (t : TokObj) (toks : TokFn) (cpu : Int)
    (l r : Frame) (hv : validateJoin m.name a t = .ok (l, r)) (hb : BodyOK a.toTableArgs l r a.outSimScore) :
    ∃ fr, (setSimJoinPy m a t toks cpu).result = .ok fr :=
  EntrySetSim.total m a t toks cpu l r hv hb

/-! non-vacuity: the request `jaccard_join(exL, exR, 'id', 'id', 's', 's', tok, 0.5, allow_missing=True, n_jobs=2)`
    of `EntrySetSim.Ex` on 4 CPUs — left rows (1,"ab") (2,"") (3,NaN) (4,"x"), right rows (7,"abc") (8,"") (9,NaN),
    "ab" ↦ {a,b}, "abc" ↦ {a,b,c} — satisfies all hypotheses for the pair ((1,"ab"), (7,"abc")), whose Jaccard
    similarity is the double nearest 2/3 (`Ex.exSim`, `Ex.exQual`); so the result names the key pair (1, 7). -/
section Example
open EntrySetSim.Ex

example : ∃ fr, (setSimJoinPy .jaccard exArgs {} exToks 4).result = .ok fr ∧
    ∃ row ∈ fr.rows, rowKeys row = (keyOf exL "id" exLs, keyOf exR "id" exRs) ∧
      (exArgs.outSimScore = true → rowScore row = scoreCell (Spec.score4 .jaccard
        (tokensOf (exToks true) exL "s" exLs) (tokensOf (exToks true) exR "s" exRs))) :=
  setsim_complete .jaccard (Or.inl rfl) exArgs {} exToks 4 exL exR exValid (1 / 2) rfl exThr exScope
    exLs exLs_mem exRs exRs_mem exLs_present exRs_present exPair_nonempty exPair_qual (by decide +kernel)

example : (keyOf exL "id" exLs, keyOf exR "id" exRs) = (Cell.int 1, Cell.int 7) := by decide +kernel

end Example

section AxiomCheck
#print axioms setsim_complete
#print axioms setsim_returns
end AxiomCheck

end SSJ.Props.C01

/-
  C09 (filter part, continued) — `filter_candset` and pairs of values that both tokenize to nothing.

  PROPERTY (C09).  "A pair whose two values both tokenize to no tokens survives Size/Prefix/Position/Suffix filters under
  JACCARD/COSINE/DICE iff allow_empty is True, whatever the threshold; such a pair is never kept by filters under
  OVERLAP."

  SSJ/Props/C09_filters.lean proves this for `filter_pair` and `filter_tables` and leaves `filter_candset` to the generic
  candset theorem ("row-wise `filter_pair`, C06").  This file writes the instances out.  They are INSTANTIATIONS of the
  generic candset theorem (`EntryFilters.filterCandset_keeps` = `C04.candset_keeps_iff`: a candidate row is kept iff
  `filter_pair` does not drop the pair it references) with `C09.filter_pair_both_empty_iff` / `_overlap` / `_ed`;
  nothing new is proved about the filters.
    `candset_both_empty_iff`     JACCARD / COSINE / DICE : the candidate row is kept  ⇔  `allow_empty`
    `candset_both_empty_overlap` OVERLAP                 : the candidate row is never kept
    `candset_both_empty_ed`      EDIT_DISTANCE           : the candidate row is always kept (as by `filter_pair`; recorded
                                 because `filter_tables` does NOT list such a pair — `filter_tables_both_empty_ed`)

  MODEL: `filterCandset a (filterPairPy k f tok) cpu` (`filter_candset` of the filter of kind `k`, SSJ/Model/Matcher.lean).
  HYPOTHESES: `EntryFilters.CandsetValid a c l r` (valid arguments, fewer than 2⁴⁰ candidate rows, every candidate row
  references existing table rows), the call returned a frame (`hres`; it does whenever the filter columns hold only
  strings and missing values, `C04.candset_keeps_iff_filter`), the candidate row `cr` carries the keys of table rows
  `ls`, `rs` whose join values are present and tokenize to the empty list.  ALL four filter kinds, ANY threshold value
  (not even validated), any tokenizer, `n_jobs`, cpu count, `allow_missing`.
  NOT COVERED: OverlapFilter (it has no `allow_empty`; a pair of empty strings is dropped, `C04.candset_overlap_filter_exact`).
-/
import SSJ.Props.C09_filters
import SSJ.Proofs.CandsetInst

namespace SSJ.Props.C09
open SSJ SSJ.Spec SSJ.Props

section Candset
variable (k : FilterKind) (f : FilterObj) (tok : String → List Tok)
  (a : CandsetArgs) (cpu : Int) (c l r fr : Frame) (hval : EntryFilters.CandsetValid a c l r)
  (hres : filterCandset a (filterPairPy k f tok) cpu = .ok fr)
  (cr ls rs : Row) (hcr : cr ∈ c.rows) (hls : ls ∈ l.rows) (hrs : rs ∈ r.rows)
  (hkl : keyOf l a.lKey ls = cr.cell (c.colIdx a.candLKey)) (hkr : keyOf r a.rKey rs = cr.cell (c.colIdx a.candRKey))
  (hlp : Present l a.lAttr ls) (hrp : Present r a.rAttr rs)
  (ha : tokensOf tok l a.lAttr ls = []) (hb : tokensOf tok r a.rAttr rs = [])
include hval hres hcr hls hrs hkl hkr hlp hrp ha hb

/-- JACCARD / COSINE / DICE: `filter_candset` of any of the four filters keeps a candidate row whose two present join
    values both have no tokens iff `allow_empty`; whatever the threshold -/
theorem candset_both_empty_iff (hm : SetMeasure f.cfg.measure) : cr ∈ fr.rows ↔ f.allowEmpty = true :=
  (EntryFilters.filterCandset_mem_iff_filter k f tok a cpu c l r fr hval hres cr ls rs hcr hls hrs hkl hkr).trans
    (filter_pair_both_empty_iff k f tok _ _ hlp hrp ha hb hm)

/-- OVERLAP: such a candidate row is never kept -/
theorem candset_both_empty_overlap (hm : f.cfg.measure = .overlap) : cr ∉ fr.rows := by
  rw [EntryFilters.filterCandset_mem_iff_filter k f tok a cpu c l r fr hval hres cr ls rs hcr hls hrs hkl hkr,
    filter_pair_both_empty_overlap k f tok _ _ hlp hrp ha hb hm]
  simp

/-- EDIT_DISTANCE: such a candidate row is always kept by `filter_candset` (as the pair is by `filter_pair`) -/
theorem candset_both_empty_ed (hm : f.cfg.measure = .editDistance) : cr ∈ fr.rows :=
  (EntryFilters.filterCandset_mem_iff_filter k f tok a cpu c l r fr hval hres cr ls rs hcr hls hrs hkl hkr).2
    (filter_pair_both_empty_ed k f tok _ _ hlp hrp ha hb hm)

end Candset

/-! ## non-vacuity: rows 2 / 8 of the two small tables of SSJ/Proofs/EntryFilters.lean hold empty strings (no tokens);
    a one-row candidate set referencing them, `n_jobs = 2` -/
section NonVacuity
open EntryFilters.Ex

def emptyC : Frame := { columns := ["_id", "l_id", "r_id"], index := [.int 0], rows := [[.int 0, .int 2, .int 8]] }
def emptyArgs : CandsetArgs :=
  { candset := some emptyC, candLKey := "l_id", candRKey := "r_id", ltable := some exL, rtable := some exR,
    lKey := "id", rKey := "id", lAttr := "name", rAttr := "name", nJobs := 2 }

theorem emptyArgs_valid : EntryFilters.CandsetValid emptyArgs emptyC exL exR :=
  ⟨rfl, rfl, rfl, by decide, by decide, by decide, by decide, by decide, by decide, by decide, by decide, by decide,
    by decide, by decide, by decide⟩

/-- DICE 0.5, `allow_empty = True` (default): PositionFilter's `filter_candset` returns and keeps the row -/
example : ∃ fr, filterCandset emptyArgs (filterPairPy .position { cfg := cfgOf .dice (1 / 2) } exTok) 4 = .ok fr ∧
    [Cell.int 0, .int 2, .int 8] ∈ fr.rows := by
  obtain ⟨fr, hfr, -, -⟩ := EntryFilters.filterCandset_keeps emptyArgs _ _ 4 emptyC exL exR emptyArgs_valid
    (filterPairPy_columns .position { cfg := cfgOf .dice (1 / 2) } exTok exL exR "name" "name" (by decide) (by decide))
  exact ⟨fr, hfr, (candset_both_empty_iff .position _ exTok emptyArgs 4 emptyC exL exR fr emptyArgs_valid hfr _
    [.int 2, .str ""] [.int 8, .str ""] (by decide) (by decide) (by decide) (by decide) (by decide)
    (by unfold Present; decide) (by unfold Present; decide) (by decide) (by decide) (Or.inr (Or.inr rfl))).2 rfl⟩

/-- … with `allow_empty = False` it returns and drops the row -/
example : ∃ fr, filterCandset emptyArgs
      (filterPairPy .position { cfg := cfgOf .dice (1 / 2), allowEmpty := false } exTok) 4 = .ok fr ∧
    [Cell.int 0, .int 2, .int 8] ∉ fr.rows := by
  obtain ⟨fr, hfr, -, -⟩ := EntryFilters.filterCandset_keeps emptyArgs _ _ 4 emptyC exL exR emptyArgs_valid
    (filterPairPy_columns .position { cfg := cfgOf .dice (1 / 2), allowEmpty := false } exTok exL exR "name" "name"
      (by decide) (by decide))
  refine ⟨fr, hfr, fun h => ?_⟩
  exact absurd ((candset_both_empty_iff .position _ exTok emptyArgs 4 emptyC exL exR fr emptyArgs_valid hfr _
    [.int 2, .str ""] [.int 8, .str ""] (by decide) (by decide) (by decide) (by decide) (by decide)
    (by unfold Present; decide) (by unfold Present; decide) (by decide) (by decide) (Or.inr (Or.inr rfl))).1 h) (by decide)

/-- OVERLAP, threshold 1: the SizeFilter's `filter_candset` returns and drops the row -/
example : ∃ fr, filterCandset emptyArgs
      (filterPairPy .size { cfg := { measure := .overlap, threshold := .int 1 } } exTok) 4 = .ok fr ∧
    [Cell.int 0, .int 2, .int 8] ∉ fr.rows := by
  obtain ⟨fr, hfr, -, -⟩ := EntryFilters.filterCandset_keeps emptyArgs _ _ 4 emptyC exL exR emptyArgs_valid
    (filterPairPy_columns .size { cfg := { measure := .overlap, threshold := .int 1 } } exTok exL exR "name" "name"
      (by decide) (by decide))
  exact ⟨fr, hfr, candset_both_empty_overlap .size _ exTok emptyArgs 4 emptyC exL exR fr emptyArgs_valid hfr _
    [.int 2, .str ""] [.int 8, .str ""] (by decide) (by decide) (by decide) (by decide) (by decide)
    (by unfold Present; decide) (by unfold Present; decide) (by decide) (by decide) rfl⟩

end NonVacuity

/-- info: 'SSJ.Props.C09.candset_both_empty_iff' depends on axioms: [propext, Classical.choice, Quot.sound] -/
#guard_msgs in #print axioms candset_both_empty_iff
/-- info: 'SSJ.Props.C09.candset_both_empty_overlap' depends on axioms: [propext, Classical.choice, Quot.sound] -/
#guard_msgs in #print axioms candset_both_empty_overlap
/-- info: 'SSJ.Props.C09.candset_both_empty_ed' depends on axioms: [propext, Classical.choice, Quot.sound] -/
#guard_msgs in #print axioms candset_both_empty_ed

end SSJ.Props.C09

/-
  C16 (companion) — Numeric-to-string conversion: WHEN the frame version raises, and what happens to EMPTY series.

  PROPERTY C16.  "Numeric-to-string conversion keeps missing values missing and integers integral"; its mode clauses:
  `dataframe_column_to_str(df, col, inplace, return_col)` returns True / a column / a converted copy, raises
  AssertionError when both flags are set and TypeError for a column that is neither numeric nor string;
  `series_to_str(series, inplace)` returns True when `inplace` and a new Series otherwise, with the documented
  exception that a series which cannot be converted in place (empty, or all-NaN float) yields an object-typed COPY even
  when `inplace=True`.  `SSJ/Props/C16.lean` has `series_error_iff` (errors of the series version), `frame_modes` (the
  mode matrix, with the error KINDS), `series_all_missing` (the exception, FLOAT dtype only).  Missing there, proved here:
    (a) `frame_error_iff` — exactly when `dataframe_column_to_str` raises, and with which exception;
    (b) `series_empty` (+ `_int`, `_float`, `_object`, `_other`) — what `series_to_str` does with an EMPTY series of every
        dtype in both modes; `frame_empty` — the same for the frame version; `series_returns_true_iff` — exactly when
        `series_to_str(…, inplace=True)` returns True.

  MODEL FUNCTIONS.  `SSJ.Converter.seriesToStr reprF c inplace`, `SSJ.Converter.dataframeColumnToStr reprF c inplace
  returnCol` (`SSJ/Model/Converter.lean`): a column is a dtype tag ("object" | "str" | "int" | "float" | anything
  else) plus its cells; `reprF` stands for CPython's `repr(float)` (irrelevant here).  Results: `.retTrue after` (True
  was returned, the given object now holds `after`), `.retCol c` (a new column), `.retFrame c` (a copy of the frame whose
  column is `c`), `.err e`.

  WHAT HOLDS (all dtypes, all cells, both modes — no hypotheses):
    * the frame version raises AssertionError iff both flags are set (whatever the column); it raises TypeError iff
      not both flags are set, the column is non-empty, its dtype is none of object / str / int / float, and — ONLY when
      `inplace` — not all of its values are missing.  So an all-missing column of an unsupported dtype (e.g. a
      `datetime64` column of NaT) is accepted by `inplace=True` (retyped "object", returns True) and rejected with
      TypeError by the two copying modes: the in-place branch tests `all missing` BEFORE it looks at the dtype.
    * an EMPTY series: `series_to_str` never raises (not even for an unsupported dtype), and returns True only for dtype
      object with `inplace=True` (nothing to do); in every other case — int, float, str, anything, and object without
      `inplace` — it returns an object-typed COPY, `inplace=True` notwithstanding.  This is the documented exception,
      here for every dtype (C16's `series_all_missing` is its float instance, which also covers all-NaN).

  NOT COVERED.  pandas' dtype mechanics themselves (modelled, not verified: DESIGN §6 C16; tie to the real code: the
  `converter` suite and the converter oracle).  Known finding K1 (C16.lean's header: the real `series_to_str(…,
  inplace=True)` on a numeric series with a present value raises TypeError under pandas ≥ 3) concerns NON-empty
  series and is untouched by this file; for empty and all-NaN series model and real code agree.
-/
import SSJ.Props.C16

namespace SSJ.Props.C16
open SSJ SSJ.Converter

/-! ## (a) errors of `dataframe_column_to_str` -/

/-- ERRORS OF THE FRAME VERSION, exactly.  `dataframe_column_to_str` raises `e` iff
    * `e` is AssertionError and both `inplace` and `return_col` are set; or
    * `e` is TypeError, not both flags are set, the column is non-empty, its dtype is none of object / str / int /
      float, and — when `inplace` is set — at least one value is present (an all-missing column is retyped "object" in
      place before its dtype is looked at). -/
theorem frame_error_iff (reprF : Rat → String) (c : Column) (inplace returnCol : Bool) (e : PyErr) :
    dataframeColumnToStr reprF c inplace returnCol = .err e ↔
      (e = .assertion ∧ inplace = true ∧ returnCol = true) ∨
      (e = .typeErr ∧ ¬ (inplace = true ∧ returnCol = true) ∧ c.values.length ≠ 0 ∧
        c.dtype ≠ "object" ∧ c.dtype ≠ "str" ∧ c.dtype ≠ "int" ∧ c.dtype ≠ "float" ∧
        (inplace = true → ¬ ∀ x ∈ c.values, x.isMissing = true)) := by
  have key := seriesToStr_err_iff reprF c false e
  have hall : c.values.all Cell.isMissing = true ↔ ∀ x ∈ c.values, x.isMissing = true := by
    simp
  cases inplace <;> cases returnCol
  · refine Iff.trans ?_ (Iff.trans key (by simp))
    unfold dataframeColumnToStr
    simp only [Bool.false_and, Bool.false_eq_true, if_false]
    cases seriesToStr reprF c false <;> simp
  · refine Iff.trans ?_ (Iff.trans key (by simp))
    unfold dataframeColumnToStr
    simp only [Bool.false_and, Bool.false_eq_true, if_false, if_true]
    cases seriesToStr reprF c false <;> simp
  · unfold dataframeColumnToStr
    simp only [Bool.and_false, Bool.false_eq_true, if_false, if_true]
    by_cases h0 : c.values.length = 0
    · simp [h0]
    · by_cases hm : ∀ x ∈ c.values, x.isMissing = true
      · have : (decide (c.values.length = 0) || c.values.all Cell.isMissing) = true := by
          rw [hall.2 hm]; simp
        rw [if_pos this]
        constructor
        · intro h; cases h
        · rintro (⟨-, -, h⟩ | ⟨-, -, -, -, -, -, -, h⟩)
          · cases h
          · exact absurd hm (h (by first | rfl | trivial))
      · have : ¬ (decide (c.values.length = 0) || c.values.all Cell.isMissing) = true := by
          rw [Bool.or_eq_true, hall]; simp [h0, hm]
        rw [if_neg this]
        refine Iff.trans ?_ (Iff.trans key (by simp [hm]))
        cases seriesToStr reprF c false <;> simp
  · rw [dataframeColumnToStr_both]
    simp
    exact eq_comm

/-- … in particular: the only column on which the modes DISAGREE about raising is a non-empty all-missing column of
    an unsupported dtype — `inplace=True` returns True (column retyped "object"), the copying modes raise TypeError. -/
theorem frame_all_missing_unsupported (reprF : Rat → String) (c : Column) (h0 : c.values.length ≠ 0)
    (hm : ∀ x ∈ c.values, x.isMissing = true)
    (hd : c.dtype ≠ "object" ∧ c.dtype ≠ "str" ∧ c.dtype ≠ "int" ∧ c.dtype ≠ "float") :
    dataframeColumnToStr reprF c true false = .retTrue { c with dtype := "object" } ∧
    dataframeColumnToStr reprF c false true = .err .typeErr ∧
    dataframeColumnToStr reprF c false false = .err .typeErr := by
  refine ⟨?_, ?_, ?_⟩
  · unfold dataframeColumnToStr
    have : (decide (c.values.length = 0) || c.values.all Cell.isMissing) = true := by
      have : c.values.all Cell.isMissing = true := by simpa using hm
      rw [this]; simp
    simp only [Bool.and_false, Bool.false_eq_true, if_false, if_true]
    rw [if_pos this]
  · exact (frame_error_iff reprF c false true .typeErr).2 (Or.inr ⟨rfl, by simp, h0, hd.1, hd.2.1, hd.2.2.1, hd.2.2.2,
      fun h => by cases h⟩)
  · exact (frame_error_iff reprF c false false .typeErr).2 (Or.inr ⟨rfl, by simp, h0, hd.1, hd.2.1, hd.2.2.1, hd.2.2.2,
      fun h => by cases h⟩)

/-! ## (b) empty series -/

/-- EMPTY SERIES, every dtype, both modes.  `series_to_str` on a series without values returns True — leaving the series
    as it is — only when its dtype is object and `inplace` is set; otherwise it returns an object-typed copy (a new,
    still empty column), also when `inplace=True`, and also for a dtype it would otherwise reject with TypeError. -/
theorem series_empty (reprF : Rat → String) (c : Column) (inplace : Bool) (h : c.values = []) :
    seriesToStr reprF c inplace =
      if c.dtype = "object" ∧ inplace = true then .retTrue c else .retCol { c with dtype := "object" } := by
  unfold seriesToStr
  rw [if_pos (by rw [h]; rfl)]
  by_cases hd : c.dtype = "object" <;> cases inplace <;> simp [hd]

/-- the documented exception for an EMPTY INT series: an object-typed copy, even when `inplace=True` -/
theorem series_empty_int (reprF : Rat → String) (c : Column) (inplace : Bool) (h : c.values = []) (hd : c.dtype = "int") :
    seriesToStr reprF c inplace = .retCol { dtype := "object", values := [] } := by
  rw [series_empty reprF c inplace h, if_neg (by rw [hd]; simp), h]

/-- … for an EMPTY FLOAT series likewise (also an instance of `series_all_missing`) -/
theorem series_empty_float (reprF : Rat → String) (c : Column) (inplace : Bool) (h : c.values = [])
    (hd : c.dtype = "float") :
    seriesToStr reprF c inplace = .retCol { dtype := "object", values := [] } := by
  rw [series_empty reprF c inplace h, if_neg (by rw [hd]; simp), h]

/-- an EMPTY OBJECT series: `inplace=True` returns True and the series is unchanged; `inplace=False` returns a copy,
    equal to the input -/
theorem series_empty_object (reprF : Rat → String) (c : Column) (h : c.values = []) (hd : c.dtype = "object") :
    seriesToStr reprF c true = .retTrue c ∧ seriesToStr reprF c false = .retCol c := by
  have hc : ({ c with dtype := "object" } : Column) = c := by cases c; simp_all
  constructor
  · rw [series_empty reprF c true h, if_pos ⟨hd, rfl⟩]
  · rw [series_empty reprF c false h, if_neg (by simp), hc]

/-- an EMPTY series of any OTHER dtype ("str", or one the converter rejects when there are values): an object-typed
    copy in both modes — no TypeError -/
theorem series_empty_other (reprF : Rat → String) (c : Column) (inplace : Bool) (h : c.values = [])
    (hd : c.dtype ≠ "object") :
    seriesToStr reprF c inplace = .retCol { dtype := "object", values := [] } := by
  rw [series_empty reprF c inplace h, if_neg (fun hh => hd hh.1), h]

/-- WHEN DOES `series_to_str(…, inplace=True)` RETURN True?  Exactly when the series is of dtype object (empty or not),
    or non-empty of dtype str or int, or of dtype float with at least one present value.  In all other cases it returns
    an object-typed copy (empty non-object series; empty / all-NaN float series) or raises TypeError (`series_error_iff`). -/
theorem series_returns_true_iff (reprF : Rat → String) (c : Column) :
    (∃ after, seriesToStr reprF c true = .retTrue after) ↔
      c.dtype = "object" ∨ (c.values.length ≠ 0 ∧ (c.dtype = "str" ∨ c.dtype = "int")) ∨
      (c.dtype = "float" ∧ ¬ ∀ x ∈ c.values, x.isMissing = true) := by
  rw [seriesToStr_eq]
  unfold wrap
  by_cases h0 : c.values.length = 0
  · have hnil : c.values = [] := List.length_eq_zero_iff.1 h0
    by_cases hd : c.dtype = "object" <;> simp [hd, hnil]
  · by_cases h1 : c.dtype = "object"
    · simp [h0, h1]
    · by_cases h2 : c.dtype = "str"
      · simp [h0, h2]
      · by_cases h3 : c.dtype = "int"
        · simp [h0, h3]
        · by_cases h4 : c.dtype = "float"
          · by_cases hm : ∀ x ∈ c.values, x.isMissing = true
            · simp only [h0, h4, if_false, if_true]
              rw [if_pos hm]
              simp
              exact hm
            · simp only [h0, h4, if_false, if_true]
              rw [if_neg hm]
              simp [hm]
          · simp [h0, h1, h2, h3, h4]

/-- EMPTY COLUMN, frame version: `dataframe_column_to_str` on a column without values retypes it "object" in every
    admissible mode — in place (True), as a returned column, or in a copy of the frame — whatever its dtype; only both
    flags together raise (AssertionError). -/
theorem frame_empty (reprF : Rat → String) (c : Column) (h : c.values = []) :
    dataframeColumnToStr reprF c true false = .retTrue { c with dtype := "object" } ∧
    dataframeColumnToStr reprF c false true = .retCol { c with dtype := "object" } ∧
    dataframeColumnToStr reprF c false false = .retFrame { c with dtype := "object" } ∧
    dataframeColumnToStr reprF c true true = .err .assertion := by
  have hs : seriesToStr reprF c false = .retCol { c with dtype := "object" } := by
    rw [series_empty reprF c false h, if_neg (by simp)]
  refine ⟨?_, ?_, ?_, rfl⟩
  · unfold dataframeColumnToStr
    simp [h]
  · unfold dataframeColumnToStr
    simp only [Bool.false_and, Bool.false_eq_true, if_false, if_true, hs]
  · unfold dataframeColumnToStr
    simp only [Bool.false_and, Bool.false_eq_true, if_false, hs]

/-! ## Non-vacuity -/

/-- an empty int series, `inplace=True`: NOT True but an object-typed copy; an empty object series: True -/
example : seriesToStr (fun _ => "?") { dtype := "int", values := [] } true = .retCol { dtype := "object", values := [] } := by
  decide
example : seriesToStr (fun _ => "?") { dtype := "object", values := [] } true = .retTrue { dtype := "object", values := [] } := by
  decide
/-- an empty series of an unsupported dtype is not rejected, a non-empty one is -/
example : seriesToStr (fun _ => "?") { dtype := "bool", values := [] } false = .retCol { dtype := "object", values := [] } := by
  decide
example : seriesToStr (fun _ => "?") { dtype := "bool", values := [.other "bool:True"] } false = .err .typeErr := by decide
/-- the frame version: TypeError for a non-empty unsupported column with a present value in every single-flag mode,
    AssertionError for both flags whatever the column … -/
example : dataframeColumnToStr (fun _ => "?") { dtype := "bool", values := [.other "bool:True"] } true false = .err .typeErr := by
  decide
example : dataframeColumnToStr (fun _ => "?") { dtype := "int", values := [.int 1] } true true = .err .assertion := by decide
/-- … and the asymmetry of `frame_all_missing_unsupported`: an all-NaT `datetime64` column -/
example : dataframeColumnToStr (fun _ => "?") { dtype := "datetime64", values := [.missing] } true false
    = .retTrue { dtype := "object", values := [.missing] } := by decide
example : dataframeColumnToStr (fun _ => "?") { dtype := "datetime64", values := [.missing] } false false = .err .typeErr := by
  decide

section AxiomCheck
#print axioms frame_error_iff
#print axioms frame_all_missing_unsupported
#print axioms series_empty
#print axioms series_empty_int
#print axioms series_empty_float
#print axioms series_empty_object
#print axioms series_empty_other
#print axioms series_returns_true_iff
#print axioms frame_empty
end AxiomCheck

end SSJ.Props.C16

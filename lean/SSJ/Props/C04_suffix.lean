/-
  C04 (continued) — SuffixFilter: the two cases left open in `SSJ/Props/C04.lean`, both now proved in full.

  PROPERTY (C04).  "For SizeFilter, PrefixFilter, PositionFilter and SuffixFilter under JACCARD, COSINE, DICE, OVERLAP or
  EDIT_DISTANCE … a pair of present values whose similarity meets the filter's threshold (>= for similarities; <= for
  edit distance, where the pair must also share a q-gram) is never dropped: filter_pair reports it as not dropped,
  filter_tables lists it …  The tokenizer is assumed to return sets for the set measures and bags of q-grams for edit
  distance."

  MODEL.  `filterPair .suffix f tok l r` (`SuffixFilter.filter_pair`; `true` = dropped), `filterTables .suffix f a t toks cpu`
  (`SuffixFilter.filter_tables`: validations, projection, dropna, chunking by `n_jobs`, `_filter_tables_split` per chunk,
  missing-value pairs, `_id`), `filterCandset` (SSJ/Model/Frame.lean, Matcher.lean); inside: `suffixFilterSuffixN`
  (`_filter_suffix` as called: under EDIT_DISTANCE the two suffixes first go through `_number_repeated_tokens`, model
  `numberRepeated`), `suffixFilterSuffix` (the body of `_filter_suffix` without the numbering step), `suffixEstHamming`
  (`_est_hamming_dist_lower_bound`), `suffixPartition`, `suffixBinarySearch` (SSJ/Model/Filters.lean).

  A. JACCARD / COSINE / DICE, TINY THRESHOLDS — PROVED IN FULL (`pair_safe_suffix_small`, `tables_safe_suffix_small`,
     `candset_safe_suffix_small`).  `C04.pair_safe_suffix` / `tables_safe_suffix` needed `prefThr m ≤ thr` (1e-4 JACCARD,
     2e-4 DICE, 1e-2 COSINE): below it `ceil(round(t'·n, 4))` can be 0, `get_prefix_length` returns `n + 1`, the slice
     `tokens[n+1:]` is empty while the suffix length passed on is `−1`, and once `_est_hamming_dist_lower_bound` is
     entered with such arguments the pair is dropped.  The theorems here have NO such hypothesis: for a pair whose
     similarity reaches the threshold the estimator is never entered in that situation, because the early test of
     `_filter_suffix` (`l_prefix >= overlap_threshold and r_prefix >= overlap_threshold → keep`) fires — the long prefix
     `n + 1` exceeds the required overlap `T ≤ |A ∩ B| ≤ n`, and for the other record `T + lower(k) ≤ k + 1`
     (`SSJ.SuffixSmall.ovThr_add_lower_le`).  Scope as in C04.lean: `2⁻²⁰ ≤ thr ≤ 1` (`ThrOK`), token SETS of fewer
     than 2³² tokens, not both empty, "meets the threshold" = `simSet m A B = .float s ∧ thr ≤ s`.
     Searches on the REAL code that preceded the proof (no qualifying pair dropped, no exception):
     filter_pair on 28 thresholds between 2⁻²⁰ and 9.99e-3 × all (|A|,|B|,|A∩B|) with sizes 1..12 (54 600 qualifying
     pairs, 15 339 of them with a prefix longer than the record); partner sets of up to 200 000 tokens (1 490 pairs);
     the early-exit inequality on `filter_utils` for 1.17 million (measure, threshold, n, k) configurations with `k` up
     to 2³²−1; model and real code agree on 15 561 pairs at these thresholds.

  B. EDIT_DISTANCE (bags of q-grams) — FINDING F8, REPAIRED in the real code (commit 113c284 "fix: SuffixFilter dropped
     qualifying pairs under EDIT_DISTANCE when a q-gram repeats"), and PROVED IN FULL for the repaired code
     (`pair_safe_suffix_ed`, `tables_safe_suffix_ed`: exactly the hypotheses of `pair_safe_prefix_ed` /
     `tables_safe_prefix_ed`).
     THE DEFECT (before the repair; reproducer `/tmp/agents/w2/suffix_ed_repro.py`).
       * `SuffixFilter(QgramTokenizer(qval=1, padding=False), 'EDIT_DISTANCE', 0).filter_pair('aaa', 'aaa')` returned True —
         two IDENTICAL strings were dropped, `filter_tables` did not list the pair; the same for every `qval` ∈ {1,2,3},
         padded or not (242 of the 254 non-empty strings over {a,b} of length ≤ 7 were dropped against themselves for
         q = 1, threshold 0);
       * positive thresholds as well, on longer strings: τ = 2, q = 1, 'aaaaabbbbba' / 'aaaabbbbb' (distance 2);
         τ = 1, q = 2, 'abcacbccaccabaacaaa' / 'abcacbccaccabaacbaaa' (distance 1).
     MECHANISM.  `_partition` locates the probe token with `_binary_search` and cuts the list at the position found:
     `tokens[0:pos]`, `tokens[pos+1:]`.  That is the split "tokens < probe | tokens > probe" only if the probe occurs at most
     once.  In a bag the copies of the probe token are distributed between the two parts according to where the search
     lands — at `r_mid` in the right list, at the middle of the search window in the left list — so differently in the
     two lists, and `|#l_left − #r_left| + |#l_right − #r_right|` (plus the recursive estimates) is no longer a lower
     bound of the Hamming distance of the bags.  Kept as theorems about the UNNUMBERED body `suffixFilterSuffix`
     (= `_filter_suffix` before commit 113c284): `suffix_unnumbered_ranklist_counterexample`,
     `suffix_unnumbered_pair_counterexample_tau0`, `suffix_unnumbered_pair_counterexample_tau2`.
     THE REPAIR.  Under EDIT_DISTANCE `_filter_suffix` pairs every token of the two suffixes with its occurrence number
     (`_number_repeated_tokens`); the bags become sets with the same overlap, on which the estimator is sound.
     WHY IT IS SAFE NOW (SSJ/Proofs/Suffix.lean §6b): on ascending lists `numberRepeated` is strictly ascending and
     contains exactly the pairs `(t, k)`, `k <` multiplicity of `t` (`numberRepeated_spec`); the numbered FULL lists have
     `≥ |x| − |x ∖ y| = ` bag-overlap common elements (`commonCount_numbered_ge`), their suffixes lose at most
     `max(prefix lengths)` of them (`hamming_suffix_le`, the set argument), and numbering the suffixes afresh can only
     increase the number of common elements (`commonCount_drop_numbered_le`); hence the Hamming distance of the numbered
     suffixes is within `hamming_dist_max` and the estimator (`suffixEstHamming_sound`) does not exceed it.
     The two former counterexamples are kept by the repaired model: `repaired_keeps_tau0`, `repaired_keeps_tau2`, and
     (evaluated) `filter_tables` lists the pair.  On the repaired real code the reproducer and all searches of the
     finding (1.05 million qualifying pairs over {a,b} ≤ 7 / {a,b,c} ≤ 5; 200 000 random long pairs; table searches)
     report no dropped pair.

  Float thresholds under EDIT_DISTANCE: SSJ/Props/C04_float.lean (`pair_safe_suffix_ed_float`,
  `tables_safe_suffix_ed_float`).
  NOT COVERED: OVERLAP (done in C04.lean: `pair_safe_overlap`, `tables_safe_overlap`; float thresholds in C04_float.lean);
  thresholds below 2⁻²⁰ for the set measures.
-/
import SSJ.Proofs.SuffixSmall
import SSJ.Proofs.SuffixBag
import SSJ.Props.C04_ed

namespace SSJ.Props.C04
open SSJ SSJ.Spec SSJ.Props

/-! ## A. JACCARD / COSINE / DICE: every threshold `2⁻²⁰ ≤ thr ≤ 1`, no `prefThr` -/

section SetMeasuresSuffix
variable (m : Measure) (hm : SetMeasure m) (thr : Rat) (ht : ThrOK thr)
  (f : FilterObj) (hmeas : f.cfg.measure = m) (hthr : f.cfg.threshold = .float thr)
include hm ht hmeas hthr

/-- SuffixFilter.filter_pair does not drop a pair of present values (token sets, not both empty) whose similarity
    reaches the threshold — for EVERY threshold `2⁻²⁰ ≤ thr ≤ 1`, also those for which the prefix is longer than the
    record -/
theorem pair_safe_suffix_small (tok : String → List Tok)
    (hnd : ∀ s, (tok s).Nodup) (hsm : ∀ s, (tok s).length < 2 ^ 32)
    (l r : Cell) (hl : l.isMissing = false) (hr : r.isMissing = false)
    (hne : ¬ ((tok l.strVal).length = 0 ∧ (tok r.strVal).length = 0))
    (s : Rat) (hs : simSet m (tok l.strVal) (tok r.strVal) = .float s) (hq : thr ≤ s) :
    filterPair .suffix f tok l r = false :=
  SuffixSmall.filterPair_suffix_safe_set m hm thr ht f hmeas hthr tok hnd hsm l r hl hr hne s hs hq

/-- the same in the property's own reading of "meets the threshold" (`qualStrict … ">="`: the similarity and its rounding to
    4 decimals are both `≥ thr`) -/
theorem pair_safe_suffix_small_of_qualStrict (tok : String → List Tok)
    (hnd : ∀ s, (tok s).Nodup) (hsm : ∀ s, (tok s).length < 2 ^ 32)
    (l r : Cell) (hl : l.isMissing = false) (hr : r.isMissing = false)
    (hne : ¬ ((tok l.strVal).length = 0 ∧ (tok r.strVal).length = 0))
    (hqual : qualStrict m ">=" (.float thr) (tok l.strVal) (tok r.strVal) = true) :
    filterPair .suffix f tok l r = false := by
  obtain ⟨s, hs, hq⟩ := meets_threshold m hm thr ht _ _ (hnd _) (hnd _) (hsm _) (hsm _) hqual
  exact SuffixSmall.filterPair_suffix_safe_set m hm thr ht f hmeas hthr tok hnd hsm l r hl hr hne s hs hq

/-- SuffixFilter.filter_tables lists every pair of source rows with present join values (token sets, not both empty)
    whose similarity reaches the threshold — for every threshold `2⁻²⁰ ≤ thr ≤ 1` -/
theorem tables_safe_suffix_small (a : TableArgs) (t : TokObj) (toks : TokFn) (cpu : Int) (l r fr : Frame)
    (hv : validateTablesAttrs a = .ok (l, r)) (hk : validateOutAndKeys a l r = .ok ())
    (hrows : r.rows.length < 2 ^ 40)
    (hnd : ∀ s, (toks t.returnSet s).Nodup) (hsm : ∀ s, (toks t.returnSet s).length < 2 ^ 32)
    (hres : filterTables .suffix f a t toks cpu = .ok fr)
    (ls rs : Row) (hls : ls ∈ l.rows) (hrs : rs ∈ r.rows)
    (hlp : Present l a.lAttr ls) (hrp : Present r a.rAttr rs)
    (hne : ¬ ((tokensOf (toks t.returnSet) l a.lAttr ls).length = 0 ∧
              (tokensOf (toks t.returnSet) r a.rAttr rs).length = 0))
    (s : Rat) (hs : simSet m (tokensOf (toks t.returnSet) l a.lAttr ls) (tokensOf (toks t.returnSet) r a.rAttr rs) = .float s)
    (hq : thr ≤ s) :
    ∃ row ∈ fr.rows, rowKeys row = (keyOf l a.lKey ls, keyOf r a.rKey rs) :=
  SuffixSmall.filterTables_suffix_safe_set f a t toks cpu l r fr m hm thr ht hmeas hthr hv hk hrows hnd hsm hres
    ls rs hls hrs hlp hrp hne s hs hq

/-- SuffixFilter.filter_candset keeps a candidate row referencing two rows with present join values whose similarity
    reaches the threshold — for every threshold `2⁻²⁰ ≤ thr ≤ 1` -/
theorem candset_safe_suffix_small (tok : String → List Tok)
    (hnd : ∀ s, (tok s).Nodup) (hsm : ∀ s, (tok s).length < 2 ^ 32)
    (a : CandsetArgs) (cpu : Int) (c l r fr : Frame)
    (hval : EntryFilters.CandsetValid a c l r) (hres : filterCandset a (filterPairPy .suffix f tok) cpu = .ok fr)
    (cr ls rs : Row) (hcr : cr ∈ c.rows) (hls : ls ∈ l.rows) (hrs : rs ∈ r.rows)
    (hkl : keyOf l a.lKey ls = cr.cell (c.colIdx a.candLKey)) (hkr : keyOf r a.rKey rs = cr.cell (c.colIdx a.candRKey))
    (hlp : Present l a.lAttr ls) (hrp : Present r a.rAttr rs)
    (hne : ¬ ((tokensOf tok l a.lAttr ls).length = 0 ∧ (tokensOf tok r a.rAttr rs).length = 0))
    (s : Rat) (hs : simSet m (tokensOf tok l a.lAttr ls) (tokensOf tok r a.rAttr rs) = .float s) (hq : thr ≤ s) :
    cr ∈ fr.rows :=
  candset_safe_of_pair a _ _ (filterPairPy_ok_eq _ _ _) cpu c l r fr hval hres cr ls rs hcr hls hrs hkl hkr
    (SuffixSmall.filterPair_suffix_safe_set m hm thr ht f hmeas hthr tok hnd hsm _ _ hlp hrp hne s hs hq)

end SetMeasuresSuffix

/-- what makes the proof work, on the generated bounds: if the size lower bound of a non-empty record of `n` tokens is
    `≤ 0` — exactly the case in which `get_prefix_length` returns `n + 1` — then for every partner size `k ≥ 1` the
    partner's prefix length `k − lower k + 1` is at least the required overlap, so `_filter_suffix` returns at its
    early test -/
theorem long_prefix_early_exit (m : Measure) (hm : SetMeasure m) (thr : Rat) (ht : ThrOK thr) (n k : Nat)
    (hn1 : 1 ≤ n) (hk1 : 1 ≤ k) (hn : n < 2 ^ 32) (hk : k < 2 ^ 32) (h0 : (cfgOf m thr).lower n ≤ 0) :
    (cfgOf m thr).prefixLen n = (n : Int) + 1 ∧
    (cfgOf m thr).ovThr n k ≤ (cfgOf m thr).prefixLen k ∧ (cfgOf m thr).ovThr k n ≤ (cfgOf m thr).prefixLen k := by
  have h1 := SuffixSmall.ovThr_add_lower_le m hm thr ht n k hn1 hk1 hn hk h0
  have h2 := SuffixSmall.lower_nonneg m hm thr ht n hn
  have hsym : (cfgOf m thr).ovThr k n = (cfgOf m thr).ovThr n k := by
    rw [ovThr_eq m hm ht _ _ hk hn, ovThr_eq m hm ht _ _ hn hk, ovF_symm]
  rw [hsym, prefixLen_eq m hm thr ht n hn1 hn, prefixLen_eq m hm thr ht k hk1 hk]
  refine ⟨by omega, by omega, by omega⟩

/-! ## B. EDIT_DISTANCE (bags of q-grams): the repaired SuffixFilter is safe; the unnumbered body was not -/

section EditDistanceSuffix
variable (f : FilterObj) (tau : Int) (q : Nat) (pad : Bool)

/-- SuffixFilter.filter_pair keeps every pair of present strings within distance `τ` which share a q-gram (q-gram
    tokenizer in bag mode, any `q`, padded or not) -/
theorem pair_safe_suffix_ed (hf : f.cfg = { measure := .editDistance, threshold := .int tau, qval := .int q })
    (l r : Cell) (hl : l.isMissing = false) (hr : r.isMissing = false)
    (hd : qualED "<=" tau l.strVal r.strVal = true)
    (hshare : shareToken (qgrams q pad) l.strVal r.strVal = true) :
    filterPair .suffix f (qgrams q pad) l r = false :=
  SuffixBag.suffixFilterPair_safe_ed f tau q hf pad l r hl hr ((EntryED.qualED_le_iff _ _ _).1 hd) hshare

/-- SuffixFilter.filter_tables lists every pair of present source rows within distance `τ` which share a q-gram -/
theorem tables_safe_suffix_ed (a : TableArgs) (t : TokObj) (toks : TokFn) (cpu : Int) (l r fr : Frame)
    (hv : validateTablesAttrs a = .ok (l, r)) (hk : validateOutAndKeys a l r = .ok ())
    (hrows : r.rows.length < 2 ^ 40) (htok : ∀ s, toks t.returnSet s = qgrams q pad s)
    (hf : f.cfg = { measure := .editDistance, threshold := .int tau, qval := .int q })
    (hres : filterTables .suffix f a t toks cpu = .ok fr)
    (ls rs : Row) (hls : ls ∈ l.rows) (hrs : rs ∈ r.rows)
    (hlp : Present l a.lAttr ls) (hrp : Present r a.rAttr rs)
    (hd : qualED "<=" tau (strOf l a.lAttr ls) (strOf r a.rAttr rs) = true)
    (hshare : shareToken (qgrams q pad) (strOf l a.lAttr ls) (strOf r a.rAttr rs) = true) :
    ∃ row ∈ fr.rows, rowKeys row = (keyOf l a.lKey ls, keyOf r a.rKey rs) :=
  SuffixBag.filterTables_suffix_safe_ed f a t toks cpu l r fr tau q hf pad htok hv hk hrows hres
    ls rs hls hrs hlp hrp ((EntryED.qualED_le_iff _ _ _).1 hd) hshare

/-- SuffixFilter.filter_candset keeps a candidate row referencing two rows whose present strings are within distance `τ`
    and share a q-gram -/
theorem candset_safe_suffix_ed (hf : f.cfg = { measure := .editDistance, threshold := .int tau, qval := .int q })
    (a : CandsetArgs) (cpu : Int) (c l r fr : Frame)
    (hval : EntryFilters.CandsetValid a c l r)
    (hres : filterCandset a (filterPairPy .suffix f (qgrams q pad)) cpu = .ok fr)
    (cr ls rs : Row) (hcr : cr ∈ c.rows) (hls : ls ∈ l.rows) (hrs : rs ∈ r.rows)
    (hkl : keyOf l a.lKey ls = cr.cell (c.colIdx a.candLKey)) (hkr : keyOf r a.rKey rs = cr.cell (c.colIdx a.candRKey))
    (hlp : Present l a.lAttr ls) (hrp : Present r a.rAttr rs)
    (hd : qualED "<=" tau (strOf l a.lAttr ls) (strOf r a.rAttr rs) = true)
    (hshare : shareToken (qgrams q pad) (strOf l a.lAttr ls) (strOf r a.rAttr rs) = true) :
    cr ∈ fr.rows :=
  candset_safe_of_pair a _ _ (filterPairPy_ok_eq _ _ _) cpu c l r fr hval hres cr ls rs hcr hls hrs hkl hkr
    (SuffixBag.suffixFilterPair_safe_ed f tau q hf pad _ _ hlp hrp ((EntryED.qualED_le_iff _ _ _).1 hd) hshare)

end EditDistanceSuffix

/-- what the theorems rest on, stated on rank lists: `_filter_suffix` WITH the numbering step keeps two ascending lists
    `x`, `y` (repetitions allowed) whenever the required overlap is at most the size `|x| − |x ∖ y|` of their bag
    intersection; `p`, `q` are the prefix lengths, `b` any base exceeding the total suffix length -/
theorem filter_suffix_numbered_safe (f : FilterObj) (x y : List Nat) (hx : x.Pairwise (· ≤ ·))
    (hy : y.Pairwise (· ≤ ·)) (p q : Nat) (hp : p ≤ x.length) (hq : q ≤ y.length) (b : Nat)
    (hb : (x.drop p).length + (y.drop q).length < b)
    (hthr : f.cfg.ovThr x.length y.length + ((x.diff y).length : Int) ≤ x.length) :
    suffixFilterSuffix f (numberRepeated b (x.drop p)) (numberRepeated b (y.drop q)) p q x.length y.length = false :=
  suffixFilterSuffix_numbered_safe f x y hx hy p q hp hq b hb hthr

/-! ### the defect (F8), as theorems about the unnumbered body `suffixFilterSuffix` = `_filter_suffix` before the repair -/

/-- two identical bags of ranks `[1,1,1]`, τ = 0, q = 1: the bag overlap 3 reaches the required overlap 3, the prefix
    length is 1, and the UNNUMBERED body of `_filter_suffix` drops the pair -/
theorem suffix_unnumbered_ranklist_counterexample :
    (SuffixBag.edObj 0 1).cfg.ovThr 3 3 = 3 ∧ ([1, 1, 1].bagInter [1, 1, 1]).length = 3 ∧
      (SuffixBag.edObj 0 1).cfg.prefixLen 3 = 1 ∧
      suffixFilterSuffix (SuffixBag.edObj 0 1) (pyDrop [1, 1, 1] 1) (pyDrop [1, 1, 1] 1) 1 1 3 3 = true :=
  SuffixBag.suffixFilterSuffix_bag_counterexample_tau0

/-- threshold 0, unpadded 1-grams, the IDENTICAL strings "aaa" / "aaa": they meet the threshold and share a q-gram; their
    ordered token lists are `[1,1,1]`, the prefix length is 1, and the unnumbered body drops them — what
    `SuffixFilter.filter_pair('aaa', 'aaa')` did before commit 113c284 -/
theorem suffix_unnumbered_pair_counterexample_tau0 :
    qualED "<=" 0 "aaa" "aaa" = true ∧ shareToken (qgrams 1 false) "aaa" "aaa" = true ∧
      orderUsing (qgrams 1 false "aaa") (genTokenOrdering [qgrams 1 false "aaa", qgrams 1 false "aaa"]) = [1, 1, 1] ∧
      (SuffixBag.edObj 0 1).cfg.prefixLen (qgrams 1 false "aaa").length = 1 ∧
      suffixFilterSuffix (SuffixBag.edObj 0 1) (pyDrop [1, 1, 1] 1) (pyDrop [1, 1, 1] 1) 1 1 3 3 = true :=
  SuffixBag.unnumbered_pair_counterexample_tau0

/-- a positive threshold: τ = 2, unpadded 1-grams, "aaaaaabbbbb" / "aaaabbbbb" (distance 2): ordered token lists
    `[1⁶,2⁵]` / `[1⁴,2⁵]`, prefixes of 3 tokens, dropped by the unnumbered body -/
theorem suffix_unnumbered_pair_counterexample_tau2 :
    qualED "<=" 2 "aaaaaabbbbb" "aaaabbbbb" = true ∧ shareToken (qgrams 1 false) "aaaaaabbbbb" "aaaabbbbb" = true ∧
      orderUsing (qgrams 1 false "aaaaaabbbbb")
        (genTokenOrdering [qgrams 1 false "aaaaaabbbbb", qgrams 1 false "aaaabbbbb"]) = [1, 1, 1, 1, 1, 1, 2, 2, 2, 2, 2] ∧
      orderUsing (qgrams 1 false "aaaabbbbb")
        (genTokenOrdering [qgrams 1 false "aaaaaabbbbb", qgrams 1 false "aaaabbbbb"]) = [1, 1, 1, 1, 2, 2, 2, 2, 2] ∧
      suffixFilterSuffix (SuffixBag.edObj 2 1) (pyDrop [1, 1, 1, 1, 1, 1, 2, 2, 2, 2, 2] 3)
        (pyDrop [1, 1, 1, 1, 2, 2, 2, 2, 2] 3) 3 3 11 9 = true :=
  SuffixBag.unnumbered_pair_counterexample_tau2

/-- the repaired model keeps these very pairs -/
example : filterPair .suffix { cfg := { measure := .editDistance, threshold := .int 0, qval := .int 1 } }
    (qgrams 1 false) (.str "aaa") (.str "aaa") = false :=
  pair_safe_suffix_ed _ 0 1 false rfl _ _ rfl rfl (by decide +kernel) (by decide +kernel)

example : filterPair .suffix { cfg := { measure := .editDistance, threshold := .int 2, qval := .int 1 } }
    (qgrams 1 false) (.str "aaaaaabbbbb") (.str "aaaabbbbb") = false :=
  pair_safe_suffix_ed _ 2 1 false rfl _ _ rfl rfl (by decide +kernel) (by decide +kernel)

/-- … and on rank lists: the suffixes `[1,1]` are numbered `[(1,0),(1,1)]` (codes 5, 6 in base 5) and kept -/
example : numberRepeated 5 [1, 1] = [5, 6] ∧
    suffixFilterSuffixN (SuffixBag.edObj 0 1) (pyDrop [1, 1, 1] 1) (pyDrop [1, 1, 1] 1) 1 1 3 3 = false :=
  SuffixBag.numbered_ranklist_tau0

/-! `filter_tables` (evaluated): the tables `[(1,"aaa"), (2,"zzzz")]` × `[(7,"aaa"), (8,"yyyy")]`, threshold 0, unpadded
    1-grams — the repaired SuffixFilter lists exactly the qualifying pair (1, 7) (before the repair it returned no row) -/
def cexL : Frame := { columns := ["id", "name"], rows := [[.int 1, .str "aaa"], [.int 2, .str "zzzz"]] }
def cexR : Frame := { columns := ["id", "name"], rows := [[.int 7, .str "aaa"], [.int 8, .str "yyyy"]] }
def cexA : TableArgs :=
  { ltable := some cexL, rtable := some cexR, lKey := "id", rKey := "id", lAttr := "name", rAttr := "name", nJobs := 1 }
def cexT : TokObj := { isQgram := true, qval := 1, returnSet := false }
def cexToks : TokFn := fun _ => qgrams 1 false

#guard (match filterTables .suffix (SuffixBag.edObj 0 1) cexA cexT cexToks 4 with
  | .ok fr => fr.rows.map rowKeys == [(Cell.int 1, Cell.int 7)] | .error _ => false)

/-! ## non-vacuity -/
section NonVacuitySuffix
open EntryFilters.Ex

theorem ex_thr_tiny : ThrOK (1 / 100000) := ⟨by norm_num, by norm_num⟩

/-- JACCARD, threshold 1e-5 (below `prefThr`): a record of 2 tokens has size lower bound 0 and prefix length 3 -/
example : (cfgOf .jaccard (1 / 100000)).lower 2 = 0 ∧ (cfgOf .jaccard (1 / 100000)).prefixLen 2 = 3 ∧
    ¬ prefThr .jaccard ≤ 1 / 100000 := by
  refine ⟨by decide +kernel, by decide +kernel, by norm_num [prefThr]⟩

/-- … and SuffixFilter.filter_pair keeps "x" ↦ {a,b}, "y" ↦ {a,c} (similarity `rn(1/3) ≥ 1e-5`) -/
example : filterPair .suffix { cfg := cfgOf .jaccard (1 / 100000) } exTok (.str "x") (.str "y") = false :=
  pair_safe_suffix_small .jaccard (Or.inl rfl) (1 / 100000) ex_thr_tiny _ rfl rfl exTok exTok_nodup exTok_small _ _ rfl rfl
    (by decide) _ ex_sim (le_trans (by norm_num) ex_reach)

/-- the same pair as rows 1 / 7 of two small tables (one missing value, `n_jobs = 2`), threshold 1e-5:
    SuffixFilter.filter_tables returns a frame and lists the pair -/
example : ∃ fr, filterTables .suffix { cfg := cfgOf .jaccard (1 / 100000) } exA exT exToks 4 = .ok fr ∧
    ∃ row ∈ fr.rows, rowKeys row = (Cell.int 1, Cell.int 7) := by
  obtain ⟨fr, hfr⟩ := tables_returns_frame .suffix { cfg := cfgOf .jaccard (1 / 100000) } exA exT exToks 4 exL exR
    ex_valid ex_keys (by decide +kernel)
  refine ⟨fr, hfr, ?_⟩
  exact tables_safe_suffix_small .jaccard (Or.inl rfl) (1 / 100000) ex_thr_tiny _ rfl rfl exA exT exToks 4 exL exR fr
    ex_valid ex_keys (by decide) exTok_nodup exTok_small hfr [.int 1, .str "x"] [.int 7, .str "y"]
    (by decide) (by decide) (by unfold Present; decide) (by unfold Present; decide) (by decide) _ ex_sim
    (le_trans (by norm_num) ex_reach)

/-- EDIT_DISTANCE, τ = 1, padded 2-grams: "abc" / "abd" are at distance 1 and share the 2-gram "ab"; kept -/
example : filterPair .suffix { cfg := { measure := .editDistance, threshold := .int 1, qval := .int 2 } }
    (qgrams 2 true) (.str "abc") (.str "abd") = false :=
  pair_safe_suffix_ed _ 1 2 true rfl _ _ rfl rfl ((EntryED.qualED_le_iff _ _ _).2 (by decide)) (by decide)

/-- EDIT_DISTANCE, τ = 1, padded 2-grams, BAGS: "aab" (row 1) / "aaab" (row 7) — the bag of "aaab" repeats the 2-gram "aa";
    SuffixFilter.filter_tables (`n_jobs = 2`) returns a frame and lists the pair -/
example : ∃ fr, filterTables .suffix { cfg := { measure := .editDistance, threshold := .int 1, qval := .int 2 } }
      edA edT edToks 4 = .ok fr ∧ ∃ row ∈ fr.rows, rowKeys row = (Cell.int 1, Cell.int 7) := by
  obtain ⟨fr, hfr⟩ := tables_returns_frame .suffix
    { cfg := { measure := .editDistance, threshold := .int 1, qval := .int 2 } } edA edT edToks 4 edL edR ed_valid ed_keys
    (by decide +kernel)
  refine ⟨fr, hfr, ?_⟩
  exact tables_safe_suffix_ed _ 1 2 true edA edT edToks 4 edL edR fr ed_valid ed_keys (by decide) (fun _ => rfl) rfl
    hfr [.int 1, .str "aab"] [.int 7, .str "aaab"] (by decide) (by decide) (by unfold Present; decide)
    (by unfold Present; decide) ((EntryED.qualED_le_iff _ _ _).2 (by decide)) (by decide)

end NonVacuitySuffix

end SSJ.Props.C04

section AxiomCheck
open SSJ.Props.C04
/-- info: 'SSJ.Props.C04.pair_safe_suffix_small' depends on axioms: [propext, Classical.choice, Quot.sound] -/
#guard_msgs in #print axioms pair_safe_suffix_small
/-- info: 'SSJ.Props.C04.tables_safe_suffix_small' depends on axioms: [propext, Classical.choice, Quot.sound] -/
#guard_msgs in #print axioms tables_safe_suffix_small
/-- info: 'SSJ.Props.C04.candset_safe_suffix_small' depends on axioms: [propext, Classical.choice, Quot.sound] -/
#guard_msgs in #print axioms candset_safe_suffix_small
/-- info: 'SSJ.Props.C04.long_prefix_early_exit' depends on axioms: [propext, Classical.choice, Quot.sound] -/
#guard_msgs in #print axioms long_prefix_early_exit
/-- info: 'SSJ.Props.C04.pair_safe_suffix_ed' depends on axioms: [propext, Classical.choice, Quot.sound] -/
#guard_msgs in #print axioms pair_safe_suffix_ed
/-- info: 'SSJ.Props.C04.tables_safe_suffix_ed' depends on axioms: [propext, Classical.choice, Quot.sound] -/
#guard_msgs in #print axioms tables_safe_suffix_ed
/-- info: 'SSJ.Props.C04.candset_safe_suffix_ed' depends on axioms: [propext, Classical.choice, Quot.sound] -/
#guard_msgs in #print axioms candset_safe_suffix_ed
/-- info: 'SSJ.Props.C04.filter_suffix_numbered_safe' depends on axioms: [propext, Classical.choice, Quot.sound] -/
#guard_msgs in #print axioms filter_suffix_numbered_safe
/-- info: 'SSJ.Props.C04.suffix_unnumbered_ranklist_counterexample' depends on axioms: [propext, Classical.choice, Quot.sound] -/
#guard_msgs in #print axioms suffix_unnumbered_ranklist_counterexample
/-- info: 'SSJ.Props.C04.suffix_unnumbered_pair_counterexample_tau0' depends on axioms: [propext, Classical.choice, Quot.sound] -/
#guard_msgs in #print axioms suffix_unnumbered_pair_counterexample_tau0
/-- info: 'SSJ.Props.C04.suffix_unnumbered_pair_counterexample_tau2' depends on axioms: [propext, Classical.choice, Quot.sound] -/
#guard_msgs in #print axioms suffix_unnumbered_pair_counterexample_tau2
end AxiomCheck

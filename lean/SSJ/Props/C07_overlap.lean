/-
  C07 (overlap_join and overlap_coefficient_join) — A join equals filter_tables followed by apply_matcher.

  "… applying any of the safe filters' filter_tables (size, prefix, position, overlap>=1) and then apply_matcher with the
   same tokenizer, the measure's similarity function, threshold and operator yields the same key pairs as the
   corresponding join …  Quantifier: all tables, measures, thresholds, operators, filters used as the first stage,
   n_jobs of both stages; excluded from the comparison: pairs of two empty token sets (threshold-independent, see C09)
   and pairs whose raw and 4-decimal-rounded scores fall on different sides of the threshold."

  Companion of SSJ/Props/C07.lean (same namespace `SSJ.Props.C07`; the three calls, `stage1Args`, `stage2Args`,
  `KeyNamesOK`, `InResult`, `ScoreOf` as there).  C07.lean treats jaccard / cosine / dice and edit distance; this file
  the two remaining measures of the quantifier "all measures":

  `overlap_join` (`overlapJoinPy`).  The measure's similarity function is the overlap size `|set(A) ∩ set(B)|`, an INT:
      `sim (.toks A) (.toks B) = .int (interCount A B)`.
    STAGE 1 is `OverlapFilter(tok, 1, '>=').filter_tables` (`overlapFilterTables fo (stage1Args a nj₁) false …`,
      `fo.overlapSize = .int 1`, `fo.compOp = ">="`), or (`pipeline_overlap_filter`) the `filter_tables` of a Size /
      Prefix / Position / SuffixFilter constructed with `'OVERLAP'` and the join's INT threshold;
    STAGE 2 is `applyMatcher (stage2Args a C nj₂) (some t) toks sim cpu₂` — the join's threshold and operator.
    `pipeline_overlap`: for EVERY pair of source rows with present join values
        the pair is in the pipeline's result IFF it is in the join's result, and both report `|A ∩ B|` as `_sim_score`
      — no exclusion at all: the score is an integer, nothing is rounded (no straddling), and a pair of two empty token
      sets has overlap 0, which no accepted threshold admits (so it is in neither result; `overlap_join` has no
      `allow_empty` semantics).  Also the exact description of the three frames: stage 1 lists the pair iff there is a
      common token; the pipeline has it iff stage 1 lists it and the comparison holds; the join has it iff the
      comparison holds.
    THRESHOLDS: every threshold the join accepts (`mkOverlapFilter … = .ok f`: Python's `threshold > 0` is true) — ints
      `≥ 1`, positive floats INCLUDING those in (0, 1), `True`, `inf`.  For a threshold in (0, 1) nothing special
      happens: on both sides a pair needs a common token — in the pipeline because stage 1 lists only such pairs, in the
      join because `overlap_join` finds candidates through an inverted index — and an overlap `k ≥ 1` satisfies
      `k >= thr` / `k > thr` for every `thr < 1`; `pipeline_overlap_no_common` states that a pair WITHOUT a common token
      is in neither result, whatever the accepted threshold.
    `pipeline_overlap_returns`: stage 2 does not raise on the candidate set of stage 1.

  `overlap_coefficient_join` (`overlapCoefficientJoinPy`).  The filters have no `'OVERLAP_COEFFICIENT'` measure, so the
    only first stage the property offers is OverlapFilter(1, '>=').  The similarity function is py_stringmatching's
    `OverlapCoefficient().get_raw_score` on the two token lists, `ovcRaw` (SSJ/Proofs/PipelineMore.lean: exact-list-match
    shortcut 1.0, one side empty ↦ 0, else `float(|A ∩ B|) / min(|A|, |B|)`); the join evaluates the last formula inline
    (`Spec.ovcScore`), compares it UNROUNDED and reports it unrounded — again no straddling.
    `pipeline_ovc`: for every pair of present rows NOT both tokenizing to nothing:
        in the pipeline's result IFF in the join's result; both report the same unrounded coefficient.
      The hypothesis on `sim` is only used for candidate pairs: `sim (.toks A) (.toks B) = ovcScore A B` whenever `A`, `B`
      are duplicate-free lists of fewer than 2⁵³ tokens with a common token — `ovc_sim_of_py_stringmatching` shows that
      py_stringmatching's function satisfies it (its shortcut value 1.0 is `float(n) / n`); accordingly the tokenizer
      is assumed to return fewer than 2⁵³ tokens (`hsm`).
      Both-empty pairs are excluded as the property says (C09: the join lists them iff `allow_empty`; stage 1 never does).

  HYPOTHESES, in plain words.
    * the join's arguments pass its validation (overlap_join: `mkOverlapFilter`, `validateTablesAttrs`,
      `validateOutAndKeys`; overlap_coefficient_join: `validateJoin "OVERLAP_COEFFICIENT"`);
    * `KeyNamesOK a` (as in C07.lean: the prefixed key names differ from `_id` and from each other);
    * the tokenizer in set mode returns duplicate-free lists (`∀ s, (toks true s).Nodup`); right table and candidate set
      have fewer than 2⁴⁰ rows; the tokenizer OBJECT is in set mode when the two stages run (`t.returnSet = true`,
      known finding K6, see C07.lean);
    * `pipeline_overlap_filter` only: int threshold `k ≥ 1` carried by the filter too, token lists shorter than 2⁶²
      (hypotheses of `C04.tables_safe_overlap`).
    Everything else — tables, other rows, operator (`>=`, `>`, `=`), `n_jobs` and cpu count of each of the three calls,
    `allow_missing` of join and filter, output attributes, prefixes — is arbitrary.

  NOT COVERED: rows for missing join values (C07_missing.lean); non-key, non-score columns (C09/C11); Size / Prefix /
  Position / Suffix filters under OVERLAP with a FLOAT threshold as first stage (safe by `C04.tables_safe_overlap_float`,
  not instantiated here).
-/
import SSJ.Proofs.PipelineMore
import SSJ.Props.C07
import SSJ.Props.C01_exact

namespace SSJ.Props.C07
open SSJ SSJ.Props SSJ.Spec SSJ.EntryPipeline SSJ.PipelineMore
open SSJ.Props.C13 (InResult ScoreOf)

/-! ## overlap_join -/

section Overlap
variable (a : JoinArgs) (t : TokObj) (toks : TokFn) (l r : Frame)

/-- THE PIPELINE RUNS (overlap_join): on the candidate set OverlapFilter(1, '>=').filter_tables returned, `apply_matcher`
    with the join's tokenizer, threshold and operator returns a frame — any `sim_function`, `n_jobs`, cpu count. -/
theorem pipeline_overlap_returns (f : OverlapFilterObj)
    (hf : mkOverlapFilter a.threshold a.compOp a.allowMissing t = .ok f)
    (hv : validateTablesAttrs a.toTableArgs = .ok (l, r)) (hk : validateOutAndKeys a.toTableArgs l r = .ok ())
    (hnames : KeyNamesOK a)
    (fo : OverlapFilterObj) (nj₁ cpu₁ : Int) (C : Frame)
    (h1 : overlapFilterTables fo (stage1Args a nj₁) false (toks t.returnSet) cpu₁ = .ok C)
    (hClen : C.rows.length < 2 ^ 40)
    (sim : SimArg → SimArg → PyV) (nj₂ cpu₂ : Int) :
    ∃ P, applyMatcher (stage2Args a C nj₂) (some t) toks sim cpu₂ = .ok P := by
  have hvJ := overlap_validateJoin a t l r f hf hv hk
  obtain ⟨hv1, hk1⟩ := stage1_valid _ a t l r nj₁ hvJ
  exact stage2_total _ a t l r hvJ (overlap_op6 a t f hf) hnames.left hnames.right hnames.distinct nj₁
    (.overlapFilterTables fo (stage1Args a nj₁) false (toks t.returnSet) l r hv1 hk1) fo.allowMissing nj₁ cpu₁ C h1
    hClen (some t) (Or.inl rfl) toks sim nj₂ cpu₂

/-- C07 for OVERLAP_JOIN.  Run `OverlapFilter(tok, 1, '>=').filter_tables` (candidate set `C`), then `apply_matcher` on
    `C` with the tokenizer (in set mode), the overlap size `|A ∩ B|` as `sim_function`, the join's threshold and operator
    (result `P`); run `overlap_join` (result `J`).  For EVERY pair of source rows with present join values, every
    accepted threshold (int or float, also in (0,1)) and operator:
      * the pair is in the pipeline's result IFF it is in the join's result;
      * (score column requested) both report the integer `|A ∩ B|`;
      * exactly: stage 1 lists the pair iff the token sets have a common token; the pipeline has it iff stage 1 lists
        it and `|A ∩ B| op threshold`; the join has it iff `|A ∩ B| op threshold`. -/
theorem pipeline_overlap (f : OverlapFilterObj)
    (hf : mkOverlapFilter a.threshold a.compOp a.allowMissing t = .ok f)
    (hv : validateTablesAttrs a.toTableArgs = .ok (l, r)) (hk : validateOutAndKeys a.toTableArgs l r = .ok ())
    (hnames : KeyNamesOK a)
    (hnd : ∀ s, (toks true s).Nodup) (hlen : r.rows.length < 2 ^ 40) (hset : t.returnSet = true)
    -- stage 1: OverlapFilter(tok, 1, '>=').filter_tables
    (fo : OverlapFilterObj) (hsize : fo.overlapSize = .int 1) (hop : fo.compOp = ">=") (nj₁ cpu₁ : Int) (C : Frame)
    (h1 : overlapFilterTables fo (stage1Args a nj₁) false (toks t.returnSet) cpu₁ = .ok C)
    (hClen : C.rows.length < 2 ^ 40)
    -- stage 2: apply_matcher with the overlap size as similarity function
    (sim : SimArg → SimArg → PyV) (hsim : ∀ A B, sim (.toks A) (.toks B) = .int (interCount A B))
    (nj₂ cpu₂ : Int) (P : Frame) (h2 : applyMatcher (stage2Args a C nj₂) (some t) toks sim cpu₂ = .ok P)
    -- the join
    (cpu : Int) (J : Frame) (hJ : (overlapJoinPy a t toks cpu).result = .ok J)
    -- the pair
    (ls rs : Row) (hls : ls ∈ l.rows) (hrs : rs ∈ r.rows)
    (hpl : Present l a.lAttr ls) (hpr : Present r a.rAttr rs) :
    (InResult P (keyOf l a.lKey ls) (keyOf r a.rKey rs) ↔ InResult J (keyOf l a.lKey ls) (keyOf r a.rKey rs)) ∧
    (a.outSimScore = true →
      ScoreOf P (keyOf l a.lKey ls) (keyOf r a.rKey rs)
        (.int (interCount (tokensOf (toks true) l a.lAttr ls) (tokensOf (toks true) r a.rAttr rs))) ∧
      ScoreOf J (keyOf l a.lKey ls) (keyOf r a.rKey rs)
        (.int (interCount (tokensOf (toks true) l a.lAttr ls) (tokensOf (toks true) r a.rAttr rs)))) ∧
    (InResult C (keyOf l a.lKey ls) (keyOf r a.rKey rs) ↔
      1 ≤ interCount (tokensOf (toks true) l a.lAttr ls) (tokensOf (toks true) r a.rAttr rs)) ∧
    (InResult P (keyOf l a.lKey ls) (keyOf r a.rKey rs) ↔
      InResult C (keyOf l a.lKey ls) (keyOf r a.rKey rs) ∧
      compFn a.compOp (.int (interCount (tokensOf (toks true) l a.lAttr ls) (tokensOf (toks true) r a.rAttr rs)))
        a.threshold = true) ∧
    (InResult J (keyOf l a.lKey ls) (keyOf r a.rKey rs) ↔
      compFn a.compOp (.int (interCount (tokensOf (toks true) l a.lAttr ls) (tokensOf (toks true) r a.rAttr rs)))
        a.threshold = true) := by
  have hvJ := overlap_validateJoin a t l r f hf hv hk
  obtain ⟨hv1, hk1⟩ := stage1_valid _ a t l r nj₁ hvJ
  obtain ⟨hP, hJ', hscore⟩ := overlap_core a t toks l r f hf hv hk hnd hlen hset hnames.left hnames.right hnames.distinct
    nj₁ (.overlapFilterTables fo (stage1Args a nj₁) false (toks t.returnSet) l r hv1 hk1) fo.allowMissing nj₁ cpu₁ C h1
    hClen sim hsim nj₂ cpu₂ P h2 cpu J hJ ls rs hls hrs hpl hpr
  -- stage 1, exactly (`C04.overlap_filter_tables_exact`)
  have hC : InResult C (keyOf l a.lKey ls) (keyOf r a.rKey rs) ↔
      1 ≤ interCount (tokensOf (toks true) l a.lAttr ls) (tokensOf (toks true) r a.rAttr rs) := by
    have h1' := h1
    rw [hset] at h1'
    have key := C04.overlap_filter_tables_exact fo (stage1Args a nj₁) false (toks true) cpu₁ l r C hnd hv1 hk1 hlen h1'
      ls rs hls hrs hpl hpr
    refine key.trans ⟨fun h => h.1, fun h => ⟨h, ?_⟩⟩
    rw [hop, hsize, EntryFilters.compFn_ge]
    simp only [PyV.geb, PyV.leb, PyV.numVal?, decide_eq_true_eq]
    exact_mod_cast h
  obtain ⟨hthr, hopJ⟩ := EX.mkOverlapFilter_valid _ _ _ _ _ hf
  refine ⟨?_, hscore, hC, hP, hJ'⟩
  rw [hP, hJ', hC]
  exact ⟨fun h => h.2, fun h => ⟨EX.one_le_of_compFn _ _ _ hopJ hthr h, h⟩⟩

/-- … in particular a pair WITHOUT a common token is in neither result, for every accepted threshold — also one in
    (0, 1), for which `0 >= threshold` is false as well: on both sides a pair needs a common token. -/
theorem pipeline_overlap_no_common (f : OverlapFilterObj)
    (hf : mkOverlapFilter a.threshold a.compOp a.allowMissing t = .ok f)
    (hv : validateTablesAttrs a.toTableArgs = .ok (l, r)) (hk : validateOutAndKeys a.toTableArgs l r = .ok ())
    (hnames : KeyNamesOK a)
    (hnd : ∀ s, (toks true s).Nodup) (hlen : r.rows.length < 2 ^ 40) (hset : t.returnSet = true)
    (fo : OverlapFilterObj) (hsize : fo.overlapSize = .int 1) (hop : fo.compOp = ">=") (nj₁ cpu₁ : Int) (C : Frame)
    (h1 : overlapFilterTables fo (stage1Args a nj₁) false (toks t.returnSet) cpu₁ = .ok C)
    (hClen : C.rows.length < 2 ^ 40)
    (sim : SimArg → SimArg → PyV) (hsim : ∀ A B, sim (.toks A) (.toks B) = .int (interCount A B))
    (nj₂ cpu₂ : Int) (P : Frame) (h2 : applyMatcher (stage2Args a C nj₂) (some t) toks sim cpu₂ = .ok P)
    (cpu : Int) (J : Frame) (hJ : (overlapJoinPy a t toks cpu).result = .ok J)
    (ls rs : Row) (hls : ls ∈ l.rows) (hrs : rs ∈ r.rows)
    (hpl : Present l a.lAttr ls) (hpr : Present r a.rAttr rs)
    (h0 : interCount (tokensOf (toks true) l a.lAttr ls) (tokensOf (toks true) r a.rAttr rs) = 0) :
    ¬ InResult C (keyOf l a.lKey ls) (keyOf r a.rKey rs) ∧ ¬ InResult P (keyOf l a.lKey ls) (keyOf r a.rKey rs) ∧
    ¬ InResult J (keyOf l a.lKey ls) (keyOf r a.rKey rs) := by
  obtain ⟨hPJ, -, hC, hP, -⟩ := pipeline_overlap a t toks l r f hf hv hk hnames hnd hlen hset fo hsize hop nj₁ cpu₁ C h1
    hClen sim hsim nj₂ cpu₂ P h2 cpu J hJ ls rs hls hrs hpl hpr
  have hnC : ¬ InResult C (keyOf l a.lKey ls) (keyOf r a.rKey rs) := by rw [hC, h0]; omega
  have hnP : ¬ InResult P (keyOf l a.lKey ls) (keyOf r a.rKey rs) := fun h => hnC (hP.1 h).1
  exact ⟨hnC, hnP, fun h => hnP (hPJ.2 h)⟩

/-- C07 for OVERLAP_JOIN with a Size / Prefix / Position / SuffixFilter as first stage: the filter is constructed with
    `'OVERLAP'` and the join's INT threshold `k ≥ 1`.  Same conclusion: same key pairs, both report `|A ∩ B|`. -/
theorem pipeline_overlap_filter (f : OverlapFilterObj)
    (hf : mkOverlapFilter a.threshold a.compOp a.allowMissing t = .ok f)
    (hv : validateTablesAttrs a.toTableArgs = .ok (l, r)) (hk : validateOutAndKeys a.toTableArgs l r = .ok ())
    (hnames : KeyNamesOK a)
    (k : Int) (hthr : a.threshold = .int k) (hk1 : 1 ≤ k)
    (hnd : ∀ s, (toks true s).Nodup) (hsm : ∀ s, (toks true s).length < 2 ^ 62)
    (hlen : r.rows.length < 2 ^ 40) (hset : t.returnSet = true)
    -- stage 1: filter_tables of any of the four filters under OVERLAP with the join's threshold
    (kind : FilterKind) (fi : FilterObj) (hmeas : fi.cfg.measure = .overlap) (hfthr : fi.cfg.threshold = .int k)
    (nj₁ cpu₁ : Int) (C : Frame)
    (h1 : filterTables kind fi (stage1Args a nj₁) t toks cpu₁ = .ok C) (hClen : C.rows.length < 2 ^ 40)
    -- stage 2
    (sim : SimArg → SimArg → PyV) (hsim : ∀ A B, sim (.toks A) (.toks B) = .int (interCount A B))
    (nj₂ cpu₂ : Int) (P : Frame) (h2 : applyMatcher (stage2Args a C nj₂) (some t) toks sim cpu₂ = .ok P)
    -- the join
    (cpu : Int) (J : Frame) (hJ : (overlapJoinPy a t toks cpu).result = .ok J)
    -- the pair
    (ls rs : Row) (hls : ls ∈ l.rows) (hrs : rs ∈ r.rows)
    (hpl : Present l a.lAttr ls) (hpr : Present r a.rAttr rs) :
    (InResult P (keyOf l a.lKey ls) (keyOf r a.rKey rs) ↔ InResult J (keyOf l a.lKey ls) (keyOf r a.rKey rs)) ∧
    (a.outSimScore = true →
      ScoreOf P (keyOf l a.lKey ls) (keyOf r a.rKey rs)
        (.int (interCount (tokensOf (toks true) l a.lAttr ls) (tokensOf (toks true) r a.rAttr rs))) ∧
      ScoreOf J (keyOf l a.lKey ls) (keyOf r a.rKey rs)
        (.int (interCount (tokensOf (toks true) l a.lAttr ls) (tokensOf (toks true) r a.rAttr rs)))) := by
  have hvJ := overlap_validateJoin a t l r f hf hv hk
  obtain ⟨hv1, hk1'⟩ := stage1_valid _ a t l r nj₁ hvJ
  obtain ⟨hP, hJ', hscore⟩ := overlap_core a t toks l r f hf hv hk hnd hlen hset hnames.left hnames.right hnames.distinct
    nj₁ (.filterTables kind fi (stage1Args a nj₁) t toks l r hv1 hk1') fi.allowMissing nj₁ cpu₁ C h1
    hClen sim hsim nj₂ cpu₂ P h2 cpu J hJ ls rs hls hrs hpl hpr
  obtain ⟨-, hopJ⟩ := EX.mkOverlapFilter_valid _ _ _ _ _ hf
  refine ⟨?_, hscore⟩
  rw [hP, hJ']
  refine ⟨fun h => h.2, fun h => ⟨?_, h⟩⟩
  -- safety of the first stage: `C04.tables_safe_overlap`
  rw [hthr] at h
  have hle := int_le_of_compFn _ hopJ _ _ h
  have key := C04.tables_safe_overlap kind fi k hmeas hfthr hk1 (stage1Args a nj₁) t toks cpu₁ l r C hv1 hk1' hlen
    (by rw [hset]; exact hnd) (by rw [hset]; exact hsm) h1 ls rs hls hrs hpl hpr
  rw [hset] at key
  exact key hle

end Overlap

/-! ## overlap_coefficient_join -/

section Ovc
variable (a : JoinArgs) (t : TokObj) (toks : TokFn) (l r : Frame)

/-- py_stringmatching's `OverlapCoefficient().get_raw_score` (`ovcRaw`) is a `sim_function` in the sense of
    `pipeline_ovc`: on duplicate-free token lists (fewer than 2⁵³ tokens) with a common token it returns the value of
    the formula the join evaluates inline. -/
theorem ovc_sim_of_py_stringmatching (A B : List Tok) (hA : A.Nodup) (hB : B.Nodup) (hAs : A.length < 2 ^ 53)
    (h : 1 ≤ interCount A B) : ovcRaw A B = ovcScore A B :=
  ovcRaw_eq_ovcScore A B hA hB hAs h

/-- THE PIPELINE RUNS (overlap_coefficient_join). -/
theorem pipeline_ovc_returns (hv : validateJoin "OVERLAP_COEFFICIENT" a t = .ok (l, r)) (hnames : KeyNamesOK a)
    (fo : OverlapFilterObj) (nj₁ cpu₁ : Int) (C : Frame)
    (h1 : overlapFilterTables fo (stage1Args a nj₁) false (toks t.returnSet) cpu₁ = .ok C)
    (hClen : C.rows.length < 2 ^ 40)
    (sim : SimArg → SimArg → PyV) (nj₂ cpu₂ : Int) :
    ∃ P, applyMatcher (stage2Args a C nj₂) (some t) toks sim cpu₂ = .ok P := by
  have hop := (EX.ovc_valid_thr_op a t l r hv).2
  have hop6 : a.compOp ∈ [">=", ">", "<=", "<", "=", "!="] := by
    simp only [List.mem_cons, List.not_mem_nil, or_false] at hop ⊢
    rcases hop with h | h | h <;> simp [h]
  obtain ⟨hv1, hk1⟩ := stage1_valid _ a t l r nj₁ hv
  exact stage2_total _ a t l r hv hop6 hnames.left hnames.right hnames.distinct nj₁
    (.overlapFilterTables fo (stage1Args a nj₁) false (toks t.returnSet) l r hv1 hk1) fo.allowMissing nj₁ cpu₁ C h1
    hClen (some t) (Or.inl rfl) toks sim nj₂ cpu₂

/-- C07 for OVERLAP_COEFFICIENT_JOIN.  Run `OverlapFilter(tok, 1, '>=').filter_tables` (candidate set `C`), then
    `apply_matcher` on `C` with the tokenizer (in set mode), a `sim_function` computing the overlap coefficient of two
    token lists with a common token (e.g. py_stringmatching's, `ovc_sim_of_py_stringmatching`), the join's threshold and
    operator (result `P`); run `overlap_coefficient_join` (result `J`).  For every pair of source rows with present join
    values that do not both tokenize to nothing:
      * the pair is in the pipeline's result IFF it is in the join's result (no rounding, hence no straddling);
      * (score column requested) both report the unrounded coefficient `float(|A ∩ B|) / min(|A|, |B|)`;
      * exactly: stage 1 lists the pair iff there is a common token; the pipeline has it iff stage 1 lists it and the
        comparison holds; the join has it iff the comparison holds. -/
theorem pipeline_ovc (hv : validateJoin "OVERLAP_COEFFICIENT" a t = .ok (l, r)) (hnames : KeyNamesOK a)
    (hnd : ∀ s, (toks true s).Nodup) (hsm : ∀ s, (toks true s).length < 2 ^ 53)
    (hlen : r.rows.length < 2 ^ 40) (hset : t.returnSet = true)
    -- stage 1: OverlapFilter(tok, 1, '>=').filter_tables
    (fo : OverlapFilterObj) (hsize : fo.overlapSize = .int 1) (hop : fo.compOp = ">=") (nj₁ cpu₁ : Int) (C : Frame)
    (h1 : overlapFilterTables fo (stage1Args a nj₁) false (toks t.returnSet) cpu₁ = .ok C)
    (hClen : C.rows.length < 2 ^ 40)
    -- stage 2: apply_matcher with the overlap coefficient as similarity function
    (sim : SimArg → SimArg → PyV)
    (hsim : ∀ A B, A.Nodup → B.Nodup → A.length < 2 ^ 53 → 1 ≤ interCount A B →
      sim (.toks A) (.toks B) = ovcScore A B)
    (nj₂ cpu₂ : Int) (P : Frame) (h2 : applyMatcher (stage2Args a C nj₂) (some t) toks sim cpu₂ = .ok P)
    -- the join
    (cpu : Int) (J : Frame) (hJ : (overlapCoefficientJoinPy a t toks cpu).result = .ok J)
    -- the pair
    (ls rs : Row) (hls : ls ∈ l.rows) (hrs : rs ∈ r.rows)
    (hpl : Present l a.lAttr ls) (hpr : Present r a.rAttr rs)
    (hne : bothEmpty (tokensOf (toks true) l a.lAttr ls) (tokensOf (toks true) r a.rAttr rs) = false) :
    (InResult P (keyOf l a.lKey ls) (keyOf r a.rKey rs) ↔ InResult J (keyOf l a.lKey ls) (keyOf r a.rKey rs)) ∧
    (a.outSimScore = true →
      ScoreOf P (keyOf l a.lKey ls) (keyOf r a.rKey rs)
        (scoreCell (ovcScore (tokensOf (toks true) l a.lAttr ls) (tokensOf (toks true) r a.rAttr rs))) ∧
      ScoreOf J (keyOf l a.lKey ls) (keyOf r a.rKey rs)
        (scoreCell (ovcScore (tokensOf (toks true) l a.lAttr ls) (tokensOf (toks true) r a.rAttr rs)))) ∧
    (InResult C (keyOf l a.lKey ls) (keyOf r a.rKey rs) ↔
      1 ≤ interCount (tokensOf (toks true) l a.lAttr ls) (tokensOf (toks true) r a.rAttr rs)) ∧
    (InResult P (keyOf l a.lKey ls) (keyOf r a.rKey rs) ↔
      InResult C (keyOf l a.lKey ls) (keyOf r a.rKey rs) ∧
      compFn a.compOp (ovcScore (tokensOf (toks true) l a.lAttr ls) (tokensOf (toks true) r a.rAttr rs))
        a.threshold = true) ∧
    (InResult J (keyOf l a.lKey ls) (keyOf r a.rKey rs) ↔
      compFn a.compOp (ovcScore (tokensOf (toks true) l a.lAttr ls) (tokensOf (toks true) r a.rAttr rs))
        a.threshold = true) := by
  obtain ⟨hv1, hk1⟩ := stage1_valid _ a t l r nj₁ hv
  have hcall : TableCall _ (stage1Args a nj₁) l r false :=
    .overlapFilterTables fo (stage1Args a nj₁) false (toks t.returnSet) l r hv1 hk1
  -- stage 1, exactly
  have hC : InResult C (keyOf l a.lKey ls) (keyOf r a.rKey rs) ↔
      1 ≤ interCount (tokensOf (toks true) l a.lAttr ls) (tokensOf (toks true) r a.rAttr rs) := by
    have h1' := h1
    rw [hset] at h1'
    have key := C04.overlap_filter_tables_exact fo (stage1Args a nj₁) false (toks true) cpu₁ l r C hnd hv1 hk1 hlen h1'
      ls rs hls hrs hpl hpr
    refine key.trans ⟨fun h => h.1, fun h => ⟨h, ?_⟩⟩
    rw [hop, hsize, EntryFilters.compFn_ge]
    simp only [PyV.geb, PyV.leb, PyV.numVal?, decide_eq_true_eq]
    exact_mod_cast h
  -- a pair satisfying the comparison has a common token
  have hcommon : compFn a.compOp (ovcScore (tokensOf (toks true) l a.lAttr ls) (tokensOf (toks true) r a.rAttr rs))
      a.threshold = true → 1 ≤ interCount (tokensOf (toks true) l a.lAttr ls) (tokensOf (toks true) r a.rAttr rs) := by
    intro h
    by_contra hc
    have h0 : interCount (tokensOf (toks true) l a.lAttr ls) (tokensOf (toks true) r a.rAttr rs) = 0 := by omega
    rw [C01.ovc_no_common_never a t l r hv _ _ h0] at h
    cases h
  have hJ' := C13.ovc_iff a t toks cpu l r hv hnd hlen J hJ ls rs hls hrs hpl hpr
  simp only [hne, Bool.false_eq_true, false_and, false_or, if_false] at hJ'
  by_cases hc : 1 ≤ interCount (tokensOf (toks true) l a.lAttr ls) (tokensOf (toks true) r a.rAttr rs)
  · -- a candidate pair: `sim_function` is the coefficient
    have hs := hsim _ _ (hnd (valOf l a.lAttr ls).strVal) (hnd (valOf r a.rAttr rs).strVal)
      (hsm (valOf l a.lAttr ls).strVal) hc
    obtain ⟨hP, -, hscore⟩ := ovc_core a t toks l r hv hnd hlen hset hnames.left hnames.right hnames.distinct
      nj₁ hcall fo.allowMissing nj₁ cpu₁ C h1 hClen sim nj₂ cpu₂ P h2 cpu J hJ ls rs hls hrs hpl hpr hs
    refine ⟨?_, fun ho => ⟨(hscore ho).1, hJ'.2 ho⟩, hC, hP, hJ'.1⟩
    rw [hP, hJ'.1, hC]
    exact ⟨fun h => h.2, fun h => ⟨hc, h⟩⟩
  · -- not a candidate: in neither result
    have hop6 : a.compOp ∈ [">=", ">", "<=", "<", "=", "!="] := by
      have hop' := (EX.ovc_valid_thr_op a t l r hv).2
      simp only [List.mem_cons, List.not_mem_nil, or_false] at hop' ⊢
      rcases hop' with h | h | h <;> simp [h]
    have hM := stage2_iff a t toks l r _ hv hop6 hset hnames.left hnames.right hnames.distinct nj₁ hcall fo.allowMissing
      nj₁ cpu₁ C h1 hClen sim nj₂ cpu₂ P h2 ls rs hls hrs hpl hpr
    have hnC : ¬ InResult C (keyOf l a.lKey ls) (keyOf r a.rKey rs) := fun h => hc (hC.1 h)
    have hnP : ¬ InResult P (keyOf l a.lKey ls) (keyOf r a.rKey rs) := fun h => hnC (hM.1.1 h).1
    have hnJ : ¬ InResult J (keyOf l a.lKey ls) (keyOf r a.rKey rs) := fun h => hc (hcommon (hJ'.1.1 h))
    refine ⟨⟨fun h => absurd h hnP, fun h => absurd h hnJ⟩, fun ho => ⟨?_, hJ'.2 ho⟩, hC, ?_, hJ'.1⟩
    · intro row hrow hkeys
      exact absurd ⟨row, hrow, hkeys⟩ hnP
    · exact ⟨fun h => absurd h hnP, fun h => absurd h.1 hnC⟩

end Ovc

/-! ## non-vacuity -/

/-! The request of `C01.Example`: `overlap_join(L, R, 'id', 'rid', 's', 'u', tok, 1)` (operator `>=`, score column),
    left rows (1,"a b") (2,"") (3,NaN), right rows (7,"b c") (8,"") (9,"b"), tokenizer object in set mode.  Stage 1,
    `OverlapFilter(tok, 1, '>=').filter_tables(…, n_jobs=2)` on 4 cpus, returns {(1,7), (1,9)} (evaluated by the kernel);
    stage 2 runs with `n_jobs=3` on 8 cpus.  All hypotheses of `pipeline_overlap_returns` / `pipeline_overlap` hold;
    the pair (1, 9) has one common token: it is in both results, with score 1; the pair (2, 8) — two empty token sets —
    is in neither (`pipeline_overlap_no_common`).  The same tables and stage 1 satisfy the hypotheses of `pipeline_ovc`
    for the pair (1, 9) with py_stringmatching's function as `sim_function`. -/
section NonVacuity
open C01.Example

def ovT : TokObj := { returnSet := true }

def ovC : Frame :=
  { columns := ["_id", "l_id", "r_rid"]
    index := [Cell.int 0, Cell.int 0]
    rows := [[.int 0, .int 1, .int 7], [.int 1, .int 1, .int 9]] }

/-- the overlap size as a `sim_function` -/
def ovSimFn : SimArg → SimArg → PyV
  | .toks A, .toks B => .int (interCount A B)
  | _, _ => .err .typeErr

/-- py_stringmatching's overlap coefficient as a `sim_function` -/
def ovcSimFn : SimArg → SimArg → PyV
  | .toks A, .toks B => ovcRaw A B
  | _, _ => .err .typeErr

theorem tk_small : ∀ s, (tk true s).length < 2 ^ 53 := by
  intro s; unfold tk; split_ifs <;> decide

theorem ov_names : KeyNamesOK A := ⟨by decide, by decide, by decide⟩

theorem ov_stage1 : overlapFilterTables F (stage1Args A 2) false (tk ovT.returnSet) 4 = .ok ovC := by decide +kernel

example : ∃ P J, applyMatcher (stage2Args A ovC 3) (some ovT) tk ovSimFn 8 = .ok P ∧
    (overlapJoinPy A ovT tk 4).result = .ok J ∧
    InResult P (.int 1) (.int 9) ∧ InResult J (.int 1) (.int 9) ∧
    ¬ InResult P (.int 2) (.int 8) ∧ ¬ InResult J (.int 2) (.int 8) := by
  obtain ⟨P, hP⟩ := pipeline_overlap_returns A ovT tk L R F rfl (by decide) (by decide) ov_names F 2 4 ovC ov_stage1
    (by decide) ovSimFn 3 8
  obtain ⟨J, hJ, -, -⟩ := C01.overlap_exact A ovT tk 4 F L R rfl (by decide) (by decide) tk_nodup (by decide) (by decide)
  have h19 := pipeline_overlap A ovT tk L R F rfl (by decide) (by decide) ov_names tk_nodup (by decide) rfl F rfl rfl 2 4
    ovC ov_stage1 (by decide) ovSimFn (fun _ _ => rfl) 3 8 P hP 4 J hJ
    [.int 1, .str "a b"] [.int 9, .str "b"] (by decide) (by decide) rfl rfl
  have h28 := pipeline_overlap_no_common A ovT tk L R F rfl (by decide) (by decide) ov_names tk_nodup (by decide) rfl F rfl
    rfl 2 4 ovC ov_stage1 (by decide) ovSimFn (fun _ _ => rfl) 3 8 P hP 4 J hJ
    [.int 2, .str ""] [.int 8, .str ""] (by decide) (by decide) rfl rfl (by decide)
  have hJin : InResult J (.int 1) (.int 9) := h19.2.2.2.2.2 (by decide)
  exact ⟨P, J, hP, hJ, h19.1.2 hJin, hJin, h28.2.1, h28.2.2⟩

example : ∃ P J, applyMatcher (stage2Args A ovC 3) (some ovT) tk ovcSimFn 8 = .ok P ∧
    (overlapCoefficientJoinPy A ovT tk 4).result = .ok J ∧
    (InResult P (.int 1) (.int 9) ↔ InResult J (.int 1) (.int 9)) := by
  obtain ⟨P, hP⟩ := pipeline_ovc_returns A ovT tk L R (by decide) ov_names F 2 4 ovC ov_stage1 (by decide) ovcSimFn 3 8
  obtain ⟨J, hJ, -, -⟩ := C01.ovc_exact A ovT tk 4 L R (by decide) tk_nodup (by decide) (by decide)
  have h19 := pipeline_ovc A ovT tk L R (by decide) ov_names tk_nodup tk_small (by decide) rfl F rfl rfl 2 4
    ovC ov_stage1 (by decide) ovcSimFn (fun X Y hX hY hs h => ovc_sim_of_py_stringmatching X Y hX hY hs h)
    3 8 P hP 4 J hJ
    [.int 1, .str "a b"] [.int 9, .str "b"] (by decide) (by decide) rfl rfl (by decide)
  exact ⟨P, J, hP, hJ, h19.1⟩

end NonVacuity

section AxiomCheck
#print axioms pipeline_overlap_returns
#print axioms pipeline_overlap
#print axioms pipeline_overlap_no_common
#print axioms pipeline_overlap_filter
#print axioms ovc_sim_of_py_stringmatching
#print axioms pipeline_ovc_returns
#print axioms pipeline_ovc
end AxiomCheck

end SSJ.Props.C07

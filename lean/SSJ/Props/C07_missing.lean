/-
  C07 (missing join values) — A join equals filter_tables followed by apply_matcher: the rows stemming from MISSING join
  values.

  C07 compares the pipeline `filter_tables` → `apply_matcher` with the corresponding join; C07.lean / C07_ed.lean /
  C07_overlap.lean do so for the pairs of PRESENT join values and list "rows for missing join values" under NOT COVERED.
  C08: "With allow_missing=False no output row of any join or filter_tables involves a row whose join/filter value is
  missing, and … apply_matcher drop such pairs.  With allow_missing=True the output additionally contains every pair in
  which at least one side is missing, exactly once each, with NaN as _sim_score where a score column is requested."
  This file closes the gap: for a pair of source rows with a missing join value on at least one side,

    * `pipeline_missing_pairs` — `allow_missing=True` on BOTH stages (the filter of stage 1 is constructed with
      `allow_missing=True`, `apply_matcher` is called with `allow_missing=True`) and on the join: the pipeline's result `P`
      and the join's result `J` each contain EXACTLY ONE row naming the pair, and that row is — apart from `_id` — the
      same in both: the two keys, the requested output attributes of the two source rows, and NaN as `_sim_score` iff a
      score column is requested.  So the two results agree on such pairs as well (`sim_function` is not consulted).
    * `pipeline_no_missing_pairs` — `allow_missing=False` for `apply_matcher` and for the join: neither result has a row
      naming the pair (whatever flag the filter of stage 1 carried).
    * `pipeline_missing_needs_first_stage` — why "on BOTH stages": if the filter of stage 1 was constructed WITHOUT
      `allow_missing`, the pipeline has no row naming the pair even when `apply_matcher` is called with
      `allow_missing=True` — the candidate set does not list it — whereas the join with `allow_missing=True` has one.

  MODEL.  Same namespace and vocabulary as C07.lean (`stage1Args`, `stage2Args`, `KeyNamesOK`).  The first stage and the
  join are ANY of the entry points collected in `SSJ.TableCall` (vocabulary of C08, SSJ/Proofs/EntryGeneric.lean):
    stage 1: `TableCall call (stage1Args a nj₁) l r false`, `call am₁ nj cpu₁ = .ok C` — `filterTables k f …` or
             `overlapFilterTables fo … false …`, with `am₁` the filter's `allow_missing`;
    stage 2: `applyMatcher (stage2Args a C nj₂) t' toks sim cpu₂ = .ok P`, `t' = some t` (set measures) or `none`
             (edit distance); `stage2Args` hands over the join's `allow_missing` flag `a.allowMissing`;
    join:    `TableCall jcall a.toTableArgs l r a.outSimScore`, `jcall amJ njJ cpu = .ok J` — any of the six joins on the
             arguments `a`, with `amJ` its `allow_missing`.
  The instances the property names are spelled out: `pipeline_missing_setsim` (jaccard / cosine / dice join, Size /
  Prefix / Position / SuffixFilter), `pipeline_missing_setsim_overlap_filter` (the same joins, OverlapFilter),
  `pipeline_missing_ed` (edit-distance join, the four filters), `pipeline_missing_overlap` (overlap_join, OverlapFilter),
  `pipeline_missing_ovc` (overlap_coefficient_join, OverlapFilter).

  HYPOTHESES: the join's arguments pass its validation (`validateJoin mname a t = .ok (l, r)`; for `overlap_join` the
  three hypotheses of C01.overlap_exact), `KeyNamesOK a`, the candidate set has fewer than 2⁴⁰ rows; the three calls
  returned the frames named.  Everything else — tables, tokenizer, its mode, `sim_function`, threshold, operator, measure,
  kind of filter and its measure / threshold, `n_jobs` and cpu count of each call, output attributes, prefixes, the
  distribution of missing values — is arbitrary.  No straddling / both-empty exclusions: nothing is computed for these rows.

  NOT COVERED: the position of these rows in the two frames and their `_id` (the join appends them after the present
  pairs and numbers all rows 0..n-1: C08 / C10; `apply_matcher` keeps the candidate's `_id`: C05).
-/
import SSJ.Proofs.PipelineMore
import SSJ.Props.C07
import SSJ.Props.C08

namespace SSJ.Props.C07
open SSJ SSJ.Props SSJ.EntryPipeline SSJ.PipelineMore
open SSJ.Props.C13 (InResult ScoreOf)

/-- the number of rows of `fr` naming the key pair `(kl, kr)` -/
def rowsNaming (fr : Frame) (kl kr : Cell) : Nat :=
  (fr.rows.filter (fun row => decide (rowKeys row = (kl, kr)))).length

/-- the documented content (without `_id`) of the row a join with arguments `a` emits for a pair with a missing join
    value: keys, requested output attributes, and NaN iff a score column is requested -/
def missingRowOf (a : JoinArgs) (l r : Frame) (ls rs : Row) : Row :=
  C11.projectedRow a.toTableArgs l r ls rs ++ (if a.outSimScore then [Cell.missing] else [])

/-- … its `_sim_score` (last cell) is NaN when a score column is requested -/
theorem missingRowOf_score (a : JoinArgs) (l r : Frame) (ls rs : Row) (ho : a.outSimScore = true) (row : Row)
    (h : row.drop 1 = missingRowOf a l r ls rs) : rowScore row = .missing := by
  cases row with
  | nil =>
    unfold missingRowOf at h
    rw [if_pos ho] at h
    have := congrArg List.length h
    simp at this
  | cons i tail =>
    have h' : tail = missingRowOf a l r ls rs := h
    unfold rowScore missingRowOf at *
    rw [if_pos ho] at h'
    rw [h', ← List.cons_append]
    exact List.getLastD_concat

section Generic
variable (a : JoinArgs) (t : TokObj) (toks : TokFn) (l r : Frame)

/-- C07 ∧ C08, `allow_missing=True` on both stages and on the join.  For a pair of source rows with a missing join value
    on at least one side: the pipeline's result `P` has exactly one row naming the pair, so has the join's result `J`,
    and in both that row is, apart from `_id`, the keys, the requested output attributes and (iff requested) a NaN
    score. -/
theorem pipeline_missing_pairs (mname : String) (hv : validateJoin mname a t = .ok (l, r))
    (hop6 : a.compOp ∈ [">=", ">", "<=", "<", "=", "!="]) (hnames : KeyNamesOK a)
    (ham : a.allowMissing = true)
    -- stage 1: any filter_tables, filter constructed with allow_missing=True
    {call : Bool → Int → Int → Except PyErr Frame} (nj₁ : Int) (hcall : TableCall call (stage1Args a nj₁) l r false)
    (am₁ : Bool) (ham₁ : am₁ = true) (nj cpu₁ : Int) (C : Frame) (hC : call am₁ nj cpu₁ = .ok C)
    (hClen : C.rows.length < 2 ^ 40)
    -- stage 2: apply_matcher (allow_missing = the join's flag = True)
    (t' : Option TokObj) (ht : t' = some t ∨ t' = none) (sim : SimArg → SimArg → PyV)
    (nj₂ cpu₂ : Int) (P : Frame) (h2 : applyMatcher (stage2Args a C nj₂) t' toks sim cpu₂ = .ok P)
    -- the join, allow_missing=True
    {jcall : Bool → Int → Int → Except PyErr Frame} (hjoin : TableCall jcall a.toTableArgs l r a.outSimScore)
    (amJ : Bool) (hamJ : amJ = true) (njJ cpu : Int) (J : Frame) (hJ : jcall amJ njJ cpu = .ok J)
    -- the pair
    (ls rs : Row) (hls : ls ∈ l.rows) (hrs : rs ∈ r.rows)
    (hm : ¬ Present l a.lAttr ls ∨ ¬ Present r a.rAttr rs) :
    rowsNaming P (keyOf l a.lKey ls) (keyOf r a.rKey rs) = 1 ∧
    rowsNaming J (keyOf l a.lKey ls) (keyOf r a.rKey rs) = 1 ∧
    (∀ row ∈ P.rows, rowKeys row = (keyOf l a.lKey ls, keyOf r a.rKey rs) → row.drop 1 = missingRowOf a l r ls rs) ∧
    (∀ row ∈ J.rows, rowKeys row = (keyOf l a.lKey ls, keyOf r a.rKey rs) → row.drop 1 = missingRowOf a l r ls rs) := by
  subst ham₁ hamJ
  obtain ⟨hT, -, -⟩ := stage2_missing a t toks l r mname hv hop6 hnames.left hnames.right hnames.distinct nj₁ hcall true nj
    cpu₁ C hC hClen t' ht sim nj₂ cpu₂ P h2 ls rs hls hrs hm
  obtain ⟨hcount, hrowP⟩ := hT ham
  -- stage 1 lists the pair exactly once (C08)
  have hC1 : (C.rows.filter (fun row => decide (rowKeys row = (keyOf l a.lKey ls, keyOf r a.rKey rs)))).length = 1 :=
    C08.missing_pair_once hcall nj cpu₁ C hC ls rs hls hrs hm
  -- the join lists the pair exactly once, with the documented row (C08)
  have hJ1 : (J.rows.filter (fun row => decide (rowKeys row = (keyOf l a.lKey ls, keyOf r a.rKey rs)))).length = 1 :=
    C08.missing_pair_once hjoin njJ cpu J hJ ls rs hls hrs hm
  obtain ⟨i, hi⟩ := C08.missing_pair_row hjoin njJ cpu J hJ ls rs hls hrs hm
  refine ⟨hcount.trans hC1, hJ1, hrowP, fun row hrow hk => ?_⟩
  have hki : rowKeys (Cell.int i :: (C11.projectedRow a.toTableArgs l r ls rs ++
      (if a.outSimScore then [Cell.missing] else []))) = (keyOf l a.lKey ls, keyOf r a.rKey rs) :=
    rowKeys_projected a.toTableArgs l r ls rs _ _
  have he := eq_of_filter_length_one _ J.rows hJ1 row _ hrow hi (decide_eq_true hk) (decide_eq_true hki)
  rw [he]
  rfl

/-- `allow_missing=False` for `apply_matcher` and for the join: neither result has a row naming a pair with a missing
    join value (whatever the filter of stage 1 was constructed with). -/
theorem pipeline_no_missing_pairs (mname : String) (hv : validateJoin mname a t = .ok (l, r))
    (hop6 : a.compOp ∈ [">=", ">", "<=", "<", "=", "!="]) (hnames : KeyNamesOK a)
    (ham : a.allowMissing = false)
    {call : Bool → Int → Int → Except PyErr Frame} (nj₁ : Int) (hcall : TableCall call (stage1Args a nj₁) l r false)
    (am₁ : Bool) (nj cpu₁ : Int) (C : Frame) (hC : call am₁ nj cpu₁ = .ok C) (hClen : C.rows.length < 2 ^ 40)
    (t' : Option TokObj) (ht : t' = some t ∨ t' = none) (sim : SimArg → SimArg → PyV)
    (nj₂ cpu₂ : Int) (P : Frame) (h2 : applyMatcher (stage2Args a C nj₂) t' toks sim cpu₂ = .ok P)
    {jcall : Bool → Int → Int → Except PyErr Frame} (hjoin : TableCall jcall a.toTableArgs l r a.outSimScore)
    (amJ : Bool) (hamJ : amJ = false) (njJ cpu : Int) (J : Frame) (hJ : jcall amJ njJ cpu = .ok J)
    (ls rs : Row) (hls : ls ∈ l.rows) (hrs : rs ∈ r.rows)
    (hm : ¬ Present l a.lAttr ls ∨ ¬ Present r a.rAttr rs) :
    ¬ InResult P (keyOf l a.lKey ls) (keyOf r a.rKey rs) ∧ ¬ InResult J (keyOf l a.lKey ls) (keyOf r a.rKey rs) := by
  subst hamJ
  obtain ⟨-, hF, -⟩ := stage2_missing a t toks l r mname hv hop6 hnames.left hnames.right hnames.distinct nj₁ hcall am₁ nj
    cpu₁ C hC hClen t' ht sim nj₂ cpu₂ P h2 ls rs hls hrs hm
  refine ⟨hF ham, ?_⟩
  rintro ⟨row, hrow, hk⟩
  obtain ⟨h1, h2'⟩ := C08.no_row_names_missing hjoin njJ cpu J hJ row hrow
  rw [hk] at h1 h2'
  rcases hm with hm | hm
  · exact hm (h1 ls hls rfl)
  · exact hm (h2' rs hrs rfl)

/-- WHY BOTH STAGES: a first stage whose filter was constructed without `allow_missing` does not list a pair with a
    missing join value, so the pipeline's result does not name it — even if `apply_matcher` runs with
    `allow_missing=True`, in which case the join (C08) does have a row for it. -/
theorem pipeline_missing_needs_first_stage (mname : String) (hv : validateJoin mname a t = .ok (l, r))
    (hop6 : a.compOp ∈ [">=", ">", "<=", "<", "=", "!="]) (hnames : KeyNamesOK a)
    {call : Bool → Int → Int → Except PyErr Frame} (nj₁ : Int) (hcall : TableCall call (stage1Args a nj₁) l r false)
    (nj cpu₁ : Int) (C : Frame) (hC : call false nj cpu₁ = .ok C) (hClen : C.rows.length < 2 ^ 40)
    (t' : Option TokObj) (ht : t' = some t ∨ t' = none) (sim : SimArg → SimArg → PyV)
    (nj₂ cpu₂ : Int) (P : Frame) (h2 : applyMatcher (stage2Args a C nj₂) t' toks sim cpu₂ = .ok P)
    (ls rs : Row) (hls : ls ∈ l.rows) (hrs : rs ∈ r.rows)
    (hm : ¬ Present l a.lAttr ls ∨ ¬ Present r a.rAttr rs) :
    ¬ InResult C (keyOf l a.lKey ls) (keyOf r a.rKey rs) ∧ ¬ InResult P (keyOf l a.lKey ls) (keyOf r a.rKey rs) := by
  obtain ⟨-, -, hPC⟩ := stage2_missing a t toks l r mname hv hop6 hnames.left hnames.right hnames.distinct nj₁ hcall false nj
    cpu₁ C hC hClen t' ht sim nj₂ cpu₂ P h2 ls rs hls hrs hm
  have hnC : ¬ InResult C (keyOf l a.lKey ls) (keyOf r a.rKey rs) := by
    rintro ⟨row, hrow, hk⟩
    obtain ⟨h1, h2'⟩ := C08.no_row_names_missing hcall nj cpu₁ C hC row hrow
    rw [hk] at h1 h2'
    rcases hm with hm | hm
    · exact hm (h1 ls hls rfl)
    · exact hm (h2' rs hrs rfl)
  exact ⟨hnC, fun h => hnC (hPC h)⟩

end Generic

/-! ## the instances the property names -/

section Instances
variable (a : JoinArgs) (t : TokObj) (toks : TokFn) (l r : Frame)

/-- the conclusion of `pipeline_missing_pairs` for the frames `P`, `J` and the pair `ls`, `rs` -/
def MissingPairAgrees (P J : Frame) (ls rs : Row) : Prop :=
  rowsNaming P (keyOf l a.lKey ls) (keyOf r a.rKey rs) = 1 ∧
  rowsNaming J (keyOf l a.lKey ls) (keyOf r a.rKey rs) = 1 ∧
  (∀ row ∈ P.rows, rowKeys row = (keyOf l a.lKey ls, keyOf r a.rKey rs) → row.drop 1 = missingRowOf a l r ls rs) ∧
  (∀ row ∈ J.rows, rowKeys row = (keyOf l a.lKey ls, keyOf r a.rKey rs) → row.drop 1 = missingRowOf a l r ls rs)

theorem setsim_op6 (m : Measure) (hm : SetMeasure m) (hv : validateJoin m.name a t = .ok (l, r)) :
    a.compOp ∈ [">=", ">", "<=", "<", "=", "!="] := by
  obtain ⟨-, -, hop⟩ := EntrySetSim.of_validateJoin hm hv
  simp only [List.mem_cons, List.not_mem_nil, or_false] at hop ⊢
  rcases hop with h | h | h <;> simp [h]

/-- jaccard / cosine / dice join against `Size/Prefix/Position/SuffixFilter(…, allow_missing=True).filter_tables` followed
    by `apply_matcher(…, allow_missing=True)`: the two results agree on every pair with a missing join value. -/
theorem pipeline_missing_setsim (m : Measure) (hm : SetMeasure m) (hv : validateJoin m.name a t = .ok (l, r))
    (hnames : KeyNamesOK a) (ham : a.allowMissing = true)
    (k : FilterKind) (f : FilterObj) (hfam : f.allowMissing = true) (nj₁ cpu₁ : Int) (C : Frame)
    (h1 : filterTables k f (stage1Args a nj₁) t toks cpu₁ = .ok C) (hClen : C.rows.length < 2 ^ 40)
    (sim : SimArg → SimArg → PyV) (nj₂ cpu₂ : Int) (P : Frame)
    (h2 : applyMatcher (stage2Args a C nj₂) (some t) toks sim cpu₂ = .ok P)
    (cpu : Int) (J : Frame) (hJ : (setSimJoinPy m a t toks cpu).result = .ok J)
    (ls rs : Row) (hls : ls ∈ l.rows) (hrs : rs ∈ r.rows)
    (hmiss : ¬ Present l a.lAttr ls ∨ ¬ Present r a.rAttr rs) :
    MissingPairAgrees a l r P J ls rs := by
  obtain ⟨hv1, hk1⟩ := stage1_valid _ a t l r nj₁ hv
  exact pipeline_missing_pairs a t toks l r m.name hv (setsim_op6 a t l r m hm hv) hnames ham nj₁
    (.filterTables k f (stage1Args a nj₁) t toks l r hv1 hk1) f.allowMissing hfam nj₁ cpu₁ C h1 hClen
    (some t) (Or.inl rfl) sim nj₂ cpu₂ P h2 (.setSim m a t toks l r hv) a.allowMissing ham a.nJobs cpu J hJ
    ls rs hls hrs hmiss

/-- … and with `OverlapFilter(tok, 1, '>=', allow_missing=True)` (any overlap size / operator) as first stage. -/
theorem pipeline_missing_setsim_overlap_filter (m : Measure) (hm : SetMeasure m)
    (hv : validateJoin m.name a t = .ok (l, r)) (hnames : KeyNamesOK a) (ham : a.allowMissing = true)
    (fo : OverlapFilterObj) (hfam : fo.allowMissing = true) (nj₁ cpu₁ : Int) (C : Frame)
    (h1 : overlapFilterTables fo (stage1Args a nj₁) false (toks t.returnSet) cpu₁ = .ok C)
    (hClen : C.rows.length < 2 ^ 40)
    (sim : SimArg → SimArg → PyV) (nj₂ cpu₂ : Int) (P : Frame)
    (h2 : applyMatcher (stage2Args a C nj₂) (some t) toks sim cpu₂ = .ok P)
    (cpu : Int) (J : Frame) (hJ : (setSimJoinPy m a t toks cpu).result = .ok J)
    (ls rs : Row) (hls : ls ∈ l.rows) (hrs : rs ∈ r.rows)
    (hmiss : ¬ Present l a.lAttr ls ∨ ¬ Present r a.rAttr rs) :
    MissingPairAgrees a l r P J ls rs := by
  obtain ⟨hv1, hk1⟩ := stage1_valid _ a t l r nj₁ hv
  exact pipeline_missing_pairs a t toks l r m.name hv (setsim_op6 a t l r m hm hv) hnames ham nj₁
    (.overlapFilterTables fo (stage1Args a nj₁) false (toks t.returnSet) l r hv1 hk1) fo.allowMissing hfam nj₁ cpu₁ C h1
    hClen (some t) (Or.inl rfl) sim nj₂ cpu₂ P h2 (.setSim m a t toks l r hv) a.allowMissing ham a.nJobs cpu J hJ
    ls rs hls hrs hmiss

/-- edit-distance join (finite numeric threshold) against a filter's `filter_tables` with `allow_missing=True` followed
    by `apply_matcher` without tokenizer, `allow_missing=True`. -/
theorem pipeline_missing_ed (hv : validateJoin "EDIT_DISTANCE" a t = .ok (l, r)) (hfin : FiniteNum a.threshold)
    (hnames : KeyNamesOK a) (ham : a.allowMissing = true)
    (k : FilterKind) (f : FilterObj) (hfam : f.allowMissing = true) (nj₁ cpu₁ : Int) (C : Frame)
    (h1 : filterTables k f (stage1Args a nj₁) t toks cpu₁ = .ok C) (hClen : C.rows.length < 2 ^ 40)
    (sim : SimArg → SimArg → PyV) (nj₂ cpu₂ : Int) (P : Frame)
    (h2 : applyMatcher (stage2Args a C nj₂) none toks sim cpu₂ = .ok P)
    (cpu : Int) (J : Frame) (hJ : (editDistanceJoinPy a t toks cpu).result = .ok J)
    (ls rs : Row) (hls : ls ∈ l.rows) (hrs : rs ∈ r.rows)
    (hmiss : ¬ Present l a.lAttr ls ∨ ¬ Present r a.rAttr rs) :
    MissingPairAgrees a l r P J ls rs := by
  have hopED := EntryED.op_cases a.compOp ((validateJoin_ok_iff _ a t l r).1 hv).2.2.2.1
  have hop6 : a.compOp ∈ [">=", ">", "<=", "<", "=", "!="] := by
    rcases hopED with h | h | h <;> simp [h]
  obtain ⟨hv1, hk1⟩ := stage1_valid _ a t l r nj₁ hv
  exact pipeline_missing_pairs a t toks l r _ hv hop6 hnames ham nj₁
    (.filterTables k f (stage1Args a nj₁) t toks l r hv1 hk1) f.allowMissing hfam nj₁ cpu₁ C h1 hClen
    none (Or.inr rfl) sim nj₂ cpu₂ P h2 (.ed a t toks l r hv hfin) a.allowMissing ham a.nJobs cpu J hJ
    ls rs hls hrs hmiss

/-- overlap_join against `OverlapFilter(tok, 1, '>=', allow_missing=True).filter_tables` followed by
    `apply_matcher(…, allow_missing=True)`. -/
theorem pipeline_missing_overlap (fj : OverlapFilterObj)
    (hf : mkOverlapFilter a.threshold a.compOp a.allowMissing t = .ok fj)
    (hv : validateTablesAttrs a.toTableArgs = .ok (l, r)) (hk : validateOutAndKeys a.toTableArgs l r = .ok ())
    (hnames : KeyNamesOK a) (ham : a.allowMissing = true)
    (fo : OverlapFilterObj) (hfam : fo.allowMissing = true) (nj₁ cpu₁ : Int) (C : Frame)
    (h1 : overlapFilterTables fo (stage1Args a nj₁) false (toks t.returnSet) cpu₁ = .ok C)
    (hClen : C.rows.length < 2 ^ 40)
    (sim : SimArg → SimArg → PyV) (nj₂ cpu₂ : Int) (P : Frame)
    (h2 : applyMatcher (stage2Args a C nj₂) (some t) toks sim cpu₂ = .ok P)
    (cpu : Int) (J : Frame) (hJ : (overlapJoinPy a t toks cpu).result = .ok J)
    (ls rs : Row) (hls : ls ∈ l.rows) (hrs : rs ∈ r.rows)
    (hmiss : ¬ Present l a.lAttr ls ∨ ¬ Present r a.rAttr rs) :
    MissingPairAgrees a l r P J ls rs := by
  have hvJ := overlap_validateJoin a t l r fj hf hv hk
  obtain ⟨hv1, hk1⟩ := stage1_valid _ a t l r nj₁ hvJ
  exact pipeline_missing_pairs a t toks l r _ hvJ (overlap_op6 a t fj hf) hnames ham nj₁
    (.overlapFilterTables fo (stage1Args a nj₁) false (toks t.returnSet) l r hv1 hk1) fo.allowMissing hfam nj₁ cpu₁ C h1
    hClen (some t) (Or.inl rfl) sim nj₂ cpu₂ P h2 (.overlapJoin a t toks l r fj hf hv hk) a.allowMissing ham a.nJobs cpu J
    hJ ls rs hls hrs hmiss

/-- overlap_coefficient_join against `OverlapFilter(…, allow_missing=True).filter_tables` followed by
    `apply_matcher(…, allow_missing=True)`. -/
theorem pipeline_missing_ovc (hv : validateJoin "OVERLAP_COEFFICIENT" a t = .ok (l, r))
    (hnames : KeyNamesOK a) (ham : a.allowMissing = true)
    (fo : OverlapFilterObj) (hfam : fo.allowMissing = true) (nj₁ cpu₁ : Int) (C : Frame)
    (h1 : overlapFilterTables fo (stage1Args a nj₁) false (toks t.returnSet) cpu₁ = .ok C)
    (hClen : C.rows.length < 2 ^ 40)
    (sim : SimArg → SimArg → PyV) (nj₂ cpu₂ : Int) (P : Frame)
    (h2 : applyMatcher (stage2Args a C nj₂) (some t) toks sim cpu₂ = .ok P)
    (cpu : Int) (J : Frame) (hJ : (overlapCoefficientJoinPy a t toks cpu).result = .ok J)
    (ls rs : Row) (hls : ls ∈ l.rows) (hrs : rs ∈ r.rows)
    (hmiss : ¬ Present l a.lAttr ls ∨ ¬ Present r a.rAttr rs) :
    MissingPairAgrees a l r P J ls rs := by
  have hop := (EX.ovc_valid_thr_op a t l r hv).2
  have hop6 : a.compOp ∈ [">=", ">", "<=", "<", "=", "!="] := by
    simp only [List.mem_cons, List.not_mem_nil, or_false] at hop ⊢
    rcases hop with h | h | h <;> simp [h]
  obtain ⟨hv1, hk1⟩ := stage1_valid _ a t l r nj₁ hv
  exact pipeline_missing_pairs a t toks l r _ hv hop6 hnames ham nj₁
    (.overlapFilterTables fo (stage1Args a nj₁) false (toks t.returnSet) l r hv1 hk1) fo.allowMissing hfam nj₁ cpu₁ C h1
    hClen (some t) (Or.inl rfl) sim nj₂ cpu₂ P h2 (.ovc a t toks l r hv) a.allowMissing ham a.nJobs cpu J
    hJ ls rs hls hrs hmiss

end Instances

/-! ## non-vacuity -/

/-! The request of C07.lean's example — `jaccard_join(exL, exR, 'id', 'id', 's', 's', tok, 0.5, allow_missing=True,
    n_jobs=2)`, left rows (1,"ab") (2,"") (3,NaN) (4,"x"), right rows (7,"abc") (8,"") (9,NaN) — with
    `SizeFilter(tok, 'JACCARD', 0.5, allow_missing=True).filter_tables(…, n_jobs=2)` on 4 cpus as stage 1: the candidate
    set (evaluated by the kernel) lists (1,7), (2,8) and the six pairs with a missing side.  `pipeline_missing_setsim`
    applies to the pair (left 3 = NaN, right 7): both results have exactly one row naming (3, 7), with NaN score. -/
section NonVacuity
open EntrySetSim.Ex

def exCm : Frame :=
  { columns := ["_id", "l_id", "r_id"]
    index := [.int 0, .int 0, .int 0, .int 1, .int 2, .int 3, .int 4, .int 5]
    rows := [[.int 0, .int 1, .int 7], [.int 1, .int 2, .int 8], [.int 2, .int 3, .int 7], [.int 3, .int 3, .int 8],
             [.int 4, .int 3, .int 9], [.int 5, .int 1, .int 9], [.int 6, .int 2, .int 9], [.int 7, .int 4, .int 9]] }

def exFm : FilterObj := { cfg := cfgOf .jaccard (1 / 2), allowMissing := true }

theorem ex_stage1_missing : filterTables .size exFm (stage1Args exArgs 2) exT exToks 4 = .ok exCm := by decide +kernel

example : ∃ P J, applyMatcher (stage2Args exArgs exCm 3) (some exT) exToks exSimFn 8 = .ok P ∧
    (setSimJoinPy .jaccard exArgs exT exToks 4).result = .ok J ∧
    rowsNaming P (.int 3) (.int 7) = 1 ∧ rowsNaming J (.int 3) (.int 7) = 1 ∧
    (∀ row ∈ P.rows, rowKeys row = (.int 3, .int 7) → rowScore row = .missing) ∧
    (∀ row ∈ J.rows, rowKeys row = (.int 3, .int 7) → rowScore row = .missing) := by
  have hfirst : FirstStage .jaccard (1 / 2) exArgs exT exToks exCm :=
    .filter .size exFm 2 4 (fun h => by cases h) rfl rfl ex_stage1_missing
  obtain ⟨P, hP⟩ := pipeline_returns .jaccard exArgs exT exToks exL exR (Or.inl rfl) ex_valid ex_names (1 / 2) exCm
    hfirst (by decide) exSimFn 3 8
  obtain ⟨J, hJ⟩ := C08.setSimJoin_succeeds .jaccard exArgs exT exToks 4 exL exR ex_valid (by decide)
  have h := pipeline_missing_setsim exArgs exT exToks exL exR .jaccard (Or.inl rfl) ex_valid ex_names rfl .size exFm rfl
    2 4 exCm ex_stage1_missing (by decide) exSimFn 3 8 P hP 4 J hJ [.int 3, .missing] [.int 7, .str "abc"]
    (by decide) (by decide) (Or.inl (by unfold Present; decide))
  have hkeys : (keyOf exL exArgs.lKey [.int 3, .missing], keyOf exR exArgs.rKey [.int 7, .str "abc"]) =
      (Cell.int 3, Cell.int 7) := by decide
  obtain ⟨h1, h2, h3, h4⟩ := h
  rw [Prod.mk.injEq] at hkeys
  rw [hkeys.1, hkeys.2] at h1 h2 h3 h4
  exact ⟨P, J, hP, hJ, h1, h2, fun row hrow hk => missingRowOf_score _ _ _ _ _ rfl row (h3 row hrow hk),
    fun row hrow hk => missingRowOf_score _ _ _ _ _ rfl row (h4 row hrow hk)⟩

end NonVacuity

section AxiomCheck
#print axioms missingRowOf_score
#print axioms pipeline_missing_pairs
#print axioms pipeline_no_missing_pairs
#print axioms pipeline_missing_needs_first_stage
#print axioms pipeline_missing_setsim
#print axioms pipeline_missing_setsim_overlap_filter
#print axioms pipeline_missing_ed
#print axioms pipeline_missing_overlap
#print axioms pipeline_missing_ovc
end AxiomCheck

end SSJ.Props.C07

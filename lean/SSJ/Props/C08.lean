/-
  C08 — Missing join values are handled exactly as allow_missing says.

  "With allow_missing=False no output row of any join or filter_tables involves a row whose join/filter value is
   missing (None/NaN), and filter_pair/filter_candset/apply_matcher drop such pairs.  With allow_missing=True the
   output additionally contains every pair in which at least one side is missing, exactly once each, with NaN as
   _sim_score where a score column is requested, and the part of the result over present values is unchanged.
   The call succeeds for every distribution of missing values, including all missing or missing on one side only."

  Model functions: the six join / filter_tables entry points of `SSJ/Model/Frame.lean` (`setSimJoinPy`,
  `overlapCoefficientJoinPy`, `editDistanceJoinPy`, `overlapJoinPy`, `filterTables`, `overlapFilterTables`),
  collected in `SSJ.TableCall` (`Proofs/EntryGeneric.lean`): `TableCall call a l r oss` says that `call am nj cpu` is
  the outcome of one of them on arguments that pass its validations (validated tables `l`, `r`; table arguments `a`;
  `oss` = a score column is requested), as a function of `allow_missing = am`, `n_jobs = nj` and the cpu count.
  Further `filterPair` / `overlapFilterPair`, `filterCandset` and `applyMatcher` (`SSJ/Model/Matcher.lean`).

  BODY CONDITIONS: the `*_succeeds` theorems (which conclude that a call returns) assume `BodyOK` (SSJ/Props/Common.lean):
  the PRESENT join values are strings (else TypeError) and the output header has no `_id` column (else ValueError);
  `applyMatcher_missing` assumes string match columns when a tokenizer is given; `filterCandset_missing` that
  `filter_pair` does not raise on the referenced pairs.  Theorems about a given result `… = .ok fr` assume nothing more.
  Scope: all tables (any distribution of missing join values — none, some, all, one side only), tokenizers,
  thresholds, operators, output attributes, `n_jobs`, cpu counts; no size restriction.  The only hypotheses are that
  the arguments pass the validations and, for `edit_distance_join`, that the threshold is a finite number
  (`math.floor(inf)` raises OverflowError in the library as in the model: `editDistanceJoin_inf_fails`).
  For `filterCandset` / `applyMatcher` the chunks of the candidate set must concatenate to the candidate set
  (`hchunks`; proved in `Proofs/Split.lean` (`chunksFor_flatten`) for candidate sets of fewer than 2^40 rows).

  The statements are instances of generic facts about `runTables` (the skeleton shared by all six entry points) for
  any per-chunk `work` that only emits output rows of pairs (left array row, chunk row) — `WorkFaithful`,
  `RT.run_ok`, `RT.presentRows_faithful`, `RT.missingRows_doc` in `Proofs/EntryGeneric.lean` — and
  `TableCall.normal` shows that every entry point is such a `runTables` call.

  Not covered here: which present pairs are output (C01–C04), the `n_jobs` independence (C10).
-/
import SSJ.Proofs.EntryGeneric
import SSJ.Props.Common
import SSJ.Props.C11

namespace SSJ.Props.C08
open SSJ SSJ.Props

variable {call : Bool → Int → Int → Except PyErr Frame} {a : TableArgs} {l r : Frame} {oss : Bool}

/-! ### the call succeeds for every distribution of missing values -/

/-- SUCCEEDS: every join / filter_tables entry point returns a frame once its arguments have passed the
    validations and the body conditions `BodyOK` hold (the PRESENT join values are strings, the output header has no
    `_id` column; `C15_body` shows what happens otherwise) — whatever the tables contain (no present value at all, missing values on one side only, …),
    for both values of `allow_missing`, every `n_jobs` and every cpu count -/
theorem succeeds (h : TableCall call a l r oss) (hb : BodyOK a l r oss) (am : Bool) (nj cpu : Int) :
    ∃ fr, call am nj cpu = .ok fr := by
  obtain ⟨_, _, hm⟩ := h.master hb
  obtain ⟨fr, hfr, _⟩ := hm am nj cpu
  exact ⟨fr, hfr⟩

theorem setSimJoin_succeeds (m : Measure) (j : JoinArgs) (t : TokObj) (toks : TokFn) (cpu : Int) (l r : Frame)
    (hv : validateJoin m.name j t = .ok (l, r)) (hb : BodyOK j.toTableArgs l r j.outSimScore) :
    ∃ fr, (setSimJoinPy m j t toks cpu).result = .ok fr :=
  succeeds (.setSim m j t toks l r hv) hb j.allowMissing j.nJobs cpu

theorem overlapCoefficientJoin_succeeds (j : JoinArgs) (t : TokObj) (toks : TokFn) (cpu : Int) (l r : Frame)
    (hv : validateJoin "OVERLAP_COEFFICIENT" j t = .ok (l, r)) (hb : BodyOK j.toTableArgs l r j.outSimScore) :
    ∃ fr, (overlapCoefficientJoinPy j t toks cpu).result = .ok fr :=
  succeeds (.ovc j t toks l r hv) hb j.allowMissing j.nJobs cpu

/-- for the edit-distance join the threshold must in addition be a finite number -/
theorem editDistanceJoin_succeeds (j : JoinArgs) (t : TokObj) (toks : TokFn) (cpu : Int) (l r : Frame)
    (hv : validateJoin "EDIT_DISTANCE" j t = .ok (l, r)) (hthr : FiniteNum j.threshold)
    (hb : BodyOK j.toTableArgs l r j.outSimScore) :
    ∃ fr, (editDistanceJoinPy j t toks cpu).result = .ok fr :=
  succeeds (.ed j t toks l r hv hthr) hb j.allowMissing j.nJobs cpu

/-- … because an infinite threshold passes the validations and then makes `math.floor` raise OverflowError -/
theorem editDistanceJoin_inf_fails (j : JoinArgs) (t : TokObj) (toks : TokFn) (cpu : Int) (l r : Frame)
    (hv : validateJoin "EDIT_DISTANCE" j t = .ok (l, r)) (hthr : j.threshold = .inf) :
    (editDistanceJoinPy j t toks cpu).result = .error .overflow := by
  unfold editDistanceJoinPy
  rw [hv, hthr]
  rfl

theorem overlapJoin_succeeds (j : JoinArgs) (t : TokObj) (toks : TokFn) (cpu : Int) (l r : Frame)
    (f : OverlapFilterObj) (hf : mkOverlapFilter j.threshold j.compOp j.allowMissing t = .ok f)
    (hv : validateTablesAttrs j.toTableArgs = .ok (l, r)) (hk : validateOutAndKeys j.toTableArgs l r = .ok ())
    (hb : BodyOK j.toTableArgs l r j.outSimScore) :
    ∃ fr, (overlapJoinPy j t toks cpu).result = .ok fr :=
  succeeds (.overlapJoin j t toks l r f hf hv hk) hb j.allowMissing j.nJobs cpu

theorem filterTables_succeeds (k : FilterKind) (f : FilterObj) (a : TableArgs) (t : TokObj) (toks : TokFn) (cpu : Int)
    (l r : Frame) (hv : validateTablesAttrs a = .ok (l, r)) (hk : validateOutAndKeys a l r = .ok ())
    (hb : BodyOK a l r false) :
    ∃ fr, filterTables k f a t toks cpu = .ok fr :=
  succeeds (.filterTables k f a t toks l r hv hk) hb f.allowMissing a.nJobs cpu

theorem overlapFilterTables_succeeds (f : OverlapFilterObj) (a : TableArgs) (oss : Bool) (tok : String → List Tok)
    (cpu : Int) (l r : Frame) (hv : validateTablesAttrs a = .ok (l, r)) (hk : validateOutAndKeys a l r = .ok ())
    (hb : BodyOK a l r oss) :
    ∃ fr, overlapFilterTables f a oss tok cpu = .ok fr :=
  succeeds (.overlapFilterTables f a oss tok l r hv hk) hb f.allowMissing a.nJobs cpu

/-! ### allow_missing = False -/

/-- NO MISSING ROWS: with `allow_missing=False` every result row carries the keys of a left source row and a
    right source row whose join values are both present … -/
theorem no_missing_rows (h : TableCall call a l r oss) (nj cpu : Int) (fr : Frame)
    (hfr : call false nj cpu = .ok fr) :
    ∀ row ∈ fr.rows, ∃ ls ∈ l.rows, ∃ rs ∈ r.rows,
      Present l a.lAttr ls ∧ Present r a.rAttr rs ∧
      rowKeys row = (keyOf l a.lKey ls, keyOf r a.rKey rs) := by
  obtain ⟨work, hwf, hof⟩ := h.of_ok
  obtain ⟨_, hrows⟩ := hof false nj cpu fr hfr
  intro row hrow
  obtain ⟨i, hi, rfl⟩ := List.getElem_of_mem hrow
  obtain ⟨x, hx, hxi⟩ := rows_getElem_of_eq _ _ hrows i hi
  simp only [Bool.false_eq_true, if_false, List.append_nil] at hx
  obtain ⟨ls, hls, rs, hrs, hlp, hrp, s, rfl⟩ := RT.presentRows_faithful hwf a l r nj cpu x hx
  refine ⟨ls, hls, rs, hrs, hlp, hrp, ?_⟩
  have hk := RT.cons_withScore_docRow_keys a l r ls rs oss s (Cell.int i)
  rw [hxi]; unfold rowKeys; rw [hk.1, hk.2]; rfl

/-- … hence no result row names (by its left or right key) a source row whose join value is missing -/
theorem no_row_names_missing (h : TableCall call a l r oss) (nj cpu : Int) (fr : Frame)
    (hfr : call false nj cpu = .ok fr) (row : Row) (hrow : row ∈ fr.rows) :
    (∀ ls ∈ l.rows, keyOf l a.lKey ls = (rowKeys row).1 → Present l a.lAttr ls) ∧
    (∀ rs ∈ r.rows, keyOf r a.rKey rs = (rowKeys row).2 → Present r a.rAttr rs) := by
  obtain ⟨k1, k2, _⟩ := h.normal
  obtain ⟨ls, hls, rs, hrs, hlp, hrp, hk⟩ := no_missing_rows h nj cpu fr hfr row hrow
  rw [hk]
  constructor
  · intro ls' hls' he
    rw [row_eq_of_key_eq a.lKey l k1 ls' ls hls' hls he]; exact hlp
  · intro rs' hrs' he
    rw [row_eq_of_key_eq a.rKey r k2 rs' rs hrs' hrs he]; exact hrp

/-! ### allow_missing = True -/

/-- the positions `(i, j)` of the pairs (left row `i`, right row `j`) with a missing join value on at least one
    side: every such position is listed, exactly once, and nothing else -/
theorem missing_positions (l r : Frame) (lAttr rAttr : String) :
    (missingPairIdx l.rows r.rows (l.colIdx lAttr) (r.colIdx rAttr)).Nodup ∧
    ∀ i j, (i, j) ∈ missingPairIdx l.rows r.rows (l.colIdx lAttr) (r.colIdx rAttr) ↔
      i < l.rows.length ∧ j < r.rows.length ∧
      (¬ Present l lAttr (l.rows.getD i []) ∨ ¬ Present r rAttr (r.rows.getD j [])) := by
  refine ⟨nodup_missingPairIdx _ _ _ _, fun i j => ?_⟩
  rw [mem_missingPairIdx]
  simp only [Present, valOf, Bool.not_eq_false]

/-- MISSING PAIRS, EXACTLY: the result for `allow_missing=True` is the result for `allow_missing=False` (same other
    arguments) followed by one row for every position of `missing_positions`: the keys and requested attributes of
    the two source rows, and — iff a score column is requested — a missing (NaN) score.  The part over present
    values is literally unchanged: the rows of the `False` result are the first rows of the `True` result, `_id`
    included. -/
theorem missing_pairs_exact (h : TableCall call a l r oss) (nj cpu : Int) (frT frF : Frame)
    (hT : call true nj cpu = .ok frT) (hF : call false nj cpu = .ok frF) :
    frT.rows.map (fun row => row.drop 1) =
      frF.rows.map (fun row => row.drop 1) ++
        (missingPairIdx l.rows r.rows (l.colIdx a.lAttr) (r.colIdx a.rAttr)).map (fun ij =>
          C11.projectedRow a l r (l.rows.getD ij.1 []) (r.rows.getD ij.2 []) ++
            (if oss then [Cell.missing] else [])) ∧
    frT.rows.take frF.rows.length = frF.rows := by
  obtain ⟨work, hwf, hof⟩ := h.of_ok
  obtain ⟨_, hrT⟩ := hof true nj cpu frT hT
  obtain ⟨_, hrF⟩ := hof false nj cpu frF hF
  simp only [if_true] at hrT
  simp only [Bool.false_eq_true, if_false] at hrF
  constructor
  · rw [hrT, hrF, RT.zipIdx_map_drop, RT.zipIdx_map_drop, List.append_nil, RT.missingRows_doc]
    congr 1
    apply List.map_congr_left
    intro ij _
    rw [eg_withScore_eq_append]; rfl
  · rw [hrT, hrF]
    exact RT.numbered_take _ _

/-- EXACTLY ONCE, by keys: for every left source row and right source row at least one of whose join values is
    missing, the `allow_missing=True` result contains exactly one row carrying their two keys -/
theorem missing_pair_once (h : TableCall call a l r oss) (nj cpu : Int) (frT : Frame)
    (hT : call true nj cpu = .ok frT) (ls rs : Row) (hls : ls ∈ l.rows) (hrs : rs ∈ r.rows)
    (hm : ¬ Present l a.lAttr ls ∨ ¬ Present r a.rAttr rs) :
    (frT.rows.filter (fun row => decide (rowKeys row = (keyOf l a.lKey ls, keyOf r a.rKey rs)))).length = 1 := by
  obtain ⟨k1, k2, _⟩ := h.normal
  obtain ⟨work, hwf, hof⟩ := h.of_ok
  obtain ⟨_, hrT⟩ := hof true nj cpu frT hT
  simp only [if_true] at hrT
  have hm' : (ls.cell (l.colIdx a.lAttr)).isMissing = true ∨ (rs.cell (r.colIdx a.rAttr)).isMissing = true := by
    simpa only [Present, valOf, Bool.not_eq_false] using hm
  have e : (fun row : Row => decide (rowKeys row = (keyOf l a.lKey ls, keyOf r a.rKey rs))) =
      fun row => RT.hasKeys a l r ls rs (row.drop 1) := by
    funext row
    simp only [rowKeys, keyOf, RT.hasKeys, Prod.mk.injEq, Row.cell, List.getD_eq_getElem?_getD, List.getElem?_drop]
  rw [← List.countP_eq_length_filter, e, hrT, RT.countP_numbered, List.countP_append,
    RT.countP_present_missing_pair hwf a l r k1 k2 nj cpu ls rs hls hrs hm',
    RT.countP_missing_pair a l r oss k1 k2 ls rs hls hrs hm']

/-- … and that row lists the two rows' keys and requested attributes, with a missing (NaN) score iff a score column
    is requested -/
theorem missing_pair_row (h : TableCall call a l r oss) (nj cpu : Int) (frT : Frame)
    (hT : call true nj cpu = .ok frT) (ls rs : Row) (hls : ls ∈ l.rows) (hrs : rs ∈ r.rows)
    (hm : ¬ Present l a.lAttr ls ∨ ¬ Present r a.rAttr rs) :
    ∃ i, Cell.int i :: (C11.projectedRow a l r ls rs ++ (if oss then [Cell.missing] else [])) ∈ frT.rows := by
  obtain ⟨work, hwf, hof⟩ := h.of_ok
  obtain ⟨_, hrT⟩ := hof true nj cpu frT hT
  simp only [if_true] at hrT
  have hm' : (ls.cell (l.colIdx a.lAttr)).isMissing = true ∨ (rs.cell (r.colIdx a.rAttr)).isMissing = true := by
    simpa only [Present, valOf, Bool.not_eq_false] using hm
  have hx : withScore oss (RT.docRow a l r ls rs) Cell.missing ∈
      RT.presentRows a l r nj cpu work ++ RT.missingRows a l r oss := by
    apply List.mem_append_right
    rw [RT.mem_missingRows_iff]
    exact ⟨ls, hls, rs, hrs, hm', by rw [RT.missingRow_faithful]; rfl⟩
  obtain ⟨i, hi, hxi⟩ := List.getElem_of_mem hx
  refine ⟨i, ?_⟩
  rw [hrT, List.mem_map]
  refine ⟨(withScore oss (RT.docRow a l r ls rs) Cell.missing, i), ?_, ?_⟩
  · rw [List.mem_zipIdx_iff_getElem?, List.getElem?_eq_getElem hi, hxi]
  · rw [eg_withScore_eq_append]; rfl

/-! ### filter_pair, filter_candset, apply_matcher -/

/-- `filter_pair` of the Size / Prefix / Position / Suffix filter on a pair with a missing value: dropped (`True`)
    iff not `allow_missing`, whatever the other value, the tokenizer and the threshold are -/
theorem filterPair_missing (k : FilterKind) (f : FilterObj) (tok : String → List Tok) (lv rv : Cell)
    (h : lv.isMissing = true ∨ rv.isMissing = true) : filterPair k f tok lv rv = !f.allowMissing :=
  SSJ.filterPair_missing k f tok lv rv h

/-- the same for `OverlapFilter.filter_pair` -/
theorem overlapFilterPair_missing (f : OverlapFilterObj) (tok : String → List Tok) (lv rv : Cell)
    (h : lv.isMissing = true ∨ rv.isMissing = true) : overlapFilterPair f tok lv rv = !f.allowMissing :=
  SSJ.overlapFilterPair_missing f tok lv rv h

/-- `filter_candset` (with any of these filters' `filter_pair` as the Python call `fp`, which on the referenced value
    pairs answers the total function `fpb` — `hok`; for `filterPairPy` / `overlapFilterPairPy` this holds when the two
    filter columns hold only strings and missing values, and ALWAYS for a pair with a missing side, on which
    `filter_pair` returns before tokenizing): the result keeps exactly the candidate rows not dropped by `fpb`; a candidate pair with a missing join value on either side is therefore dropped when
    `allow_missing=False` and kept when `allow_missing=True`.  (`lval cr`, `rval cr`: the join values of the rows
    carrying the keys of candidate row `cr`.) -/
theorem filterCandset_missing (a : CandsetArgs) (fp : Cell → Cell → Except PyErr Bool) (fpb : Cell → Cell → Bool)
    (am : Bool) (hfp : ∀ lv rv, lv.isMissing = true ∨ rv.isMissing = true → fpb lv rv = !am)
    (cpu : Int) (c l r : Frame)
    (hc : a.candset = some c) (hlt : a.ltable = some l) (hrt : a.rtable = some r)
    (hv1 : validateAttr a.candLKey c = .ok ()) (hv2 : validateAttr a.candRKey c = .ok ())
    (hv3 : validateAttr a.lKey l = .ok ()) (hv4 : validateAttr a.rKey r = .ok ())
    (hv5 : validateAttr a.lAttr l = .ok ()) (hv6 : validateAttr a.rAttr r = .ok ())
    (hv7 : validateAttrType a.lAttr l = .ok ()) (hv8 : validateAttrType a.rAttr r = .ok ())
    (hv9 : validateKeyAttr a.lKey l = .ok ()) (hv10 : validateKeyAttr a.rKey r = .ok ())
    (lval rval : Row → Cell)
    (hl : ∀ cr ∈ c.rows, ∃ lrow ∈ l.rows, (lrow.cell (l.colIdx a.lKey)).pyEq (cr.cell (c.colIdx a.candLKey)) = true ∧
                                         lrow.cell (l.colIdx a.lAttr) = lval cr)
    (hr : ∀ cr ∈ c.rows, ∃ rrow ∈ r.rows, (rrow.cell (r.colIdx a.rKey)).pyEq (cr.cell (c.colIdx a.candRKey)) = true ∧
                                         rrow.cell (r.colIdx a.rAttr) = rval cr)
    (hok : ∀ cr ∈ c.rows, fp (lval cr) (rval cr) = .ok (fpb (lval cr) (rval cr)))
    (hchunks : (chunksFor (candLabelled c) a.nJobs cpu).flatten = candLabelled c) :
    ∃ fr, filterCandset a fp cpu = .ok fr ∧
      fr.rows = c.rows.filter (fun cr => !fpb (lval cr) (rval cr)) ∧
      ∀ cr ∈ c.rows, (lval cr).isMissing = true ∨ (rval cr).isMissing = true →
        (am = false → cr ∉ fr.rows) ∧ (am = true → cr ∈ fr.rows) := by
  obtain ⟨fr, hfr, _, _, hrows⟩ := filterCandset_rows a fp fpb cpu c l r hc hlt hrt hv1 hv2 hv3 hv4 hv5 hv6 hv7 hv8
    hv9 hv10 lval rval hl hr hok hchunks
  refine ⟨fr, hfr, hrows, fun cr hcr hm => ?_⟩
  rw [hrows, List.mem_filter, hfp _ _ hm]
  constructor
  · rintro rfl; simp
  · rintro rfl; simp [hcr]

/-- `apply_matcher`: the result rows are the specification rows of the candidate rows (`matcherTableSpec`, in
    candidate order), and for a candidate row `cr` whose left or right source row (the rows carrying `cr`'s keys)
    has a missing join value, the specification is: dropped when `allow_missing=False`; when
    `allow_missing=True`, one row — the candidate's `_id`, the output cells, and a missing (NaN) score iff a score
    column is requested — without the similarity function being consulted. -/
theorem applyMatcher_missing (a : MatcherArgs) (t : Option TokObj) (toks : TokFn) (sim : SimArg → SimArg → PyV)
    (cpu : Int) (c l r : Frame)
    (hc : a.candset = some c) (hlt : a.ltable = some l) (hrt : a.rtable = some r)
    (hv1 : validateAttr a.candLKey c = .ok ()) (hv2 : validateAttr a.candRKey c = .ok ())
    (hv3 : validateAttr a.lKey l = .ok ()) (hv4 : validateAttr a.rKey r = .ok ())
    (hv5 : validateAttr a.lAttr l = .ok ()) (hv6 : validateAttr a.rAttr r = .ok ())
    (hv7 : validateOutputAttrs a.lOut l a.rOut r = .ok ())
    (hv8 : ∀ tk, t = some tk → validateTokenizer tk = .ok ())
    (hv9 : genCheck (Gen.validate_comp_op (.str a.compOp)) = .ok ())
    (hv10 : validateKeyAttr a.lKey l = .ok ()) (hv11 : validateKeyAttr a.rKey r = .ok ())
    (hl : ∀ cr ∈ c.rows, PyMem (cr.cell (c.colIdx a.candLKey)) (l.col a.lKey))
    (hr : ∀ cr ∈ c.rows, PyMem (cr.cell (c.colIdx a.candRKey)) (r.col a.rKey))
    (hchunks : (chunksFor c.rows a.nJobs cpu).flatten = c.rows)
    (hstr : t.isSome → StrColumn l a.lAttr ∧ StrColumn r a.rAttr) :
    ∃ fr, applyMatcher a t toks sim cpu = .ok fr ∧
      fr.rows = c.rows.filterMap (matcherTableSpec a t toks sim c l r) ∧
      ∀ cr ∈ c.rows, ∀ ls ∈ l.rows, ∀ rs ∈ r.rows,
        (keyOf l a.lKey ls).pyEq (cr.cell (c.colIdx a.candLKey)) = true →
        (keyOf r a.rKey rs).pyEq (cr.cell (c.colIdx a.candRKey)) = true →
        (¬ Present l a.lAttr ls ∨ ¬ Present r a.rAttr rs) →
        (a.allowMissing = false → matcherTableSpec a t toks sim c l r cr = none) ∧
        (a.allowMissing = true → ∃ cells, matcherTableSpec a t toks sim c l r cr =
            some (cr.cell 0 :: cells ++ (if a.outSimScore then [Cell.missing] else []))) := by
  obtain ⟨fr, hfr, _, hrows⟩ := applyMatcher_rows a t toks sim cpu c l r hc hlt hrt hv1 hv2 hv3 hv4 hv5 hv6 hv7 hv8
    hv9 hv10 hv11 hl hr hchunks hstr
  refine ⟨fr, hfr, hrows, fun cr _ ls hls rs hrs hkl hkr hm => ?_⟩
  have hm' : (ls.cell (l.colIdx a.lAttr)).isMissing = true ∨ (rs.cell (r.colIdx a.rAttr)).isMissing = true := by
    simpa only [Present, valOf, Bool.not_eq_false] using hm
  obtain ⟨e1, e2⟩ := matcher_attr_cell a l r ls rs
  rw [matcherTableSpec_of_rows a t toks sim c l r hv10 hv11 cr ls rs hls hrs hkl hkr,
    matcherRowSpec_missing _ _ _ _ _ _ _ _ _ _ _ (by rw [e1, e2]; exact hm')]
  constructor
  · intro h; rw [h]; rfl
  · intro h; rw [h, if_pos rfl]
    by_cases ho : (matcherOutCfg a).hasOut = true
    · exact ⟨_, by rw [if_pos ho, eg_withScore_eq_append]⟩
    · exact ⟨_, by rw [if_neg ho, eg_withScore_eq_append]⟩

/-! ### non-vacuity: a concrete call (`OverlapFilter.filter_tables` with a score column) in which EVERY left join
    value is missing and the right one is present; both `allow_missing` settings succeed, `False` yields no row,
    `True` yields one row per (left row, right row) with a missing score -/

def exL : Frame := { columns := ["id", "name"], dtypes := ["int64", "object"],
                     rows := [[.int 1, .missing], [.int 2, .missing]] }
def exR : Frame := { columns := ["rid", "title"], dtypes := ["int64", "object"], rows := [[.int 7, .str "b c"]] }
def exArgs : TableArgs := { ltable := some exL, rtable := some exR, lKey := "id", rKey := "rid", lAttr := "name",
                            rAttr := "title" }
def exTok : String → List Tok := fun s => if s = "b c" then ["b", "c"] else []
def exFilter : OverlapFilterObj := { overlapSize := .int 1, compOp := ">=" }

example : TableCall (fun am nj cpu => overlapFilterTables { exFilter with allowMissing := am } (exArgs.withJobs nj) true exTok cpu)
    exArgs exL exR true :=
  .overlapFilterTables exFilter exArgs true exTok exL exR (by decide) (by decide)

example : overlapFilterTables { exFilter with allowMissing := false } exArgs true exTok 4 =
    .ok { columns := ["_id", "l_id", "r_rid", "_sim_score"], index := [], rows := [] } := by decide

example : overlapFilterTables { exFilter with allowMissing := true } exArgs true exTok 4 =
    .ok { columns := ["_id", "l_id", "r_rid", "_sim_score"], index := [.int 0, .int 1],
          rows := [[.int 0, .int 1, .int 7, .missing], [.int 1, .int 2, .int 7, .missing]] } := by decide

example : missingPairIdx exL.rows exR.rows (exL.colIdx "name") (exR.colIdx "title") = [(0, 0), (1, 0)] := by decide

section AxiomCheck
#print axioms succeeds
#print axioms editDistanceJoin_succeeds
#print axioms editDistanceJoin_inf_fails
#print axioms no_missing_rows
#print axioms no_row_names_missing
#print axioms missing_positions
#print axioms missing_pairs_exact
#print axioms missing_pair_once
#print axioms missing_pair_row
#print axioms filterPair_missing
#print axioms overlapFilterPair_missing
#print axioms filterCandset_missing
#print axioms applyMatcher_missing
end AxiomCheck

end SSJ.Props.C08

/-
  C13 — Joins obey transposition, threshold-refinement and operator-partition laws.

  "Swapping the two tables yields the same pairs with keys swapped and identical scores.  Joining at a stricter
   threshold gives exactly the rows of the join at a laxer threshold whose _sim_score meets the stricter one (for
   edit distance: smaller threshold vs larger).  The '>=' (resp. '<=') result is the disjoint union of the '>'
   (resp. '<') and '=' results.  Quantifier: all tables, all six joins, all ordered pairs of thresholds; …
   empty-empty pairs (threshold-independent) and pairs whose raw and rounded score straddle a threshold are excluded."

  MODEL.  The six entry points of lean/SSJ/Model/Frame.lean (DataFrame in, DataFrame out; validation, projection,
  dropna, `n_jobs` chunking, concatenation, missing-value rows, `_id`):
    `setSimJoinPy m a t toks cpu`  (m ∈ {jaccard, cosine, dice}),  `overlapJoinPy a t toks cpu`,
    `overlapCoefficientJoinPy a t toks cpu`,  `editDistanceJoinPy a t toks cpu`.
  The three laws relate the results of DIFFERENT CALLS.  The transformed calls are (Proofs/EntryLaws.lean, unfolded
  by `rfl` in the section "vocabulary" below):
    `a.swap`             — ltable/rtable, l_key/r_key, l_join_attr/r_join_attr, l_out_attrs/r_out_attrs,
                           l_out_prefix/r_out_prefix exchanged; threshold, operator, flags, n_jobs unchanged;
    `a.withThreshold v`  — the same call with threshold `v`;
    `a.withOp op`        — the same call with comparison operator `op`.

  FORM OF THE STATEMENTS.  Every law is stated PER PAIR of source rows `ls ∈ l.rows`, `rs ∈ r.rows` with present join
  values (`Present`), about the key pair `(keyOf l a.lKey ls, keyOf r a.rKey rs)`:
    `InResult fr kl kr`      — some row of the frame `fr` names the key pair (`rowKeys row = (kl, kr)`);
    `ScoreOf fr kl kr s`     — every row of `fr` naming the pair has last cell (`_sim_score`) `s`;
    `SameScore fr fr' kl kr` — the rows of `fr` naming `(kl, kr)` and the rows of `fr'` naming `(kr, kl)` carry the
                               same score cell.
  Since no key pair occurs twice in a result (C02: `setsim_once`, `overlap_once`, `ovc_once`; C03: `once`) and keys
  identify source rows, "the same rows" of the property is exactly "the same key pairs with the same score".
    transpose_*  : `InResult fr kl kr ↔ InResult fr' kr kl`, and `SameScore fr fr' kl kr` when a score is requested;
    refine_*     : `InResult fr₂ kl kr ↔ InResult fr₁ kl kr ∧ (the score meets the stricter threshold)`, and both
                   results report the same score (`fr₁` laxer, `fr₂` stricter);
    partition_*  : `InResult frGe ↔ InResult frGt ∨ InResult frEq`, and never both of the latter.
  The per-pair characterisations they rest on are `setsim_iff`, `overlap_iff`, `ovc_iff`, `ed_iff`.

  HYPOTHESES, in plain words.
    * the (laxest / `>=` / unswapped) call passes the validation block; validity of the other calls involved is
      DERIVED (`EntryLaws.validateJoin_swap`, `validateJoin_withOp`, `validateJoin_withThreshold`, …) except for the
      two edit-distance thresholds, which are both assumed valid;
    * each call involved returned the frame named in the statement (`… .result = .ok fr`; it always returns one:
      `C01.setsim_returns`, `C01.overlap_exact`, `C01.ovc_exact`, `C03.returns_frame`);
    * jaccard / cosine / dice: the threshold is a Python float `thr` with `2⁻²⁰ ≤ thr ≤ 1` (`ThrOK`); `InScope`
      (tokenizer in set mode returns duplicate-free lists of < 2³² tokens; the RIGHT table of each call has < 2⁴⁰
      rows — so for transposition both tables); the pair is `NonStraddling` for every (operator, threshold)
      involved: raw and rounded similarity lie on the same side of the threshold,
        `Spec.qualStrict m op thr A B = Spec.qualRounded m op thr A B`;
      and (refinement, partition) the two token sets are not both empty.  For transposition empty-empty pairs ARE
      covered (they are accepted iff `allow_empty`, with score 1.0, in both calls);
    * overlap_join / overlap_coefficient_join: tokenizer in set mode duplicate-free, right table < 2⁴⁰ rows; the
      threshold is an int or finite float (`NumThr`) for the partition law, ints `k₁ ≤ k₂` (overlap) resp. floats
      `thr₁ ≤ thr₂ ≤ 1` (overlap coefficient) for refinement; no rounding, so no straddling hypothesis;
      overlap coefficient: refinement and partition exclude empty-empty pairs, transposition covers them;
    * edit distance: `tau = int(floor(threshold))`; the tokenizer is the q-gram tokenizer (`htok`, either padding
      mode — the hypothesis of `C03.exact`); right table < 2⁴⁰ rows.  The join is exact only up to the documented
      "no common q-gram" gap, which is symmetric and independent of threshold and operator, so the laws hold
      without further exclusion.
    * refinement is proved for the operators `>=` and `>` (resp. `<=` and `<`); for `=` it is false in general
      and not claimed.  Everything else (tables, other rows, `n_jobs`, CPU counts — the two calls of a transposition
      may even run with different CPU counts —, `allow_missing`, `out_sim_score`, output attributes, prefixes) is
      arbitrary.
  "The score meets the stricter threshold" is `compFn op score thr₂` (`compFn` = the generated COMP_OP_MAP) with
  `score` = `Spec.score4 m A B` (rounded similarity), `.int (interCount A B)`, `Spec.ovcScore A B`, resp.
  `Spec.qualED op tau₂ s s'` (for `<=`: `lev s s' ≤ tau₂`, `C03.comparison_meaning`).

  NOT COVERED: rows stemming from missing join values (C08); the other columns of the rows (C09/C10); a threshold
  passed as the Python int `1` to jaccard/cosine/dice; float thresholds of overlap_join in the refinement law;
  straddling pairs (for which the library's answer legitimately depends on which of raw/rounded is tested).
-/
import SSJ.Proofs.EntryLaws
import SSJ.Proofs.BodyOK
import SSJ.Props.C01
import SSJ.Props.C02
import SSJ.Props.C03

namespace SSJ.Props.C13
open SSJ SSJ.Props SSJ.EntryLaws

/-! ## vocabulary -/

/-- the result frame `fr` has a row naming the key pair `(kl, kr)` -/
def InResult (fr : Frame) (kl kr : Cell) : Prop := ∃ row ∈ fr.rows, rowKeys row = (kl, kr)

/-- every row of `fr` naming the key pair `(kl, kr)` carries the score cell `s` (its last cell) -/
def ScoreOf (fr : Frame) (kl kr : Cell) (s : Cell) : Prop :=
  ∀ row ∈ fr.rows, rowKeys row = (kl, kr) → rowScore row = s

/-- the rows of `fr` naming `(kl, kr)` and the rows of `fr'` naming `(kr, kl)` carry the same score cell -/
def SameScore (fr fr' : Frame) (kl kr : Cell) : Prop :=
  ∀ row ∈ fr.rows, ∀ row' ∈ fr'.rows, rowKeys row = (kl, kr) → rowKeys row' = (kr, kl) → rowScore row = rowScore row'

/-- the raw (double precision) and the rounded (4 decimals) similarity of the two token sets lie on the same side of
    the threshold `thr` under the comparison `op` -/
def NonStraddling (m : Measure) (op : String) (thr : Rat) (A B : List Tok) : Prop :=
  Spec.qualStrict m op (.float thr) A B = Spec.qualRounded m op (.float thr) A B

/-- the transformed calls, unfolded -/
example (a : JoinArgs) : a.swap =
    { a with ltable := a.rtable, rtable := a.ltable, lKey := a.rKey, rKey := a.lKey, lAttr := a.rAttr,
             rAttr := a.lAttr, lOut := a.rOut, rOut := a.lOut, lPre := a.rPre, rPre := a.lPre } := rfl
example (a : JoinArgs) (v : PyV) : a.withThreshold v = { a with threshold := v } := rfl
example (a : JoinArgs) (op : String) : a.withOp op = { a with compOp := op } := rfl
example (v : PyV) : NumThr v ↔ (∃ q : Rat, v = .float q) ∨ (∃ k : Int, v = .int k) := Iff.rfl

/-! ## jaccard / cosine / dice -/

section SetSim
variable (m : Measure) (a : JoinArgs) (t : TokObj) (toks : TokFn) (cpu : Int) (l r : Frame)

/-- PER-PAIR CHARACTERISATION (from `C01.setsim_complete` and `C02.setsim_sound_of_keys`): a pair of present rows, not
    both tokenizing to nothing and non-straddling, is in the result IFF its rounded similarity satisfies the
    comparison; and every result row naming it carries that rounded similarity as `_sim_score`. -/
theorem setsim_iff (hm : SetMeasure m) (hv : validateJoin m.name a t = .ok (l, r))
    (thr : Rat) (hthr : a.threshold = .float thr) (hok : ThrOK thr) (hs : InScope (toks true) r)
    (fr : Frame) (hres : (setSimJoinPy m a t toks cpu).result = .ok fr)
    (ls rs : Row) (hls : ls ∈ l.rows) (hrs : rs ∈ r.rows)
    (hpl : Present l a.lAttr ls) (hpr : Present r a.rAttr rs)
    (hne : Spec.bothEmpty (tokensOf (toks true) l a.lAttr ls) (tokensOf (toks true) r a.rAttr rs) = false)
    (hns : NonStraddling m a.compOp thr (tokensOf (toks true) l a.lAttr ls) (tokensOf (toks true) r a.rAttr rs)) :
    (InResult fr (keyOf l a.lKey ls) (keyOf r a.rKey rs) ↔
      Spec.qualRounded m a.compOp (.float thr) (tokensOf (toks true) l a.lAttr ls)
        (tokensOf (toks true) r a.rAttr rs) = true) ∧
    (a.outSimScore = true → ScoreOf fr (keyOf l a.lKey ls) (keyOf r a.rKey rs)
      (scoreCell (Spec.score4 m (tokensOf (toks true) l a.lAttr ls) (tokensOf (toks true) r a.rAttr rs)))) := by
  have hsound : ∀ row ∈ fr.rows, rowKeys row = (keyOf l a.lKey ls, keyOf r a.rKey rs) →
      Spec.qualRounded m a.compOp (.float thr) (tokensOf (toks true) l a.lAttr ls)
          (tokensOf (toks true) r a.rAttr rs) = true ∧
        (a.outSimScore = true → rowScore row = scoreCell (Spec.score4 m (tokensOf (toks true) l a.lAttr ls)
          (tokensOf (toks true) r a.rAttr rs))) := by
    intro row hrow hk
    rcases C02.setsim_sound_of_keys m a t toks cpu l r hv thr hthr hs fr hres row hrow ls hls rs hrs hpl hpr hk with
      ⟨he, -, -⟩ | ⟨-, hq, hsc⟩
    · rw [hne] at he; cases he
    · exact ⟨hq, hsc⟩
  refine ⟨⟨?_, ?_⟩, ?_⟩
  · rintro ⟨row, hrow, hk⟩
    exact (hsound row hrow hk).1
  · intro hq
    obtain ⟨fr', hres', row, hrow, hk, -⟩ := C01.setsim_complete m hm a t toks cpu l r hv thr hthr hok hs ls hls rs hrs
      hpl hpr hne (by rw [hns]; exact hq) (setSimJoinPy_bodyOK m a t toks cpu l r hv fr hres)
    rw [hres] at hres'
    cases Except.ok.inj hres'
    exact ⟨row, hrow, hk⟩
  · intro ho row hrow hk
    exact (hsound row hrow hk).2 ho

/-- OPERATOR PARTITION (jaccard / cosine / dice): for calls differing only in the operator, a pair (not both empty,
    non-straddling for the three operators) is in the `>=` result iff it is in the `>` result or in the `=` result,
    and it is never in both of these. -/
theorem partition_setsim (hm : SetMeasure m) (hv : validateJoin m.name (a.withOp ">=") t = .ok (l, r))
    (thr : Rat) (hthr : a.threshold = .float thr) (hok : ThrOK thr) (hs : InScope (toks true) r)
    (frGe frGt frEq : Frame)
    (hGe : (setSimJoinPy m (a.withOp ">=") t toks cpu).result = .ok frGe)
    (hGt : (setSimJoinPy m (a.withOp ">") t toks cpu).result = .ok frGt)
    (hEq : (setSimJoinPy m (a.withOp "=") t toks cpu).result = .ok frEq)
    (ls rs : Row) (hls : ls ∈ l.rows) (hrs : rs ∈ r.rows)
    (hpl : Present l a.lAttr ls) (hpr : Present r a.rAttr rs)
    (hne : Spec.bothEmpty (tokensOf (toks true) l a.lAttr ls) (tokensOf (toks true) r a.rAttr rs) = false)
    (hns : ∀ op ∈ [">=", ">", "="],
      NonStraddling m op thr (tokensOf (toks true) l a.lAttr ls) (tokensOf (toks true) r a.rAttr rs)) :
    (InResult frGe (keyOf l a.lKey ls) (keyOf r a.rKey rs) ↔
      InResult frGt (keyOf l a.lKey ls) (keyOf r a.rKey rs) ∨ InResult frEq (keyOf l a.lKey ls) (keyOf r a.rKey rs)) ∧
    ¬ (InResult frGt (keyOf l a.lKey ls) (keyOf r a.rKey rs) ∧ InResult frEq (keyOf l a.lKey ls) (keyOf r a.rKey rs)) := by
  have hne' := EntrySetSim.setMeasure_name_ne_ed hm
  have hvGt : validateJoin m.name (a.withOp ">") t = .ok (l, r) :=
    validateJoin_withOp _ (a.withOp ">=") t l r ">" hv (simOp_valid _ hne' _ (by decide))
  have hvEq : validateJoin m.name (a.withOp "=") t = .ok (l, r) :=
    validateJoin_withOp _ (a.withOp ">=") t l r "=" hv (simOp_valid _ hne' _ (by decide))
  have h1 := (setsim_iff m (a.withOp ">=") t toks cpu l r hm hv thr hthr hok hs frGe hGe ls rs hls hrs hpl hpr hne
    (hns _ (List.mem_of_elem_eq_true rfl))).1
  have h2 := (setsim_iff m (a.withOp ">") t toks cpu l r hm hvGt thr hthr hok hs frGt hGt ls rs hls hrs hpl hpr hne
    (hns _ (List.mem_of_elem_eq_true rfl))).1
  have h3 := (setsim_iff m (a.withOp "=") t toks cpu l r hm hvEq thr hthr hok hs frEq hEq ls rs hls hrs hpl hpr hne
    (hns _ (List.mem_of_elem_eq_true rfl))).1
  dsimp only [JoinArgs.withOp] at h1 h2 h3
  have hsplit := ge_split (Spec.score4 m (tokensOf (toks true) l a.lAttr ls) (tokensOf (toks true) r a.rAttr rs))
    (.float thr) (numThr_float thr)
  have hdis := gt_eq_disjoint (Spec.score4 m (tokensOf (toks true) l a.lAttr ls) (tokensOf (toks true) r a.rAttr rs))
    (.float thr) (numThr_float thr)
  constructor
  · rw [h1, h2, h3]
    show compFn ">=" _ _ = true ↔ compFn ">" _ _ = true ∨ compFn "=" _ _ = true
    rw [hsplit, Bool.or_eq_true]
  · rw [h2, h3]
    exact hdis

/-- THRESHOLD REFINEMENT (jaccard / cosine / dice; operator `>=` or `>`): for calls differing only in the threshold,
    `thr₁ ≤ thr₂`, a pair (not both empty, non-straddling for both thresholds) is in the stricter result `fr₂` iff it
    is in the laxer result `fr₁` and its reported score meets the stricter threshold; both results report the same
    score for it. -/
theorem refine_setsim (hm : SetMeasure m) (hop : a.compOp = ">=" ∨ a.compOp = ">")
    (thr₁ thr₂ : Rat) (h12 : thr₁ ≤ thr₂) (hok₁ : ThrOK thr₁) (hok₂ : ThrOK thr₂)
    (hv : validateJoin m.name (a.withThreshold (.float thr₁)) t = .ok (l, r)) (hs : InScope (toks true) r)
    (fr₁ fr₂ : Frame)
    (h₁ : (setSimJoinPy m (a.withThreshold (.float thr₁)) t toks cpu).result = .ok fr₁)
    (h₂ : (setSimJoinPy m (a.withThreshold (.float thr₂)) t toks cpu).result = .ok fr₂)
    (ls rs : Row) (hls : ls ∈ l.rows) (hrs : rs ∈ r.rows)
    (hpl : Present l a.lAttr ls) (hpr : Present r a.rAttr rs)
    (hne : Spec.bothEmpty (tokensOf (toks true) l a.lAttr ls) (tokensOf (toks true) r a.rAttr rs) = false)
    (hns₁ : NonStraddling m a.compOp thr₁ (tokensOf (toks true) l a.lAttr ls) (tokensOf (toks true) r a.rAttr rs))
    (hns₂ : NonStraddling m a.compOp thr₂ (tokensOf (toks true) l a.lAttr ls) (tokensOf (toks true) r a.rAttr rs)) :
    (InResult fr₂ (keyOf l a.lKey ls) (keyOf r a.rKey rs) ↔
      InResult fr₁ (keyOf l a.lKey ls) (keyOf r a.rKey rs) ∧
      compFn a.compOp (Spec.score4 m (tokensOf (toks true) l a.lAttr ls) (tokensOf (toks true) r a.rAttr rs))
        (.float thr₂) = true) ∧
    (a.outSimScore = true →
      ScoreOf fr₁ (keyOf l a.lKey ls) (keyOf r a.rKey rs)
        (scoreCell (Spec.score4 m (tokensOf (toks true) l a.lAttr ls) (tokensOf (toks true) r a.rAttr rs))) ∧
      ScoreOf fr₂ (keyOf l a.lKey ls) (keyOf r a.rKey rs)
        (scoreCell (Spec.score4 m (tokensOf (toks true) l a.lAttr ls) (tokensOf (toks true) r a.rAttr rs)))) := by
  have hv₂ : validateJoin m.name (a.withThreshold (.float thr₂)) t = .ok (l, r) :=
    validateJoin_withThreshold _ (a.withThreshold (.float thr₁)) t l r _ hv
      (unitThr_valid _ (setMeasure_unit hm) thr₂ (lt_of_lt_of_le (by positivity) hok₂.lo) hok₂.hi)
  have i₁ := setsim_iff m (a.withThreshold (.float thr₁)) t toks cpu l r hm hv thr₁ rfl hok₁ hs fr₁ h₁ ls rs hls hrs
    hpl hpr hne hns₁
  have i₂ := setsim_iff m (a.withThreshold (.float thr₂)) t toks cpu l r hm hv₂ thr₂ rfl hok₂ hs fr₂ h₂ ls rs hls hrs
    hpl hpr hne hns₂
  dsimp only [JoinArgs.withThreshold] at i₁ i₂
  refine ⟨?_, fun ho => ⟨i₁.2 ho, i₂.2 ho⟩⟩
  rw [i₁.1, i₂.1]
  constructor
  · intro h
    exact ⟨ge_mono_float _ hop _ _ _ h12 h, h⟩
  · exact fun h => h.2

/-- TRANSPOSITION (jaccard / cosine / dice): a pair (non-straddling unless both sides are empty) is in the result `fr`
    of the call with keys `(kl, kr)` iff it is in the result `fr'` of the swapped call with keys `(kr, kl)`, and the
    two rows carry identical score cells. -/
theorem transpose_setsim (hm : SetMeasure m) (hv : validateJoin m.name a t = .ok (l, r))
    (thr : Rat) (hthr : a.threshold = .float thr) (hok : ThrOK thr)
    (hsr : InScope (toks true) r) (hsl : InScope (toks true) l)
    (cpu' : Int) (fr fr' : Frame)
    (hres : (setSimJoinPy m a t toks cpu).result = .ok fr)
    (hres' : (setSimJoinPy m a.swap t toks cpu').result = .ok fr')
    (ls rs : Row) (hls : ls ∈ l.rows) (hrs : rs ∈ r.rows)
    (hpl : Present l a.lAttr ls) (hpr : Present r a.rAttr rs)
    (hns : Spec.bothEmpty (tokensOf (toks true) l a.lAttr ls) (tokensOf (toks true) r a.rAttr rs) = false →
      NonStraddling m a.compOp thr (tokensOf (toks true) l a.lAttr ls) (tokensOf (toks true) r a.rAttr rs)) :
    (InResult fr (keyOf l a.lKey ls) (keyOf r a.rKey rs) ↔ InResult fr' (keyOf r a.rKey rs) (keyOf l a.lKey ls)) ∧
    (a.outSimScore = true → SameScore fr fr' (keyOf l a.lKey ls) (keyOf r a.rKey rs)) := by
  have hv' : validateJoin m.name a.swap t = .ok (r, l) := validateJoin_swap _ a t l r hv
  cases he : Spec.bothEmpty (tokensOf (toks true) l a.lAttr ls) (tokensOf (toks true) r a.rAttr rs) with
  | true =>
    have he' : Spec.bothEmpty (tokensOf (toks true) r a.rAttr rs) (tokensOf (toks true) l a.lAttr ls) = true := by
      rw [bothEmpty_comm]; exact he
    have i₁ := EntrySetSim.both_empty_iff m a t toks cpu l r hv hsr fr hres ls hls rs hrs hpl hpr he
    have i₂ := EntrySetSim.both_empty_iff m a.swap t toks cpu' r l hv' hsl fr' hres' rs hrs ls hls hpr hpl he'
    dsimp only [JoinArgs.swap] at i₂
    refine ⟨i₁.trans i₂.symm, ?_⟩
    intro ho row hrow row' hrow' hk hk'
    rw [EntrySetSim.both_empty_score m a t toks cpu l r hv hsr fr hres ls hls rs hrs hpl hpr he row hrow hk ho,
      EntrySetSim.both_empty_score m a.swap t toks cpu' r l hv' hsl fr' hres' rs hrs ls hls hpr hpl he' row' hrow' hk' ho]
  | false =>
    have he' : Spec.bothEmpty (tokensOf (toks true) r a.rAttr rs) (tokensOf (toks true) l a.lAttr ls) = false := by
      rw [bothEmpty_comm]; exact he
    have hns' : NonStraddling m a.compOp thr (tokensOf (toks true) r a.rAttr rs) (tokensOf (toks true) l a.lAttr ls) := by
      have := hns he
      unfold NonStraddling at this ⊢
      rw [qualStrict_comm m hm, qualRounded_comm m hm]; exact this
    have i₁ := setsim_iff m a t toks cpu l r hm hv thr hthr hok hsr fr hres ls rs hls hrs hpl hpr he (hns he)
    have i₂ := setsim_iff m a.swap t toks cpu' r l hm hv' thr hthr hok hsl fr' hres' rs ls hrs hls hpr hpl he' hns'
    dsimp only [JoinArgs.swap] at i₂
    constructor
    · rw [i₁.1]
      refine Iff.trans ?_ i₂.1.symm
      rw [qualRounded_comm m hm]
    · intro ho row hrow row' hrow' hk hk'
      rw [i₁.2 ho row hrow hk, i₂.2 ho row' hrow' hk', score4_comm m hm]

end SetSim
/-! ## overlap_join -/

section Overlap
variable (a : JoinArgs) (t : TokObj) (toks : TokFn) (cpu : Int) (l r : Frame)

/-- PER-PAIR CHARACTERISATION (restating `C01.overlap_exact` for a given result frame): a pair of present rows is in
    the result iff its number of common tokens satisfies the comparison, and that number is its `_sim_score`. -/
theorem overlap_iff (f : OverlapFilterObj)
    (hf : mkOverlapFilter a.threshold a.compOp a.allowMissing t = .ok f)
    (hv : validateTablesAttrs a.toTableArgs = .ok (l, r)) (hk : validateOutAndKeys a.toTableArgs l r = .ok ())
    (hnd : ∀ s, (toks true s).Nodup) (hlen : r.rows.length < 2 ^ 40)
    (fr : Frame) (hres : (overlapJoinPy a t toks cpu).result = .ok fr)
    (ls rs : Row) (hls : ls ∈ l.rows) (hrs : rs ∈ r.rows)
    (hpl : Present l a.lAttr ls) (hpr : Present r a.rAttr rs) :
    (InResult fr (keyOf l a.lKey ls) (keyOf r a.rKey rs) ↔
      compFn a.compOp (.int (interCount (tokensOf (toks true) l a.lAttr ls) (tokensOf (toks true) r a.rAttr rs)))
        a.threshold = true) ∧
    (a.outSimScore = true → ScoreOf fr (keyOf l a.lKey ls) (keyOf r a.rKey rs)
      (.int (interCount (tokensOf (toks true) l a.lAttr ls) (tokensOf (toks true) r a.rAttr rs)))) := by
  obtain ⟨fr', hres', -, h⟩ := C01.overlap_exact a t toks cpu f l r hf hv hk hnd hlen
    (overlapJoinPy_bodyOK a t toks cpu l r hv fr hres)
  rw [hres] at hres'
  cases Except.ok.inj hres'
  exact h ls hls rs hrs hpl hpr

/-- OPERATOR PARTITION (overlap_join): in the `>=` result iff in the `>` result or in the `=` result, never in both. -/
theorem partition_overlap (f : OverlapFilterObj)
    (hf : mkOverlapFilter a.threshold ">=" a.allowMissing t = .ok f) (hnum : NumThr a.threshold)
    (hv : validateTablesAttrs a.toTableArgs = .ok (l, r)) (hk : validateOutAndKeys a.toTableArgs l r = .ok ())
    (hnd : ∀ s, (toks true s).Nodup) (hlen : r.rows.length < 2 ^ 40)
    (frGe frGt frEq : Frame)
    (hGe : (overlapJoinPy (a.withOp ">=") t toks cpu).result = .ok frGe)
    (hGt : (overlapJoinPy (a.withOp ">") t toks cpu).result = .ok frGt)
    (hEq : (overlapJoinPy (a.withOp "=") t toks cpu).result = .ok frEq)
    (ls rs : Row) (hls : ls ∈ l.rows) (hrs : rs ∈ r.rows)
    (hpl : Present l a.lAttr ls) (hpr : Present r a.rAttr rs) :
    (InResult frGe (keyOf l a.lKey ls) (keyOf r a.rKey rs) ↔
      InResult frGt (keyOf l a.lKey ls) (keyOf r a.rKey rs) ∨ InResult frEq (keyOf l a.lKey ls) (keyOf r a.rKey rs)) ∧
    ¬ (InResult frGt (keyOf l a.lKey ls) (keyOf r a.rKey rs) ∧ InResult frEq (keyOf l a.lKey ls) (keyOf r a.rKey rs)) := by
  have hfGt := mkOverlapFilter_withOp _ _ ">" _ _ _ hf (List.mem_of_elem_eq_true rfl)
  have hfEq := mkOverlapFilter_withOp _ _ "=" _ _ _ hf (List.mem_of_elem_eq_true rfl)
  have h1 := (overlap_iff (a.withOp ">=") t toks cpu l r f hf hv hk hnd hlen frGe hGe ls rs hls hrs hpl hpr).1
  have h2 := (overlap_iff (a.withOp ">") t toks cpu l r _ hfGt hv hk hnd hlen frGt hGt ls rs hls hrs hpl hpr).1
  have h3 := (overlap_iff (a.withOp "=") t toks cpu l r _ hfEq hv hk hnd hlen frEq hEq ls rs hls hrs hpl hpr).1
  dsimp only [JoinArgs.withOp] at h1 h2 h3
  constructor
  · rw [h1, h2, h3, ge_split _ _ hnum, Bool.or_eq_true]
  · rw [h2, h3]
    exact gt_eq_disjoint _ _ hnum

/-- THRESHOLD REFINEMENT (overlap_join; operator `>=` or `>`; int thresholds `k₁ ≤ k₂`): a pair is in the stricter
    result `fr₂` iff it is in the laxer result `fr₁` and its overlap meets `k₂`; same score in both. -/
theorem refine_overlap (hop : a.compOp = ">=" ∨ a.compOp = ">") (k₁ k₂ : Int) (h12 : k₁ ≤ k₂) (f : OverlapFilterObj)
    (hf : mkOverlapFilter (.int k₁) a.compOp a.allowMissing t = .ok f)
    (hv : validateTablesAttrs a.toTableArgs = .ok (l, r)) (hk : validateOutAndKeys a.toTableArgs l r = .ok ())
    (hnd : ∀ s, (toks true s).Nodup) (hlen : r.rows.length < 2 ^ 40)
    (fr₁ fr₂ : Frame)
    (h₁ : (overlapJoinPy (a.withThreshold (.int k₁)) t toks cpu).result = .ok fr₁)
    (h₂ : (overlapJoinPy (a.withThreshold (.int k₂)) t toks cpu).result = .ok fr₂)
    (ls rs : Row) (hls : ls ∈ l.rows) (hrs : rs ∈ r.rows)
    (hpl : Present l a.lAttr ls) (hpr : Present r a.rAttr rs) :
    (InResult fr₂ (keyOf l a.lKey ls) (keyOf r a.rKey rs) ↔
      InResult fr₁ (keyOf l a.lKey ls) (keyOf r a.rKey rs) ∧
      compFn a.compOp (.int (interCount (tokensOf (toks true) l a.lAttr ls) (tokensOf (toks true) r a.rAttr rs)))
        (.int k₂) = true) ∧
    (a.outSimScore = true →
      ScoreOf fr₁ (keyOf l a.lKey ls) (keyOf r a.rKey rs)
        (.int (interCount (tokensOf (toks true) l a.lAttr ls) (tokensOf (toks true) r a.rAttr rs))) ∧
      ScoreOf fr₂ (keyOf l a.lKey ls) (keyOf r a.rKey rs)
        (.int (interCount (tokensOf (toks true) l a.lAttr ls) (tokensOf (toks true) r a.rAttr rs)))) := by
  have hf₂ := mkOverlapFilter_withInt k₁ k₂ h12 _ _ _ _ hf
  have i₁ := overlap_iff (a.withThreshold (.int k₁)) t toks cpu l r f hf hv hk hnd hlen fr₁ h₁ ls rs hls hrs hpl hpr
  have i₂ := overlap_iff (a.withThreshold (.int k₂)) t toks cpu l r _ hf₂ hv hk hnd hlen fr₂ h₂ ls rs hls hrs hpl hpr
  dsimp only [JoinArgs.withThreshold] at i₁ i₂
  refine ⟨?_, fun ho => ⟨i₁.2 ho, i₂.2 ho⟩⟩
  rw [i₁.1, i₂.1]
  exact ⟨fun h => ⟨ge_mono_int _ hop _ _ _ h12 h, h⟩, fun h => h.2⟩

/-- TRANSPOSITION (overlap_join): same pairs with keys swapped, identical scores. -/
theorem transpose_overlap (f : OverlapFilterObj)
    (hf : mkOverlapFilter a.threshold a.compOp a.allowMissing t = .ok f)
    (hv : validateTablesAttrs a.toTableArgs = .ok (l, r)) (hk : validateOutAndKeys a.toTableArgs l r = .ok ())
    (hnd : ∀ s, (toks true s).Nodup) (hlenr : r.rows.length < 2 ^ 40) (hlenl : l.rows.length < 2 ^ 40)
    (cpu' : Int) (fr fr' : Frame)
    (hres : (overlapJoinPy a t toks cpu).result = .ok fr)
    (hres' : (overlapJoinPy a.swap t toks cpu').result = .ok fr')
    (ls rs : Row) (hls : ls ∈ l.rows) (hrs : rs ∈ r.rows)
    (hpl : Present l a.lAttr ls) (hpr : Present r a.rAttr rs) :
    (InResult fr (keyOf l a.lKey ls) (keyOf r a.rKey rs) ↔ InResult fr' (keyOf r a.rKey rs) (keyOf l a.lKey ls)) ∧
    (a.outSimScore = true → SameScore fr fr' (keyOf l a.lKey ls) (keyOf r a.rKey rs)) := by
  have i₁ := overlap_iff a t toks cpu l r f hf hv hk hnd hlenr fr hres ls rs hls hrs hpl hpr
  have i₂ := overlap_iff a.swap t toks cpu' r l f hf (validateTablesAttrs_swap a l r hv)
    (validateOutAndKeys_swap a l r hk) hnd hlenl fr' hres' rs ls hrs hls hpr hpl
  dsimp only [JoinArgs.swap] at i₂
  constructor
  · rw [i₁.1, i₂.1, interCount_comm]
  · intro ho row hrow row' hrow' hk hk'
    rw [i₁.2 ho row hrow hk, i₂.2 ho row' hrow' hk', interCount_comm]

end Overlap

/-! ## overlap_coefficient_join -/

section Ovc
variable (a : JoinArgs) (t : TokObj) (toks : TokFn) (cpu : Int) (l r : Frame)

/-- PER-PAIR CHARACTERISATION (restating `C01.ovc_exact` for a given result frame). -/
theorem ovc_iff (hv : validateJoin "OVERLAP_COEFFICIENT" a t = .ok (l, r))
    (hnd : ∀ s, (toks true s).Nodup) (hlen : r.rows.length < 2 ^ 40)
    (fr : Frame) (hres : (overlapCoefficientJoinPy a t toks cpu).result = .ok fr)
    (ls rs : Row) (hls : ls ∈ l.rows) (hrs : rs ∈ r.rows)
    (hpl : Present l a.lAttr ls) (hpr : Present r a.rAttr rs) :
    (InResult fr (keyOf l a.lKey ls) (keyOf r a.rKey rs) ↔
      ((Spec.bothEmpty (tokensOf (toks true) l a.lAttr ls) (tokensOf (toks true) r a.rAttr rs) = true ∧
          a.allowEmpty = true) ∨
        compFn a.compOp (Spec.ovcScore (tokensOf (toks true) l a.lAttr ls) (tokensOf (toks true) r a.rAttr rs))
          a.threshold = true)) ∧
    (a.outSimScore = true → ScoreOf fr (keyOf l a.lKey ls) (keyOf r a.rKey rs)
      (if Spec.bothEmpty (tokensOf (toks true) l a.lAttr ls) (tokensOf (toks true) r a.rAttr rs) then .flt 1
       else scoreCell (Spec.ovcScore (tokensOf (toks true) l a.lAttr ls) (tokensOf (toks true) r a.rAttr rs)))) := by
  obtain ⟨fr', hres', -, h⟩ := C01.ovc_exact a t toks cpu l r hv hnd hlen
    (overlapCoefficientJoinPy_bodyOK a t toks cpu l r hv fr hres)
  rw [hres] at hres'
  cases Except.ok.inj hres'
  exact h ls hls rs hrs hpl hpr

/-- OPERATOR PARTITION (overlap_coefficient_join; pairs not both empty): in the `>=` result iff in the `>` result or in
    the `=` result, never in both. -/
theorem partition_ovc (hv : validateJoin "OVERLAP_COEFFICIENT" (a.withOp ">=") t = .ok (l, r))
    (hnum : NumThr a.threshold)
    (hnd : ∀ s, (toks true s).Nodup) (hlen : r.rows.length < 2 ^ 40)
    (frGe frGt frEq : Frame)
    (hGe : (overlapCoefficientJoinPy (a.withOp ">=") t toks cpu).result = .ok frGe)
    (hGt : (overlapCoefficientJoinPy (a.withOp ">") t toks cpu).result = .ok frGt)
    (hEq : (overlapCoefficientJoinPy (a.withOp "=") t toks cpu).result = .ok frEq)
    (ls rs : Row) (hls : ls ∈ l.rows) (hrs : rs ∈ r.rows)
    (hpl : Present l a.lAttr ls) (hpr : Present r a.rAttr rs)
    (hne : Spec.bothEmpty (tokensOf (toks true) l a.lAttr ls) (tokensOf (toks true) r a.rAttr rs) = false) :
    (InResult frGe (keyOf l a.lKey ls) (keyOf r a.rKey rs) ↔
      InResult frGt (keyOf l a.lKey ls) (keyOf r a.rKey rs) ∨ InResult frEq (keyOf l a.lKey ls) (keyOf r a.rKey rs)) ∧
    ¬ (InResult frGt (keyOf l a.lKey ls) (keyOf r a.rKey rs) ∧ InResult frEq (keyOf l a.lKey ls) (keyOf r a.rKey rs)) := by
  have hvGt : validateJoin "OVERLAP_COEFFICIENT" (a.withOp ">") t = .ok (l, r) :=
    validateJoin_withOp _ (a.withOp ">=") t l r ">" hv (simOp_valid _ (by decide) _ (by decide))
  have hvEq : validateJoin "OVERLAP_COEFFICIENT" (a.withOp "=") t = .ok (l, r) :=
    validateJoin_withOp _ (a.withOp ">=") t l r "=" hv (simOp_valid _ (by decide) _ (by decide))
  have h1 := (ovc_iff (a.withOp ">=") t toks cpu l r hv hnd hlen frGe hGe ls rs hls hrs hpl hpr).1
  have h2 := (ovc_iff (a.withOp ">") t toks cpu l r hvGt hnd hlen frGt hGt ls rs hls hrs hpl hpr).1
  have h3 := (ovc_iff (a.withOp "=") t toks cpu l r hvEq hnd hlen frEq hEq ls rs hls hrs hpl hpr).1
  dsimp only [JoinArgs.withOp] at h1 h2 h3
  simp only [hne, Bool.false_eq_true, false_and, false_or] at h1 h2 h3
  constructor
  · rw [h1, h2, h3, ge_split _ _ hnum, Bool.or_eq_true]
  · rw [h2, h3]
    exact gt_eq_disjoint _ _ hnum

/-- THRESHOLD REFINEMENT (overlap_coefficient_join; operator `>=` or `>`; float thresholds `thr₁ ≤ thr₂ ≤ 1`; pairs
    not both empty): in the stricter result `fr₂` iff in the laxer result `fr₁` and the (unrounded) overlap
    coefficient meets `thr₂`; same score in both. -/
theorem refine_ovc (hop : a.compOp = ">=" ∨ a.compOp = ">") (thr₁ thr₂ : Rat) (h12 : thr₁ ≤ thr₂) (h2 : thr₂ ≤ 1)
    (hv : validateJoin "OVERLAP_COEFFICIENT" (a.withThreshold (.float thr₁)) t = .ok (l, r))
    (hnd : ∀ s, (toks true s).Nodup) (hlen : r.rows.length < 2 ^ 40)
    (fr₁ fr₂ : Frame)
    (h₁ : (overlapCoefficientJoinPy (a.withThreshold (.float thr₁)) t toks cpu).result = .ok fr₁)
    (h₂ : (overlapCoefficientJoinPy (a.withThreshold (.float thr₂)) t toks cpu).result = .ok fr₂)
    (ls rs : Row) (hls : ls ∈ l.rows) (hrs : rs ∈ r.rows)
    (hpl : Present l a.lAttr ls) (hpr : Present r a.rAttr rs)
    (hne : Spec.bothEmpty (tokensOf (toks true) l a.lAttr ls) (tokensOf (toks true) r a.rAttr rs) = false) :
    (InResult fr₂ (keyOf l a.lKey ls) (keyOf r a.rKey rs) ↔
      InResult fr₁ (keyOf l a.lKey ls) (keyOf r a.rKey rs) ∧
      compFn a.compOp (Spec.ovcScore (tokensOf (toks true) l a.lAttr ls) (tokensOf (toks true) r a.rAttr rs))
        (.float thr₂) = true) ∧
    (a.outSimScore = true →
      ScoreOf fr₁ (keyOf l a.lKey ls) (keyOf r a.rKey rs)
        (scoreCell (Spec.ovcScore (tokensOf (toks true) l a.lAttr ls) (tokensOf (toks true) r a.rAttr rs))) ∧
      ScoreOf fr₂ (keyOf l a.lKey ls) (keyOf r a.rKey rs)
        (scoreCell (Spec.ovcScore (tokensOf (toks true) l a.lAttr ls) (tokensOf (toks true) r a.rAttr rs)))) := by
  have hu : Gen.unitMeasure "OVERLAP_COEFFICIENT" := Or.inr (Or.inr (Or.inr rfl))
  have h0 : 0 < thr₁ := unitThr_pos _ hu thr₁ ((validateJoin_ok_iff _ _ t l r).1 hv).2.2.1
  have hv₂ : validateJoin "OVERLAP_COEFFICIENT" (a.withThreshold (.float thr₂)) t = .ok (l, r) :=
    validateJoin_withThreshold _ (a.withThreshold (.float thr₁)) t l r _ hv
      (unitThr_valid _ hu thr₂ (lt_of_lt_of_le h0 h12) h2)
  have i₁ := ovc_iff (a.withThreshold (.float thr₁)) t toks cpu l r hv hnd hlen fr₁ h₁ ls rs hls hrs hpl hpr
  have i₂ := ovc_iff (a.withThreshold (.float thr₂)) t toks cpu l r hv₂ hnd hlen fr₂ h₂ ls rs hls hrs hpl hpr
  dsimp only [JoinArgs.withThreshold] at i₁ i₂
  simp only [hne, Bool.false_eq_true, false_and, false_or, if_false] at i₁ i₂
  refine ⟨?_, fun ho => ⟨i₁.2 ho, i₂.2 ho⟩⟩
  rw [i₁.1, i₂.1]
  exact ⟨fun h => ⟨ge_mono_float _ hop _ _ _ h12 h, h⟩, fun h => h.2⟩

/-- TRANSPOSITION (overlap_coefficient_join; empty-empty pairs included): same pairs with keys swapped, identical
    scores. -/
theorem transpose_ovc (hv : validateJoin "OVERLAP_COEFFICIENT" a t = .ok (l, r))
    (hnd : ∀ s, (toks true s).Nodup) (hlenr : r.rows.length < 2 ^ 40) (hlenl : l.rows.length < 2 ^ 40)
    (cpu' : Int) (fr fr' : Frame)
    (hres : (overlapCoefficientJoinPy a t toks cpu).result = .ok fr)
    (hres' : (overlapCoefficientJoinPy a.swap t toks cpu').result = .ok fr')
    (ls rs : Row) (hls : ls ∈ l.rows) (hrs : rs ∈ r.rows)
    (hpl : Present l a.lAttr ls) (hpr : Present r a.rAttr rs) :
    (InResult fr (keyOf l a.lKey ls) (keyOf r a.rKey rs) ↔ InResult fr' (keyOf r a.rKey rs) (keyOf l a.lKey ls)) ∧
    (a.outSimScore = true → SameScore fr fr' (keyOf l a.lKey ls) (keyOf r a.rKey rs)) := by
  have i₁ := ovc_iff a t toks cpu l r hv hnd hlenr fr hres ls rs hls hrs hpl hpr
  have i₂ := ovc_iff a.swap t toks cpu' r l (validateJoin_swap _ a t l r hv) hnd hlenl fr' hres' rs ls hrs hls hpr hpl
  dsimp only [JoinArgs.swap] at i₂
  constructor
  · rw [i₁.1, i₂.1, bothEmpty_comm, ovcScore_comm]
  · intro ho row hrow row' hrow' hk hk'
    rw [i₁.2 ho row hrow hk, i₂.2 ho row' hrow' hk', bothEmpty_comm, ovcScore_comm]
    rfl

end Ovc

/-! ## edit_distance_join -/

section ED
open SSJ.Spec
variable (a : JoinArgs) (t : TokObj) (toks : TokFn) (cpu : Int) (l r : Frame)

/-- PER-PAIR CHARACTERISATION (`C03.exact` and `C03.sound_present`): with the q-gram tokenizer a pair of present rows
    is in the result iff its distance satisfies the comparison against `tau` and the strings share a q-gram; its
    `_sim_score` is the distance. -/
theorem ed_iff (tau : Int) (hv : validateJoin "EDIT_DISTANCE" a t = .ok (l, r))
    (htau : PyV.toInt (PyV.floor a.threshold) = .int tau) (hrows : r.rows.length < 2 ^ 40)
    (pad : Bool) (htok : ∀ s, toks false s = qgrams t.qval.toNat pad s)
    (fr : Frame) (hres : (editDistanceJoinPy a t toks cpu).result = .ok fr)
    (ls rs : Row) (hls : ls ∈ l.rows) (hrs : rs ∈ r.rows)
    (hpl : Present l a.lAttr ls) (hpr : Present r a.rAttr rs) :
    (InResult fr (keyOf l a.lKey ls) (keyOf r a.rKey rs) ↔
      qualED a.compOp tau (strOf l a.lAttr ls) (strOf r a.rAttr rs) = true ∧
      shareToken (qgrams t.qval.toNat pad) (strOf l a.lAttr ls) (strOf r a.rAttr rs) = true) ∧
    (a.outSimScore = true → ScoreOf fr (keyOf l a.lKey ls) (keyOf r a.rKey rs)
      (.int (lev (strOf l a.lAttr ls) (strOf r a.rAttr rs)))) :=
  ⟨C03.exact a t toks cpu l r fr tau hv htau hrows hres pad htok ls rs hls hrs hpl hpr,
   fun ho row hrow hk =>
    (C03.sound_present a t toks cpu l r fr tau hv htau hrows hres ls rs hls hrs hpl hpr row hrow hk).2.2 ho⟩

/-- OPERATOR PARTITION (edit_distance_join): in the `<=` result iff in the `<` result or in the `=` result, never in
    both. -/
theorem partition_ed (tau : Int) (hv : validateJoin "EDIT_DISTANCE" (a.withOp "<=") t = .ok (l, r))
    (htau : PyV.toInt (PyV.floor a.threshold) = .int tau) (hrows : r.rows.length < 2 ^ 40)
    (pad : Bool) (htok : ∀ s, toks false s = qgrams t.qval.toNat pad s)
    (frLe frLt frEq : Frame)
    (hLe : (editDistanceJoinPy (a.withOp "<=") t toks cpu).result = .ok frLe)
    (hLt : (editDistanceJoinPy (a.withOp "<") t toks cpu).result = .ok frLt)
    (hEq : (editDistanceJoinPy (a.withOp "=") t toks cpu).result = .ok frEq)
    (ls rs : Row) (hls : ls ∈ l.rows) (hrs : rs ∈ r.rows)
    (hpl : Present l a.lAttr ls) (hpr : Present r a.rAttr rs) :
    (InResult frLe (keyOf l a.lKey ls) (keyOf r a.rKey rs) ↔
      InResult frLt (keyOf l a.lKey ls) (keyOf r a.rKey rs) ∨ InResult frEq (keyOf l a.lKey ls) (keyOf r a.rKey rs)) ∧
    ¬ (InResult frLt (keyOf l a.lKey ls) (keyOf r a.rKey rs) ∧ InResult frEq (keyOf l a.lKey ls) (keyOf r a.rKey rs)) := by
  have hvLt : validateJoin "EDIT_DISTANCE" (a.withOp "<") t = .ok (l, r) :=
    validateJoin_withOp _ (a.withOp "<=") t l r "<" hv (edOp_valid _ (by decide))
  have hvEq : validateJoin "EDIT_DISTANCE" (a.withOp "=") t = .ok (l, r) :=
    validateJoin_withOp _ (a.withOp "<=") t l r "=" hv (edOp_valid _ (by decide))
  have h1 := (ed_iff (a.withOp "<=") t toks cpu l r tau hv htau hrows pad htok frLe hLe ls rs hls hrs hpl hpr).1
  have h2 := (ed_iff (a.withOp "<") t toks cpu l r tau hvLt htau hrows pad htok frLt hLt ls rs hls hrs hpl hpr).1
  have h3 := (ed_iff (a.withOp "=") t toks cpu l r tau hvEq htau hrows pad htok frEq hEq ls rs hls hrs hpl hpr).1
  dsimp only [JoinArgs.withOp] at h1 h2 h3
  have hsplit := le_split (.int (lev (strOf l a.lAttr ls) (strOf r a.rAttr rs))) (.int tau) (numThr_int tau)
  have hdis := lt_eq_disjoint (.int (lev (strOf l a.lAttr ls) (strOf r a.rAttr rs))) (.int tau) (numThr_int tau)
  constructor
  · rw [h1, h2, h3]
    unfold qualED
    rw [hsplit, Bool.or_eq_true]
    constructor
    · rintro ⟨h | h, hs⟩
      · exact Or.inl ⟨h, hs⟩
      · exact Or.inr ⟨h, hs⟩
    · rintro (⟨h, hs⟩ | ⟨h, hs⟩)
      · exact ⟨Or.inl h, hs⟩
      · exact ⟨Or.inr h, hs⟩
  · rw [h2, h3]
    rintro ⟨⟨hlt, -⟩, ⟨heq, -⟩⟩
    exact hdis ⟨hlt, heq⟩

/-- THRESHOLD REFINEMENT (edit_distance_join; operator `<=` or `<`; integral thresholds `tau₂ ≤ tau₁`): a pair is in the
    stricter result `fr₂` iff it is in the laxer result `fr₁` and its distance satisfies the comparison against
    `tau₂` (for `<=`: `lev s s' ≤ tau₂`); same score in both. -/
theorem refine_ed (hop : a.compOp = "<=" ∨ a.compOp = "<") (v₁ v₂ : PyV) (tau₁ tau₂ : Int)
    (htau₁ : PyV.toInt (PyV.floor v₁) = .int tau₁) (htau₂ : PyV.toInt (PyV.floor v₂) = .int tau₂) (h21 : tau₂ ≤ tau₁)
    (hv₁ : validateJoin "EDIT_DISTANCE" (a.withThreshold v₁) t = .ok (l, r))
    (hv₂ : validateJoin "EDIT_DISTANCE" (a.withThreshold v₂) t = .ok (l, r))
    (hrows : r.rows.length < 2 ^ 40)
    (pad : Bool) (htok : ∀ s, toks false s = qgrams t.qval.toNat pad s)
    (fr₁ fr₂ : Frame)
    (h₁ : (editDistanceJoinPy (a.withThreshold v₁) t toks cpu).result = .ok fr₁)
    (h₂ : (editDistanceJoinPy (a.withThreshold v₂) t toks cpu).result = .ok fr₂)
    (ls rs : Row) (hls : ls ∈ l.rows) (hrs : rs ∈ r.rows)
    (hpl : Present l a.lAttr ls) (hpr : Present r a.rAttr rs) :
    (InResult fr₂ (keyOf l a.lKey ls) (keyOf r a.rKey rs) ↔
      InResult fr₁ (keyOf l a.lKey ls) (keyOf r a.rKey rs) ∧
      qualED a.compOp tau₂ (strOf l a.lAttr ls) (strOf r a.rAttr rs) = true) ∧
    (a.outSimScore = true →
      ScoreOf fr₁ (keyOf l a.lKey ls) (keyOf r a.rKey rs) (.int (lev (strOf l a.lAttr ls) (strOf r a.rAttr rs))) ∧
      ScoreOf fr₂ (keyOf l a.lKey ls) (keyOf r a.rKey rs) (.int (lev (strOf l a.lAttr ls) (strOf r a.rAttr rs)))) := by
  have i₁ := ed_iff (a.withThreshold v₁) t toks cpu l r tau₁ hv₁ htau₁ hrows pad htok fr₁ h₁ ls rs hls hrs hpl hpr
  have i₂ := ed_iff (a.withThreshold v₂) t toks cpu l r tau₂ hv₂ htau₂ hrows pad htok fr₂ h₂ ls rs hls hrs hpl hpr
  dsimp only [JoinArgs.withThreshold] at i₁ i₂
  refine ⟨?_, fun ho => ⟨i₁.2 ho, i₂.2 ho⟩⟩
  rw [i₁.1, i₂.1]
  constructor
  · rintro ⟨hq, hs⟩
    exact ⟨⟨le_mono_int _ hop _ _ _ h21 hq, hs⟩, hq⟩
  · rintro ⟨⟨-, hs⟩, hq⟩
    exact ⟨hq, hs⟩

/-- TRANSPOSITION (edit_distance_join): same pairs with keys swapped, identical scores. -/
theorem transpose_ed (tau : Int) (hv : validateJoin "EDIT_DISTANCE" a t = .ok (l, r))
    (htau : PyV.toInt (PyV.floor a.threshold) = .int tau)
    (hrowsr : r.rows.length < 2 ^ 40) (hrowsl : l.rows.length < 2 ^ 40)
    (pad : Bool) (htok : ∀ s, toks false s = qgrams t.qval.toNat pad s)
    (cpu' : Int) (fr fr' : Frame)
    (hres : (editDistanceJoinPy a t toks cpu).result = .ok fr)
    (hres' : (editDistanceJoinPy a.swap t toks cpu').result = .ok fr')
    (ls rs : Row) (hls : ls ∈ l.rows) (hrs : rs ∈ r.rows)
    (hpl : Present l a.lAttr ls) (hpr : Present r a.rAttr rs) :
    (InResult fr (keyOf l a.lKey ls) (keyOf r a.rKey rs) ↔ InResult fr' (keyOf r a.rKey rs) (keyOf l a.lKey ls)) ∧
    (a.outSimScore = true → SameScore fr fr' (keyOf l a.lKey ls) (keyOf r a.rKey rs)) := by
  have i₁ := ed_iff a t toks cpu l r tau hv htau hrowsr pad htok fr hres ls rs hls hrs hpl hpr
  have i₂ := ed_iff a.swap t toks cpu' r l tau (validateJoin_swap _ a t l r hv) htau hrowsl pad htok fr' hres'
    rs ls hrs hls hpr hpl
  dsimp only [JoinArgs.swap] at i₂
  constructor
  · rw [i₁.1, i₂.1, qualED_comm, shareToken_comm]
  · intro ho row hrow row' hrow' hk hk'
    rw [i₁.2 ho row hrow hk, i₂.2 ho row' hrow' hk', lev_comm]

end ED

/-! ## non-vacuity: the hypotheses of every law are satisfiable by a concrete, non-trivial call -/

/-! jaccard: the request of `EntrySetSim.Ex` (see `Props/C01`): left rows (1,"ab") (2,"") (3,NaN) (4,"x"), right rows
    (7,"abc") (8,"") (9,NaN), threshold 0.5, `allow_missing`, 2 jobs on 4 CPUs.  The pair ((1,"ab"), (7,"abc")) has
    Jaccard similarity the double nearest 2/3, which is above 0.6 both raw and rounded — hence `NonStraddling` for
    every operator and every threshold up to 0.6 (`EntryLaws.Ex.exNonStraddling`). -/
section ExSetSim
open EntrySetSim.Ex

theorem exNS (op : String) (hop : op ∈ [">=", ">", "="]) (thr : Rat) (hthr : thr ≤ 3 / 5) :
    NonStraddling .jaccard op thr (tokensOf (exToks true) exL exArgs.lAttr exLs)
      (tokensOf (exToks true) exR exArgs.rAttr exRs) := by
  unfold NonStraddling
  rw [exLs_tokens, exRs_tokens]
  exact EntryLaws.Ex.exNonStraddling op hop thr hthr

example (frGe frGt frEq : Frame)
    (hGe : (setSimJoinPy .jaccard (exArgs.withOp ">=") {} exToks 4).result = .ok frGe)
    (hGt : (setSimJoinPy .jaccard (exArgs.withOp ">") {} exToks 4).result = .ok frGt)
    (hEq : (setSimJoinPy .jaccard (exArgs.withOp "=") {} exToks 4).result = .ok frEq) :
    (InResult frGe (.int 1) (.int 7) ↔ InResult frGt (.int 1) (.int 7) ∨ InResult frEq (.int 1) (.int 7)) ∧
    ¬ (InResult frGt (.int 1) (.int 7) ∧ InResult frEq (.int 1) (.int 7)) :=
  partition_setsim .jaccard exArgs {} exToks 4 exL exR (Or.inl rfl) exValid (1 / 2) rfl exThr exScope frGe frGt frEq
    hGe hGt hEq exLs exRs exLs_mem exRs_mem exLs_present exRs_present exPair_nonempty
    (fun op hop => exNS op hop _ (by norm_num))

theorem exThr' : ThrOK (3 / 5) := ⟨by norm_num, by norm_num⟩

example (fr₁ fr₂ : Frame)
    (h₁ : (setSimJoinPy .jaccard (exArgs.withThreshold (.float (1 / 2))) {} exToks 4).result = .ok fr₁)
    (h₂ : (setSimJoinPy .jaccard (exArgs.withThreshold (.float (3 / 5))) {} exToks 4).result = .ok fr₂) :
    (InResult fr₂ (.int 1) (.int 7) ↔ InResult fr₁ (.int 1) (.int 7) ∧
      compFn ">=" (Spec.score4 .jaccard ["a", "b"] ["a", "b", "c"]) (.float (3 / 5)) = true) := by
  have h := (refine_setsim .jaccard exArgs {} exToks 4 exL exR (Or.inl rfl) (Or.inl rfl) (1 / 2) (3 / 5) (by norm_num)
    exThr exThr' exValid exScope fr₁ fr₂ h₁ h₂ exLs exRs exLs_mem exRs_mem exLs_present exRs_present exPair_nonempty
    (exNS _ (by decide) _ (by norm_num)) (exNS _ (by decide) _ (by norm_num))).1
  rw [exLs_tokens, exRs_tokens] at h
  exact h

example (fr fr' : Frame)
    (h : (setSimJoinPy .jaccard exArgs {} exToks 4).result = .ok fr)
    (h' : (setSimJoinPy .jaccard exArgs.swap {} exToks 4).result = .ok fr') :
    (InResult fr (.int 1) (.int 7) ↔ InResult fr' (.int 7) (.int 1)) ∧ SameScore fr fr' (.int 1) (.int 7) := by
  have := transpose_setsim .jaccard exArgs {} exToks 4 exL exR (Or.inl rfl) exValid (1 / 2) rfl exThr exScope
    EntryLaws.Ex.exScopeL 4 fr fr' h h' exLs exRs exLs_mem exRs_mem exLs_present exRs_present
    (fun _ => exNS _ (by decide) _ (by norm_num))
  exact ⟨this.1, this.2 rfl⟩


/-- all calls related by the three laws return frames (so the hypotheses `… .result = .ok fr` are satisfiable) -/
example :
    (∃ fr, (setSimJoinPy .jaccard (exArgs.withOp ">") {} exToks 4).result = .ok fr) ∧
    (∃ fr, (setSimJoinPy .jaccard (exArgs.withOp "=") {} exToks 4).result = .ok fr) ∧
    (∃ fr, (setSimJoinPy .jaccard (exArgs.withThreshold (.float (3 / 5))) {} exToks 4).result = .ok fr) ∧
    (∃ fr, (setSimJoinPy .jaccard exArgs.swap {} exToks 4).result = .ok fr) :=
  ⟨C01.setsim_returns _ _ _ _ _ exL exR (validateJoin_withOp _ exArgs {} exL exR ">" exValid (by decide))
     (by decide +kernel),
   C01.setsim_returns _ _ _ _ _ exL exR (validateJoin_withOp _ exArgs {} exL exR "=" exValid (by decide))
     (by decide +kernel),
   C01.setsim_returns _ _ _ _ _ exL exR (validateJoin_withThreshold _ exArgs {} exL exR _ exValid
     (unitThr_valid _ (Or.inl rfl) _ (by norm_num) (by norm_num))) (by decide +kernel),
   C01.setsim_returns _ _ _ _ _ exR exL (validateJoin_swap _ exArgs {} exL exR exValid) (by decide +kernel)⟩

/-- … and the laws speak about something: the pair (1, 7) IS in the result of the fixture's call, hence (by
    transposition) the pair (7, 1) is in the result of the swapped call -/
example (fr fr' : Frame)
    (h : (setSimJoinPy .jaccard exArgs {} exToks 4).result = .ok fr)
    (h' : (setSimJoinPy .jaccard exArgs.swap {} exToks 4).result = .ok fr') :
    InResult fr (.int 1) (.int 7) ∧ InResult fr' (.int 7) (.int 1) := by
  have hin : InResult fr (.int 1) (.int 7) := by
    refine (setsim_iff .jaccard exArgs {} exToks 4 exL exR (Or.inl rfl) exValid (1 / 2) rfl exThr exScope fr h
      exLs exRs exLs_mem exRs_mem exLs_present exRs_present exPair_nonempty (exNS _ (by decide) _ (by norm_num))).1.2 ?_
    rw [exLs_tokens, exRs_tokens]
    exact EntryLaws.Ex.exQualRounded _ (by norm_num)
  exact ⟨hin, (transpose_setsim .jaccard exArgs {} exToks 4 exL exR (Or.inl rfl) exValid (1 / 2) rfl exThr exScope
    EntryLaws.Ex.exScopeL 4 fr fr' h h' exLs exRs exLs_mem exRs_mem exLs_present exRs_present
    (fun _ => exNS _ (by decide) _ (by norm_num))).1.1 hin⟩
end ExSetSim

/-! overlap / overlap coefficient: the request of `C01.Example` (left rows (1,"a b") (2,"") (3,NaN), right rows
    (7,"b c") (8,"") (9,"b"), threshold 1); pair ((1,"a b"), (9,"b")), and the empty-empty pair (2, 8). -/
section ExExact
open C01.Example

example (frGe frGt frEq : Frame)
    (hGe : (overlapJoinPy (A.withOp ">=") {} tk 1).result = .ok frGe)
    (hGt : (overlapJoinPy (A.withOp ">") {} tk 1).result = .ok frGt)
    (hEq : (overlapJoinPy (A.withOp "=") {} tk 1).result = .ok frEq) :
    (InResult frGe (.int 1) (.int 9) ↔ InResult frGt (.int 1) (.int 9) ∨ InResult frEq (.int 1) (.int 9)) ∧
    ¬ (InResult frGt (.int 1) (.int 9) ∧ InResult frEq (.int 1) (.int 9)) :=
  partition_overlap A {} tk 1 L R F rfl (numThr_int 1) (by decide) (by decide) tk_nodup (by decide) frGe frGt frEq
    hGe hGt hEq [.int 1, .str "a b"] [.int 9, .str "b"] (by decide) (by decide) rfl rfl

example (fr₁ fr₂ : Frame)
    (h₁ : (overlapJoinPy (A.withThreshold (.int 1)) {} tk 1).result = .ok fr₁)
    (h₂ : (overlapJoinPy (A.withThreshold (.int 2)) {} tk 1).result = .ok fr₂) :
    (InResult fr₂ (.int 1) (.int 9) ↔ InResult fr₁ (.int 1) (.int 9) ∧
      compFn ">=" (.int (interCount ["a", "b"] ["b"])) (.int 2) = true) :=
  (refine_overlap A {} tk 1 L R (Or.inl rfl) 1 2 (by decide) F rfl (by decide) (by decide) tk_nodup (by decide)
    fr₁ fr₂ h₁ h₂ [.int 1, .str "a b"] [.int 9, .str "b"] (by decide) (by decide) rfl rfl).1

example (fr fr' : Frame)
    (h : (overlapJoinPy A {} tk 1).result = .ok fr) (h' : (overlapJoinPy A.swap {} tk 1).result = .ok fr') :
    (InResult fr (.int 1) (.int 9) ↔ InResult fr' (.int 9) (.int 1)) ∧ SameScore fr fr' (.int 1) (.int 9) := by
  have := transpose_overlap A {} tk 1 L R F rfl (by decide) (by decide) tk_nodup (by decide) (by decide) 1 fr fr' h h'
    [.int 1, .str "a b"] [.int 9, .str "b"] (by decide) (by decide) rfl rfl
  exact ⟨this.1, this.2 rfl⟩

/-- the overlap-coefficient call of the fixture with float threshold 0.5 is valid -/
theorem exOvcValid : validateJoin "OVERLAP_COEFFICIENT" (A.withThreshold (.float (1 / 2))) {} = .ok (L, R) :=
  validateJoin_withThreshold _ A {} L R _ (by decide)
    (unitThr_valid _ (Or.inr (Or.inr (Or.inr rfl))) _ (by norm_num) (by norm_num))

example (frGe frGt frEq : Frame)
    (hGe : (overlapCoefficientJoinPy (A.withOp ">=") {} tk 1).result = .ok frGe)
    (hGt : (overlapCoefficientJoinPy (A.withOp ">") {} tk 1).result = .ok frGt)
    (hEq : (overlapCoefficientJoinPy (A.withOp "=") {} tk 1).result = .ok frEq) :
    (InResult frGe (.int 1) (.int 9) ↔ InResult frGt (.int 1) (.int 9) ∨ InResult frEq (.int 1) (.int 9)) ∧
    ¬ (InResult frGt (.int 1) (.int 9) ∧ InResult frEq (.int 1) (.int 9)) :=
  partition_ovc A {} tk 1 L R (by decide) (numThr_int 1) tk_nodup (by decide) frGe frGt frEq
    hGe hGt hEq [.int 1, .str "a b"] [.int 9, .str "b"] (by decide) (by decide) rfl rfl (by decide)

example (fr₁ fr₂ : Frame)
    (h₁ : (overlapCoefficientJoinPy (A.withThreshold (.float (1 / 2))) {} tk 1).result = .ok fr₁)
    (h₂ : (overlapCoefficientJoinPy (A.withThreshold (.float 1)) {} tk 1).result = .ok fr₂) :
    (InResult fr₂ (.int 1) (.int 9) ↔ InResult fr₁ (.int 1) (.int 9) ∧
      compFn ">=" (Spec.ovcScore ["a", "b"] ["b"]) (.float 1) = true) :=
  (refine_ovc A {} tk 1 L R (Or.inl rfl) (1 / 2) 1 (by norm_num) le_rfl exOvcValid tk_nodup (by decide)
    fr₁ fr₂ h₁ h₂ [.int 1, .str "a b"] [.int 9, .str "b"] (by decide) (by decide) rfl rfl (by decide)).1

example (fr fr' : Frame)
    (h : (overlapCoefficientJoinPy A {} tk 1).result = .ok fr)
    (h' : (overlapCoefficientJoinPy A.swap {} tk 1).result = .ok fr') :
    (InResult fr (.int 2) (.int 8) ↔ InResult fr' (.int 8) (.int 2)) ∧ SameScore fr fr' (.int 2) (.int 8) := by
  have := transpose_ovc A {} tk 1 L R (by decide) tk_nodup (by decide) (by decide) 1 fr fr' h h'
    [.int 2, .str ""] [.int 8, .str ""] (by decide) (by decide) rfl rfl
  exact ⟨this.1, this.2 rfl⟩

/-- all calls related by the three laws return frames -/
example :
    (∃ fr, (overlapJoinPy (A.withOp ">") {} tk 1).result = .ok fr) ∧
    (∃ fr, (overlapJoinPy (A.withThreshold (.int 2)) {} tk 1).result = .ok fr) ∧
    (∃ fr, (overlapJoinPy A.swap {} tk 1).result = .ok fr) ∧
    (∃ fr, (overlapCoefficientJoinPy (A.withOp "=") {} tk 1).result = .ok fr) ∧
    (∃ fr, (overlapCoefficientJoinPy (A.withThreshold (.float (1 / 2))) {} tk 1).result = .ok fr) ∧
    (∃ fr, (overlapCoefficientJoinPy A.swap {} tk 1).result = .ok fr) := by
  refine ⟨?_, ?_, ?_, ?_, ?_, ?_⟩
  · obtain ⟨fr, h, -⟩ := C01.overlap_exact (A.withOp ">") {} tk 1 _ L R
      (mkOverlapFilter_withOp _ ">=" ">" _ _ F rfl (by decide)) (by decide) (by decide) tk_nodup (by decide)
      (by decide +kernel)
    exact ⟨fr, h⟩
  · obtain ⟨fr, h, -⟩ := C01.overlap_exact (A.withThreshold (.int 2)) {} tk 1 _ L R
      (mkOverlapFilter_withInt 1 2 (by decide) _ _ _ F rfl) (by decide) (by decide) tk_nodup (by decide)
      (by decide +kernel)
    exact ⟨fr, h⟩
  · obtain ⟨fr, h, -⟩ := C01.overlap_exact A.swap {} tk 1 F R L rfl (validateTablesAttrs_swap A L R (by decide))
      (validateOutAndKeys_swap A L R (by decide)) tk_nodup (by decide) (by decide +kernel)
    exact ⟨fr, h⟩
  · obtain ⟨fr, h, -⟩ := C01.ovc_exact (A.withOp "=") {} tk 1 L R
      (validateJoin_withOp _ A {} L R "=" (by decide) (by decide)) tk_nodup (by decide) (by decide +kernel)
    exact ⟨fr, h⟩
  · obtain ⟨fr, h, -⟩ := C01.ovc_exact (A.withThreshold (.float (1 / 2))) {} tk 1 L R exOvcValid tk_nodup (by decide)
      (by decide +kernel)
    exact ⟨fr, h⟩
  · obtain ⟨fr, h, -⟩ := C01.ovc_exact A.swap {} tk 1 R L (validateJoin_swap _ A {} L R (by decide)) tk_nodup
      (by decide) (by decide +kernel)
    exact ⟨fr, h⟩
end ExExact

/-! edit distance: the request of `C03` (left (1,"abc") (2,NaN), right (7,"abd") (8,"xyz"), threshold 1.5, `<=`,
    padded 2-grams, 2 jobs); pair ("abc", "abd") at distance 1. -/
section ExED

theorem exTok : ∀ s, C03.exToks false s = qgrams C03.exT.qval.toNat true s := fun _ => rfl

example (frLe frLt frEq : Frame)
    (hLe : (editDistanceJoinPy (C03.exA.withOp "<=") C03.exT C03.exToks 4).result = .ok frLe)
    (hLt : (editDistanceJoinPy (C03.exA.withOp "<") C03.exT C03.exToks 4).result = .ok frLt)
    (hEq : (editDistanceJoinPy (C03.exA.withOp "=") C03.exT C03.exToks 4).result = .ok frEq) :
    (InResult frLe (.int 1) (.int 7) ↔ InResult frLt (.int 1) (.int 7) ∨ InResult frEq (.int 1) (.int 7)) ∧
    ¬ (InResult frLt (.int 1) (.int 7) ∧ InResult frEq (.int 1) (.int 7)) :=
  partition_ed C03.exA C03.exT C03.exToks 4 C03.exL C03.exR 1 C03.ex_valid C03.ex_tau (by decide) true exTok frLe frLt frEq hLe hLt hEq
    [.int 1, .str "abc"] [.int 7, .str "abd"] (by decide) (by decide)
    (by unfold Present; decide) (by unfold Present; decide)

theorem exValid0 : validateJoin "EDIT_DISTANCE" (C03.exA.withThreshold (.int 0)) C03.exT = .ok (C03.exL, C03.exR) :=
  validateJoin_withThreshold _ C03.exA C03.exT C03.exL C03.exR _ C03.ex_valid (by rw [Ne, Gen.validate_threshold_ed]; norm_num)

example (fr₁ fr₂ : Frame)
    (h₁ : (editDistanceJoinPy (C03.exA.withThreshold (.float (3 / 2))) C03.exT C03.exToks 4).result = .ok fr₁)
    (h₂ : (editDistanceJoinPy (C03.exA.withThreshold (.int 0)) C03.exT C03.exToks 4).result = .ok fr₂) :
    (InResult fr₂ (.int 1) (.int 7) ↔ InResult fr₁ (.int 1) (.int 7) ∧ Spec.qualED "<=" 0 "abc" "abd" = true) :=
  (refine_ed C03.exA C03.exT C03.exToks 4 C03.exL C03.exR (Or.inl rfl) (.float (3 / 2)) (.int 0) 1 0 C03.ex_tau rfl (by decide)
    C03.ex_valid exValid0 (by decide) true exTok fr₁ fr₂ h₁ h₂
    [.int 1, .str "abc"] [.int 7, .str "abd"] (by decide) (by decide)
    (by unfold Present; decide) (by unfold Present; decide)).1

example (fr fr' : Frame)
    (h : (editDistanceJoinPy C03.exA C03.exT C03.exToks 4).result = .ok fr)
    (h' : (editDistanceJoinPy C03.exA.swap C03.exT C03.exToks 4).result = .ok fr') :
    (InResult fr (.int 1) (.int 7) ↔ InResult fr' (.int 7) (.int 1)) ∧ SameScore fr fr' (.int 1) (.int 7) := by
  have := transpose_ed C03.exA C03.exT C03.exToks 4 C03.exL C03.exR 1 C03.ex_valid C03.ex_tau (by decide) (by decide) true exTok 4 fr fr' h h'
    [.int 1, .str "abc"] [.int 7, .str "abd"] (by decide) (by decide)
    (by unfold Present; decide) (by unfold Present; decide)
  exact ⟨this.1, this.2 rfl⟩

/-- all calls related by the three laws return frames -/
example :
    (∃ fr, (editDistanceJoinPy (C03.exA.withOp "<") C03.exT C03.exToks 4).result = .ok fr) ∧
    (∃ fr, (editDistanceJoinPy (C03.exA.withThreshold (.int 0)) C03.exT C03.exToks 4).result = .ok fr) ∧
    (∃ fr, (editDistanceJoinPy C03.exA.swap C03.exT C03.exToks 4).result = .ok fr) :=
  ⟨C03.returns_frame _ _ _ _ C03.exL C03.exR 1
     (validateJoin_withOp _ C03.exA C03.exT C03.exL C03.exR "<" C03.ex_valid (edOp_valid _ (by decide))) C03.ex_tau
     (by decide +kernel),
   C03.returns_frame _ _ _ _ C03.exL C03.exR 0 exValid0 rfl (by decide +kernel),
   C03.returns_frame _ _ _ _ C03.exR C03.exL 1 (validateJoin_swap _ C03.exA C03.exT C03.exL C03.exR C03.ex_valid)
     C03.ex_tau (by decide +kernel)⟩
end ExED

section AxiomCheck
#print axioms setsim_iff
#print axioms partition_setsim
#print axioms refine_setsim
#print axioms transpose_setsim
#print axioms overlap_iff
#print axioms partition_overlap
#print axioms refine_overlap
#print axioms transpose_overlap
#print axioms ovc_iff
#print axioms partition_ovc
#print axioms refine_ovc
#print axioms transpose_ovc
#print axioms ed_iff
#print axioms partition_ed
#print axioms refine_ed
#print axioms transpose_ed
end AxiomCheck

end SSJ.Props.C13

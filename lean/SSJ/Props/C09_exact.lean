/-
  C09 (exact joins) — empty token sets in `overlap_join` and `overlap_coefficient_join`.

  Property C09 (these joins): "a both-empty pair is returned by the overlap-coefficient join (score 1.0) iff allow_empty;
  such a pair is never returned by overlap_join; a pair with exactly one empty side is never returned."

  Model functions: `overlapJoinPy a t toks cpu` (= `overlap_join_py`: OverlapFilter constructed from the arguments, then
  `OverlapFilter.filter_tables` with the tokenizer in set mode) and `overlapCoefficientJoinPy a t toks cpu` of
  `SSJ/Model/Frame.lean`; DataFrame in, DataFrame out.

  Hypotheses (the same in every theorem):
  * the call's arguments are valid —
      overlap_join:             `mkOverlapFilter a.threshold a.compOp a.allowMissing t = .ok f` (tokenizer object, threshold > 0,
                                operator in {>=, >, =}), `validateTablesAttrs a.toTableArgs = .ok (l, r)` (tables, key and join
                                columns, string dtype) and `validateOutAndKeys a.toTableArgs l r = .ok ()` (output columns
                                exist, keys unique and present);
      overlap_coefficient_join: `validateJoin "OVERLAP_COEFFICIENT" a t = .ok (l, r)` (all of the above, threshold in (0,1]);
  * the tokenizer in set mode returns duplicate-free token lists (`∀ s, (toks true s).Nodup`); no bound on their length;
  * the right table has fewer than 2^40 rows (under which `split_table`'s float arithmetic provably partitions it).
  Everything else is arbitrary: the tables and whatever other rows they contain, the tokenizer function, threshold,
  operator, `allow_empty`, `allow_missing`, output attributes, prefixes, `out_sim_score`, `n_jobs`, the CPU count.

  Vocabulary (`SSJ/Props/Common.lean`): a result row is `_id :: left key :: right key :: …`; `rowKeys row` are its two key
  cells, `rowScore row` its last cell; `keyOf`/`valOf` are the key / join cell of a source row, `Present` says the join
  value is not None/NaN, `tokensOf (toks true) l a.lAttr ls` is the token list of the row's join value.
  `interCount A B` is `|set(A) ∩ set(B)|`; `Spec.ovcScore A B` is `float(|A∩B|) / min(|A|,|B|)` in double precision, NOT
  rounded; `Spec.bothEmpty A B` says both token lists are empty; `compFn op x thr` is `COMP_OP_MAP[op](x, thr)`.

  All theorems are about a pair of source rows `ls ∈ l.rows`, `rs ∈ r.rows` with PRESENT join values (an empty token set
  arises from a present value such as the empty string; missing values are C08) and say whether the result contains a
  row with that pair's keys.

  NOT covered here: jaccard / cosine / dice (files C01.lean, C02.lean, C09.lean); the rows produced for missing join values
  are only located (they name existing rows, appear only with `allow_missing`, carry a missing score) — their exact list
  is property C08; the restoration of the tokenizer flag is C12; rejected calls are C15.
-/
import SSJ.Proofs.EntryExact

namespace SSJ.Props.C09
open SSJ SSJ.Props

/-- (C09, overlap_coefficient_join) a pair of two empty token sets is returned iff `allow_empty`; when returned with
    `out_sim_score`, its score is 1.0. -/
theorem ovc_both_empty_iff (a : JoinArgs) (t : TokObj) (toks : TokFn) (cpu : Int) (l r : Frame)
    (hv : validateJoin "OVERLAP_COEFFICIENT" a t = .ok (l, r))
    (hnd : ∀ s, (toks true s).Nodup) (hlen : r.rows.length < 2 ^ 40)
    (fr : Frame) (hfr : (overlapCoefficientJoinPy a t toks cpu).result = .ok fr)
    (ls : Row) (hls : ls ∈ l.rows) (rs : Row) (hrs : rs ∈ r.rows)
    (hpl : Present l a.lAttr ls) (hpr : Present r a.rAttr rs)
    (he : Spec.bothEmpty (tokensOf (toks true) l a.lAttr ls) (tokensOf (toks true) r a.rAttr rs) = true) :
    ((∃ row ∈ fr.rows, rowKeys row = (keyOf l a.lKey ls, keyOf r a.rKey rs)) ↔ a.allowEmpty = true) ∧
    (a.outSimScore = true → ∀ row ∈ fr.rows, rowKeys row = (keyOf l a.lKey ls, keyOf r a.rKey rs) →
      rowScore row = .flt 1) := by
  have hd := EX.overlapCoefficientJoinPy_described_of_ok a t toks cpu l r hnd hv hlen fr hfr
  obtain ⟨hkl, hkr⟩ := validateOutAndKeys_of_validateJoin _ a t l r hv
  obtain ⟨hthr, hop⟩ := EX.ovc_valid_thr_op a t l r hv
  constructor
  · rw [hd.iff hkl hkr ls hls rs hrs hpl hpr, EX.POvc_exists_iff _ _ _ (toks true) _ _ hop hthr]
    constructor
    · rintro (⟨_, h⟩ | h)
      · exact h
      · have hf := EX.ovc_no_common_false a t l r hv _ _ (EX.bothEmpty_interCount _ _ he)
        exact absurd (hf.symm.trans h) (by decide)
    · intro h
      exact Or.inl ⟨he, h⟩
  · intro ho row hrow hkeys
    obtain ⟨s, hs, hsc⟩ := hd.of_keys hkl hkr ls hls rs hrs hpl hpr row hrow hkeys
    rw [hsc ho, EX.POvc_score _ _ _ _ _ _ _ hs]
    exact if_pos he

/-- (C09, overlap_coefficient_join) a pair with exactly one empty token set is never returned. -/
theorem ovc_one_empty_never (a : JoinArgs) (t : TokObj) (toks : TokFn) (cpu : Int) (l r : Frame)
    (hv : validateJoin "OVERLAP_COEFFICIENT" a t = .ok (l, r))
    (hnd : ∀ s, (toks true s).Nodup) (hlen : r.rows.length < 2 ^ 40)
    (fr : Frame) (hfr : (overlapCoefficientJoinPy a t toks cpu).result = .ok fr)
    (ls : Row) (hls : ls ∈ l.rows) (rs : Row) (hrs : rs ∈ r.rows)
    (hpl : Present l a.lAttr ls) (hpr : Present r a.rAttr rs)
    (he : ((tokensOf (toks true) l a.lAttr ls).length = 0 ∧ (tokensOf (toks true) r a.rAttr rs).length ≠ 0) ∨
          ((tokensOf (toks true) l a.lAttr ls).length ≠ 0 ∧ (tokensOf (toks true) r a.rAttr rs).length = 0)) :
    ¬ ∃ row ∈ fr.rows, rowKeys row = (keyOf l a.lKey ls, keyOf r a.rKey rs) := by
  have hd := EX.overlapCoefficientJoinPy_described_of_ok a t toks cpu l r hnd hv hlen fr hfr
  obtain ⟨hkl, hkr⟩ := validateOutAndKeys_of_validateJoin _ a t l r hv
  obtain ⟨hthr, hop⟩ := EX.ovc_valid_thr_op a t l r hv
  rw [hd.iff hkl hkr ls hls rs hrs hpl hpr, EX.POvc_exists_iff _ _ _ (toks true) _ _ hop hthr]
  rintro (⟨hb, _⟩ | h)
  · rw [EX.bothEmpty_iff] at hb
    rcases he with ⟨_, h2⟩ | ⟨h1, _⟩
    · exact h2 hb.2
    · exact h1 hb.1
  · have h0 : interCount (tokensOf (toks true) l a.lAttr ls) (tokensOf (toks true) r a.rAttr rs) = 0 :=
      EX.interCount_of_empty _ _ (he.elim (fun h => Or.inl h.1) (fun h => Or.inr h.2))
    have hf := EX.ovc_no_common_false a t l r hv _ _ h0
    exact absurd (hf.symm.trans h) (by decide)

/-- (C09, overlap_join) a pair with an empty token set on at least one side is never returned. -/
theorem overlap_one_empty_never (a : JoinArgs) (t : TokObj) (toks : TokFn) (cpu : Int) (f : OverlapFilterObj) (l r : Frame)
    (hf : mkOverlapFilter a.threshold a.compOp a.allowMissing t = .ok f)
    (hv : validateTablesAttrs a.toTableArgs = .ok (l, r))
    (hk : validateOutAndKeys a.toTableArgs l r = .ok ())
    (hnd : ∀ s, (toks true s).Nodup) (hlen : r.rows.length < 2 ^ 40)
    (fr : Frame) (hfr : (overlapJoinPy a t toks cpu).result = .ok fr)
    (ls : Row) (hls : ls ∈ l.rows) (rs : Row) (hrs : rs ∈ r.rows)
    (hpl : Present l a.lAttr ls) (hpr : Present r a.rAttr rs)
    (he : (tokensOf (toks true) l a.lAttr ls).length = 0 ∨ (tokensOf (toks true) r a.rAttr rs).length = 0) :
    ¬ ∃ row ∈ fr.rows, rowKeys row = (keyOf l a.lKey ls, keyOf r a.rKey rs) := by
  have hd := EX.overlapJoinPy_described_of_ok a t toks cpu f l r hnd hf hv hk hlen fr hfr
  obtain ⟨hkl, hkr⟩ := validateOutAndKeys_keys _ l r hk
  obtain ⟨hthr, hop⟩ := EX.mkOverlapFilter_valid _ _ _ _ _ hf
  rw [hd.iff hkl hkr ls hls rs hrs hpl hpr, EX.POverlap_exists_iff' _ (toks true)]
  rintro ⟨h1, _⟩
  have h0 : interCount (tokensOf (toks true) l a.lAttr ls) (tokensOf (toks true) r a.rAttr rs) = 0 := EX.interCount_of_empty _ _ he
  exact absurd (h0 ▸ h1 : 1 ≤ 0) (by decide)

/-- (C09, overlap_join) in particular a pair of two empty token sets is never returned, whatever `allow_empty`. -/
theorem overlap_both_empty_never (a : JoinArgs) (t : TokObj) (toks : TokFn) (cpu : Int) (f : OverlapFilterObj) (l r : Frame)
    (hf : mkOverlapFilter a.threshold a.compOp a.allowMissing t = .ok f)
    (hv : validateTablesAttrs a.toTableArgs = .ok (l, r))
    (hk : validateOutAndKeys a.toTableArgs l r = .ok ())
    (hnd : ∀ s, (toks true s).Nodup) (hlen : r.rows.length < 2 ^ 40)
    (fr : Frame) (hfr : (overlapJoinPy a t toks cpu).result = .ok fr)
    (ls : Row) (hls : ls ∈ l.rows) (rs : Row) (hrs : rs ∈ r.rows)
    (hpl : Present l a.lAttr ls) (hpr : Present r a.rAttr rs)
    (he : Spec.bothEmpty (tokensOf (toks true) l a.lAttr ls) (tokensOf (toks true) r a.rAttr rs) = true) :
    ¬ ∃ row ∈ fr.rows, rowKeys row = (keyOf l a.lKey ls, keyOf r a.rKey rs) :=
  overlap_one_empty_never a t toks cpu f l r hf hv hk hnd hlen fr hfr ls hls rs hrs hpl hpr
    (Or.inl ((EX.bothEmpty_iff _ _).1 he).1)

/-! ### non-vacuity: a concrete call satisfying all hypotheses -/
namespace Example

/-- a (set-mode) tokenizer given by a table: whitespace tokens of the four strings used below -/
def tk : TokFn := fun _ s =>
  if s = "a b" then ["a", "b"] else if s = "b c" then ["b", "c"] else if s = "b" then ["b"] else []

theorem tk_nodup : ∀ s, (tk true s).Nodup := by
  intro s; unfold tk; split_ifs <;> decide

def L : Frame := { columns := ["id", "s"], dtypes := ["int64", "object"],
                   rows := [[.int 1, .str "a b"], [.int 2, .str ""], [.int 3, .missing]] }
def R : Frame := { columns := ["rid", "u"], dtypes := ["int64", "object"],
                   rows := [[.int 7, .str "b c"], [.int 8, .str ""], [.int 9, .str "b"]] }
/-- `threshold = 1`, `comp_op = ">="`, `allow_empty = True`, `allow_missing = False`, `out_sim_score = True`, `n_jobs = 1` -/
def A : JoinArgs := { ltable := some L, rtable := some R, lKey := "id", rKey := "rid", lAttr := "s", rAttr := "u",
                      threshold := .int 1 }
def F : OverlapFilterObj := { overlapSize := .int 1, compOp := ">=" }

example : mkOverlapFilter A.threshold A.compOp A.allowMissing {} = .ok F := rfl
example : validateTablesAttrs A.toTableArgs = .ok (L, R) := by decide
example : validateOutAndKeys A.toTableArgs L R = .ok () := by decide
example : validateJoin "OVERLAP_COEFFICIENT" A {} = .ok (L, R) := by decide
example : R.rows.length < 2 ^ 40 := by decide

/-- the hypotheses are satisfiable with an empty-empty pair (2, 8) and one-side-empty pairs such as (2, 7), (1, 8):
    by `ovc_both_empty_iff` the overlap-coefficient join (allow_empty = True) returns (2, 8) … -/
example (fr : Frame) (hfr : (overlapCoefficientJoinPy A {} tk 1).result = .ok fr) :
    ∃ row ∈ fr.rows, rowKeys row = (.int 2, .int 8) :=
  ((ovc_both_empty_iff A {} tk 1 L R (by decide) tk_nodup (by decide) fr hfr
    [.int 2, .str ""] (by decide) [.int 8, .str ""] (by decide) rfl rfl (by decide)).1).2 rfl

/-- … but not (2, 7); and the overlap join returns neither: its result is -/
example (fr : Frame) (hfr : (overlapCoefficientJoinPy A {} tk 1).result = .ok fr) :
    ¬ ∃ row ∈ fr.rows, rowKeys row = (.int 2, .int 7) :=
  ovc_one_empty_never A {} tk 1 L R (by decide) tk_nodup (by decide) fr hfr
    [.int 2, .str ""] (by decide) [.int 7, .str "b c"] (by decide) rfl rfl (Or.inl (by decide))

example : (overlapJoinPy A {} tk 1).result =
    .ok { columns := ["_id", "l_id", "r_rid", "_sim_score"], index := [.int 0, .int 1],
          rows := [[.int 0, .int 1, .int 7, .int 1], [.int 1, .int 1, .int 9, .int 1]] } := by decide

end Example

end SSJ.Props.C09

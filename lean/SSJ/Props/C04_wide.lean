/-
  C04 (wide threshold scope) — Filters never dismiss a pair that satisfies the threshold.

  Companion of SSJ/Props/C04.lean (same namespace `SSJ.Props.C04`; property text, model, vocabulary as there).  The
  JACCARD / COSINE / DICE theorems of C04.lean assume that the filter object carries a Python FLOAT threshold
  `.float thr` with `2⁻²⁰ ≤ thr ≤ 1` (`ThrOK`).  The filter constructor (`constructor_ok`, `validate_threshold`) accepts
  every `0 < t ≤ 1`, also given as the Python int `1`.

  WHAT CHANGED.  For every theorem of C04.lean with a `ThrOK` hypothesis there is a theorem `…_wide` with the same
  conclusion where the filter object carries the threshold VALUE `th : PyV` (`f.cfg.threshold = th`) with
  `WideThr m th` (SSJ/Proofs/ArithWide.lean):
      * a Python float `t` with `thrLo m ≤ t ≤ 1`, `thrLo m = 2⁻⁹⁸⁹` for JACCARD and DICE, `2⁻⁴⁹⁵` for COSINE, or
      * the Python int `1`;
  "the similarity meets the threshold" is `simSet m A B = .float s ∧ thrVal th ≤ s` (`thrVal th` = the threshold's
  numeric value), implied by the property's reading `qualStrict m ">=" th A B` (`meets_threshold_wide`; `compFn`
  compares `PyV` values as Python does, so the int `1` is compared numerically with the float similarity).
  `ThrOK` thresholds are covered (`ThrOK.wide`), so these theorems subsume the originals.
  SuffixFilter: the extra hypothesis `prefThr m ≤ thr` of C04.lean is KEPT (as `prefThr m ≤ thrVal th`; see C04.lean for
  why) — for the suffix filter the widening therefore only adds the int threshold `1`.

  WHY THE RANGE STOPS AT `thrLo m`.  Binary64 OVERFLOW of the size upper bound (`get_size_upper_bound`: `n / t`,
  `((2 − t)/t) · n`, `n / (t·t)` must stay below `2¹⁰²⁴` for token counts up to `2³² − 1`); from `t = 2⁻⁹⁹³` (JACCARD),
  `2⁻⁹⁹²` (DICE), `2⁻⁴⁹⁷` (COSINE) on the generated code really fails for large records (`SSJ.cosine_overflow_at_500`:
  COSINE, `t = 2⁻⁵⁰⁰`, `2²⁴` tokens: `OverflowError` in Python, `err overflow` in the model, integer view `upper = 0`).

  STILL OUTSIDE.  Thresholds in `(0, thrLo m)`: the real code raises `OverflowError` / `ZeroDivisionError` there for large
  enough token counts (recorded known finding K2), works for small ones; not covered by theorems.  OVERLAP,
  EDIT_DISTANCE, OverlapFilter, `candset_keeps_iff`: unchanged, see C04.lean.
-/
import SSJ.Proofs.EntryWide
import SSJ.Props.C04

namespace SSJ.Props.C04
open SSJ SSJ.Spec SSJ.Props

/-! ## JACCARD / COSINE / DICE, every covered threshold value -/

section SetMeasuresWide
variable (m : Measure) (hm : SetMeasure m) (th : PyV) (hth : WideThr m th)
include hm hth

/-- the property's "meets the threshold" (`qualStrict … ">="`: similarity AND its rounding to 4 decimals are `≥` the
    threshold value) implies the hypothesis used below: the similarity is a float `s` with `thrVal th ≤ s` -/
theorem meets_threshold_wide (A B : List Tok) (hA : A.Nodup) (hB : B.Nodup) (hAs : A.length < 2 ^ 32)
    (hBs : B.length < 2 ^ 32) (h : qualStrict m ">=" th A B = true) :
    ∃ s : Rat, simSet m A B = .float s ∧ thrVal th ≤ s :=
  EntryWide.reaches_of_qualStrict_wide m hm th hth.numThr hth.pos A B hA hB hAs hBs h

/-! ### filter_pair -/

variable (f : FilterObj) (hmeas : f.cfg.measure = m) (hthr : f.cfg.threshold = th) (tok : String → List Tok)
  (hnd : ∀ s, (tok s).Nodup) (hsm : ∀ s, (tok s).length < 2 ^ 32)
include hmeas hthr hnd hsm

/-- SizeFilter.filter_pair does not drop a pair of present values (not both without tokens) whose similarity
    reaches the threshold -/
theorem pair_safe_size_wide (l r : Cell) (hl : l.isMissing = false) (hr : r.isMissing = false)
    (hne : ¬ ((tok l.strVal).length = 0 ∧ (tok r.strVal).length = 0))
    (s : Rat) (hs : simSet m (tok l.strVal) (tok r.strVal) = .float s) (hq : thrVal th ≤ s) :
    filterPair .size f tok l r = false :=
  EntryWide.filterPair_safe_set_wide .size m hm th hth f hmeas hthr tok hnd hsm l r hl hr hne s hs hq (fun h => by cases h)

/-- PrefixFilter.filter_pair does not drop such a pair -/
theorem pair_safe_prefix_wide (l r : Cell) (hl : l.isMissing = false) (hr : r.isMissing = false)
    (hne : ¬ ((tok l.strVal).length = 0 ∧ (tok r.strVal).length = 0))
    (s : Rat) (hs : simSet m (tok l.strVal) (tok r.strVal) = .float s) (hq : thrVal th ≤ s) :
    filterPair .prefix f tok l r = false :=
  EntryWide.filterPair_safe_set_wide .prefix m hm th hth f hmeas hthr tok hnd hsm l r hl hr hne s hs hq (fun h => by cases h)

/-- PositionFilter.filter_pair does not drop such a pair -/
theorem pair_safe_position_wide (l r : Cell) (hl : l.isMissing = false) (hr : r.isMissing = false)
    (hne : ¬ ((tok l.strVal).length = 0 ∧ (tok r.strVal).length = 0))
    (s : Rat) (hs : simSet m (tok l.strVal) (tok r.strVal) = .float s) (hq : thrVal th ≤ s) :
    filterPair .position f tok l r = false :=
  EntryWide.filterPair_safe_set_wide .position m hm th hth f hmeas hthr tok hnd hsm l r hl hr hne s hs hq (fun h => by cases h)

/-- SuffixFilter.filter_pair does not drop such a pair — for threshold values `≥ prefThr m` (see the header of C04.lean) -/
theorem pair_safe_suffix_wide (h4 : prefThr m ≤ thrVal th) (l r : Cell) (hl : l.isMissing = false) (hr : r.isMissing = false)
    (hne : ¬ ((tok l.strVal).length = 0 ∧ (tok r.strVal).length = 0))
    (s : Rat) (hs : simSet m (tok l.strVal) (tok r.strVal) = .float s) (hq : thrVal th ≤ s) :
    filterPair .suffix f tok l r = false :=
  EntryWide.filterPair_safe_set_wide .suffix m hm th hth f hmeas hthr tok hnd hsm l r hl hr hne s hs hq (fun _ => h4)

/-- the same in the property's own reading of "meets the threshold", for any of the four filters -/
theorem pair_safe_of_qualStrict_wide (k : FilterKind) (h4 : k = .suffix → prefThr m ≤ thrVal th)
    (l r : Cell) (hl : l.isMissing = false) (hr : r.isMissing = false)
    (hne : ¬ ((tok l.strVal).length = 0 ∧ (tok r.strVal).length = 0))
    (hqual : qualStrict m ">=" th (tok l.strVal) (tok r.strVal) = true) :
    filterPair k f tok l r = false := by
  obtain ⟨s, hs, hq⟩ := meets_threshold_wide m hm th hth _ _ (hnd _) (hnd _) (hsm _) (hsm _) hqual
  exact EntryWide.filterPair_safe_set_wide k m hm th hth f hmeas hthr tok hnd hsm l r hl hr hne s hs hq h4

end SetMeasuresWide

/-! ### filter_tables -/

section SetMeasuresTablesWide
variable (m : Measure) (hm : SetMeasure m) (th : PyV) (hth : WideThr m th)
  (f : FilterObj) (hmeas : f.cfg.measure = m) (hthr : f.cfg.threshold = th)
  (a : TableArgs) (t : TokObj) (toks : TokFn) (cpu : Int) (l r fr : Frame)
  (hv : validateTablesAttrs a = .ok (l, r)) (hk : validateOutAndKeys a l r = .ok ())
  (hrows : r.rows.length < 2 ^ 40)
  (hnd : ∀ s, (toks t.returnSet s).Nodup) (hsm : ∀ s, (toks t.returnSet s).length < 2 ^ 32)
include hm hth hmeas hthr hv hk hrows hnd hsm

/-- SizeFilter.filter_tables lists every pair of source rows with present join values (not both without tokens)
    whose similarity reaches the threshold: the result has a row carrying their two keys -/
theorem tables_safe_size_wide (hres : filterTables .size f a t toks cpu = .ok fr)
    (ls rs : Row) (hls : ls ∈ l.rows) (hrs : rs ∈ r.rows)
    (hlp : Present l a.lAttr ls) (hrp : Present r a.rAttr rs)
    (hne : ¬ ((tokensOf (toks t.returnSet) l a.lAttr ls).length = 0 ∧
              (tokensOf (toks t.returnSet) r a.rAttr rs).length = 0))
    (s : Rat) (hs : simSet m (tokensOf (toks t.returnSet) l a.lAttr ls) (tokensOf (toks t.returnSet) r a.rAttr rs) = .float s)
    (hq : thrVal th ≤ s) :
    ∃ row ∈ fr.rows, rowKeys row = (keyOf l a.lKey ls, keyOf r a.rKey rs) :=
  EntryWide.filterTables_safe_set_wide .size f a t toks cpu l r fr m hm th hth hmeas hthr hv hk hrows hnd hsm hres
    ls rs hls hrs hlp hrp hne s hs hq (fun h => by cases h)

/-- PrefixFilter.filter_tables lists every such pair -/
theorem tables_safe_prefix_wide (hres : filterTables .prefix f a t toks cpu = .ok fr)
    (ls rs : Row) (hls : ls ∈ l.rows) (hrs : rs ∈ r.rows)
    (hlp : Present l a.lAttr ls) (hrp : Present r a.rAttr rs)
    (hne : ¬ ((tokensOf (toks t.returnSet) l a.lAttr ls).length = 0 ∧
              (tokensOf (toks t.returnSet) r a.rAttr rs).length = 0))
    (s : Rat) (hs : simSet m (tokensOf (toks t.returnSet) l a.lAttr ls) (tokensOf (toks t.returnSet) r a.rAttr rs) = .float s)
    (hq : thrVal th ≤ s) :
    ∃ row ∈ fr.rows, rowKeys row = (keyOf l a.lKey ls, keyOf r a.rKey rs) :=
  EntryWide.filterTables_safe_set_wide .prefix f a t toks cpu l r fr m hm th hth hmeas hthr hv hk hrows hnd hsm hres
    ls rs hls hrs hlp hrp hne s hs hq (fun h => by cases h)

/-- PositionFilter.filter_tables lists every such pair -/
theorem tables_safe_position_wide (hres : filterTables .position f a t toks cpu = .ok fr)
    (ls rs : Row) (hls : ls ∈ l.rows) (hrs : rs ∈ r.rows)
    (hlp : Present l a.lAttr ls) (hrp : Present r a.rAttr rs)
    (hne : ¬ ((tokensOf (toks t.returnSet) l a.lAttr ls).length = 0 ∧
              (tokensOf (toks t.returnSet) r a.rAttr rs).length = 0))
    (s : Rat) (hs : simSet m (tokensOf (toks t.returnSet) l a.lAttr ls) (tokensOf (toks t.returnSet) r a.rAttr rs) = .float s)
    (hq : thrVal th ≤ s) :
    ∃ row ∈ fr.rows, rowKeys row = (keyOf l a.lKey ls, keyOf r a.rKey rs) :=
  EntryWide.filterTables_safe_set_wide .position f a t toks cpu l r fr m hm th hth hmeas hthr hv hk hrows hnd hsm hres
    ls rs hls hrs hlp hrp hne s hs hq (fun h => by cases h)

/-- SuffixFilter.filter_tables lists every such pair — for threshold values `≥ prefThr m` (see the header of C04.lean) -/
theorem tables_safe_suffix_wide (h4 : prefThr m ≤ thrVal th) (hres : filterTables .suffix f a t toks cpu = .ok fr)
    (ls rs : Row) (hls : ls ∈ l.rows) (hrs : rs ∈ r.rows)
    (hlp : Present l a.lAttr ls) (hrp : Present r a.rAttr rs)
    (hne : ¬ ((tokensOf (toks t.returnSet) l a.lAttr ls).length = 0 ∧
              (tokensOf (toks t.returnSet) r a.rAttr rs).length = 0))
    (s : Rat) (hs : simSet m (tokensOf (toks t.returnSet) l a.lAttr ls) (tokensOf (toks t.returnSet) r a.rAttr rs) = .float s)
    (hq : thrVal th ≤ s) :
    ∃ row ∈ fr.rows, rowKeys row = (keyOf l a.lKey ls, keyOf r a.rKey rs) :=
  EntryWide.filterTables_safe_set_wide .suffix f a t toks cpu l r fr m hm th hth hmeas hthr hv hk hrows hnd hsm hres
    ls rs hls hrs hlp hrp hne s hs hq (fun _ => h4)

end SetMeasuresTablesWide

/-! ## filter_candset -/

/-- C04 for `filter_candset` of the four filters under JACCARD / COSINE / DICE, every covered threshold value: a
    candidate row referencing two rows with present join values (not both without tokens) whose similarity reaches
    the threshold is kept (SuffixFilter: threshold values `≥ prefThr m`) -/
theorem candset_safe_wide (k : FilterKind) (m : Measure) (hm : SetMeasure m) (th : PyV) (hth : WideThr m th)
    (f : FilterObj) (hmeas : f.cfg.measure = m) (hthr : f.cfg.threshold = th)
    (h4 : k = .suffix → prefThr m ≤ thrVal th)
    (tok : String → List Tok) (hnd : ∀ s, (tok s).Nodup) (hsm : ∀ s, (tok s).length < 2 ^ 32)
    (a : CandsetArgs) (cpu : Int) (c l r fr : Frame)
    (hval : EntryFilters.CandsetValid a c l r) (hres : filterCandset a (filterPairPy k f tok) cpu = .ok fr)
    (cr ls rs : Row) (hcr : cr ∈ c.rows) (hls : ls ∈ l.rows) (hrs : rs ∈ r.rows)
    (hkl : keyOf l a.lKey ls = cr.cell (c.colIdx a.candLKey)) (hkr : keyOf r a.rKey rs = cr.cell (c.colIdx a.candRKey))
    (hlp : Present l a.lAttr ls) (hrp : Present r a.rAttr rs)
    (hne : ¬ ((tokensOf tok l a.lAttr ls).length = 0 ∧ (tokensOf tok r a.rAttr rs).length = 0))
    (s : Rat) (hs : simSet m (tokensOf tok l a.lAttr ls) (tokensOf tok r a.rAttr rs) = .float s) (hq : thrVal th ≤ s) :
    cr ∈ fr.rows :=
  candset_safe_of_pair a _ _ (filterPairPy_ok_eq k f tok) cpu c l r fr hval hres cr ls rs hcr hls hrs hkl hkr
    (EntryWide.filterPair_safe_set_wide k m hm th hth f hmeas hthr tok hnd hsm _ _ hlp hrp hne s hs hq h4)

/-! ## non-vacuity: the fixtures of `EntryFilters.Ex` at a threshold below `2⁻²⁰` and at the int threshold `1` -/
section NonVacuityWide
open EntryFilters.Ex EntryWide.Ex

/-- JACCARD, threshold `2⁻³⁰` (a filter object as constructed with a q-gram tokenizer: `qval = 2`); "x" ↦ {a,b},
    "y" ↦ {a,c}: similarity `rn(1/3) ≥ 2⁻³⁰`; the PositionFilter keeps the pair -/
example : filterPair .position { cfg := { measure := .jaccard, threshold := .float (1 / 2 ^ 30), qval := .int 2 } }
    exTok (.str "x") (.str "y") = false :=
  pair_safe_position_wide .jaccard (Or.inl rfl) _ (thrSmall .jaccard) _ rfl rfl exTok exTok_nodup exTok_small _ _ rfl rfl
    (by decide) _ ex_sim ex_reach_small

/-- JACCARD, threshold the Python int `1`; the pair ("x", "x") has two equal token sets, similarity 1.0 `≥ 1`: the
    SizeFilter and the SuffixFilter (`prefThr = 10⁻⁴ ≤ 1`) keep it -/
example : filterPair .size { cfg := { measure := .jaccard, threshold := .int 1 } } exTok (.str "x") (.str "x") = false ∧
    filterPair .suffix { cfg := { measure := .jaccard, threshold := .int 1 } } exTok (.str "x") (.str "x") = false :=
  ⟨pair_safe_size_wide .jaccard (Or.inl rfl) _ .intOne _ rfl rfl exTok exTok_nodup exTok_small _ _ rfl rfl
      (by decide) _ ex_sim_self ex_reach_int,
   pair_safe_suffix_wide .jaccard (Or.inl rfl) _ .intOne _ rfl rfl exTok exTok_nodup exTok_small
      (by rw [thrVal_int1]; norm_num [prefThr]) _ _ rfl rfl (by decide) _ ex_sim_self ex_reach_int⟩

/-- rows 1 / 7 of the two small tables (one missing value, `n_jobs = 2`), threshold `2⁻³⁰`: PrefixFilter.filter_tables
    returns a frame and lists the pair -/
example : ∃ fr, filterTables .prefix { cfg := cfgWith .jaccard (.float (1 / 2 ^ 30)) } exA exT exToks 4 = .ok fr ∧
    ∃ row ∈ fr.rows, rowKeys row = (Cell.int 1, Cell.int 7) := by
  obtain ⟨fr, hfr⟩ := tables_returns_frame .prefix { cfg := cfgWith .jaccard (.float (1 / 2 ^ 30)) } exA exT exToks 4
    exL exR ex_valid ex_keys (by decide +kernel)
  refine ⟨fr, hfr, ?_⟩
  exact tables_safe_prefix_wide .jaccard (Or.inl rfl) _ (thrSmall .jaccard) _ rfl rfl exA exT exToks 4 exL exR fr
    ex_valid ex_keys (by decide) exTok_nodup exTok_small hfr [.int 1, .str "x"] [.int 7, .str "y"]
    (by decide) (by decide) (by unfold Present; decide) (by unfold Present; decide) (by decide) _ ex_sim ex_reach_small

/-- the one-row candidate set of C04.lean referencing rows 1 / 7: PositionFilter's `filter_candset` at threshold `2⁻³⁰`
    keeps the row -/
example : ∃ fr, filterCandset exCA (filterPairPy .position { cfg := cfgWith .jaccard (.float (1 / 2 ^ 30)) } exTok) 4 = .ok fr ∧
    [Cell.int 0, .int 1, .int 7] ∈ fr.rows := by
  obtain ⟨fr, hfr, -, -⟩ := candset_keeps_iff_filter .position
    { cfg := cfgWith .jaccard (.float (1 / 2 ^ 30)) } exTok exCA 4 exC exL exR exCA_valid (by decide) (by decide)
  exact ⟨fr, hfr, candset_safe_wide .position .jaccard (Or.inl rfl) _ (thrSmall .jaccard) _ rfl rfl (fun h => by cases h)
    exTok exTok_nodup exTok_small exCA 4 exC exL exR fr exCA_valid hfr _ [.int 1, .str "x"] [.int 7, .str "y"]
    (by decide) (by decide) (by decide) (by decide) (by decide) (by unfold Present; decide) (by unfold Present; decide)
    (by decide) _ ex_sim ex_reach_small⟩

end NonVacuityWide

section AxiomCheck
#print axioms meets_threshold_wide
#print axioms pair_safe_size_wide
#print axioms pair_safe_prefix_wide
#print axioms pair_safe_position_wide
#print axioms pair_safe_suffix_wide
#print axioms pair_safe_of_qualStrict_wide
#print axioms tables_safe_size_wide
#print axioms tables_safe_prefix_wide
#print axioms tables_safe_position_wide
#print axioms tables_safe_suffix_wide
#print axioms candset_safe_wide
end AxiomCheck

end SSJ.Props.C04

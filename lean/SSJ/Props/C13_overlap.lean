/-
  C13 (companion) — Joins obey transposition, threshold-refinement and operator-partition laws:
                    threshold refinement of `overlap_join` for thresholds of ANY accepted numeric type.

  "… Joining at a stricter threshold gives exactly the rows of the join at a laxer threshold whose _sim_score meets the
   stricter one ….  Quantifier: all tables, all six joins, all ordered pairs of thresholds; …"
  `SSJ/Props/C13.lean` proves the refinement law of `overlap_join` for INT thresholds `k₁ ≤ k₂` (`refine_overlap`) and
  lists "float thresholds of overlap_join in the refinement law" under NOT COVERED.  This file closes that gap: the
  law for every ordered pair of thresholds the OverlapFilter constructor accepts — int/int, float/float, int/float,
  float/int, and the non-finite ones.

  MODEL.  `overlapJoinPy a t toks cpu` (`SSJ/Model/Frame.lean`); the threshold `a.threshold : PyV` is any Python value.
  Vocabulary (`InResult`, `ScoreOf`, `a.withThreshold v`) and the form of the statement are those of `C13.lean`:
  per pair of source rows `ls ∈ l.rows`, `rs ∈ r.rows` with present join values.

  WHICH THRESHOLDS ARE ACCEPTED (`threshold_accepted_iff`, `threshold_accepted_values`).  `overlap_join` validates its
  threshold through the OverlapFilter constructor, whose (repaired) test is `if not threshold > 0: raise AssertionError`.
  So accepted are exactly the values `v` for which Python's `v > 0` is true:
    * an int `k`   iff `0 < k`;      * a float `q` iff `0 < q` (fractional values such as 1.5 included);
    * `float('inf')` (model: `PyV.inf`) IS accepted — handled explicitly: the law holds with it on either side
      (`overlap_refinement_any_threshold` does not exclude it), and as a threshold it makes the result contain no pair
      of present rows at all (`overlap_inf_threshold_no_pairs`);
    * NaN has no counterpart among the model's Python values (`PyV` has no NaN), so it is outside this statement
      (in Python `nan > 0` is false, so NaN is now rejected by the validation, like every value not `> 0`);
    * `True` is accepted and compares as 1 (`bool` is a number in Python and in `PyV.numVal?`).
  Values that are not numbers (str, None) are rejected in the model (`PyV.gtb` answers false for them, so
  `not v > 0` holds: AssertionError; `threshold_rejected_non_number`); in Python `v > 0` raises TypeError for them —
  rejected either way, with a different exception class, which this file does not claim anything about.

  THE ORDER ON THRESHOLDS.  "`v₁` is laxer than `v₂`" is `PyV.leb v₁ v₂ = true`: Python's `v₁ <= v₂`, which on ints and
  floats in any combination compares the exact numeric values (`threshold_le_iff`: `.int 1 ≤ .float 1.5 ≤ .int 2`).

  HYPOTHESES of `overlap_refinement_any_threshold`, in plain words: operator `>=` or `>` (for `=` refinement is false
  and not claimed); the LAXER call's OverlapFilter is accepted (`hf`; acceptance of the stricter one is DERIVED:
  `mkOverlapFilter_withThr`); the table arguments pass validation (`hv`, `hk`); the tokenizer in set mode returns
  duplicate-free lists; the right table has fewer than 2⁴⁰ rows; both calls returned the frames named (they always do:
  `C01.overlap_exact`).  Tables, other rows, `n_jobs`, cpu count, `allow_missing`, `out_sim_score`, output attributes
  and prefixes are arbitrary.  No rounding is involved (the score is the integer number of common tokens), so there is
  no straddling hypothesis.

  NOT COVERED: rows stemming from missing join values (C08); the other columns of the rows (C09/C10).
-/
import SSJ.Proofs.Gaps3
import SSJ.Props.C13

namespace SSJ.Props.C13
open SSJ SSJ.Props SSJ.EntryLaws

/-! ## accepted thresholds and their order -/

/-- The OverlapFilter constructor (through which `overlap_join` validates) accepts exactly: a Tokenizer object, a
    threshold `v` for which Python's `v > 0` is true, and one of the operators `>=`, `>`, `=`. -/
theorem threshold_accepted_iff (v : PyV) (op : String) (am : Bool) (t : TokObj) (f : OverlapFilterObj) :
    mkOverlapFilter v op am t = .ok f ↔
      t.isTokenizer = true ∧ PyV.gtb v (.int 0) = true ∧ op ∈ [">=", ">", "="] ∧
        f = { overlapSize := v, compOp := op, allowMissing := am } := by
  rw [mkOverlapFilter_ok_iff, overlapThr_valid_iff, Ne, Gen.validate_comp_op_for_sim_measure_sim op "OVERLAP" (by decide),
    not_not]

/-- … which for the numeric values means: an int or float threshold must be positive; `inf` passes. -/
theorem threshold_accepted_values :
    (∀ k : Int, PyV.gtb (.int k) (.int 0) = true ↔ 0 < k) ∧
    (∀ q : Rat, PyV.gtb (.float q) (.int 0) = true ↔ 0 < q) ∧
    PyV.gtb .inf (.int 0) = true := by
  refine ⟨fun k => ?_, fun q => ?_, rfl⟩
  · rw [← overlapThr_valid_iff]; exact overlapThr_valid_int k
  · rw [← overlapThr_valid_iff]; exact overlapThr_valid_float q

/-- … and a value that is not a number (a string, `None`) is never accepted. -/
theorem threshold_rejected_non_number (v : PyV) (hv : PyV.numVal? v = Option.none) (op : String) (am : Bool)
    (t : TokObj) (f : OverlapFilterObj) : mkOverlapFilter v op am t ≠ .ok f := by
  intro h
  have h2 := ((threshold_accepted_iff v op am t f).1 h).2.1
  rcases (gtb_zero_iff v).1 h2 with ⟨x, hx, -⟩ | rfl
  · rw [hv] at hx; cases hx
  · cases hv

/-- Python's `<=` between int and float thresholds, in any combination, is the order of the exact numeric values;
    every finite number is `<= inf`, and `inf` is `<=` no finite number. -/
theorem threshold_le_iff :
    (∀ k₁ k₂ : Int, PyV.leb (.int k₁) (.int k₂) = true ↔ k₁ ≤ k₂) ∧
    (∀ (k : Int) (q : Rat), PyV.leb (.int k) (.float q) = true ↔ (k : Rat) ≤ q) ∧
    (∀ (q : Rat) (k : Int), PyV.leb (.float q) (.int k) = true ↔ q ≤ (k : Rat)) ∧
    (∀ q₁ q₂ : Rat, PyV.leb (.float q₁) (.float q₂) = true ↔ q₁ ≤ q₂) ∧
    (∀ k : Int, PyV.leb (.int k) .inf = true ∧ PyV.leb .inf (.int k) = false) ∧
    (∀ q : Rat, PyV.leb (.float q) .inf = true ∧ PyV.leb .inf (.float q) = false) := by
  refine ⟨fun k₁ k₂ => ?_, fun k q => leb_num _ _ _ _ rfl rfl, fun q k => leb_num _ _ _ _ rfl rfl,
    fun q₁ q₂ => leb_num _ _ _ _ rfl rfl, fun k => ⟨rfl, rfl⟩, fun q => ⟨rfl, rfl⟩⟩
  rw [leb_num (.int k₁) (.int k₂) k₁ k₂ rfl rfl]
  exact_mod_cast Iff.rfl

/-! ## the law -/

section Overlap
variable (a : JoinArgs) (t : TokObj) (toks : TokFn) (cpu : Int) (l r : Frame)

/-- THRESHOLD REFINEMENT (overlap_join; operator `>=` or `>`; ANY two accepted thresholds with `v₁ <= v₂` in Python's
    sense — ints, floats, mixed, `inf`): a pair of present rows is in the stricter result `fr₂` iff it is in the laxer
    result `fr₁` and its overlap (= its `_sim_score`) meets `v₂`; and both results report the same score, the integer
    number of common tokens. -/
theorem overlap_refinement_any_threshold (hop : a.compOp = ">=" ∨ a.compOp = ">") (v₁ v₂ : PyV)
    (h12 : PyV.leb v₁ v₂ = true) (f : OverlapFilterObj)
    (hf : mkOverlapFilter v₁ a.compOp a.allowMissing t = .ok f)
    (hv : validateTablesAttrs a.toTableArgs = .ok (l, r)) (hk : validateOutAndKeys a.toTableArgs l r = .ok ())
    (hnd : ∀ s, (toks true s).Nodup) (hlen : r.rows.length < 2 ^ 40)
    (fr₁ fr₂ : Frame)
    (h₁ : (overlapJoinPy (a.withThreshold v₁) t toks cpu).result = .ok fr₁)
    (h₂ : (overlapJoinPy (a.withThreshold v₂) t toks cpu).result = .ok fr₂)
    (ls rs : Row) (hls : ls ∈ l.rows) (hrs : rs ∈ r.rows)
    (hpl : Present l a.lAttr ls) (hpr : Present r a.rAttr rs) :
    (InResult fr₂ (keyOf l a.lKey ls) (keyOf r a.rKey rs) ↔
      InResult fr₁ (keyOf l a.lKey ls) (keyOf r a.rKey rs) ∧
      compFn a.compOp (.int (interCount (tokensOf (toks true) l a.lAttr ls) (tokensOf (toks true) r a.rAttr rs)))
        v₂ = true) ∧
    (a.outSimScore = true →
      ScoreOf fr₁ (keyOf l a.lKey ls) (keyOf r a.rKey rs)
        (.int (interCount (tokensOf (toks true) l a.lAttr ls) (tokensOf (toks true) r a.rAttr rs))) ∧
      ScoreOf fr₂ (keyOf l a.lKey ls) (keyOf r a.rKey rs)
        (.int (interCount (tokensOf (toks true) l a.lAttr ls) (tokensOf (toks true) r a.rAttr rs)))) := by
  have hf₂ := mkOverlapFilter_withThr v₁ v₂ h12 _ _ _ _ hf
  have i₁ := overlap_iff (a.withThreshold v₁) t toks cpu l r f hf hv hk hnd hlen fr₁ h₁ ls rs hls hrs hpl hpr
  have i₂ := overlap_iff (a.withThreshold v₂) t toks cpu l r _ hf₂ hv hk hnd hlen fr₂ h₂ ls rs hls hrs hpl hpr
  dsimp only [JoinArgs.withThreshold] at i₁ i₂
  refine ⟨?_, fun ho => ⟨i₁.2 ho, i₂.2 ho⟩⟩
  rw [i₁.1, i₂.1]
  exact ⟨fun h => ⟨ge_mono_any _ hop _ _ _ h12 h, h⟩, fun h => h.2⟩

/-- … spelled out for finite numeric thresholds: `v₁`, `v₂` ints or floats in any combination (`PyV.numVal?` is the
    exact value of a Python number: `numVal? (.int k) = some (some k)`, `numVal? (.float q) = some (some q)`), with exact
    values `x₁ ≤ x₂` (e.g. `1 ≤ 1.5`, `1.5 ≤ 2`, `0.5 ≤ 2.5`). -/
theorem overlap_refinement_numeric (hop : a.compOp = ">=" ∨ a.compOp = ">") (v₁ v₂ : PyV) (x₁ x₂ : Rat)
    (hx₁ : PyV.numVal? v₁ = some (some x₁)) (hx₂ : PyV.numVal? v₂ = some (some x₂))
    (h12 : x₁ ≤ x₂) (f : OverlapFilterObj)
    (hf : mkOverlapFilter v₁ a.compOp a.allowMissing t = .ok f)
    (hv : validateTablesAttrs a.toTableArgs = .ok (l, r)) (hk : validateOutAndKeys a.toTableArgs l r = .ok ())
    (hnd : ∀ s, (toks true s).Nodup) (hlen : r.rows.length < 2 ^ 40)
    (fr₁ fr₂ : Frame)
    (h₁ : (overlapJoinPy (a.withThreshold v₁) t toks cpu).result = .ok fr₁)
    (h₂ : (overlapJoinPy (a.withThreshold v₂) t toks cpu).result = .ok fr₂)
    (ls rs : Row) (hls : ls ∈ l.rows) (hrs : rs ∈ r.rows)
    (hpl : Present l a.lAttr ls) (hpr : Present r a.rAttr rs) :
    (InResult fr₂ (keyOf l a.lKey ls) (keyOf r a.rKey rs) ↔
      InResult fr₁ (keyOf l a.lKey ls) (keyOf r a.rKey rs) ∧
      compFn a.compOp (.int (interCount (tokensOf (toks true) l a.lAttr ls) (tokensOf (toks true) r a.rAttr rs)))
        v₂ = true) :=
  (overlap_refinement_any_threshold a t toks cpu l r hop v₁ v₂ ((leb_num v₁ v₂ x₁ x₂ hx₁ hx₂).2 h12) f hf hv hk
    hnd hlen fr₁ fr₂ h₁ h₂ ls rs hls hrs hpl hpr).1

/-- `inf` AS A THRESHOLD (accepted by the validation): no pair of present rows is in the result, whatever the
    operator — so with `v₂ = inf` both sides of the refinement law are false, and with `v₁ = inf` also `v₂ = inf`. -/
theorem overlap_inf_threshold_no_pairs (f : OverlapFilterObj)
    (hf : mkOverlapFilter .inf a.compOp a.allowMissing t = .ok f)
    (hv : validateTablesAttrs a.toTableArgs = .ok (l, r)) (hk : validateOutAndKeys a.toTableArgs l r = .ok ())
    (hnd : ∀ s, (toks true s).Nodup) (hlen : r.rows.length < 2 ^ 40)
    (fr : Frame) (hres : (overlapJoinPy (a.withThreshold .inf) t toks cpu).result = .ok fr)
    (ls rs : Row) (hls : ls ∈ l.rows) (hrs : rs ∈ r.rows)
    (hpl : Present l a.lAttr ls) (hpr : Present r a.rAttr rs) :
    ¬ InResult fr (keyOf l a.lKey ls) (keyOf r a.rKey rs) := by
  have i := (overlap_iff (a.withThreshold .inf) t toks cpu l r f hf hv hk hnd hlen fr hres ls rs hls hrs hpl hpr).1
  dsimp only [JoinArgs.withThreshold] at i
  rw [i]
  have hop := ((threshold_accepted_iff _ _ _ _ _).1 hf).2.2.1
  simp only [List.mem_cons, List.not_mem_nil, or_false] at hop
  rcases hop with h | h | h <;> rw [h] <;> simp [compFn_ge, compFn_gt, EntryED.compFn_eq, PyV.geb, PyV.gtb, PyV.leb,
    PyV.ltb, PyV.eqb, PyV.numVal?]

end Overlap


/-! ## non-vacuity: the request of `C01.Example` (left row (1,"a b"), right rows (7,"b c"), (9,"b")) joined at the
    thresholds 0.5 ≤ 1 ≤ 1.5 ≤ 2 ≤ inf (`mkRat 3 2` is the float 1.5) -/
section ExAnyThreshold
open C01.Example

/-- float thresholds and `inf` are accepted … -/
example : mkOverlapFilter (.float (mkRat 1 2)) ">=" false {} =
    .ok { overlapSize := .float (mkRat 1 2), compOp := ">=" } :=
  (threshold_accepted_iff _ _ _ _ _).2 ⟨rfl, by decide, by decide, rfl⟩
example : mkOverlapFilter (.float (mkRat 3 2)) ">" true {} =
    .ok { overlapSize := .float (mkRat 3 2), compOp := ">", allowMissing := true } :=
  (threshold_accepted_iff _ _ _ _ _).2 ⟨rfl, by decide, by decide, rfl⟩
example : mkOverlapFilter .inf ">=" false {} = .ok { overlapSize := .inf, compOp := ">=" } :=
  (threshold_accepted_iff _ _ _ _ _).2 ⟨rfl, by decide, by decide, rfl⟩
/-- … non-positive ones are not -/
example (f : OverlapFilterObj) : mkOverlapFilter (.float 0) ">=" false {} ≠ .ok f :=
  fun h => absurd ((threshold_accepted_iff _ _ _ _ _).1 h).2.1 (by decide)
/-- the order: 0.5 ≤ 1 ≤ 1.5 ≤ 2 ≤ inf -/
example : PyV.leb (.float (mkRat 1 2)) (.int 1) = true ∧ PyV.leb (.int 1) (.float (mkRat 3 2)) = true ∧
    PyV.leb (.float (mkRat 3 2)) (.int 2) = true ∧ PyV.leb (.int 2) .inf = true := by decide

/-- int → float: the pair (1, 9) has one common token; it is in the result at threshold 1.5 iff it is in the result
    at threshold 1 and `1 >= 1.5` (which is false) -/
example (fr₁ fr₂ : Frame)
    (h₁ : (overlapJoinPy (A.withThreshold (.int 1)) {} tk 1).result = .ok fr₁)
    (h₂ : (overlapJoinPy (A.withThreshold (.float (mkRat 3 2))) {} tk 1).result = .ok fr₂) :
    (InResult fr₂ (.int 1) (.int 9) ↔ InResult fr₁ (.int 1) (.int 9) ∧
      compFn ">=" (.int (interCount ["a", "b"] ["b"])) (.float (mkRat 3 2)) = true) :=
  (overlap_refinement_any_threshold A {} tk 1 L R (Or.inl rfl) (.int 1) (.float (mkRat 3 2)) (by decide) F rfl
    (by decide) (by decide) tk_nodup (by decide) fr₁ fr₂ h₁ h₂ [.int 1, .str "a b"] [.int 9, .str "b"] (by decide)
    (by decide) rfl rfl).1

/-- float → float (0.5 ≤ 1.5), through the numeric corollary -/
example (fr₁ fr₂ : Frame)
    (h₁ : (overlapJoinPy (A.withThreshold (.float (1 / 2))) {} tk 1).result = .ok fr₁)
    (h₂ : (overlapJoinPy (A.withThreshold (.float (3 / 2))) {} tk 1).result = .ok fr₂) :
    (InResult fr₂ (.int 1) (.int 9) ↔ InResult fr₁ (.int 1) (.int 9) ∧
      compFn ">=" (.int (interCount ["a", "b"] ["b"])) (.float (3 / 2)) = true) :=
  overlap_refinement_numeric A {} tk 1 L R (Or.inl rfl) _ _ (1 / 2) (3 / 2) rfl rfl (by norm_num)
    { overlapSize := .float (1 / 2), compOp := ">=" }
    ((threshold_accepted_iff _ _ _ _ _).2 ⟨rfl, (threshold_accepted_values.2.1 _).2 (by norm_num), by decide, rfl⟩)
    (by decide) (by decide) tk_nodup (by decide)
    fr₁ fr₂ h₁ h₂ [.int 1, .str "a b"] [.int 9, .str "b"] (by decide) (by decide) rfl rfl

/-- the statement is about something: the join at the float threshold 0.5 returns the pairs (1,7) and (1,9) with their
    integer scores, the join at 1.5 returns no row -/
example : (overlapJoinPy (A.withThreshold (.float (mkRat 1 2))) {} tk 1).result =
    .ok { columns := ["_id", "l_id", "r_rid", "_sim_score"], index := [.int 0, .int 1],
          rows := [[.int 0, .int 1, .int 7, .int 1], [.int 1, .int 1, .int 9, .int 1]] } := by decide
example : (overlapJoinPy (A.withThreshold (.float (mkRat 3 2))) {} tk 1).result =
    .ok { columns := ["_id", "l_id", "r_rid", "_sim_score"], index := [], rows := [] } := by decide

end ExAnyThreshold

section AxiomCheck
#print axioms threshold_accepted_iff
#print axioms threshold_accepted_values
#print axioms threshold_le_iff
#print axioms overlap_refinement_any_threshold
#print axioms overlap_refinement_numeric
#print axioms overlap_inf_threshold_no_pairs
end AxiomCheck

end SSJ.Props.C13

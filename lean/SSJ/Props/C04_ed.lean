/-
  C04 (continued) — PositionFilter.filter_tables under EDIT_DISTANCE never dismisses a qualifying pair.

  PROPERTY (C04, the case left open in `SSJ/Props/C04.lean`).  "For PositionFilter under EDIT_DISTANCE a pair of present
  values whose edit distance is `<=` the filter's threshold and which share a q-gram is never dropped: filter_tables
  lists it.  The tokenizer returns bags of q-grams."

  MODEL.  `filterTables .position f a t toks cpu` (SSJ/Model/Frame.lean: validations, projection, dropna, chunking by
  `n_jobs`, `positionFilterTablesSplit` per chunk — `PosIndex.build` on the left table, `positionFindCandidates` for every
  right row —, missing-value pairs, `_id`).

  THE QUESTION THAT WAS OPEN.  Under EDIT_DISTANCE the token lists are BAGS, the ordered rank lists are only weakly
  sorted, the index may hold several postings `(row, pos)` of one row for the same token, and the scan of
  `find_candidates` performs one step per (probe position, posting) pair; the counter of a candidate can therefore exceed
  the true bag overlap and the positional bound `min(n − probe_pos, cn − cand_pos)` is evaluated per posting.  The
  filter could have dismissed qualifying pairs.  It is NOT: the over-count only helps, and at every step
  `count + min(n − probe_pos, cn − cand_pos) ≥ |bag intersection| ≥ max(n, cn) − q·τ = overlap threshold`
  (`SSJ.bag_bound`, `SSJ.positionFindCandidates_complete_bag` in SSJ/Proofs/PositionBag.lean).  An exhaustive search on
  the model (all strings over {a,b} up to length 6 and {a,b,c} up to length 4 as both tables, random sub-tables, q ∈ {1,2,3},
  padded or not, τ ∈ {1,2,3}) found no omitted pair either.

  HYPOTHESES / SCOPE in plain words (the same as `C04.tables_safe_prefix_ed`).
    * the filter object carries the int threshold τ and `qval = q`
      (`f.cfg = { measure := .editDistance, threshold := .int τ, qval := .int q }`);
    * the tokenizer in its current mode IS the q-gram tokenizer `qgrams q pad` (bag mode, padded or not, any `q`);
    * the call's table arguments passed validation, the right table has fewer than 2⁴⁰ rows;
    * the two source rows have present join values at edit distance `≤ τ` (`qualED "<=" τ`) and share a q-gram.
    Everything else (out attributes, prefixes, `n_jobs`, cpu count, `allow_empty`, `allow_missing`) is arbitrary.

  Float thresholds: SSJ/Props/C04_float.lean (`tables_safe_position_ed_float`).  (SuffixFilter under EDIT_DISTANCE:
  SSJ/Props/C04_suffix.lean.)
-/
import SSJ.Proofs.PositionBag
import SSJ.Props.C04

namespace SSJ.Props.C04
open SSJ SSJ.Spec SSJ.Props

section EditDistance
variable (f : FilterObj) (tau : Int) (q : Nat) (pad : Bool)
  (a : TableArgs) (t : TokObj) (toks : TokFn) (cpu : Int) (l r fr : Frame)
  (hv : validateTablesAttrs a = .ok (l, r)) (hk : validateOutAndKeys a l r = .ok ())
  (hrows : r.rows.length < 2 ^ 40) (htok : ∀ s, toks t.returnSet s = qgrams q pad s)
include hv hk hrows htok

/-- PositionFilter.filter_tables lists every pair of present source rows within distance `τ` which share a q-gram:
    the result has a row carrying their two keys -/
theorem tables_safe_position_ed (hf : f.cfg = { measure := .editDistance, threshold := .int tau, qval := .int q })
    (hres : filterTables .position f a t toks cpu = .ok fr)
    (ls rs : Row) (hls : ls ∈ l.rows) (hrs : rs ∈ r.rows)
    (hlp : Present l a.lAttr ls) (hrp : Present r a.rAttr rs)
    (hd : qualED "<=" tau (strOf l a.lAttr ls) (strOf r a.rAttr rs) = true)
    (hshare : shareToken (qgrams q pad) (strOf l a.lAttr ls) (strOf r a.rAttr rs) = true) :
    ∃ row ∈ fr.rows, rowKeys row = (keyOf l a.lKey ls, keyOf r a.rKey rs) :=
  EntryFilters.filterTables_position_safe_ed f a t toks cpu l r fr tau q hf pad htok hv hk hrows hres
    ls rs hls hrs hlp hrp ((EntryED.qualED_le_iff _ _ _).1 hd) hshare

end EditDistance

/-! ## the scan on bags, stated on rank lists (what the theorem above rests on) -/

/-- `find_candidates` of the PositionFilter over a PositionIndex built from the rank lists `ordToks`: if the probe `x`
    and the indexed list `y` (row `c`) are ascending — duplicates allowed —, lose at most `k` elements against each other
    (bag differences), both prefixes are the first `k + 1` elements, `|y|` is inside the size window, the required
    overlap is at most the size of the bag intersection and the bags share a value, then row `c` is reported with a
    positive overlap count (it is never set to −1) -/
theorem find_candidates_complete_bag (f : FilterObj) (ordToks : List (List Nat)) (x : List Nat)
    (c : Nat) (y : List Nat) (hy : ordToks[c]? = some y)
    (hx : x.Pairwise (· ≤ ·)) (hys : y.Pairwise (· ≤ ·))
    (k : Nat) (hxy : (x.diff y).length ≤ k) (hyx : (y.diff x).length ≤ k)
    (hpx : pyTake x (f.cfg.prefixLen x.length) = x.take (k + 1))
    (hpy : pyTake y (f.cfg.prefixLen y.length) = y.take (k + 1))
    (hlo : f.cfg.lower x.length ≤ (y.length : Int)) (hhi : (y.length : Int) ≤ f.cfg.upper x.length)
    (hthr : f.cfg.ovThr y.length x.length ≤ ((x.bagInter y).length : Int))
    (hc : ∃ w, w ∈ x ∧ w ∈ y) (ce ct : Bool) :
    ∃ v : Int, Dict.get? (positionFindCandidates f x (PosIndex.build f.cfg ordToks ce ct)) c = some v ∧ 0 < v :=
  positionFindCandidates_complete_bag f ordToks x c y hy hx hys _ rfl k hxy hyx hpx hpy hlo hhi hthr hc ce ct

/-! ## non-vacuity and an illustration of the over-count -/
section NonVacuity

/-- the over-count: probe ranks `[1,1,2]`, one indexed row `[1,1,3]`, τ = 1, q = 1 (prefixes of 2 elements): the two probe
    positions holding rank 1 each meet the two postings of rank 1, the counter ends at 4 although the bag overlap is 2 —
    and the row is (rightly) reported -/
example : positionFindCandidates { cfg := { measure := .editDistance, threshold := .int 1, qval := .int 1 } } [1, 1, 2]
    (PosIndex.build { measure := .editDistance, threshold := .int 1, qval := .int 1 } [[1, 1, 3]] false false) = [(0, 4)] := by
  decide +kernel

def edL : Frame := { columns := ["id", "name"], rows := [[.int 1, .str "aab"], [.int 2, .str "b"], [.int 3, .missing]] }
def edR : Frame := { columns := ["id", "name"], rows := [[.int 7, .str "aaab"], [.int 8, .str "cc"]] }
def edA : TableArgs :=
  { ltable := some edL, rtable := some edR, lKey := "id", rKey := "id", lAttr := "name", rAttr := "name", nJobs := 2 }
def edT : TokObj := { isQgram := true, qval := 2, returnSet := false }
def edToks : TokFn := fun _ => qgrams 2 true

theorem ed_valid : validateTablesAttrs edA = .ok (edL, edR) :=
  (validateTablesAttrs_ok_iff edA edL edR).2
    ⟨rfl, rfl, by decide, by decide, by decide, by decide, by decide, by decide⟩

theorem ed_keys : validateOutAndKeys edA edL edR = .ok () := by decide

/-- EDIT_DISTANCE, τ = 1, padded 2-grams (bags with the repeated 2-gram "aa"): "aab" (row 1) / "aaab" (row 7) are at
    distance 1 and share 2-grams; PositionFilter.filter_tables (`n_jobs = 2`) returns a frame and lists the pair -/
example : ∃ fr, filterTables .position { cfg := { measure := .editDistance, threshold := .int 1, qval := .int 2 } }
      edA edT edToks 4 = .ok fr ∧ ∃ row ∈ fr.rows, rowKeys row = (Cell.int 1, Cell.int 7) := by
  obtain ⟨fr, hfr⟩ := tables_returns_frame .position
    { cfg := { measure := .editDistance, threshold := .int 1, qval := .int 2 } } edA edT edToks 4 edL edR ed_valid ed_keys
    (by decide +kernel)
  refine ⟨fr, hfr, ?_⟩
  exact tables_safe_position_ed _ 1 2 true edA edT edToks 4 edL edR fr ed_valid ed_keys (by decide) (fun _ => rfl) rfl hfr
    [.int 1, .str "aab"] [.int 7, .str "aaab"] (by decide) (by decide) (by unfold Present; decide)
    (by unfold Present; decide) ((EntryED.qualED_le_iff _ _ _).2 (by decide)) (by decide)

end NonVacuity

end SSJ.Props.C04

section AxiomCheck
open SSJ.Props.C04
/-- info: 'SSJ.Props.C04.tables_safe_position_ed' depends on axioms: [propext, Classical.choice, Quot.sound] -/
#guard_msgs in #print axioms tables_safe_position_ed
/-- info: 'SSJ.Props.C04.find_candidates_complete_bag' depends on axioms: [propext, Classical.choice, Quot.sound] -/
#guard_msgs in #print axioms find_candidates_complete_bag
end AxiomCheck

/-
  C04 (continued) — `filter_candset` keeps every candidate row whose pair qualifies: the instances that
  `SSJ/Props/C04.lean` left to the reader ("the other measures: combine `candset_safe_of_pair` with the corresponding
  `pair_safe_*`").

  PROPERTY (C04).  "For SizeFilter, PrefixFilter, PositionFilter and SuffixFilter under JACCARD, COSINE, DICE, OVERLAP or
  EDIT_DISTANCE, and for OverlapFilter, a pair of present values whose similarity meets the filter's threshold (>= for
  similarities; <= for edit distance, where the pair must also share a q-gram) is never dropped: filter_pair reports it
  as not dropped, filter_tables lists it and filter_candset keeps it."

  MODEL.  `filterCandset a fp cpu` (`Filter.filter_candset`, SSJ/Model/Matcher.lean) called with the concrete
  `filter_pair` of the filter: `filterPairPy k f tok` (Size / Prefix / Position / SuffixFilter, `k : FilterKind`) and
  `overlapFilterPairPy f tok` (OverlapFilter) — the Python calls, which raise TypeError on a present non-string value.

  WHAT IS HERE.  Every theorem is an INSTANTIATION of the generic candset theorem `C04.candset_keeps_iff` /
  `C04.candset_safe_of_pair` ("for any `filter_pair` function `fp` …": a candidate row is kept iff `fp` does not drop the
  pair it references) with a `filter_pair` theorem of C04.lean / C04_suffix.lean; nothing new is proved about the filters.
    a. OVERLAP, int threshold `k ≥ 1`, the four filters : `candset_safe_overlap_int`   (with `pair_safe_overlap`)
    b. EDIT_DISTANCE, int threshold `τ`, the four filters: `candset_safe_ed_int`        (with `pair_safe_size_ed`,
       `pair_safe_prefix_ed`, `pair_safe_position_ed`, `pair_safe_suffix_ed`); SizeFilter alone needs neither a common
       q-gram nor `qval`: `candset_safe_size_ed_int`
    c. OverlapFilter: `candset_keeps_iff_overlap_filter` (string columns: the call returns and keeps a row iff
       `overlapFilterPair` does not drop its pair — the analogue of `C04.candset_keeps_iff_filter`),
       `candset_overlap_filter_exact` (a returned call keeps a candidate row with present values IFF both strings are
       non-empty and the comparison `|A ∩ B| op overlap_size` holds), hence `candset_safe_overlap_filter`.
  Already in the other files: JACCARD / COSINE / DICE (`C04.candset_safe`, `candset_safe_wide`,
  `candset_safe_suffix_small`), float thresholds (`candset_safe_ed_float`, `candset_safe_overlap_float`), SuffixFilter
  under EDIT_DISTANCE alone (`candset_safe_suffix_ed`).

  HYPOTHESES, as in C04.lean: `CandsetValid a c l r` (valid arguments, fewer than 2⁴⁰ candidate rows, every candidate row
  references existing table rows), the call returned a frame (`hres`; it does whenever the two filter columns hold only
  strings and missing values: `C04.candset_keeps_iff_filter`, `candset_keeps_iff_overlap_filter`), the candidate row `cr`
  carries the keys of the table rows `ls`, `rs`, whose join values are present.  OVERLAP: set tokenizer, fewer than 2⁶²
  tokens; EDIT_DISTANCE: the tokenizer is `qgrams q pad`, the filter object carries `τ` and `qval = q`.  Any `n_jobs`, cpu
  count, `allow_empty`, `allow_missing`.
  NOT COVERED: join values that are neither strings nor missing (C15).
-/
import SSJ.Props.C04
import SSJ.Props.C04_suffix
import SSJ.Proofs.CandsetInst

namespace SSJ.Props.C04
open SSJ SSJ.Spec SSJ.Props

section CandsetInstances
variable (a : CandsetArgs) (cpu : Int) (c l r fr : Frame) (hval : EntryFilters.CandsetValid a c l r)
  (cr ls rs : Row) (hcr : cr ∈ c.rows) (hls : ls ∈ l.rows) (hrs : rs ∈ r.rows)
  (hkl : keyOf l a.lKey ls = cr.cell (c.colIdx a.candLKey)) (hkr : keyOf r a.rKey rs = cr.cell (c.colIdx a.candRKey))
  (hlp : Present l a.lAttr ls) (hrp : Present r a.rAttr rs)
include hval hcr hls hrs hkl hkr hlp hrp

/-! ## a. OVERLAP with an int threshold -/

/-- `filter_candset` of Size / Prefix / Position / SuffixFilter under OVERLAP with an int threshold `k ≥ 1` keeps a
    candidate row referencing two rows with present join values that have at least `k` common tokens -/
theorem candset_safe_overlap_int (kind : FilterKind) (f : FilterObj) (k : Int)
    (hm : f.cfg.measure = .overlap) (hthr : f.cfg.threshold = .int k) (hk1 : 1 ≤ k)
    (tok : String → List Tok) (hnd : ∀ s, (tok s).Nodup) (hsm : ∀ s, (tok s).length < 2 ^ 62)
    (hres : filterCandset a (filterPairPy kind f tok) cpu = .ok fr)
    (ho : k ≤ (interCount (tokensOf tok l a.lAttr ls) (tokensOf tok r a.rAttr rs) : Int)) :
    cr ∈ fr.rows :=
  candset_safe_of_pair a _ _ (filterPairPy_ok_eq _ _ _) cpu c l r fr hval hres cr ls rs hcr hls hrs hkl hkr
    (pair_safe_overlap kind f k hm hthr hk1 tok hnd hsm _ _ hlp hrp ho)

/-! ## b. EDIT_DISTANCE with an int threshold -/

/-- SizeFilter.filter_candset under EDIT_DISTANCE with an int threshold `τ` keeps a candidate row referencing two rows
    whose present strings are within distance `τ` — whether or not they share a q-gram, whatever `qval` -/
theorem candset_safe_size_ed_int (f : FilterObj) (tau : Int) (q : Nat) (pad : Bool)
    (hm : f.cfg.measure = .editDistance) (hthr : f.cfg.threshold = .int tau)
    (hres : filterCandset a (filterPairPy .size f (qgrams q pad)) cpu = .ok fr)
    (hd : qualED "<=" tau (strOf l a.lAttr ls) (strOf r a.rAttr rs) = true) :
    cr ∈ fr.rows :=
  candset_safe_of_pair a _ _ (filterPairPy_ok_eq _ _ _) cpu c l r fr hval hres cr ls rs hcr hls hrs hkl hkr
    (pair_safe_size_ed f tau q pad hm hthr _ _ hlp hrp hd)

/-- `filter_candset` of Size / Prefix / Position / SuffixFilter under EDIT_DISTANCE with an int threshold `τ` keeps a
    candidate row referencing two rows whose present strings are within distance `τ` and share a q-gram -/
theorem candset_safe_ed_int (k : FilterKind) (f : FilterObj) (tau : Int) (q : Nat) (pad : Bool)
    (hf : f.cfg = { measure := .editDistance, threshold := .int tau, qval := .int q })
    (hres : filterCandset a (filterPairPy k f (qgrams q pad)) cpu = .ok fr)
    (hd : qualED "<=" tau (strOf l a.lAttr ls) (strOf r a.rAttr rs) = true)
    (hshare : shareToken (qgrams q pad) (strOf l a.lAttr ls) (strOf r a.rAttr rs) = true) :
    cr ∈ fr.rows := by
  refine candset_safe_of_pair a _ _ (filterPairPy_ok_eq _ _ _) cpu c l r fr hval hres cr ls rs hcr hls hrs hkl hkr ?_
  cases k
  · exact pair_safe_size_ed f tau q pad (by rw [hf]) (by rw [hf]) _ _ hlp hrp hd
  · exact pair_safe_prefix_ed f tau q pad hf _ _ hlp hrp hd hshare
  · exact pair_safe_position_ed f tau q pad hf _ _ hlp hrp hd hshare
  · exact pair_safe_suffix_ed f tau q pad hf _ _ hlp hrp hd hshare

/-! ## c. OverlapFilter -/

/-- OverlapFilter.filter_candset is EXACT on present values: a returned call keeps a candidate row referencing two rows
    with present join values iff both strings are non-empty and the comparison `|A ∩ B| op overlap_size` holds -/
theorem candset_overlap_filter_exact (f : OverlapFilterObj) (tok : String → List Tok)
    (hres : filterCandset a (overlapFilterPairPy f tok) cpu = .ok fr) :
    cr ∈ fr.rows ↔
      (strOf l a.lAttr ls ≠ "" ∧ strOf r a.rAttr rs ≠ "" ∧
        compFn f.compOp (.int (interCount (tokensOf tok l a.lAttr ls) (tokensOf tok r a.rAttr rs))) f.overlapSize = true) :=
  (EntryFilters.filterCandset_mem_iff_overlap f tok a cpu c l r fr hval hres cr ls rs hcr hls hrs hkl hkr).trans
    (overlap_filter_pair_exact f tok _ _ hlp hrp)

/-- C04 for OverlapFilter.filter_candset: a candidate row whose two strings are non-empty and whose token overlap
    satisfies the comparison against `overlap_size` is kept -/
theorem candset_safe_overlap_filter (f : OverlapFilterObj) (tok : String → List Tok)
    (hres : filterCandset a (overlapFilterPairPy f tok) cpu = .ok fr)
    (hl0 : strOf l a.lAttr ls ≠ "") (hr0 : strOf r a.rAttr rs ≠ "")
    (ho : compFn f.compOp (.int (interCount (tokensOf tok l a.lAttr ls) (tokensOf tok r a.rAttr rs))) f.overlapSize = true) :
    cr ∈ fr.rows :=
  (candset_overlap_filter_exact a cpu c l r fr hval cr ls rs hcr hls hrs hkl hkr hlp hrp f tok hres).2 ⟨hl0, hr0, ho⟩

end CandsetInstances

/-- the analogue of `candset_keeps_iff_filter` for the OverlapFilter: with string filter columns `filter_pair` never
    raises, so `filter_candset` returns a frame with the candidate set's columns and keeps a row iff `overlapFilterPair`
    does not drop its pair -/
theorem candset_keeps_iff_overlap_filter (f : OverlapFilterObj) (tok : String → List Tok) (a : CandsetArgs) (cpu : Int)
    (c l r : Frame) (hval : EntryFilters.CandsetValid a c l r)
    (hsl : StrColumn l a.lAttr) (hsr : StrColumn r a.rAttr) :
    ∃ fr, filterCandset a (overlapFilterPairPy f tok) cpu = .ok fr ∧ fr.columns = c.columns ∧
      ∀ cr ∈ c.rows, ∀ ls ∈ l.rows, ∀ rs ∈ r.rows,
        keyOf l a.lKey ls = cr.cell (c.colIdx a.candLKey) → keyOf r a.rKey rs = cr.cell (c.colIdx a.candRKey) →
        (cr ∈ fr.rows ↔ overlapFilterPair f tok (valOf l a.lAttr ls) (valOf r a.rAttr rs) = false) :=
  EntryFilters.filterCandset_keeps_overlap f tok a cpu c l r hval hsl hsr

/-! ## non-vacuity -/
section NonVacuity
open EntryFilters.Ex

/-- OVERLAP, threshold 1, the one-row candidate set `exC` of C04.lean (rows 1 / 7: "x" ↦ {a,b}, "y" ↦ {a,c}, one common
    token): SuffixFilter's `filter_candset` returns and keeps the row -/
example : ∃ fr, filterCandset exCA (filterPairPy .suffix { cfg := { measure := .overlap, threshold := .int 1 } } exTok) 4
      = .ok fr ∧ [Cell.int 0, .int 1, .int 7] ∈ fr.rows := by
  obtain ⟨fr, hfr, -, -⟩ := candset_keeps_iff_filter .suffix { cfg := { measure := .overlap, threshold := .int 1 } }
    exTok exCA 4 exC exL exR exCA_valid (by decide) (by decide)
  exact ⟨fr, hfr, candset_safe_overlap_int exCA 4 exC exL exR fr exCA_valid _ [.int 1, .str "x"] [.int 7, .str "y"]
    (by decide) (by decide) (by decide) (by decide) (by decide) (by unfold Present; decide) (by unfold Present; decide)
    .suffix _ 1 rfl rfl (le_refl _) exTok exTok_nodup (fun s => lt_trans (exTok_small s) (by norm_num)) hfr (by decide)⟩

/-- the same candidate row under the OverlapFilter `overlap_size = 1`, `>=`: kept -/
example : ∃ fr, filterCandset exCA (overlapFilterPairPy { overlapSize := .int 1, compOp := ">=" } exTok) 4 = .ok fr ∧
    [Cell.int 0, .int 1, .int 7] ∈ fr.rows := by
  obtain ⟨fr, hfr, -, -⟩ := candset_keeps_iff_overlap_filter { overlapSize := .int 1, compOp := ">=" } exTok exCA 4
    exC exL exR exCA_valid (by decide) (by decide)
  exact ⟨fr, hfr, candset_safe_overlap_filter exCA 4 exC exL exR fr exCA_valid _ [.int 1, .str "x"] [.int 7, .str "y"]
    (by decide) (by decide) (by decide) (by decide) (by decide) (by unfold Present; decide) (by unfold Present; decide)
    _ exTok hfr (by decide) (by decide) (by decide)⟩

/-- EDIT_DISTANCE, τ = 1, padded 2-grams: tables holding "abc" / "abd" (distance 1, common 2-gram "ab") and a one-row
    candidate set referencing them (`n_jobs = 2`): PositionFilter's `filter_candset` returns and keeps the row -/
def exLq : Frame := { columns := ["id", "name"], rows := [[.int 1, .str "abc"], [.int 2, .missing]] }
def exRq : Frame := { columns := ["id", "name"], rows := [[.int 7, .str "abd"]] }
def exCq : Frame := { columns := ["_id", "l_id", "r_id"], rows := [[.int 0, .int 1, .int 7]] }
def exCAq : CandsetArgs :=
  { candset := some exCq, candLKey := "l_id", candRKey := "r_id", ltable := some exLq, rtable := some exRq,
    lKey := "id", rKey := "id", lAttr := "name", rAttr := "name", nJobs := 2 }

theorem exCAq_valid : EntryFilters.CandsetValid exCAq exCq exLq exRq :=
  ⟨rfl, rfl, rfl, by decide, by decide, by decide, by decide, by decide, by decide, by decide, by decide, by decide,
    by decide, by decide, by decide⟩

example : ∃ fr, filterCandset exCAq (filterPairPy .position
      { cfg := { measure := .editDistance, threshold := .int 1, qval := .int 2 } } (qgrams 2 true)) 4 = .ok fr ∧
    [Cell.int 0, .int 1, .int 7] ∈ fr.rows := by
  obtain ⟨fr, hfr, -, -⟩ := candset_keeps_iff_filter .position
    { cfg := { measure := .editDistance, threshold := .int 1, qval := .int 2 } } (qgrams 2 true) exCAq 4
    exCq exLq exRq exCAq_valid (by decide) (by decide)
  exact ⟨fr, hfr, candset_safe_ed_int exCAq 4 exCq exLq exRq fr exCAq_valid _ [.int 1, .str "abc"] [.int 7, .str "abd"]
    (by decide) (by decide) (by decide) (by decide) (by decide) (by unfold Present; decide) (by unfold Present; decide)
    .position _ 1 2 true rfl hfr ((EntryED.qualED_le_iff _ _ _).2 (by decide)) (by decide)⟩

end NonVacuity

/-- info: 'SSJ.Props.C04.candset_safe_overlap_int' depends on axioms: [propext, Classical.choice, Quot.sound] -/
#guard_msgs in #print axioms candset_safe_overlap_int
/-- info: 'SSJ.Props.C04.candset_safe_size_ed_int' depends on axioms: [propext, Classical.choice, Quot.sound] -/
#guard_msgs in #print axioms candset_safe_size_ed_int
/-- info: 'SSJ.Props.C04.candset_safe_ed_int' depends on axioms: [propext, Classical.choice, Quot.sound] -/
#guard_msgs in #print axioms candset_safe_ed_int
/-- info: 'SSJ.Props.C04.candset_overlap_filter_exact' depends on axioms: [propext, Classical.choice, Quot.sound] -/
#guard_msgs in #print axioms candset_overlap_filter_exact
/-- info: 'SSJ.Props.C04.candset_safe_overlap_filter' depends on axioms: [propext, Classical.choice, Quot.sound] -/
#guard_msgs in #print axioms candset_safe_overlap_filter
/-- info: 'SSJ.Props.C04.candset_keeps_iff_overlap_filter' depends on axioms: [propext, Classical.choice, Quot.sound] -/
#guard_msgs in #print axioms candset_keeps_iff_overlap_filter

end SSJ.Props.C04

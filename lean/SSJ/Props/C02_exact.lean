/-
  C02 (exact joins) — soundness, uniqueness and score of `overlap_join` and `overlap_coefficient_join`.

  Property C02: "Every output row of the five set-similarity joins that does not stem from a missing value names an
  existing left key and right key, occurs at most once per key pair, and the similarity recomputed independently from the
  two rows' join values satisfies the requested comparison against the threshold.  When requested, _sim_score equals that
  similarity (… unrounded for overlap coefficient, the integer overlap for overlap_join, 1.0 for admitted empty-empty
  pairs)."

  Model functions: `overlapJoinPy a t toks cpu` (= `overlap_join_py`: OverlapFilter constructed from the arguments, then
  `OverlapFilter.filter_tables` with the tokenizer in set mode) and `overlapCoefficientJoinPy a t toks cpu` of
  `SSJ/Model/Frame.lean`; DataFrame in, DataFrame out.

  Hypotheses (the same in every theorem):
  * the call's arguments are valid —
      overlap_join:             `mkOverlapFilter a.threshold a.compOp a.allowMissing t = .ok f` (tokenizer object, threshold > 0,
                                operator in {>=, >, =}), `validateTablesAttrs a.toTableArgs = .ok (l, r)` (tables, key and join
                                columns, string dtype) and `validateOutAndKeys a.toTableArgs l r = .ok ()` (output columns
                                exist, keys unique and present);
      overlap_coefficient_join: `validateJoin "OVERLAP_COEFFICIENT" a t = .ok (l, r)` (all of the above, threshold in (0,1]);
  * the tokenizer in set mode returns duplicate-free token lists (`∀ s, (toks true s).Nodup`); no bound on their length;
  * the right table has fewer than 2^40 rows (under which `split_table`'s float arithmetic provably partitions it).
  Everything else is arbitrary: the tables and whatever other rows they contain, the tokenizer function, threshold,
  operator, `allow_empty`, `allow_missing`, output attributes, prefixes, `out_sim_score`, `n_jobs`, the CPU count.

  Vocabulary (`SSJ/Props/Common.lean`): a result row is `_id :: left key :: right key :: …`; `rowKeys row` are its two key
  cells, `rowScore row` its last cell; `keyOf`/`valOf` are the key / join cell of a source row, `Present` says the join
  value is not None/NaN, `tokensOf (toks true) l a.lAttr ls` is the token list of the row's join value.
  `interCount A B` is `|set(A) ∩ set(B)|`; `Spec.ovcScore A B` is `float(|A∩B|) / min(|A|,|B|)` in double precision, NOT
  rounded; `Spec.bothEmpty A B` says both token lists are empty; `compFn op x thr` is `COMP_OP_MAP[op](x, thr)`.

  `overlap_sound` / `ovc_sound`: EVERY row of the result names an existing left row and an existing right row by their
  keys; if both join values are present the pair qualifies (recomputed from the two join values with `interCount` /
  `Spec.ovcScore`) and, with `out_sim_score`, the last cell is exactly the stated score; otherwise (the row stems from a
  missing value) `allow_missing` was requested and the score cell is missing.  `overlap_once` / `ovc_once`: no key pair
  occurs twice — in the whole result, rows from missing values included.  `overlap_score` / `ovc_score`: the score of the
  row of a given present pair.  (The converse, completeness, is C01_exact.lean.)

  NOT covered here: jaccard / cosine / dice (files C01.lean, C02.lean, C09.lean); the rows produced for missing join values
  are only located (they name existing rows, appear only with `allow_missing`, carry a missing score) — their exact list
  is property C08; the restoration of the tokenizer flag is C12; rejected calls are C15.
-/
import SSJ.Proofs.EntryExact

namespace SSJ.Props.C02
open SSJ SSJ.Props

/-- (C02, overlap_join) every result row names an existing left and right row; if both join values are present, the two
    token sets share at least one token, their number of common tokens satisfies the comparison against the threshold
    and (with `out_sim_score`) is the row's `_sim_score`, as an integer; a row of a missing join value occurs only under
    `allow_missing` and carries a missing score. -/
theorem overlap_sound (a : JoinArgs) (t : TokObj) (toks : TokFn) (cpu : Int) (f : OverlapFilterObj) (l r : Frame)
    (hf : mkOverlapFilter a.threshold a.compOp a.allowMissing t = .ok f)
    (hv : validateTablesAttrs a.toTableArgs = .ok (l, r))
    (hk : validateOutAndKeys a.toTableArgs l r = .ok ())
    (hnd : ∀ s, (toks true s).Nodup) (hlen : r.rows.length < 2 ^ 40)
    (fr : Frame) (hfr : (overlapJoinPy a t toks cpu).result = .ok fr) :
    ∀ row ∈ fr.rows, ∃ ls ∈ l.rows, ∃ rs ∈ r.rows,
      rowKeys row = (keyOf l a.lKey ls, keyOf r a.rKey rs) ∧
      ((Present l a.lAttr ls ∧ Present r a.rAttr rs ∧
          1 ≤ interCount (tokensOf (toks true) l a.lAttr ls) (tokensOf (toks true) r a.rAttr rs) ∧
          compFn a.compOp (.int (interCount (tokensOf (toks true) l a.lAttr ls) (tokensOf (toks true) r a.rAttr rs)))
            a.threshold = true ∧
          (a.outSimScore = true →
            rowScore row = .int (interCount (tokensOf (toks true) l a.lAttr ls) (tokensOf (toks true) r a.rAttr rs)))) ∨
       (¬(Present l a.lAttr ls ∧ Present r a.rAttr rs) ∧ a.allowMissing = true ∧
          (a.outSimScore = true → rowScore row = .missing))) := by
  have hd := EX.overlapJoinPy_described_of_ok a t toks cpu f l r hnd hf hv hk hlen fr hfr
  obtain ⟨hkl, hkr⟩ := validateOutAndKeys_keys _ l r hk
  obtain ⟨hthr, hop⟩ := EX.mkOverlapFilter_valid _ _ _ _ _ hf
  intro row hrow
  obtain ⟨ls, hls, rs, hrs, hkeys, hcase⟩ := hd.sound row hrow
  refine ⟨ls, hls, rs, hrs, hkeys, ?_⟩
  rcases hcase with ⟨hpl, hpr, s, hs, hsc⟩ | hm
  · refine Or.inl ⟨hpl, hpr, hs.1, hs.2.2, fun ho => ?_⟩
    rw [hsc ho]
    exact hs.2.1
  · exact Or.inr hm

/-- (C02, overlap_coefficient_join) every result row names an existing left and right row; if both join values are
    present, then either both token sets are empty, `allow_empty` holds and the score is 1.0, or the sets share a token,
    the unrounded overlap coefficient satisfies the comparison against the threshold and is the row's `_sim_score`;
    a row of a missing join value occurs only under `allow_missing` and carries a missing score. -/
theorem ovc_sound (a : JoinArgs) (t : TokObj) (toks : TokFn) (cpu : Int) (l r : Frame)
    (hv : validateJoin "OVERLAP_COEFFICIENT" a t = .ok (l, r))
    (hnd : ∀ s, (toks true s).Nodup) (hlen : r.rows.length < 2 ^ 40)
    (fr : Frame) (hfr : (overlapCoefficientJoinPy a t toks cpu).result = .ok fr) :
    ∀ row ∈ fr.rows, ∃ ls ∈ l.rows, ∃ rs ∈ r.rows,
      rowKeys row = (keyOf l a.lKey ls, keyOf r a.rKey rs) ∧
      ((Present l a.lAttr ls ∧ Present r a.rAttr rs ∧
          ((Spec.bothEmpty (tokensOf (toks true) l a.lAttr ls) (tokensOf (toks true) r a.rAttr rs) = true ∧
              a.allowEmpty = true ∧ (a.outSimScore = true → rowScore row = .flt 1)) ∨
           (1 ≤ interCount (tokensOf (toks true) l a.lAttr ls) (tokensOf (toks true) r a.rAttr rs) ∧
              compFn a.compOp (Spec.ovcScore (tokensOf (toks true) l a.lAttr ls) (tokensOf (toks true) r a.rAttr rs))
                a.threshold = true ∧
              (a.outSimScore = true → rowScore row =
                scoreCell (Spec.ovcScore (tokensOf (toks true) l a.lAttr ls) (tokensOf (toks true) r a.rAttr rs)))))) ∨
       (¬(Present l a.lAttr ls ∧ Present r a.rAttr rs) ∧ a.allowMissing = true ∧
          (a.outSimScore = true → rowScore row = .missing))) := by
  have hd := EX.overlapCoefficientJoinPy_described_of_ok a t toks cpu l r hnd hv hlen fr hfr
  obtain ⟨hkl, hkr⟩ := validateOutAndKeys_of_validateJoin _ a t l r hv
  obtain ⟨hthr, hop⟩ := EX.ovc_valid_thr_op a t l r hv
  intro row hrow
  obtain ⟨ls, hls, rs, hrs, hkeys, hcase⟩ := hd.sound row hrow
  refine ⟨ls, hls, rs, hrs, hkeys, ?_⟩
  rcases hcase with ⟨hpl, hpr, s, hs, hsc⟩ | hm
  · refine Or.inl ⟨hpl, hpr, ?_⟩
    rcases hs with ⟨h1, h2, h3⟩ | ⟨h1, h2, h3⟩
    · exact Or.inl ⟨h1, h2, fun ho => by rw [hsc ho, h3]⟩
    · exact Or.inr ⟨h1, h3, fun ho => by rw [hsc ho, h2]; rfl⟩
  · exact Or.inr hm

/-- (C02, overlap_join) no key pair occurs twice in the result -/
theorem overlap_once (a : JoinArgs) (t : TokObj) (toks : TokFn) (cpu : Int) (f : OverlapFilterObj) (l r : Frame)
    (hf : mkOverlapFilter a.threshold a.compOp a.allowMissing t = .ok f)
    (hv : validateTablesAttrs a.toTableArgs = .ok (l, r))
    (hk : validateOutAndKeys a.toTableArgs l r = .ok ())
    (hnd : ∀ s, (toks true s).Nodup) (hlen : r.rows.length < 2 ^ 40)
    (fr : Frame) (hfr : (overlapJoinPy a t toks cpu).result = .ok fr) :
    (fr.rows.map rowKeys).Nodup :=
  (EX.overlapJoinPy_described_of_ok a t toks cpu f l r hnd hf hv hk hlen fr hfr).once

/-- (C02, overlap_coefficient_join) no key pair occurs twice in the result -/
theorem ovc_once (a : JoinArgs) (t : TokObj) (toks : TokFn) (cpu : Int) (l r : Frame)
    (hv : validateJoin "OVERLAP_COEFFICIENT" a t = .ok (l, r))
    (hnd : ∀ s, (toks true s).Nodup) (hlen : r.rows.length < 2 ^ 40)
    (fr : Frame) (hfr : (overlapCoefficientJoinPy a t toks cpu).result = .ok fr) :
    (fr.rows.map rowKeys).Nodup :=
  (EX.overlapCoefficientJoinPy_described_of_ok a t toks cpu l r hnd hv hlen fr hfr).once

/-- (C02, overlap_join) the `_sim_score` of the row of a present pair is the integer number of common tokens -/
theorem overlap_score (a : JoinArgs) (t : TokObj) (toks : TokFn) (cpu : Int) (f : OverlapFilterObj) (l r : Frame)
    (hf : mkOverlapFilter a.threshold a.compOp a.allowMissing t = .ok f)
    (hv : validateTablesAttrs a.toTableArgs = .ok (l, r))
    (hk : validateOutAndKeys a.toTableArgs l r = .ok ())
    (hnd : ∀ s, (toks true s).Nodup) (hlen : r.rows.length < 2 ^ 40)
    (fr : Frame) (hfr : (overlapJoinPy a t toks cpu).result = .ok fr)
    (ls : Row) (hls : ls ∈ l.rows) (rs : Row) (hrs : rs ∈ r.rows)
    (hpl : Present l a.lAttr ls) (hpr : Present r a.rAttr rs)
    (ho : a.outSimScore = true) (row : Row) (hrow : row ∈ fr.rows)
    (hkeys : rowKeys row = (keyOf l a.lKey ls, keyOf r a.rKey rs)) :
    rowScore row = .int (interCount (tokensOf (toks true) l a.lAttr ls) (tokensOf (toks true) r a.rAttr rs)) := by
  have hd := EX.overlapJoinPy_described_of_ok a t toks cpu f l r hnd hf hv hk hlen fr hfr
  obtain ⟨hkl, hkr⟩ := validateOutAndKeys_keys _ l r hk
  obtain ⟨hthr, hop⟩ := EX.mkOverlapFilter_valid _ _ _ _ _ hf
  obtain ⟨s, hs, hsc⟩ := hd.of_keys hkl hkr ls hls rs hrs hpl hpr row hrow hkeys
  rw [hsc ho]
  exact hs.2.1

/-- (C02, overlap_coefficient_join) the `_sim_score` of the row of a present pair is 1.0 for an (admitted) empty-empty
    pair and otherwise the overlap coefficient as computed in double precision, not rounded -/
theorem ovc_score (a : JoinArgs) (t : TokObj) (toks : TokFn) (cpu : Int) (l r : Frame)
    (hv : validateJoin "OVERLAP_COEFFICIENT" a t = .ok (l, r))
    (hnd : ∀ s, (toks true s).Nodup) (hlen : r.rows.length < 2 ^ 40)
    (fr : Frame) (hfr : (overlapCoefficientJoinPy a t toks cpu).result = .ok fr)
    (ls : Row) (hls : ls ∈ l.rows) (rs : Row) (hrs : rs ∈ r.rows)
    (hpl : Present l a.lAttr ls) (hpr : Present r a.rAttr rs)
    (ho : a.outSimScore = true) (row : Row) (hrow : row ∈ fr.rows)
    (hkeys : rowKeys row = (keyOf l a.lKey ls, keyOf r a.rKey rs)) :
    rowScore row = if Spec.bothEmpty (tokensOf (toks true) l a.lAttr ls) (tokensOf (toks true) r a.rAttr rs) then .flt 1
      else scoreCell (Spec.ovcScore (tokensOf (toks true) l a.lAttr ls) (tokensOf (toks true) r a.rAttr rs)) := by
  have hd := EX.overlapCoefficientJoinPy_described_of_ok a t toks cpu l r hnd hv hlen fr hfr
  obtain ⟨hkl, hkr⟩ := validateOutAndKeys_of_validateJoin _ a t l r hv
  obtain ⟨hthr, hop⟩ := EX.ovc_valid_thr_op a t l r hv
  obtain ⟨s, hs, hsc⟩ := hd.of_keys hkl hkr ls hls rs hrs hpl hpr row hrow hkeys
  rw [hsc ho]
  exact EX.POvc_score _ _ _ _ _ _ _ hs

/-! ### non-vacuity: a concrete call satisfying all hypotheses -/
namespace Example

/-- a (set-mode) tokenizer given by a table: whitespace tokens of the four strings used below -/
def tk : TokFn := fun _ s =>
  if s = "a b" then ["a", "b"] else if s = "b c" then ["b", "c"] else if s = "b" then ["b"] else []

theorem tk_nodup : ∀ s, (tk true s).Nodup := by
  intro s; unfold tk; split_ifs <;> decide

def L : Frame := { columns := ["id", "s"], dtypes := ["int64", "object"],
                   rows := [[.int 1, .str "a b"], [.int 2, .str ""], [.int 3, .missing]] }
def R : Frame := { columns := ["rid", "u"], dtypes := ["int64", "object"],
                   rows := [[.int 7, .str "b c"], [.int 8, .str ""], [.int 9, .str "b"]] }
/-- `threshold = 1`, `comp_op = ">="`, `allow_empty = True`, `allow_missing = False`, `out_sim_score = True`, `n_jobs = 1` -/
def A : JoinArgs := { ltable := some L, rtable := some R, lKey := "id", rKey := "rid", lAttr := "s", rAttr := "u",
                      threshold := .int 1 }
def F : OverlapFilterObj := { overlapSize := .int 1, compOp := ">=" }

example : mkOverlapFilter A.threshold A.compOp A.allowMissing {} = .ok F := rfl
example : validateTablesAttrs A.toTableArgs = .ok (L, R) := by decide
example : validateOutAndKeys A.toTableArgs L R = .ok () := by decide
example : validateJoin "OVERLAP_COEFFICIENT" A {} = .ok (L, R) := by decide
example : R.rows.length < 2 ^ 40 := by decide

/-- the overlap join of the two tables with `allow_missing`: two qualifying pairs, then the pairs of the missing value -/
example : (overlapJoinPy { A with allowMissing := true } {} tk 1).result =
    .ok { columns := ["_id", "l_id", "r_rid", "_sim_score"], index := [.int 0, .int 1, .int 0, .int 1, .int 2],
          rows := [[.int 0, .int 1, .int 7, .int 1], [.int 1, .int 1, .int 9, .int 1],
                   [.int 2, .int 3, .int 7, .missing], [.int 3, .int 3, .int 8, .missing],
                   [.int 4, .int 3, .int 9, .missing]] } := by decide

/-- `overlap_sound` and `ovc_sound` apply to the concrete call -/
example (fr : Frame) (hfr : (overlapJoinPy A {} tk 1).result = .ok fr) := 
  overlap_sound A {} tk 1 F L R rfl (by decide) (by decide) tk_nodup (by decide) fr hfr
example (fr : Frame) (hfr : (overlapCoefficientJoinPy A {} tk 1).result = .ok fr) :=
  ovc_sound A {} tk 1 L R (by decide) tk_nodup (by decide) fr hfr

end Example

end SSJ.Props.C02

/-
  C10 (row order, the four ordering-dependent filters) — the FULL result of
  Size/Prefix/Position/SuffixFilter.filter_tables, superfluous candidates included, under row permutations.

  "The result of every entry point, including Prefix/Position/SuffixFilter.filter_tables (whose superfluous candidates
   may legitimately vary with the chunking, never the qualifying pairs), is unchanged by permuting the rows of either
   table."

  (`Props/C10_presentation.lean` proves row-permutation invariance for the joins and OverlapFilter and, for these four
  filters, only for the block of missing-value rows.  This file adds everything else.)

  WHY IT HOLDS.  Prefix/Position/SuffixFilter sort the tokens of every record by a GLOBAL TOKEN ORDER computed per
  chunk (`genTokenOrdering`: rarest first, ties alphabetical) over the token lists of the left table and of the chunk
  of the right table.  That order is a function of the MULTISET of token lists (`genTokenOrdering_perm`): the
  frequencies are counts, and a list of pairwise different tokens has exactly one sorted arrangement.  (A
  tie-break by insertion order instead of alphabetical would break exactly this.)  Everything a filter then decides
  about a pair of rows is a function of the two rows, of that order and — PositionFilter — of the smallest and
  largest left record; the order in which the index is filled only changes the order of the output.

  MODEL.  `filterTables k f a t toks cpu` (SSJ/Model/Frame.lean) for `k : FilterKind` = size / prefix / position /
  suffix; `genTokenOrdering`, `orderUsing` (SSJ/Model/TokenOrdering.lean); the chunking `chunksFor`, `numProcesses`.
  `a.withTables l' r'` is the same call on the tables `l'`, `r'`; `EP.RowsPermuted l r l' r'`: `l'`/`r'` have the
  columns and dtypes of `l`/`r` and their rows are `List.Perm`-permutations (vocabulary of `C10_presentation`).
  The VALUE ROWS of a result are its rows without the leading `_id` cell (`rows.map (·.drop 1)`): `_id` numbers the
  rows in output order, and the output order does change (the index is filled in another order), so the statement is
  "permutation of the value rows" and cannot be "equal frames".

  WHAT IS PROVED (all four filter kinds, any filter object / measure / threshold / tokenizer function, any output
  attributes and prefixes, `allow_missing` either way):
  1. `genTokenOrdering_perm` (+ `_rank`, `orderUsing_perm`, `table_token_order_perm`): the token order of permuted
     token lists is the SAME list of (token, rank) pairs; so every token has the same rank and every record the same
     rank list.
  2. `filter_perm_left`: LEFT rows permuted, ANY `n_jobs` and cpu count: both calls return, same columns, value rows
     permuted.  (Every chunk sees the whole left table.)
  3. `filter_perm_single_chunk` / `filter_perm_njobs_one`: BOTH tables permuted, the right table processed as ONE chunk
     (`n_jobs` ∈ {0, 1}, or a negative `n_jobs` with `cpu + 1 + n_jobs ≤ 1`): same conclusion, also for different
     cpu counts.  General form `filter_perm_chunkwise`: it suffices that the chunks of the two calls are pairwise
     permutations of each other (e.g. right rows permuted only inside the chunks).
  4. `filter_perm_size`: SizeFilter (no token order): BOTH tables permuted, ANY `n_jobs`, any two cpu counts.
  5. SEVERAL CHUNKS, right rows moved ACROSS chunks (Prefix/Position/Suffix): the value rows are in general NOT
     permutations of each other — `several_chunks_counterexample` (PrefixFilter, kernel-checked; PositionFilter
     behaves the same on that input, evaluated by `#guard`): a pair of similarity 1/3 listed under threshold 0.8 by one
     row order of the right table and not by another (`n_jobs = 2`).  Reason: the composition of a chunk
     changes the token frequencies, hence the per-chunk token order, hence the prefixes.  What never varies are the
     QUALIFYING pairs: `C04.tables_safe_size / _prefix / _position / _suffix` (and the `_ed`, `_overlap` variants) list
     every pair meeting the threshold for every chunking and every row order; the missing-value rows are permuted
     (`presentation_row_permutation_missing`).

  HYPOTHESES, in plain words: the first call's table arguments pass validation (`validateTablesAttrs`,
  `validateOutAndKeys`; validity of the second call is derived), the body conditions `BodyOK` (present join values
  are strings, no `_id` in the output header — exactly what `C04.tables_returns_frame` needs to conclude that
  `filter_tables` returns; invariant under row permutation).  `filter_perm_size` additionally: fewer than 2^40 right
  rows (so that `split_table`'s float boundaries provably partition the table).  NO hypothesis on the tokenizer
  (bags or sets), the measure or the threshold.

  NOT COVERED.  `_id` and the DataFrame index under row permutation (positional).  Python-level effects (hash
  randomisation, other processes): the model's dictionaries are insertion-ordered association lists.
-/
import SSJ.Proofs.OrderingPerm
import SSJ.Props.C04

namespace SSJ.Props.C10
open SSJ SSJ.Props SSJ.EP

/-! ## 1. the global token order depends on the multiset of token lists only -/

/-- TOKEN ORDER: permuting the token lists (the rows of the tables, the two tables among each other, …) does not
    change the token order at all — the association list token ↦ rank is the same list -/
theorem genTokenOrdering_perm {ls ls' : List (List Tok)} (h : ls'.Perm ls) :
    genTokenOrdering ls' = genTokenOrdering ls :=
  OrderingPerm.genTokenOrdering_perm h

/-- … more generally it depends only on the multiset of all token occurrences -/
theorem genTokenOrdering_flatten_perm {ls ls' : List (List Tok)} (h : ls'.flatten.Perm ls.flatten) :
    genTokenOrdering ls' = genTokenOrdering ls :=
  genTokenOrdering_perm_invariant _ _ h

/-- every token has the same rank (or none) under both orders -/
theorem genTokenOrdering_perm_rank {ls ls' : List (List Tok)} (h : ls'.Perm ls) (t : Tok) :
    Dict.get? (genTokenOrdering ls') t = Dict.get? (genTokenOrdering ls) t := by
  rw [genTokenOrdering_perm h]

/-- every record gets the same rank list -/
theorem orderUsing_perm {ls ls' : List (List Tok)} (h : ls'.Perm ls) (toks : List Tok) :
    orderUsing toks (genTokenOrdering ls') = orderUsing toks (genTokenOrdering ls) := by
  rw [genTokenOrdering_perm h]

/-- the order a chunk's worker computes (`gen_token_ordering_for_tables` on the left array `L` and the chunk `R`) is
    the same for permuted arrays -/
theorem table_token_order_perm (tok : String → List Tok) (la ra : Nat) {L L' R R' : List Row}
    (hL : L'.Perm L) (hR : R'.Perm R) :
    genTokenOrdering (L'.map (fun row => tok (row.cell la).strVal) ++ R'.map (fun row => tok (row.cell ra).strVal)) =
      genTokenOrdering (L.map (fun row => tok (row.cell la).strVal) ++ R.map (fun row => tok (row.cell ra).strVal)) :=
  genTokenOrdering_perm ((hL.map _).append (hR.map _))

/-- PER CHUNK (`_filter_tables_split` of any of the four filters on projected arrays): permuting the left array and
    the chunk permutes the emitted rows, provided the key cells of the left array and of the chunk are pairwise
    different (validated key columns) -/
theorem filter_split_perm (k : FilterKind) (f : FilterObj) (tok : String → List Tok) (o : OutCfg) (la ra : Nat)
    {L L' R R' : List Row} (hL : L'.Perm L) (hR : R'.Perm R)
    (hkl : (L.map (fun x => x.cell o.lKey)).Nodup) (hkr : (R.map (fun x => x.cell o.rKey)).Nodup) :
    (filterTablesSplit k f tok o la ra L' R').Perm (filterTablesSplit k f tok o la ra L R) :=
  OrderingPerm.filterTablesSplit_perm f tok la ra k o hL hR hkl hkr

/-! ## 2. left rows permuted, any `n_jobs` -/

/-- LEFT ROWS, ANY `n_jobs`: `l'` is `l` with its rows permuted (same columns and dtypes, any index).  Both calls
    return frames with the same columns whose value rows (rows without `_id`: keys, output attributes; qualifying
    pairs, superfluous candidates and missing-value rows alike) are permutations of each other -/
theorem filter_perm_left (k : FilterKind) (f : FilterObj) (a : TableArgs) (t : TokObj) (toks : TokFn) (cpu : Int)
    (l r l' : Frame) (hv : validateTablesAttrs a = .ok (l, r)) (hk : validateOutAndKeys a l r = .ok ())
    (hb : BodyOK a l r false)
    (hc : l'.columns = l.columns) (hd : l'.dtypes = l.dtypes) (hp : l'.rows.Perm l.rows) :
    ∃ fr fr', filterTables k f a t toks cpu = .ok fr ∧
      filterTables k f (a.withTables l' r) t toks cpu = .ok fr' ∧
      fr.columns = fr'.columns ∧
      (fr.rows.map (fun row => row.drop 1)).Perm (fr'.rows.map (fun row => row.drop 1)) := by
  obtain ⟨fr, fr', h1, h2, h3, h4⟩ := OrderingPerm.filterTables_perm_left k f a t toks cpu l r l' hv hk hb hc hd hp
  exact ⟨fr, fr', h1, h2, h3.symm, h4.symm⟩

/-! ## 3. both tables permuted, one chunk -/

/-- BOTH TABLES, ONE CHUNK: when the number of worker processes is 1 in both calls
    (`numProcesses n_jobs cpu = max (if n_jobs < 0 then cpu + 1 + n_jobs else n_jobs) 1`, `C10.num_processes`), i.e.
    the right table is processed as a whole, permuting the rows of BOTH tables permutes the value rows -/
theorem filter_perm_single_chunk (k : FilterKind) (f : FilterObj) (a : TableArgs) (t : TokObj) (toks : TokFn)
    (cpu cpu' : Int) (l r l' r' : Frame)
    (hv : validateTablesAttrs a = .ok (l, r)) (hk : validateOutAndKeys a l r = .ok ())
    (hb : BodyOK a l r false) (hp : RowsPermuted l r l' r')
    (h1 : numProcesses a.nJobs cpu ≤ 1) (h1' : numProcesses a.nJobs cpu' ≤ 1) :
    ∃ fr fr', filterTables k f a t toks cpu = .ok fr ∧
      filterTables k f (a.withTables l' r') t toks cpu' = .ok fr' ∧
      fr.columns = fr'.columns ∧
      (fr.rows.map (fun row => row.drop 1)).Perm (fr'.rows.map (fun row => row.drop 1)) := by
  obtain ⟨fr, fr', e1, e2, e3, e4⟩ := OrderingPerm.filterTables_perm_single k f a t toks cpu cpu' l r l' r' hv hk hb hp
    (le_trans (min_le_left _ _) h1) (le_trans (min_le_left _ _) h1')
  exact ⟨fr, fr', e1, e2, e3.symm, e4.symm⟩

/-- … in particular for the default `n_jobs = 1`, whatever the two machines' cpu counts -/
theorem filter_perm_njobs_one (k : FilterKind) (f : FilterObj) (a : TableArgs) (t : TokObj) (toks : TokFn)
    (cpu cpu' : Int) (l r l' r' : Frame)
    (hv : validateTablesAttrs a = .ok (l, r)) (hk : validateOutAndKeys a l r = .ok ())
    (hb : BodyOK a l r false) (hp : RowsPermuted l r l' r') (hj : a.nJobs = 1) :
    ∃ fr fr', filterTables k f a t toks cpu = .ok fr ∧
      filterTables k f (a.withTables l' r') t toks cpu' = .ok fr' ∧
      fr.columns = fr'.columns ∧
      (fr.rows.map (fun row => row.drop 1)).Perm (fr'.rows.map (fun row => row.drop 1)) := by
  have h : ∀ c, numProcesses a.nJobs c ≤ 1 := fun c => by rw [hj, numProcesses_spec]; simp
  exact filter_perm_single_chunk k f a t toks cpu cpu' l r l' r' hv hk hb hp (h cpu) (h cpu')

/-- GENERAL FORM: both tables permuted, any `n_jobs` / cpu counts, provided the chunks the two calls cut the right
    array into (`RT.rArr a r` = the projected right rows with a present join value, in table order; `chunksFor` =
    `split_table` under the `n_jobs` rules) are pairwise permutations of each other — e.g. right rows permuted
    inside the chunks only.  `filter_perm_left` (same chunks) and `filter_perm_single_chunk` are instances. -/
theorem filter_perm_chunkwise (k : FilterKind) (f : FilterObj) (a : TableArgs) (t : TokObj) (toks : TokFn)
    (cpu cpu' : Int) (l r l' r' : Frame)
    (hv : validateTablesAttrs a = .ok (l, r)) (hk : validateOutAndKeys a l r = .ok ())
    (hb : BodyOK a l r false) (hp : RowsPermuted l r l' r')
    (hch : List.Forall₂ List.Perm (chunksFor (RT.rArr a r') a.nJobs cpu') (chunksFor (RT.rArr a r) a.nJobs cpu)) :
    ∃ fr fr', filterTables k f a t toks cpu = .ok fr ∧
      filterTables k f (a.withTables l' r') t toks cpu' = .ok fr' ∧
      fr.columns = fr'.columns ∧
      (fr.rows.map (fun row => row.drop 1)).Perm (fr'.rows.map (fun row => row.drop 1)) := by
  obtain ⟨fr, fr', e1, e2, e3, e4⟩ :=
    OrderingPerm.filterTables_perm_of_chunks k f a t toks cpu cpu' l r l' r' hv hk hb hp hch
  exact ⟨fr, fr', e1, e2, e3.symm, e4.symm⟩

/-! ## 4. SizeFilter: any chunking -/

/-- SIZEFILTER (no token order): BOTH tables permuted, ANY `n_jobs`, any two cpu counts -/
theorem filter_perm_size (f : FilterObj) (a : TableArgs) (t : TokObj) (toks : TokFn) (cpu cpu' : Int)
    (l r l' r' : Frame) (hv : validateTablesAttrs a = .ok (l, r)) (hk : validateOutAndKeys a l r = .ok ())
    (hb : BodyOK a l r false) (hp : RowsPermuted l r l' r') (hrows : r.rows.length < 2 ^ 40) :
    ∃ fr fr', filterTables .size f a t toks cpu = .ok fr ∧
      filterTables .size f (a.withTables l' r') t toks cpu' = .ok fr' ∧
      fr.columns = fr'.columns ∧
      (fr.rows.map (fun row => row.drop 1)).Perm (fr'.rows.map (fun row => row.drop 1)) := by
  obtain ⟨fr, fr', e1, e2, e3, e4⟩ := OrderingPerm.filterTables_size_perm f a t toks cpu cpu' l r l' r' hv hk hb hp hrows
  exact ⟨fr, fr', e1, e2, e3.symm, e4.symm⟩

/-! ## non-vacuity, and the counterexample for several chunks -/

namespace FilterPermExample

/-- a set tokenizer given by a table (whitespace tokens of the strings used below) -/
def tk : TokFn := fun _ s =>
  if s = "a b" then ["a", "b"] else if s = "a c" then ["a", "c"] else if s = "b c" then ["b", "c"]
  else if s = "x" then ["x"] else if s = "y" then ["y"] else []

def L : Frame := { columns := ["id", "s"], dtypes := ["int64", "object"], index := [.int 0, .int 1, .int 2],
                   rows := [[.int 1, .str "a b"], [.int 2, .str "y"], [.int 3, .missing]] }
def R : Frame := { columns := ["rid", "u"], dtypes := ["int64", "object"], index := [.int 0, .int 1, .int 2, .int 3],
                   rows := [[.int 7, .str "a c"], [.int 8, .str "b c"], [.int 9, .str "x"], [.int 10, .str "y"]] }
/-- `L` with its rows in another order -/
def L' : Frame := { L with rows := [[.int 3, .missing], [.int 2, .str "y"], [.int 1, .str "a b"]] }
/-- `R` with rows 8 and 9 exchanged: with two chunks they change chunks -/
def R' : Frame := { R with rows := [[.int 7, .str "a c"], [.int 9, .str "x"], [.int 8, .str "b c"], [.int 10, .str "y"]] }

/-- `filter.filter_tables(L, R, 'id', 'rid', 's', 'u', n_jobs=nj)` for a filter with `allow_missing=True` -/
def A (nj : Int) : TableArgs :=
  { ltable := some L, rtable := some R, lKey := "id", rKey := "rid", lAttr := "s", rAttr := "u", nJobs := nj }
/-- JACCARD, threshold 0.8 -/
def F : FilterObj := { cfg := { measure := .jaccard, threshold := .float (4 / 5) }, allowMissing := true }
def T : TokObj := { returnSet := true }

theorem permuted : RowsPermuted L R L' R' := ⟨rfl, rfl, by decide, rfl, rfl, by decide⟩
theorem valid (nj : Int) : validateTablesAttrs (A nj) = .ok (L, R) := by
  have h : validateTablesAttrs (A nj) = validateTablesAttrs (A 1) := rfl
  rw [h]
  exact (validateTablesAttrs_ok_iff _ L R).2 ⟨rfl, rfl, by decide, by decide, by decide, by decide, by decide, by decide⟩
theorem keys (nj : Int) : validateOutAndKeys (A nj) L R = .ok () := by
  have h : validateOutAndKeys (A nj) L R = validateOutAndKeys (A 1) L R := rfl
  rw [h]; decide
theorem body (nj : Int) : BodyOK (A nj) L R false :=
  have h : BodyOK (A 1) L R false := by decide +kernel
  ⟨h.lstr, h.rstr, h.noClash⟩

/-- the token order of the two tables does not change when their rows are permuted -/
example : genTokenOrdering ([["a", "b"], ["y"]] ++ [["a", "c"], ["x"], ["b", "c"], ["y"]]) =
    genTokenOrdering ([["y"], ["a", "b"]] ++ [["a", "c"], ["b", "c"], ["x"], ["y"]]) :=
  genTokenOrdering_perm (by decide)

/- … and it is a proper order: the singleton `x` first, then the tokens of frequency 2 alphabetically
   (EVALUATED by `#guard`: the model's sorts are defined by well-founded recursion and do not reduce in the kernel) -/
#guard genTokenOrdering ([["a", "b"], ["y"]] ++ [["a", "c"], ["x"], ["b", "c"], ["y"]]) ==
    [("x", 1), ("a", 2), ("b", 3), ("c", 4), ("y", 5)]

/-- the hypotheses of `filter_perm_left` hold, for every filter kind and with two chunks -/
example (k : FilterKind) : ∃ fr fr', filterTables k F (A 2) T tk 4 = .ok fr ∧
    filterTables k F ((A 2).withTables L' R) T tk 4 = .ok fr' ∧ fr.columns = fr'.columns ∧
    (fr.rows.map (fun row => row.drop 1)).Perm (fr'.rows.map (fun row => row.drop 1)) :=
  filter_perm_left k F (A 2) T tk 4 L R L' (valid 2) (keys 2) (body 2) rfl rfl permuted.lRows

/-- the hypotheses of `filter_perm_njobs_one` hold: both tables permuted, `n_jobs = 1`, different cpu counts -/
example (k : FilterKind) : ∃ fr fr', filterTables k F (A 1) T tk 4 = .ok fr ∧
    filterTables k F ((A 1).withTables L' R') T tk 16 = .ok fr' ∧ fr.columns = fr'.columns ∧
    (fr.rows.map (fun row => row.drop 1)).Perm (fr'.rows.map (fun row => row.drop 1)) :=
  filter_perm_njobs_one k F (A 1) T tk 4 16 L R L' R' (valid 1) (keys 1) (body 1) permuted rfl

/- … the two results in question (PrefixFilter, EVALUATED): the SUPERFLUOUS candidate (1, 7) of similarity 1/3 < 0.8, the
   qualifying pair (2, 10), then the pairs of the missing value — for the permuted tables in ANOTHER order (so
   "permutation" cannot be improved to "equal") -/
#guard (filterTables .prefix F (A 1) T tk 4).toOption.map (fun fr => fr.rows.map (fun row => row.drop 1)) ==
    some [[.int 1, .int 7], [.int 2, .int 10], [.int 3, .int 7], [.int 3, .int 8], [.int 3, .int 9], [.int 3, .int 10]]
#guard (filterTables .prefix F ((A 1).withTables L' R') T tk 16).toOption.map (fun fr => fr.rows.map (fun row => row.drop 1)) ==
    some [[.int 1, .int 7], [.int 2, .int 10], [.int 3, .int 7], [.int 3, .int 9], [.int 3, .int 8], [.int 3, .int 10]]

/-- SizeFilter: both tables permuted, 2 jobs against 3 -/
example : ∃ fr fr', filterTables .size F (A 2) T tk 2 = .ok fr ∧
    filterTables .size F ((A 2).withTables L' R') T tk 3 = .ok fr' ∧ fr.columns = fr'.columns ∧
    (fr.rows.map (fun row => row.drop 1)).Perm (fr'.rows.map (fun row => row.drop 1)) :=
  filter_perm_size F (A 2) T tk 2 3 L R L' R' (valid 2) (keys 2) (body 2) permuted (by decide)

end FilterPermExample

/-! ### several chunks: the counterexample (kernel-checked) -/

section SeveralChunks
open OrderingPerm.Cex

/-- the fixture: one left row "a b" (key 1); right rows "a c" (7), "b c" (8), "x" (9), "y" (10), and the same with rows
    8 and 9 exchanged; `n_jobs = 2`, PrefixFilter, JACCARD, threshold 0.8; whitespace set tokenizer -/
example : L.rows = [[.int 1, .str "a b"]] ∧
    R.rows = [[.int 7, .str "a c"], [.int 8, .str "b c"], [.int 9, .str "x"], [.int 10, .str "y"]] ∧
    R'.rows = [[.int 7, .str "a c"], [.int 9, .str "x"], [.int 8, .str "b c"], [.int 10, .str "y"]] ∧
    A.nJobs = 2 ∧ F.cfg.measure = .jaccard ∧ F.cfg.threshold = .float (4 / 5) ∧
    RowsPermuted L R L R' := ⟨rfl, rfl, rfl, rfl, rfl, rfl, rfl, rfl, List.Perm.refl _, rfl, rfl, by decide⟩

/-- SEVERAL CHUNKS: with `n_jobs = 2` the right table `R` is cut into the chunks {7, 8} and {9, 10}, its row
    permutation `R'` into {7, 9} and {8, 10}.  In the chunk {7, 8} the tokens a, b, c all have frequency 2, the order
    is alphabetical and both "a b" and "a c" have the prefix `a`: PrefixFilter lists the pair (1, 7) (Jaccard 1/3,
    threshold 0.8 — a superfluous candidate).  In the chunk {7, 9} the tokens b and c are rarer than a, the prefixes
    are `b` and `c`: the pair is not listed.  Both calls return (`C04.tables_returns_frame`), and for ANY frames they
    return the value rows are not permutations of each other.  So for several chunks a permutation of the right rows
    does change the superfluous candidates — never the qualifying ones (`C04.tables_safe_prefix`). -/
theorem several_chunks_counterexample :
    (∃ fr fr', filterTables .prefix F A T tk 4 = .ok fr ∧ filterTables .prefix F (A.withTables L R') T tk 4 = .ok fr') ∧
    ∀ fr fr', filterTables .prefix F A T tk 4 = .ok fr → filterTables .prefix F (A.withTables L R') T tk 4 = .ok fr' →
      (∃ row ∈ fr.rows, rowKeys row = (.int 1, .int 7)) ∧
      ¬ (∃ row ∈ fr'.rows, rowKeys row = (.int 1, .int 7)) ∧
      ¬ (fr.rows.map (fun row => row.drop 1)).Perm (fr'.rows.map (fun row => row.drop 1)) := by
  constructor
  · obtain ⟨fr, h⟩ := C04.tables_returns_frame .prefix F A T tk 4 L R valid keys (by decide +kernel)
    obtain ⟨fr', h'⟩ := C04.tables_returns_frame .prefix F (A.withTables L R') T tk 4 L R' valid' keys'
      (by decide +kernel)
    exact ⟨fr, fr', h, h'⟩
  · intro fr fr' h h'
    exact ⟨(listed_iff fr fr' h h').1, (listed_iff fr fr' h h').2, not_perm fr fr' h h'⟩

/- PositionFilter on the same input (EVALUATED): (1, 7) listed for `R`, not for `R'` -/
#guard (filterTables .position F A T tk 4).toOption.map (fun fr => fr.rows.map rowKeys) == some [(.int 1, .int 7)]
#guard (filterTables .position F (A.withTables L R') T tk 4).toOption.map (fun fr => fr.rows.map rowKeys) == some []

/-- … whereas with one chunk both row orders give permuted value rows, as `filter_perm_njobs_one` says -/
example : ∃ fr fr', filterTables .prefix F { A with nJobs := 1 } T tk 4 = .ok fr ∧
    filterTables .prefix F (({ A with nJobs := 1 } : TableArgs).withTables L R') T tk 4 = .ok fr' ∧
    fr.columns = fr'.columns ∧
    (fr.rows.map (fun row => row.drop 1)).Perm (fr'.rows.map (fun row => row.drop 1)) :=
  filter_perm_njobs_one .prefix F { A with nJobs := 1 } T tk 4 4 L R L R' valid keys
    ⟨fun s hs => by revert s hs; decide, fun s hs => by revert s hs; decide, by decide⟩
    ⟨rfl, rfl, List.Perm.refl _, rfl, rfl, by decide⟩ rfl

end SeveralChunks


section AxiomCheck
#print axioms genTokenOrdering_perm
#print axioms genTokenOrdering_flatten_perm
#print axioms genTokenOrdering_perm_rank
#print axioms orderUsing_perm
#print axioms table_token_order_perm
#print axioms filter_split_perm
#print axioms filter_perm_left
#print axioms filter_perm_single_chunk
#print axioms filter_perm_njobs_one
#print axioms filter_perm_chunkwise
#print axioms filter_perm_size
#print axioms several_chunks_counterexample
end AxiomCheck

end SSJ.Props.C10

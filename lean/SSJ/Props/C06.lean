/-
  C06 — `filter_candset` is row-wise `filter_pair`; OverlapFilter is exact.

  Property C06: "For every filter, filter_candset returns exactly the sub-table of the candidate set (same columns, order
  and index labels) whose rows reference value pairs that filter_pair does not drop.  OverlapFilter is exact rather than
  merely safe: filter_pair keeps a pair iff both strings are non-empty and their token overlap satisfies comp_op against
  overlap_size, and filter_tables lists exactly those pairs, with _sim_score equal to the overlap when requested."

  Model functions: `filterCandset a fp cpu` (`Filter.filter_candset`, parameterised by the filter's `filter_pair` as a
  Python call `fp : Cell → Cell → Except PyErr Bool`, so the theorem covers Size/Prefix/Position/Suffix
  (`filterPairPy k f tok`: the pure `filterPair k f tok`, or TypeError when both values are present and one is not a
  `str`) and Overlap (`overlapFilterPairPy f tok`) alike) of `SSJ/Model/Matcher.lean`; `overlapFilterPair f tok` (`OverlapFilter.filter_pair`) of `SSJ/Model/Filters.lean`;
  `overlapFilterTables f a oss tok cpu` (`OverlapFilter.filter_tables`) of `SSJ/Model/Frame.lean`.

  Hypotheses / scope.
  * `candset_rowwise`: the arguments pass the validations of `filter_candset` (tables given, key / join columns exist,
    join columns of string dtype, keys unique and present: `hv1 … hv10`); every candidate row's two keys occur in the
    tables (`hl`, `hr`: `lval cr` / `rval cr` are then the join values of the referenced rows — without this pandas raises
    KeyError); the candset has fewer than 2^40 rows (so that `split_table` partitions it, for every `n_jobs` and CPU
    count).  ANY `filter_pair` call `fp` that does not raise on the referenced value pairs (`hfp`: there it answers the
    total function `fpb`; for the five filters this holds when the two filter columns hold only strings and missing
    values — `candset_rowwise_filter`, `candset_rowwise_overlap`; otherwise the first referenced non-string pair raises
    TypeError, `C15.filter_candset_nonstring_raises`), any `n_jobs`.  The index-label clause assumes a well-formed candset (one
    index label per row).
  * `overlap_pair_exact`: no hypotheses (any filter object, tokenizer, cells).
  * `overlap_tables_exact` (which concludes that the call returns): `BodyOK` — string filter columns, no `_id` in the
    output header (SSJ/Props/Common.lean; else TypeError / ValueError, `C15_body`).
  * `overlap_tables_*`: table validations pass (`validateTablesAttrs`, `validateOutAndKeys`), tokenizer output
    duplicate-free (the tokenizer's current mode is used as is), right table < 2^40 rows; ANY filter object (operator,
    overlap size, allow_missing), output attributes, `out_sim_score`, `n_jobs`.
  * `overlap_tables_lists_kept_pairs` (filter_tables = the pairs filter_pair keeps) additionally needs a VALIDATED filter
    (`mkOverlapFilter … = .ok f`: overlap_size > 0, operator in {>=, >, =}) and a tokenizer with `tok "" = []`.  Both are
    necessary: with overlap_size 0 and `>=`, filter_pair keeps pairs without a common token, which filter_tables (inverted
    index) never lists; with a tokenizer that produces tokens for the empty string (a padded q-gram tokenizer),
    filter_pair drops a pair of empty strings by its `not lstring` test while filter_tables lists it.
  NOT covered: the safety of the four non-exact filters (C03/C04); exceptions of invalid calls (C15).
-/
import SSJ.Proofs.EntryExact
import SSJ.Proofs.BodyOK

namespace SSJ.Props.C06
open SSJ SSJ.Props

/-- (C06) for ANY filter (given by its `filter_pair` function `fp`) and any `n_jobs`, `filter_candset` returns the candset
    restricted to the rows whose referenced value pair `fp` does not drop: same columns and dtypes, same row order,
    and every kept row keeps its index label. -/
theorem candset_rowwise (a : CandsetArgs) (fp : Cell → Cell → Except PyErr Bool) (fpb : Cell → Cell → Bool)
    (cpu : Int) (c l r : Frame)
    (hc : a.candset = some c) (hlt : a.ltable = some l) (hrt : a.rtable = some r)
    (hv1 : validateAttr a.candLKey c = .ok ()) (hv2 : validateAttr a.candRKey c = .ok ())
    (hv3 : validateAttr a.lKey l = .ok ()) (hv4 : validateAttr a.rKey r = .ok ())
    (hv5 : validateAttr a.lAttr l = .ok ()) (hv6 : validateAttr a.rAttr r = .ok ())
    (hv7 : validateAttrType a.lAttr l = .ok ()) (hv8 : validateAttrType a.rAttr r = .ok ())
    (hv9 : validateKeyAttr a.lKey l = .ok ()) (hv10 : validateKeyAttr a.rKey r = .ok ())
    (lval rval : Row → Cell)
    (hl : ∀ cr ∈ c.rows, ∃ ls ∈ l.rows, (keyOf l a.lKey ls).pyEq (cr.cell (c.colIdx a.candLKey)) = true ∧
                                        valOf l a.lAttr ls = lval cr)
    (hr : ∀ cr ∈ c.rows, ∃ rs ∈ r.rows, (keyOf r a.rKey rs).pyEq (cr.cell (c.colIdx a.candRKey)) = true ∧
                                        valOf r a.rAttr rs = rval cr)
    (hfp : ∀ cr ∈ c.rows, fp (lval cr) (rval cr) = .ok (fpb (lval cr) (rval cr)))
    (hlen : c.rows.length < 2 ^ 40) :
    ∃ fr, filterCandset a fp cpu = .ok fr ∧ fr.columns = c.columns ∧ fr.dtypes = c.dtypes ∧
      fr.rows = c.rows.filter (fun cr => !fpb (lval cr) (rval cr)) ∧
      (c.index.length = c.rows.length →
        fr.index.length = fr.rows.length ∧
        fr.rows.zip fr.index = (c.rows.zip c.index).filter (fun p => !fpb (lval p.1) (rval p.1))) :=
  filterCandset_full a fp fpb cpu c l r hc hlt hrt hv1 hv2 hv3 hv4 hv5 hv6 hv7 hv8 hv9 hv10 lval rval hl hr hfp hlen

/-- (C06, corollary) `filter_candset` is IDEMPOTENT: filtering its own result again — same filter, same tables, any
    `n_jobs` and cpu count — drops nothing more and changes nothing: same columns, dtypes and rows.  (Row-wise
    `filter_pair` with a verdict that depends on the referenced values only.) -/
theorem candset_idempotent (a : CandsetArgs) (fp : Cell → Cell → Except PyErr Bool) (fpb : Cell → Cell → Bool)
    (cpu cpu' : Int) (c l r : Frame)
    (hc : a.candset = some c) (hlt : a.ltable = some l) (hrt : a.rtable = some r)
    (hv1 : validateAttr a.candLKey c = .ok ()) (hv2 : validateAttr a.candRKey c = .ok ())
    (hv3 : validateAttr a.lKey l = .ok ()) (hv4 : validateAttr a.rKey r = .ok ())
    (hv5 : validateAttr a.lAttr l = .ok ()) (hv6 : validateAttr a.rAttr r = .ok ())
    (hv7 : validateAttrType a.lAttr l = .ok ()) (hv8 : validateAttrType a.rAttr r = .ok ())
    (hv9 : validateKeyAttr a.lKey l = .ok ()) (hv10 : validateKeyAttr a.rKey r = .ok ())
    (lval rval : Row → Cell)
    (hl : ∀ cr ∈ c.rows, ∃ ls ∈ l.rows, (keyOf l a.lKey ls).pyEq (cr.cell (c.colIdx a.candLKey)) = true ∧
                                        valOf l a.lAttr ls = lval cr)
    (hr : ∀ cr ∈ c.rows, ∃ rs ∈ r.rows, (keyOf r a.rKey rs).pyEq (cr.cell (c.colIdx a.candRKey)) = true ∧
                                        valOf r a.rAttr rs = rval cr)
    (hfp : ∀ cr ∈ c.rows, fp (lval cr) (rval cr) = .ok (fpb (lval cr) (rval cr)))
    (hlen : c.rows.length < 2 ^ 40) :
    ∃ fr fr', filterCandset a fp cpu = .ok fr ∧ filterCandset { a with candset := some fr } fp cpu' = .ok fr' ∧
      fr'.columns = fr.columns ∧ fr'.dtypes = fr.dtypes ∧ fr'.rows = fr.rows := by
  obtain ⟨fr, h1, h2, h3, h4, _⟩ := candset_rowwise a fp fpb cpu c l r hc hlt hrt hv1 hv2 hv3 hv4 hv5 hv6 hv7 hv8 hv9 hv10
    lval rval hl hr hfp hlen
  have hsub : ∀ cr ∈ fr.rows, cr ∈ c.rows := fun cr h => by rw [h4] at h; exact (List.mem_filter.mp h).1
  have hidx : ∀ k, fr.colIdx k = c.colIdx k := fun k => by unfold Frame.colIdx; rw [h2]
  have hva : ∀ k, validateAttr k fr = validateAttr k c := fun k => by unfold validateAttr Frame.hasCol; rw [h2]
  obtain ⟨fr', g1, g2, g3, g4, _⟩ := candset_rowwise { a with candset := some fr } fp fpb cpu' fr l r rfl hlt hrt
    (by rw [hva]; exact hv1) (by rw [hva]; exact hv2) hv3 hv4 hv5 hv6 hv7 hv8 hv9 hv10 lval rval
    (fun cr h => by rw [hidx]; exact hl cr (hsub cr h)) (fun cr h => by rw [hidx]; exact hr cr (hsub cr h))
    (fun cr h => hfp cr (hsub cr h))
    (lt_of_le_of_lt (by rw [h4]; exact List.length_filter_le _ _) hlen)
  refine ⟨fr, fr', h1, g1, g2, g3, ?_⟩
  rw [g4, h4, List.filter_filter]
  simp

/-- `candset_rowwise` for Size/Prefix/Position/SuffixFilter: when the two filter columns hold only strings and missing
    values, `filter_pair` raises on no referenced pair and the kept rows are those `filterPair` does not drop -/
theorem candset_rowwise_filter (k : FilterKind) (f : FilterObj) (tok : String → List Tok)
    (a : CandsetArgs) (cpu : Int) (c l r : Frame)
    (hc : a.candset = some c) (hlt : a.ltable = some l) (hrt : a.rtable = some r)
    (hv1 : validateAttr a.candLKey c = .ok ()) (hv2 : validateAttr a.candRKey c = .ok ())
    (hv3 : validateAttr a.lKey l = .ok ()) (hv4 : validateAttr a.rKey r = .ok ())
    (hv5 : validateAttr a.lAttr l = .ok ()) (hv6 : validateAttr a.rAttr r = .ok ())
    (hv7 : validateAttrType a.lAttr l = .ok ()) (hv8 : validateAttrType a.rAttr r = .ok ())
    (hv9 : validateKeyAttr a.lKey l = .ok ()) (hv10 : validateKeyAttr a.rKey r = .ok ())
    (lval rval : Row → Cell)
    (hl : ∀ cr ∈ c.rows, ∃ ls ∈ l.rows, (keyOf l a.lKey ls).pyEq (cr.cell (c.colIdx a.candLKey)) = true ∧
                                        valOf l a.lAttr ls = lval cr)
    (hr : ∀ cr ∈ c.rows, ∃ rs ∈ r.rows, (keyOf r a.rKey rs).pyEq (cr.cell (c.colIdx a.candRKey)) = true ∧
                                        valOf r a.rAttr rs = rval cr)
    (hsl : StrColumn l a.lAttr) (hsr : StrColumn r a.rAttr)
    (hlen : c.rows.length < 2 ^ 40) :
    ∃ fr, filterCandset a (filterPairPy k f tok) cpu = .ok fr ∧ fr.columns = c.columns ∧ fr.dtypes = c.dtypes ∧
      fr.rows = c.rows.filter (fun cr => !filterPair k f tok (lval cr) (rval cr)) :=
  let ⟨fr, h1, h2, h3, h4, _⟩ := candset_rowwise a _ (filterPair k f tok) cpu c l r hc hlt hrt hv1 hv2 hv3 hv4 hv5 hv6 hv7
    hv8 hv9 hv10 lval rval hl hr
    (fun cr hcr => by
      obtain ⟨ls, hls, -, e1⟩ := hl cr hcr
      obtain ⟨rs, hrs, -, e2⟩ := hr cr hcr
      rw [← e1, ← e2]
      exact filterPairPy_columns k f tok l r a.lAttr a.rAttr hsl hsr ls hls rs hrs) hlen
  ⟨fr, h1, h2, h3, h4⟩

/-- `candset_rowwise` for the OverlapFilter -/
theorem candset_rowwise_overlap (f : OverlapFilterObj) (tok : String → List Tok)
    (a : CandsetArgs) (cpu : Int) (c l r : Frame)
    (hc : a.candset = some c) (hlt : a.ltable = some l) (hrt : a.rtable = some r)
    (hv1 : validateAttr a.candLKey c = .ok ()) (hv2 : validateAttr a.candRKey c = .ok ())
    (hv3 : validateAttr a.lKey l = .ok ()) (hv4 : validateAttr a.rKey r = .ok ())
    (hv5 : validateAttr a.lAttr l = .ok ()) (hv6 : validateAttr a.rAttr r = .ok ())
    (hv7 : validateAttrType a.lAttr l = .ok ()) (hv8 : validateAttrType a.rAttr r = .ok ())
    (hv9 : validateKeyAttr a.lKey l = .ok ()) (hv10 : validateKeyAttr a.rKey r = .ok ())
    (lval rval : Row → Cell)
    (hl : ∀ cr ∈ c.rows, ∃ ls ∈ l.rows, (keyOf l a.lKey ls).pyEq (cr.cell (c.colIdx a.candLKey)) = true ∧
                                        valOf l a.lAttr ls = lval cr)
    (hr : ∀ cr ∈ c.rows, ∃ rs ∈ r.rows, (keyOf r a.rKey rs).pyEq (cr.cell (c.colIdx a.candRKey)) = true ∧
                                        valOf r a.rAttr rs = rval cr)
    (hsl : StrColumn l a.lAttr) (hsr : StrColumn r a.rAttr)
    (hlen : c.rows.length < 2 ^ 40) :
    ∃ fr, filterCandset a (overlapFilterPairPy f tok) cpu = .ok fr ∧ fr.columns = c.columns ∧ fr.dtypes = c.dtypes ∧
      fr.rows = c.rows.filter (fun cr => !overlapFilterPair f tok (lval cr) (rval cr)) :=
  let ⟨fr, h1, h2, h3, h4, _⟩ := candset_rowwise a _ (overlapFilterPair f tok) cpu c l r hc hlt hrt hv1 hv2 hv3 hv4 hv5 hv6
    hv7 hv8 hv9 hv10 lval rval hl hr
    (fun cr hcr => by
      obtain ⟨ls, hls, -, e1⟩ := hl cr hcr
      obtain ⟨rs, hrs, -, e2⟩ := hr cr hcr
      rw [← e1, ← e2]
      exact overlapFilterPairPy_columns f tok l r a.lAttr a.rAttr hsl hsr ls hls rs hrs) hlen
  ⟨fr, h1, h2, h3, h4⟩

/-- (C06) `OverlapFilter.filter_pair` is exact: on two present values it keeps the pair (returns False) iff both strings
    are non-empty and the number of common tokens satisfies `comp_op` against `overlap_size`; if a value is missing it
    drops the pair unless `allow_missing`. -/
theorem overlap_pair_exact (f : OverlapFilterObj) (tok : String → List Tok) (lv rv : Cell) :
    (lv.isMissing = false → rv.isMissing = false →
      (overlapFilterPair f tok lv rv = false ↔
        (lv.strVal ≠ "" ∧ rv.strVal ≠ "" ∧
          compFn f.compOp (.int (interCount (tok lv.strVal) (tok rv.strVal))) f.overlapSize = true))) ∧
    (lv.isMissing = true ∨ rv.isMissing = true → overlapFilterPair f tok lv rv = !f.allowMissing) :=
  ⟨overlapFilterPair_iff f tok lv rv, overlapFilterPair_missing f tok lv rv⟩

/-- (C06) `OverlapFilter.filter_tables` is exact: it returns a frame in which no key pair occurs twice; a pair of rows
    with present join values is listed IFF the two token sets have a common token and the number of common tokens
    satisfies `comp_op` against `overlap_size`; with `out_sim_score` the listed row's `_sim_score` is that number. -/
theorem overlap_tables_exact (f : OverlapFilterObj) (a : TableArgs) (oss : Bool) (tok : String → List Tok) (cpu : Int) (l r : Frame)
    (hv : validateTablesAttrs a = .ok (l, r)) (hk : validateOutAndKeys a l r = .ok ())
    (hnd : ∀ s, (tok s).Nodup) (hlen : r.rows.length < 2 ^ 40)
    (hb : BodyOK a l r oss) :
    ∃ fr, overlapFilterTables f a oss tok cpu = .ok fr ∧
      (fr.rows.map rowKeys).Nodup ∧
      ∀ ls ∈ l.rows, ∀ rs ∈ r.rows, Present l a.lAttr ls → Present r a.rAttr rs →
        let A := tokensOf tok l a.lAttr ls
        let B := tokensOf tok r a.rAttr rs
        ((∃ row ∈ fr.rows, rowKeys row = (keyOf l a.lKey ls, keyOf r a.rKey rs)) ↔
            (1 ≤ interCount A B ∧ compFn f.compOp (.int (interCount A B)) f.overlapSize = true)) ∧
        (oss = true → ∀ row ∈ fr.rows, rowKeys row = (keyOf l a.lKey ls, keyOf r a.rKey rs) →
            rowScore row = .int (interCount A B)) := by
  obtain ⟨fr, hfr, hd⟩ := EX.overlapFilterTables_described f a oss tok cpu l r hnd hv hk hlen hb
  obtain ⟨hkl, hkr⟩ := validateOutAndKeys_keys _ l r hk
  refine ⟨fr, hfr, hd.once, ?_⟩
  intro ls hls rs hrs hpl hpr A B
  refine ⟨?_, ?_⟩
  · rw [hd.iff hkl hkr ls hls rs hrs hpl hpr]
    exact EX.POverlap_exists_iff' _ tok _ _
  · intro ho row hrow hkeys
    obtain ⟨s, hs, hsc⟩ := hd.of_keys hkl hkr ls hls rs hrs hpl hpr row hrow hkeys
    rw [hsc ho]
    exact hs.2.1

/-- (C06) nothing else is listed: every row of `filter_tables` names an existing left and right row; if both join values
    are present the pair qualifies as above (score = overlap); otherwise `allow_missing` holds and the score is missing. -/
theorem overlap_tables_sound (f : OverlapFilterObj) (a : TableArgs) (oss : Bool) (tok : String → List Tok) (cpu : Int) (l r : Frame)
    (hv : validateTablesAttrs a = .ok (l, r)) (hk : validateOutAndKeys a l r = .ok ())
    (hnd : ∀ s, (tok s).Nodup) (hlen : r.rows.length < 2 ^ 40)
    (fr : Frame) (hfr : overlapFilterTables f a oss tok cpu = .ok fr) :
    ∀ row ∈ fr.rows, ∃ ls ∈ l.rows, ∃ rs ∈ r.rows,
      rowKeys row = (keyOf l a.lKey ls, keyOf r a.rKey rs) ∧
      ((Present l a.lAttr ls ∧ Present r a.rAttr rs ∧
          1 ≤ interCount (tokensOf tok l a.lAttr ls) (tokensOf tok r a.rAttr rs) ∧
          compFn f.compOp (.int (interCount (tokensOf tok l a.lAttr ls) (tokensOf tok r a.rAttr rs))) f.overlapSize = true ∧
          (oss = true → rowScore row = .int (interCount (tokensOf tok l a.lAttr ls) (tokensOf tok r a.rAttr rs)))) ∨
       (¬(Present l a.lAttr ls ∧ Present r a.rAttr rs) ∧ f.allowMissing = true ∧
          (oss = true → rowScore row = .missing))) := by
  have hd := EX.overlapFilterTables_described_of_ok f a oss tok cpu l r hnd hv hk hlen fr hfr
  intro row hrow
  obtain ⟨ls, hls, rs, hrs, hkeys, hcase⟩ := hd.sound row hrow
  refine ⟨ls, hls, rs, hrs, hkeys, ?_⟩
  rcases hcase with ⟨hpl, hpr, s, hs, hsc⟩ | hm
  · refine Or.inl ⟨hpl, hpr, hs.1, hs.2.2, fun ho => ?_⟩
    rw [hsc ho]
    exact hs.2.1
  · exact Or.inr hm

/-- (C06) for a validated OverlapFilter (`overlap_size > 0`, operator `>=`, `>` or `=`) and a tokenizer that yields no
    token for the empty string, `filter_tables` lists exactly the present pairs that `filter_pair` keeps. -/
theorem overlap_tables_lists_kept_pairs (f : OverlapFilterObj) (a : TableArgs) (oss : Bool) (tok : String → List Tok) (cpu : Int) (l r : Frame)
    (hv : validateTablesAttrs a = .ok (l, r)) (hk : validateOutAndKeys a l r = .ok ())
    (hnd : ∀ s, (tok s).Nodup) (hlen : r.rows.length < 2 ^ 40)
    (size : PyV) (op : String) (am : Bool) (t : TokObj) (hf : mkOverlapFilter size op am t = .ok f)
    (htok : tok "" = [])
    (fr : Frame) (hfr : overlapFilterTables f a oss tok cpu = .ok fr)
    (ls : Row) (hls : ls ∈ l.rows) (rs : Row) (hrs : rs ∈ r.rows)
    (hpl : Present l a.lAttr ls) (hpr : Present r a.rAttr rs) :
    (∃ row ∈ fr.rows, rowKeys row = (keyOf l a.lKey ls, keyOf r a.rKey rs)) ↔
      overlapFilterPair f tok (valOf l a.lAttr ls) (valOf r a.rAttr rs) = false := by
  have hd := EX.overlapFilterTables_described_of_ok f a oss tok cpu l r hnd hv hk hlen fr hfr
  obtain ⟨hkl, hkr⟩ := validateOutAndKeys_keys _ l r hk
  obtain ⟨hthr, hop⟩ := EX.mkOverlapFilter_valid _ _ _ _ _ hf
  have hf' := mkOverlapFilter_ok _ _ _ _ _ hf
  subst hf'
  rw [hd.iff hkl hkr ls hls rs hrs hpl hpr]
  exact EX.POverlap_iff_pair _ tok _ _ hpl hpr htok hop hthr

/-! ### non-vacuity -/
namespace Example

def tk : String → List Tok := fun s =>
  if s = "a b" then ["a", "b"] else if s = "b c" then ["b", "c"] else if s = "b" then ["b"] else []

theorem tk_nodup : ∀ s, (tk s).Nodup := by
  intro s; unfold tk; split_ifs <;> decide

def L : Frame := { columns := ["id", "s"], dtypes := ["int64", "object"],
                   rows := [[.int 1, .str "a b"], [.int 2, .str ""], [.int 3, .missing]] }
def R : Frame := { columns := ["rid", "u"], dtypes := ["int64", "object"],
                   rows := [[.int 7, .str "b c"], [.int 8, .str ""], [.int 9, .str "b"]] }
/-- a candidate set with non-default index labels 10, 11, 12 -/
def C : Frame := { columns := ["_id", "l_id", "r_rid"], index := [.int 10, .int 11, .int 12],
                   rows := [[.int 0, .int 1, .int 7], [.int 1, .int 2, .int 8], [.int 2, .int 1, .int 9]] }
def CA : CandsetArgs := { candset := some C, candLKey := "l_id", candRKey := "r_rid", ltable := some L, rtable := some R,
                          lKey := "id", rKey := "rid", lAttr := "s", rAttr := "u" }
def F : OverlapFilterObj := { overlapSize := .int 1, compOp := ">=" }
def TA : TableArgs := { ltable := some L, rtable := some R, lKey := "id", rKey := "rid", lAttr := "s", rAttr := "u" }

/-- the candset filtered by the OverlapFilter: the empty-empty pair (2, 8) goes, labels 10 and 12 stay -/
example : filterCandset CA (overlapFilterPairPy F tk) 1 =
    .ok { C with index := [.int 10, .int 12], rows := [[.int 0, .int 1, .int 7], [.int 2, .int 1, .int 9]] } := by decide

/-- the hypotheses of `candset_rowwise` hold for this call (with `lval`/`rval` looking the values up) -/
example : ∃ fr, filterCandset CA (overlapFilterPairPy F tk) 1 = .ok fr ∧ fr.columns = C.columns :=
  let lval : Row → Cell := fun cr => if cr.cell 1 = .int 1 then .str "a b" else .str ""
  let rval : Row → Cell := fun cr => if cr.cell 2 = .int 7 then .str "b c" else if cr.cell 2 = .int 8 then .str "" else .str "b"
  let ⟨fr, h, hcol, _⟩ := candset_rowwise_overlap F tk CA 1 C L R rfl rfl rfl (by decide) (by decide) (by decide)
    (by decide) (by decide) (by decide) (by decide) (by decide) (by decide) (by decide) lval rval (by decide) (by decide)
    (by decide) (by decide) (by decide)
  ⟨fr, h, hcol⟩

example : validateTablesAttrs TA = .ok (L, R) := by decide
example : validateOutAndKeys TA L R = .ok () := by decide
example : mkOverlapFilter (.int 1) ">=" false {} = .ok F := rfl
example : tk "" = [] := by decide

/-- `filter_tables` of the same filter on the two tables -/
example : overlapFilterTables F TA true tk 1 =
    .ok { columns := ["_id", "l_id", "r_rid", "_sim_score"], index := [.int 0, .int 1],
          rows := [[.int 0, .int 1, .int 7, .int 1], [.int 1, .int 1, .int 9, .int 1]] } := by decide

end Example

end SSJ.Props.C06

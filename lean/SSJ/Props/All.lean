import SSJ.Props.C16
import SSJ.Props.C17
import SSJ.Props.C03
import SSJ.Props.C06
import SSJ.Props.C01
import SSJ.Props.C02
import SSJ.Props.C09

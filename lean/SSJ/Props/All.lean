import SSJ.Props.C16
import SSJ.Props.C17
import SSJ.Props.C03
import SSJ.Props.C06

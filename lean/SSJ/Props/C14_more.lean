/-
  C14 (companion) — Filters prune what their technique promises to prune: the two clauses C14.lean leaves open.

  "SizeFilter (JACCARD, COSINE, DICE, EDIT_DISTANCE) decides on the two token counts alone and is tight: … it drops every
   pair … (for edit distance: whose counts differ by more than the threshold).  … the pairs PositionFilter.filter_tables
   keeps are a subset of those kept by PrefixFilter and by SizeFilter with the same parameters on the same tables."

  C14.lean proves the inclusion PositionFilter ⊆ SizeFilter for JACCARD / COSINE / DICE and for EDIT_DISTANCE with an int
  threshold, and says: "Under OVERLAP `position_subset_size` is not claimed (the size filter's early exit `lower n > n`
  fires for probes with fewer tokens than the threshold)".  It proves the EDIT_DISTANCE tightness for INT thresholds only.

  1. C14.6 under OVERLAP — `position_subset_size_overlap`: for ANY int threshold `k` (also `k ≤ 0`, which the filter
     constructor does not reject) every row of `PositionFilter.filter_tables` occurs, up to `_id`, in
     `SizeFilter.filter_tables` with the same parameters on the same arguments.  Reason: SizeFilter's early exit fires
     for a probe (right record) with `n < k` tokens; such a probe has prefix length `max(n − k + 1, 0) = 0`, so
     PositionFilter finds no candidate for it either.  (`position_subset_size_of_prefix`: the general condition —
     prefix lengths never negative, and no early exit for probe sizes that have a non-empty prefix.)

  2. C14.3 for a FLOAT threshold `t` under EDIT_DISTANCE (`0 ≤ t ≤ 2³⁰`, fewer than 2³² tokens).  The size window the
     filter computes from a count `n` is `[⌈n − t⌉, ⌊n + t⌋]` with `n − t`, `n + t` evaluated in DOUBLE PRECISION
     (`F64.rn`; `size_ed_float_window`).
     FINDING (model = real code; `4 + 0.9999999999999999 == 5.0` in Python): the clause "drops every pair whose counts
     differ by more than the threshold" is FALSE for float thresholds just below an integer: with
     `t = 0.9999999999999999 = 1 − 2⁻⁵³` the counts 4 and 5 differ by `1 > t`, yet `SizeFilter.filter_pair` keeps the pair
     (`float_threshold_not_tight`).  It is harmless (a filter may keep more than necessary; safety is
     `C04.pair_safe_size_ed_float`), but the tightness promise holds only up to that one rounding.  What IS true:
       * `size_tight_ed_float` / `size_tight_tables_ed_float`: counts differing by more than `⌊t⌋ + 1` ⇒ dropped / not
         listed — always;
       * `size_tight_ed_float_exact` / `size_tight_tables_ed_float_exact`: if `n + t` and `n − t` are computed exactly
         for the count `n` the window is computed from (the LEFT count in `filter_pair`, the RIGHT count — the probe —
         in `filter_tables`), counts differing by more than `t` (i.e. by more than `⌊t⌋`) ⇒ dropped / not listed: the
         property's clause verbatim;
       * `size_tight_ed_float_integral` / `size_tight_tables_ed_float_integral`: the exactness hypothesis holds for every
         integral float threshold (`1.0`, `2.0`, …), for which the filter is exactly as tight as with the int threshold.

  MODEL: `filterPair .size f tok l r` (`filter_pair`, `true` = dropped) and `filterTables k f a t toks cpu`
  (`filter_tables`), as in C14.lean.  HYPOTHESES of the `filter_tables` theorems as there: valid table arguments, right
  table of fewer than 2⁴⁰ rows, tokenizer used in its current mode; both calls of the inclusion on the same arguments.

  The inclusion under OVERLAP with a FLOAT threshold (prefix length `⌊rn(rn(n − t) + 1)⌋`) is in
  `C14_overlap_float.lean` (`position_subset_size_overlap_float`, every double `t ≤ 2⁵³`).
  NOT COVERED: a sufficient condition on `t` alone (e.g. `t·2²⁰`
  integral) for the exactness hypothesis other than `t` integral.
-/
import SSJ.Proofs.PruneMore
import SSJ.Props.C14
import SSJ.Props.C04_float

namespace SSJ.Props.C14
open SSJ SSJ.Spec SSJ.Props F64

/-! ## 1. PositionFilter.filter_tables ⊆ SizeFilter.filter_tables under OVERLAP -/

section Subsets
variable (f : FilterObj) (a : TableArgs) (t : TokObj) (toks : TokFn) (cpu : Int) (l r fp fx : Frame)
  (hv : validateTablesAttrs a = .ok (l, r)) (hk : validateOutAndKeys a l r = .ok ())
include hv hk

/-- the inclusion for ANY filter object whose prefix lengths are never negative and whose size lower bound does not
    exceed the count for every count that has a non-empty prefix (weaker than the hypothesis of
    `position_subset_size_of`: counts without prefix are exempt) -/
theorem position_subset_size_of_prefix
    (hnonneg : ∀ n, 0 ≤ f.cfg.prefixLen n)
    (hearly : ∀ n : Nat, 1 ≤ f.cfg.prefixLen n → f.cfg.lower n ≤ (n : Int))
    (hp : filterTables .position f a t toks cpu = .ok fp)
    (hx : filterTables .size f a t toks cpu = .ok fx) :
    ∀ row ∈ fp.rows, ∃ row' ∈ fx.rows, row'.drop 1 = row.drop 1 ∧ rowKeys row' = rowKeys row :=
  EntryFilters.filterTables_subset a t toks cpu l r .position .size f f rfl fp fx hv hk hp hx
    (fun ch _ x y h => EntryFilters.emits_position_size_of_prefix f _ _ _ _ ch hnonneg hearly x y h)

/-- OVERLAP with an int threshold `k` (any `k`): every row of `PositionFilter.filter_tables` occurs (up to `_id`) in
    `SizeFilter.filter_tables` with the same parameters on the same arguments; in particular every key pair kept by the
    former is kept by the latter.  Any tokenizer, `n_jobs`, cpu count, `allow_missing`. -/
theorem position_subset_size_overlap (k : Int) (hm : f.cfg.measure = .overlap) (hthr : f.cfg.threshold = .int k)
    (hp : filterTables .position f a t toks cpu = .ok fp)
    (hx : filterTables .size f a t toks cpu = .ok fx) :
    ∀ row ∈ fp.rows, ∃ row' ∈ fx.rows, row'.drop 1 = row.drop 1 ∧ rowKeys row' = rowKeys row :=
  position_subset_size_of_prefix f a t toks cpu l r fp fx hv hk
    (EntryFilters.overlap_prefix_facts f.cfg k hm hthr).1 (EntryFilters.overlap_prefix_facts f.cfg k hm hthr).2 hp hx

end Subsets

/-! ## 2. SizeFilter under EDIT_DISTANCE with a float threshold: filter_pair -/

section EdFloatPair
variable (f : FilterObj) (t : Rat) (ht0 : 0 ≤ t) (ht1 : t ≤ 2 ^ 30)
  (hm : f.cfg.measure = .editDistance) (hthr : f.cfg.threshold = .float t)
  (tok : String → List Tok) (hsm : ∀ s, (tok s).length < 2 ^ 32)
  (l r : Cell) (hl : l.isMissing = false) (hr : r.isMissing = false)
  (hne : ¬ ((tok l.strVal).length = 0 ∧ (tok r.strVal).length = 0))
include ht0 ht1 hm hthr hsm hl hr hne

/-- THE COMPUTED WINDOW: SizeFilter.filter_pair keeps a pair of present values iff the right count lies in
    `[⌈rn(n − t)⌉, ⌊rn(n + t)⌋]`, `n` the left count, `rn` = rounding to double precision -/
theorem size_ed_float_window :
    filterPair .size f tok l r = false ↔
      (Rat.ceil (rn (((tok l.strVal).length : Rat) - t)) ≤ ((tok r.strVal).length : Int) ∧
        ((tok r.strVal).length : Int) ≤ Rat.floor (rn (((tok l.strVal).length : Rat) + t))) := by
  rw [size_pair_exact f tok l r hl hr hne, FloatThr.lower_ed_f f.cfg t ht0 ht1 hm hthr _ (hsm _),
    FloatThr.upper_ed_f f.cfg t ht0 ht1 hm hthr _ (hsm _)]

/-- TIGHT UP TO ONE ROUNDING: token counts differing by more than `⌊t⌋ + 1` ⇒ dropped -/
theorem size_tight_ed_float
    (h : t.floor + 1 < ((tok l.strVal).length : Int) - (tok r.strVal).length ∨
         t.floor + 1 < ((tok r.strVal).length : Int) - (tok l.strVal).length) :
    filterPair .size f tok l r = true := by
  refine EntryFilters.sizeFilterPair_dropped f tok l r hl hr hne ?_
  have h1 := EntryFilters.upper_ed_f_le f.cfg t ht0 ht1 hm hthr (tok l.strVal).length (hsm _)
  have h2 := EntryFilters.lower_ed_f_ge f.cfg t ht0 ht1 hm hthr (tok l.strVal).length (hsm _)
  omega

/-- TIGHT when `n + t` and `n − t` (`n` the left count) are computed exactly: token counts differing by more than
    the threshold `t` ⇒ dropped -/
theorem size_tight_ed_float_exact
    (hex1 : rn (((tok l.strVal).length : Rat) + t) = (tok l.strVal).length + t)
    (hex2 : rn (((tok l.strVal).length : Rat) - t) = (tok l.strVal).length - t)
    (h : t < ((tok l.strVal).length : Rat) - (tok r.strVal).length ∨
         t < ((tok r.strVal).length : Rat) - (tok l.strVal).length) :
    filterPair .size f tok l r = true := by
  refine EntryFilters.sizeFilterPair_dropped f tok l r hl hr hne ?_
  rw [EntryFilters.le_upper_ed_f_iff_of_exact f.cfg t ht0 ht1 hm hthr _ (hsm _) hex1,
    EntryFilters.lower_ed_f_le_iff_of_exact f.cfg t ht0 ht1 hm hthr _ (hsm _) hex2]
  push_cast
  rintro ⟨h1, h2⟩
  rcases h with h | h <;> linarith

end EdFloatPair

/-- an INTEGRAL float threshold (`1.0`, `2.0`, …, value `k`): exactly as tight as the int threshold `k` — token counts
    differing by more than `k` ⇒ dropped -/
theorem size_tight_ed_float_integral (f : FilterObj) (k : Int) (hk0 : 0 ≤ k) (hk1 : k ≤ 2 ^ 30)
    (hm : f.cfg.measure = .editDistance) (hthr : f.cfg.threshold = .float (k : Rat))
    (tok : String → List Tok) (hsm : ∀ s, (tok s).length < 2 ^ 32)
    (l r : Cell) (hl : l.isMissing = false) (hr : r.isMissing = false)
    (hne : ¬ ((tok l.strVal).length = 0 ∧ (tok r.strVal).length = 0))
    (h : k < ((tok l.strVal).length : Int) - (tok r.strVal).length ∨
         k < ((tok r.strVal).length : Int) - (tok l.strVal).length) :
    filterPair .size f tok l r = true := by
  have hk0' : (0 : Rat) ≤ k := by exact_mod_cast hk0
  have hk1' : (k : Rat) ≤ 2 ^ 30 := by exact_mod_cast hk1
  obtain ⟨e1, e2⟩ := EntryFilters.ed_integral_exact k hk0 hk1 (tok l.strVal).length (hsm _)
  refine size_tight_ed_float_exact f k hk0' hk1' hm hthr tok hsm l r hl hr hne e1 e2 ?_
  rcases h with h | h
  · left
    have : ((k : Int) : Rat) < ((((tok l.strVal).length : Int) - (tok r.strVal).length : Int) : Rat) := by
      exact_mod_cast h
    push_cast at this
    exact this
  · right
    have : ((k : Int) : Rat) < ((((tok r.strVal).length : Int) - (tok l.strVal).length : Int) : Rat) := by
      exact_mod_cast h
    push_cast at this
    exact this

/-- FINDING: with the float threshold `0.9999999999999999 = 1 − 2⁻⁵³` the strings "abcd" and "abcde" (tokenized into
    characters: 4 and 5 tokens) differ in their counts by `1 > threshold`, yet SizeFilter.filter_pair KEEPS the pair:
    `4 + 0.9999999999999999` is `5.0` in double precision, so the upper end of the size window of 4 is 5.  The clause
    "drops every pair whose counts differ by more than the threshold" fails for this float threshold (it holds with
    `⌊t⌋ + 1 = 1` in place of the threshold: `size_tight_ed_float`). -/
theorem float_threshold_not_tight :
    let f : FilterObj := { cfg := { measure := .editDistance, threshold := .float (1 - 1 / 2 ^ 53) } }
    let tok : String → List Tok := fun s => s.toList.map (fun ch => ch.toString)
    (tok "abcd").length = 4 ∧ (tok "abcde").length = 5 ∧
    ((1 : Rat) - 1 / 2 ^ 53 < ((tok "abcde").length : Rat) - (tok "abcd").length) ∧
    f.cfg.upper 4 = 5 ∧
    filterPair .size f tok (.str "abcd") (.str "abcde") = false := by
  decide +kernel

/-! ## 3. SizeFilter under EDIT_DISTANCE with a float threshold: filter_tables -/

section EdFloatTables
variable (f : FilterObj) (a : TableArgs) (t : TokObj) (toks : TokFn) (cpu : Int) (l r fr : Frame)
  (hv : validateTablesAttrs a = .ok (l, r)) (hk : validateOutAndKeys a l r = .ok ())
  (hrows : r.rows.length < 2 ^ 40) (hres : filterTables .size f a t toks cpu = .ok fr)
  (thr : Rat) (ht0 : 0 ≤ thr) (ht1 : thr ≤ 2 ^ 30)
  (hm : f.cfg.measure = .editDistance) (hthr : f.cfg.threshold = .float thr)
  (hsm : ∀ s, (toks t.returnSet s).length < 2 ^ 32)
  (ls rs : Row) (hls : ls ∈ l.rows) (hrs : rs ∈ r.rows)
  (hlp : Present l a.lAttr ls) (hrp : Present r a.rAttr rs)
  (hne : ¬ ((tokensOf (toks t.returnSet) l a.lAttr ls).length = 0 ∧ (tokensOf (toks t.returnSet) r a.rAttr rs).length = 0))
include hv hk hrows hres ht0 ht1 hm hthr hsm hls hrs hlp hrp hne

/-- the result of SizeFilter.filter_tables has no row for the pair of source rows `ls`, `rs` -/
local notation "NotListed" => ¬ ∃ row ∈ fr.rows, rowKeys row = (keyOf l a.lKey ls, keyOf r a.rKey rs)

/-- TIGHT UP TO ONE ROUNDING (filter_tables): token counts differing by more than `⌊t⌋ + 1` ⇒ not listed -/
theorem size_tight_tables_ed_float
    (h : thr.floor + 1 < ((tokensOf (toks t.returnSet) l a.lAttr ls).length : Int) - (tokensOf (toks t.returnSet) r a.rAttr rs).length ∨
         thr.floor + 1 < ((tokensOf (toks t.returnSet) r a.rAttr rs).length : Int) - (tokensOf (toks t.returnSet) l a.lAttr ls).length) :
    NotListed := by
  intro hrow
  obtain ⟨h1, h2, -⟩ := EntryFilters.filterTables_size_window f a t toks cpu l r fr hv hk hrows hres ls rs hls hrs hlp hrp
    hrow hne
  have h3 := EntryFilters.upper_ed_f_le f.cfg thr ht0 ht1 hm hthr (tokensOf (toks t.returnSet) r a.rAttr rs).length (hsm _)
  have h4 := EntryFilters.lower_ed_f_ge f.cfg thr ht0 ht1 hm hthr (tokensOf (toks t.returnSet) r a.rAttr rs).length (hsm _)
  omega

/-- TIGHT (filter_tables) when `n + t` and `n − t` are computed exactly for the RIGHT count `n` (the probe): token
    counts differing by more than the threshold ⇒ not listed -/
theorem size_tight_tables_ed_float_exact
    (hex1 : rn (((tokensOf (toks t.returnSet) r a.rAttr rs).length : Rat) + thr) =
      (tokensOf (toks t.returnSet) r a.rAttr rs).length + thr)
    (hex2 : rn (((tokensOf (toks t.returnSet) r a.rAttr rs).length : Rat) - thr) =
      (tokensOf (toks t.returnSet) r a.rAttr rs).length - thr)
    (h : thr < ((tokensOf (toks t.returnSet) l a.lAttr ls).length : Rat) - (tokensOf (toks t.returnSet) r a.rAttr rs).length ∨
         thr < ((tokensOf (toks t.returnSet) r a.rAttr rs).length : Rat) - (tokensOf (toks t.returnSet) l a.lAttr ls).length) :
    NotListed := by
  intro hrow
  obtain ⟨h1, h2, -⟩ := EntryFilters.filterTables_size_window f a t toks cpu l r fr hv hk hrows hres ls rs hls hrs hlp hrp
    hrow hne
  have h1' := (EntryFilters.lower_ed_f_le_iff_of_exact f.cfg thr ht0 ht1 hm hthr
    (tokensOf (toks t.returnSet) r a.rAttr rs).length (hsm _) hex2 _).1 h1
  have h2' := (EntryFilters.le_upper_ed_f_iff_of_exact f.cfg thr ht0 ht1 hm hthr
    (tokensOf (toks t.returnSet) r a.rAttr rs).length (hsm _) hex1 _).1 h2
  push_cast at h1' h2'
  rcases h with h | h <;> linarith

end EdFloatTables

/-- an INTEGRAL float threshold (value `k`), filter_tables: token counts differing by more than `k` ⇒ not listed -/
theorem size_tight_tables_ed_float_integral (f : FilterObj) (a : TableArgs) (t : TokObj) (toks : TokFn) (cpu : Int)
    (l r fr : Frame) (hv : validateTablesAttrs a = .ok (l, r)) (hk : validateOutAndKeys a l r = .ok ())
    (hrows : r.rows.length < 2 ^ 40) (hres : filterTables .size f a t toks cpu = .ok fr)
    (k : Int) (hk0 : 0 ≤ k) (hk1 : k ≤ 2 ^ 30)
    (hm : f.cfg.measure = .editDistance) (hthr : f.cfg.threshold = .float (k : Rat))
    (hsm : ∀ s, (toks t.returnSet s).length < 2 ^ 32)
    (ls rs : Row) (hls : ls ∈ l.rows) (hrs : rs ∈ r.rows)
    (hlp : Present l a.lAttr ls) (hrp : Present r a.rAttr rs)
    (hne : ¬ ((tokensOf (toks t.returnSet) l a.lAttr ls).length = 0 ∧ (tokensOf (toks t.returnSet) r a.rAttr rs).length = 0))
    (h : k < ((tokensOf (toks t.returnSet) l a.lAttr ls).length : Int) - (tokensOf (toks t.returnSet) r a.rAttr rs).length ∨
         k < ((tokensOf (toks t.returnSet) r a.rAttr rs).length : Int) - (tokensOf (toks t.returnSet) l a.lAttr ls).length) :
    ¬ ∃ row ∈ fr.rows, rowKeys row = (keyOf l a.lKey ls, keyOf r a.rKey rs) := by
  have hk0' : (0 : Rat) ≤ k := by exact_mod_cast hk0
  have hk1' : (k : Rat) ≤ 2 ^ 30 := by exact_mod_cast hk1
  obtain ⟨e1, e2⟩ := EntryFilters.ed_integral_exact k hk0 hk1 (tokensOf (toks t.returnSet) r a.rAttr rs).length (hsm _)
  refine size_tight_tables_ed_float_exact f a t toks cpu l r fr hv hk hrows hres k hk0' hk1' hm hthr hsm ls rs hls hrs hlp hrp
    hne e1 e2 ?_
  rcases h with h | h
  · left
    have : ((k : Int) : Rat) < ((((tokensOf (toks t.returnSet) l a.lAttr ls).length : Int) -
        (tokensOf (toks t.returnSet) r a.rAttr rs).length : Int) : Rat) := by exact_mod_cast h
    push_cast at this
    exact this
  · right
    have : ((k : Int) : Rat) < ((((tokensOf (toks t.returnSet) r a.rAttr rs).length : Int) -
        (tokensOf (toks t.returnSet) l a.lAttr ls).length : Int) : Rat) := by exact_mod_cast h
    push_cast at this
    exact this

/-! ## non-vacuity -/
section NonVacuity
open EntryFilters.Ex

/-- OVERLAP, threshold 2, on the two small tables of C14.lean (`n_jobs = 2`, a missing value): both calls return and
    the inclusion applies -/
example : ∃ fp fx, filterTables .position { cfg := { measure := .overlap, threshold := .int 2 } } exA exT exToks 4 = .ok fp ∧
    filterTables .size { cfg := { measure := .overlap, threshold := .int 2 } } exA exT exToks 4 = .ok fx ∧
    ∀ row ∈ fp.rows, ∃ row' ∈ fx.rows, row'.drop 1 = row.drop 1 ∧ rowKeys row' = rowKeys row := by
  obtain ⟨fp, hp⟩ := EntryFilters.filterTables_total .position { cfg := { measure := .overlap, threshold := .int 2 } }
    exA exT exToks 4 exL exR ex_valid ex_keys (by decide +kernel)
  obtain ⟨fx, hx⟩ := EntryFilters.filterTables_total .size { cfg := { measure := .overlap, threshold := .int 2 } }
    exA exT exToks 4 exL exR ex_valid ex_keys (by decide +kernel)
  exact ⟨fp, fx, hp, hx, position_subset_size_overlap _ exA exT exToks 4 exL exR fp fx ex_valid ex_keys 2 rfl rfl hp hx⟩

/-- EDIT_DISTANCE, float threshold 1.5; "x" has 2 tokens, "z" has 4: the counts differ by 2 > 1.5, and `2 ± 1.5` are
    computed exactly ⇒ dropped (`size_tight_ed_float_exact`); with threshold 0.5 they differ by more than
    `⌊0.5⌋ + 1 = 1` ⇒ dropped (`size_tight_ed_float`) -/
example : filterPair .size { cfg := { measure := .editDistance, threshold := .float (3 / 2) } } exTok (.str "x") (.str "z")
    = true := by
  have e1 : (exTok (Cell.str "x").strVal).length = 2 := by decide
  have e2 : (exTok (Cell.str "z").strVal).length = 4 := by decide
  refine size_tight_ed_float_exact _ (3 / 2) (by norm_num) (by norm_num) rfl rfl exTok exTok_small _ _ rfl rfl
    (by rw [e1]; omega) ?_ ?_ ?_
  · rw [e1]; decide +kernel
  · rw [e1]; decide +kernel
  · rw [e1, e2]; norm_num

example : filterPair .size { cfg := { measure := .editDistance, threshold := .float (1 / 2) } } exTok (.str "x") (.str "z")
    = true := by
  have e1 : (exTok (Cell.str "x").strVal).length = 2 := by decide
  have e2 : (exTok (Cell.str "z").strVal).length = 4 := by decide
  refine size_tight_ed_float _ (1 / 2) (by norm_num) (by norm_num) rfl rfl exTok exTok_small _ _ rfl rfl
    (by rw [e1]; omega) ?_
  rw [e1, e2]
  right
  have : (1 / 2 : Rat).floor = 0 := by decide +kernel
  rw [this]
  norm_num

end NonVacuity

section AxiomCheck
#print axioms position_subset_size_of_prefix
#print axioms position_subset_size_overlap
#print axioms size_ed_float_window
#print axioms size_tight_ed_float
#print axioms size_tight_ed_float_exact
#print axioms size_tight_ed_float_integral
#print axioms float_threshold_not_tight
#print axioms size_tight_tables_ed_float
#print axioms size_tight_tables_ed_float_exact
#print axioms size_tight_tables_ed_float_integral
end AxiomCheck

end SSJ.Props.C14

/-
  C04 — Filters never dismiss a pair that satisfies the threshold.
  "For SizeFilter, PrefixFilter, PositionFilter and SuffixFilter under JACCARD, COSINE, DICE, OVERLAP or
  EDIT_DISTANCE, and for OverlapFilter, a pair of present values whose similarity meets the filter's threshold
  (>= for similarities; <= for edit distance, where the pair must also share a q-gram) is never dropped:
  filter_pair reports it as not dropped, filter_tables lists it and filter_candset keeps it.  The tokenizer is
  assumed to return sets for the set measures and bags of q-grams for edit distance."

  MODEL.  `filterPair k f tok l r` (`filter_pair` of the filter of kind `k : FilterKind`; `true` = dropped),
  `filterTables k f a t toks cpu` (`filter_tables`: validations, projection, dropna, chunking by `n_jobs`,
  `_filter_tables_split` per chunk, missing-value pairs, `_id`) and `filterCandset a fp cpu` (`filter_candset`, for any
  filter given as its `filter_pair` — a Python call `fp : Cell → Cell → Except PyErr Bool` that raises TypeError on a
  present non-string value: `filterPairPy k f tok`, `overlapFilterPairPy f tok`), all in SSJ/Model/Frame.lean, Matcher.lean; `overlapFilterPair` for OverlapFilter.
  A filter object `f : FilterObj` carries measure, threshold, q (`f.cfg`), `allowEmpty`, `allowMissing`.

  WHAT IS PROVED (measure × filter):
    JACCARD / COSINE / DICE  × Size, Prefix, Position, Suffix : filter_pair (`pair_safe_*`), filter_tables (`tables_safe_*`),
                               filter_candset (`candset_safe`).
    OVERLAP (int threshold)  × Size, Prefix, Position, Suffix : `pair_safe_overlap`, `tables_safe_overlap` (any kind).
    EDIT_DISTANCE (int threshold τ, q-gram tokenizer `qgrams q pad`, padded or not, bag mode)
                             × Size     : `pair_safe_size_ed`, `tables_safe_size_ed`  (distance ≤ τ; filter_pair needs no
                                          common q-gram, filter_tables only that the left value has a q-gram)
                             × Prefix   : `pair_safe_prefix_ed`, `tables_safe_prefix_ed` (distance ≤ τ and a common q-gram)
                             × Position : `pair_safe_position_ed` (filter_pair, FULL); filter_tables:
                                          `tables_safe_position_ed`, FULL, in SSJ/Props/C04_ed.lean (same namespace)
                             × Suffix   : `pair_safe_suffix_ed`, `tables_safe_suffix_ed`, FULL, in SSJ/Props/C04_suffix.lean
                                          (for the code repaired by commit 113c284; finding F8: before it the filter dropped
                                          qualifying pairs with a repeated q-gram).
    OverlapFilter            : `overlap_filter_pair_exact` (filter_pair is EXACT: kept iff both strings are non-empty and
                               the comparison holds), `overlap_filter_tables_exact` (filter_tables, entry level: listed
                               iff a common token exists and the comparison holds).  FINDING: filter_pair drops the pair
                               ("", "") under a padding q-gram tokenizer although its overlap (1) meets threshold 1 —
                               see the `example` after `overlap_filter_tables_exact`.
    filter_candset           : `candset_keeps_iff` (ANY filter: a candidate row is kept iff filter_pair does not drop the
                               pair it references), hence `candset_safe_of_pair`; instance `candset_safe` for
                               JACCARD / COSINE / DICE (the other measures: combine `candset_safe_of_pair` with the
                               corresponding `pair_safe_*`).

  BODY CONDITIONS (SSJ/Props/Common.lean).  `tables_returns_frame` (which CONCLUDES that `filter_tables` returns) assumes
  `BodyOK`: present filter values are strings (else TypeError), no `_id` in the output header (else ValueError);
  `candset_keeps_iff` that `filter_pair` does not raise on the values of the two columns (instance for the four filters
  on string columns: `candset_keeps_iff_filter`).  The safety theorems take a returned frame `… = .ok fr` as hypothesis
  and need nothing more (`filter_pair`'s answers, when it returns, are those of the pure `filterPair`:
  `SSJ.filterPairPy_ok_eq`).

  HYPOTHESES / SCOPE in plain words.
    * Set measures: the threshold `thr` is a double with `2⁻²⁰ ≤ thr ≤ 1` (`ThrOK`; the validation allows `0 < thr ≤ 1`,
      below `2⁻²⁰` the arithmetic proofs do not reach, property C15 covers tiny thresholds), the filter object has measure `m` and
      threshold `.float thr` (its `qval`, set when it was constructed with a q-gram tokenizer, is irrelevant) with `m`
      one of JACCARD, COSINE, DICE (`SetMeasure m`); `constructor_ok` says what a successful constructor call returns; the tokenizer returns duplicate-free lists of fewer than
      2³² tokens (precision limit of the binary64 arithmetic, not an enumeration bound).
      "The similarity meets the threshold" is `simSet m A B = .float s ∧ thr ≤ s` — py_stringmatching's similarity in
      double precision (`Spec.simSet`) is a float `s ≥ thr`.  This is WEAKER than the property's reading
      `qualStrict m ">=" thr A B` (similarity and its 4-decimal rounding both `≥ thr`), which implies it
      (`meets_threshold`); so the theorems are stronger than required.
      The two values must not both tokenize to nothing (that case is property C09).
    * SuffixFilter ONLY (theorems of THIS file; SSJ/Props/C04_suffix.lean proves `pair_safe_suffix_small`,
      `tables_safe_suffix_small` WITHOUT this hypothesis): additionally `prefThr m ≤ thr` (`prefThr` = 1e-4 for JACCARD,
      2e-4 for DICE, 1e-2 for COSINE).
      Reason: below these thresholds `round(·, 4)` can make the size lower bound 0, the prefix length is then
      `n + 1 > n`, and the model's `_filter_suffix` is called with a NEGATIVE suffix length, for which safety fails in
      the model (`SSJ.suffixFilterSuffix_long_prefix_counterexample`).  Whether the real code misbehaves there is
      checked by the harness, not here.
    * filter_tables: the call's table arguments passed validation (`validateTablesAttrs`, `validateOutAndKeys`: keys
      unique and present, attributes exist, …), the right table has fewer than 2⁴⁰ rows (so that `split_table`'s
      double-precision boundaries provably partition it), the tokenizer is used in its CURRENT mode
      (`toks t.returnSet`), which must return sets.  Everything else (out attributes, prefixes, `n_jobs`, cpu count,
      `allow_empty`, `allow_missing`) is arbitrary.
    * EDIT_DISTANCE: "meets the threshold" is `qualED "<=" τ s t` (Levenshtein distance `≤ τ`, `Spec.qualED`), "share a
      q-gram" is `shareToken (qgrams q pad) s t`; the filter object carries the int threshold τ and `qval = q`
      (`f.cfg = { measure := .editDistance, threshold := .int τ, qval := .int q }`); the tokenizer (current mode) IS the
      q-gram tokenizer `qgrams q pad` (SSJ/Model/Strings.lean, a checked transcription of py_stringmatching's).
    * filter_candset: `CandsetValid a c l r` — valid arguments, fewer than 2⁴⁰ candidate rows, every candidate row
      references existing rows (else the real code raises KeyError).

  FLOAT thresholds under OVERLAP and EDIT_DISTANCE (finding F9: TypeError before the repair of filter_utils.py): proved
  safe for the repaired code in SSJ/Props/C04_float.lean (`pair_safe_*_ed_float`, `tables_safe_*_ed_float`,
  `pair_safe_overlap_float`, `tables_safe_overlap_float`).  (PositionFilter.filter_tables under EDIT_DISTANCE:
  SSJ/Props/C04_ed.lean; SuffixFilter under EDIT_DISTANCE: SSJ/Props/C04_suffix.lean.)
  NOT COVERED: join values that are neither strings nor missing.
-/
import SSJ.Proofs.EntryFilters

namespace SSJ.Props.C04
open SSJ SSJ.Spec SSJ.Props

/-! ## the filter constructor -/

/-- what a successful constructor call `SizeFilter/PrefixFilter/PositionFilter/SuffixFilter(tokenizer, sim_measure_type,
    threshold, allow_empty, allow_missing)` returns: the measure named (case-insensitively), the threshold as given,
    `qval` of a q-gram tokenizer, and the two flags -/
theorem constructor_ok (name : String) (thr : PyV) (ae am : Bool) (t : TokObj) (f : FilterObj)
    (h : mkFilter name thr ae am t = .ok f) :
    ∃ m, Measure.ofName? name.toUpper = some m ∧ f.cfg.measure = m ∧ f.cfg.threshold = thr ∧
      f.cfg.qval = (if t.isQgram then .int t.qval else .none) ∧ f.allowEmpty = ae ∧ f.allowMissing = am :=
  EntryFilters.mkFilter_ok name thr ae am t f h

/-! ## JACCARD / COSINE / DICE -/

section SetMeasures
variable (m : Measure) (hm : SetMeasure m) (thr : Rat) (ht : ThrOK thr)
include hm ht

/-- the property's "meets the threshold" (`qualStrict … ">="`: similarity AND its rounding to 4 decimals are `≥ thr`)
    implies the hypothesis used below: the similarity is a float `s` with `thr ≤ s` -/
theorem meets_threshold (A B : List Tok) (hA : A.Nodup) (hB : B.Nodup) (hAs : A.length < 2 ^ 32)
    (hBs : B.length < 2 ^ 32) (h : qualStrict m ">=" (.float thr) A B = true) :
    ∃ s : Rat, simSet m A B = .float s ∧ thr ≤ s :=
  EntryFilters.reaches_of_qualStrict m hm thr ht.pos A B hA hB hAs hBs h

/-! ### filter_pair -/

variable (f : FilterObj) (hmeas : f.cfg.measure = m) (hthr : f.cfg.threshold = .float thr) (tok : String → List Tok)
  (hnd : ∀ s, (tok s).Nodup) (hsm : ∀ s, (tok s).length < 2 ^ 32)
include hmeas hthr hnd hsm

/-- SizeFilter.filter_pair does not drop a pair of present values (not both without tokens) whose similarity
    reaches the threshold -/
theorem pair_safe_size (l r : Cell) (hl : l.isMissing = false) (hr : r.isMissing = false)
    (hne : ¬ ((tok l.strVal).length = 0 ∧ (tok r.strVal).length = 0))
    (s : Rat) (hs : simSet m (tok l.strVal) (tok r.strVal) = .float s) (hq : thr ≤ s) :
    filterPair .size f tok l r = false :=
  EntryFilters.filterPair_safe_set .size m hm thr ht f hmeas hthr tok hnd hsm l r hl hr hne s hs hq (fun h => by cases h)

/-- PrefixFilter.filter_pair does not drop such a pair -/
theorem pair_safe_prefix (l r : Cell) (hl : l.isMissing = false) (hr : r.isMissing = false)
    (hne : ¬ ((tok l.strVal).length = 0 ∧ (tok r.strVal).length = 0))
    (s : Rat) (hs : simSet m (tok l.strVal) (tok r.strVal) = .float s) (hq : thr ≤ s) :
    filterPair .prefix f tok l r = false :=
  EntryFilters.filterPair_safe_set .prefix m hm thr ht f hmeas hthr tok hnd hsm l r hl hr hne s hs hq (fun h => by cases h)

/-- PositionFilter.filter_pair does not drop such a pair -/
theorem pair_safe_position (l r : Cell) (hl : l.isMissing = false) (hr : r.isMissing = false)
    (hne : ¬ ((tok l.strVal).length = 0 ∧ (tok r.strVal).length = 0))
    (s : Rat) (hs : simSet m (tok l.strVal) (tok r.strVal) = .float s) (hq : thr ≤ s) :
    filterPair .position f tok l r = false :=
  EntryFilters.filterPair_safe_set .position m hm thr ht f hmeas hthr tok hnd hsm l r hl hr hne s hs hq (fun h => by cases h)

/-- SuffixFilter.filter_pair does not drop such a pair — for thresholds `≥ prefThr m` (see the header) -/
theorem pair_safe_suffix (h4 : prefThr m ≤ thr) (l r : Cell) (hl : l.isMissing = false) (hr : r.isMissing = false)
    (hne : ¬ ((tok l.strVal).length = 0 ∧ (tok r.strVal).length = 0))
    (s : Rat) (hs : simSet m (tok l.strVal) (tok r.strVal) = .float s) (hq : thr ≤ s) :
    filterPair .suffix f tok l r = false :=
  EntryFilters.filterPair_safe_set .suffix m hm thr ht f hmeas hthr tok hnd hsm l r hl hr hne s hs hq (fun _ => h4)

/-- the same in the property's own reading of "meets the threshold", for any of the four filters -/
theorem pair_safe_of_qualStrict (k : FilterKind) (h4 : k = .suffix → prefThr m ≤ thr)
    (l r : Cell) (hl : l.isMissing = false) (hr : r.isMissing = false)
    (hne : ¬ ((tok l.strVal).length = 0 ∧ (tok r.strVal).length = 0))
    (hqual : qualStrict m ">=" (.float thr) (tok l.strVal) (tok r.strVal) = true) :
    filterPair k f tok l r = false := by
  obtain ⟨s, hs, hq⟩ := meets_threshold m hm thr ht _ _ (hnd _) (hnd _) (hsm _) (hsm _) hqual
  exact EntryFilters.filterPair_safe_set k m hm thr ht f hmeas hthr tok hnd hsm l r hl hr hne s hs hq h4

end SetMeasures

/-! ### filter_tables -/

/-- with valid table arguments, string filter columns and an output header without `_id` (`BodyOK`) `filter_tables`
    returns a frame (any filter kind, any filter object); without `BodyOK` it raises (`C15.filter_tables_body`) -/
theorem tables_returns_frame (k : FilterKind) (f : FilterObj) (a : TableArgs) (t : TokObj) (toks : TokFn) (cpu : Int)
    (l r : Frame) (hv : validateTablesAttrs a = .ok (l, r)) (hk : validateOutAndKeys a l r = .ok ())
    (hb : BodyOK a l r false) :
    ∃ fr, filterTables k f a t toks cpu = .ok fr :=
  EntryFilters.filterTables_total k f a t toks cpu l r hv hk hb

section SetMeasuresTables
variable (m : Measure) (hm : SetMeasure m) (thr : Rat) (ht : ThrOK thr)
  (f : FilterObj) (hmeas : f.cfg.measure = m) (hthr : f.cfg.threshold = .float thr)
  (a : TableArgs) (t : TokObj) (toks : TokFn) (cpu : Int) (l r fr : Frame)
  (hv : validateTablesAttrs a = .ok (l, r)) (hk : validateOutAndKeys a l r = .ok ())
  (hrows : r.rows.length < 2 ^ 40)
  (hnd : ∀ s, (toks t.returnSet s).Nodup) (hsm : ∀ s, (toks t.returnSet s).length < 2 ^ 32)
include hm ht hmeas hthr hv hk hrows hnd hsm

/-- SizeFilter.filter_tables lists every pair of source rows with present join values (not both without tokens)
    whose similarity reaches the threshold: the result has a row carrying their two keys -/
theorem tables_safe_size (hres : filterTables .size f a t toks cpu = .ok fr)
    (ls rs : Row) (hls : ls ∈ l.rows) (hrs : rs ∈ r.rows)
    (hlp : Present l a.lAttr ls) (hrp : Present r a.rAttr rs)
    (hne : ¬ ((tokensOf (toks t.returnSet) l a.lAttr ls).length = 0 ∧
              (tokensOf (toks t.returnSet) r a.rAttr rs).length = 0))
    (s : Rat) (hs : simSet m (tokensOf (toks t.returnSet) l a.lAttr ls) (tokensOf (toks t.returnSet) r a.rAttr rs) = .float s)
    (hq : thr ≤ s) :
    ∃ row ∈ fr.rows, rowKeys row = (keyOf l a.lKey ls, keyOf r a.rKey rs) :=
  EntryFilters.filterTables_safe_set .size f a t toks cpu l r fr m hm thr ht hmeas hthr hv hk hrows hnd hsm hres
    ls rs hls hrs hlp hrp hne s hs hq (fun h => by cases h)

/-- PrefixFilter.filter_tables lists every such pair -/
theorem tables_safe_prefix (hres : filterTables .prefix f a t toks cpu = .ok fr)
    (ls rs : Row) (hls : ls ∈ l.rows) (hrs : rs ∈ r.rows)
    (hlp : Present l a.lAttr ls) (hrp : Present r a.rAttr rs)
    (hne : ¬ ((tokensOf (toks t.returnSet) l a.lAttr ls).length = 0 ∧
              (tokensOf (toks t.returnSet) r a.rAttr rs).length = 0))
    (s : Rat) (hs : simSet m (tokensOf (toks t.returnSet) l a.lAttr ls) (tokensOf (toks t.returnSet) r a.rAttr rs) = .float s)
    (hq : thr ≤ s) :
    ∃ row ∈ fr.rows, rowKeys row = (keyOf l a.lKey ls, keyOf r a.rKey rs) :=
  EntryFilters.filterTables_safe_set .prefix f a t toks cpu l r fr m hm thr ht hmeas hthr hv hk hrows hnd hsm hres
    ls rs hls hrs hlp hrp hne s hs hq (fun h => by cases h)

/-- PositionFilter.filter_tables lists every such pair -/
theorem tables_safe_position (hres : filterTables .position f a t toks cpu = .ok fr)
    (ls rs : Row) (hls : ls ∈ l.rows) (hrs : rs ∈ r.rows)
    (hlp : Present l a.lAttr ls) (hrp : Present r a.rAttr rs)
    (hne : ¬ ((tokensOf (toks t.returnSet) l a.lAttr ls).length = 0 ∧
              (tokensOf (toks t.returnSet) r a.rAttr rs).length = 0))
    (s : Rat) (hs : simSet m (tokensOf (toks t.returnSet) l a.lAttr ls) (tokensOf (toks t.returnSet) r a.rAttr rs) = .float s)
    (hq : thr ≤ s) :
    ∃ row ∈ fr.rows, rowKeys row = (keyOf l a.lKey ls, keyOf r a.rKey rs) :=
  EntryFilters.filterTables_safe_set .position f a t toks cpu l r fr m hm thr ht hmeas hthr hv hk hrows hnd hsm hres
    ls rs hls hrs hlp hrp hne s hs hq (fun h => by cases h)

/-- SuffixFilter.filter_tables lists every such pair — for thresholds `≥ prefThr m` (see the header) -/
theorem tables_safe_suffix (h4 : prefThr m ≤ thr) (hres : filterTables .suffix f a t toks cpu = .ok fr)
    (ls rs : Row) (hls : ls ∈ l.rows) (hrs : rs ∈ r.rows)
    (hlp : Present l a.lAttr ls) (hrp : Present r a.rAttr rs)
    (hne : ¬ ((tokensOf (toks t.returnSet) l a.lAttr ls).length = 0 ∧
              (tokensOf (toks t.returnSet) r a.rAttr rs).length = 0))
    (s : Rat) (hs : simSet m (tokensOf (toks t.returnSet) l a.lAttr ls) (tokensOf (toks t.returnSet) r a.rAttr rs) = .float s)
    (hq : thr ≤ s) :
    ∃ row ∈ fr.rows, rowKeys row = (keyOf l a.lKey ls, keyOf r a.rKey rs) :=
  EntryFilters.filterTables_safe_set .suffix f a t toks cpu l r fr m hm thr ht hmeas hthr hv hk hrows hnd hsm hres
    ls rs hls hrs hlp hrp hne s hs hq (fun _ => h4)

end SetMeasuresTables

/-! ## OVERLAP (int threshold `k ≥ 1`): "similarity meets the threshold" is `|A ∩ B| ≥ k` -/

section Overlap
variable (kind : FilterKind) (f : FilterObj) (k : Int)
  (hm : f.cfg.measure = .overlap) (hthr : f.cfg.threshold = .int k) (hk1 : 1 ≤ k)
include hm hthr hk1

/-- `filter_pair` of any of the four filters under OVERLAP keeps a pair of present values with at least `k` common
    tokens (token sets of fewer than 2⁶² elements, so that sizes stay below `sys.maxsize`) -/
theorem pair_safe_overlap (tok : String → List Tok) (hnd : ∀ s, (tok s).Nodup) (hsm : ∀ s, (tok s).length < 2 ^ 62)
    (l r : Cell) (hl : l.isMissing = false) (hr : r.isMissing = false)
    (ho : k ≤ (interCount (tok l.strVal) (tok r.strVal) : Int)) :
    filterPair kind f tok l r = false :=
  EntryFilters.filterPair_safe_overlap kind f k hm hthr hk1 tok hnd hsm l r hl hr ho

/-- `filter_tables` of any of the four filters under OVERLAP lists every pair of present source rows with at least
    `k` common tokens -/
theorem tables_safe_overlap (a : TableArgs) (t : TokObj) (toks : TokFn) (cpu : Int) (l r fr : Frame)
    (hv : validateTablesAttrs a = .ok (l, r)) (hk : validateOutAndKeys a l r = .ok ())
    (hrows : r.rows.length < 2 ^ 40)
    (hnd : ∀ s, (toks t.returnSet s).Nodup) (hsm : ∀ s, (toks t.returnSet s).length < 2 ^ 62)
    (hres : filterTables kind f a t toks cpu = .ok fr)
    (ls rs : Row) (hls : ls ∈ l.rows) (hrs : rs ∈ r.rows)
    (hlp : Present l a.lAttr ls) (hrp : Present r a.rAttr rs)
    (ho : k ≤ (interCount (tokensOf (toks t.returnSet) l a.lAttr ls) (tokensOf (toks t.returnSet) r a.rAttr rs) : Int)) :
    ∃ row ∈ fr.rows, rowKeys row = (keyOf l a.lKey ls, keyOf r a.rKey rs) :=
  EntryFilters.filterTables_safe_overlap kind f a t toks cpu l r fr k hm hthr hk1 hv hk hrows hnd hsm hres
    ls rs hls hrs hlp hrp ho

end Overlap

/-! ## OverlapFilter: `filter_pair` is exact -/

/-- OverlapFilter.filter_pair keeps a pair of present values iff both strings are non-empty and the comparison
    `|A ∩ B| op overlap_size` holds — in particular (C04) a pair of non-empty strings meeting the threshold is kept -/
theorem overlap_filter_pair_exact (f : OverlapFilterObj) (tok : String → List Tok) (l r : Cell)
    (hl : l.isMissing = false) (hr : r.isMissing = false) :
    overlapFilterPair f tok l r = false ↔
      (l.strVal ≠ "" ∧ r.strVal ≠ "" ∧
        compFn f.compOp (.int (interCount (tok l.strVal) (tok r.strVal))) f.overlapSize = true) :=
  overlapFilterPair_iff f tok l r hl hr

/-- OverlapFilter.filter_tables (set tokenizer, valid arguments) is EXACT as well: a pair of source rows with present
    join values is listed iff the token sets have a common token and the comparison `|A ∩ B| op overlap_size` holds —
    in particular (C04) every pair meeting a threshold `≥ 1` is listed.  Unlike filter_pair there is no empty-string
    test in filter_tables. -/
theorem overlap_filter_tables_exact (f : OverlapFilterObj) (a : TableArgs) (oss : Bool) (tok : String → List Tok)
    (cpu : Int) (l r fr : Frame) (hnd : ∀ s, (tok s).Nodup)
    (hv : validateTablesAttrs a = .ok (l, r)) (hk : validateOutAndKeys a l r = .ok ())
    (hrows : r.rows.length < 2 ^ 40) (hres : overlapFilterTables f a oss tok cpu = .ok fr)
    (ls rs : Row) (hls : ls ∈ l.rows) (hrs : rs ∈ r.rows)
    (hlp : Present l a.lAttr ls) (hrp : Present r a.rAttr rs) :
    (∃ row ∈ fr.rows, rowKeys row = (keyOf l a.lKey ls, keyOf r a.rKey rs)) ↔
      (1 ≤ interCount (tokensOf tok l a.lAttr ls) (tokensOf tok r a.rAttr rs) ∧
       compFn f.compOp (.int (interCount (tokensOf tok l a.lAttr ls) (tokensOf tok r a.rAttr rs))) f.overlapSize = true) :=
  EntryFilters.overlapFilterTables_iff f a oss tok cpu l r fr hnd hv hk hrows hres ls rs hls hrs hlp hrp

/-- FINDING (model and real code agree, checked against py_stringsimjoin / py_stringmatching): with a PADDING q-gram
    tokenizer the empty string has one token (`"#$"` for q = 2), so the pair ("", "") has overlap 1 and meets the
    threshold 1 — yet OverlapFilter.filter_pair drops it because of its explicit empty-string test, while
    OverlapFilter.filter_tables lists it (`overlap_filter_tables_exact`).  Hence C04 holds for
    OverlapFilter.filter_pair only for NON-EMPTY strings, as `overlap_filter_pair_exact` states. -/
example : interCount (qgrams 2 true "") (qgrams 2 true "") = 1 ∧
    compFn ">=" (.int (interCount (qgrams 2 true "") (qgrams 2 true ""))) (.int 1) = true ∧
    overlapFilterPair { overlapSize := .int 1, compOp := ">=" } (qgrams 2 true) (.str "") (.str "") = true := by
  decide

/-! ## EDIT_DISTANCE (int threshold `τ`, bags of q-grams) -/

section EditDistance
variable (f : FilterObj) (tau : Int) (q : Nat) (pad : Bool)

/-- SizeFilter.filter_pair keeps every pair of present strings within distance `τ` (the q-gram counts of two strings
    differ by at most their distance); any `q`, padded or not, whether or not they share a q-gram -/
theorem pair_safe_size_ed (hm : f.cfg.measure = .editDistance) (hthr : f.cfg.threshold = .int tau)
    (l r : Cell) (hl : l.isMissing = false) (hr : r.isMissing = false)
    (hd : qualED "<=" tau l.strVal r.strVal = true) :
    filterPair .size f (qgrams q pad) l r = false :=
  EntryFilters.sizeFilterPair_safe_ed f tau hm hthr q pad l r hl hr ((EntryED.qualED_le_iff _ _ _).1 hd)

/-- PrefixFilter.filter_pair keeps every pair of present strings within distance `τ` which share a q-gram -/
theorem pair_safe_prefix_ed (hf : f.cfg = { measure := .editDistance, threshold := .int tau, qval := .int q })
    (l r : Cell) (hl : l.isMissing = false) (hr : r.isMissing = false)
    (hd : qualED "<=" tau l.strVal r.strVal = true)
    (hshare : shareToken (qgrams q pad) l.strVal r.strVal = true) :
    filterPair .prefix f (qgrams q pad) l r = false :=
  EntryFilters.prefixFilterPair_safe_ed f tau q hf pad l r hl hr ((EntryED.qualED_le_iff _ _ _).1 hd) hshare

/-- PositionFilter.filter_pair keeps every pair of present strings within distance `τ` which share a q-gram -/
theorem pair_safe_position_ed (hf : f.cfg = { measure := .editDistance, threshold := .int tau, qval := .int q })
    (l r : Cell) (hl : l.isMissing = false) (hr : r.isMissing = false)
    (hd : qualED "<=" tau l.strVal r.strVal = true)
    (hshare : shareToken (qgrams q pad) l.strVal r.strVal = true) :
    filterPair .position f (qgrams q pad) l r = false :=
  EntryFilters.positionFilterPair_safe_ed f tau q hf pad l r hl hr ((EntryED.qualED_le_iff _ _ _).1 hd) hshare

variable (a : TableArgs) (t : TokObj) (toks : TokFn) (cpu : Int) (l r fr : Frame)
  (hv : validateTablesAttrs a = .ok (l, r)) (hk : validateOutAndKeys a l r = .ok ())
  (hrows : r.rows.length < 2 ^ 40) (htok : ∀ s, toks t.returnSet s = qgrams q pad s)
include hv hk hrows htok

/-- SizeFilter.filter_tables lists every pair of present source rows within distance `τ` which share a q-gram -/
theorem tables_safe_size_ed (hm : f.cfg.measure = .editDistance) (hthr : f.cfg.threshold = .int tau)
    (hres : filterTables .size f a t toks cpu = .ok fr)
    (ls rs : Row) (hls : ls ∈ l.rows) (hrs : rs ∈ r.rows)
    (hlp : Present l a.lAttr ls) (hrp : Present r a.rAttr rs)
    (hd : qualED "<=" tau (strOf l a.lAttr ls) (strOf r a.rAttr rs) = true)
    (hshare : shareToken (qgrams q pad) (strOf l a.lAttr ls) (strOf r a.rAttr rs) = true) :
    ∃ row ∈ fr.rows, rowKeys row = (keyOf l a.lKey ls, keyOf r a.rKey rs) := by
  obtain ⟨g, hg, -⟩ := (EntryFilters.shareToken_iff _ _ _).1 hshare
  exact EntryFilters.filterTables_size_safe_ed f a t toks cpu l r fr tau hm hthr q pad htok hv hk hrows hres
    ls rs hls hrs hlp hrp ((EntryED.qualED_le_iff _ _ _).1 hd) (List.ne_nil_of_mem hg)

/-- PrefixFilter.filter_tables lists every pair of present source rows within distance `τ` which share a q-gram -/
theorem tables_safe_prefix_ed (hf : f.cfg = { measure := .editDistance, threshold := .int tau, qval := .int q })
    (hres : filterTables .prefix f a t toks cpu = .ok fr)
    (ls rs : Row) (hls : ls ∈ l.rows) (hrs : rs ∈ r.rows)
    (hlp : Present l a.lAttr ls) (hrp : Present r a.rAttr rs)
    (hd : qualED "<=" tau (strOf l a.lAttr ls) (strOf r a.rAttr rs) = true)
    (hshare : shareToken (qgrams q pad) (strOf l a.lAttr ls) (strOf r a.rAttr rs) = true) :
    ∃ row ∈ fr.rows, rowKeys row = (keyOf l a.lKey ls, keyOf r a.rKey rs) :=
  EntryFilters.filterTables_prefix_safe_ed f a t toks cpu l r fr tau q hf pad htok hv hk hrows hres
    ls rs hls hrs hlp hrp ((EntryED.qualED_le_iff _ _ _).1 hd) hshare

/- `tables_safe_position_ed` (PositionFilter.filter_tables under EDIT_DISTANCE, the same statement as
   `tables_safe_prefix_ed` with `.position`) is PROVED in SSJ/Props/C04_ed.lean: the table-level position scan is safe on
   bags (`SSJ.positionFindCandidates_complete_bag`, SSJ/Proofs/PositionBag.lean — with duplicates one probe token meets
   several postings of a candidate and the counter over-counts the bag overlap, which only helps).
   The SuffixFilter under EDIT_DISTANCE (`pair_safe_suffix_ed`, `tables_safe_suffix_ed`) is PROVED in
   SSJ/Props/C04_suffix.lean for the repaired code (`_number_repeated_tokens`, commit 113c284). -/

end EditDistance

/-! ## filter_candset -/

section Candset

/-- `filter_candset` of ANY filter (given as its `filter_pair`, `fp`): with valid arguments it returns a frame with the
    candidate set's columns which keeps a candidate row iff `filter_pair` does not drop the join values of the two
    table rows the candidate row references; any `n_jobs` -/
theorem candset_keeps_iff (a : CandsetArgs) (fp : Cell → Cell → Except PyErr Bool) (fpb : Cell → Cell → Bool)
    (cpu : Int) (c l r : Frame) (hval : EntryFilters.CandsetValid a c l r)
    (hfp : ∀ ls ∈ l.rows, ∀ rs ∈ r.rows,
      fp (valOf l a.lAttr ls) (valOf r a.rAttr rs) = .ok (fpb (valOf l a.lAttr ls) (valOf r a.rAttr rs))) :
    ∃ fr, filterCandset a fp cpu = .ok fr ∧ fr.columns = c.columns ∧
      ∀ cr ∈ c.rows, ∀ ls ∈ l.rows, ∀ rs ∈ r.rows,
        keyOf l a.lKey ls = cr.cell (c.colIdx a.candLKey) → keyOf r a.rKey rs = cr.cell (c.colIdx a.candRKey) →
        (cr ∈ fr.rows ↔ fpb (valOf l a.lAttr ls) (valOf r a.rAttr rs) = false) :=
  EntryFilters.filterCandset_keeps a fp fpb cpu c l r hval hfp

/-- the instance for the four filters: with string filter columns `filter_pair` never raises (`filterPairPy` answers
    `filterPair`), so `filter_candset` returns and keeps a row iff `filterPair` does not drop its pair -/
theorem candset_keeps_iff_filter (k : FilterKind) (f : FilterObj) (tok : String → List Tok) (a : CandsetArgs) (cpu : Int)
    (c l r : Frame) (hval : EntryFilters.CandsetValid a c l r)
    (hsl : StrColumn l a.lAttr) (hsr : StrColumn r a.rAttr) :
    ∃ fr, filterCandset a (filterPairPy k f tok) cpu = .ok fr ∧ fr.columns = c.columns ∧
      ∀ cr ∈ c.rows, ∀ ls ∈ l.rows, ∀ rs ∈ r.rows,
        keyOf l a.lKey ls = cr.cell (c.colIdx a.candLKey) → keyOf r a.rKey rs = cr.cell (c.colIdx a.candRKey) →
        (cr ∈ fr.rows ↔ filterPair k f tok (valOf l a.lAttr ls) (valOf r a.rAttr rs) = false) :=
  candset_keeps_iff a _ _ cpu c l r hval (filterPairPy_columns k f tok l r a.lAttr a.rAttr hsl hsr)

/-- hence: whenever the call returned a frame and `filter_pair` — a Python call `fp` whose answers, when it does not
    raise, are those of the total function `fpb` — keeps the referenced pair, `filter_candset` keeps the candidate row -/
theorem candset_safe_of_pair (a : CandsetArgs) (fp : Cell → Cell → Except PyErr Bool) (fpb : Cell → Cell → Bool)
    (hfp : ∀ x y b, fp x y = .ok b → b = fpb x y) (cpu : Int) (c l r fr : Frame)
    (hval : EntryFilters.CandsetValid a c l r) (hres : filterCandset a fp cpu = .ok fr)
    (cr ls rs : Row) (hcr : cr ∈ c.rows) (hls : ls ∈ l.rows) (hrs : rs ∈ r.rows)
    (hkl : keyOf l a.lKey ls = cr.cell (c.colIdx a.candLKey)) (hkr : keyOf r a.rKey rs = cr.cell (c.colIdx a.candRKey))
    (hpair : fpb (valOf l a.lAttr ls) (valOf r a.rAttr rs) = false) : cr ∈ fr.rows := by
  have hres' := filterCandset_ok_pure a fp fpb hfp cpu fr hres
  obtain ⟨fr', hfr', -, h⟩ := candset_keeps_iff a (fun x y => .ok (fpb x y)) fpb cpu c l r hval (fun _ _ _ _ => rfl)
  rw [hres'] at hfr'
  cases Except.ok.inj hfr'
  exact (h cr hcr ls hls rs hrs hkl hkr).2 hpair

/-- C04 for `filter_candset` of the four filters under JACCARD / COSINE / DICE: a candidate row referencing two rows
    with present join values (not both without tokens) whose similarity reaches the threshold is kept
    (SuffixFilter: thresholds `≥ prefThr m`) -/
theorem candset_safe (k : FilterKind) (m : Measure) (hm : SetMeasure m) (thr : Rat) (ht : ThrOK thr)
    (f : FilterObj) (hmeas : f.cfg.measure = m) (hthr : f.cfg.threshold = .float thr)
    (h4 : k = .suffix → prefThr m ≤ thr)
    (tok : String → List Tok) (hnd : ∀ s, (tok s).Nodup) (hsm : ∀ s, (tok s).length < 2 ^ 32)
    (a : CandsetArgs) (cpu : Int) (c l r fr : Frame)
    (hval : EntryFilters.CandsetValid a c l r) (hres : filterCandset a (filterPairPy k f tok) cpu = .ok fr)
    (cr ls rs : Row) (hcr : cr ∈ c.rows) (hls : ls ∈ l.rows) (hrs : rs ∈ r.rows)
    (hkl : keyOf l a.lKey ls = cr.cell (c.colIdx a.candLKey)) (hkr : keyOf r a.rKey rs = cr.cell (c.colIdx a.candRKey))
    (hlp : Present l a.lAttr ls) (hrp : Present r a.rAttr rs)
    (hne : ¬ ((tokensOf tok l a.lAttr ls).length = 0 ∧ (tokensOf tok r a.rAttr rs).length = 0))
    (s : Rat) (hs : simSet m (tokensOf tok l a.lAttr ls) (tokensOf tok r a.rAttr rs) = .float s) (hq : thr ≤ s) :
    cr ∈ fr.rows :=
  candset_safe_of_pair a _ _ (filterPairPy_ok_eq k f tok) cpu c l r fr hval hres cr ls rs hcr hls hrs hkl hkr
    (EntryFilters.filterPair_safe_set k m hm thr ht f hmeas hthr tok hnd hsm _ _ hlp hrp hne s hs hq h4)

end Candset

/-! ## non-vacuity: the hypotheses are satisfiable by a concrete, non-trivial instance -/
section NonVacuity
open EntryFilters.Ex

/-- JACCARD, threshold 0.25 (a filter object as constructed with a q-gram tokenizer: `qval = 2`); "x" ↦ {a,b},
    "y" ↦ {a,c}: similarity `rn(1/3) ≥ 0.25`; the PositionFilter keeps the pair -/
example : filterPair .position { cfg := { measure := .jaccard, threshold := .float (1 / 4), qval := .int 2 } }
    exTok (.str "x") (.str "y") = false :=
  pair_safe_position .jaccard (Or.inl rfl) (1 / 4) ex_thr _ rfl rfl exTok exTok_nodup exTok_small _ _ rfl rfl (by decide)
    _ ex_sim ex_reach

/-- the same pair as rows 1 / 7 of two small tables (one missing value, `n_jobs = 2`): SuffixFilter.filter_tables
    returns a frame and lists the pair -/
example : ∃ fr, filterTables .suffix { cfg := cfgOf .jaccard (1 / 4) } exA exT exToks 4 = .ok fr ∧
    ∃ row ∈ fr.rows, rowKeys row = (Cell.int 1, Cell.int 7) := by
  obtain ⟨fr, hfr⟩ := tables_returns_frame .suffix { cfg := cfgOf .jaccard (1 / 4) } exA exT exToks 4 exL exR
    ex_valid ex_keys (by decide +kernel)
  refine ⟨fr, hfr, ?_⟩
  exact tables_safe_suffix .jaccard (Or.inl rfl) (1 / 4) ex_thr _ rfl rfl exA exT exToks 4 exL exR fr ex_valid ex_keys
    (by decide) exTok_nodup exTok_small (by norm_num [prefThr]) hfr [.int 1, .str "x"] [.int 7, .str "y"]
    (by decide) (by decide) (by unfold Present; decide) (by unfold Present; decide) (by decide) _ ex_sim ex_reach

/-- OVERLAP, threshold 1: the pair ("x", "y") has one common token and is kept by the SizeFilter -/
example : filterPair .size { cfg := { measure := .overlap, threshold := .int 1 } } exTok (.str "x") (.str "y") = false :=
  pair_safe_overlap .size _ 1 rfl rfl (le_refl _) exTok exTok_nodup
    (fun s => lt_trans (exTok_small s) (by norm_num)) _ _ rfl rfl (by decide)

/-- EDIT_DISTANCE, τ = 1, padded 2-grams: "abc" / "abd" are at distance 1 and share the 2-gram "ab"; the
    PositionFilter keeps the pair -/
example : filterPair .position { cfg := { measure := .editDistance, threshold := .int 1, qval := .int 2 } }
    (qgrams 2 true) (.str "abc") (.str "abd") = false :=
  pair_safe_position_ed _ 1 2 true rfl _ _ rfl rfl ((EntryED.qualED_le_iff _ _ _).2 (by decide)) (by decide)

/-- a one-row candidate set referencing rows 1 / 7 of the two small tables: valid arguments, and PrefixFilter's
    `filter_candset` keeps the row -/
def exC : Frame := { columns := ["_id", "l_id", "r_id"], rows := [[.int 0, .int 1, .int 7]] }
def exCA : CandsetArgs :=
  { candset := some exC, candLKey := "l_id", candRKey := "r_id", ltable := some exL, rtable := some exR,
    lKey := "id", rKey := "id", lAttr := "name", rAttr := "name", nJobs := 2 }

theorem exCA_valid : EntryFilters.CandsetValid exCA exC exL exR :=
  ⟨rfl, rfl, rfl, by decide, by decide, by decide, by decide, by decide, by decide, by decide, by decide, by decide,
    by decide, by decide, by decide⟩

example : ∃ fr, filterCandset exCA (filterPairPy .prefix { cfg := cfgOf .jaccard (1 / 4) } exTok) 4 = .ok fr ∧
    [Cell.int 0, .int 1, .int 7] ∈ fr.rows := by
  obtain ⟨fr, hfr, -, -⟩ := candset_keeps_iff_filter .prefix { cfg := cfgOf .jaccard (1 / 4) } exTok exCA 4
    exC exL exR exCA_valid (by decide) (by decide)
  exact ⟨fr, hfr, candset_safe .prefix .jaccard (Or.inl rfl) (1 / 4) ex_thr _ rfl rfl (fun h => by cases h) exTok
    exTok_nodup exTok_small exCA 4 exC exL exR fr exCA_valid hfr _ [.int 1, .str "x"] [.int 7, .str "y"]
    (by decide) (by decide) (by decide) (by decide) (by decide) (by unfold Present; decide) (by unfold Present; decide)
    (by decide) _ ex_sim ex_reach⟩

end NonVacuity

end SSJ.Props.C04

/-
  SSJ.Props.Common — vocabulary shared by the property theorems: how a result row names its source rows,
  and the scope hypotheses (what the theorems assume about tokenizer output and table sizes).
-/
import SSJ.Model.Matcher
import SSJ.Spec.Spec

namespace SSJ.Props
open SSJ

/-- key cell / join-attribute cell of a source row of a frame -/
def keyOf (f : Frame) (key : String) (srow : Row) : Cell := srow.cell (f.colIdx key)
def valOf (f : Frame) (attr : String) (srow : Row) : Cell := srow.cell (f.colIdx attr)

/-- the join value of the row is present (not None / NaN) -/
def Present (f : Frame) (attr : String) (srow : Row) : Prop := (valOf f attr srow).isMissing = false

/-- tokens of the row's join value under tokenization function `tok` -/
def tokensOf (tok : String → List Tok) (f : Frame) (attr : String) (srow : Row) : List Tok :=
  tok (valOf f attr srow).strVal

/-- the string of the row's join value -/
def strOf (f : Frame) (attr : String) (srow : Row) : String := (valOf f attr srow).strVal

/-- a result row of a join / filter_tables is `_id :: left key :: right key :: …`; these are its two keys -/
def rowKeys (row : Row) : Cell × Cell := (row.cell 1, row.cell 2)

/-- the last cell of a result row (the `_sim_score` cell when a score column was requested) -/
def rowScore (row : Row) : Cell := row.getLastD .missing

/-- SCOPE of the set-similarity theorems: the tokenizer (in set mode) returns duplicate-free lists of fewer than
    2³² tokens, and the right table has fewer than 2⁴⁰ rows (precision limits of binary64 under which the library's
    4-decimal slack and its chunk-boundary rounding provably work; not enumeration bounds) -/
structure InScope (tok : String → List Tok) (r : Frame) : Prop where
  nodup : ∀ s, (tok s).Nodup
  small : ∀ s, (tok s).length < 2 ^ 32
  rows : r.rows.length < 2 ^ 40

end SSJ.Props

/-
  SSJ.Props.Common — vocabulary shared by the property theorems: how a result row names its source rows,
  and the scope hypotheses (what the theorems assume about tokenizer output and table sizes).
-/
import SSJ.Model.Matcher
import SSJ.Spec.Spec

namespace SSJ.Props
open SSJ

/-- key cell / join-attribute cell of a source row of a frame -/
def keyOf (f : Frame) (key : String) (srow : Row) : Cell := srow.cell (f.colIdx key)
def valOf (f : Frame) (attr : String) (srow : Row) : Cell := srow.cell (f.colIdx attr)

/-- the join value of the row is present (not None / NaN) -/
def Present (f : Frame) (attr : String) (srow : Row) : Prop := (valOf f attr srow).isMissing = false

/-- tokens of the row's join value under tokenization function `tok` -/
def tokensOf (tok : String → List Tok) (f : Frame) (attr : String) (srow : Row) : List Tok :=
  tok (valOf f attr srow).strVal

/-- the string of the row's join value -/
def strOf (f : Frame) (attr : String) (srow : Row) : String := (valOf f attr srow).strVal

/-- a result row of a join / filter_tables is `_id :: left key :: right key :: …`; these are its two keys -/
def rowKeys (row : Row) : Cell × Cell := (row.cell 1, row.cell 2)

/-- the last cell of a result row (the `_sim_score` cell when a score column was requested) -/
def rowScore (row : Row) : Cell := row.getLastD .missing

/-- SCOPE of the set-similarity theorems: the tokenizer (in set mode) returns duplicate-free lists of fewer than
    2³² tokens, and the right table has fewer than 2⁴⁰ rows (precision limits of binary64 under which the library's
    4-decimal slack and its chunk-boundary rounding provably work; not enumeration bounds) -/
structure InScope (tok : String → List Tok) (r : Frame) : Prop where
  nodup : ∀ s, (tok s).Nodup
  small : ∀ s, (tok s).length < 2 ^ 32
  rows : r.rows.length < 2 ^ 40

/-- `key` is a KEY COLUMN of `f`, as `validate_key_attr` demands (`len(table[key].unique()) == len(table)` and no
    null): no value is missing, and no two rows hold values that are equal as Python values — pandas' `unique()`
    identifies `1`, `1.0` and `True` (and `0`, `0.0`, `False`), whereas `'1'` differs from `1` (`Cell.pyEq`).
    Stronger than "the cells are pairwise different": the column `[1, 1.0]` is not a key column. -/
def KeyColumn (f : Frame) (key : String) : Prop :=
  (f.col key).Pairwise (fun x y => x.pyEq y = false) ∧ ∀ c ∈ f.col key, c.isMissing = false

instance (f : Frame) (key : String) : Decidable (KeyColumn f key) := by unfold KeyColumn; infer_instance

/-- two different rows of `f` (positions `i < j`) hold key values that are equal as Python values: the same value
    twice, or e.g. `1` and `1.0`, `1` and `True`, `0.0` and `False` -/
def SameKeyTwice (f : Frame) (key : String) : Prop :=
  ∃ i j, i < j ∧ j < f.rows.length ∧ (keyOf f key (f.rows.getD i [])).pyEq (keyOf f key (f.rows.getD j [])) = true

/-- every value of column `attr` is missing or a Python `str` — what the tokenizer needs: a present value of any
    other type (int, float, bool, bytes, … in an object column) makes `tokenizer.tokenize` raise
    `TypeError: Input is expected to be a string`, and with it every entry point that tokenizes the column -/
def StrColumn (f : Frame) (attr : String) : Prop := ∀ srow ∈ f.rows, (valOf f attr srow).strOrMissing = true

instance (f : Frame) (attr : String) : Decidable (StrColumn f attr) := by unfold StrColumn; infer_instance

/-- the output header (prefixed keys, prefixed output attributes, `_sim_score`) has no column named `_id`:
    otherwise the final `output_table.insert(0, '_id', …)` of every join / `filter_tables` raises
    `ValueError: cannot insert _id, already exists` (e.g. `l_out_prefix='_'` with key attribute `id`) -/
def NoIdClash (header : List String) : Prop := "_id" ∉ header

instance (header : List String) : Decidable (NoIdClash header) := by unfold NoIdClash; infer_instance

/-- the header (without `_id`) a join / `filter_tables` call with arguments `a` assembles:
    `[l_pre+l_key, r_pre+r_key] ++ l_pre+l_out… ++ r_pre+r_out… (++ ["_sim_score"])` -/
def outHeader (a : TableArgs) (outSimScore : Bool) : List String :=
  getOutputHeader a.lKey a.rKey (removeRedundantAttrs a.lOut a.lKey) (removeRedundantAttrs a.rOut a.rKey) a.lPre a.rPre
    ++ (if outSimScore then ["_sim_score"] else [])

/-- what the BODY of a table-level call (a join or `filter_tables` with table arguments `a`, tables `l r`, score column
    requested or not) needs beyond the documented argument validations in order to return a frame:
    both join columns hold only strings and missing values (else the tokenizer raises TypeError), and the output
    header does not already contain `_id` (else the final `insert(0, '_id', …)` raises ValueError) -/
structure BodyOK (a : TableArgs) (l r : Frame) (outSimScore : Bool) : Prop where
  lstr : StrColumn l a.lAttr
  rstr : StrColumn r a.rAttr
  noClash : NoIdClash (outHeader a outSimScore)

instance (a : TableArgs) (l r : Frame) (oss : Bool) : Decidable (BodyOK a l r oss) :=
  decidable_of_iff (StrColumn l a.lAttr ∧ StrColumn r a.rAttr ∧ NoIdClash (outHeader a oss))
    ⟨fun ⟨h1, h2, h3⟩ => ⟨h1, h2, h3⟩, fun ⟨h1, h2, h3⟩ => ⟨h1, h2, h3⟩⟩

end SSJ.Props

/-
  C14 (wide threshold scope) — Filters prune what their technique promises to prune.

  Companion of SSJ/Props/C14.lean (same namespace `SSJ.Props.C14`; property text, model, vocabulary as there).  The
  JACCARD / COSINE / DICE theorems of C14.lean (tightness of SizeFilter, `position_subset_size`) assume that the filter
  object carries a Python FLOAT threshold `.float thr` with `2⁻²⁰ ≤ thr ≤ 1` (`ThrOK`); the filter constructor accepts
  every `0 < t ≤ 1`, also given as the Python int `1`.

  WHAT CHANGED.  For every theorem of C14.lean with a `ThrOK` hypothesis there is a theorem `…_wide` with the same
  conclusion where the filter object carries the threshold VALUE `th : PyV` (`f.cfg.threshold = th`) with
  `WideThr m th` (SSJ/Proofs/ArithWide.lean): a Python float `t` with `thrLo m ≤ t ≤ 1` (`thrLo m = 2⁻⁹⁸⁹` for JACCARD and
  DICE, `2⁻⁴⁹⁵` for COSINE) or the Python int `1`; `thrVal th` is the threshold's numeric value.
    * tightness (`size_tight_jaccard_wide`, `_dice_wide`, `_cosine_wide`, `size_tight_tables_*_wide`): the hypothesis "best
      attainable similarity more than 1e-4 below the threshold" (`… < thrVal th − 1e-4`, COSINE: `thrVal th > 1e-4`)
      can only hold for `thrVal th > 1e-4`; so for float thresholds nothing new is claimed below `2⁻²⁰` (the
      statements are vacuously true there and the `ThrOK` lemmas `SSJ.size_tight_*` of `Proofs/Arith.lean` suffice —
      no tightness statement FAILS in the wide range), the widening adds the int threshold `1`;
    * one side without tokens (`size_tight_left_empty_wide`, `size_tight_tables_one_empty_wide`) and
      `position_subset_size_wide` are genuinely wider: they hold down to `thrLo m`;
    * `size_tight_right_empty_wide` keeps the hypothesis `prefThr m ≤ thr` of C14.lean (as `prefThr m ≤ thrVal th`; the
      counterexample below `prefThr` is in the header of C14.lean), so it only gains the int threshold `1`.

  WHY THE RANGE STOPS AT `thrLo m`.  Binary64 OVERFLOW of the size upper bound: `n / t`, `((2 − t)/t) · n`, `n / (t·t)` must
  stay below `2¹⁰²⁴` for token counts up to `2³² − 1`; from `2⁻⁹⁹³` / `2⁻⁹⁹²` / `2⁻⁴⁹⁷` on the generated code really fails for
  large records (`SSJ.cosine_overflow_at_500`: the integer view `upper` is then 0 and e.g. `position_subset_size` has no
  reason to hold).
  STILL OUTSIDE.  Thresholds in `(0, thrLo m)` (the real code raises `OverflowError` / `ZeroDivisionError` for large enough
  token counts — recorded known finding K2 — or works for small token counts; not covered by theorems).  The
  measure-independent theorems of C14.lean (`size_counts_only`, `size_pair_exact`, `no_common_token_*`,
  `position_subset_prefix`, `position_subset_size_of`, OVERLAP / EDIT_DISTANCE) need no companion.
-/
import SSJ.Proofs.EntryWide
import SSJ.Props.C14

namespace SSJ.Props.C14
open SSJ SSJ.Spec SSJ.Props

/-! ## SizeFilter is tight: filter_pair, every covered threshold value -/

section TightPairWide
variable (th : PyV) (f : FilterObj) (tok : String → List Tok)
  (hsm : ∀ s, (tok s).length < 2 ^ 32) (l r : Cell) (hl : l.isMissing = false) (hr : r.isMissing = false)
include hsm hl hr

/-- JACCARD: both values have tokens and `min(n,k)/max(n,k) < thr − 1e-4` ⇒ dropped -/
theorem size_tight_jaccard_wide (hth : WideThr .jaccard th) (hmeas : f.cfg.measure = .jaccard) (hthr : f.cfg.threshold = th)
    (hA : 1 ≤ (tok l.strVal).length) (hB : 1 ≤ (tok r.strVal).length)
    (h : ((min (tok l.strVal).length (tok r.strVal).length : Nat) : Rat) /
         ((max (tok l.strVal).length (tok r.strVal).length : Nat) : Rat) < thrVal th - 1 / 10000) :
    filterPair .size f tok l r = true := by
  refine EntryFilters.sizeFilterPair_dropped f tok l r hl hr (by omega) ?_
  have sb := EntryWide.sameBounds_wide f.cfg .jaccard (Or.inl rfl) th hmeas hthr
  rw [sb.lower, sb.upper]
  exact EntryWide.size_tight_jaccard_wide th hth _ _ hA hB (hsm _) (hsm _) h

/-- DICE: both values have tokens and `2·min(n,k)/(n+k) < thr − 1e-4` ⇒ dropped -/
theorem size_tight_dice_wide (hth : WideThr .dice th) (hmeas : f.cfg.measure = .dice) (hthr : f.cfg.threshold = th)
    (hA : 1 ≤ (tok l.strVal).length) (hB : 1 ≤ (tok r.strVal).length)
    (h : (2 * (min (tok l.strVal).length (tok r.strVal).length : Nat) : Rat) /
         (((tok l.strVal).length : Rat) + (tok r.strVal).length) < thrVal th - 1 / 10000) :
    filterPair .size f tok l r = true := by
  refine EntryFilters.sizeFilterPair_dropped f tok l r hl hr (by omega) ?_
  have sb := EntryWide.sameBounds_wide f.cfg .dice (Or.inr (Or.inr rfl)) th hmeas hthr
  rw [sb.lower, sb.upper]
  exact EntryWide.size_tight_dice_wide th hth _ _ hA hB (hsm _) (hsm _) h

/-- COSINE: both values have tokens and `√(min(n,k)/max(n,k)) < thr − 1e-4`, i.e. `min/max < (thr − 1e-4)²` with
    `thr > 1e-4` ⇒ dropped -/
theorem size_tight_cosine_wide (hth : WideThr .cosine th) (hmeas : f.cfg.measure = .cosine) (hthr : f.cfg.threshold = th)
    (h4 : 1 / 10000 < thrVal th)
    (hA : 1 ≤ (tok l.strVal).length) (hB : 1 ≤ (tok r.strVal).length)
    (h : ((min (tok l.strVal).length (tok r.strVal).length : Nat) : Rat) /
         ((max (tok l.strVal).length (tok r.strVal).length : Nat) : Rat) < (thrVal th - 1 / 10000) ^ 2) :
    filterPair .size f tok l r = true := by
  refine EntryFilters.sizeFilterPair_dropped f tok l r hl hr (by omega) ?_
  have sb := EntryWide.sameBounds_wide f.cfg .cosine (Or.inr (Or.inl rfl)) th hmeas hthr
  rw [sb.lower, sb.upper]
  exact EntryWide.size_tight_cosine_wide th hth h4 _ _ hA hB (hsm _) (hsm _) h

/-- the LEFT value has no tokens, the right one has (similarity 0): dropped — every covered threshold value -/
theorem size_tight_left_empty_wide (m : Measure) (hm : SetMeasure m) (hth : WideThr m th) (hmeas : f.cfg.measure = m)
    (hthr : f.cfg.threshold = th)
    (hA : (tok l.strVal).length = 0) (hB : 1 ≤ (tok r.strVal).length) :
    filterPair .size f tok l r = true := by
  refine EntryFilters.sizeFilterPair_dropped f tok l r hl hr (by omega) ?_
  have sb := EntryWide.sameBounds_wide f.cfg m hm th hmeas hthr
  rw [sb.lower, sb.upper, hA]
  have := EntryWide.upper_zero_lt_wide m hm th hth _ hB (hsm _)
  omega

/-- the RIGHT value has no tokens, the left one has (similarity 0): dropped — for threshold values `≥ prefThr m`
    (header of C14.lean) -/
theorem size_tight_right_empty_wide (m : Measure) (hm : SetMeasure m) (hth : WideThr m th) (hmeas : f.cfg.measure = m)
    (hthr : f.cfg.threshold = th) (h4 : prefThr m ≤ thrVal th)
    (hA : 1 ≤ (tok l.strVal).length) (hB : (tok r.strVal).length = 0) :
    filterPair .size f tok l r = true := by
  refine EntryFilters.sizeFilterPair_dropped f tok l r hl hr (by omega) ?_
  have sb := EntryWide.sameBounds_wide f.cfg m hm th hmeas hthr
  rw [sb.lower, sb.upper, hB]
  have := EntryWide.lower_pos_wide m hm th hth h4 _ hA (hsm _)
  omega

end TightPairWide

/-! ## SizeFilter is tight: filter_tables, every covered threshold value -/

section TightTablesWide
variable (f : FilterObj) (a : TableArgs) (t : TokObj) (toks : TokFn) (cpu : Int) (l r fr : Frame)
  (hv : validateTablesAttrs a = .ok (l, r)) (hk : validateOutAndKeys a l r = .ok ())
  (hrows : r.rows.length < 2 ^ 40) (hres : filterTables .size f a t toks cpu = .ok fr)
  (ls rs : Row) (hls : ls ∈ l.rows) (hrs : rs ∈ r.rows)
  (hlp : Present l a.lAttr ls) (hrp : Present r a.rAttr rs)
include hv hk hrows hres hls hrs hlp hrp

/-- the result of SizeFilter.filter_tables has no row for the pair of source rows `ls`, `rs` -/
local notation "NotListed" => ¬ ∃ row ∈ fr.rows, rowKeys row = (keyOf l a.lKey ls, keyOf r a.rKey rs)

/-- JACCARD: both values have tokens and `min/max < thr − 1e-4` ⇒ not listed -/
theorem size_tight_tables_jaccard_wide (th : PyV) (hth : WideThr .jaccard th) (hmeas : f.cfg.measure = .jaccard)
    (hthr : f.cfg.threshold = th)
    (hsm : ∀ s, (toks t.returnSet s).length < 2 ^ 32)
    (hA : 1 ≤ (tokensOf (toks t.returnSet) l a.lAttr ls).length) (hB : 1 ≤ (tokensOf (toks t.returnSet) r a.rAttr rs).length)
    (h : ((min (tokensOf (toks t.returnSet) l a.lAttr ls).length (tokensOf (toks t.returnSet) r a.rAttr rs).length : Nat) : Rat) /
         ((max (tokensOf (toks t.returnSet) l a.lAttr ls).length (tokensOf (toks t.returnSet) r a.rAttr rs).length : Nat) : Rat)
          < thrVal th - 1 / 10000) : NotListed := by
  intro hrow
  obtain ⟨h1, h2, -⟩ := EntryFilters.filterTables_size_window f a t toks cpu l r fr hv hk hrows hres ls rs hls hrs hlp hrp
    hrow (by omega)
  have sb := EntryWide.sameBounds_wide f.cfg .jaccard (Or.inl rfl) th hmeas hthr
  rw [sb.lower] at h1
  rw [sb.upper] at h2
  rw [min_comm, max_comm] at h
  exact EntryWide.size_tight_jaccard_wide th hth _ _ hB hA (hsm _) (hsm _) h ⟨h1, h2⟩

/-- DICE: both values have tokens and `2·min/(n+k) < thr − 1e-4` ⇒ not listed -/
theorem size_tight_tables_dice_wide (th : PyV) (hth : WideThr .dice th) (hmeas : f.cfg.measure = .dice)
    (hthr : f.cfg.threshold = th)
    (hsm : ∀ s, (toks t.returnSet s).length < 2 ^ 32)
    (hA : 1 ≤ (tokensOf (toks t.returnSet) l a.lAttr ls).length) (hB : 1 ≤ (tokensOf (toks t.returnSet) r a.rAttr rs).length)
    (h : (2 * (min (tokensOf (toks t.returnSet) l a.lAttr ls).length (tokensOf (toks t.returnSet) r a.rAttr rs).length : Nat) : Rat) /
         (((tokensOf (toks t.returnSet) l a.lAttr ls).length : Rat) + (tokensOf (toks t.returnSet) r a.rAttr rs).length)
          < thrVal th - 1 / 10000) : NotListed := by
  intro hrow
  obtain ⟨h1, h2, -⟩ := EntryFilters.filterTables_size_window f a t toks cpu l r fr hv hk hrows hres ls rs hls hrs hlp hrp
    hrow (by omega)
  have sb := EntryWide.sameBounds_wide f.cfg .dice (Or.inr (Or.inr rfl)) th hmeas hthr
  rw [sb.lower] at h1
  rw [sb.upper] at h2
  rw [min_comm, add_comm] at h
  exact EntryWide.size_tight_dice_wide th hth _ _ hB hA (hsm _) (hsm _) h ⟨h1, h2⟩

/-- COSINE: both values have tokens and `min/max < (thr − 1e-4)²`, `thr > 1e-4` ⇒ not listed -/
theorem size_tight_tables_cosine_wide (th : PyV) (hth : WideThr .cosine th) (hmeas : f.cfg.measure = .cosine)
    (hthr : f.cfg.threshold = th) (h4 : 1 / 10000 < thrVal th)
    (hsm : ∀ s, (toks t.returnSet s).length < 2 ^ 32)
    (hA : 1 ≤ (tokensOf (toks t.returnSet) l a.lAttr ls).length) (hB : 1 ≤ (tokensOf (toks t.returnSet) r a.rAttr rs).length)
    (h : ((min (tokensOf (toks t.returnSet) l a.lAttr ls).length (tokensOf (toks t.returnSet) r a.rAttr rs).length : Nat) : Rat) /
         ((max (tokensOf (toks t.returnSet) l a.lAttr ls).length (tokensOf (toks t.returnSet) r a.rAttr rs).length : Nat) : Rat)
          < (thrVal th - 1 / 10000) ^ 2) : NotListed := by
  intro hrow
  obtain ⟨h1, h2, -⟩ := EntryFilters.filterTables_size_window f a t toks cpu l r fr hv hk hrows hres ls rs hls hrs hlp hrp
    hrow (by omega)
  have sb := EntryWide.sameBounds_wide f.cfg .cosine (Or.inr (Or.inl rfl)) th hmeas hthr
  rw [sb.lower] at h1
  rw [sb.upper] at h2
  rw [min_comm, max_comm] at h
  exact EntryWide.size_tight_cosine_wide th hth h4 _ _ hB hA (hsm _) (hsm _) h ⟨h1, h2⟩

/-- exactly one of the two values has no tokens (similarity 0) ⇒ not listed; every covered threshold value -/
theorem size_tight_tables_one_empty_wide (m : Measure) (hm : SetMeasure m) (th : PyV) (hth : WideThr m th)
    (hmeas : f.cfg.measure = m) (hthr : f.cfg.threshold = th)
    (hsm : ∀ s, (toks t.returnSet s).length < 2 ^ 32)
    (h : ((tokensOf (toks t.returnSet) l a.lAttr ls).length = 0 ∧ 1 ≤ (tokensOf (toks t.returnSet) r a.rAttr rs).length) ∨
         (1 ≤ (tokensOf (toks t.returnSet) l a.lAttr ls).length ∧ (tokensOf (toks t.returnSet) r a.rAttr rs).length = 0)) :
    NotListed := by
  intro hrow
  obtain ⟨h1, h2, h3⟩ := EntryFilters.filterTables_size_window f a t toks cpu l r fr hv hk hrows hres ls rs hls hrs hlp hrp
    hrow (by omega)
  rcases h with ⟨hA, -⟩ | ⟨hA, hB⟩
  · exact h3 hA
  · have sb := EntryWide.sameBounds_wide f.cfg m hm th hmeas hthr
    rw [sb.upper, hB] at h2
    have := EntryWide.upper_zero_lt_wide m hm th hth _ hA (hsm _)
    omega

end TightTablesWide

/-! ## PositionFilter.filter_tables ⊆ SizeFilter.filter_tables, every covered threshold value -/

section SubsetsWide
variable (f : FilterObj) (a : TableArgs) (t : TokObj) (toks : TokFn) (cpu : Int) (l r fp fx : Frame)
  (hv : validateTablesAttrs a = .ok (l, r)) (hk : validateOutAndKeys a l r = .ok ())
include hv hk

/-- JACCARD / COSINE / DICE: every row of `PositionFilter.filter_tables` occurs (up to `_id`) in
    `SizeFilter.filter_tables` with the same parameters on the same arguments -/
theorem position_subset_size_wide (m : Measure) (hm : SetMeasure m) (th : PyV) (hth : WideThr m th)
    (hmeas : f.cfg.measure = m) (hthr : f.cfg.threshold = th)
    (hsm : ∀ s, (toks t.returnSet s).length < 2 ^ 32)
    (hp : filterTables .position f a t toks cpu = .ok fp)
    (hx : filterTables .size f a t toks cpu = .ok fx) :
    ∀ row ∈ fp.rows, ∃ row' ∈ fx.rows, row'.drop 1 = row.drop 1 ∧ rowKeys row' = rowKeys row :=
  position_subset_size_of f a t toks cpu l r fp fx hv hk
    (fun s => by
      rw [(EntryWide.sameBounds_wide f.cfg m hm th hmeas hthr).lower]
      exact EntryWide.lower_le_self_wide m hm th hth _ (hsm s)) hp hx

end SubsetsWide

/-! ## non-vacuity -/
section NonVacuityWide
open EntryFilters.Ex EntryWide.Ex

/-- JACCARD, threshold the Python int `1`; "x" has 2 tokens, "z" has 4: best attainable similarity 2/4 < 1 − 1e-4 ⇒ dropped -/
example : filterPair .size { cfg := cfgWith .jaccard (.int 1) } exTok (.str "x") (.str "z") = true :=
  size_tight_jaccard_wide (.int 1) _ exTok exTok_small _ _ rfl rfl .intOne rfl rfl (by decide) (by decide)
    (by
      have e1 : (exTok (Cell.str "x").strVal).length = 2 := by decide
      have e2 : (exTok (Cell.str "z").strVal).length = 4 := by decide
      rw [e1, e2, thrVal_int1]; norm_num)

/-- COSINE, threshold `2⁻³⁰` (below the former limit `2⁻²⁰`): "" has no tokens, "z" has 4 — dropped -/
example : filterPair .size { cfg := cfgWith .cosine (.float (1 / 2 ^ 30)) } exTok (.str "") (.str "z") = true :=
  size_tight_left_empty_wide _ _ exTok exTok_small _ _ rfl rfl .cosine (Or.inr (Or.inl rfl)) (thrSmall .cosine) rfl rfl
    (by decide) (by decide)

/-- the inclusion applies to the two small tables (`n_jobs = 2`, a missing value) at threshold `2⁻³⁰` and at the int `1` -/
example (th : PyV) (hth : WideThr .jaccard th) :
    ∃ fp fx, filterTables .position { cfg := cfgWith .jaccard th } exA exT exToks 4 = .ok fp ∧
    filterTables .size { cfg := cfgWith .jaccard th } exA exT exToks 4 = .ok fx ∧
    ∀ row ∈ fp.rows, ∃ row' ∈ fx.rows, row'.drop 1 = row.drop 1 ∧ rowKeys row' = rowKeys row := by
  obtain ⟨fp, hp⟩ := EntryFilters.filterTables_total .position { cfg := cfgWith .jaccard th } exA exT exToks 4 exL exR
    ex_valid ex_keys (by decide +kernel)
  obtain ⟨fx, hx⟩ := EntryFilters.filterTables_total .size { cfg := cfgWith .jaccard th } exA exT exToks 4 exL exR
    ex_valid ex_keys (by decide +kernel)
  exact ⟨fp, fx, hp, hx, position_subset_size_wide _ exA exT exToks 4 exL exR fp fx ex_valid ex_keys .jaccard (Or.inl rfl)
    th hth rfl rfl exTok_small hp hx⟩

example : WideThr .jaccard (.float (1 / 2 ^ 30)) ∧ WideThr .jaccard (.int 1) := ⟨thrSmall .jaccard, .intOne⟩

end NonVacuityWide

section AxiomCheck
#print axioms size_tight_jaccard_wide
#print axioms size_tight_dice_wide
#print axioms size_tight_cosine_wide
#print axioms size_tight_left_empty_wide
#print axioms size_tight_right_empty_wide
#print axioms size_tight_tables_jaccard_wide
#print axioms size_tight_tables_dice_wide
#print axioms size_tight_tables_cosine_wide
#print axioms size_tight_tables_one_empty_wide
#print axioms position_subset_size_wide
end AxiomCheck

end SSJ.Props.C14

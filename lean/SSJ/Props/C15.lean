/-
  C15 — Invalid arguments are rejected up front; valid ones are never rejected.

  STATEMENT.  Every join, filter constructor, filter_tables, filter_candset, apply_matcher and profile call that
  is given an argument violating one of its documented preconditions raises TypeError (non-DataFrame table,
  non-Tokenizer tokenizer, unknown measure) or AssertionError (unknown attribute or output attribute, numeric join
  column, key with duplicates or missing values, threshold outside the measure's range, unsupported operator,
  non-q-gram tokenizer for edit distance) before doing any work and leaving its arguments, including the tokenizer's
  set/bag mode, as they were.  Conversely every call whose arguments satisfy the documented preconditions, on tables
  of any shape (no rows, one row, all values missing or empty) and with string columns of object or pandas string
  dtype, returns a DataFrame.

  MODEL FUNCTIONS.  The validation blocks, in code order:
    `validateJoin mname a t`          — top of every `*_join_py` (`SSJ/Model/Frame.lean`); `mname` is the measure name
                                         ("JACCARD", "COSINE", "DICE", "OVERLAP_COEFFICIENT", "EDIT_DISTANCE");
    `mkOverlapFilter`                 — the OverlapFilter constructor (`overlap_join_py` validates through it);
    `mkFilter`                        — constructor of Size/Prefix/Position/SuffixFilter;
    `validateFilterTables a`          — top of `filter_tables` of all five filters (`Proofs/EntryAccept.lean`, proved
                                         equal to the code: `filterTables_eq`, `overlapFilterTables_eq`);
    `validateMatcher a t`             — top of `apply_matcher` (`Proofs/EntryMatcher.lean`, `applyMatcher_eq`);
    `validateCandset a`               — top of `Filter.filter_candset` (`filterCandset_eq`);
  and the entry points `setSimJoinPy` (jaccard/cosine/dice), `overlapCoefficientJoinPy`, `overlapJoinPy`,
  `editDistanceJoinPy`, `filterTables`, `overlapFilterTables`, `applyMatcher`, `filterCandset`.
  A table argument is `Option Frame` (`none` = "not a DataFrame"); a tokenizer argument is a `TokObj` whose
  `isTokenizer` / `isQgram` flags say what `isinstance` answers; exceptions are `PyErr.typeErr` / `PyErr.assertion`.
  An entry point's `Outcome` is its result (DataFrame or exception) and the tokenizer's `return_set` flag afterwards.

  SCOPE / HYPOTHESES.
  * Rejection: each kind of invalid argument is shown to raise its documented class in a context where all EARLIER
    checks pass (the checks are sequential; with two invalid arguments the earlier check wins), and
    `*_error_kind` shows that a validation block never raises anything but TypeError / AssertionError.  "Before doing
    any work": the rejected outcome is produced by the validation block alone — the result is `.error e` whatever the
    tokenization table `toks` and the cpu count are, and `flagAfter` is the flag the call found.
  * Acceptance: `validate… = .ok …` plus the BODY CONDITIONS `BodyOK` (SSJ/Props/Common.lean) are the only hypotheses for
    the set-similarity, overlap-coefficient and overlap joins and for `filter_tables` of all filters.  `BodyOK` says
    what the argument validations do not look at but the real code trips over after them: (b) every PRESENT join value
    is a Python `str` (`StrColumn`; an int / float / bool / bytes … in an object column makes the tokenizer raise
    TypeError), and (a) the output header has no column `_id` (`NoIdClash`; else the final
    `output_table.insert(0, '_id', …)` raises ValueError).  Both are necessary: the companion file
    `SSJ/Props/C15_body.lean` proves `body_returns_iff` (a validated call returns a frame IFF `BodyOK`),
    `nonstring_join_value_raises` and `id_clash_raises`; also then the tokenizer's flag is handed back unchanged
    (`body_error_leaves_flag` below: every `*_join_py` restores it in a `finally`).
    Nothing else is assumed about the rows (none, one, all missing, all empty strings), and `*_accepts_iff` characterises acceptance by the documented preconditions, with both dtype
    tags "object" and "str" (pandas string dtype) accepted.  `edit_distance_join` additionally needs its threshold to
    be an int or a finite float (`int(floor(threshold))` must exist; the validation itself lets `inf` through, which
    then raises OverflowError in `math.floor` — in Python as in the model).  `apply_matcher` / `filter_candset`
    additionally need every candidate key to occur in its table (otherwise KeyError, in Python as in the model),
    a candset of fewer than 2⁴⁰ rows (binary64 precision limit of the chunk-boundary computation of `split_table`),
    and that nothing handed to the tokenizer is a non-string: `apply_matcher` — when a tokenizer is given, both match
    columns are `StrColumn`s (`hstr`); `filter_candset` — the filter's `filter_pair`, a Python call
    `fp : Cell → Cell → Except PyErr Bool`, does not raise on pairs of values of the two columns (`hfp`; implied by
    `StrColumn`s for `filterPairPy` / `overlapFilterPairPy`).  Otherwise TypeError: `C15_body`.

  KEYS.  "Key with duplicates" is judged as `validate_key_attr` does, `len(table[key].unique()) == len(table)`: values
  are identified under Python equality (`1`, `1.0`, `True` are one value; `'1'` is another).  `KeyValid` in the
  acceptance theorems means exactly that (`KeyColumn`, SSJ/Props/Common.lean); the companion file
  `SSJ/Props/C15_keys.lean` proves that a key column such as `[1, 1.0]` is rejected by every entry point.

  THE PROFILER.  The argument validation of `profile_table_for_join` is covered by the companion file
  `SSJ/Props/C15_profiler.lean` (`profile_rejects_non_dataframe`, `profile_rejects_unknown_attribute`,
  `profile_accepts` — any number of rows, none included —, `profile_returns_iff`, `profile_error_kind`); the content of
  the statistics is C17.

  NOT COVERED.  The converters (C16: `frame_modes`/`series_error_iff`).  That the DataFrame objects passed in are not mutated is
  outside what a value-level model can exhibit (see C12).  The tie to the real exception classes is the `validation`
  correspondence suite of the harness.
-/
import SSJ.Proofs.EntryAccept
import SSJ.Proofs.EntryMatcher

namespace SSJ.Props.C15
open SSJ

/-! ## A. Joins — rejection -/

/-- A table that is not a DataFrame ⇒ TypeError (first check of every join). -/
theorem join_rejects_non_dataframe (mname : String) (a : JoinArgs) (t : TokObj)
    (h : a.ltable = none ∨ a.rtable = none) :
    validateJoin mname a t = .error .typeErr :=
  validateJoin_not_frame mname a t h

/-- A key or join attribute that is not a column of its table ⇒ AssertionError. -/
theorem join_rejects_unknown_attribute (mname : String) (a : JoinArgs) (t : TokObj) (l r : Frame)
    (hl : a.ltable = some l) (hr : a.rtable = some r)
    (h : ¬ l.hasCol a.lKey ∨ ¬ r.hasCol a.rKey ∨ ¬ l.hasCol a.lAttr ∨ ¬ r.hasCol a.rAttr) :
    validateJoin mname a t = .error .assertion :=
  validateJoin_missing_attr mname a t l r hl hr h

/-- A numeric join column (dtype tag neither "object" nor "str") ⇒ AssertionError. -/
theorem join_rejects_numeric_column (mname : String) (a : JoinArgs) (t : TokObj) (l r : Frame)
    (hl : a.ltable = some l) (hr : a.rtable = some r)
    (hlk : l.hasCol a.lKey = true) (hrk : r.hasCol a.rKey = true)
    (hla : l.hasCol a.lAttr = true) (hra : r.hasCol a.rAttr = true)
    (h : (l.dtype a.lAttr ≠ "object" ∧ l.dtype a.lAttr ≠ "str") ∨
         (r.dtype a.rAttr ≠ "object" ∧ r.dtype a.rAttr ≠ "str")) :
    validateJoin mname a t = .error .assertion :=
  validateJoin_numeric_attr mname a t l r hl hr hlk hrk hla hra h

/-- Tokenizer argument that is not a Tokenizer object ⇒ TypeError. -/
theorem join_rejects_non_tokenizer (mname : String) (a : JoinArgs) (t : TokObj) (l r : Frame)
    (hv : TablesValid a.toTableArgs l r) (h : t.isTokenizer = false) :
    validateJoin mname a t = .error .typeErr :=
  validateJoin_not_tokenizer mname a t l r hv h

/-- Edit distance join with a tokenizer that is not a q-gram tokenizer ⇒ AssertionError. -/
theorem edit_distance_rejects_non_qgram (a : JoinArgs) (t : TokObj) (l r : Frame)
    (hv : TablesValid a.toTableArgs l r) (ht : t.isTokenizer = true) (h : t.isQgram = false) :
    validateJoin "EDIT_DISTANCE" a t = .error .assertion :=
  validateJoin_not_qgram a t l r hv ht h

/-- Jaccard / cosine / dice / overlap coefficient: a float threshold outside (0, 1] ⇒ AssertionError. -/
theorem join_rejects_threshold_outside_unit (mname : String) (a : JoinArgs) (t : TokObj) (l r : Frame) (q : Rat)
    (hm : Gen.unitMeasure mname) (hv : TablesValid a.toTableArgs l r) (ht : t.isTokenizer = true)
    (hq : a.threshold = .float q) (h : q ≤ 0 ∨ 1 < q) :
    validateJoin mname a t = .error .assertion :=
  validateJoin_threshold_unit mname a t l r q hm hv ht hq h

/-- … and an int threshold other than 1 ⇒ AssertionError. -/
theorem join_rejects_int_threshold_outside_unit (mname : String) (a : JoinArgs) (t : TokObj) (l r : Frame) (i : Int)
    (hm : Gen.unitMeasure mname) (hv : TablesValid a.toTableArgs l r) (ht : t.isTokenizer = true)
    (hq : a.threshold = .int i) (h : i ≤ 0 ∨ 1 < i) :
    validateJoin mname a t = .error .assertion :=
  validateJoin_threshold_unit_int mname a t l r i hm hv ht hq h

/-- Edit distance join: a negative threshold (int or float) ⇒ AssertionError. -/
theorem edit_distance_rejects_negative_threshold (a : JoinArgs) (t : TokObj) (l r : Frame)
    (hv : TablesValid a.toTableArgs l r) (ht : t.isTokenizer = true) (hqg : t.isQgram = true)
    (h : (∃ i : Int, a.threshold = .int i ∧ i < 0) ∨ (∃ q : Rat, a.threshold = .float q ∧ q < 0)) :
    validateJoin "EDIT_DISTANCE" a t = .error .assertion := by
  rcases h with ⟨i, hi, hneg⟩ | ⟨q, hq, hneg⟩
  · exact validateJoin_threshold_ed a t l r i hv ht hqg hi hneg
  · exact validateJoin_threshold_ed_float a t l r q hv ht hqg hq hneg

/-- Whatever the measure: a threshold the generated `validate_threshold` rejects ⇒ AssertionError. -/
theorem join_rejects_threshold (mname : String) (a : JoinArgs) (t : TokObj) (l r : Frame)
    (hv : TablesValid a.toTableArgs l r) (ht : TokValid mname t)
    (h : Gen.validate_threshold a.threshold (.str mname) = .err .assertion) :
    validateJoin mname a t = .error .assertion :=
  validateJoin_threshold mname a t l r hv ht h

/-- Similarity joins support only `>=`, `>`, `=`: any other operator ⇒ AssertionError. -/
theorem join_rejects_unsupported_operator (mname : String) (a : JoinArgs) (t : TokObj) (l r : Frame)
    (hm : mname ≠ "EDIT_DISTANCE") (hv : TablesValid a.toTableArgs l r) (ht : t.isTokenizer = true)
    (hthr : Gen.validate_threshold a.threshold (.str mname) ≠ .err .assertion)
    (h : a.compOp ∉ [">=", ">", "="]) :
    validateJoin mname a t = .error .assertion :=
  validateJoin_comp_op_sim mname a t l r hm hv ht hthr h

/-- The edit distance join supports only `<=`, `<`, `=`: any other operator ⇒ AssertionError. -/
theorem edit_distance_rejects_unsupported_operator (a : JoinArgs) (t : TokObj) (l r : Frame)
    (hv : TablesValid a.toTableArgs l r) (ht : t.isTokenizer = true) (hqg : t.isQgram = true)
    (hthr : Gen.validate_threshold a.threshold (.str "EDIT_DISTANCE") ≠ .err .assertion)
    (h : a.compOp ∉ ["<=", "<", "="]) :
    validateJoin "EDIT_DISTANCE" a t = .error .assertion :=
  validateJoin_comp_op_ed a t l r hv ht hqg hthr h

/-- A requested output attribute that is not a column of its table ⇒ AssertionError. -/
theorem join_rejects_unknown_output_attribute (mname : String) (a : JoinArgs) (t : TokObj) (l r : Frame)
    (hv : TablesValid a.toTableArgs l r) (ht : TokValid mname t)
    (hthr : Gen.validate_threshold a.threshold (.str mname) ≠ .err .assertion)
    (hop : Gen.validate_comp_op_for_sim_measure (.str a.compOp) (.str mname) ≠ .err .assertion)
    (h : (∃ x ∈ a.lOut.getD [], ¬ l.hasCol x) ∨ (∃ x ∈ a.rOut.getD [], ¬ r.hasCol x)) :
    validateJoin mname a t = .error .assertion :=
  validateJoin_output_attr mname a t l r hv ht hthr hop h

/-- A key attribute with a repeated value or a missing value ⇒ AssertionError.  ("Repeated" is judged by pandas'
    `unique()`, i.e. under Python equality: also `1` and `1.0`, or `1` and `True`, are one value twice — companion file
    `C15_keys.lean`, `join_rejects_numerically_equal_keys`; this theorem is the special case of two identical cells.) -/
theorem join_rejects_bad_key (mname : String) (a : JoinArgs) (t : TokObj) (l r : Frame)
    (hv : TablesValid a.toTableArgs l r) (ht : TokValid mname t)
    (hthr : Gen.validate_threshold a.threshold (.str mname) ≠ .err .assertion)
    (hop : Gen.validate_comp_op_for_sim_measure (.str a.compOp) (.str mname) ≠ .err .assertion)
    (hout : OutValid a.toTableArgs l r)
    (h : (¬ (l.col a.lKey).Nodup ∨ ∃ c ∈ l.col a.lKey, c.isMissing = true) ∨
         (¬ (r.col a.rKey).Nodup ∨ ∃ c ∈ r.col a.rKey, c.isMissing = true)) :
    validateJoin mname a t = .error .assertion :=
  validateJoin_key mname a t l r hv ht hthr hop hout
    (h.imp (not_keyValid_of_dup_or_missing _ _) (not_keyValid_of_dup_or_missing _ _))

/-- The validation block of a join never raises anything but TypeError or AssertionError. -/
theorem join_error_kind (mname : String) (a : JoinArgs) (t : TokObj) (e : PyErr)
    (h : validateJoin mname a t = .error e) : e = .typeErr ∨ e = .assertion :=
  validateJoin_error_kind mname a t e h

/-- A jaccard / cosine / dice join rejected by its validation block raises exactly that exception, whatever the
    tokenization and cpu count (no work is done), and leaves the tokenizer's set/bag flag as it found it. -/
theorem set_sim_join_rejected (m : Measure) (a : JoinArgs) (t : TokObj) (toks : TokFn) (cpu : Int) (e : PyErr)
    (h : validateJoin m.name a t = .error e) :
    (setSimJoinPy m a t toks cpu).result = .error e ∧ (setSimJoinPy m a t toks cpu).flagAfter = t.returnSet :=
  setSimJoinPy_reject m a t toks cpu e h

/-- … the same for the overlap coefficient join … -/
theorem overlap_coefficient_join_rejected (a : JoinArgs) (t : TokObj) (toks : TokFn) (cpu : Int) (e : PyErr)
    (h : validateJoin "OVERLAP_COEFFICIENT" a t = .error e) :
    (overlapCoefficientJoinPy a t toks cpu).result = .error e ∧
      (overlapCoefficientJoinPy a t toks cpu).flagAfter = t.returnSet :=
  overlapCoefficientJoinPy_reject a t toks cpu e h

/-- … and for the edit distance join. -/
theorem edit_distance_join_rejected (a : JoinArgs) (t : TokObj) (toks : TokFn) (cpu : Int) (e : PyErr)
    (h : validateJoin "EDIT_DISTANCE" a t = .error e) :
    (editDistanceJoinPy a t toks cpu).result = .error e ∧
      (editDistanceJoinPy a t toks cpu).flagAfter = t.returnSet :=
  editDistanceJoinPy_reject a t toks cpu e h

/-- `overlap_join` validates tokenizer, threshold and operator through the OverlapFilter constructor:
    TypeError (not a tokenizer) or AssertionError (threshold not `> 0`, operator not in `>=`, `>`, `=`), nothing else. -/
theorem overlap_filter_error_kind (size : PyV) (op : String) (am : Bool) (t : TokObj) (e : PyErr)
    (h : mkOverlapFilter size op am t = .error e) : e = .typeErr ∨ e = .assertion :=
  mkOverlapFilter_error_kind size op am t e h

/-- The OverlapFilter constructor as a cascade of checks in code order (each documented class visible). -/
theorem overlap_filter_checks (size : PyV) (op : String) (am : Bool) (t : TokObj) :
    mkOverlapFilter size op am t =
      if !t.isTokenizer then .error .typeErr
      else if Gen.validate_threshold size (.str "OVERLAP") = .err .assertion then .error .assertion
      else if Gen.validate_comp_op_for_sim_measure (.str op) (.str "OVERLAP") = .err .assertion then .error .assertion
      else .ok { overlapSize := size, compOp := op, allowMissing := am } :=
  mkOverlapFilter_eq size op am t

/-- An `overlap_join` rejected by the OverlapFilter constructor raises that exception and — thanks to its
    `try … finally` — leaves the tokenizer flag as it found it. -/
theorem overlap_join_rejected (a : JoinArgs) (t : TokObj) (toks : TokFn) (cpu : Int) (e : PyErr)
    (h : mkOverlapFilter a.threshold a.compOp a.allowMissing t = .error e) :
    (overlapJoinPy a t toks cpu).result = .error e ∧ (overlapJoinPy a t toks cpu).flagAfter = t.returnSet :=
  overlapJoinPy_reject a t toks cpu e h

/-- `overlap_join` with invalid tables / attributes / keys: rejected by `filter_tables` (section C), flag untouched. -/
theorem overlap_join_rejected_tables (a : JoinArgs) (t : TokObj) (toks : TokFn) (cpu : Int) (f : OverlapFilterObj)
    (e : PyErr) (hf : mkOverlapFilter a.threshold a.compOp a.allowMissing t = .ok f)
    (h : validateFilterTables a.toTableArgs = .error e) :
    (overlapJoinPy a t toks cpu).result = .error e ∧ (overlapJoinPy a t toks cpu).flagAfter = t.returnSet := by
  refine ⟨?_, rfl⟩
  show (mkOverlapFilter a.threshold a.compOp a.allowMissing t >>= _) = _
  rw [hf]
  show overlapFilterTables f a.toTableArgs a.outSimScore (toks true) cpu = _
  rw [overlapFilterTables_eq, h]
  rfl

/-- A join that raises — rejected up front, or AFTER validation inside its body (tokenizer TypeError on a non-string
    join value, `_id` clash, … : `C15_body`) — hands the tokenizer back with its set/bag flag as it found it: all six
    joins restore the flag in a `finally`.  (The hypothesis "raises" is not even needed: `C12.flag_restored_*`.) -/
theorem body_error_leaves_flag (a : JoinArgs) (t : TokObj) (toks : TokFn) (cpu : Int) (e : PyErr) :
    (∀ m : Measure, (setSimJoinPy m a t toks cpu).result = .error e →
      (setSimJoinPy m a t toks cpu).flagAfter = t.returnSet) ∧
    ((overlapCoefficientJoinPy a t toks cpu).result = .error e →
      (overlapCoefficientJoinPy a t toks cpu).flagAfter = t.returnSet) ∧
    ((overlapJoinPy a t toks cpu).result = .error e → (overlapJoinPy a t toks cpu).flagAfter = t.returnSet) ∧
    ((editDistanceJoinPy a t toks cpu).result = .error e →
      (editDistanceJoinPy a t toks cpu).flagAfter = t.returnSet) :=
  ⟨fun m _ => setSimJoinPy_flag m a t toks cpu, fun _ => overlapCoefficientJoinPy_flag a t toks cpu,
    fun _ => overlapJoinPy_flag a t toks cpu, fun _ => editDistanceJoinPy_flag a t toks cpu⟩

/-! ### which thresholds and operators are in range -/

/-- jaccard / cosine / dice / overlap coefficient: a float threshold is rejected iff it is outside (0, 1] -/
theorem threshold_unit_rejected_iff (mname : String) (q : Rat) (hm : Gen.unitMeasure mname) :
    Gen.validate_threshold (.float q) (.str mname) = .err .assertion ↔ q ≤ 0 ∨ 1 < q :=
  Gen.validate_threshold_unit mname q hm

/-- edit distance: a threshold is rejected iff it is negative -/
theorem threshold_edit_distance_rejected_iff (i : Int) (q : Rat) :
    (Gen.validate_threshold (.int i) (.str "EDIT_DISTANCE") = .err .assertion ↔ i < 0) ∧
    (Gen.validate_threshold (.float q) (.str "EDIT_DISTANCE") = .err .assertion ↔ q < 0) :=
  ⟨Gen.validate_threshold_ed i, Gen.validate_threshold_ed_float q⟩

/-- overlap: a threshold is rejected iff it is not positive -/
theorem threshold_overlap_rejected_iff (i : Int) (q : Rat) :
    (Gen.validate_threshold (.int i) (.str "OVERLAP") = .err .assertion ↔ i ≤ 0) ∧
    (Gen.validate_threshold (.float q) (.str "OVERLAP") = .err .assertion ↔ q ≤ 0) :=
  ⟨Gen.validate_threshold_overlap i, Gen.validate_threshold_overlap_float q⟩

/-- ANY threshold value (the tests are `if not threshold >= 0`, `if not threshold > 0`,
    `if not (threshold > 0 and threshold <= 1)`): it is accepted iff the Python comparison(s) come out TRUE — so a value
    for which they are not true, NaN-like or not a number, is rejected, not let through. -/
theorem threshold_accepted_iff (v : PyV) (mname : String) (hm : Gen.unitMeasure mname) :
    (Gen.validate_threshold v (.str mname) ≠ .err .assertion ↔
      PyV.gtb v (.int 0) = true ∧ PyV.leb v (.int 1) = true) ∧
    (Gen.validate_threshold v (.str "EDIT_DISTANCE") ≠ .err .assertion ↔ PyV.geb v (.int 0) = true) ∧
    (Gen.validate_threshold v (.str "OVERLAP") ≠ .err .assertion ↔ PyV.gtb v (.int 0) = true) :=
  ⟨Gen.validate_threshold_unit_iff mname v hm, Gen.validate_threshold_ed_iff v, Gen.validate_threshold_overlap_iff v⟩

/-- a threshold that is not a number (a string, `None`; `PyV.numVal?` undefined) is rejected for EVERY measure name -/
theorem threshold_non_number_rejected (v : PyV) (mname : String) (hv : PyV.numVal? v = Option.none) :
    Gen.validate_threshold v (.str mname) = .err .assertion :=
  Gen.validate_threshold_non_numeric v mname hv

/-- operators: similarity joins accept exactly `>=`, `>`, `=`; the edit distance join exactly `<=`, `<`, `=`;
    `apply_matcher` exactly the six operators -/
theorem operator_rejected_iff (op mname : String) (hm : mname ≠ "EDIT_DISTANCE") :
    (Gen.validate_comp_op_for_sim_measure (.str op) (.str mname) = .err .assertion ↔ op ∉ [">=", ">", "="]) ∧
    (Gen.validate_comp_op_for_sim_measure (.str op) (.str "EDIT_DISTANCE") = .err .assertion ↔
      op ∉ ["<=", "<", "="]) ∧
    (Gen.validate_comp_op (.str op) = .err .assertion ↔ op ∉ [">=", ">", "<=", "<", "=", "!="]) :=
  ⟨Gen.validate_comp_op_for_sim_measure_sim op mname hm, Gen.validate_comp_op_for_sim_measure_ed op,
    Gen.validate_comp_op_iff op⟩

/-! ## B. Filter constructors — rejection -/

/-- Unknown measure name ⇒ TypeError. -/
theorem filter_rejects_unknown_measure (name : String) (thr : PyV) (ae am : Bool) (t : TokObj)
    (h : Measure.ofName? name.toUpper = none) : mkFilter name thr ae am t = .error .typeErr :=
  mkFilter_unknown_measure name thr ae am t h

/-- Tokenizer argument that is not a Tokenizer object ⇒ TypeError. -/
theorem filter_rejects_non_tokenizer (name : String) (thr : PyV) (ae am : Bool) (t : TokObj) (m : Measure)
    (hm : Measure.ofName? name.toUpper = some m) (h : t.isTokenizer = false) :
    mkFilter name thr ae am t = .error .typeErr :=
  mkFilter_not_tokenizer name thr ae am t m hm h

/-- Edit distance with a non-q-gram tokenizer ⇒ AssertionError. -/
theorem filter_rejects_non_qgram (name : String) (thr : PyV) (ae am : Bool) (t : TokObj)
    (hm : Measure.ofName? name.toUpper = some .editDistance) (ht : t.isTokenizer = true) (h : t.isQgram = false) :
    mkFilter name thr ae am t = .error .assertion :=
  mkFilter_not_qgram name thr ae am t hm ht h

/-- Threshold outside the measure's range ⇒ AssertionError. -/
theorem filter_rejects_threshold (name : String) (thr : PyV) (ae am : Bool) (t : TokObj) (m : Measure)
    (hm : Measure.ofName? name.toUpper = some m) (ht : t.isTokenizer = true)
    (hq : m = .editDistance → t.isQgram = true)
    (h : Gen.validate_threshold thr (.str m.name) = .err .assertion) :
    mkFilter name thr ae am t = .error .assertion :=
  mkFilter_threshold name thr ae am t m hm ht hq h

/-- e.g. a Jaccard / cosine / dice filter with a float threshold outside (0, 1]. -/
theorem filter_rejects_threshold_outside_unit (name : String) (q : Rat) (ae am : Bool) (t : TokObj) (m : Measure)
    (hm : Measure.ofName? name.toUpper = some m) (hunit : m = .jaccard ∨ m = .cosine ∨ m = .dice)
    (ht : t.isTokenizer = true) (h : q ≤ 0 ∨ 1 < q) :
    mkFilter name (.float q) ae am t = .error .assertion := by
  apply mkFilter_threshold name _ ae am t m hm ht
  · rintro rfl; rcases hunit with h' | h' | h' <;> cases h'
  · apply (Gen.validate_threshold_unit m.name q _).2 h
    rcases hunit with rfl | rfl | rfl
    · exact Or.inl rfl
    · exact Or.inr (Or.inl rfl)
    · exact Or.inr (Or.inr (Or.inl rfl))

/-- A filter constructor never raises anything but TypeError or AssertionError. -/
theorem filter_error_kind (name : String) (thr : PyV) (ae am : Bool) (t : TokObj) (e : PyErr)
    (h : mkFilter name thr ae am t = .error e) : e = .typeErr ∨ e = .assertion :=
  mkFilter_error_kind name thr ae am t e h

/-! ## C. `filter_tables` — rejection -/

/-- `filter_tables` (Size/Prefix/Position/Suffix) rejected by its validation block raises exactly that exception. -/
theorem filter_tables_rejected (k : FilterKind) (f : FilterObj) (a : TableArgs) (t : TokObj) (toks : TokFn) (cpu : Int)
    (e : PyErr) (h : validateFilterTables a = .error e) : filterTables k f a t toks cpu = .error e := by
  rw [filterTables_eq, h]; rfl

/-- … and so does `OverlapFilter.filter_tables`. -/
theorem overlap_filter_tables_rejected (f : OverlapFilterObj) (a : TableArgs) (oss : Bool) (tok : String → List Tok)
    (cpu : Int) (e : PyErr) (h : validateFilterTables a = .error e) :
    overlapFilterTables f a oss tok cpu = .error e := by
  rw [overlapFilterTables_eq, h]; rfl

theorem filter_tables_rejects_non_dataframe (a : TableArgs) (h : a.ltable = none ∨ a.rtable = none) :
    validateFilterTables a = .error .typeErr :=
  validateFilterTables_not_frame a h

theorem filter_tables_rejects_unknown_attribute (a : TableArgs) (l r : Frame)
    (hl : a.ltable = some l) (hr : a.rtable = some r)
    (h : ¬ l.hasCol a.lKey ∨ ¬ r.hasCol a.rKey ∨ ¬ l.hasCol a.lAttr ∨ ¬ r.hasCol a.rAttr) :
    validateFilterTables a = .error .assertion :=
  validateFilterTables_missing_attr a l r hl hr h

theorem filter_tables_rejects_numeric_column (a : TableArgs) (l r : Frame)
    (hl : a.ltable = some l) (hr : a.rtable = some r)
    (hlk : l.hasCol a.lKey = true) (hrk : r.hasCol a.rKey = true)
    (hla : l.hasCol a.lAttr = true) (hra : r.hasCol a.rAttr = true)
    (h : (l.dtype a.lAttr ≠ "object" ∧ l.dtype a.lAttr ≠ "str") ∨
         (r.dtype a.rAttr ≠ "object" ∧ r.dtype a.rAttr ≠ "str")) :
    validateFilterTables a = .error .assertion :=
  validateFilterTables_numeric_attr a l r hl hr hlk hrk hla hra h

theorem filter_tables_rejects_unknown_output_attribute (a : TableArgs) (l r : Frame) (hv : TablesValid a l r)
    (h : (∃ x ∈ a.lOut.getD [], ¬ l.hasCol x) ∨ (∃ x ∈ a.rOut.getD [], ¬ r.hasCol x)) :
    validateFilterTables a = .error .assertion :=
  validateFilterTables_output_attr a l r hv h

/-- key with a repeated or a missing value ⇒ AssertionError (Python-equal values such as `1` / `1.0`:
    `C15_keys.filter_tables_rejects_numerically_equal_keys`) -/
theorem filter_tables_rejects_bad_key (a : TableArgs) (l r : Frame) (hv : TablesValid a l r) (hout : OutValid a l r)
    (h : (¬ (l.col a.lKey).Nodup ∨ ∃ c ∈ l.col a.lKey, c.isMissing = true) ∨
         (¬ (r.col a.rKey).Nodup ∨ ∃ c ∈ r.col a.rKey, c.isMissing = true)) :
    validateFilterTables a = .error .assertion :=
  validateFilterTables_key a l r hv hout (h.imp (not_keyValid_of_dup_or_missing _ _) (not_keyValid_of_dup_or_missing _ _))

theorem filter_tables_error_kind (a : TableArgs) (e : PyErr) (h : validateFilterTables a = .error e) :
    e = .typeErr ∨ e = .assertion :=
  validateFilterTables_error_kind a e h

/-! ## D. `apply_matcher` and `filter_candset` — rejection -/

/-- `apply_matcher` rejected by its validation block raises exactly that exception (no tokenization, no
    similarity computation: the result does not depend on `toks`, `sim`, `cpu`). -/
theorem apply_matcher_rejected (a : MatcherArgs) (t : Option TokObj) (toks : TokFn) (sim : SimArg → SimArg → PyV)
    (cpu : Int) (e : PyErr) (h : validateMatcher a t = .error e) : applyMatcher a t toks sim cpu = .error e :=
  applyMatcher_reject a t toks sim cpu e h

theorem apply_matcher_error_kind (a : MatcherArgs) (t : Option TokObj) (e : PyErr)
    (h : validateMatcher a t = .error e) : e = .typeErr ∨ e = .assertion :=
  validateMatcher_error_kind a t e h

/-- candset not a DataFrame ⇒ TypeError -/
theorem apply_matcher_rejects_non_dataframe_candset (a : MatcherArgs) (t : Option TokObj) (h : a.candset = none) :
    validateMatcher a t = .error .typeErr :=
  validateMatcher_none a t h

/-- a candset key attribute that is not a column of the candset ⇒ AssertionError -/
theorem apply_matcher_rejects_unknown_candset_attribute (a : MatcherArgs) (t : Option TokObj) (c : Frame)
    (hc : a.candset = some c) (h : c.hasCol a.candLKey = false ∨ c.hasCol a.candRKey = false) :
    validateMatcher a t = .error .assertion :=
  validateMatcher_cand_attr a t c hc h

/-- ltable / rtable not a DataFrame ⇒ TypeError -/
theorem apply_matcher_rejects_non_dataframe_table (a : MatcherArgs) (t : Option TokObj) (c : Frame)
    (hc : a.candset = some c) (h1 : c.hasCol a.candLKey = true) (h2 : c.hasCol a.candRKey = true)
    (h : a.ltable = none ∨ a.rtable = none) :
    validateMatcher a t = .error .typeErr :=
  validateMatcher_table_none a t c hc h1 h2 h

/-- the remaining checks of `apply_matcher`, in code order: unknown key / join attribute, unknown output attribute
    ⇒ AssertionError; non-Tokenizer ⇒ TypeError; operator not one of the six ⇒ AssertionError; key with duplicates
    or missing values ⇒ AssertionError (`matcherCascade` is this cascade, spelled out in `Proofs/EntryMatcher.lean`) -/
theorem apply_matcher_checks (a : MatcherArgs) (t : Option TokObj) (c l r : Frame)
    (hc : a.candset = some c) (hl : a.ltable = some l) (hr : a.rtable = some r)
    (h1 : c.hasCol a.candLKey = true) (h2 : c.hasCol a.candRKey = true) :
    validateMatcher a t =
      if !l.hasCol a.lKey then .error .assertion
      else if !r.hasCol a.rKey then .error .assertion
      else if !l.hasCol a.lAttr then .error .assertion
      else if !r.hasCol a.rAttr then .error .assertion
      else if (a.lOut.getD []).any (fun x => !l.hasCol x) then .error .assertion
      else if (a.rOut.getD []).any (fun x => !r.hasCol x) then .error .assertion
      else if t.any (fun tk => !tk.isTokenizer) then .error .typeErr
      else if Gen.validate_comp_op (.str a.compOp) = .err .assertion then .error .assertion
      else if !keyTest l a.lKey then .error .assertion
      else if !keyTest r a.rKey then .error .assertion
      else .ok (c, l, r) :=
  validateMatcher_tables a t c l r hc hl hr h1 h2

/-- `filter_candset` rejected by its validation block raises exactly that exception. -/
theorem filter_candset_rejected (a : CandsetArgs) (fp : Cell → Cell → Except PyErr Bool) (cpu : Int) (e : PyErr)
    (h : validateCandset a = .error e) : filterCandset a fp cpu = .error e :=
  filterCandset_reject a fp cpu e h

theorem filter_candset_error_kind (a : CandsetArgs) (e : PyErr) (h : validateCandset a = .error e) :
    e = .typeErr ∨ e = .assertion :=
  validateCandset_error_kind a e h

theorem filter_candset_rejects_non_dataframe_candset (a : CandsetArgs) (h : a.candset = none) :
    validateCandset a = .error .typeErr :=
  validateCandset_none a h

theorem filter_candset_rejects_unknown_candset_attribute (a : CandsetArgs) (c : Frame)
    (hc : a.candset = some c) (h : c.hasCol a.candLKey = false ∨ c.hasCol a.candRKey = false) :
    validateCandset a = .error .assertion :=
  validateCandset_cand_attr a c hc h

theorem filter_candset_rejects_non_dataframe_table (a : CandsetArgs) (c : Frame)
    (hc : a.candset = some c) (h1 : c.hasCol a.candLKey = true) (h2 : c.hasCol a.candRKey = true)
    (h : a.ltable = none ∨ a.rtable = none) :
    validateCandset a = .error .typeErr :=
  validateCandset_table_none a c hc h1 h2 h

/-- the remaining checks of `filter_candset`, in code order (all AssertionError): unknown key / join attribute,
    numeric join column, key with duplicates or missing values -/
theorem filter_candset_checks (a : CandsetArgs) (c l r : Frame)
    (hc : a.candset = some c) (hl : a.ltable = some l) (hr : a.rtable = some r)
    (h1 : c.hasCol a.candLKey = true) (h2 : c.hasCol a.candRKey = true) :
    validateCandset a =
      if !l.hasCol a.lKey then .error .assertion
      else if !r.hasCol a.rKey then .error .assertion
      else if !l.hasCol a.lAttr then .error .assertion
      else if !r.hasCol a.rAttr then .error .assertion
      else if (l.dtype a.lAttr != "object" && l.dtype a.lAttr != "str") then .error .assertion
      else if (r.dtype a.rAttr != "object" && r.dtype a.rAttr != "str") then .error .assertion
      else if !keyTest l a.lKey then .error .assertion
      else if !keyTest r a.rKey then .error .assertion
      else .ok (c, l, r) :=
  validateCandset_tables a c l r hc hl hr h1 h2

/-! ## E. Acceptance: what "valid" means, and valid calls return a DataFrame -/

/-- A join accepts EXACTLY the requests whose tables are DataFrames containing the key / join attributes with the
    join columns of string dtype (`TablesValid`), whose tokenizer is a Tokenizer (q-gram for edit distance), whose
    threshold and operator pass the generated validators, whose output attributes exist and whose key columns are
    key columns (`KeyValid` = `KeyColumn` of SSJ/Props/Common.lean, `C15_keys.keyValid_iff_keyColumn`): no missing value
    and no two rows with values that are equal as Python values (`1`, `1.0`, `True` count as ONE value, as for pandas'
    `unique()`; strictly stronger than pairwise different cells). -/
theorem join_accepts_iff (mname : String) (a : JoinArgs) (t : TokObj) (l r : Frame) :
    validateJoin mname a t = .ok (l, r) ↔
      TablesValid a.toTableArgs l r ∧ TokValid mname t ∧
      Gen.validate_threshold a.threshold (.str mname) ≠ .err .assertion ∧
      Gen.validate_comp_op_for_sim_measure (.str a.compOp) (.str mname) ≠ .err .assertion ∧
      OutValid a.toTableArgs l r ∧ KeyValid l a.lKey ∧ KeyValid r a.rKey :=
  validateJoin_ok_iff mname a t l r

/-- `filter_tables` accepts exactly: valid tables / attributes / dtypes, existing output attributes, valid keys. -/
theorem filter_tables_accepts_iff (a : TableArgs) (l r : Frame) :
    validateFilterTables a = .ok (l, r) ↔
      TablesValid a l r ∧ OutValid a l r ∧ KeyValid l a.lKey ∧ KeyValid r a.rKey :=
  validateFilterTables_ok_iff a l r

/-- `apply_matcher` accepts exactly the requests satisfying `MatcherValid` (fields = documented preconditions). -/
theorem apply_matcher_accepts_iff (a : MatcherArgs) (t : Option TokObj) (c l r : Frame) :
    validateMatcher a t = .ok (c, l, r) ↔ MatcherValid a t c l r :=
  validateMatcher_ok_iff a t c l r

/-- `filter_candset` accepts exactly the requests satisfying `CandsetValid`. -/
theorem filter_candset_accepts_iff (a : CandsetArgs) (c l r : Frame) :
    validateCandset a = .ok (c, l, r) ↔ CandsetValid a c l r :=
  validateCandset_ok_iff a c l r

/-- String join columns may have dtype object OR pandas string dtype: both tags pass the dtype check, and only they. -/
theorem string_dtypes_accepted (attr : String) (f : Frame) :
    validateAttrType attr f = .ok () ↔ (f.dtype attr = "object" ∨ f.dtype attr = "str") := by
  unfold validateAttrType raiseIf
  constructor
  · intro h
    split at h
    · cases h
    · next hc => simp at hc; tauto
  · rintro (h | h) <;> simp [h]

/-- A filter constructor given a known measure, a tokenizer (q-gram for edit distance) and an in-range threshold
    returns the filter object with exactly those parameters. -/
theorem filter_accepts (name : String) (thr : PyV) (ae am : Bool) (t : TokObj) (m : Measure)
    (hm : Measure.ofName? name.toUpper = some m) (ht : t.isTokenizer = true)
    (hq : m = .editDistance → t.isQgram = true)
    (h : Gen.validate_threshold thr (.str m.name) ≠ .err .assertion) :
    mkFilter name thr ae am t =
      .ok { cfg := { measure := m, threshold := thr, qval := if t.isQgram then .int t.qval else .none },
            allowEmpty := ae, allowMissing := am } :=
  mkFilter_ok name thr ae am t m hm ht hq h

/-- jaccard / cosine / dice join: validated arguments and `BodyOK` (present join values are strings, no `_id` in the
    output header) ⇒ a DataFrame, for tables of ANY shape, any tokenization, any n_jobs / cpu count; and the tokenizer
    flag is back to what it was. -/
theorem set_sim_join_accepts (m : Measure) (a : JoinArgs) (t : TokObj) (toks : TokFn) (cpu : Int) (l r : Frame)
    (hv : validateJoin m.name a t = .ok (l, r))
    (hb : BodyOK a.toTableArgs l r a.outSimScore) :
    ∃ fr, (setSimJoinPy m a t toks cpu).result = .ok fr ∧ (setSimJoinPy m a t toks cpu).flagAfter = t.returnSet := by
  obtain ⟨fr, h⟩ := setSimJoinPy_total m a t toks cpu l r hv hb
  exact ⟨fr, h, setSimJoinPy_flag m a t toks cpu⟩

/-- overlap coefficient join: validated arguments and `BodyOK` ⇒ a DataFrame, for tables of any shape. -/
theorem overlap_coefficient_join_accepts (a : JoinArgs) (t : TokObj) (toks : TokFn) (cpu : Int) (l r : Frame)
    (hv : validateJoin "OVERLAP_COEFFICIENT" a t = .ok (l, r))
    (hb : BodyOK a.toTableArgs l r a.outSimScore) :
    ∃ fr, (overlapCoefficientJoinPy a t toks cpu).result = .ok fr ∧
      (overlapCoefficientJoinPy a t toks cpu).flagAfter = t.returnSet := by
  obtain ⟨fr, h⟩ := overlapCoefficientJoinPy_total a t toks cpu l r hv hb
  exact ⟨fr, h, overlapCoefficientJoinPy_flag a t toks cpu⟩

/-- overlap join: a constructible OverlapFilter, validated tables and `BodyOK` ⇒ a DataFrame, for tables of any shape. -/
theorem overlap_join_accepts (a : JoinArgs) (t : TokObj) (toks : TokFn) (cpu : Int) (f : OverlapFilterObj) (l r : Frame)
    (hf : mkOverlapFilter a.threshold a.compOp a.allowMissing t = .ok f)
    (hv : validateFilterTables a.toTableArgs = .ok (l, r))
    (hb : BodyOK a.toTableArgs l r a.outSimScore) :
    ∃ fr, (overlapJoinPy a t toks cpu).result = .ok fr ∧ (overlapJoinPy a t toks cpu).flagAfter = t.returnSet := by
  obtain ⟨fr, h⟩ := overlapJoinPy_total a t toks cpu f l r hf hv hb
  exact ⟨fr, h, rfl⟩

/-- edit distance join: validated arguments with an int or (finite) float threshold, and `BodyOK` ⇒ a DataFrame. -/
theorem edit_distance_join_accepts (a : JoinArgs) (t : TokObj) (toks : TokFn) (cpu : Int) (l r : Frame)
    (hv : validateJoin "EDIT_DISTANCE" a t = .ok (l, r))
    (hthr : (∃ k : Int, a.threshold = .int k) ∨ (∃ q : Rat, a.threshold = .float q))
    (hb : BodyOK a.toTableArgs l r a.outSimScore) :
    ∃ fr, (editDistanceJoinPy a t toks cpu).result = .ok fr ∧
      (editDistanceJoinPy a t toks cpu).flagAfter = t.returnSet := by
  obtain ⟨tau, htau⟩ := floor_toInt_of_numeric a.threshold hthr
  obtain ⟨fr, h⟩ := editDistanceJoinPy_total a t toks cpu l r tau hv htau hb
  exact ⟨fr, h, editDistanceJoinPy_flag a t toks cpu⟩

/-- `int(floor(threshold))`: `k` for an int `k`, `⌊q⌋` for a float `q` -/
theorem edit_distance_threshold_conversion (k : Int) (q : Rat) :
    PyV.toInt (PyV.floor (.int k)) = .int k ∧ PyV.toInt (PyV.floor (.float q)) = .int q.floor :=
  ⟨rfl, rfl⟩

/-- `filter_tables` of the size / prefix / position / suffix filter: validated arguments and `BodyOK` ⇒ a DataFrame. -/
theorem filter_tables_accepts (k : FilterKind) (f : FilterObj) (a : TableArgs) (t : TokObj) (toks : TokFn) (cpu : Int)
    (l r : Frame) (hv : validateFilterTables a = .ok (l, r))
    (hb : BodyOK a l r false) :
    ∃ fr, filterTables k f a t toks cpu = .ok fr :=
  filterTables_total k f a t toks cpu l r hv hb

/-- `OverlapFilter.filter_tables`: validated arguments and `BodyOK` ⇒ a DataFrame. -/
theorem overlap_filter_tables_accepts (f : OverlapFilterObj) (a : TableArgs) (oss : Bool) (tok : String → List Tok)
    (cpu : Int) (l r : Frame) (hv : validateFilterTables a = .ok (l, r))
    (hb : BodyOK a l r oss) :
    ∃ fr, overlapFilterTables f a oss tok cpu = .ok fr :=
  overlapFilterTables_total f a oss tok cpu l r hv hb

/-- `apply_matcher`: validated arguments, candidate keys present in the tables (up to Python equality, `PyMem`) and — when a tokenizer is given — string
    match columns ⇒ a DataFrame (with the candset's columns if the candset is empty, else the output header). -/
theorem apply_matcher_accepts (a : MatcherArgs) (t : Option TokObj) (toks : TokFn) (sim : SimArg → SimArg → PyV)
    (cpu : Int) (c l r : Frame) (hv : validateMatcher a t = .ok (c, l, r))
    (hl : ∀ cr ∈ c.rows, PyMem (cr.cell (c.colIdx a.candLKey)) (l.col a.lKey))
    (hr : ∀ cr ∈ c.rows, PyMem (cr.cell (c.colIdx a.candRKey)) (r.col a.rKey))
    (hlen : c.rows.length < 2 ^ 40)
    (hstr : t.isSome → StrColumn l a.lAttr ∧ StrColumn r a.rAttr) :
    ∃ fr, applyMatcher a t toks sim cpu = .ok fr := by
  obtain ⟨fr, h, _⟩ := applyMatcher_rows' a t toks sim cpu c l r hv hl hr hlen hstr
  exact ⟨fr, h⟩

/-- `filter_candset`: validated arguments, candidate keys present, and a `filter_pair` that does not raise on the values
    of the two filter columns ⇒ a DataFrame with the candset's columns and dtypes whose rows are a subsequence of the
    candset's. -/
theorem filter_candset_accepts (a : CandsetArgs) (fp : Cell → Cell → Except PyErr Bool) (cpu : Int) (c l r : Frame)
    (hv : validateCandset a = .ok (c, l, r))
    (hl : ∀ cr ∈ c.rows, PyMem (cr.cell (c.colIdx a.candLKey)) (l.col a.lKey))
    (hr : ∀ cr ∈ c.rows, PyMem (cr.cell (c.colIdx a.candRKey)) (r.col a.rKey))
    (hlen : c.rows.length < 2 ^ 40)
    (hfp : ∀ ls ∈ l.rows, ∀ rs ∈ r.rows, ∃ b, fp (valOf l a.lAttr ls) (valOf r a.rAttr rs) = .ok b) :
    ∃ fr, filterCandset a fp cpu = .ok fr ∧ fr.columns = c.columns ∧ fr.dtypes = c.dtypes ∧
      fr.rows.Sublist c.rows :=
  filterCandset_total a fp cpu c l r hv hl hr hlen hfp

/-! ## F. Non-vacuity -/

section Examples

/-- a one-row table with an `object` string column … -/
def exL : Frame := { columns := ["id", "name"], dtypes := ["int64", "object"], rows := [[.int 1, .str "ann lee"]] }
/-- … a table with pandas string dtype whose only join value is missing … -/
def exR : Frame := { columns := ["id", "name"], dtypes := ["int64", "str"], rows := [[.int 7, .missing]] }
/-- … and a table with no rows at all -/
def exEmpty : Frame := { columns := ["id", "name"], dtypes := ["int64", "object"], rows := [] }

def exArgs (l r : Frame) (thr : PyV) (op : String) : JoinArgs :=
  { ltable := some l, rtable := some r, lKey := "id", rKey := "id", lAttr := "name", rAttr := "name",
    threshold := thr, compOp := op }

def exTok : TokObj := { isTokenizer := true, isQgram := true, qval := 2 }

/-- valid arguments are accepted: one row vs. all-missing, object vs. string dtype (threshold 0.3) … -/
example : validateJoin "JACCARD" (exArgs exL exR (.float (mkRat 3 10)) ">=") exTok = .ok (exL, exR) := by decide
/-- … and tables without rows -/
example : validateJoin "EDIT_DISTANCE" (exArgs exEmpty exEmpty (.int 2) "<=") exTok = .ok (exEmpty, exEmpty) := by
  decide
/-- hence the joins return DataFrames on them, for every tokenization and cpu count -/
example (toks : TokFn) (cpu : Int) :
    ∃ fr, (setSimJoinPy .jaccard (exArgs exL exR (.float (mkRat 3 10)) ">=") exTok toks cpu).result = .ok fr :=
  (set_sim_join_accepts .jaccard _ exTok toks cpu exL exR (by decide) (by decide +kernel)).imp fun _ h => h.1
example (toks : TokFn) (cpu : Int) :
    ∃ fr, (editDistanceJoinPy (exArgs exEmpty exEmpty (.int 2) "<=") exTok toks cpu).result = .ok fr :=
  (edit_distance_join_accepts _ exTok toks cpu exEmpty exEmpty (by decide) (Or.inl ⟨2, rfl⟩) (by decide +kernel)).imp
    fun _ h => h.1
/-- invalid arguments are rejected: threshold 1.5, operator `<=` for a similarity join, numeric join column,
    a table that is not a DataFrame -/
example : validateJoin "JACCARD" (exArgs exL exR (.float (mkRat 3 2)) ">=") exTok = .error .assertion := by decide
example : validateJoin "COSINE" (exArgs exL exR (.float (mkRat 1 2)) "<=") exTok = .error .assertion := by decide
example : validateJoin "DICE" { exArgs exL exR (.float (mkRat 1 2)) ">=" with lAttr := "id" } exTok
    = .error .assertion := by decide
example : validateJoin "DICE" { exArgs exL exR (.float (mkRat 1 2)) ">=" with ltable := none } exTok
    = .error .typeErr := by decide
example : validateFilterTables (exArgs exL exR (.int 1) ">=").toTableArgs = .ok (exL, exR) := by decide
/-- a threshold that is not a number is rejected -/
example : validateJoin "JACCARD" (exArgs exL exR .none ">=") exTok = .error .assertion := by decide

end Examples

end SSJ.Props.C15

/-
  C11 (companion: the `_id` clash) — the documented column list is only ever produced when it contains `_id` ONCE.

  C11 (`SSJ/Props/C11.lean`) says that every join / `filter_tables` RESULT has exactly the columns
      `_id`, l_prefix+l_key, r_prefix+r_key, l_prefix+l_out…, r_prefix+r_out…, (`_sim_score`)
  (`documentedColumns a oss`).  Its theorems speak about a given result `call am nj cpu = .ok fr`.  This file makes
  explicit WHEN such a result exists as far as the column names are concerned: the `_id` column is added last, by
      output_table.insert(0, '_id', range(0, len(output_table)))
  and pandas refuses (`ValueError: cannot insert _id, already exists`) when the header assembled so far — the documented
  list without its first entry, `outHeader a oss` of SSJ/Props/Common.lean — already contains the name `_id`, e.g. for
  `l_out_prefix='_'` and key attribute `id`, or `l_out_prefix=''` and an output attribute called `_id`.  Other duplicate
  column names (say `l_out_prefix = r_out_prefix` and equal attribute names) are accepted by pandas and by the model.

  Model functions: the six table-level entry points, collected in `SSJ.TableCall` (see C11.lean); `finishPy` of
  `SSJ/Model/Frame.lean` is the `insert`.

  THEOREMS.
    `documentedColumns_eq`       `documentedColumns a oss = "_id" :: outHeader a oss`.
    `no_id_clash_needed`         a call that returned a frame had no clash: `NoIdClash (outHeader a oss)`; consequently
                                 `_id` occurs exactly once among the result's columns (`id_column_once`).
    `clash_gives_no_frame`       with a clash NO call of any entry point returns a frame, whatever the tables hold
                                 (it raises TypeError if a join value is not a string, else ValueError: `C15_body`).
    `columns_produced_iff`       for string join columns: the call returns a frame with the documented columns IFF
                                 there is no clash.
    `noIdClash_iff_args`         the condition on the call's arguments.
    `duplicates_accepted`        (example) a header with a duplicated name other than `_id` is produced.
  Scope: every entry point, all tables, `allow_missing`, `n_jobs`, cpu count.  NOT covered: `apply_matcher`, whose header
  gets `_id` by a list insert before the frame is built — no clash error there (`C11_candset`).
-/
import SSJ.Props.C11
import SSJ.Props.C15_body

namespace SSJ.Props.C11
open SSJ SSJ.Props

variable {call : Bool → Int → Int → Except PyErr Frame} {a : TableArgs} {l r : Frame} {oss : Bool}

/-- the documented column list is `_id` followed by the header the call assembles before the final `insert` -/
theorem documentedColumns_eq (a : TableArgs) (oss : Bool) : documentedColumns a oss = "_id" :: outHeader a oss := by
  unfold documentedColumns outHeader getOutputHeader outAttrs
  simp only [List.cons_append, List.nil_append, List.append_assoc]

/-- NO CLASH WAS NEEDED: whenever a join / `filter_tables` call returned a frame, the header it assembled did not
    contain `_id` -/
theorem no_id_clash_needed (h : TableCall call a l r oss) (am : Bool) (nj cpu : Int) (fr : Frame)
    (hfr : call am nj cpu = .ok fr) : NoIdClash (outHeader a oss) :=
  (h.bodyOK hfr).noClash

/-- … so the result has exactly ONE column named `_id` (its first) -/
theorem id_column_once (h : TableCall call a l r oss) (am : Bool) (nj cpu : Int) (fr : Frame)
    (hfr : call am nj cpu = .ok fr) : fr.columns.count "_id" = 1 := by
  rw [columns h am nj cpu fr hfr, documentedColumns_eq, List.count_cons_self,
    List.count_eq_zero_of_not_mem (no_id_clash_needed h am nj cpu fr hfr)]

/-- CLASH ⇒ NO FRAME: if the header contains `_id`, no call of the entry point returns a frame -/
theorem clash_gives_no_frame (h : TableCall call a l r oss) (hc : ¬ NoIdClash (outHeader a oss))
    (am : Bool) (nj cpu : Int) (fr : Frame) : call am nj cpu ≠ .ok fr :=
  fun hfr => hc (no_id_clash_needed h am nj cpu fr hfr)

/-- for string join columns: a frame with the documented columns is produced IF AND ONLY IF there is no clash -/
theorem columns_produced_iff (h : TableCall call a l r oss) (hsl : StrColumn l a.lAttr) (hsr : StrColumn r a.rAttr)
    (am : Bool) (nj cpu : Int) :
    (∃ fr, call am nj cpu = .ok fr ∧ fr.columns = documentedColumns a oss) ↔ NoIdClash (outHeader a oss) := by
  constructor
  · rintro ⟨fr, hfr, -⟩
    exact no_id_clash_needed h am nj cpu fr hfr
  · intro hc
    obtain ⟨fr, hfr⟩ := (C15.body_returns_iff h am nj cpu).2 ⟨hsl, hsr, hc⟩
    exact ⟨fr, hfr, columns h am nj cpu fr hfr⟩

/-- the condition on the arguments: no prefixed key and no prefixed (de-duplicated, key-free) output attribute is `_id` -/
theorem noIdClash_iff_args (a : TableArgs) (oss : Bool) :
    NoIdClash (outHeader a oss) ↔
      a.lPre ++ a.lKey ≠ "_id" ∧ a.rPre ++ a.rKey ≠ "_id" ∧
      (∀ c ∈ outAttrs a.lOut a.lKey, a.lPre ++ c ≠ "_id") ∧ (∀ c ∈ outAttrs a.rOut a.rKey, a.rPre ++ c ≠ "_id") :=
  C15.noIdClash_iff a oss

/-! ### non-vacuity -/
section Examples

def kxL : Frame := { columns := ["id", "name"], dtypes := ["int64", "object"], rows := [[.int 1, .str "a b"]] }
def kxR : Frame := { columns := ["id", "name"], dtypes := ["int64", "object"], rows := [[.int 7, .str "a b"]] }
def kxArgs (lPre rPre : String) (lOut rOut : Option (List String)) : TableArgs :=
  { ltable := some kxL, rtable := some kxR, lKey := "id", rKey := "id", lAttr := "name", rAttr := "name",
    lOut := lOut, rOut := rOut, lPre := lPre, rPre := rPre }
def kxF : OverlapFilterObj := { overlapSize := .int 1, compOp := ">=" }
def kxTok : String → List Tok := fun s => if s = "a b" then ["a", "b"] else []

/-- `l_out_prefix='_'`, key attribute `id`: clash, `OverlapFilter.filter_tables` raises ValueError -/
example : overlapFilterTables kxF (kxArgs "_" "r_" none none) false kxTok 1 = .error .other := by decide
example : ¬ NoIdClash (outHeader (kxArgs "_" "r_" none none) false) := by decide
/-- the default prefixes: no clash, the documented columns -/
example : overlapFilterTables kxF (kxArgs "l_" "r_" none none) false kxTok 1 =
    .ok { columns := ["_id", "l_id", "r_id"], index := [.int 0], rows := [[.int 0, .int 1, .int 7]] } := by decide
/-- `duplicates_accepted`: equal prefixes give the header `["_id", "x_id", "x_id", "x_name", "x_name"]` — duplicated
    names other than `_id` are produced without complaint -/
example : overlapFilterTables kxF (kxArgs "x_" "x_" (some ["name"]) (some ["name"])) false kxTok 1 =
    .ok { columns := ["_id", "x_id", "x_id", "x_name", "x_name"], index := [.int 0],
          rows := [[.int 0, .int 1, .int 7, .str "a b", .str "a b"]] } := by decide

/-- the hypotheses of `columns_produced_iff` hold for the clash-free call -/
example : ∃ fr, overlapFilterTables kxF (kxArgs "l_" "r_" none none) false kxTok 1 = .ok fr ∧
    fr.columns = documentedColumns (kxArgs "l_" "r_" none none) false :=
  (columns_produced_iff (.overlapFilterTables kxF (kxArgs "l_" "r_" none none) false kxTok kxL kxR
    (by decide) (by decide)) (by decide) (by decide) false 1 1).2 (by decide)

end Examples

section AxiomCheck
#print axioms documentedColumns_eq
#print axioms no_id_clash_needed
#print axioms id_column_once
#print axioms clash_gives_no_frame
#print axioms columns_produced_iff
#print axioms noIdClash_iff_args
end AxiomCheck

end SSJ.Props.C11

/-
  C07 (wide threshold scope) — A join equals filter_tables followed by apply_matcher.

  Companion of SSJ/Props/C07.lean (same namespace `SSJ.Props.C07`; property text, model, the three calls, `stage1Args`,
  `stage2Args`, `KeyNamesOK`, `InResult`, `ScoreOf` as there).  The jaccard / cosine / dice theorem `pipeline_iff` of
  C07.lean assumes a Python FLOAT threshold `thr` with `2⁻²⁰ ≤ thr ≤ 1` (`ThrOK`), and `FirstStage`, `NonStraddling`,
  `pipeline_returns`, `nonStraddling_implies_c13` are phrased for a float threshold.  The validation (of the join and
  of the filter constructors) accepts every `0 < t ≤ 1`, also given as the Python int `1`.

  WHAT CHANGED.  The threshold is the VALUE `a.threshold : PyV` of the join's arguments; the first-stage filter carries
  the same value (`FirstStageV m th a t toks C`, `f.cfg.threshold = th`), the second stage compares against it
  (`stage2Args` hands `a.threshold` to `apply_matcher`), and `NonStraddlingV m op th A B` compares `sim_function`'s value
  and its rounding against it.  `compFn` works on `PyV`: the int `1` is compared with the float similarity by Python
  semantics (numerically).  `pipeline_iff_wide` has the conclusion of `pipeline_iff` under `WideThr m a.threshold`
  (SSJ/Proofs/ArithWide.lean):
      * a Python float `t` with `thrLo m ≤ t ≤ 1`, `thrLo m = 2⁻⁹⁸⁹` for JACCARD and DICE, `2⁻⁴⁹⁵` for COSINE, or
      * the Python int `1`.
  `pipeline_returns_wide`, `nonStraddling_implies_c13_wide` hold for ANY threshold value (they never needed `ThrOK`).
  SuffixFilter as first stage keeps `prefThr m ≤ thr` (as `prefThr m ≤ thrVal th`, see C04.lean), so for it the widening
  only adds the int `1`.  `ThrOK` thresholds are covered (`ThrOK.wide`): `FirstStage m thr … → FirstStageV m (.float thr) …`
  (`firstStageV_of_float`), `NonStraddling m op thr A B ↔ NonStraddlingV m op (.float thr) A B` (`Iff.rfl`).

  WHY THE RANGE STOPS AT `thrLo m`.  Safety of the first stage and completeness of the join need the pruning bounds to be
  right; binary64 OVERFLOW of the size upper bound (`n / t`, `((2 − t)/t) · n`, `n / (t·t)`, token counts up to `2³² − 1`) makes
  the generated code fail from `t = 2⁻⁹⁹³` (JACCARD), `2⁻⁹⁹²` (DICE), `2⁻⁴⁹⁷` (COSINE) on (`SSJ.cosine_overflow_at_500`).
  STILL OUTSIDE.  Thresholds in `(0, thrLo m)` (the real code raises `OverflowError` / `ZeroDivisionError` there for large
  enough token counts — recorded known finding K2 — or works for small ones; not covered by theorems).  Edit distance
  (`pipeline_ed`, `pipeline_ed_returns`): unchanged, see C07.lean.
-/
import SSJ.Proofs.EntryPipelineWide
import SSJ.Props.C07
import SSJ.Props.C04_wide

namespace SSJ.Props.C07
open SSJ SSJ.Props SSJ.Spec SSJ.EntryPipeline
open SSJ.Props.C13 (InResult ScoreOf)

/-! ## vocabulary for a threshold value -/

/-- `C` is what a SAFE first stage returned for the join `a` with measure `m` and threshold VALUE `th`: `filter_tables`
    of a Size / Prefix / Position / Suffix filter carrying `m` and `th` (SuffixFilter: `prefThr m ≤ thrVal th`, see C04), or
    of OverlapFilter(overlap_size = 1, comp_op = '>='); any `allow_empty` / `allow_missing` of the filter, any `n_jobs`,
    any cpu count; the tokenizer is used as it is (`t.returnSet`) -/
inductive FirstStageV (m : Measure) (th : PyV) (a : JoinArgs) (t : TokObj) (toks : TokFn) (C : Frame) : Prop
  | filter (k : FilterKind) (f : FilterObj) (nj cpu : Int)
      (hsuffix : k = .suffix → prefThr m ≤ thrVal th)
      (hmeas : f.cfg.measure = m) (hthr : f.cfg.threshold = th)
      (hres : filterTables k f (stage1Args a nj) t toks cpu = .ok C)
  | overlap (fo : OverlapFilterObj) (nj cpu : Int)
      (hsize : fo.overlapSize = .int 1) (hop : fo.compOp = ">=")
      (hres : overlapFilterTables fo (stage1Args a nj) false (toks t.returnSet) cpu = .ok C)

/-- the value `sim_function` returns for the two token lists and its rounding to 4 decimals lie on the same side of
    the threshold VALUE `th` under the comparison `op` -/
def NonStraddlingV (m : Measure) (op : String) (th : PyV) (A B : List Tok) : Prop :=
  compFn op (simRaw m A B) th = compFn op (PyV.round (simRaw m A B) (.int 4)) th

/-- the float-threshold vocabulary of C07.lean is the special case `th = .float thr` -/
theorem firstStageV_of_float {m : Measure} {thr : Rat} {a : JoinArgs} {t : TokObj} {toks : TokFn} {C : Frame}
    (h : FirstStage m thr a t toks C) : FirstStageV m (.float thr) a t toks C := by
  cases h with
  | filter k f nj cpu hsuffix hmeas hthr hres => exact .filter k f nj cpu hsuffix hmeas hthr hres
  | overlap fo nj cpu hsize hop hres => exact .overlap fo nj cpu hsize hop hres

example (m : Measure) (op : String) (thr : Rat) (A B : List Tok) :
    NonStraddling m op thr A B ↔ NonStraddlingV m op (.float thr) A B := Iff.rfl

/-! ## jaccard / cosine / dice -/

/-- the exclusion of straddling pairs used here implies the one used by C13 (w.r.t. the set similarity), any
    threshold value -/
theorem nonStraddling_implies_c13_wide (m : Measure) (hm : SetMeasure m) (op : String) (th : PyV) (A B : List Tok)
    (hA : A.Nodup) (hB : B.Nodup) (hAs : A.length < 2 ^ 32) (hBs : B.length < 2 ^ 32)
    (h : NonStraddlingV m op th A B) : C13.NonStraddlingV m op th A B :=
  c13_nonStraddling_wide m hm op th A B hA hB hAs hBs h

section SetSimWide
variable (m : Measure) (a : JoinArgs) (t : TokObj) (toks : TokFn) (l r : Frame)

/-- THE PIPELINE RUNS, any threshold value: on the candidate set a first stage returned (fewer than 2⁴⁰ rows),
    `apply_matcher` with the join's tokenizer, threshold and operator returns a frame — for any `sim_function`,
    `n_jobs`, cpu count. -/
theorem pipeline_returns_wide (hm : SetMeasure m) (hv : validateJoin m.name a t = .ok (l, r)) (hnames : KeyNamesOK a)
    (th : PyV) (C : Frame) (h1 : FirstStageV m th a t toks C) (hClen : C.rows.length < 2 ^ 40)
    (sim : SimArg → SimArg → PyV) (nj₂ cpu₂ : Int) :
    ∃ P, applyMatcher (stage2Args a C nj₂) (some t) toks sim cpu₂ = .ok P := by
  obtain ⟨-, -, hop⟩ := EntrySetSim.of_validateJoin hm hv
  have hop6 : a.compOp ∈ [">=", ">", "<=", "<", "=", "!="] := by
    simp only [List.mem_cons, List.not_mem_nil, or_false] at hop ⊢
    rcases hop with h | h | h <;> simp [h]
  cases h1 with
  | filter k f nj cpu₁ _ _ _ hres =>
    obtain ⟨hv1, hk1⟩ := stage1_valid m.name a t l r nj hv
    exact stage2_total m.name a t l r hv hop6 hnames.left hnames.right hnames.distinct nj
      (.filterTables k f (stage1Args a nj) t toks l r hv1 hk1) f.allowMissing nj cpu₁ C hres hClen
      (some t) (Or.inl rfl) toks sim nj₂ cpu₂
  | overlap fo nj cpu₁ _ _ hres =>
    obtain ⟨hv1, hk1⟩ := stage1_valid m.name a t l r nj hv
    exact stage2_total m.name a t l r hv hop6 hnames.left hnames.right hnames.distinct nj
      (.overlapFilterTables fo (stage1Args a nj) false (toks t.returnSet) l r hv1 hk1) fo.allowMissing nj cpu₁ C hres
      hClen (some t) (Or.inl rfl) toks sim nj₂ cpu₂

/-- C07 for JACCARD / COSINE / DICE, every covered threshold value (a float in `[thrLo m, 1]` or the int `1`).  Run a
    safe filter's `filter_tables` (candidate set `C`), then `apply_matcher` on `C` with the tokenizer (in set mode), the
    measure's similarity function, the join's threshold and operator (result `P`); run the join (result `J`).  For
    every pair of source rows with present join values, not both tokenizing to nothing and non-straddling:
      the pair is in the pipeline's result IFF it is in the join's result,
    and (when a score column is requested) the pipeline reports `s = sim_function(l_tokens, r_tokens)` and the join
    reports `round(s, 4)` — equal after rounding to 4 decimals. -/
theorem pipeline_iff_wide (hm : SetMeasure m) (hv : validateJoin m.name a t = .ok (l, r)) (hnames : KeyNamesOK a)
    (hth : WideThr m a.threshold)
    (hs : InScope (toks true) r) (hset : t.returnSet = true)
    -- stage 1: filter_tables of a safe filter carrying the join's threshold value
    (C : Frame) (h1 : FirstStageV m a.threshold a t toks C) (hClen : C.rows.length < 2 ^ 40)
    -- stage 2: apply_matcher with the measure's similarity function
    (sim : SimArg → SimArg → PyV) (hsim : ∀ A B, sim (.toks A) (.toks B) = simRaw m A B)
    (nj₂ cpu₂ : Int) (P : Frame) (h2 : applyMatcher (stage2Args a C nj₂) (some t) toks sim cpu₂ = .ok P)
    -- the join
    (cpu : Int) (J : Frame) (hJ : (setSimJoinPy m a t toks cpu).result = .ok J)
    -- the pair
    (ls rs : Row) (hls : ls ∈ l.rows) (hrs : rs ∈ r.rows)
    (hpl : Present l a.lAttr ls) (hpr : Present r a.rAttr rs)
    (hne : bothEmpty (tokensOf (toks true) l a.lAttr ls) (tokensOf (toks true) r a.rAttr rs) = false)
    (hns : NonStraddlingV m a.compOp a.threshold (tokensOf (toks true) l a.lAttr ls) (tokensOf (toks true) r a.rAttr rs)) :
    (InResult P (keyOf l a.lKey ls) (keyOf r a.rKey rs) ↔ InResult J (keyOf l a.lKey ls) (keyOf r a.rKey rs)) ∧
    (a.outSimScore = true →
      ScoreOf P (keyOf l a.lKey ls) (keyOf r a.rKey rs)
        (scoreCell (simRaw m (tokensOf (toks true) l a.lAttr ls) (tokensOf (toks true) r a.rAttr rs))) ∧
      ScoreOf J (keyOf l a.lKey ls) (keyOf r a.rKey rs)
        (scoreCell (PyV.round (simRaw m (tokensOf (toks true) l a.lAttr ls) (tokensOf (toks true) r a.rAttr rs))
          (.int 4)))) := by
  cases h1 with
  | filter k f nj cpu₁ hsuffix hmeas hfthr hres =>
    -- safety of the first stage: `C04.tables_safe_size_wide / _prefix_wide / _position_wide / _suffix_wide`
    obtain ⟨hv1, hk1⟩ := stage1_valid m.name a t l r nj hv
    exact setsim_core_wide m a t toks l r hm hv hth hs hset hnames.left hnames.right hnames.distinct nj
      (.filterTables k f (stage1Args a nj) t toks l r hv1 hk1) f.allowMissing nj cpu₁ C hres hClen sim hsim nj₂ cpu₂ P h2
      cpu J hJ ls rs hls hrs hpl hpr hne
      (fun s hs1 hs2 => filter_stage_safe_wide m a t toks l r hm m.name hv a.threshold hth hs hset k f hsuffix hmeas hfthr
        nj cpu₁ C hres ls rs hls hrs hpl hpr hne s hs1 hs2)
      hns
  | overlap fo nj cpu₁ hsize hop hres =>
    -- safety of the first stage: a pair reaching a positive threshold has a common token, `C04.overlap_filter_tables_exact`
    obtain ⟨hv1, hk1⟩ := stage1_valid m.name a t l r nj hv
    exact setsim_core_wide m a t toks l r hm hv hth hs hset hnames.left hnames.right hnames.distinct nj
      (.overlapFilterTables fo (stage1Args a nj) false (toks t.returnSet) l r hv1 hk1) fo.allowMissing nj cpu₁ C hres hClen
      sim hsim nj₂ cpu₂ P h2 cpu J hJ ls rs hls hrs hpl hpr hne
      (fun s hs1 hs2 => overlap_stage_safe_wide m a t toks l r hm m.name hv a.threshold hth hs hset fo hsize hop nj cpu₁ C
        hres ls rs hls hrs hpl hpr hne s hs1 hs2)
      hns

end SetSimWide

/-! ## non-vacuity

    (1) The request of `EntrySetSim.Ex` with threshold `2⁻³⁰` (`EntryWide.Ex.exArgsSmall`), tokenizer in set mode.  Stage 1:
        `SizeFilter(tok, 'JACCARD', 2**-30).filter_tables(…, n_jobs=2)` on 4 cpus returns the candidate set `exCSmall` =
        {(4,7), (1,7), (2,8)} (evaluated by the kernel); stage 2 runs with `n_jobs=3` on 8 cpus.  The pair
        ((1,"ab"), (7,"abc")) has Jaccard = the double nearest 2/3, 0.6667 rounded: non-straddling for `2⁻³⁰`; both results
        name the key pair (1, 7).
    (2) The same request with the threshold given as the Python int `1` (`exArgsInt`) and the tokenization table `exToks1`
        ("ab" ↦ {a,b}, "abc" ↦ {a,b}, "x" ↦ {a,b}).  Stage 1: `SizeFilter(tok, 'JACCARD', 1).filter_tables(…)` returns
        `exCInt` = {(1,7), (4,7), (2,8)}; the pair ((1,"ab"), (7,"abc")) has two identical token lists, similarity 1.0 raw
        and rounded, `>= 1` holds: both results name the key pair (1, 7). -/
section NonVacuityWide
open EntrySetSim.Ex EntryWide.Ex F64

def exCSmall : Frame :=
  { columns := ["_id", "l_id", "r_id"]
    index := [Cell.int 0, Cell.int 1, Cell.int 0]
    rows := [[.int 0, .int 4, .int 7], [.int 1, .int 1, .int 7], [.int 2, .int 2, .int 8]] }

def exCInt : Frame :=
  { columns := ["_id", "l_id", "r_id"]
    index := [Cell.int 0, Cell.int 1, Cell.int 0]
    rows := [[.int 0, .int 1, .int 7], [.int 1, .int 4, .int 7], [.int 2, .int 2, .int 8]] }

theorem ex_valid_small : validateJoin Measure.jaccard.name exArgsSmall exT = .ok (exL, exR) :=
  EntryLaws.validateJoin_withThreshold _ exArgs exT exL exR _ ex_valid (WideThr.valid (Or.inl rfl) (thrSmall .jaccard))

theorem ex_valid_int : validateJoin Measure.jaccard.name exArgsInt exT = .ok (exL, exR) :=
  EntryLaws.validateJoin_withThreshold _ exArgs exT exL exR _ ex_valid (WideThr.valid (Or.inl rfl) .intOne)

theorem ex_names_small : KeyNamesOK exArgsSmall := ⟨by decide, by decide, by decide⟩
theorem ex_names_int : KeyNamesOK exArgsInt := ⟨by decide, by decide, by decide⟩

theorem ex_stage1_small :
    filterTables .size { cfg := cfgWith .jaccard (.float (1 / 2 ^ 30)) } (stage1Args exArgsSmall 2) exT exToks 4 = .ok exCSmall := by
  decide +kernel

theorem ex_stage1_int :
    filterTables .size { cfg := cfgWith .jaccard (.int 1) } (stage1Args exArgsInt 2) exT exToks1 4 = .ok exCInt := by
  decide +kernel

theorem ex_first_small : FirstStageV .jaccard exArgsSmall.threshold exArgsSmall exT exToks exCSmall :=
  .filter .size { cfg := cfgWith .jaccard (.float (1 / 2 ^ 30)) } 2 4 (fun h => by cases h) rfl rfl ex_stage1_small

theorem ex_first_int : FirstStageV .jaccard exArgsInt.threshold exArgsInt exT exToks1 exCInt :=
  .filter .size { cfg := cfgWith .jaccard (.int 1) } 2 4 (fun h => by cases h) rfl rfl ex_stage1_int

theorem ex_nonStraddling_small : NonStraddlingV .jaccard exArgsSmall.compOp exArgsSmall.threshold
    (tokensOf (exToks true) exL exArgsSmall.lAttr exLs) (tokensOf (exToks true) exR exArgsSmall.rAttr exRs) := by
  show NonStraddlingV .jaccard ">=" (.float (1 / 2 ^ 30)) (tokensOf (exToks true) exL exArgs.lAttr exLs)
    (tokensOf (exToks true) exR exArgs.rAttr exRs)
  rw [exLs_tokens, exRs_tokens]
  have hraw : simRaw .jaccard ["a", "b"] ["a", "b", "c"] = .float (rn (2 / 3)) := by
    rw [simRaw_eq_simSet .jaccard _ _ (by decide) (by decide) (fun h => absurd h (by decide))]
    exact exSim
  have h1 := EntryLaws.Ex.exRaw_gt
  have h2 := EntryLaws.Ex.exRounded_gt
  have h1' : (1 / 2 ^ 30 : Rat) ≤ rn (2 / 3) := by linarith [show (1 / 2 ^ 30 : Rat) ≤ 3 / 5 by norm_num]
  have h2' : (1 / 2 ^ 30 : Rat) ≤ round4 (rn (2 / 3)) := by linarith [show (1 / 2 ^ 30 : Rat) ≤ 3 / 5 by norm_num]
  unfold NonStraddlingV
  rw [hraw, round4_f]
  simp only [EntryLaws.compFn_ge, PyV.geb, PyV.leb, PyV.numVal?]
  rw [decide_eq_true h1', decide_eq_true h2']

theorem ex_nonStraddling_int : NonStraddlingV .jaccard exArgsInt.compOp exArgsInt.threshold
    (tokensOf (exToks1 true) exL exArgsInt.lAttr exLs) (tokensOf (exToks1 true) exR exArgsInt.rAttr exRs) := by
  show NonStraddlingV .jaccard ">=" (.int 1) (tokensOf (exToks1 true) exL exArgs.lAttr exLs)
    (tokensOf (exToks1 true) exR exArgs.rAttr exRs)
  rw [exLs_tokens1, exRs_tokens1]
  unfold NonStraddlingV
  decide +kernel

/-- (1) threshold `2⁻³⁰` -/
example : ∃ P J, applyMatcher (stage2Args exArgsSmall exCSmall 3) (some exT) exToks exSimFn 8 = .ok P ∧
    (setSimJoinPy .jaccard exArgsSmall exT exToks 4).result = .ok J ∧
    InResult P (.int 1) (.int 7) ∧ InResult J (.int 1) (.int 7) := by
  obtain ⟨P, hP⟩ := pipeline_returns_wide .jaccard exArgsSmall exT exToks exL exR (Or.inl rfl) ex_valid_small
    ex_names_small _ exCSmall ex_first_small (by decide) exSimFn 3 8
  obtain ⟨J, hJ, row, hrow, hk, -⟩ := C01.setsim_complete_wide .jaccard (Or.inl rfl) exArgsSmall exT exToks 4 exL exR
    ex_valid_small (thrSmall .jaccard) exScope exLs exLs_mem exRs exRs_mem exLs_present exRs_present exPair_nonempty
    exPair_qual_small (by decide +kernel)
  have hkeys : (keyOf exL exArgs.lKey exLs, keyOf exR exArgs.rKey exRs) = (Cell.int 1, Cell.int 7) := by decide +kernel
  have hJin : InResult J (keyOf exL exArgs.lKey exLs) (keyOf exR exArgs.rKey exRs) := ⟨row, hrow, hk⟩
  have hiff := (pipeline_iff_wide .jaccard exArgsSmall exT exToks exL exR (Or.inl rfl) ex_valid_small ex_names_small
    (thrSmall .jaccard) exScope rfl exCSmall ex_first_small (by decide) exSimFn (fun _ _ => rfl) 3 8 P hP 4 J hJ exLs exRs
    exLs_mem exRs_mem exLs_present exRs_present exPair_nonempty ex_nonStraddling_small).1
  have hPin := hiff.2 hJin
  rw [Prod.mk.injEq] at hkeys
  change InResult P (keyOf exL exArgs.lKey exLs) (keyOf exR exArgs.rKey exRs) at hPin
  rw [hkeys.1, hkeys.2] at hPin hJin
  exact ⟨P, J, hP, hJ, hPin, hJin⟩

/-- (2) threshold the Python int `1` -/
example : ∃ P J, applyMatcher (stage2Args exArgsInt exCInt 3) (some exT) exToks1 exSimFn 8 = .ok P ∧
    (setSimJoinPy .jaccard exArgsInt exT exToks1 4).result = .ok J ∧
    InResult P (.int 1) (.int 7) ∧ InResult J (.int 1) (.int 7) := by
  obtain ⟨P, hP⟩ := pipeline_returns_wide .jaccard exArgsInt exT exToks1 exL exR (Or.inl rfl) ex_valid_int
    ex_names_int _ exCInt ex_first_int (by decide) exSimFn 3 8
  obtain ⟨J, hJ, row, hrow, hk, -⟩ := C01.setsim_complete_wide .jaccard (Or.inl rfl) exArgsInt exT exToks1 4 exL exR
    ex_valid_int .intOne exScope1 exLs exLs_mem exRs exRs_mem exLs_present exRs_present exPair_nonempty1
    exPair_qual_int (by decide +kernel)
  have hkeys : (keyOf exL exArgs.lKey exLs, keyOf exR exArgs.rKey exRs) = (Cell.int 1, Cell.int 7) := by decide +kernel
  have hJin : InResult J (keyOf exL exArgs.lKey exLs) (keyOf exR exArgs.rKey exRs) := ⟨row, hrow, hk⟩
  have hiff := (pipeline_iff_wide .jaccard exArgsInt exT exToks1 exL exR (Or.inl rfl) ex_valid_int ex_names_int
    .intOne exScope1 rfl exCInt ex_first_int (by decide) exSimFn (fun _ _ => rfl) 3 8 P hP 4 J hJ exLs exRs
    exLs_mem exRs_mem exLs_present exRs_present exPair_nonempty1 ex_nonStraddling_int).1
  have hPin := hiff.2 hJin
  rw [Prod.mk.injEq] at hkeys
  change InResult P (keyOf exL exArgs.lKey exLs) (keyOf exR exArgs.rKey exRs) at hPin
  rw [hkeys.1, hkeys.2] at hPin hJin
  exact ⟨P, J, hP, hJ, hPin, hJin⟩

end NonVacuityWide

section AxiomCheck
#print axioms nonStraddling_implies_c13_wide
#print axioms pipeline_returns_wide
#print axioms pipeline_iff_wide
end AxiomCheck

end SSJ.Props.C07

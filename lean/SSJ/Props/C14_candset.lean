/-
  C14 (continued) — `filter_candset`: the filters prune what their technique promises to prune.

  PROPERTY (C14).  "SizeFilter (JACCARD, COSINE, DICE, EDIT_DISTANCE) decides on the two token counts alone and is tight:
  besides keeping every pair whose counts allow the threshold to be met (C04), it drops every pair whose counts put the
  best attainable similarity more than 1e-4 below the threshold (for edit distance: whose counts differ by more than the
  threshold).  PrefixFilter, PositionFilter and OverlapFilter never keep a pair that has no token in common unless both
  values have no tokens at all (C09) …"

  SSJ/Props/C14.lean proves these clauses for `filter_pair` and `filter_tables`.  This file states them for
  `filter_candset`.  Every theorem is an INSTANTIATION of the generic candset theorem (`EntryFilters.filterCandset_keeps`
  = `C04.candset_keeps_iff`, "for any `filter_pair` function `fp`": a candidate row is kept iff `fp` does not drop the
  pair it references) with the `filter_pair` theorem of C14.lean named on the right; nothing new is proved about the filters.
    SizeFilter decides on the counts alone : `candset_size_counts_only` (two candidate rows — even of two different
        calls with the same filter object: other tables, candidate sets, tokenizers, `n_jobs` — whose referenced values
        have the same token counts are both kept or both dropped; `candset_size_counts_only_same`: within one call),
        `candset_size_exact` (kept ⇔ the right count lies in the window computed from the left count)
                                                             ← `size_counts_only`, `size_pair_exact`
    SizeFilter is tight                    : `candset_size_tight_jaccard/_dice/_cosine`, `candset_size_tight_left_empty`,
        `candset_size_tight_right_empty`, `candset_size_tight_ed` (the candidate row is dropped)
                                                             ← `size_tight_jaccard/_dice/_cosine/_left_empty/_right_empty/_ed`
    No common token ⇒ not kept             : `candset_no_common_token_prefix`, `candset_no_common_token_position` (a kept
        candidate row references values with a common token, unless both have no tokens), `candset_overlap_filter_kept_common`
        (OverlapFilter, overlap size an int `k ≥ 1`: a kept row references values with at least `k ≥ 1` common tokens)
                                                             ← `no_common_token_prefix/_position`, `overlap_filter_kept_common`

  MODEL: `filterCandset a fp cpu` (`Filter.filter_candset`, SSJ/Model/Matcher.lean) with `fp = filterPairPy k f tok`
  (Size / Prefix / PositionFilter) or `overlapFilterPairPy f tok` (OverlapFilter).
  HYPOTHESES: `EntryFilters.CandsetValid a c l r` (valid arguments, fewer than 2⁴⁰ candidate rows, every candidate row
  references existing table rows), the call returned a frame (`hres`; it does whenever the filter columns hold only
  strings and missing values: `C04.candset_keeps_iff_filter`, `C04.candset_keeps_iff_overlap_filter`), candidate row `cr`
  carries the keys of table rows `ls`, `rs` with present join values.  Thresholds / token counts as in C14.lean (`ThrOK`,
  counts below 2³², COSINE tightness `thr > 1e-4`, `size_tight_right_empty` needs `prefThr m ≤ thr`).  Any `n_jobs`, cpu
  count, `allow_empty`, `allow_missing`.
  NOT COVERED: the inclusion PositionFilter ⊆ Prefix/SizeFilter for `filter_candset` (it is immediate from
  `filter_pair`-level inclusions, which C14 states for `filter_tables` only); SuffixFilter (no pruning promise).
-/
import SSJ.Props.C14
import SSJ.Proofs.CandsetInst

namespace SSJ.Props.C14
open SSJ SSJ.Spec SSJ.Props

/-! ## SizeFilter decides on the two token counts alone -/

/-- two candidate rows — of the same or of two different `filter_candset` calls of a SizeFilter `f` (other tables,
    candidate set, tokenizer, `n_jobs`) — whose referenced present values have the same token counts get the same
    verdict: both are kept or both are dropped -/
theorem candset_size_counts_only (f : FilterObj) (tok tok' : String → List Tok)
    (a a' : CandsetArgs) (cpu cpu' : Int) (c l r fr c' l' r' fr' : Frame)
    (hval : EntryFilters.CandsetValid a c l r) (hval' : EntryFilters.CandsetValid a' c' l' r')
    (hres : filterCandset a (filterPairPy .size f tok) cpu = .ok fr)
    (hres' : filterCandset a' (filterPairPy .size f tok') cpu' = .ok fr')
    (cr ls rs : Row) (hcr : cr ∈ c.rows) (hls : ls ∈ l.rows) (hrs : rs ∈ r.rows)
    (hkl : keyOf l a.lKey ls = cr.cell (c.colIdx a.candLKey)) (hkr : keyOf r a.rKey rs = cr.cell (c.colIdx a.candRKey))
    (hlp : Present l a.lAttr ls) (hrp : Present r a.rAttr rs)
    (cr' ls' rs' : Row) (hcr' : cr' ∈ c'.rows) (hls' : ls' ∈ l'.rows) (hrs' : rs' ∈ r'.rows)
    (hkl' : keyOf l' a'.lKey ls' = cr'.cell (c'.colIdx a'.candLKey))
    (hkr' : keyOf r' a'.rKey rs' = cr'.cell (c'.colIdx a'.candRKey))
    (hlp' : Present l' a'.lAttr ls') (hrp' : Present r' a'.rAttr rs')
    (h1 : (tokensOf tok l a.lAttr ls).length = (tokensOf tok' l' a'.lAttr ls').length)
    (h2 : (tokensOf tok r a.rAttr rs).length = (tokensOf tok' r' a'.rAttr rs').length) :
    cr ∈ fr.rows ↔ cr' ∈ fr'.rows := by
  rw [EntryFilters.filterCandset_mem_iff_filter .size f tok a cpu c l r fr hval hres cr ls rs hcr hls hrs hkl hkr,
    EntryFilters.filterCandset_mem_iff_filter .size f tok' a' cpu' c' l' r' fr' hval' hres' cr' ls' rs' hcr' hls' hrs'
      hkl' hkr',
    size_counts_only f tok tok' _ _ _ _ hlp hrp hlp' hrp' h1 h2]

/-- within one call: two candidate rows whose referenced present values have the same token counts are both kept or
    both dropped by SizeFilter.filter_candset -/
theorem candset_size_counts_only_same (f : FilterObj) (tok : String → List Tok)
    (a : CandsetArgs) (cpu : Int) (c l r fr : Frame) (hval : EntryFilters.CandsetValid a c l r)
    (hres : filterCandset a (filterPairPy .size f tok) cpu = .ok fr)
    (cr ls rs : Row) (hcr : cr ∈ c.rows) (hls : ls ∈ l.rows) (hrs : rs ∈ r.rows)
    (hkl : keyOf l a.lKey ls = cr.cell (c.colIdx a.candLKey)) (hkr : keyOf r a.rKey rs = cr.cell (c.colIdx a.candRKey))
    (hlp : Present l a.lAttr ls) (hrp : Present r a.rAttr rs)
    (cr' ls' rs' : Row) (hcr' : cr' ∈ c.rows) (hls' : ls' ∈ l.rows) (hrs' : rs' ∈ r.rows)
    (hkl' : keyOf l a.lKey ls' = cr'.cell (c.colIdx a.candLKey))
    (hkr' : keyOf r a.rKey rs' = cr'.cell (c.colIdx a.candRKey))
    (hlp' : Present l a.lAttr ls') (hrp' : Present r a.rAttr rs')
    (h1 : (tokensOf tok l a.lAttr ls).length = (tokensOf tok l a.lAttr ls').length)
    (h2 : (tokensOf tok r a.rAttr rs).length = (tokensOf tok r a.rAttr rs').length) :
    cr ∈ fr.rows ↔ cr' ∈ fr.rows :=
  candset_size_counts_only f tok tok a a cpu cpu c l r fr c l r fr hval hval hres hres cr ls rs hcr hls hrs hkl hkr hlp hrp
    cr' ls' rs' hcr' hls' hrs' hkl' hkr' hlp' hrp' h1 h2

section Returned
variable (a : CandsetArgs) (cpu : Int) (c l r fr : Frame) (hval : EntryFilters.CandsetValid a c l r)
  (cr ls rs : Row) (hcr : cr ∈ c.rows) (hls : ls ∈ l.rows) (hrs : rs ∈ r.rows)
  (hkl : keyOf l a.lKey ls = cr.cell (c.colIdx a.candLKey)) (hkr : keyOf r a.rKey rs = cr.cell (c.colIdx a.candRKey))
  (hlp : Present l a.lAttr ls) (hrp : Present r a.rAttr rs)
include hval hcr hls hrs hkl hkr hlp hrp

/-- SizeFilter.filter_candset keeps a candidate row (present values, not both without tokens) iff the right token count
    lies in the size window `[lower |A|, upper |A|]` computed from the left token count -/
theorem candset_size_exact (f : FilterObj) (tok : String → List Tok)
    (hres : filterCandset a (filterPairPy .size f tok) cpu = .ok fr)
    (hne : ¬ ((tokensOf tok l a.lAttr ls).length = 0 ∧ (tokensOf tok r a.rAttr rs).length = 0)) :
    cr ∈ fr.rows ↔
      (f.cfg.lower (tokensOf tok l a.lAttr ls).length ≤ ((tokensOf tok r a.rAttr rs).length : Int) ∧
        ((tokensOf tok r a.rAttr rs).length : Int) ≤ f.cfg.upper (tokensOf tok l a.lAttr ls).length) :=
  (EntryFilters.filterCandset_mem_iff_filter .size f tok a cpu c l r fr hval hres cr ls rs hcr hls hrs hkl hkr).trans
    (size_pair_exact f tok _ _ hlp hrp hne)

/-! ## SizeFilter is tight -/

/-- JACCARD: both referenced values have tokens and `min(n,k)/max(n,k) < thr − 1e-4` ⇒ the candidate row is dropped -/
theorem candset_size_tight_jaccard (thr : Rat) (ht : ThrOK thr) (f : FilterObj) (tok : String → List Tok)
    (hsm : ∀ s, (tok s).length < 2 ^ 32)
    (hres : filterCandset a (filterPairPy .size f tok) cpu = .ok fr)
    (hmeas : f.cfg.measure = .jaccard) (hthr : f.cfg.threshold = .float thr)
    (hA : 1 ≤ (tokensOf tok l a.lAttr ls).length) (hB : 1 ≤ (tokensOf tok r a.rAttr rs).length)
    (h : ((min (tokensOf tok l a.lAttr ls).length (tokensOf tok r a.rAttr rs).length : Nat) : Rat) /
         ((max (tokensOf tok l a.lAttr ls).length (tokensOf tok r a.rAttr rs).length : Nat) : Rat) < thr - 1 / 10000) :
    cr ∉ fr.rows := by
  rw [EntryFilters.filterCandset_mem_iff_filter .size f tok a cpu c l r fr hval hres cr ls rs hcr hls hrs hkl hkr,
    size_tight_jaccard thr ht f tok hsm _ _ hlp hrp hmeas hthr hA hB h]
  simp

/-- DICE: both referenced values have tokens and `2·min(n,k)/(n+k) < thr − 1e-4` ⇒ the candidate row is dropped -/
theorem candset_size_tight_dice (thr : Rat) (ht : ThrOK thr) (f : FilterObj) (tok : String → List Tok)
    (hsm : ∀ s, (tok s).length < 2 ^ 32)
    (hres : filterCandset a (filterPairPy .size f tok) cpu = .ok fr)
    (hmeas : f.cfg.measure = .dice) (hthr : f.cfg.threshold = .float thr)
    (hA : 1 ≤ (tokensOf tok l a.lAttr ls).length) (hB : 1 ≤ (tokensOf tok r a.rAttr rs).length)
    (h : (2 * (min (tokensOf tok l a.lAttr ls).length (tokensOf tok r a.rAttr rs).length : Nat) : Rat) /
         (((tokensOf tok l a.lAttr ls).length : Rat) + (tokensOf tok r a.rAttr rs).length) < thr - 1 / 10000) :
    cr ∉ fr.rows := by
  rw [EntryFilters.filterCandset_mem_iff_filter .size f tok a cpu c l r fr hval hres cr ls rs hcr hls hrs hkl hkr,
    size_tight_dice thr ht f tok hsm _ _ hlp hrp hmeas hthr hA hB h]
  simp

/-- COSINE: both referenced values have tokens and `min(n,k)/max(n,k) < (thr − 1e-4)²` with `thr > 1e-4` ⇒ the candidate
    row is dropped -/
theorem candset_size_tight_cosine (thr : Rat) (ht : ThrOK thr) (f : FilterObj) (tok : String → List Tok)
    (hsm : ∀ s, (tok s).length < 2 ^ 32)
    (hres : filterCandset a (filterPairPy .size f tok) cpu = .ok fr)
    (hmeas : f.cfg.measure = .cosine) (hthr : f.cfg.threshold = .float thr) (h4 : 1 / 10000 < thr)
    (hA : 1 ≤ (tokensOf tok l a.lAttr ls).length) (hB : 1 ≤ (tokensOf tok r a.rAttr rs).length)
    (h : ((min (tokensOf tok l a.lAttr ls).length (tokensOf tok r a.rAttr rs).length : Nat) : Rat) /
         ((max (tokensOf tok l a.lAttr ls).length (tokensOf tok r a.rAttr rs).length : Nat) : Rat)
          < (thr - 1 / 10000) ^ 2) :
    cr ∉ fr.rows := by
  rw [EntryFilters.filterCandset_mem_iff_filter .size f tok a cpu c l r fr hval hres cr ls rs hcr hls hrs hkl hkr,
    size_tight_cosine thr ht f tok hsm _ _ hlp hrp hmeas hthr h4 hA hB h]
  simp

/-- JACCARD / COSINE / DICE: the LEFT referenced value has no tokens, the right one has (similarity 0) ⇒ dropped -/
theorem candset_size_tight_left_empty (thr : Rat) (ht : ThrOK thr) (f : FilterObj) (tok : String → List Tok)
    (hsm : ∀ s, (tok s).length < 2 ^ 32)
    (hres : filterCandset a (filterPairPy .size f tok) cpu = .ok fr)
    (m : Measure) (hm : SetMeasure m) (hmeas : f.cfg.measure = m) (hthr : f.cfg.threshold = .float thr)
    (hA : (tokensOf tok l a.lAttr ls).length = 0) (hB : 1 ≤ (tokensOf tok r a.rAttr rs).length) :
    cr ∉ fr.rows := by
  rw [EntryFilters.filterCandset_mem_iff_filter .size f tok a cpu c l r fr hval hres cr ls rs hcr hls hrs hkl hkr,
    size_tight_left_empty thr ht f tok hsm _ _ hlp hrp m hm hmeas hthr hA hB]
  simp

/-- JACCARD / COSINE / DICE: the RIGHT referenced value has no tokens, the left one has ⇒ dropped — for thresholds
    `≥ prefThr m` (see the header of C14.lean) -/
theorem candset_size_tight_right_empty (thr : Rat) (ht : ThrOK thr) (f : FilterObj) (tok : String → List Tok)
    (hsm : ∀ s, (tok s).length < 2 ^ 32)
    (hres : filterCandset a (filterPairPy .size f tok) cpu = .ok fr)
    (m : Measure) (hm : SetMeasure m) (hmeas : f.cfg.measure = m) (hthr : f.cfg.threshold = .float thr)
    (h4 : prefThr m ≤ thr)
    (hA : 1 ≤ (tokensOf tok l a.lAttr ls).length) (hB : (tokensOf tok r a.rAttr rs).length = 0) :
    cr ∉ fr.rows := by
  rw [EntryFilters.filterCandset_mem_iff_filter .size f tok a cpu c l r fr hval hres cr ls rs hcr hls hrs hkl hkr,
    size_tight_right_empty thr ht f tok hsm _ _ hlp hrp m hm hmeas hthr h4 hA hB]
  simp

/-- EDIT_DISTANCE (int threshold τ): token counts differing by more than τ ⇒ SizeFilter.filter_candset drops the row -/
theorem candset_size_tight_ed (f : FilterObj) (tau : Int) (hm : f.cfg.measure = .editDistance)
    (hthr : f.cfg.threshold = .int tau) (tok : String → List Tok)
    (hres : filterCandset a (filterPairPy .size f tok) cpu = .ok fr)
    (hne : ¬ ((tokensOf tok l a.lAttr ls).length = 0 ∧ (tokensOf tok r a.rAttr rs).length = 0))
    (h : tau < ((tokensOf tok l a.lAttr ls).length : Int) - (tokensOf tok r a.rAttr rs).length ∨
         tau < ((tokensOf tok r a.rAttr rs).length : Int) - (tokensOf tok l a.lAttr ls).length) :
    cr ∉ fr.rows := by
  rw [EntryFilters.filterCandset_mem_iff_filter .size f tok a cpu c l r fr hval hres cr ls rs hcr hls hrs hkl hkr,
    size_tight_ed f tau hm hthr tok _ _ hlp hrp hne h]
  simp

/-! ## no common token ⇒ not kept (unless both values have no tokens) -/

/-- a candidate row kept by PrefixFilter.filter_candset references two present values with a token in common, unless
    both have no tokens; any measure, threshold, tokenizer -/
theorem candset_no_common_token_prefix (f : FilterObj) (tok : String → List Tok)
    (hres : filterCandset a (filterPairPy .prefix f tok) cpu = .ok fr)
    (hne : ¬ ((tokensOf tok l a.lAttr ls).length = 0 ∧ (tokensOf tok r a.rAttr rs).length = 0))
    (h : cr ∈ fr.rows) : ∃ w, w ∈ tokensOf tok l a.lAttr ls ∧ w ∈ tokensOf tok r a.rAttr rs :=
  no_common_token_prefix f tok _ _ hlp hrp hne
    ((EntryFilters.filterCandset_mem_iff_filter .prefix f tok a cpu c l r fr hval hres cr ls rs hcr hls hrs hkl hkr).1 h)

/-- the same for PositionFilter.filter_candset -/
theorem candset_no_common_token_position (f : FilterObj) (tok : String → List Tok)
    (hres : filterCandset a (filterPairPy .position f tok) cpu = .ok fr)
    (hne : ¬ ((tokensOf tok l a.lAttr ls).length = 0 ∧ (tokensOf tok r a.rAttr rs).length = 0))
    (h : cr ∈ fr.rows) : ∃ w, w ∈ tokensOf tok l a.lAttr ls ∧ w ∈ tokensOf tok r a.rAttr rs :=
  no_common_token_position f tok _ _ hlp hrp hne
    ((EntryFilters.filterCandset_mem_iff_filter .position f tok a cpu c l r fr hval hres cr ls rs hcr hls hrs hkl hkr).1 h)

/-- OverlapFilter (overlap size an int `k ≥ 1`, operator `>=`, `>` or `=`): a candidate row kept by filter_candset
    references two present values with at least `k ≥ 1` tokens in common — in particular OverlapFilter.filter_candset
    never keeps a pair without a common token, not even two values without tokens -/
theorem candset_overlap_filter_kept_common (f : OverlapFilterObj) (k : Int) (hk : f.overlapSize = .int k) (hk1 : 1 ≤ k)
    (hop : f.compOp = ">=" ∨ f.compOp = ">" ∨ f.compOp = "=") (tok : String → List Tok)
    (hres : filterCandset a (overlapFilterPairPy f tok) cpu = .ok fr) (h : cr ∈ fr.rows) :
    k ≤ (interCount (tokensOf tok l a.lAttr ls) (tokensOf tok r a.rAttr rs) : Int) ∧
      1 ≤ interCount (tokensOf tok l a.lAttr ls) (tokensOf tok r a.rAttr rs) :=
  overlap_filter_kept_common f k hk hk1 hop tok _ _ hlp hrp
    ((EntryFilters.filterCandset_mem_iff_overlap f tok a cpu c l r fr hval hres cr ls rs hcr hls hrs hkl hkr).1 h)

end Returned

/-! ## non-vacuity: the two small tables of SSJ/Proofs/EntryFilters.lean ("x" ↦ {a,b}, "y" ↦ {a,c}, "z" ↦ {c,d,e,f}) and a
    candidate set of two rows referencing the pairs ("x","y") and ("x","z"); `n_jobs = 2` -/
section NonVacuity
open EntryFilters.Ex

def pruneC : Frame := { columns := ["_id", "l_id", "r_id"], index := [.int 0, .int 1],
                        rows := [[.int 0, .int 1, .int 7], [.int 1, .int 1, .int 9]] }
def pruneArgs : CandsetArgs :=
  { candset := some pruneC, candLKey := "l_id", candRKey := "r_id", ltable := some exL, rtable := some exR,
    lKey := "id", rKey := "id", lAttr := "name", rAttr := "name", nJobs := 2 }

theorem pruneArgs_valid : EntryFilters.CandsetValid pruneArgs pruneC exL exR :=
  ⟨rfl, rfl, rfl, by decide, by decide, by decide, by decide, by decide, by decide, by decide, by decide, by decide,
    by decide, by decide, by decide⟩

/-- JACCARD, threshold 0.75: "x" has 2 tokens, "z" has 4, best attainable similarity 2/4 < 0.75 − 1e-4 — SizeFilter's
    `filter_candset` returns and drops the candidate row (1, 1, 9) -/
example : ∃ fr, filterCandset pruneArgs (filterPairPy .size { cfg := cfgOf .jaccard (3 / 4) } exTok) 4 = .ok fr ∧
    [Cell.int 1, .int 1, .int 9] ∉ fr.rows := by
  obtain ⟨fr, hfr, -, -⟩ := EntryFilters.filterCandset_keeps pruneArgs _ _ 4 pruneC exL exR pruneArgs_valid
    (filterPairPy_columns .size { cfg := cfgOf .jaccard (3 / 4) } exTok exL exR "name" "name" (by decide) (by decide))
  refine ⟨fr, hfr, candset_size_tight_jaccard pruneArgs 4 pruneC exL exR fr pruneArgs_valid _
    [.int 1, .str "x"] [.int 9, .str "z"] (by decide) (by decide) (by decide) (by decide) (by decide)
    (by unfold Present; decide) (by unfold Present; decide) (3 / 4) ⟨by norm_num, by norm_num⟩ _ exTok exTok_small hfr
    rfl rfl (by decide) (by decide) ?_⟩
  have e1 : (tokensOf exTok exL pruneArgs.lAttr [.int 1, .str "x"]).length = 2 := by decide
  have e2 : (tokensOf exTok exR pruneArgs.rAttr [.int 9, .str "z"]).length = 4 := by decide
  rw [e1, e2]; norm_num

/-- "x" ↦ {a,b} and "z" ↦ {c,d,e,f} have no token in common: PrefixFilter's `filter_candset` (JACCARD 0.25) returns and
    does not keep the candidate row (1, 1, 9) -/
example : ∃ fr, filterCandset pruneArgs (filterPairPy .prefix { cfg := cfgOf .jaccard (1 / 4) } exTok) 4 = .ok fr ∧
    [Cell.int 1, .int 1, .int 9] ∉ fr.rows := by
  obtain ⟨fr, hfr, -, -⟩ := EntryFilters.filterCandset_keeps pruneArgs _ _ 4 pruneC exL exR pruneArgs_valid
    (filterPairPy_columns .prefix { cfg := cfgOf .jaccard (1 / 4) } exTok exL exR "name" "name" (by decide) (by decide))
  refine ⟨fr, hfr, fun h => ?_⟩
  obtain ⟨w, h1, h2⟩ := candset_no_common_token_prefix pruneArgs 4 pruneC exL exR fr pruneArgs_valid _
    [.int 1, .str "x"] [.int 9, .str "z"] (by decide) (by decide) (by decide) (by decide) (by decide)
    (by unfold Present; decide) (by unfold Present; decide) _ exTok hfr (by decide) h
  revert h1 h2
  have e1 : tokensOf exTok exL pruneArgs.lAttr [.int 1, .str "x"] = ["a", "b"] := by decide
  have e2 : tokensOf exTok exR pruneArgs.rAttr [.int 9, .str "z"] = ["c", "d", "e", "f"] := by decide
  rw [e1, e2]
  simp only [List.mem_cons, List.not_mem_nil, or_false]
  rintro (rfl | rfl) <;> decide

/-- another tokenizer with the same token COUNTS on "x" and "y" but different tokens ("x" ↦ {p,q}, "y" ↦ {r,s}: no
    common token) -/
def exTok' : String → List Tok := fun s => if s = "x" then ["p", "q"] else if s = "y" then ["r", "s"] else []

/-- SizeFilter (JACCARD 0.75) called on the same candidate set with the two tokenizers: the candidate row (0, 1, 7) gets
    the same verdict in both calls, because the referenced values have the same token counts (2 and 2) -/
example : ∃ fr fr', filterCandset pruneArgs (filterPairPy .size { cfg := cfgOf .jaccard (3 / 4) } exTok) 4 = .ok fr ∧
    filterCandset pruneArgs (filterPairPy .size { cfg := cfgOf .jaccard (3 / 4) } exTok') 1 = .ok fr' ∧
    ([Cell.int 0, .int 1, .int 7] ∈ fr.rows ↔ [Cell.int 0, .int 1, .int 7] ∈ fr'.rows) := by
  obtain ⟨fr, hfr, -, -⟩ := EntryFilters.filterCandset_keeps pruneArgs _ _ 4 pruneC exL exR pruneArgs_valid
    (filterPairPy_columns .size { cfg := cfgOf .jaccard (3 / 4) } exTok exL exR "name" "name" (by decide) (by decide))
  obtain ⟨fr', hfr', -, -⟩ := EntryFilters.filterCandset_keeps pruneArgs _ _ 1 pruneC exL exR pruneArgs_valid
    (filterPairPy_columns .size { cfg := cfgOf .jaccard (3 / 4) } exTok' exL exR "name" "name" (by decide) (by decide))
  exact ⟨fr, fr', hfr, hfr', candset_size_counts_only _ exTok exTok' pruneArgs pruneArgs 4 1 pruneC exL exR fr
    pruneC exL exR fr' pruneArgs_valid pruneArgs_valid hfr hfr' _
    [.int 1, .str "x"] [.int 7, .str "y"] (by decide) (by decide) (by decide) (by decide) (by decide)
    (by unfold Present; decide) (by unfold Present; decide) _ [.int 1, .str "x"] [.int 7, .str "y"] (by decide) (by decide)
    (by decide) (by decide) (by decide) (by unfold Present; decide) (by unfold Present; decide) (by decide) (by decide)⟩

end NonVacuity

/-- info: 'SSJ.Props.C14.candset_size_counts_only' depends on axioms: [propext, Classical.choice, Quot.sound] -/
#guard_msgs in #print axioms candset_size_counts_only
/-- info: 'SSJ.Props.C14.candset_size_counts_only_same' depends on axioms: [propext, Classical.choice, Quot.sound] -/
#guard_msgs in #print axioms candset_size_counts_only_same
/-- info: 'SSJ.Props.C14.candset_size_exact' depends on axioms: [propext, Classical.choice, Quot.sound] -/
#guard_msgs in #print axioms candset_size_exact
/-- info: 'SSJ.Props.C14.candset_size_tight_jaccard' depends on axioms: [propext, Classical.choice, Quot.sound] -/
#guard_msgs in #print axioms candset_size_tight_jaccard
/-- info: 'SSJ.Props.C14.candset_size_tight_dice' depends on axioms: [propext, Classical.choice, Quot.sound] -/
#guard_msgs in #print axioms candset_size_tight_dice
/-- info: 'SSJ.Props.C14.candset_size_tight_cosine' depends on axioms: [propext, Classical.choice, Quot.sound] -/
#guard_msgs in #print axioms candset_size_tight_cosine
/-- info: 'SSJ.Props.C14.candset_size_tight_left_empty' depends on axioms: [propext, Classical.choice, Quot.sound] -/
#guard_msgs in #print axioms candset_size_tight_left_empty
/-- info: 'SSJ.Props.C14.candset_size_tight_right_empty' depends on axioms: [propext, Classical.choice, Quot.sound] -/
#guard_msgs in #print axioms candset_size_tight_right_empty
/-- info: 'SSJ.Props.C14.candset_size_tight_ed' depends on axioms: [propext, Classical.choice, Quot.sound] -/
#guard_msgs in #print axioms candset_size_tight_ed
/-- info: 'SSJ.Props.C14.candset_no_common_token_prefix' depends on axioms: [propext, Classical.choice, Quot.sound] -/
#guard_msgs in #print axioms candset_no_common_token_prefix
/-- info: 'SSJ.Props.C14.candset_no_common_token_position' depends on axioms: [propext, Classical.choice, Quot.sound] -/
#guard_msgs in #print axioms candset_no_common_token_position
/-- info: 'SSJ.Props.C14.candset_overlap_filter_kept_common' depends on axioms: [propext, Classical.choice, Quot.sound] -/
#guard_msgs in #print axioms candset_overlap_filter_kept_common

end SSJ.Props.C14

/-
  C15 (companion: the BODY of the calls) — valid arguments are not enough: two things the argument validations do not
  look at make the real code raise AFTER they have passed, and the model raises with it.

  (a) `_id` CLASH.  Every join (`*_join_py`) and every `filter_tables` ends with
        output_table.insert(0, '_id', range(0, len(output_table)))
      and pandas raises `ValueError: cannot insert _id, already exists` iff the output header — prefixed key columns,
      prefixed output attributes, `_sim_score` — already has a column named `_id` (e.g. `l_out_prefix='_'` with key
      attribute `id`); other duplicate labels are accepted.  The exception comes at the very end, after all work.
      Model: `finishPy` (SSJ/Model/Frame.lean) returns `.error .other` (the harness maps ValueError to `Other`).
  (b) NON-STRING JOIN VALUE.  A present (non-missing) join / filter value that is not a Python `str` (an int, float,
      bool, bytes, tuple … inside an object column) makes `tokenizer.tokenize` raise
      `TypeError: Input is expected to be a string`.  In every table-level entry point this happens whenever at least one
      present join cell of EITHER table is not a string — also when the other table is empty — and before any output is
      assembled.  Model: the check `joinCellsOk` at the top of `runTables`; (b) takes precedence over (a).
      Pair / candset level: `filter_pair(l, r)` raises iff both values are present (for the OverlapFilter: present and
      truthy — it returns early on `not lstring or not rstring`) and one is not a string (`filterPairPy`,
      `overlapFilterPairPy`); `filter_candset` raises at the first candidate row whose referenced pair makes
      `filter_pair` raise; `apply_matcher` tokenizes only when a tokenizer is given: with the token cache
      (`len(ltable)+len(rtable) < 2·len(candset)`) `generate_tokens` tokenizes EVERY present value of the two columns,
      without it only the referenced values (`applyMatcherSplit`, SSJ/Model/Matcher.lean).

  TOKENIZER FLAG when the body raises: RESTORED.  Every `*_join_py` switches the tokenizer's `return_set` flag inside
  `try: … finally: tokenizer.set_return_set(revert)` (model: `withFlag`), so when the body raises — TypeError of (b),
  ValueError of (a), or anything else — the exception propagates and the (possibly shared) tokenizer is handed back
  in the mode the caller left it in: `flagAfter = t.returnSet` for all six joins.  `filter_tables` never touches the
  flag (its result is a bare `Except`, there is no flag to report).

  VOCABULARY (SSJ/Props/Common.lean): `StrColumn f attr` — every value of the column is missing or a `str`;
  `NoIdClash header` — `"_id" ∉ header`; `outHeader a oss` — the header the call assembles (without `_id`);
  `BodyOK a l r oss` — the three together.  `TableCall call a l r oss` (Proofs/EntryGeneric.lean): `call am nj cpu` is
  one of the six table-level entry points on arguments that pass its validations.

  WHAT IS PROVED.
    `body_returns_iff`                     every entry point returns a frame IFF `BodyOK`;
    `nonstring_join_value_raises`          ¬(both columns string) ⇒ TypeError, every entry point, every
                                           `allow_missing` / `n_jobs` / cpu count;  `…_set_sim`, `…_overlap_coefficient`,
                                           `…_edit_distance`, `…_overlap_join`: the same, and the flag is restored;
    `id_clash_raises` (+ the four `…_<join>` forms)   string columns, `_id` in the header ⇒ ValueError (`.other`);
    `filter_pair_*`, `overlap_filter_pair_*`          `filter_pair` as a Python call;
    `filter_candset_nonstring_raises`      `filter_candset` of the four filters: TypeError when a candidate row
                                           references two present values one of which is not a string;
    `apply_matcher_nonstring_raises`       `apply_matcher`, tokenizer given, token cache built: TypeError for a present
                                           non-string ANYWHERE in the two columns;
    `apply_matcher_nocache_nonstring_raises`  `apply_matcher`, tokenizer given, NO token cache, every candidate key
                                           known: TypeError when a candidate row references two present values one of
                                           which is not a string (unreferenced values are never tokenized there);
    `apply_matcher_without_tokenizer_any_values`  without a tokenizer nothing is tokenized: no condition on the values.
  The ACCEPTANCE theorems about `apply_matcher` (C05 / C08 / C10 / C11_candset / C15) assume the simple sufficient
  condition "both match columns are string columns when a tokenizer is given" (`hstr`); it is necessary on the cache
  path (`apply_matcher_nonstring_raises`) but not on the no-cache path, where an unreferenced non-string is harmless —
  that finer case is implemented by the model (`applyMatcherSplit`) and checked by the harness, not stated as an iff.
  When BOTH an unknown key (KeyError) and a referenced non-string occur without the cache, the exception of the FIRST
  offending candidate row in candset order wins (model: `mapM` in `Except`); no theorem here says which.
-/
import SSJ.Proofs.EntryBody
import SSJ.Proofs.EntryMatcher
import SSJ.Props.Common

namespace SSJ.Props.C15
open SSJ SSJ.Props

variable {call : Bool → Int → Int → Except PyErr Frame} {a : TableArgs} {l r : Frame} {oss : Bool}

/-! ## table level: all six entry points at once -/

/-- A join / `filter_tables` call whose arguments pass the validations returns a DataFrame IF AND ONLY IF both join
    columns hold only strings and missing values and the output header has no `_id` column — for every
    `allow_missing`, `n_jobs` and cpu count. -/
theorem body_returns_iff (h : TableCall call a l r oss) (am : Bool) (nj cpu : Int) :
    (∃ fr, call am nj cpu = .ok fr) ↔ BodyOK a l r oss :=
  h.returns_iff am nj cpu

/-- (b) A present join value that is not a string, in either table: TypeError — whatever the other table holds
    (it may be empty), whether or not the header clashes, for every `allow_missing`, `n_jobs`, cpu count. -/
theorem nonstring_join_value_raises (h : TableCall call a l r oss)
    (hns : ¬ (StrColumn l a.lAttr ∧ StrColumn r a.rAttr)) (am : Bool) (nj cpu : Int) :
    call am nj cpu = .error .typeErr :=
  h.typeErr hns am nj cpu

/-- (a) String join columns, but the output header already contains `_id`: ValueError (`PyErr.other`). -/
theorem id_clash_raises (h : TableCall call a l r oss) (hsl : StrColumn l a.lAttr) (hsr : StrColumn r a.rAttr)
    (hc : ¬ NoIdClash (outHeader a oss)) (am : Bool) (nj cpu : Int) :
    call am nj cpu = .error .other :=
  h.idClash hsl hsr hc am nj cpu

/-- what "not a string column" means: some row holds a value that is neither missing nor a `str` -/
theorem not_strColumn_iff (f : Frame) (attr : String) :
    ¬ StrColumn f attr ↔ ∃ srow ∈ f.rows, (valOf f attr srow).strOrMissing = false := by
  unfold StrColumn
  constructor
  · intro h
    by_contra hc
    exact h (fun s hs => by
      by_contra hn
      exact hc ⟨s, hs, Bool.eq_false_iff.2 hn⟩)
  · rintro ⟨s, hs, hv⟩ h
    rw [h s hs] at hv
    cases hv

/-- when the header clashes, in terms of the call's arguments: a prefixed key or a prefixed output attribute is `_id` -/
theorem noIdClash_iff (a : TableArgs) (oss : Bool) :
    NoIdClash (outHeader a oss) ↔
      a.lPre ++ a.lKey ≠ "_id" ∧ a.rPre ++ a.rKey ≠ "_id" ∧
      (∀ c ∈ (removeRedundantAttrs a.lOut a.lKey).getD [], a.lPre ++ c ≠ "_id") ∧
      (∀ c ∈ (removeRedundantAttrs a.rOut a.rKey).getD [], a.rPre ++ c ≠ "_id") := by
  unfold NoIdClash outHeader getOutputHeader
  have hs : "_id" ∉ (if oss then ["_sim_score"] else []) := by cases oss <;> decide
  simp only [List.mem_append, List.mem_cons, List.mem_map, List.not_mem_nil, or_false, not_or, hs, not_false_eq_true,
    and_true, not_exists, not_and]
  constructor
  · rintro ⟨⟨⟨h1, h2⟩, h3⟩, h4⟩
    exact ⟨fun e => h1 e.symm, fun e => h2 e.symm, fun c hc e => h3 c hc e, fun c hc e => h4 c hc e⟩
  · rintro ⟨h1, h2, h3, h4⟩
    exact ⟨⟨⟨fun e => h1 e.symm, fun e => h2 e.symm⟩, fun c hc e => h3 c hc e⟩, fun c hc e => h4 c hc e⟩

/-! ## the joins: the exception, and the tokenizer flag (restored by `try … finally`) -/

/-- jaccard / cosine / dice join: TypeError, and the (shared) tokenizer's flag is restored -/
theorem nonstring_join_value_raises_set_sim (m : Measure) (j : JoinArgs) (t : TokObj) (toks : TokFn) (cpu : Int)
    (l r : Frame) (hv : validateJoin m.name j t = .ok (l, r)) (hns : ¬ (StrColumn l j.lAttr ∧ StrColumn r j.rAttr)) :
    (setSimJoinPy m j t toks cpu).result = .error .typeErr ∧ (setSimJoinPy m j t toks cpu).flagAfter = t.returnSet := by
  have h := (TableCall.setSim m j t toks l r hv).typeErr hns j.allowMissing j.nJobs cpu
  exact ⟨h, setSimJoinPy_body_error m j t toks cpu⟩

/-- overlap-coefficient join: TypeError, tokenizer flag restored -/
theorem nonstring_join_value_raises_overlap_coefficient (j : JoinArgs) (t : TokObj) (toks : TokFn) (cpu : Int)
    (l r : Frame) (hv : validateJoin "OVERLAP_COEFFICIENT" j t = .ok (l, r))
    (hns : ¬ (StrColumn l j.lAttr ∧ StrColumn r j.rAttr)) :
    (overlapCoefficientJoinPy j t toks cpu).result = .error .typeErr ∧
      (overlapCoefficientJoinPy j t toks cpu).flagAfter = t.returnSet := by
  have h := (TableCall.ovc j t toks l r hv).typeErr hns j.allowMissing j.nJobs cpu
  exact ⟨h, overlapCoefficientJoinPy_body_error j t toks cpu⟩

/-- edit-distance join (finite threshold): TypeError, tokenizer flag restored -/
theorem nonstring_join_value_raises_edit_distance (j : JoinArgs) (t : TokObj) (toks : TokFn) (cpu : Int)
    (l r : Frame) (hv : validateJoin "EDIT_DISTANCE" j t = .ok (l, r)) (hthr : FiniteNum j.threshold)
    (hns : ¬ (StrColumn l j.lAttr ∧ StrColumn r j.rAttr)) :
    (editDistanceJoinPy j t toks cpu).result = .error .typeErr ∧ (editDistanceJoinPy j t toks cpu).flagAfter = t.returnSet := by
  have h := (TableCall.ed j t toks l r hv hthr).typeErr hns j.allowMissing j.nJobs cpu
  exact ⟨h, editDistanceJoinPy_body_error j t toks cpu⟩

/-- overlap join: TypeError, tokenizer flag restored -/
theorem nonstring_join_value_raises_overlap_join (j : JoinArgs) (t : TokObj) (toks : TokFn) (cpu : Int)
    (l r : Frame) (f : OverlapFilterObj) (hf : mkOverlapFilter j.threshold j.compOp j.allowMissing t = .ok f)
    (hv : validateTablesAttrs j.toTableArgs = .ok (l, r)) (hk : validateOutAndKeys j.toTableArgs l r = .ok ())
    (hns : ¬ (StrColumn l j.lAttr ∧ StrColumn r j.rAttr)) :
    (overlapJoinPy j t toks cpu).result = .error .typeErr ∧ (overlapJoinPy j t toks cpu).flagAfter = t.returnSet :=
  ⟨(TableCall.overlapJoin j t toks l r f hf hv hk).typeErr hns j.allowMissing j.nJobs cpu, rfl⟩

/-- `filter_tables` of the four filters: TypeError (no tokenizer flag is touched: the result is a bare `Except`) -/
theorem nonstring_join_value_raises_filter_tables (k : FilterKind) (f : FilterObj) (a : TableArgs) (t : TokObj)
    (toks : TokFn) (cpu : Int) (l r : Frame)
    (hv : validateTablesAttrs a = .ok (l, r)) (hk : validateOutAndKeys a l r = .ok ())
    (hns : ¬ (StrColumn l a.lAttr ∧ StrColumn r a.rAttr)) :
    filterTables k f a t toks cpu = .error .typeErr :=
  (TableCall.filterTables k f a t toks l r hv hk).typeErr hns f.allowMissing a.nJobs cpu

/-- `OverlapFilter.filter_tables`: TypeError -/
theorem nonstring_join_value_raises_overlap_filter_tables (f : OverlapFilterObj) (a : TableArgs) (oss : Bool)
    (tok : String → List Tok) (cpu : Int) (l r : Frame)
    (hv : validateTablesAttrs a = .ok (l, r)) (hk : validateOutAndKeys a l r = .ok ())
    (hns : ¬ (StrColumn l a.lAttr ∧ StrColumn r a.rAttr)) :
    overlapFilterTables f a oss tok cpu = .error .typeErr :=
  (TableCall.overlapFilterTables f a oss tok l r hv hk).typeErr hns f.allowMissing a.nJobs cpu

/-- jaccard / cosine / dice join with an `_id` clash: ValueError at the very end, tokenizer flag restored -/
theorem id_clash_raises_set_sim (m : Measure) (j : JoinArgs) (t : TokObj) (toks : TokFn) (cpu : Int)
    (l r : Frame) (hv : validateJoin m.name j t = .ok (l, r))
    (hsl : StrColumn l j.lAttr) (hsr : StrColumn r j.rAttr) (hc : ¬ NoIdClash (outHeader j.toTableArgs j.outSimScore)) :
    (setSimJoinPy m j t toks cpu).result = .error .other ∧ (setSimJoinPy m j t toks cpu).flagAfter = t.returnSet := by
  have h := (TableCall.setSim m j t toks l r hv).idClash hsl hsr hc j.allowMissing j.nJobs cpu
  exact ⟨h, setSimJoinPy_body_error m j t toks cpu⟩

/-- overlap-coefficient join with an `_id` clash: ValueError, tokenizer flag restored -/
theorem id_clash_raises_overlap_coefficient (j : JoinArgs) (t : TokObj) (toks : TokFn) (cpu : Int)
    (l r : Frame) (hv : validateJoin "OVERLAP_COEFFICIENT" j t = .ok (l, r))
    (hsl : StrColumn l j.lAttr) (hsr : StrColumn r j.rAttr) (hc : ¬ NoIdClash (outHeader j.toTableArgs j.outSimScore)) :
    (overlapCoefficientJoinPy j t toks cpu).result = .error .other ∧
      (overlapCoefficientJoinPy j t toks cpu).flagAfter = t.returnSet := by
  have h := (TableCall.ovc j t toks l r hv).idClash hsl hsr hc j.allowMissing j.nJobs cpu
  exact ⟨h, overlapCoefficientJoinPy_body_error j t toks cpu⟩

/-- edit-distance join with an `_id` clash: ValueError, tokenizer flag restored -/
theorem id_clash_raises_edit_distance (j : JoinArgs) (t : TokObj) (toks : TokFn) (cpu : Int)
    (l r : Frame) (hv : validateJoin "EDIT_DISTANCE" j t = .ok (l, r)) (hthr : FiniteNum j.threshold)
    (hsl : StrColumn l j.lAttr) (hsr : StrColumn r j.rAttr) (hc : ¬ NoIdClash (outHeader j.toTableArgs j.outSimScore)) :
    (editDistanceJoinPy j t toks cpu).result = .error .other ∧ (editDistanceJoinPy j t toks cpu).flagAfter = t.returnSet := by
  have h := (TableCall.ed j t toks l r hv hthr).idClash hsl hsr hc j.allowMissing j.nJobs cpu
  exact ⟨h, editDistanceJoinPy_body_error j t toks cpu⟩

/-- overlap join with an `_id` clash: ValueError, tokenizer flag restored -/
theorem id_clash_raises_overlap_join (j : JoinArgs) (t : TokObj) (toks : TokFn) (cpu : Int)
    (l r : Frame) (f : OverlapFilterObj) (hf : mkOverlapFilter j.threshold j.compOp j.allowMissing t = .ok f)
    (hv : validateTablesAttrs j.toTableArgs = .ok (l, r)) (hk : validateOutAndKeys j.toTableArgs l r = .ok ())
    (hsl : StrColumn l j.lAttr) (hsr : StrColumn r j.rAttr) (hc : ¬ NoIdClash (outHeader j.toTableArgs j.outSimScore)) :
    (overlapJoinPy j t toks cpu).result = .error .other ∧ (overlapJoinPy j t toks cpu).flagAfter = t.returnSet :=
  ⟨(TableCall.overlapJoin j t toks l r f hf hv hk).idClash hsl hsr hc j.allowMissing j.nJobs cpu, rfl⟩

/-! ## `filter_pair` -/

/-- `filter_pair` of the Size / Prefix / Position / Suffix filter as a Python call: it raises TypeError iff both values are
    present and one of them is not a string; otherwise it returns what the pure `filterPair` says -/
theorem filter_pair_call (k : FilterKind) (f : FilterObj) (tok : String → List Tok) (x y : Cell) :
    (x.isMissing = false → y.isMissing = false → ¬ (x.isStr = true ∧ y.isStr = true) →
      filterPairPy k f tok x y = .error .typeErr) ∧
    (x.strOrMissing = true → y.strOrMissing = true → filterPairPy k f tok x y = .ok (filterPair k f tok x y)) ∧
    (x.isMissing = true ∨ y.isMissing = true → filterPairPy k f tok x y = .ok (!f.allowMissing)) := by
  refine ⟨filterPairPy_typeErr k f tok x y, filterPairPy_of_str k f tok x y, fun h => ?_⟩
  unfold filterPairPy
  rw [if_neg (by rcases h with h | h <;> simp [h]), SSJ.filterPair_missing k f tok x y h]

/-- `OverlapFilter.filter_pair` as a Python call: it returns before tokenizing when a value is missing or falsy
    (`''`, `0`, `0.0`, `False`), so it raises TypeError iff both values are present and truthy and one is not a string -/
theorem overlap_filter_pair_call (f : OverlapFilterObj) (tok : String → List Tok) (x y : Cell) :
    (x.isMissing = false → y.isMissing = false → x.falsy = false → y.falsy = false →
      ¬ (x.isStr = true ∧ y.isStr = true) → overlapFilterPairPy f tok x y = .error .typeErr) ∧
    (x.strOrMissing = true → y.strOrMissing = true →
      overlapFilterPairPy f tok x y = .ok (overlapFilterPair f tok x y)) ∧
    (x.isMissing = true ∨ y.isMissing = true ∨ x.falsy = true ∨ y.falsy = true →
      overlapFilterPairPy f tok x y = .ok (overlapFilterPair f tok x y)) :=
  ⟨overlapFilterPairPy_typeErr f tok x y, overlapFilterPairPy_of_str f tok x y, overlapFilterPairPy_falsy f tok x y⟩

/-! ## `filter_candset` and `apply_matcher` -/

/-- `filter_candset` of the four filters: valid arguments, every candidate key present in its table (up to Python
    equality: `PyMem`, `Cell.pyEq` — the lookups are Python dict lookups), and a candidate
    row referencing two PRESENT values one of which is not a string: TypeError. -/
theorem filter_candset_nonstring_raises (k : FilterKind) (f : FilterObj) (tok : String → List Tok)
    (a : CandsetArgs) (cpu : Int) (c l r : Frame) (hv : validateCandset a = .ok (c, l, r))
    (hl : ∀ cr ∈ c.rows, PyMem (cr.cell (c.colIdx a.candLKey)) (l.col a.lKey))
    (hr : ∀ cr ∈ c.rows, PyMem (cr.cell (c.colIdx a.candRKey)) (r.col a.rKey))
    (hlen : c.rows.length < 2 ^ 40)
    (cr ls rs : Row) (hcr : cr ∈ c.rows) (hls : ls ∈ l.rows) (hrs : rs ∈ r.rows)
    (hkl : (keyOf l a.lKey ls).pyEq (cr.cell (c.colIdx a.candLKey)) = true)
    (hkr : (keyOf r a.rKey rs).pyEq (cr.cell (c.colIdx a.candRKey)) = true)
    (hpl : Present l a.lAttr ls) (hpr : Present r a.rAttr rs)
    (hns : ¬ ((valOf l a.lAttr ls).isStr = true ∧ (valOf r a.rAttr rs).isStr = true)) :
    filterCandset a (filterPairPy k f tok) cpu = .error .typeErr :=
  filterCandset_raises a _ cpu c l r hv hl hr hlen .typeErr
    (fun x y e' he' => by
      unfold filterPairPy at he'
      split at he'
      · exact (Except.error.inj he').symm
      · cases he')
    ⟨cr, hcr, ls, hls, rs, hrs, hkl, hkr, filterPairPy_typeErr k f tok _ _ hpl hpr hns⟩

/-- `apply_matcher` with a tokenizer, a non-empty candset and the token cache switched on
    (`len(ltable) + len(rtable) < 2·len(candset)`): a present non-string value ANYWHERE in one of the two match columns
    — referenced by the candset or not — makes `generate_tokens` raise TypeError. -/
theorem apply_matcher_nonstring_raises (a : MatcherArgs) (tk : TokObj) (toks : TokFn) (sim : SimArg → SimArg → PyV)
    (cpu : Int) (c l r : Frame) (hv : validateMatcher a (some tk) = .ok (c, l, r))
    (hne : c.rows ≠ []) (hsmall : l.rows.length + r.rows.length < c.rows.length * 2)
    (hns : ¬ (StrColumn l a.lAttr ∧ StrColumn r a.rAttr)) :
    applyMatcher a (some tk) toks sim cpu = .error .typeErr :=
  applyMatcher_cache_typeErr a tk toks sim cpu c l r hv hne hsmall hns

/-- `apply_matcher` with a tokenizer but WITHOUT the token cache (`len(ltable) + len(rtable) ≥ 2·len(candset)`): valid
    arguments, every candidate key present in its table, and a candidate row referencing two PRESENT values one of which
    is not a string ⇒ TypeError. -/
theorem apply_matcher_nocache_nonstring_raises (a : MatcherArgs) (tk : TokObj) (toks : TokFn)
    (sim : SimArg → SimArg → PyV) (cpu : Int) (c l r : Frame) (hv : validateMatcher a (some tk) = .ok (c, l, r))
    (hl : ∀ cr ∈ c.rows, PyMem (cr.cell (c.colIdx a.candLKey)) (l.col a.lKey))
    (hr : ∀ cr ∈ c.rows, PyMem (cr.cell (c.colIdx a.candRKey)) (r.col a.rKey))
    (hlen : c.rows.length < 2 ^ 40)
    (hbig : ¬ (l.rows.length + r.rows.length < c.rows.length * 2))
    (cr ls rs : Row) (hcr : cr ∈ c.rows) (hls : ls ∈ l.rows) (hrs : rs ∈ r.rows)
    (hkl : (keyOf l a.lKey ls).pyEq (cr.cell (c.colIdx a.candLKey)) = true)
    (hkr : (keyOf r a.rKey rs).pyEq (cr.cell (c.colIdx a.candRKey)) = true)
    (hpl : Present l a.lAttr ls) (hpr : Present r a.rAttr rs)
    (hns : ¬ ((valOf l a.lAttr ls).isStr = true ∧ (valOf r a.rAttr rs).isStr = true)) :
    applyMatcher a (some tk) toks sim cpu = .error .typeErr :=
  applyMatcher_nocache_typeErr a tk toks sim cpu c l r hv hl hr hlen hbig
    ⟨cr, hcr, ls, hls, rs, hrs, hkl, hkr, hpl, hpr, hns⟩

/-- `apply_matcher` WITHOUT a tokenizer tokenizes nothing — the raw values go to `sim_function`: valid arguments and
    candidate keys present give a frame whatever the two columns hold. -/
theorem apply_matcher_without_tokenizer_any_values (a : MatcherArgs) (toks : TokFn) (sim : SimArg → SimArg → PyV)
    (cpu : Int) (c l r : Frame) (hv : validateMatcher a none = .ok (c, l, r))
    (hl : ∀ cr ∈ c.rows, PyMem (cr.cell (c.colIdx a.candLKey)) (l.col a.lKey))
    (hr : ∀ cr ∈ c.rows, PyMem (cr.cell (c.colIdx a.candRKey)) (r.col a.rKey))
    (hlen : c.rows.length < 2 ^ 40) :
    ∃ fr, applyMatcher a none toks sim cpu = .ok fr := by
  obtain ⟨fr, h, _⟩ := applyMatcher_rows' a none toks sim cpu c l r hv hl hr hlen (fun h => by cases h)
  exact ⟨fr, h⟩

/-! ## non-vacuity: concrete calls -/
section Examples

/-- an object column holding the int 5 -/
def bxL : Frame := { columns := ["id", "name"], dtypes := ["int64", "object"],
                     rows := [[.int 1, .str "ann lee"], [.int 2, .int 5]] }
def bxR : Frame := { columns := ["id", "name"], dtypes := ["int64", "object"], rows := [[.int 7, .str "ann"]] }
/-- a table without rows -/
def bxEmpty : Frame := { columns := ["id", "name"], dtypes := ["int64", "object"], rows := [] }
def bxTok : TokObj := { isTokenizer := true, returnSet := false }

def bxArgs (l r : Frame) (lPre : String) : JoinArgs :=
  { ltable := some l, rtable := some r, lKey := "id", rKey := "id", lAttr := "name", rAttr := "name",
    threshold := .float (mkRat 1 2), lPre := lPre }

/-- the arguments are VALID … -/
example : validateJoin "JACCARD" (bxArgs bxL bxEmpty "l_") bxTok = .ok (bxL, bxEmpty) := by decide
/-- … the left column is not a string column … -/
example : ¬ (StrColumn bxL "name" ∧ StrColumn bxEmpty "name") := by decide
/-- … so the jaccard join raises TypeError although the right table is empty, and hands the tokenizer back in bag
    mode (as it was), for every tokenization and cpu count -/
example (toks : TokFn) (cpu : Int) :
    (setSimJoinPy .jaccard (bxArgs bxL bxEmpty "l_") bxTok toks cpu).result = .error .typeErr ∧
    (setSimJoinPy .jaccard (bxArgs bxL bxEmpty "l_") bxTok toks cpu).flagAfter = false :=
  nonstring_join_value_raises_set_sim .jaccard _ bxTok toks cpu bxL bxEmpty (by decide) (by decide)

/-- `l_out_prefix = '_'` with key attribute `id`: the header is `["_id", "r_id", "_sim_score"]` — a clash -/
example : outHeader (bxArgs bxR bxR "_").toTableArgs true = ["_id", "r_id", "_sim_score"] := by decide
example : validateJoin "JACCARD" (bxArgs bxR bxR "_") bxTok = .ok (bxR, bxR) := by decide
example (toks : TokFn) (cpu : Int) :
    (setSimJoinPy .jaccard (bxArgs bxR bxR "_") bxTok toks cpu).result = .error .other ∧
    (setSimJoinPy .jaccard (bxArgs bxR bxR "_") bxTok toks cpu).flagAfter = false :=
  id_clash_raises_set_sim .jaccard _ bxTok toks cpu bxR bxR (by decide) (by decide) (by decide) (by decide)
/-- likewise the overlap join -/
example (toks : TokFn) (cpu : Int) :
    (overlapJoinPy { bxArgs bxR bxR "_" with threshold := .int 1 } bxTok toks cpu).result = .error .other ∧
    (overlapJoinPy { bxArgs bxR bxR "_" with threshold := .int 1 } bxTok toks cpu).flagAfter = false :=
  id_clash_raises_overlap_join _ bxTok toks cpu bxR bxR _ rfl (by decide) (by decide) (by decide) (by decide) (by decide)
/-- with the default prefixes the same call returns a frame -/
example (toks : TokFn) (cpu : Int) : ∃ fr, (setSimJoinPy .jaccard (bxArgs bxR bxR "l_") bxTok toks cpu).result = .ok fr :=
  (body_returns_iff (.setSim .jaccard (bxArgs bxR bxR "l_") bxTok toks bxR bxR (by decide)) false 1 cpu).2 (by decide)

/-- `filter_pair(5, 'a')` raises; `filter_pair(None, 5)` does not; `OverlapFilter.filter_pair(0, 'a')` does not -/
example (f : FilterObj) (tok : String → List Tok) : filterPairPy .size f tok (.int 5) (.str "a") = .error .typeErr := rfl
example (f : FilterObj) (tok : String → List Tok) : filterPairPy .size f tok .missing (.int 5) = .ok (!f.allowMissing) :=
  ((filter_pair_call .size f tok .missing (.int 5)).2.2) (Or.inl rfl)
example (f : OverlapFilterObj) (tok : String → List Tok) : overlapFilterPairPy f tok (.int 0) (.str "a") = .ok true := rfl
example (f : OverlapFilterObj) (tok : String → List Tok) :
    overlapFilterPairPy f tok (.int 5) (.str "a") = .error .typeErr := rfl

end Examples

section AxiomCheck
#print axioms body_returns_iff
#print axioms nonstring_join_value_raises
#print axioms id_clash_raises
#print axioms noIdClash_iff
#print axioms not_strColumn_iff
#print axioms nonstring_join_value_raises_set_sim
#print axioms nonstring_join_value_raises_overlap_coefficient
#print axioms nonstring_join_value_raises_edit_distance
#print axioms nonstring_join_value_raises_overlap_join
#print axioms nonstring_join_value_raises_filter_tables
#print axioms nonstring_join_value_raises_overlap_filter_tables
#print axioms id_clash_raises_set_sim
#print axioms id_clash_raises_overlap_coefficient
#print axioms id_clash_raises_edit_distance
#print axioms id_clash_raises_overlap_join
#print axioms filter_pair_call
#print axioms overlap_filter_pair_call
#print axioms filter_candset_nonstring_raises
#print axioms apply_matcher_nonstring_raises
#print axioms apply_matcher_nocache_nonstring_raises
#print axioms apply_matcher_without_tokenizer_any_values
end AxiomCheck

end SSJ.Props.C15

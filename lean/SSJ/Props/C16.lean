/-
  C16 — Numeric-to-string conversion keeps missing values missing and integers integral.

  Model: `SSJ.Converter.seriesToStr` / `dataframeColumnToStr` (lean/SSJ/Model/Converter.lean), the decision
  logic of utils/converter.py on a column = dtype tag + cells.  `reprF` stands for CPython's `repr(float)`
  (opaque parameter); the pandas dtype mechanics are modelled, not verified (DESIGN §6 C16) — the tie to the
  real code is the `converter` correspondence suite and the independent converter oracle.
-/
import SSJ.Proofs.Converter

namespace SSJ.Props.C16
open SSJ SSJ.Converter

/-- Every present numeric value becomes its string form, every missing value stays missing (never the string
    "nan"), string columns are returned unchanged: for `series_to_str` -/
theorem series_values (reprF : Rat → String) (c : Column) (inplace : Bool) (res : Column)
    (h : (seriesToStr reprF c inplace).col? = some res) :
    res.values.length = c.values.length ∧
    (∀ i (hi : i < c.values.length) (hi' : i < res.values.length),
        res.values[i] = Cell.missing ↔ c.values[i] = Cell.missing) ∧
    (c.dtype = "object" ∨ c.dtype = "str" → res.values = c.values) ∧
    (c.dtype = "int" → ∀ (i : Nat) (k : Int), c.values[i]? = some (Cell.int k) → res.values[i]? = some (Cell.str (toString k))) ∧
    (c.dtype = "float" → presentAllIntegral c = true →
        ∀ (i : Nat) (q : Rat), c.values[i]? = some (Cell.flt q) → res.values[i]? = some (Cell.str (toString q.floor))) ∧
    (c.dtype = "float" → presentAllIntegral c = false →
        ∀ (i : Nat) (q : Rat), c.values[i]? = some (Cell.flt q) → res.values[i]? = some (Cell.str (reprF q))) :=
  seriesToStr_spec reprF c inplace res h

/-- … and the same for `dataframe_column_to_str`, in every mode -/
theorem frame_values (reprF : Rat → String) (c : Column) (inplace returnCol : Bool) (res : Column)
    (h : (dataframeColumnToStr reprF c inplace returnCol).col? = some res) :
    res.values.length = c.values.length ∧
    (∀ i (hi : i < c.values.length) (hi' : i < res.values.length),
        res.values[i] = Cell.missing ↔ c.values[i] = Cell.missing) ∧
    (c.dtype = "object" ∨ c.dtype = "str" → res.values = c.values) :=
  let s := dataframeColumnToStr_spec reprF c inplace returnCol res h
  ⟨s.1, s.2.1, s.2.2.1⟩

/-- "the whole column is integral" is exactly: every present float of the column is an integer -/
theorem integral_iff (c : Column) (hflt : ∀ v ∈ c.values, v.isMissing = false → ∃ q, v = Cell.flt q) :
    presentAllIntegral c = true ↔ ∀ q, Cell.flt q ∈ c.values → isIntegral q = true :=
  presentAllIntegral_iff c hflt

/-- mode matrix: inplace ⇒ True (the given frame is converted), return_col ⇒ a column, neither ⇒ a converted copy
    of the frame (input untouched), both ⇒ AssertionError; the only other error is TypeError for a column that is
    neither numeric nor string -/
theorem frame_modes (reprF : Rat → String) (c : Column) (inplace returnCol : Bool) :
    match dataframeColumnToStr reprF c inplace returnCol with
    | .err e => (e = .assertion ∧ inplace = true ∧ returnCol = true) ∨
                (e = .typeErr ∧ ¬(inplace = true ∧ returnCol = true))
    | .retTrue _ => inplace = true ∧ returnCol = false
    | .retCol _ => inplace = false ∧ returnCol = true
    | .retFrame _ => inplace = false ∧ returnCol = false :=
  dataframeColumnToStr_mode reprF c inplace returnCol

/-- `series_to_str`: inplace ⇒ True, otherwise a new column — outside the documented exception -/
theorem series_modes (reprF : Rat → String) (c : Column) (inplace : Bool)
    (h : ¬ (c.dtype = "float" ∧ (c.values.length = 0 ∨ ∀ x ∈ c.values, x.isMissing = true)))
    (h' : ¬ (c.values.length = 0 ∧ c.dtype ≠ "object")) :
    (∃ e, seriesToStr reprF c inplace = .err e) ∨
    (inplace = true ∧ ∃ r, seriesToStr reprF c inplace = .retTrue r) ∨
    (inplace = false ∧ ∃ r, seriesToStr reprF c inplace = .retCol r) :=
  seriesToStr_mode reprF c inplace h h'

/-- the documented exception: an empty or all-NaN float series yields an object-typed copy even with inplace=True -/
theorem series_all_missing (reprF : Rat → String) (c : Column) (inplace : Bool)
    (hd : c.dtype = "float") (h : c.values.length = 0 ∨ ∀ x ∈ c.values, x.isMissing = true) :
    seriesToStr reprF c inplace = .retCol { c with dtype := "object" } :=
  seriesToStr_float_all_missing reprF c inplace hd h

/-- conversion fails only with TypeError, exactly for a non-empty column of another dtype -/
theorem series_error_iff (reprF : Rat → String) (c : Column) (inplace : Bool) (e : PyErr) :
    seriesToStr reprF c inplace = .err e ↔
      e = .typeErr ∧ c.values.length ≠ 0 ∧
        c.dtype ≠ "object" ∧ c.dtype ≠ "str" ∧ c.dtype ≠ "int" ∧ c.dtype ≠ "float" :=
  seriesToStr_err_iff reprF c inplace e

/-! non-vacuity: a float column with a missing value and an integral value -/
example : (seriesToStr (fun _ => "?") { dtype := "float", values := [.flt 3, .missing] } false).col?
    = some { dtype := "str", values := [.str "3", .missing] } := by decide

end SSJ.Props.C16

/-
  C16 — Numeric-to-string conversion keeps missing values missing and integers integral.

  Model: `SSJ.Converter.seriesToStr` / `dataframeColumnToStr` (lean/SSJ/Model/Converter.lean), the decision
  logic of utils/converter.py on a column = dtype tag + cells.  `reprF` stands for CPython's `repr(float)` on finite
  doubles (opaque parameter); the pandas dtype mechanics are modelled, not verified (DESIGN §6 C16) — the tie to the
  real code is the `converter` correspondence suite and the independent converter oracle.

  Cells of a float column: `.flt q` (a finite double), `.missing` (NaN), and the two infinities, which reach the model
  as `.other posInfTag` / `.other negInfTag`.  An infinity is not integral (`float('inf').is_integer()` is False), so
  a float column holding one is converted with `str(v)`: `[1.0, inf, nan]` becomes `['1.0', 'inf', NaN]`.

  KNOWN FINDING K1 (recorded in /verif/known_findings.json, not repaired).  Under pandas ≥ 3 the real
  `series_to_str(<int/float Series with at least one present value>, inplace=True)` raises TypeError — `Series.update`
  cannot change the dtype of a numeric Series to string and a standalone Series cannot be re-typed in place — and
  leaves the Series unchanged.  The model follows the DOCUMENTED behaviour ("A Boolean value when inplace is set to
  True"): it returns `True` and the object holds the converted column.  `series_modes` and `series_error_iff` below
  therefore describe the documented behaviour, not the observed one, in exactly that case (numeric dtype, some present
  value, `inplace = true`); everywhere else (`inplace = false`, string / object columns, empty and all-NaN columns,
  and `dataframe_column_to_str` in all modes, which is repaired) model and real code agree.
-/
import SSJ.Proofs.Converter

namespace SSJ.Props.C16
open SSJ SSJ.Converter

/-- Every present numeric value becomes its string form, every missing value stays missing (never the string
    "nan"), string columns are returned unchanged: for `series_to_str`.  In a float column the finite values are
    printed through `int` when all present values are integral and with `repr` otherwise; `inf` / `-inf` become the
    strings "inf" / "-inf" -/
theorem series_values (reprF : Rat → String) (c : Column) (inplace : Bool) (res : Column)
    (h : (seriesToStr reprF c inplace).col? = some res) :
    res.values.length = c.values.length ∧
    (∀ i (hi : i < c.values.length) (hi' : i < res.values.length),
        res.values[i] = Cell.missing ↔ c.values[i] = Cell.missing) ∧
    (c.dtype = "object" ∨ c.dtype = "str" → res.values = c.values) ∧
    (c.dtype = "int" → ∀ (i : Nat) (k : Int), c.values[i]? = some (Cell.int k) → res.values[i]? = some (Cell.str (toString k))) ∧
    (c.dtype = "float" → presentAllIntegral c = true →
        ∀ (i : Nat) (q : Rat), c.values[i]? = some (Cell.flt q) → res.values[i]? = some (Cell.str (toString q.floor))) ∧
    (c.dtype = "float" → presentAllIntegral c = false →
        ∀ (i : Nat) (q : Rat), c.values[i]? = some (Cell.flt q) → res.values[i]? = some (Cell.str (reprF q))) ∧
    (c.dtype = "float" → ∀ i : Nat,
        (c.values[i]? = some (Cell.other posInfTag) → res.values[i]? = some (Cell.str "inf")) ∧
        (c.values[i]? = some (Cell.other negInfTag) → res.values[i]? = some (Cell.str "-inf"))) :=
  seriesToStr_spec reprF c inplace res h

/-- … and the same for `dataframe_column_to_str`, in every mode -/
theorem frame_values (reprF : Rat → String) (c : Column) (inplace returnCol : Bool) (res : Column)
    (h : (dataframeColumnToStr reprF c inplace returnCol).col? = some res) :
    res.values.length = c.values.length ∧
    (∀ i (hi : i < c.values.length) (hi' : i < res.values.length),
        res.values[i] = Cell.missing ↔ c.values[i] = Cell.missing) ∧
    (c.dtype = "object" ∨ c.dtype = "str" → res.values = c.values) ∧
    (c.dtype = "int" → ∀ (i : Nat) (k : Int), c.values[i]? = some (Cell.int k) → res.values[i]? = some (Cell.str (toString k))) ∧
    (c.dtype = "float" → presentAllIntegral c = true →
        ∀ (i : Nat) (q : Rat), c.values[i]? = some (Cell.flt q) → res.values[i]? = some (Cell.str (toString q.floor))) ∧
    (c.dtype = "float" → presentAllIntegral c = false →
        ∀ (i : Nat) (q : Rat), c.values[i]? = some (Cell.flt q) → res.values[i]? = some (Cell.str (reprF q))) ∧
    (c.dtype = "float" → ∀ i : Nat,
        (c.values[i]? = some (Cell.other posInfTag) → res.values[i]? = some (Cell.str "inf")) ∧
        (c.values[i]? = some (Cell.other negInfTag) → res.values[i]? = some (Cell.str "-inf"))) :=
  dataframeColumnToStr_spec reprF c inplace returnCol res h

/-- "the whole column is integral" is exactly: every present float of the column is an integer -/
theorem integral_iff (c : Column) (hflt : ∀ v ∈ c.values, v.isMissing = false → ∃ q, v = Cell.flt q) :
    presentAllIntegral c = true ↔ ∀ q, Cell.flt q ∈ c.values → isIntegral q = true :=
  presentAllIntegral_iff c hflt

/-- … without any assumption on the cells: the column is integral iff every cell is missing, an integral finite float,
    or an int -/
theorem integral_iff_cells (c : Column) :
    presentAllIntegral c = true ↔
      ∀ v ∈ c.values, v = Cell.missing ∨ (∃ q, v = Cell.flt q ∧ isIntegral q = true) ∨ ∃ i, v = Cell.int i :=
  presentAllIntegral_iff' c

/-- a float column holding `inf` or `-inf` is never integral (its finite values are printed with `repr`) -/
theorem inf_not_integral (c : Column) (h : Cell.other posInfTag ∈ c.values ∨ Cell.other negInfTag ∈ c.values) :
    presentAllIntegral c = false :=
  h.elim (presentAllIntegral_of_other c _) (presentAllIntegral_of_other c _)

/-- mode matrix: inplace ⇒ True (the given frame is converted), return_col ⇒ a column, neither ⇒ a converted copy
    of the frame (input untouched), both ⇒ AssertionError; the only other error is TypeError for a column that is
    neither numeric nor string -/
theorem frame_modes (reprF : Rat → String) (c : Column) (inplace returnCol : Bool) :
    match dataframeColumnToStr reprF c inplace returnCol with
    | .err e => (e = .assertion ∧ inplace = true ∧ returnCol = true) ∨
                (e = .typeErr ∧ ¬(inplace = true ∧ returnCol = true))
    | .retTrue _ => inplace = true ∧ returnCol = false
    | .retCol _ => inplace = false ∧ returnCol = true
    | .retFrame _ => inplace = false ∧ returnCol = false :=
  dataframeColumnToStr_mode reprF c inplace returnCol

/-- `series_to_str`: inplace ⇒ True, otherwise a new column — outside the documented exception.
    DOCUMENTED behaviour, see known finding K1 in the header: for a numeric (int / float) column with a present value
    and `inplace = true` the real code under pandas ≥ 3 raises TypeError and leaves the Series unchanged, whereas the
    model (this theorem) returns `True`; in every other case the real code behaves as stated. -/
theorem series_modes (reprF : Rat → String) (c : Column) (inplace : Bool)
    (h : ¬ (c.dtype = "float" ∧ (c.values.length = 0 ∨ ∀ x ∈ c.values, x.isMissing = true)))
    (h' : ¬ (c.values.length = 0 ∧ c.dtype ≠ "object")) :
    (∃ e, seriesToStr reprF c inplace = .err e) ∨
    (inplace = true ∧ ∃ r, seriesToStr reprF c inplace = .retTrue r) ∨
    (inplace = false ∧ ∃ r, seriesToStr reprF c inplace = .retCol r) :=
  seriesToStr_mode reprF c inplace h h'

/-- the documented exception: an empty or all-NaN float series yields an object-typed copy even with inplace=True -/
theorem series_all_missing (reprF : Rat → String) (c : Column) (inplace : Bool)
    (hd : c.dtype = "float") (h : c.values.length = 0 ∨ ∀ x ∈ c.values, x.isMissing = true) :
    seriesToStr reprF c inplace = .retCol { c with dtype := "object" } :=
  seriesToStr_float_all_missing reprF c inplace hd h

/-- conversion fails only with TypeError, exactly for a non-empty column of another dtype.
    DOCUMENTED behaviour, see known finding K1 in the header: the real code under pandas ≥ 3 ALSO raises TypeError for
    `inplace = true` on a numeric (int / float) column with a present value (recorded in /verif/known_findings.json,
    K1); the "only if" direction of this theorem is about the model, i.e. the documented behaviour. -/
theorem series_error_iff (reprF : Rat → String) (c : Column) (inplace : Bool) (e : PyErr) :
    seriesToStr reprF c inplace = .err e ↔
      e = .typeErr ∧ c.values.length ≠ 0 ∧
        c.dtype ≠ "object" ∧ c.dtype ≠ "str" ∧ c.dtype ≠ "int" ∧ c.dtype ≠ "float" :=
  seriesToStr_err_iff reprF c inplace e

/-! ### the number of missing values is preserved

  "keeps missing values missing" read as a count: the converted column has exactly as many missing cells as the
  input (none lost to the string "nan", none created), for both entry points and every mode. -/

private theorem count_missing_eq : ∀ (a b : List Cell), a.length = b.length →
    (∀ i (hi : i < b.length) (hi' : i < a.length), a[i] = Cell.missing ↔ b[i] = Cell.missing) →
    a.count Cell.missing = b.count Cell.missing
  | [], [], _, _ => rfl
  | [], _ :: _, hl, _ => by simp at hl
  | _ :: _, [], hl, _ => by simp at hl
  | x :: a, y :: b, hl, h => by
    have h0 := h 0 (by simp) (by simp)
    have ih := count_missing_eq a b (by simpa using hl) (fun i hi hi' => by
      have := h (i + 1) (by simpa using hi) (by simpa using hi')
      simpa only [List.getElem_cons_succ] using this)
    simp only [List.getElem_cons_zero] at h0
    by_cases hx : x = Cell.missing
    · have hy := h0.mp hx
      subst hx; subst hy; simp [ih]
    · have hy : ¬ y = Cell.missing := fun hy => hx (h0.mpr hy)
      rw [List.count_cons_of_ne hx, List.count_cons_of_ne hy, ih]

/-- `series_to_str` keeps the number of missing values -/
theorem series_missing_count (reprF : Rat → String) (c : Column) (inplace : Bool) (res : Column)
    (h : (seriesToStr reprF c inplace).col? = some res) :
    res.values.count Cell.missing = c.values.count Cell.missing :=
  have s := series_values reprF c inplace res h
  count_missing_eq _ _ s.1 s.2.1

/-- `dataframe_column_to_str` keeps the number of missing values, in every mode -/
theorem frame_missing_count (reprF : Rat → String) (c : Column) (inplace returnCol : Bool) (res : Column)
    (h : (dataframeColumnToStr reprF c inplace returnCol).col? = some res) :
    res.values.count Cell.missing = c.values.count Cell.missing :=
  have s := frame_values reprF c inplace returnCol res h
  count_missing_eq _ _ s.1 s.2.1

/-! non-vacuity: a float column with a missing value and an integral value -/
example : (seriesToStr (fun _ => "?") { dtype := "float", values := [.flt 3, .missing] } false).col?
    = some { dtype := "str", values := [.str "3", .missing] } := by decide

/-! an infinity makes the column non-integral: every finite value is printed with `repr`, `inf` as "inf", NaN stays
    missing (real code: `series_to_str(pd.Series([1.0, inf, nan]))` = `['1.0', 'inf', NaN]`) -/
example : (seriesToStr (fun _ => "1.0") { dtype := "float", values := [.flt 1, .other posInfTag, .missing, .other negInfTag] } false).col?
    = some { dtype := "str", values := [.str "1.0", .str "inf", .missing, .str "-inf"] } := by decide

end SSJ.Props.C16

/-
  C05 (companion) — apply_matcher finds the candidates' source rows by PYTHON equality of the key values.

  STATEMENT.  `_apply_matcher_split` (and `_filter_candset_split`) look the candidate rows' key values up in Python
  dicts built from the two tables (`build_dict_from_table`: `ltable_dict[l_id]`; with the token cache also
  `l_tokens[l_id]`).  A Python dict finds a key by `hash` and `==`: the candidate key `1.0` FINDS the table key `1`
  (`True` finds `1`, `0.0` finds `0`).  A candset key column turns `float64` as soon as it passed through a NaN, a
  CSV file or a merge, so this is the ordinary case, not a curiosity.  Hence: a candidate row whose keys are
  Python-equal — not necessarily identical — to keys of the tables is processed exactly like one with identical
  keys: the same two source rows, the same decision (missing values / `sim_function(values) comp_op threshold`),
  the same `_sim_score`, the same requested output attributes.  The only visible difference: WITHOUT output
  attributes the output row is `[candset_row[0], l_id, r_id, (score)]` and carries the CANDSET's key values (`1.0`
  stays `1.0`); WITH output attributes it is built by `get_output_row_from_tables(l_row, r_row, …)` and carries the
  TABLES' key values (`1`).  (Observed on the real code: L keys `[1,2,3]`, candset `l_id = [1.0,2.0,3.0]`:
  3 rows; `l_id` column `float64` without output attributes, `int64` with `l_out_attrs=['x']`.)

  MODEL FUNCTIONS.  `SSJ.applyMatcher` / `SSJ.applyMatcherSplit` (`SSJ/Model/Matcher.lean`): the lookups are
  `Dict.getPy?` (first entry whose key is `Cell.pyEq` to the probe), the dictionaries are built by `Dict.setPy`
  (`SSJ/Model/Basic.lean`).  `Cell.pyEq`: ints, finite floats and bools compare by exact numeric value
  (`1 == 1.0 == True`, `2**53 + 1 != float(2**53)`), everything else only with itself (`'1' != 1`).

  HOW THE THEOREMS SPEAK.  Vocabulary of `C05.lean`: `rowSpec a tok sim c l r cr` is what `apply_matcher` does with
  candidate row `cr` (`C05.keeps_exactly`: the result's rows are `candset.rows.filterMap rowSpec`, under the
  hypothesis `PyMem` = "some key of the table is Python-equal to the candidate key"); `pairSpec … id ls rs` is what it
  does with a candidate of `_id` `id` whose key cells ARE the key cells of the source rows `ls`, `rs`.

  HYPOTHESES / SCOPE.  Both key columns validated (`PyDistinct`: pairwise Python-different, what `validate_key_attr`
  guarantees — `validateKeyAttr_ok_iff`), so that "the" source row of a key exists.  `python_equal_probes_find_the_same_row`
  needs nothing.

  NOT COVERED.  NaN keys of a candset (`.missing` cells): no table key is missing, so they are never found (KeyError),
  in Python and in the model alike.  Non-finite floats and objects other than numbers / strings compare by their
  canonical tag only.
-/
import SSJ.Props.C05

namespace SSJ.Props.C05
open SSJ SSJ.Props

/-- the visible difference between a candidate with Python-equal keys and one with identical keys: WITHOUT output
    attributes cells 1 and 2 of the output row are the candidate's own key cells; WITH output attributes nothing -/
def withCandKeys (a : MatcherArgs) (lk rk : Cell) (row : Row) : Row :=
  if hasOutAttrs a then row else row.take 1 ++ [lk, rk] ++ row.drop 3

/-- The lookup sees the candidate's key values only up to Python equality: two candidate rows whose key cells are
    pairwise Python-equal (`1.0` and `1`) reference the same two source rows (or both reference none). -/
theorem python_equal_probes_find_the_same_row (a : MatcherArgs) (c l r : Frame) (cr cr' : Row)
    (hkl : (cr'.cell (c.colIdx a.candLKey)).pyEq (cr.cell (c.colIdx a.candLKey)) = true)
    (hkr : (cr'.cell (c.colIdx a.candRKey)).pyEq (cr.cell (c.colIdx a.candRKey)) = true) :
    srcRow l a.lKey (cr.cell (c.colIdx a.candLKey)) = srcRow l a.lKey (cr'.cell (c.colIdx a.candLKey)) ∧
    srcRow r a.rKey (cr.cell (c.colIdx a.candRKey)) = srcRow r a.rKey (cr'.cell (c.colIdx a.candRKey)) :=
  ⟨(srcRow_congr l a.lKey hkl).symm, (srcRow_congr r a.rKey hkr).symm⟩

/-- MAIN THEOREM.  A candidate row `cr` whose key cells are Python-equal (not necessarily identical: `1.0` against
    `1`) to the keys of the source rows `ls`, `rs` is processed exactly like a candidate with identical keys
    (`pairSpec … ls rs`): kept or dropped alike, same `_id`, same score, same output attributes — and without output
    attributes the two key cells of the output row are `cr`'s own (`withCandKeys`). -/
theorem candidate_keys_matched_by_python_equality (a : MatcherArgs) (tok : Option (String → List Tok))
    (sim : SimArg → SimArg → PyV) (c l r : Frame)
    (hlk : PyDistinct (l.col a.lKey)) (hrk : PyDistinct (r.col a.rKey)) (cr ls rs : Row)
    (hls : ls ∈ l.rows) (hrs : rs ∈ r.rows)
    (hkl : (keyOf l a.lKey ls).pyEq (cr.cell (c.colIdx a.candLKey)) = true)
    (hkr : (keyOf r a.rKey rs).pyEq (cr.cell (c.colIdx a.candRKey)) = true) :
    rowSpec a tok sim c l r cr =
      (pairSpec a tok sim l r (cr.cell 0) ls rs).map
        (withCandKeys a (cr.cell (c.colIdx a.candLKey)) (cr.cell (c.colIdx a.candRKey))) := by
  rw [rowSpec_eq_pairSpecK a tok sim c l r hlk hrk cr ls rs hls hrs hkl hkr, pairSpecK_eq_map]
  rfl

/-- … explicitly against a second candidate row `cr'` with the same `_id` whose key cells ARE the tables' own:
    `apply_matcher` treats `cr` as it treats `cr'`, up to `withCandKeys`. -/
theorem same_as_identical_keys (a : MatcherArgs) (tok : Option (String → List Tok))
    (sim : SimArg → SimArg → PyV) (c l r : Frame)
    (hlk : PyDistinct (l.col a.lKey)) (hrk : PyDistinct (r.col a.rKey)) (cr cr' ls rs : Row)
    (hls : ls ∈ l.rows) (hrs : rs ∈ r.rows) (hid : cr'.cell 0 = cr.cell 0)
    (hkl' : keyOf l a.lKey ls = cr'.cell (c.colIdx a.candLKey))
    (hkr' : keyOf r a.rKey rs = cr'.cell (c.colIdx a.candRKey))
    (hkl : (cr'.cell (c.colIdx a.candLKey)).pyEq (cr.cell (c.colIdx a.candLKey)) = true)
    (hkr : (cr'.cell (c.colIdx a.candRKey)).pyEq (cr.cell (c.colIdx a.candRKey)) = true) :
    rowSpec a tok sim c l r cr =
      (rowSpec a tok sim c l r cr').map
        (withCandKeys a (cr.cell (c.colIdx a.candLKey)) (cr.cell (c.colIdx a.candRKey))) := by
  rw [candidate_keys_matched_by_python_equality a tok sim c l r hlk hrk cr ls rs hls hrs (hkl' ▸ hkl) (hkr' ▸ hkr),
    rowSpec_eq_pairSpec a tok sim c l r hlk hrk cr' ls rs hls hrs hkl' hkr', hid]

/-- With output attributes the candidate's own key cells do not show at all: the two rows are processed IDENTICALLY. -/
theorem same_as_identical_keys_with_out_attrs (a : MatcherArgs) (tok : Option (String → List Tok))
    (sim : SimArg → SimArg → PyV) (c l r : Frame)
    (hlk : PyDistinct (l.col a.lKey)) (hrk : PyDistinct (r.col a.rKey)) (cr cr' ls rs : Row)
    (hls : ls ∈ l.rows) (hrs : rs ∈ r.rows) (hid : cr'.cell 0 = cr.cell 0)
    (hkl' : keyOf l a.lKey ls = cr'.cell (c.colIdx a.candLKey))
    (hkr' : keyOf r a.rKey rs = cr'.cell (c.colIdx a.candRKey))
    (hkl : (cr'.cell (c.colIdx a.candLKey)).pyEq (cr.cell (c.colIdx a.candLKey)) = true)
    (hkr : (cr'.cell (c.colIdx a.candRKey)).pyEq (cr.cell (c.colIdx a.candRKey)) = true)
    (hout : hasOutAttrs a = true) :
    rowSpec a tok sim c l r cr = rowSpec a tok sim c l r cr' := by
  rw [same_as_identical_keys a tok sim c l r hlk hrk cr cr' ls rs hls hrs hid hkl' hkr' hkl hkr]
  have : withCandKeys a (cr.cell (c.colIdx a.candLKey)) (cr.cell (c.colIdx a.candRKey)) = id := by
    funext row; unfold withCandKeys; rw [if_pos hout]; rfl
  rw [this, Option.map_id]
  rfl

/-- ENTRY POINT.  `apply_matcher` on a candset whose key cells are merely Python-equal to the tables' keys succeeds
    (no KeyError) and returns, in candset order, `pairSpec` of the referenced source rows with the candidate's key
    cells put back (`withCandKeys`) — `keeps_exactly` read through `candidate_keys_matched_by_python_equality`. -/
theorem float_key_candset_processed_like_identical_keys (a : MatcherArgs) (t : Option TokObj) (toks : TokFn)
    (sim : SimArg → SimArg → PyV) (cpu : Int) (c l r : Frame) (hv : validateMatcher a t = .ok (c, l, r))
    (src : Row → Row × Row)
    (hsrc : ∀ cr ∈ c.rows, (src cr).1 ∈ l.rows ∧ (src cr).2 ∈ r.rows ∧
      (keyOf l a.lKey (src cr).1).pyEq (cr.cell (c.colIdx a.candLKey)) = true ∧
      (keyOf r a.rKey (src cr).2).pyEq (cr.cell (c.colIdx a.candRKey)) = true)
    (hlen : c.rows.length < 2 ^ 40)
    (hstr : t.isSome → StrColumn l a.lAttr ∧ StrColumn r a.rAttr) :
    ∃ fr, applyMatcher a t toks sim cpu = .ok fr ∧
      fr.rows = c.rows.filterMap (fun cr =>
        (pairSpec a (tokOf t toks) sim l r (cr.cell 0) (src cr).1 (src cr).2).map
          (withCandKeys a (cr.cell (c.colIdx a.candLKey)) (cr.cell (c.colIdx a.candRKey)))) := by
  have hV := (validateMatcher_ok_iff a t c l r).1 hv
  obtain ⟨fr, hfr, hrows, -⟩ := keeps_exactly a t toks sim cpu c l r hv
    (fun cr hcr => ⟨_, List.mem_map_of_mem (f := fun row : Row => row.cell (l.colIdx a.lKey)) (hsrc cr hcr).1,
      (hsrc cr hcr).2.2.1⟩)
    (fun cr hcr => ⟨_, List.mem_map_of_mem (f := fun row : Row => row.cell (r.colIdx a.rKey)) (hsrc cr hcr).2.1,
      (hsrc cr hcr).2.2.2⟩) hlen hstr
  refine ⟨fr, hfr, ?_⟩
  rw [hrows]
  apply List.filterMap_congr
  intro cr hcr
  obtain ⟨h1, h2, h3, h4⟩ := hsrc cr hcr
  exact candidate_keys_matched_by_python_equality a _ sim c l r hV.lKeyValid.1 hV.rKeyValid.1 cr _ _ h1 h2 h3 h4

/-! ## Non-vacuity: the finding's example (`1.0` against `1`) -/

section Examples

/-- L keys `[1, 2, 3]` (int64) -/
def kxL : Frame := { columns := ["id", "s", "x"], dtypes := ["int64", "object", "object"],
                     rows := [[.int 1, .str "a b", .str "p"], [.int 2, .str "c d", .str "q"],
                              [.int 3, .str "e f", .str "r"]] }
def kxR : Frame := { columns := ["id", "s"], dtypes := ["int64", "object"],
                     rows := [[.int 1, .str "a b"], [.int 2, .str "c d"], [.int 3, .str "e g"]] }
/-- candset: `_id`, `l_id` (float64: `1.0, 2.0, 3.0`), `r_id` (int64, and one bool `True`) -/
def kxC : Frame := { columns := ["_id", "l_id", "r_id"],
                     rows := [[.int 0, .flt 1, .int 1], [.int 1, .flt 2, .int 2], [.int 2, .flt 3, .other "bool:True"]] }
/-- the same candidates with the tables' own key values -/
def kxC' : Frame := { columns := ["_id", "l_id", "r_id"],
                      rows := [[.int 0, .int 1, .int 1], [.int 1, .int 2, .int 2], [.int 2, .int 3, .int 1]] }
def kxArgs : MatcherArgs :=
  { candset := some kxC, candLKey := "l_id", candRKey := "r_id", ltable := some kxL, rtable := some kxR,
    lKey := "id", rKey := "id", lAttr := "s", rAttr := "s", threshold := .int 1, compOp := ">=" }
/-- exact-match "similarity" on the raw values: 1 if equal, else 0 -/
def kxSim : SimArg → SimArg → PyV := fun x y => if x = y then .int 1 else .int 0

example : Cell.pyEq (.flt 1) (.int 1) = true ∧ Cell.pyEq (.other "bool:True") (.int 1) = true ∧
    Cell.pyEq (.str "1") (.int 1) = false := by decide
/-- the hypotheses of `C05.keeps_exactly` hold for the float-key candset … -/
example : validateMatcher kxArgs none = .ok (kxC, kxL, kxR) := by decide
example : ∀ cr ∈ kxC.rows, PyMem (cr.cell (kxC.colIdx kxArgs.candLKey)) (kxL.col kxArgs.lKey) := by decide
example : ∀ cr ∈ kxC.rows, PyMem (cr.cell (kxC.colIdx kxArgs.candRKey)) (kxR.col kxArgs.rKey) := by decide
/-- … although no candidate key of the left column OCCURS in the table's key column -/
example : ∀ cr ∈ kxC.rows, cr.cell (kxC.colIdx kxArgs.candLKey) ∉ kxL.col kxArgs.lKey := by decide
/-- the model runs the call (no KeyError) and keeps the two equal pairs — with the CANDSET's key values (`1.0`, `2.0`)
    when no output attributes are requested … -/
example : (applyMatcher kxArgs none (fun _ _ => []) kxSim 4).map (·.rows)
    = .ok [[.int 0, .flt 1, .int 1, .int 1], [.int 1, .flt 2, .int 2, .int 1]] := by decide
/-- … and with the TABLES' key values (`1`, `2`) when output attributes are requested … -/
example : (applyMatcher { kxArgs with lOut := some ["x"] } none (fun _ _ => []) kxSim 4).map (·.rows)
    = .ok [[.int 0, .int 1, .int 1, .str "p", .int 1], [.int 1, .int 2, .int 2, .str "q", .int 1]] := by decide
/-- … exactly as for the candset with identical keys, up to the two key cells -/
example : (applyMatcher { kxArgs with candset := some kxC' } none (fun _ _ => []) kxSim 4).map (·.rows)
    = .ok [[.int 0, .int 1, .int 1, .int 1], [.int 1, .int 2, .int 2, .int 1]] := by decide
example : kxC.rows.filterMap (rowSpec kxArgs none kxSim kxC kxL kxR)
    = [[.int 0, .flt 1, .int 1, .int 1], [.int 1, .flt 2, .int 2, .int 1]] := by decide

end Examples

end SSJ.Props.C05

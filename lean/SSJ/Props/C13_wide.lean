/-
  C13 (wide threshold scope) — Joins obey transposition, threshold-refinement and operator-partition laws.

  Companion of SSJ/Props/C13.lean (same namespace `SSJ.Props.C13`; property text, model, vocabulary — `InResult`,
  `ScoreOf`, `SameScore`, `a.swap`, `a.withThreshold`, `a.withOp` — as there).  The jaccard / cosine / dice theorems of
  C13.lean (`setsim_iff`, `partition_setsim`, `refine_setsim`, `transpose_setsim`) assume a Python FLOAT threshold `thr`
  with `2⁻²⁰ ≤ thr ≤ 1` (`ThrOK`); the validation accepts every `0 < t ≤ 1`, also given as the Python int `1`.

  WHAT CHANGED.  `setsim_iff_wide`, `partition_setsim_wide`, `refine_setsim_wide`, `transpose_setsim_wide`: the same
  conclusions, with the threshold VALUE `a.threshold : PyV` (resp. `th₁`, `th₂` for refinement) under the hypothesis
  `WideThr m ·` (SSJ/Proofs/ArithWide.lean):
      * a Python float `t` with `thrLo m ≤ t ≤ 1`, `thrLo m = 2⁻⁹⁸⁹` for JACCARD and DICE, `2⁻⁴⁹⁵` for COSINE, or
      * the Python int `1`.
  All comparisons are against the threshold value itself (`Spec.qualRounded m op a.threshold …`, `compFn op score th₂`):
  `compFn` works on `PyV`, so the int `1` is compared by Python semantics (int vs float numerically).  `NonStraddlingV`
  is `NonStraddling` for a threshold value (`NonStraddling m op thr A B ↔ NonStraddlingV m op (.float thr) A B` by
  `Iff.rfl`).  Refinement orders the two thresholds by their numeric values, `thrVal th₁ ≤ thrVal th₂`; the two may be
  of different Python types (e.g. `0.5` and the int `1`).  `ThrOK` thresholds are covered (`ThrOK.wide`), so these
  theorems subsume the originals.

  WHY THE RANGE STOPS AT `thrLo m`.  The "⇐" directions rest on completeness (C01), which needs the pruning bounds to be
  right; binary64 OVERFLOW of the size upper bound (`n / t`, `((2 − t)/t) · n`, `n / (t·t)` for token counts up to `2³² − 1`)
  makes the generated code fail from `t = 2⁻⁹⁹³` (JACCARD), `2⁻⁹⁹²` (DICE), `2⁻⁴⁹⁷` (COSINE) on (`SSJ.cosine_overflow_at_500`).
  STILL OUTSIDE.  Thresholds in `(0, thrLo m)` (the real code raises `OverflowError` / `ZeroDivisionError` there for large
  enough token counts — recorded known finding K2 — or works for small ones; not covered by theorems); everything
  listed as not covered in C13.lean except "a threshold passed as the Python int `1`", which IS covered here.
-/
import SSJ.Proofs.EntryWide
import SSJ.Proofs.BodyOK
import SSJ.Props.C01_wide
import SSJ.Props.C13

namespace SSJ.Props.C13
open SSJ SSJ.Props SSJ.EntryLaws

/-- the raw (double precision) and the rounded (4 decimals) similarity of the two token sets lie on the same side of
    the threshold VALUE `th` under the comparison `op` -/
def NonStraddlingV (m : Measure) (op : String) (th : PyV) (A B : List Tok) : Prop :=
  Spec.qualStrict m op th A B = Spec.qualRounded m op th A B

example (m : Measure) (op : String) (thr : Rat) (A B : List Tok) :
    NonStraddling m op thr A B ↔ NonStraddlingV m op (.float thr) A B := Iff.rfl

section SetSimWide
variable (m : Measure) (a : JoinArgs) (t : TokObj) (toks : TokFn) (cpu : Int) (l r : Frame)

/-- PER-PAIR CHARACTERISATION for every covered threshold value: a pair of present rows, not both tokenizing to
    nothing and non-straddling, is in the result IFF its rounded similarity satisfies the comparison against the
    threshold; and every result row naming it carries that rounded similarity as `_sim_score`. -/
theorem setsim_iff_wide (hm : SetMeasure m) (hv : validateJoin m.name a t = .ok (l, r))
    (hth : WideThr m a.threshold) (hs : InScope (toks true) r)
    (fr : Frame) (hres : (setSimJoinPy m a t toks cpu).result = .ok fr)
    (ls rs : Row) (hls : ls ∈ l.rows) (hrs : rs ∈ r.rows)
    (hpl : Present l a.lAttr ls) (hpr : Present r a.rAttr rs)
    (hne : Spec.bothEmpty (tokensOf (toks true) l a.lAttr ls) (tokensOf (toks true) r a.rAttr rs) = false)
    (hns : NonStraddlingV m a.compOp a.threshold (tokensOf (toks true) l a.lAttr ls) (tokensOf (toks true) r a.rAttr rs)) :
    (InResult fr (keyOf l a.lKey ls) (keyOf r a.rKey rs) ↔
      Spec.qualRounded m a.compOp a.threshold (tokensOf (toks true) l a.lAttr ls)
        (tokensOf (toks true) r a.rAttr rs) = true) ∧
    (a.outSimScore = true → ScoreOf fr (keyOf l a.lKey ls) (keyOf r a.rKey rs)
      (scoreCell (Spec.score4 m (tokensOf (toks true) l a.lAttr ls) (tokensOf (toks true) r a.rAttr rs)))) := by
  have hsound : ∀ row ∈ fr.rows, rowKeys row = (keyOf l a.lKey ls, keyOf r a.rKey rs) →
      Spec.qualRounded m a.compOp a.threshold (tokensOf (toks true) l a.lAttr ls)
          (tokensOf (toks true) r a.rAttr rs) = true ∧
        (a.outSimScore = true → rowScore row = scoreCell (Spec.score4 m (tokensOf (toks true) l a.lAttr ls)
          (tokensOf (toks true) r a.rAttr rs))) := by
    intro row hrow hk
    rcases EntryWide.sound_of_keys_any m a t toks cpu l r hv hs fr hres row hrow ls hls rs hrs hpl hpr hk with
      ⟨he, -, -⟩ | ⟨-, hq, hsc⟩
    · rw [hne] at he; cases he
    · exact ⟨hq, hsc⟩
  refine ⟨⟨?_, ?_⟩, ?_⟩
  · rintro ⟨row, hrow, hk⟩
    exact (hsound row hrow hk).1
  · intro hq
    obtain ⟨fr', hres', row, hrow, hk, -⟩ := C01.setsim_complete_wide m hm a t toks cpu l r hv hth hs ls hls rs hrs
      hpl hpr hne (by rw [hns]; exact hq) (setSimJoinPy_bodyOK m a t toks cpu l r hv fr hres)
    rw [hres] at hres'
    cases Except.ok.inj hres'
    exact ⟨row, hrow, hk⟩
  · intro ho row hrow hk
    exact (hsound row hrow hk).2 ho

/-- OPERATOR PARTITION (jaccard / cosine / dice), every covered threshold value: for calls differing only in the
    operator, a pair (not both empty, non-straddling for the three operators) is in the `>=` result iff it is in the
    `>` result or in the `=` result, and it is never in both of these. -/
theorem partition_setsim_wide (hm : SetMeasure m) (hv : validateJoin m.name (a.withOp ">=") t = .ok (l, r))
    (hth : WideThr m a.threshold) (hs : InScope (toks true) r)
    (frGe frGt frEq : Frame)
    (hGe : (setSimJoinPy m (a.withOp ">=") t toks cpu).result = .ok frGe)
    (hGt : (setSimJoinPy m (a.withOp ">") t toks cpu).result = .ok frGt)
    (hEq : (setSimJoinPy m (a.withOp "=") t toks cpu).result = .ok frEq)
    (ls rs : Row) (hls : ls ∈ l.rows) (hrs : rs ∈ r.rows)
    (hpl : Present l a.lAttr ls) (hpr : Present r a.rAttr rs)
    (hne : Spec.bothEmpty (tokensOf (toks true) l a.lAttr ls) (tokensOf (toks true) r a.rAttr rs) = false)
    (hns : ∀ op ∈ [">=", ">", "="],
      NonStraddlingV m op a.threshold (tokensOf (toks true) l a.lAttr ls) (tokensOf (toks true) r a.rAttr rs)) :
    (InResult frGe (keyOf l a.lKey ls) (keyOf r a.rKey rs) ↔
      InResult frGt (keyOf l a.lKey ls) (keyOf r a.rKey rs) ∨ InResult frEq (keyOf l a.lKey ls) (keyOf r a.rKey rs)) ∧
    ¬ (InResult frGt (keyOf l a.lKey ls) (keyOf r a.rKey rs) ∧ InResult frEq (keyOf l a.lKey ls) (keyOf r a.rKey rs)) := by
  have hne' := EntrySetSim.setMeasure_name_ne_ed hm
  have hvGt : validateJoin m.name (a.withOp ">") t = .ok (l, r) :=
    validateJoin_withOp _ (a.withOp ">=") t l r ">" hv (simOp_valid _ hne' _ (by decide))
  have hvEq : validateJoin m.name (a.withOp "=") t = .ok (l, r) :=
    validateJoin_withOp _ (a.withOp ">=") t l r "=" hv (simOp_valid _ hne' _ (by decide))
  have h1 := (setsim_iff_wide m (a.withOp ">=") t toks cpu l r hm hv hth hs frGe hGe ls rs hls hrs hpl hpr hne
    (hns _ (List.mem_of_elem_eq_true rfl))).1
  have h2 := (setsim_iff_wide m (a.withOp ">") t toks cpu l r hm hvGt hth hs frGt hGt ls rs hls hrs hpl hpr hne
    (hns _ (List.mem_of_elem_eq_true rfl))).1
  have h3 := (setsim_iff_wide m (a.withOp "=") t toks cpu l r hm hvEq hth hs frEq hEq ls rs hls hrs hpl hpr hne
    (hns _ (List.mem_of_elem_eq_true rfl))).1
  dsimp only [JoinArgs.withOp] at h1 h2 h3
  have hsplit := ge_split (Spec.score4 m (tokensOf (toks true) l a.lAttr ls) (tokensOf (toks true) r a.rAttr rs))
    a.threshold hth.numThr
  have hdis := gt_eq_disjoint (Spec.score4 m (tokensOf (toks true) l a.lAttr ls) (tokensOf (toks true) r a.rAttr rs))
    a.threshold hth.numThr
  constructor
  · rw [h1, h2, h3]
    show compFn ">=" _ _ = true ↔ compFn ">" _ _ = true ∨ compFn "=" _ _ = true
    rw [hsplit, Bool.or_eq_true]
  · rw [h2, h3]
    exact hdis

/-- THRESHOLD REFINEMENT (jaccard / cosine / dice; operator `>=` or `>`), every two covered threshold values with
    `thrVal th₁ ≤ thrVal th₂`: for calls differing only in the threshold, a pair (not both empty, non-straddling for
    both thresholds) is in the stricter result `fr₂` iff it is in the laxer result `fr₁` and its reported score meets
    the stricter threshold; both results report the same score for it. -/
theorem refine_setsim_wide (hm : SetMeasure m) (hop : a.compOp = ">=" ∨ a.compOp = ">")
    (th₁ th₂ : PyV) (h12 : thrVal th₁ ≤ thrVal th₂) (hw₁ : WideThr m th₁) (hw₂ : WideThr m th₂)
    (hv : validateJoin m.name (a.withThreshold th₁) t = .ok (l, r)) (hs : InScope (toks true) r)
    (fr₁ fr₂ : Frame)
    (h₁ : (setSimJoinPy m (a.withThreshold th₁) t toks cpu).result = .ok fr₁)
    (h₂ : (setSimJoinPy m (a.withThreshold th₂) t toks cpu).result = .ok fr₂)
    (ls rs : Row) (hls : ls ∈ l.rows) (hrs : rs ∈ r.rows)
    (hpl : Present l a.lAttr ls) (hpr : Present r a.rAttr rs)
    (hne : Spec.bothEmpty (tokensOf (toks true) l a.lAttr ls) (tokensOf (toks true) r a.rAttr rs) = false)
    (hns₁ : NonStraddlingV m a.compOp th₁ (tokensOf (toks true) l a.lAttr ls) (tokensOf (toks true) r a.rAttr rs))
    (hns₂ : NonStraddlingV m a.compOp th₂ (tokensOf (toks true) l a.lAttr ls) (tokensOf (toks true) r a.rAttr rs)) :
    (InResult fr₂ (keyOf l a.lKey ls) (keyOf r a.rKey rs) ↔
      InResult fr₁ (keyOf l a.lKey ls) (keyOf r a.rKey rs) ∧
      compFn a.compOp (Spec.score4 m (tokensOf (toks true) l a.lAttr ls) (tokensOf (toks true) r a.rAttr rs))
        th₂ = true) ∧
    (a.outSimScore = true →
      ScoreOf fr₁ (keyOf l a.lKey ls) (keyOf r a.rKey rs)
        (scoreCell (Spec.score4 m (tokensOf (toks true) l a.lAttr ls) (tokensOf (toks true) r a.rAttr rs))) ∧
      ScoreOf fr₂ (keyOf l a.lKey ls) (keyOf r a.rKey rs)
        (scoreCell (Spec.score4 m (tokensOf (toks true) l a.lAttr ls) (tokensOf (toks true) r a.rAttr rs)))) := by
  have hv₂ : validateJoin m.name (a.withThreshold th₂) t = .ok (l, r) :=
    validateJoin_withThreshold _ (a.withThreshold th₁) t l r _ hv (hw₂.valid hm)
  have i₁ := setsim_iff_wide m (a.withThreshold th₁) t toks cpu l r hm hv hw₁ hs fr₁ h₁ ls rs hls hrs
    hpl hpr hne hns₁
  have i₂ := setsim_iff_wide m (a.withThreshold th₂) t toks cpu l r hm hv₂ hw₂ hs fr₂ h₂ ls rs hls hrs
    hpl hpr hne hns₂
  dsimp only [JoinArgs.withThreshold] at i₁ i₂
  refine ⟨?_, fun ho => ⟨i₁.2 ho, i₂.2 ho⟩⟩
  rw [i₁.1, i₂.1]
  constructor
  · intro h
    exact ⟨EntryWide.ge_mono_num _ hop _ _ _ hw₁.numThr hw₂.numThr h12 h, h⟩
  · exact fun h => h.2

/-- TRANSPOSITION (jaccard / cosine / dice), every covered threshold value: a pair (non-straddling unless both sides
    are empty) is in the result `fr` of the call with keys `(kl, kr)` iff it is in the result `fr'` of the swapped call
    with keys `(kr, kl)`, and the two rows carry identical score cells. -/
theorem transpose_setsim_wide (hm : SetMeasure m) (hv : validateJoin m.name a t = .ok (l, r))
    (hth : WideThr m a.threshold)
    (hsr : InScope (toks true) r) (hsl : InScope (toks true) l)
    (cpu' : Int) (fr fr' : Frame)
    (hres : (setSimJoinPy m a t toks cpu).result = .ok fr)
    (hres' : (setSimJoinPy m a.swap t toks cpu').result = .ok fr')
    (ls rs : Row) (hls : ls ∈ l.rows) (hrs : rs ∈ r.rows)
    (hpl : Present l a.lAttr ls) (hpr : Present r a.rAttr rs)
    (hns : Spec.bothEmpty (tokensOf (toks true) l a.lAttr ls) (tokensOf (toks true) r a.rAttr rs) = false →
      NonStraddlingV m a.compOp a.threshold (tokensOf (toks true) l a.lAttr ls) (tokensOf (toks true) r a.rAttr rs)) :
    (InResult fr (keyOf l a.lKey ls) (keyOf r a.rKey rs) ↔ InResult fr' (keyOf r a.rKey rs) (keyOf l a.lKey ls)) ∧
    (a.outSimScore = true → SameScore fr fr' (keyOf l a.lKey ls) (keyOf r a.rKey rs)) := by
  have hv' : validateJoin m.name a.swap t = .ok (r, l) := validateJoin_swap _ a t l r hv
  cases he : Spec.bothEmpty (tokensOf (toks true) l a.lAttr ls) (tokensOf (toks true) r a.rAttr rs) with
  | true =>
    have he' : Spec.bothEmpty (tokensOf (toks true) r a.rAttr rs) (tokensOf (toks true) l a.lAttr ls) = true := by
      rw [bothEmpty_comm]; exact he
    have i₁ := EntrySetSim.both_empty_iff m a t toks cpu l r hv hsr fr hres ls hls rs hrs hpl hpr he
    have i₂ := EntrySetSim.both_empty_iff m a.swap t toks cpu' r l hv' hsl fr' hres' rs hrs ls hls hpr hpl he'
    dsimp only [JoinArgs.swap] at i₂
    refine ⟨i₁.trans i₂.symm, ?_⟩
    intro ho row hrow row' hrow' hk hk'
    rw [EntrySetSim.both_empty_score m a t toks cpu l r hv hsr fr hres ls hls rs hrs hpl hpr he row hrow hk ho,
      EntrySetSim.both_empty_score m a.swap t toks cpu' r l hv' hsl fr' hres' rs hrs ls hls hpr hpl he' row' hrow' hk' ho]
  | false =>
    have he' : Spec.bothEmpty (tokensOf (toks true) r a.rAttr rs) (tokensOf (toks true) l a.lAttr ls) = false := by
      rw [bothEmpty_comm]; exact he
    have hns' : NonStraddlingV m a.compOp a.threshold (tokensOf (toks true) r a.rAttr rs)
        (tokensOf (toks true) l a.lAttr ls) := by
      have := hns he
      unfold NonStraddlingV at this ⊢
      rw [qualStrict_comm m hm, qualRounded_comm m hm]; exact this
    have i₁ := setsim_iff_wide m a t toks cpu l r hm hv hth hsr fr hres ls rs hls hrs hpl hpr he (hns he)
    have i₂ := setsim_iff_wide m a.swap t toks cpu' r l hm hv' hth hsl fr' hres' rs ls hrs hls hpr hpl he' hns'
    dsimp only [JoinArgs.swap] at i₂
    constructor
    · rw [i₁.1]
      refine Iff.trans ?_ i₂.1.symm
      rw [qualRounded_comm m hm]
    · intro ho row hrow row' hrow' hk hk'
      rw [i₁.2 ho row hrow hk, i₂.2 ho row' hrow' hk', score4_comm m hm]

end SetSimWide

/-! ## non-vacuity: the request of `EntrySetSim.Ex` at threshold `2⁻³⁰` (`EntryWide.Ex.exArgsSmall`), pair ((1,"ab"), (7,"abc"))
    (Jaccard = the double nearest 2/3, 0.6667 rounded: non-straddling for every threshold up to 0.6), and at the int
    threshold `1` with the tokenization table `exToks1` (`exArgsInt`; the pair then has two equal token sets,
    similarity 1.0 raw and rounded: non-straddling for every operator and threshold value). -/
section ExSetSimWide
open EntrySetSim.Ex EntryWide.Ex

theorem exNSV (op : String) (hop : op ∈ [">=", ">", "="]) (thr : Rat) (hthr : thr ≤ 3 / 5) :
    NonStraddlingV .jaccard op (.float thr) (tokensOf (exToks true) exL exArgs.lAttr exLs)
      (tokensOf (exToks true) exR exArgs.rAttr exRs) := by
  unfold NonStraddlingV
  rw [exLs_tokens, exRs_tokens]
  exact EntryLaws.Ex.exNonStraddling op hop thr hthr

/-- equal token sets: raw similarity 1.0, rounded 1.0 — never straddling -/
theorem exNSV_int (op : String) (th : PyV) :
    NonStraddlingV .jaccard op th (tokensOf (exToks1 true) exL exArgs.lAttr exLs)
      (tokensOf (exToks1 true) exR exArgs.rAttr exRs) := by
  unfold NonStraddlingV Spec.qualStrict Spec.qualRounded
  rw [exLs_tokens1, exRs_tokens1]
  have h1 : Spec.simSet .jaccard ["a", "b"] ["a", "b"] = .float 1 := by decide +kernel
  have h2 : Spec.score4 .jaccard ["a", "b"] ["a", "b"] = .float 1 := by decide +kernel
  rw [h1, h2, Bool.and_self]

/-- partition at threshold `2⁻³⁰` -/
example (frGe frGt frEq : Frame)
    (hGe : (setSimJoinPy .jaccard (exArgsSmall.withOp ">=") {} exToks 4).result = .ok frGe)
    (hGt : (setSimJoinPy .jaccard (exArgsSmall.withOp ">") {} exToks 4).result = .ok frGt)
    (hEq : (setSimJoinPy .jaccard (exArgsSmall.withOp "=") {} exToks 4).result = .ok frEq) :
    (InResult frGe (.int 1) (.int 7) ↔ InResult frGt (.int 1) (.int 7) ∨ InResult frEq (.int 1) (.int 7)) ∧
    ¬ (InResult frGt (.int 1) (.int 7) ∧ InResult frEq (.int 1) (.int 7)) :=
  partition_setsim_wide .jaccard exArgsSmall {} exToks 4 exL exR (Or.inl rfl) exValidSmall (thrSmall .jaccard) exScope
    frGe frGt frEq hGe hGt hEq exLs exRs exLs_mem exRs_mem exLs_present exRs_present exPair_nonempty
    (fun op hop => exNSV op hop _ (by norm_num))

/-- partition at the int threshold `1` -/
example (frGe frGt frEq : Frame)
    (hGe : (setSimJoinPy .jaccard (exArgsInt.withOp ">=") {} exToks1 4).result = .ok frGe)
    (hGt : (setSimJoinPy .jaccard (exArgsInt.withOp ">") {} exToks1 4).result = .ok frGt)
    (hEq : (setSimJoinPy .jaccard (exArgsInt.withOp "=") {} exToks1 4).result = .ok frEq) :
    (InResult frGe (.int 1) (.int 7) ↔ InResult frGt (.int 1) (.int 7) ∨ InResult frEq (.int 1) (.int 7)) ∧
    ¬ (InResult frGt (.int 1) (.int 7) ∧ InResult frEq (.int 1) (.int 7)) :=
  partition_setsim_wide .jaccard exArgsInt {} exToks1 4 exL exR (Or.inl rfl) exValidInt .intOne exScope1
    frGe frGt frEq hGe hGt hEq exLs exRs exLs_mem exRs_mem exLs_present exRs_present exPair_nonempty1
    (fun op _ => exNSV_int op _)

/-- refinement from the float threshold `2⁻³⁰` to the INT threshold `1` (thresholds of different Python types) -/
example (fr₁ fr₂ : Frame)
    (h₁ : (setSimJoinPy .jaccard (exArgs.withThreshold (.float (1 / 2 ^ 30))) {} exToks1 4).result = .ok fr₁)
    (h₂ : (setSimJoinPy .jaccard (exArgs.withThreshold (.int 1)) {} exToks1 4).result = .ok fr₂) :
    (InResult fr₂ (.int 1) (.int 7) ↔ InResult fr₁ (.int 1) (.int 7) ∧
      compFn ">=" (Spec.score4 .jaccard ["a", "b"] ["a", "b"]) (.int 1) = true) := by
  have h := (refine_setsim_wide .jaccard exArgs {} exToks1 4 exL exR (Or.inl rfl) (Or.inl rfl) (.float (1 / 2 ^ 30)) (.int 1)
    (by rw [thrVal_int1]; show (1 / 2 ^ 30 : Rat) ≤ 1; norm_num) (thrSmall .jaccard) .intOne exValidSmall exScope1
    fr₁ fr₂ h₁ h₂ exLs exRs exLs_mem exRs_mem exLs_present exRs_present exPair_nonempty1
    (exNSV_int _ _) (exNSV_int _ _)).1
  rw [exLs_tokens1, exRs_tokens1] at h
  exact h

/-- transposition at threshold `2⁻³⁰` -/
example (fr fr' : Frame)
    (h : (setSimJoinPy .jaccard exArgsSmall {} exToks 4).result = .ok fr)
    (h' : (setSimJoinPy .jaccard exArgsSmall.swap {} exToks 4).result = .ok fr') :
    (InResult fr (.int 1) (.int 7) ↔ InResult fr' (.int 7) (.int 1)) ∧ SameScore fr fr' (.int 1) (.int 7) := by
  have := transpose_setsim_wide .jaccard exArgsSmall {} exToks 4 exL exR (Or.inl rfl) exValidSmall (thrSmall .jaccard)
    exScope EntryLaws.Ex.exScopeL 4 fr fr' h h' exLs exRs exLs_mem exRs_mem exLs_present exRs_present
    (fun _ => exNSV _ (by decide) _ (by norm_num))
  exact ⟨this.1, this.2 rfl⟩

/-- … and the laws speak about something: the pair (1, 7) IS in the result of the call at threshold `2⁻³⁰` and in the
    result of the call at the int threshold `1` -/
example (fr frI : Frame)
    (h : (setSimJoinPy .jaccard exArgsSmall {} exToks 4).result = .ok fr)
    (hI : (setSimJoinPy .jaccard exArgsInt {} exToks1 4).result = .ok frI) :
    InResult fr (.int 1) (.int 7) ∧ InResult frI (.int 1) (.int 7) := by
  constructor
  · refine (setsim_iff_wide .jaccard exArgsSmall {} exToks 4 exL exR (Or.inl rfl) exValidSmall (thrSmall .jaccard) exScope
      fr h exLs exRs exLs_mem exRs_mem exLs_present exRs_present exPair_nonempty (exNSV _ (by decide) _ (by norm_num))).1.2 ?_
    show Spec.qualRounded .jaccard ">=" (.float (1 / 2 ^ 30)) (tokensOf (exToks true) exL exArgs.lAttr exLs)
      (tokensOf (exToks true) exR exArgs.rAttr exRs) = true
    rw [exLs_tokens, exRs_tokens]
    exact EntryLaws.Ex.exQualRounded _ (by norm_num)
  · refine (setsim_iff_wide .jaccard exArgsInt {} exToks1 4 exL exR (Or.inl rfl) exValidInt .intOne exScope1
      frI hI exLs exRs exLs_mem exRs_mem exLs_present exRs_present exPair_nonempty1 (exNSV_int _ _)).1.2 ?_
    show Spec.qualRounded .jaccard ">=" (.int 1) (tokensOf (exToks1 true) exL exArgs.lAttr exLs)
      (tokensOf (exToks1 true) exR exArgs.rAttr exRs) = true
    rw [exLs_tokens1, exRs_tokens1]
    decide +kernel

end ExSetSimWide

section AxiomCheck
#print axioms setsim_iff_wide
#print axioms partition_setsim_wide
#print axioms refine_setsim_wide
#print axioms transpose_setsim_wide
end AxiomCheck

end SSJ.Props.C13

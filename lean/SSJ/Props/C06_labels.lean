/-
  C06 (continued) — `filter_candset` of the five concrete filters, WITH the index-label clause.

  PROPERTY (C06).  "For every filter, filter_candset returns exactly the sub-table of the candidate set (same columns, order
  and index labels) whose rows reference value pairs that filter_pair does not drop."

  `C06.candset_rowwise` states this for ANY `filter_pair` function `fp`, including the index labels; its two instances in
  SSJ/Props/C06.lean, `candset_rowwise_filter` (Size / Prefix / Position / SuffixFilter, `filterPairPy k f tok`) and
  `candset_rowwise_overlap` (OverlapFilter, `overlapFilterPairPy f tok`), dropped the last conjunct.  This file restates
  the two instances with ALL conjuncts of the generic theorem: same columns, same dtypes, the rows are the candidate rows
  not dropped by `filterPair` / `overlapFilterPair` in candidate order, and — for a well-formed candidate set (one index
  label per row) — the result is well-formed and every kept row keeps its index label
  (`fr.rows.zip fr.index` is the filtered `c.rows.zip c.index`).
  They are instantiations of the generic candset theorem `C06.candset_rowwise`, nothing else: the only thing to check
  is that the concrete `filter_pair` does not raise on the referenced pairs, which holds when the two filter columns hold
  only strings and missing values (`filterPairPy_columns`, `overlapFilterPairPy_columns`).

  MODEL: `filterCandset a fp cpu` (`Filter.filter_candset`, SSJ/Model/Matcher.lean).
  HYPOTHESES: those of `C06.candset_rowwise` (validations `hv1 … hv10` pass, every candidate row's two keys occur in
  the tables — `lval cr` / `rval cr` are the join values of the referenced rows —, fewer than 2⁴⁰ candidate rows), plus
  string filter columns (`StrColumn`); any filter object, tokenizer, `n_jobs`, cpu count.
  NOT COVERED: non-string values (TypeError: `C15.filter_candset_nonstring_raises`).
-/
import SSJ.Props.C06

namespace SSJ.Props.C06
open SSJ SSJ.Props

/-- `candset_rowwise` for Size / Prefix / Position / SuffixFilter with every conjunct: same columns and dtypes, the rows
    are the candidate rows `filterPair` does not drop (in order), and every kept row keeps its index label -/
theorem candset_rowwise_filter_labels (k : FilterKind) (f : FilterObj) (tok : String → List Tok)
    (a : CandsetArgs) (cpu : Int) (c l r : Frame)
    (hc : a.candset = some c) (hlt : a.ltable = some l) (hrt : a.rtable = some r)
    (hv1 : validateAttr a.candLKey c = .ok ()) (hv2 : validateAttr a.candRKey c = .ok ())
    (hv3 : validateAttr a.lKey l = .ok ()) (hv4 : validateAttr a.rKey r = .ok ())
    (hv5 : validateAttr a.lAttr l = .ok ()) (hv6 : validateAttr a.rAttr r = .ok ())
    (hv7 : validateAttrType a.lAttr l = .ok ()) (hv8 : validateAttrType a.rAttr r = .ok ())
    (hv9 : validateKeyAttr a.lKey l = .ok ()) (hv10 : validateKeyAttr a.rKey r = .ok ())
    (lval rval : Row → Cell)
    (hl : ∀ cr ∈ c.rows, ∃ ls ∈ l.rows, (keyOf l a.lKey ls).pyEq (cr.cell (c.colIdx a.candLKey)) = true ∧
                                        valOf l a.lAttr ls = lval cr)
    (hr : ∀ cr ∈ c.rows, ∃ rs ∈ r.rows, (keyOf r a.rKey rs).pyEq (cr.cell (c.colIdx a.candRKey)) = true ∧
                                        valOf r a.rAttr rs = rval cr)
    (hsl : StrColumn l a.lAttr) (hsr : StrColumn r a.rAttr)
    (hlen : c.rows.length < 2 ^ 40) :
    ∃ fr, filterCandset a (filterPairPy k f tok) cpu = .ok fr ∧ fr.columns = c.columns ∧ fr.dtypes = c.dtypes ∧
      fr.rows = c.rows.filter (fun cr => !filterPair k f tok (lval cr) (rval cr)) ∧
      (c.index.length = c.rows.length →
        fr.index.length = fr.rows.length ∧
        fr.rows.zip fr.index = (c.rows.zip c.index).filter (fun p => !filterPair k f tok (lval p.1) (rval p.1))) :=
  candset_rowwise a _ (filterPair k f tok) cpu c l r hc hlt hrt hv1 hv2 hv3 hv4 hv5 hv6 hv7 hv8 hv9 hv10 lval rval hl hr
    (fun cr hcr => by
      obtain ⟨ls, hls, -, e1⟩ := hl cr hcr
      obtain ⟨rs, hrs, -, e2⟩ := hr cr hcr
      rw [← e1, ← e2]
      exact filterPairPy_columns k f tok l r a.lAttr a.rAttr hsl hsr ls hls rs hrs) hlen

/-- `candset_rowwise` for the OverlapFilter with every conjunct: same columns and dtypes, the rows are the candidate
    rows `overlapFilterPair` does not drop (in order), and every kept row keeps its index label -/
theorem candset_rowwise_overlap_labels (f : OverlapFilterObj) (tok : String → List Tok)
    (a : CandsetArgs) (cpu : Int) (c l r : Frame)
    (hc : a.candset = some c) (hlt : a.ltable = some l) (hrt : a.rtable = some r)
    (hv1 : validateAttr a.candLKey c = .ok ()) (hv2 : validateAttr a.candRKey c = .ok ())
    (hv3 : validateAttr a.lKey l = .ok ()) (hv4 : validateAttr a.rKey r = .ok ())
    (hv5 : validateAttr a.lAttr l = .ok ()) (hv6 : validateAttr a.rAttr r = .ok ())
    (hv7 : validateAttrType a.lAttr l = .ok ()) (hv8 : validateAttrType a.rAttr r = .ok ())
    (hv9 : validateKeyAttr a.lKey l = .ok ()) (hv10 : validateKeyAttr a.rKey r = .ok ())
    (lval rval : Row → Cell)
    (hl : ∀ cr ∈ c.rows, ∃ ls ∈ l.rows, (keyOf l a.lKey ls).pyEq (cr.cell (c.colIdx a.candLKey)) = true ∧
                                        valOf l a.lAttr ls = lval cr)
    (hr : ∀ cr ∈ c.rows, ∃ rs ∈ r.rows, (keyOf r a.rKey rs).pyEq (cr.cell (c.colIdx a.candRKey)) = true ∧
                                        valOf r a.rAttr rs = rval cr)
    (hsl : StrColumn l a.lAttr) (hsr : StrColumn r a.rAttr)
    (hlen : c.rows.length < 2 ^ 40) :
    ∃ fr, filterCandset a (overlapFilterPairPy f tok) cpu = .ok fr ∧ fr.columns = c.columns ∧ fr.dtypes = c.dtypes ∧
      fr.rows = c.rows.filter (fun cr => !overlapFilterPair f tok (lval cr) (rval cr)) ∧
      (c.index.length = c.rows.length →
        fr.index.length = fr.rows.length ∧
        fr.rows.zip fr.index = (c.rows.zip c.index).filter (fun p => !overlapFilterPair f tok (lval p.1) (rval p.1))) :=
  candset_rowwise a _ (overlapFilterPair f tok) cpu c l r hc hlt hrt hv1 hv2 hv3 hv4 hv5 hv6 hv7 hv8 hv9 hv10 lval rval
    hl hr
    (fun cr hcr => by
      obtain ⟨ls, hls, -, e1⟩ := hl cr hcr
      obtain ⟨rs, hrs, -, e2⟩ := hr cr hcr
      rw [← e1, ← e2]
      exact overlapFilterPairPy_columns f tok l r a.lAttr a.rAttr hsl hsr ls hls rs hrs) hlen

/-! ### non-vacuity: the candidate set `Example.C` of C06.lean with the NON-DEFAULT index labels 10, 11, 12 -/
namespace Example

/-- join values of the rows a candidate row of `C` references -/
def lval : Row → Cell := fun cr => if cr.cell 1 = .int 1 then .str "a b" else .str ""
def rval : Row → Cell := fun cr =>
  if cr.cell 2 = .int 7 then .str "b c" else if cr.cell 2 = .int 8 then .str "" else .str "b"

/-- OverlapFilter (`overlap_size = 1`, `>=`): the hypotheses hold, the candidate set is well-formed, and the kept rows
    (0 and 2) carry their old labels 10 and 12 -/
example : ∃ fr, filterCandset CA (overlapFilterPairPy F tk) 1 = .ok fr ∧
    fr.rows.zip fr.index = [([.int 0, .int 1, .int 7], .int 10), ([.int 2, .int 1, .int 9], .int 12)] := by
  obtain ⟨fr, h, -, -, -, hidx⟩ := candset_rowwise_overlap_labels F tk CA 1 C L R rfl rfl rfl (by decide) (by decide)
    (by decide) (by decide) (by decide) (by decide) (by decide) (by decide) (by decide) (by decide) lval rval (by decide)
    (by decide) (by decide) (by decide) (by decide)
  refine ⟨fr, h, ?_⟩
  rw [(hidx (by decide)).2]
  decide

/-- SizeFilter under OVERLAP with threshold 1 on the same call: all three rows are looked at, rows 0 and 2 stay with
    their labels (the pair of empty strings, row 1, has no token and is dropped under OVERLAP, C09) -/
example : ∃ fr, filterCandset CA (filterPairPy .size { cfg := { measure := .overlap, threshold := .int 1 } } tk) 1 = .ok fr ∧
    fr.rows.zip fr.index = [([.int 0, .int 1, .int 7], .int 10), ([.int 2, .int 1, .int 9], .int 12)] := by
  obtain ⟨fr, h, -, -, -, hidx⟩ := candset_rowwise_filter_labels .size
    { cfg := { measure := .overlap, threshold := .int 1 } } tk CA 1 C L R rfl rfl rfl (by decide) (by decide)
    (by decide) (by decide) (by decide) (by decide) (by decide) (by decide) (by decide) (by decide) lval rval (by decide)
    (by decide) (by decide) (by decide) (by decide)
  refine ⟨fr, h, ?_⟩
  rw [(hidx (by decide)).2]
  decide

end Example

/-- info: 'SSJ.Props.C06.candset_rowwise_filter_labels' depends on axioms: [propext, Classical.choice, Quot.sound] -/
#guard_msgs in #print axioms candset_rowwise_filter_labels
/-- info: 'SSJ.Props.C06.candset_rowwise_overlap_labels' depends on axioms: [propext, Classical.choice, Quot.sound] -/
#guard_msgs in #print axioms candset_rowwise_overlap_labels

end SSJ.Props.C06

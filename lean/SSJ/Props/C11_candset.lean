/-
  C11 (companion) — Output tables have the documented columns and faithfully project source rows:
                    `apply_matcher` and `filter_candset`.

  "A join or filter_tables result has exactly the columns _id, prefixed left key, prefixed right key, the requested
   left output attributes, the requested right output attributes (each list with the key attribute and repeats
   removed, order kept, names prefixed), and _sim_score iff requested.  In every row each projected value equals
   the value of that attribute in the source row identified by the row's key, including when the join attribute
   itself or no attribute at all is requested."
  `SSJ/Props/C11.lean` proves this for the joins and `filter_tables`; its header lists the two functions that work on
  a CANDIDATE SET as not covered.  This file covers them.

  MODEL FUNCTIONS (`SSJ/Model/Matcher.lean`).
    `applyMatcher a t toks sim cpu`  — `apply_matcher(candset, candset_l_key_attr, candset_r_key_attr, ltable, rtable,
        l_key_attr, r_key_attr, l_match_attr, r_match_attr, tokenizer, sim_function, threshold, comp_op, allow_missing,
        l_out_attrs, r_out_attrs, l_out_prefix, r_out_prefix, out_sim_score, n_jobs)`;
    `filterCandset a fp cpu`         — `Filter.filter_candset(candset, …)` of any filter, given as its `filter_pair` `fp`.

  WHAT THE TWO FUNCTIONS RETURN (they differ, in the real code as in the model).
    * `filter_candset` returns a SUB-FRAME of the candset (`candset[valid_rows]`): the candset's own columns, and
      rows that are rows of the candset, unchanged and in candset order
        — `candset_filter_columns`, `candset_filter_rows_sublist`.
    * `apply_matcher` does NOT return the candset's columns plus a score (unless the candset is empty, when it returns
      the candset object itself): it BUILDS A NEW TABLE from the two source tables, with exactly the header of a join
      — `_id`, prefixed left key, prefixed right key, prefixed requested left / right attributes (key and repeats
      removed, order kept), `_sim_score` iff `out_sim_score` — i.e. `C11.documentedColumns` for its arguments.  Other
      columns of the candset are dropped; the key columns are renamed to prefix + table key name.
        — `matcher_columns`, `matcher_empty_candset`.
      Counterexample to "candset columns followed by `_sim_score`": `matcher_columns_not_candset_columns` below (a
      candset with an extra column `"note"` and key columns named `"a"`, `"b"`).
      Every result row stems from a candidate row, in candset order: it carries that candidate's `_id` (cell 0) and
      its two keys, followed by the requested attribute values of THE source rows carrying these keys (the faithful
      projection of C11), followed by one score cell iff `out_sim_score`
        — `matcher_rows_are_candset_rows`; row width = header width: `matcher_row_width`.

  HYPOTHESES (as in C05 / C15).
    * `validateMatcher a t = .ok (c, l, r)` resp. `validateCandset a = .ok (c, l, r)`: the validation block accepts
      (characterised by the documented preconditions in `C15.apply_matcher_accepts_iff` / `filter_candset_accepts_iff`);
    * every candidate key occurs in its table (otherwise KeyError, in Python as in the model) — up to Python
      equality (`PyMem`) for the column / width theorems; `matcher_rows_are_candset_rows` and `matcher_row_width`
      are stated for candidate keys IDENTICAL to table keys (for merely Python-equal keys the output row carries,
      without output attributes, the candidate's own key cells: `C05_keys.lean`);
    * fewer than 2⁴⁰ candidate rows (binary64 precision limit of `split_table`'s chunk boundaries).
    * the candset's first column is its `_id` column (cell 0 of a candidate row), as in every join / filter output.
    * nothing raises in the body: for `apply_matcher` with a tokenizer both match columns hold only strings and missing
      values (`hstr`; else TypeError, `C15_body`); for `filter_candset` the filter's `filter_pair` — a Python call
      `fp : Cell → Cell → Except PyErr Bool` — does not raise on pairs of values of the two columns (`hfp`; for
      `filterPairPy` / `overlapFilterPairPy` this is implied by string columns, `SSJ.filterPairPy_columns`).
      `matcher_empty_candset` needs neither (the candset is returned before anything is tokenized).
  Everything else is arbitrary: similarity function, tokenizer, threshold, operator, `allow_missing`, output attribute
  lists (absent, empty, with the key, with repeats), prefixes, `n_jobs`, cpu count.

  NOT COVERED: dtypes of `apply_matcher`'s result, the pandas index of either result (C05's header explains how
  `apply_matcher`'s index depends on `n_jobs`; `filter_candset` keeps the candset's labels).  WHICH candidate rows are
  kept is C05 (`keeps_exactly`) resp. C04 (`candset_keeps_iff`).
-/
import SSJ.Proofs.Gaps3
import SSJ.Props.C11

namespace SSJ.Props.C11
open SSJ SSJ.Props

/-! ## apply_matcher -/

/-- COLUMNS of `apply_matcher`: for an empty candset the candset itself is returned (its columns); otherwise the
    result has exactly the documented columns of a join with these arguments — `_id`, prefixed keys, prefixed
    requested left and right attributes, `_sim_score` iff `out_sim_score` — whatever columns the candset has. -/
theorem matcher_columns (a : MatcherArgs) (t : Option TokObj) (toks : TokFn) (sim : SimArg → SimArg → PyV) (cpu : Int)
    (c l r : Frame) (hv : validateMatcher a t = .ok (c, l, r))
    (hl : ∀ cr ∈ c.rows, PyMem (cr.cell (c.colIdx a.candLKey)) (l.col a.lKey))
    (hr : ∀ cr ∈ c.rows, PyMem (cr.cell (c.colIdx a.candRKey)) (r.col a.rKey))
    (hlen : c.rows.length < 2 ^ 40)
    (hstr : t.isSome → StrColumn l a.lAttr ∧ StrColumn r a.rAttr) :
    ∃ fr, applyMatcher a t toks sim cpu = .ok fr ∧
      fr.columns = if c.rows.isEmpty then c.columns else documentedColumns a.toTableArgs a.outSimScore := by
  obtain ⟨fr, hfr, hcols, -⟩ := applyMatcher_rows' a t toks sim cpu c l r hv hl hr hlen hstr
  refine ⟨fr, hfr, ?_⟩
  rw [hcols]
  rfl

/-- `row` is the output row `apply_matcher` makes from the candidate row `cr`: `cr`'s `_id`, then the projection
    (C11's `projectedRow`: the two keys and the requested left / right attribute values) of a left source row `ls` and
    a right source row `rs`, then one score cell iff `out_sim_score`; `ls` and `rs` carry the keys `cr` names in its
    two key columns, and they are THE rows of the two tables carrying the output row's keys. -/
def FromCandidate (a : MatcherArgs) (c l r : Frame) (cr row : Row) : Prop :=
  ∃ ls ∈ l.rows, ∃ rs ∈ r.rows, ∃ s : Cell,
    row = cr.cell 0 :: (projectedRow a.toTableArgs l r ls rs ++ (if a.outSimScore then [s] else [])) ∧
    row.cell 0 = cr.cell 0 ∧
    rowKeys row = (cr.cell (c.colIdx a.candLKey), cr.cell (c.colIdx a.candRKey)) ∧
    keyOf l a.lKey ls = cr.cell (c.colIdx a.candLKey) ∧ keyOf r a.rKey rs = cr.cell (c.colIdx a.candRKey) ∧
    (∀ ls' ∈ l.rows, keyOf l a.lKey ls' = (rowKeys row).1 → ls' = ls) ∧
    (∀ rs' ∈ r.rows, keyOf r a.rKey rs' = (rowKeys row).2 → rs' = rs)

/-- ROWS of `apply_matcher`: the result's rows correspond, one to one and IN CANDSET ORDER, to a sublist `kept` of the
    candidate rows, each result row being made `FromCandidate` its partner: the candidate's `_id` and keys, the
    faithfully projected attribute values of the two source rows these keys identify, and the score cell iff
    requested. -/
theorem matcher_rows_are_candset_rows (a : MatcherArgs) (t : Option TokObj) (toks : TokFn) (sim : SimArg → SimArg → PyV)
    (cpu : Int) (c l r : Frame) (hv : validateMatcher a t = .ok (c, l, r))
    (hl : ∀ cr ∈ c.rows, cr.cell (c.colIdx a.candLKey) ∈ l.col a.lKey)
    (hr : ∀ cr ∈ c.rows, cr.cell (c.colIdx a.candRKey) ∈ r.col a.rKey)
    (hlen : c.rows.length < 2 ^ 40)
    (hstr : t.isSome → StrColumn l a.lAttr ∧ StrColumn r a.rAttr) :
    ∃ fr kept, applyMatcher a t toks sim cpu = .ok fr ∧ kept.Sublist c.rows ∧
      List.Forall₂ (FromCandidate a c l r) kept fr.rows := by
  obtain ⟨fr, kept, hfr, -, hs, hf⟩ := applyMatcher_kept a t toks sim cpu c l r hv hl hr hlen hstr
  have hV := (validateMatcher_ok_iff a t c l r).1 hv
  refine ⟨fr, kept, hfr, hs, hf.imp ?_⟩
  rintro cr row ⟨ls, hls, rs, hrs, s, hkl, hkr, rfl⟩
  have hkeys : rowKeys (matcherOutRow a l r (cr.cell 0) ls rs s)
      = (cr.cell (c.colIdx a.candLKey), cr.cell (c.colIdx a.candRKey)) := by
    rw [← hkl, ← hkr]; rfl
  refine ⟨ls, hls, rs, hrs, s, ?_, rfl, hkeys, hkl, hkr, ?_, ?_⟩
  · simp [matcherOutRow, projectedRow, outAttrs, keyOf, valOf, MatcherArgs.toTableArgs]
  · intro ls' hls' he
    rw [hkeys] at he
    exact List.inj_on_of_nodup_map hV.lKeyValid.nodup hls' hls (he.trans hkl.symm)
  · intro rs' hrs' he
    rw [hkeys] at he
    exact List.inj_on_of_nodup_map hV.rKeyValid.nodup hrs' hrs (he.trans hkr.symm)

/-- EMPTY CANDSET: `apply_matcher` returns the candset object itself (`if candset.empty: return candset`) — its own
    columns, WITHOUT a `_sim_score` column even when `out_sim_score` is set. -/
theorem matcher_empty_candset (a : MatcherArgs) (t : Option TokObj) (toks : TokFn) (sim : SimArg → SimArg → PyV)
    (cpu : Int) (c l r : Frame) (hv : validateMatcher a t = .ok (c, l, r)) (hemp : c.rows = []) :
    applyMatcher a t toks sim cpu = .ok c := by
  have hV := (validateMatcher_ok_iff a t c l r).1 hv
  obtain ⟨hv1, hv2, hv3, hv4, hv5, hv6, hv7, hv8, hv9, hv10, hv11⟩ := hV.validations
  exact applyMatcher_empty a t toks sim cpu c l r hV.candset hV.ltable hV.rtable hv1 hv2 hv3 hv4 hv5 hv6 hv7 hv8 hv9
    hv10 hv11 (by rw [hemp]; rfl)

/-- consequently, for a non-empty candset, every row is exactly as wide as the header -/
theorem matcher_row_width (a : MatcherArgs) (t : Option TokObj) (toks : TokFn) (sim : SimArg → SimArg → PyV)
    (cpu : Int) (c l r : Frame) (hv : validateMatcher a t = .ok (c, l, r))
    (hl : ∀ cr ∈ c.rows, cr.cell (c.colIdx a.candLKey) ∈ l.col a.lKey)
    (hr : ∀ cr ∈ c.rows, cr.cell (c.colIdx a.candRKey) ∈ r.col a.rKey)
    (hlen : c.rows.length < 2 ^ 40) (hne : c.rows ≠ [])
    (hstr : t.isSome → StrColumn l a.lAttr ∧ StrColumn r a.rAttr) :
    ∃ fr, applyMatcher a t toks sim cpu = .ok fr ∧ ∀ row ∈ fr.rows, row.length = fr.columns.length := by
  obtain ⟨fr, kept, hfr, -, hf⟩ := matcher_rows_are_candset_rows a t toks sim cpu c l r hv hl hr hlen hstr
  obtain ⟨fr', hfr', hcols⟩ := matcher_columns a t toks sim cpu c l r hv
    (fun cr hcr => PyMem.of_mem (hl cr hcr)) (fun cr hcr => PyMem.of_mem (hr cr hcr)) hlen hstr
  rw [hfr] at hfr'
  cases Except.ok.inj hfr'
  refine ⟨fr, hfr, ?_⟩
  have hemp : c.rows.isEmpty = false := by
    cases h : c.rows with
    | nil => exact absurd h hne
    | cons _ _ => rfl
  rw [hcols, hemp]
  intro row hrow
  obtain ⟨cr, -, ls, -, rs, -, s, e, -⟩ := forall₂_mem_right hf row hrow
  rw [e]
  unfold documentedColumns projectedRow
  cases a.outSimScore <;> simp [MatcherArgs.toTableArgs]

/-! ## filter_candset -/

/-- COLUMNS of `filter_candset`: the candset's own columns (and dtypes), for every filter. -/
theorem candset_filter_columns (a : CandsetArgs) (fp : Cell → Cell → Except PyErr Bool) (cpu : Int) (c l r : Frame)
    (hv : validateCandset a = .ok (c, l, r))
    (hl : ∀ cr ∈ c.rows, PyMem (cr.cell (c.colIdx a.candLKey)) (l.col a.lKey))
    (hr : ∀ cr ∈ c.rows, PyMem (cr.cell (c.colIdx a.candRKey)) (r.col a.rKey))
    (hlen : c.rows.length < 2 ^ 40)
    (hfp : ∀ ls ∈ l.rows, ∀ rs ∈ r.rows, ∃ b, fp (valOf l a.lAttr ls) (valOf r a.rAttr rs) = .ok b) :
    ∃ fr, filterCandset a fp cpu = .ok fr ∧ fr.columns = c.columns ∧ fr.dtypes = c.dtypes := by
  obtain ⟨fr, hfr, h1, h2, -⟩ := filterCandset_total a fp cpu c l r hv hl hr hlen hfp
  exact ⟨fr, hfr, h1, h2⟩

/-- ROWS of `filter_candset`: a sublist of the candset's rows — every result row IS a candidate row, all its cells
    unchanged (the `_id`, the keys and whatever other columns the candset carries), in candset order. -/
theorem candset_filter_rows_sublist (a : CandsetArgs) (fp : Cell → Cell → Except PyErr Bool) (cpu : Int) (c l r : Frame)
    (hv : validateCandset a = .ok (c, l, r))
    (hl : ∀ cr ∈ c.rows, PyMem (cr.cell (c.colIdx a.candLKey)) (l.col a.lKey))
    (hr : ∀ cr ∈ c.rows, PyMem (cr.cell (c.colIdx a.candRKey)) (r.col a.rKey))
    (hlen : c.rows.length < 2 ^ 40)
    (hfp : ∀ ls ∈ l.rows, ∀ rs ∈ r.rows, ∃ b, fp (valOf l a.lAttr ls) (valOf r a.rAttr rs) = .ok b) :
    ∃ fr, filterCandset a fp cpu = .ok fr ∧ fr.rows.Sublist c.rows := by
  obtain ⟨fr, hfr, -, -, h⟩ := filterCandset_total a fp cpu c l r hv hl hr hlen hfp
  exact ⟨fr, hfr, h⟩

/-! ## Non-vacuity, and the counterexample to "candset columns plus `_sim_score`" -/

section Examples

def cxL : Frame := { columns := ["id", "name", "zip"], dtypes := ["int64", "object", "object"],
                     rows := [[.int 1, .str "ann", .str "x"], [.int 2, .missing, .str "y"]] }
def cxR : Frame := { columns := ["rid", "title"], dtypes := ["int64", "object"],
                     rows := [[.int 7, .str "ann"], [.int 8, .str "bob"]] }
/-- a candset whose key columns are called `a`, `b` and which carries an extra column `note` -/
def cxC : Frame := { columns := ["_id", "a", "b", "note"],
                     rows := [[.int 0, .int 1, .int 7, .str "p"], [.int 1, .int 1, .int 8, .str "q"],
                              [.int 2, .int 2, .int 7, .str "r"]] }
def cxArgs : MatcherArgs :=
  { candset := some cxC, candLKey := "a", candRKey := "b", ltable := some cxL, rtable := some cxR,
    lKey := "id", rKey := "rid", lAttr := "name", rAttr := "title", threshold := .int 1, compOp := ">=",
    lOut := some ["zip", "id", "zip"], allowMissing := true }
/-- exact-match "similarity" on the raw values -/
def cxSim : SimArg → SimArg → PyV := fun x y => if x = y then .int 1 else .int 0

/-- the hypotheses are satisfiable -/
example : validateMatcher cxArgs none = .ok (cxC, cxL, cxR) := by decide
example : ∀ cr ∈ cxC.rows, cr.cell (cxC.colIdx cxArgs.candLKey) ∈ cxL.col cxArgs.lKey := by decide
example : ∀ cr ∈ cxC.rows, cr.cell (cxC.colIdx cxArgs.candRKey) ∈ cxR.col cxArgs.rKey := by decide

/-- COUNTEREXAMPLE: the result of `apply_matcher` on this candset has the columns of a join, not the candset's
    columns followed by `_sim_score` — for every similarity function, tokenization and cpu count. -/
theorem matcher_columns_not_candset_columns (toks : TokFn) (sim : SimArg → SimArg → PyV) (cpu : Int) :
    ∃ fr, applyMatcher cxArgs none toks sim cpu = .ok fr ∧
      fr.columns = ["_id", "l_id", "r_rid", "l_zip", "_sim_score"] ∧
      fr.columns ≠ cxC.columns ++ ["_sim_score"] := by
  obtain ⟨fr, hfr, hcols⟩ := matcher_columns cxArgs none toks sim cpu cxC cxL cxR (by decide) (by decide) (by decide)
    (by decide) (fun h => by cases h)
  refine ⟨fr, hfr, ?_, ?_⟩
  · rw [hcols]; decide
  · rw [hcols]; decide

/-- the concrete call: candidates 0 (equal names, score 1) and 2 (missing left value, kept by `allow_missing`) survive;
    each row is the candidate's `_id`, its keys, the requested `zip` of THE left row, and the score -/
example : applyMatcher cxArgs none (fun _ _ => []) cxSim 4 =
    .ok { columns := ["_id", "l_id", "r_rid", "l_zip", "_sim_score"]
          index := [.int 0, .int 1]
          rows := [[.int 0, .int 1, .int 7, .str "x", .int 1], [.int 2, .int 2, .int 7, .str "y", .missing]] } := by
  decide

/-- `filter_candset` on the same candset with a filter dropping every pair whose two values differ: the surviving
    rows are candset rows, extra column included -/
def cxCandArgs : CandsetArgs :=
  { candset := some cxC, candLKey := "a", candRKey := "b", ltable := some cxL, rtable := some cxR,
    lKey := "id", rKey := "rid", lAttr := "name", rAttr := "title" }
example : validateCandset cxCandArgs = .ok (cxC, cxL, cxR) := by decide
example : filterCandset cxCandArgs (fun x y => .ok (x != y)) 4 =
    .ok { cxC with index := [.missing], rows := [[.int 0, .int 1, .int 7, .str "p"]] } := by decide

end Examples

section AxiomCheck
#print axioms matcher_columns
#print axioms matcher_rows_are_candset_rows
#print axioms matcher_row_width
#print axioms matcher_empty_candset
#print axioms candset_filter_columns
#print axioms candset_filter_rows_sublist
#print axioms matcher_columns_not_candset_columns
end AxiomCheck

end SSJ.Props.C11

/-
  C13 (companion) — Joins obey transposition …: the rows stemming from MISSING join values.

  "Swapping the two tables yields the same pairs with keys swapped and identical scores.  … Quantifier: all tables, all
   six joins …"
  `SSJ/Props/C13.lean` proves the transposition law (`transpose_*`) per pair of source rows with PRESENT join values and
  lists "rows stemming from missing join values (C08)" under NOT COVERED.  With `allow_missing=True` a join's result
  additionally contains one row for every pair with a missing join value on at least one side (C08); this file shows
  that transposition swaps these rows too.

  MODEL.  The six joins of lean/SSJ/Model/Frame.lean; `a.swap` is the call with the two tables and everything attached to a
  side exchanged (`SSJ/Proofs/EntryLaws.lean`, unfolded in C13.lean).  The generic statement is about any two entry points
  in the sense of `SSJ.TableCall` (vocabulary of C08): `hjoin : TableCall jcall a.toTableArgs l r a.outSimScore` (a join on
  the arguments `a`), `hjoin' : TableCall jcall' a.swap.toTableArgs r l a.outSimScore` (a join on the swapped arguments);
  the four instances `transpose_missing_setsim` (jaccard / cosine / dice), `transpose_missing_overlap`,
  `transpose_missing_ovc`, `transpose_missing_ed` spell it out for the six joins.

  WHAT IS PROVED, for source rows `ls ∈ l.rows`, `rs ∈ r.rows` with a missing join value on at least one side:
    `transpose_missing_pairs` (both calls with `allow_missing=True`):
      * the result `J` has EXACTLY ONE row naming `(key ls, key rs)` and the transposed result `J'` has EXACTLY ONE row
        naming `(key rs, key ls)` — "the same pairs with keys swapped";
      * apart from `_id`, the former is  `[kl, kr] ++ L ++ R ++ [NaN]`  and the latter  `[kr, kl] ++ R ++ L ++ [NaN]`,
        `L` / `R` the requested output attributes of `ls` / `rs` (`missing_row_swapped`), the NaN present iff a score
        column is requested — so the scores are identical (`SameScore`: NaN on both sides);
    `transpose_no_missing_pairs` (both calls with `allow_missing=False`): neither result names the pair.

  HYPOTHESES: both calls are entry points on valid arguments (validity of the swapped call is DERIVED in the instances:
  `EntryLaws.validateJoin_swap`, …) and returned the frames named; `edit_distance_join`: finite numeric threshold
  (`math.floor(inf)` raises, C08).  No hypothesis on tokenizer, sizes, thresholds, operators, `n_jobs`, cpu counts (the
  two calls may differ in both), output attributes, prefixes, or the distribution of missing values.

  NOT COVERED: the position and `_id` of these rows (C08: after the present pairs, in the order of `missing_positions` —
  which is NOT invariant under transposition: the left table is the outer loop in both calls; C10: `_id` = 0..n-1).
-/
import SSJ.Proofs.PipelineMore
import SSJ.Props.C13
import SSJ.Props.C08

namespace SSJ.Props.C13
open SSJ SSJ.Props SSJ.EntryLaws SSJ.PipelineMore

/-- the number of rows of `fr` naming the key pair `(kl, kr)` -/
def rowsNaming (fr : Frame) (kl kr : Cell) : Nat :=
  (fr.rows.filter (fun row => decide (rowKeys row = (kl, kr)))).length

/-- the documented content (without `_id`) of the row a join with arguments `a` emits for a pair with a missing join
    value: keys, requested output attributes, and NaN iff a score column is requested -/
def missingRowOf (a : JoinArgs) (l r : Frame) (ls rs : Row) : Row :=
  C11.projectedRow a.toTableArgs l r ls rs ++ (if a.outSimScore then [Cell.missing] else [])

/-- the missing-pair row of the call and of the transposed call, side by side: keys exchanged, the blocks of left and
    right output attributes exchanged, the same (NaN) score cell -/
theorem missing_row_swapped (a : JoinArgs) (l r : Frame) (ls rs : Row) :
    missingRowOf a l r ls rs =
      [keyOf l a.lKey ls, keyOf r a.rKey rs] ++ (C11.outAttrs a.lOut a.lKey).map (fun c => valOf l c ls) ++
        (C11.outAttrs a.rOut a.rKey).map (fun c => valOf r c rs) ++ (if a.outSimScore then [Cell.missing] else []) ∧
    missingRowOf a.swap r l rs ls =
      [keyOf r a.rKey rs, keyOf l a.lKey ls] ++ (C11.outAttrs a.rOut a.rKey).map (fun c => valOf r c rs) ++
        (C11.outAttrs a.lOut a.lKey).map (fun c => valOf l c ls) ++ (if a.outSimScore then [Cell.missing] else []) :=
  ⟨rfl, rfl⟩

/-- the `_sim_score` (last cell) of such a row is NaN when a score column is requested -/
theorem missingRowOf_score (a : JoinArgs) (l r : Frame) (ls rs : Row) (ho : a.outSimScore = true) (row : Row)
    (h : row.drop 1 = missingRowOf a l r ls rs) : rowScore row = .missing := by
  cases row with
  | nil =>
    unfold missingRowOf at h
    rw [if_pos ho] at h
    have := congrArg List.length h
    simp at this
  | cons i tail =>
    have h' : tail = missingRowOf a l r ls rs := h
    unfold rowScore missingRowOf at *
    rw [if_pos ho] at h'
    rw [h', ← List.cons_append]
    exact List.getLastD_concat

section Generic
variable (a : JoinArgs) (l r : Frame)

/-- one call with `allow_missing=True`: exactly one row names a pair with a missing side, and it is the documented one
    (C08.missing_pair_once, C08.missing_pair_row) -/
theorem missing_pair_unique {jcall : Bool → Int → Int → Except PyErr Frame}
    (hjoin : TableCall jcall a.toTableArgs l r a.outSimScore) (nj cpu : Int) (J : Frame)
    (hJ : jcall true nj cpu = .ok J) (ls rs : Row) (hls : ls ∈ l.rows) (hrs : rs ∈ r.rows)
    (hm : ¬ Present l a.lAttr ls ∨ ¬ Present r a.rAttr rs) :
    rowsNaming J (keyOf l a.lKey ls) (keyOf r a.rKey rs) = 1 ∧
    ∀ row ∈ J.rows, rowKeys row = (keyOf l a.lKey ls, keyOf r a.rKey rs) → row.drop 1 = missingRowOf a l r ls rs := by
  have hJ1 : (J.rows.filter (fun row => decide (rowKeys row = (keyOf l a.lKey ls, keyOf r a.rKey rs)))).length = 1 :=
    C08.missing_pair_once hjoin nj cpu J hJ ls rs hls hrs hm
  obtain ⟨i, hi⟩ := C08.missing_pair_row hjoin nj cpu J hJ ls rs hls hrs hm
  refine ⟨hJ1, fun row hrow hk => ?_⟩
  have hki : rowKeys (Cell.int i :: (C11.projectedRow a.toTableArgs l r ls rs ++
      (if a.outSimScore then [Cell.missing] else []))) = (keyOf l a.lKey ls, keyOf r a.rKey rs) :=
    rowKeys_projected a.toTableArgs l r ls rs _ _
  have he := eq_of_filter_length_one _ J.rows hJ1 row _ hrow hi (decide_eq_true hk) (decide_eq_true hki)
  rw [he]
  rfl

/-- TRANSPOSITION OF THE MISSING-VALUE ROWS (`allow_missing=True` in both calls).  For source rows `ls`, `rs` with a
    missing join value on at least one side: `J` has exactly one row naming `(key ls, key rs)`, the transposed result
    `J'` exactly one naming `(key rs, key ls)`; these are the documented rows of the two calls (see
    `missing_row_swapped`), and they carry the same score cell (NaN). -/
theorem transpose_missing_pairs {jcall jcall' : Bool → Int → Int → Except PyErr Frame}
    (hjoin : TableCall jcall a.toTableArgs l r a.outSimScore)
    (hjoin' : TableCall jcall' a.swap.toTableArgs r l a.outSimScore)
    (am am' : Bool) (ham : am = true) (ham' : am' = true)
    (nj cpu nj' cpu' : Int) (J J' : Frame) (hJ : jcall am nj cpu = .ok J) (hJ' : jcall' am' nj' cpu' = .ok J')
    (ls rs : Row) (hls : ls ∈ l.rows) (hrs : rs ∈ r.rows)
    (hm : ¬ Present l a.lAttr ls ∨ ¬ Present r a.rAttr rs) :
    rowsNaming J (keyOf l a.lKey ls) (keyOf r a.rKey rs) = 1 ∧
    rowsNaming J' (keyOf r a.rKey rs) (keyOf l a.lKey ls) = 1 ∧
    (∀ row ∈ J.rows, rowKeys row = (keyOf l a.lKey ls, keyOf r a.rKey rs) → row.drop 1 = missingRowOf a l r ls rs) ∧
    (∀ row' ∈ J'.rows, rowKeys row' = (keyOf r a.rKey rs, keyOf l a.lKey ls) →
      row'.drop 1 = missingRowOf a.swap r l rs ls) ∧
    (a.outSimScore = true → SameScore J J' (keyOf l a.lKey ls) (keyOf r a.rKey rs)) := by
  subst ham ham'
  obtain ⟨h1, h2⟩ := missing_pair_unique a l r hjoin nj cpu J hJ ls rs hls hrs hm
  obtain ⟨h1', h2'⟩ := missing_pair_unique a.swap r l hjoin' nj' cpu' J' hJ' rs ls hrs hls hm.symm
  refine ⟨h1, h1', h2, h2', fun ho row hrow row' hrow' hk hk' => ?_⟩
  rw [missingRowOf_score a l r ls rs ho row (h2 row hrow hk),
    missingRowOf_score a.swap r l rs ls ho row' (h2' row' hrow' hk')]

/-- `allow_missing=False` in both calls: neither result has a row naming a pair with a missing join value. -/
theorem transpose_no_missing_pairs {jcall jcall' : Bool → Int → Int → Except PyErr Frame}
    (hjoin : TableCall jcall a.toTableArgs l r a.outSimScore)
    (hjoin' : TableCall jcall' a.swap.toTableArgs r l a.outSimScore)
    (am am' : Bool) (ham : am = false) (ham' : am' = false)
    (nj cpu nj' cpu' : Int) (J J' : Frame) (hJ : jcall am nj cpu = .ok J) (hJ' : jcall' am' nj' cpu' = .ok J')
    (ls rs : Row) (hls : ls ∈ l.rows) (hrs : rs ∈ r.rows)
    (hm : ¬ Present l a.lAttr ls ∨ ¬ Present r a.rAttr rs) :
    ¬ InResult J (keyOf l a.lKey ls) (keyOf r a.rKey rs) ∧ ¬ InResult J' (keyOf r a.rKey rs) (keyOf l a.lKey ls) := by
  subst ham ham'
  constructor
  · rintro ⟨row, hrow, hk⟩
    obtain ⟨h1, h2⟩ := C08.no_row_names_missing hjoin nj cpu J hJ row hrow
    rw [hk] at h1 h2
    rcases hm with hm | hm
    · exact hm (h1 ls hls rfl)
    · exact hm (h2 rs hrs rfl)
  · rintro ⟨row, hrow, hk⟩
    obtain ⟨h1, h2⟩ := C08.no_row_names_missing hjoin' nj' cpu' J' hJ' row hrow
    rw [hk] at h1 h2
    rcases hm with hm | hm
    · exact hm (h2 ls hls rfl)
    · exact hm (h1 rs hrs rfl)

end Generic

/-! ## the six joins -/

section Instances
variable (a : JoinArgs) (t : TokObj) (toks : TokFn) (cpu cpu' : Int) (l r : Frame)

/-- the conclusion of `transpose_missing_pairs` for the frames `J`, `J'` and the pair `ls`, `rs` -/
def MissingPairTransposed (J J' : Frame) (ls rs : Row) : Prop :=
  rowsNaming J (keyOf l a.lKey ls) (keyOf r a.rKey rs) = 1 ∧
  rowsNaming J' (keyOf r a.rKey rs) (keyOf l a.lKey ls) = 1 ∧
  (∀ row ∈ J.rows, rowKeys row = (keyOf l a.lKey ls, keyOf r a.rKey rs) → row.drop 1 = missingRowOf a l r ls rs) ∧
  (∀ row' ∈ J'.rows, rowKeys row' = (keyOf r a.rKey rs, keyOf l a.lKey ls) →
    row'.drop 1 = missingRowOf a.swap r l rs ls) ∧
  (a.outSimScore = true → SameScore J J' (keyOf l a.lKey ls) (keyOf r a.rKey rs))

/-- jaccard / cosine / dice join, `allow_missing=True` -/
theorem transpose_missing_setsim (m : Measure) (hv : validateJoin m.name a t = .ok (l, r))
    (ham : a.allowMissing = true) (J J' : Frame)
    (hJ : (setSimJoinPy m a t toks cpu).result = .ok J)
    (hJ' : (setSimJoinPy m a.swap t toks cpu').result = .ok J')
    (ls rs : Row) (hls : ls ∈ l.rows) (hrs : rs ∈ r.rows)
    (hm : ¬ Present l a.lAttr ls ∨ ¬ Present r a.rAttr rs) : MissingPairTransposed a l r J J' ls rs :=
  transpose_missing_pairs a l r (.setSim m a t toks l r hv) (.setSim m a.swap t toks r l (validateJoin_swap _ a t l r hv))
    a.allowMissing a.swap.allowMissing ham ham a.nJobs cpu a.swap.nJobs cpu' J J' hJ hJ' ls rs hls hrs hm

/-- overlap_join, `allow_missing=True` -/
theorem transpose_missing_overlap (f : OverlapFilterObj)
    (hf : mkOverlapFilter a.threshold a.compOp a.allowMissing t = .ok f)
    (hv : validateTablesAttrs a.toTableArgs = .ok (l, r)) (hk : validateOutAndKeys a.toTableArgs l r = .ok ())
    (ham : a.allowMissing = true) (J J' : Frame)
    (hJ : (overlapJoinPy a t toks cpu).result = .ok J)
    (hJ' : (overlapJoinPy a.swap t toks cpu').result = .ok J')
    (ls rs : Row) (hls : ls ∈ l.rows) (hrs : rs ∈ r.rows)
    (hm : ¬ Present l a.lAttr ls ∨ ¬ Present r a.rAttr rs) : MissingPairTransposed a l r J J' ls rs :=
  transpose_missing_pairs a l r (.overlapJoin a t toks l r f hf hv hk)
    (.overlapJoin a.swap t toks r l f hf (validateTablesAttrs_swap a l r hv) (validateOutAndKeys_swap a l r hk))
    a.allowMissing a.swap.allowMissing ham ham a.nJobs cpu a.swap.nJobs cpu' J J' hJ hJ' ls rs hls hrs hm

/-- overlap_coefficient_join, `allow_missing=True` -/
theorem transpose_missing_ovc (hv : validateJoin "OVERLAP_COEFFICIENT" a t = .ok (l, r))
    (ham : a.allowMissing = true) (J J' : Frame)
    (hJ : (overlapCoefficientJoinPy a t toks cpu).result = .ok J)
    (hJ' : (overlapCoefficientJoinPy a.swap t toks cpu').result = .ok J')
    (ls rs : Row) (hls : ls ∈ l.rows) (hrs : rs ∈ r.rows)
    (hm : ¬ Present l a.lAttr ls ∨ ¬ Present r a.rAttr rs) : MissingPairTransposed a l r J J' ls rs :=
  transpose_missing_pairs a l r (.ovc a t toks l r hv) (.ovc a.swap t toks r l (validateJoin_swap _ a t l r hv))
    a.allowMissing a.swap.allowMissing ham ham a.nJobs cpu a.swap.nJobs cpu' J J' hJ hJ' ls rs hls hrs hm

/-- edit_distance_join (finite numeric threshold), `allow_missing=True` -/
theorem transpose_missing_ed (hv : validateJoin "EDIT_DISTANCE" a t = .ok (l, r)) (hfin : FiniteNum a.threshold)
    (ham : a.allowMissing = true) (J J' : Frame)
    (hJ : (editDistanceJoinPy a t toks cpu).result = .ok J)
    (hJ' : (editDistanceJoinPy a.swap t toks cpu').result = .ok J')
    (ls rs : Row) (hls : ls ∈ l.rows) (hrs : rs ∈ r.rows)
    (hm : ¬ Present l a.lAttr ls ∨ ¬ Present r a.rAttr rs) : MissingPairTransposed a l r J J' ls rs :=
  transpose_missing_pairs a l r (.ed a t toks l r hv hfin)
    (.ed a.swap t toks r l (validateJoin_swap _ a t l r hv) hfin)
    a.allowMissing a.swap.allowMissing ham ham a.nJobs cpu a.swap.nJobs cpu' J J' hJ hJ' ls rs hls hrs hm

end Instances

/-! ## non-vacuity -/

/-! The request of `EntrySetSim.Ex` — `jaccard_join(exL, exR, 'id', 'id', 's', 's', tok, 0.5, allow_missing=True,
    n_jobs=2)`, left rows (1,"ab") (2,"") (3,NaN) (4,"x"), right rows (7,"abc") (8,"") (9,NaN) — and its transposition.
    `transpose_missing_setsim` applies to the pair (left 3 = NaN, right 7): the join has exactly one row naming (3, 7), the
    transposed join exactly one naming (7, 3), both with NaN score. -/
section NonVacuity
open EntrySetSim.Ex

example : ∃ J J', (setSimJoinPy .jaccard exArgs {} exToks 4).result = .ok J ∧
    (setSimJoinPy .jaccard exArgs.swap {} exToks 8).result = .ok J' ∧
    rowsNaming J (.int 3) (.int 7) = 1 ∧ rowsNaming J' (.int 7) (.int 3) = 1 ∧
    SameScore J J' (.int 3) (.int 7) := by
  have hv : validateJoin Measure.jaccard.name exArgs {} = .ok (exL, exR) := by decide +kernel
  obtain ⟨J, hJ⟩ := C08.setSimJoin_succeeds .jaccard exArgs {} exToks 4 exL exR hv (by decide)
  obtain ⟨J', hJ'⟩ := C08.setSimJoin_succeeds .jaccard exArgs.swap {} exToks 8 exR exL
    (validateJoin_swap _ exArgs {} exL exR hv) (by decide)
  have h := transpose_missing_setsim exArgs {} exToks 4 8 exL exR .jaccard hv rfl J J' hJ hJ'
    [.int 3, .missing] [.int 7, .str "abc"] (by decide) (by decide) (Or.inl (by unfold Present; decide))
  have hkeys : (keyOf exL exArgs.lKey [.int 3, .missing], keyOf exR exArgs.rKey [.int 7, .str "abc"]) =
      (Cell.int 3, Cell.int 7) := by decide
  obtain ⟨h1, h2, -, -, h5⟩ := h
  rw [Prod.mk.injEq] at hkeys
  rw [hkeys.1, hkeys.2] at h1 h2 h5
  exact ⟨J, J', hJ, hJ', h1, h2, h5 rfl⟩

end NonVacuity

section AxiomCheck
#print axioms missing_row_swapped
#print axioms missingRowOf_score
#print axioms missing_pair_unique
#print axioms transpose_missing_pairs
#print axioms transpose_no_missing_pairs
#print axioms transpose_missing_setsim
#print axioms transpose_missing_overlap
#print axioms transpose_missing_ovc
#print axioms transpose_missing_ed
end AxiomCheck

end SSJ.Props.C13

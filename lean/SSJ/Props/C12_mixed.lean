/-
  C12 (companion) — No call affects a later one: histories of ARBITRARY entry points.

  STATEMENT (C12).  "No join, filter, matcher, profiler or non-inplace converter call modifies the tables or candidate
  set passed to it …, and EVERY call … leaves the tokenizer configured exactly as it received it …  Consequently the
  result of a call is the same whatever calls were made before it with the same tokenizer and table objects."

  `SSJ/Props/C12.lean` proves history independence for histories of the six joins (`history_independent`) and for
  histories mixing joins with ABSTRACT read-only calls `Session.MCall.readOnly tokId f`, `f : Bool → Except PyErr Frame`
  any function of the tokenizer's current flag (`mixed_history_independent`) — never instantiated.  This file
  instantiates it: the call alphabet is the package's entry points.

  MODEL.  `SSJ/Proofs/SessionEntry.lean` (definitions only; `SessionMixed.lean` is untouched):
    `Session.ECall` — a call of a session: one of
        `.join c`                                  the six joins (`Session.Call`, as in C12.lean),
        `.filterTables k f a tok tokId toks`       Size / Prefix / Position / SuffixFilter.filter_tables (four kinds `k`),
        `.overlapFilterTables f a oss tokId toks`  OverlapFilter.filter_tables (the fifth kind),
        `.applyMatcher a tok tokId toks sim`       apply_matcher, with (`tok = some _`) or without a tokenizer,
        `.filterCandset k f a tokId toks`, `.overlapFilterCandset f a tokId toks`   filter_candset of the five filters,
        `.profileTable t attrs`                    profile_table_for_join,
        `.seriesToStr reprF c`, `.dataframeColumnToStr reprF c returnCol`   the converters with `inplace=False`;
      `tokId` names the tokenizer OBJECT the call uses (handed over directly, or held by the filter object the method
      belongs to); the object's `return_set` flag is read from the session state (`flags : List Bool`, one flag per
      tokenizer object) at the moment of the call.
    `Session.ECall.readResult cpu e flag` — what the call returns when that flag is `flag`: literally the model's entry
      point (`SSJ.filterTables`, `SSJ.overlapFilterTables`, `SSJ.applyMatcher`, `SSJ.filterCandset` with the filter's
      `filter_pair`, `Profiler.profileTable`, `Converter.seriesToStr … false`, `Converter.dataframeColumnToStr … false …`)
      applied to the call's arguments and the tokenizer in its CURRENT mode — unfolded in `entry_point_results`.
    `Session.runECall`, `Session.runE cpu flags calls` — one call / a history, threading the flags; results are
      `Session.EResult` (DataFrame-or-exception | profile | converter result), because profiler and converter do not
      return DataFrames and so do not fit `MCall.readOnly`'s result type.
    `Session.ECall.toMCall cpu e` — for the DataFrame-returning entry points, the `Session.MCall` they ARE: `.join c` for
      a join and `.readOnly tokId f` otherwise (`entry_points_are_read_only_calls`).

  WHY THE NON-JOIN CALLS ARE READ-ONLY.  In the model `filterTables`, `overlapFilterTables`, `applyMatcher`,
  `filterCandset`, `profileTable` and the converters are functions returning a bare result — not an `Outcome` with a
  `flagAfter` as the joins do: the model gives them no channel through which a flag could be handed back, mirroring the
  code, where only the `*_join_py` functions call `set_return_set`.  So for them "is `MCall.readOnly`" is a fact about
  the SHAPE of the model (theorem 1 states it, by `rfl`), and the content of C12 for them is what they READ: the flag of
  their own tokenizer at call time and nothing else of the state (`entry_point_results`,
  `result_depends_on_own_flag_only`); that the real functions indeed never write the flag is checked by the harness
  (`isolation` suite), not here.  For the joins the flag is written and restored: `C12.flag_restored`.

  WHAT IS PROVED.
    1. `entry_points_are_read_only_calls`: each DataFrame-returning non-join entry point, as an `MCall`, is
       `MCall.readOnly tokId f` with `f` the entry point as a function of the flag; `entry_call_is_mixed_call`: the
       concrete machine runs it exactly as `Session.runMCall` runs that `MCall`.
    2. `entry_point_leaves_flag`: every call of the alphabet — join or not, returning or raising — leaves the flag as
       it found it.
    3. `any_history_of_entry_points_independent` (MAIN): in ANY history of entry points, sharing tokenizer objects and
       tables freely, every call's outcome equals its outcome in isolation (run alone from the initial flags) and the
       flags end as they began.  No hypothesis.  `frame_history_is_mixed_history`: on histories of DataFrame-returning
       entry points this IS `C12.mixed_history_independent` instantiated (`runE` = `runM` of the translated calls).
    4. `result_depends_on_own_flag_only`, `tokenizer_free_calls_ignore_state`: the result of a call in a history is
       `readResult` at the initial flag of ITS tokenizer object; profiler and converter results do not depend on the
       state at all; `join_results_ignore_state`: nor do the joins' (they force the mode they need).
    5. `noninplace_converter_keeps_input`: with `inplace=False` neither converter ever returns `True` ("the given object
       now holds the converted column") — the input object is never the one that changes.

  NOT COVERED.  The converters' `inplace=True` modes (they DO modify their input, by contract — excluded by the
  property).  Mutation of DataFrame objects by the other entry points: not expressible in the model (a `Frame` is a
  value; C12.lean's header), checked by the harness.  Filter CONSTRUCTORS (`OverlapFilter(tokenizer, …)` etc.): they
  validate and store their arguments, touch no flag, and are not calls of this alphabet.
-/
import SSJ.Proofs.SessionEntry
import SSJ.Proofs.Converter
import SSJ.Props.C12

namespace SSJ.Props.C12
open SSJ SSJ.Session

/-! ## 1. The non-join entry points are read-only calls of the mixed state machine -/

/-- EACH DataFrame-returning non-join entry point is an instance of the abstract read-only call of
    `mixed_history_independent`: `MCall.readOnly tokId f`, where `f flag` is the model's entry point applied to the
    call's arguments and the tokenizer in the mode `flag` — `filter_tables` of the four filter kinds `k`,
    `OverlapFilter.filter_tables`, `apply_matcher`, `filter_candset` of the four kinds and of the overlap filter.
    (Joins stay joins; profiler and converters do not return DataFrames: `none`, handled by `Session.runE` directly.) -/
theorem entry_points_are_read_only_calls (cpu : Int) :
    (∀ c, (ECall.join c).toMCall cpu = some (.join c)) ∧
    (∀ k f a tok i toks, (ECall.filterTables k f a tok i toks).toMCall cpu =
        some (.readOnly i (fun flag => filterTables k f a { tok with returnSet := flag } toks cpu))) ∧
    (∀ f a oss i toks, (ECall.overlapFilterTables f a oss i toks).toMCall cpu =
        some (.readOnly i (fun flag => overlapFilterTables f a oss (toks flag) cpu))) ∧
    (∀ a tok i toks sim, (ECall.applyMatcher a tok i toks sim).toMCall cpu =
        some (.readOnly i (fun flag => applyMatcher a (tok.map (fun tk => { tk with returnSet := flag })) toks sim cpu))) ∧
    (∀ k f a i toks, (ECall.filterCandset k f a i toks).toMCall cpu =
        some (.readOnly i (fun flag => filterCandset a (filterPairPy k f (toks flag)) cpu))) ∧
    (∀ f a i toks, (ECall.overlapFilterCandset f a i toks).toMCall cpu =
        some (.readOnly i (fun flag => filterCandset a (overlapFilterPairPy f (toks flag)) cpu))) ∧
    (∀ t attrs, (ECall.profileTable t attrs).toMCall cpu = none) ∧
    (∀ reprF c, (ECall.seriesToStr reprF c).toMCall cpu = none) ∧
    (∀ reprF c rc, (ECall.dataframeColumnToStr reprF c rc).toMCall cpu = none) :=
  ⟨fun _ => rfl, fun _ _ _ _ _ _ => rfl, fun _ _ _ _ _ => rfl, fun _ _ _ _ _ => rfl, fun _ _ _ _ _ => rfl,
    fun _ _ _ _ => rfl, fun _ _ => rfl, fun _ _ => rfl, fun _ _ _ => rfl⟩

/-- … and the concrete machine runs such a call exactly as the abstract machine runs its `MCall` (same result, same
    flag afterwards, same tokenizer object). -/
theorem entry_call_is_mixed_call (cpu : Int) (e : ECall) (m : MCall) (h : e.toMCall cpu = some m) (flag : Bool) :
    runECall cpu e flag = EOutcome.ofOutcome (runMCall cpu m flag) ∧ m.tokId = e.tokId :=
  runECall_toMCall cpu e m h flag

/-- WHAT EACH CALL RETURNS, unfolded: the model's entry point on the call's arguments, with the tokenizer in the mode
    `flag` it is in when the call is made. -/
theorem entry_point_results (cpu : Int) (flag : Bool) :
    (∀ c, (ECall.join c).readResult cpu flag = .frame (runCall cpu c flag).result) ∧
    (∀ k f a tok i toks, (ECall.filterTables k f a tok i toks).readResult cpu flag =
        .frame (filterTables k f a { tok with returnSet := flag } toks cpu)) ∧
    (∀ f a oss i toks, (ECall.overlapFilterTables f a oss i toks).readResult cpu flag =
        .frame (overlapFilterTables f a oss (toks flag) cpu)) ∧
    (∀ a tok i toks sim, (ECall.applyMatcher a (some tok) i toks sim).readResult cpu flag =
        .frame (applyMatcher a (some { tok with returnSet := flag }) toks sim cpu)) ∧
    (∀ a i toks sim, (ECall.applyMatcher a none i toks sim).readResult cpu flag = .frame (applyMatcher a none toks sim cpu)) ∧
    (∀ k f a i toks, (ECall.filterCandset k f a i toks).readResult cpu flag =
        .frame (filterCandset a (filterPairPy k f (toks flag)) cpu)) ∧
    (∀ f a i toks, (ECall.overlapFilterCandset f a i toks).readResult cpu flag =
        .frame (filterCandset a (overlapFilterPairPy f (toks flag)) cpu)) ∧
    (∀ t attrs, (ECall.profileTable t attrs).readResult cpu flag = .profile (Profiler.profileTable t attrs)) ∧
    (∀ reprF c, (ECall.seriesToStr reprF c).readResult cpu flag = .series (Converter.seriesToStr reprF c false)) ∧
    (∀ reprF c rc, (ECall.dataframeColumnToStr reprF c rc).readResult cpu flag =
        .column (Converter.dataframeColumnToStr reprF c false rc)) :=
  ⟨fun _ => rfl, fun _ _ _ _ _ _ => rfl, fun _ _ _ _ _ => rfl, fun _ _ _ _ _ => rfl, fun _ _ _ _ => rfl,
    fun _ _ _ _ _ => rfl, fun _ _ _ _ => rfl, fun _ _ => rfl, fun _ _ => rfl, fun _ _ _ => rfl⟩

/-! ## 2. Every call leaves the tokenizer as it found it -/

/-- EVERY call of the alphabet — a join (which switches the mode and restores it, also when it raises) or any other
    entry point (which only reads it) — leaves its tokenizer's flag as it found it, whatever it returns. -/
theorem entry_point_leaves_flag (cpu : Int) (e : ECall) (flag : Bool) : (runECall cpu e flag).flagAfter = flag :=
  runECall_flag cpu e flag

/-! ## 3. No call affects a later one -/

/-- MAIN THEOREM.  In ANY history of entry points — the six joins, `filter_tables` of the five filters,
    `filter_candset` of the five filters, `apply_matcher`, `profile_table_for_join`, the non-inplace converters; in any
    order and number; sharing tokenizer objects (same `tokId`) and tables freely; each call returning or raising —
    every call's outcome equals its outcome IN ISOLATION (the call run alone from the initial flags), and the flags end
    as they began.  No hypothesis. -/
theorem any_history_of_entry_points_independent (cpu : Int) (flags : List Bool) (calls : List ECall) :
    runE cpu flags calls = (flags, calls.map (fun c => runECall cpu c (flags.getD c.tokId false))) :=
  runE_independent cpu flags calls

/-- … hence a call's outcome is the same after any two histories (same initial flags): what was called before — and
    how often, and whether it raised — is irrelevant. -/
theorem outcome_after_any_prefix (cpu : Int) (flags : List Bool) (before before' : List ECall) (e : ECall) :
    (runE cpu flags (before ++ [e])).2.getLast? = (runE cpu flags (before' ++ [e])).2.getLast? := by
  rw [any_history_of_entry_points_independent, any_history_of_entry_points_independent]
  simp only [List.map_append, List.map_cons, List.map_nil, List.getLast?_append, List.getLast?_singleton,
    Option.some_or]

/-- On histories of DataFrame-returning entry points (`ms` = the calls as `MCall`s) the concrete machine IS the abstract
    mixed machine of C12.lean — so `C12.mixed_history_independent` applies to them: this is its instantiation. -/
theorem frame_history_is_mixed_history (cpu : Int) (flags : List Bool) (calls : List ECall) (ms : List MCall)
    (h : calls.mapM (ECall.toMCall cpu) = some ms) :
    runE cpu flags calls = ((runM cpu flags ms).1, (runM cpu flags ms).2.map EOutcome.ofOutcome) ∧
    runM cpu flags ms = (flags, ms.map (fun c => runMCall cpu c (flags.getD c.tokId false))) :=
  ⟨runE_eq_runM cpu flags calls ms h, mixed_history_independent cpu flags ms⟩

/-! ## 4. What a result can depend on -/

/-- The RESULT of the `i`-th call of any history is `readResult` of that call at the INITIAL flag of its own tokenizer
    object: it depends on the call's own arguments and on that one flag — not on the other calls, not on the other
    tokenizers. -/
theorem result_depends_on_own_flag_only (cpu : Int) (flags : List Bool) (calls : List ECall) :
    (runE cpu flags calls).2.map (·.result) = calls.map (fun e => e.readResult cpu (flags.getD e.tokId false)) := by
  rw [any_history_of_entry_points_independent, List.map_map]
  apply List.map_congr_left
  intro e _
  exact runECall_result cpu e _

/-- Profiler and (non-inplace) converter calls are not handed a tokenizer: their result does not depend on the session
    state at all. -/
theorem tokenizer_free_calls_ignore_state (cpu : Int) (flag flag' : Bool) :
    (∀ t attrs, (ECall.profileTable t attrs).readResult cpu flag = (ECall.profileTable t attrs).readResult cpu flag') ∧
    (∀ reprF c, (ECall.seriesToStr reprF c).readResult cpu flag = (ECall.seriesToStr reprF c).readResult cpu flag') ∧
    (∀ reprF c rc, (ECall.dataframeColumnToStr reprF c rc).readResult cpu flag =
        (ECall.dataframeColumnToStr reprF c rc).readResult cpu flag') ∧
    (∀ a i toks sim, (ECall.applyMatcher a none i toks sim).readResult cpu flag =
        (ECall.applyMatcher a none i toks sim).readResult cpu flag') :=
  ⟨fun _ _ => rfl, fun _ _ => rfl, fun _ _ _ => rfl, fun _ _ _ _ => rfl⟩

/-- … and neither do the joins' results: a join forces the mode it needs (`C12.join_result_ignores_incoming_mode`). -/
theorem join_results_ignore_state (cpu : Int) (c : Call) (flag flag' : Bool) :
    (ECall.join c).readResult cpu flag = (ECall.join c).readResult cpu flag' :=
  congrArg EResult.frame (join_result_ignores_incoming_mode cpu c flag flag')

/-! ## 5. The non-inplace converters never touch their input -/

/-- With `inplace=False` neither converter returns `True` (`.retTrue after` = "the object passed in now holds `after`"):
    `series_to_str` returns a new column or raises, `dataframe_column_to_str` returns a column / a copy of the frame or
    raises — in the model's terms, the input is never the object that changes. -/
theorem noninplace_converter_keeps_input (reprF : Rat → String) (c : Converter.Column) :
    (∀ after, Converter.seriesToStr reprF c false ≠ .retTrue after) ∧
    (∀ rc after, Converter.dataframeColumnToStr reprF c false rc ≠ .retTrue after) := by
  constructor
  · intro after h
    rw [Converter.seriesToStr_eq] at h
    unfold Converter.wrap at h
    simp only [Bool.and_false, Bool.false_eq_true, if_false] at h
    split_ifs at h
  · intro rc after h
    have := Converter.dataframeColumnToStr_mode reprF c false rc
    rw [h] at this
    exact absurd this.1 (by simp)

/-! ## Non-vacuity -/

section Examples

/-- a history on ONE shared tokenizer object (id 0) mixing all kinds of calls: the joins of C12's example, a
    `filter_tables`, an `OverlapFilter.filter_tables`, an `apply_matcher`, a `filter_candset`, the profiler, both
    converters -/
def exMixed (toks : TokFn) : List ECall :=
  (exCalls toks).map ECall.join ++
  [ .filterTables .size { cfg := { measure := .jaccard, threshold := .float (1 / 2), qval := .none } }
      { ltable := some exL, rtable := some exR, lKey := "id", rKey := "id", lAttr := "name", rAttr := "name" } exTok 0 toks,
    .overlapFilterTables { overlapSize := .int 1, compOp := ">=", allowMissing := false }
      { ltable := some exL, rtable := some exR, lKey := "id", rKey := "id", lAttr := "name", rAttr := "name" } true 0 toks,
    .applyMatcher { candset := some { columns := ["_id", "l_id", "r_id"], rows := [[.int 0, .int 1, .int 7]] },
                    candLKey := "l_id", candRKey := "r_id", ltable := some exL, rtable := some exR, lKey := "id",
                    rKey := "id", lAttr := "name", rAttr := "name", threshold := .int 1 }
      (some exTok) 0 toks (fun _ _ => .int 1),
    .filterCandset .prefix { cfg := { measure := .jaccard, threshold := .float (1 / 2), qval := .none } }
      { candset := some { columns := ["_id", "l_id", "r_id"], rows := [[.int 0, .int 1, .int 7]] },
        candLKey := "l_id", candRKey := "r_id", ltable := some exL, rtable := some exR, lKey := "id", rKey := "id",
        lAttr := "name", rAttr := "name" } 0 toks,
    .profileTable (some exL) none,
    .seriesToStr (fun _ => "?") { dtype := "float", values := [.flt 3, .missing] },
    .dataframeColumnToStr (fun _ => "?") { dtype := "int", values := [.int 3] } true ]

/-- whatever the tokenization table and cpu count: the shared tokenizer, which started in SET mode, is in set mode
    afterwards, and every call returned what it returns when run alone -/
example (toks : TokFn) (cpu : Int) :
    runE cpu [true] (exMixed toks) = ([true], (exMixed toks).map (fun c => runECall cpu c true)) := by
  rw [any_history_of_entry_points_independent]
  rfl

/-- the read-only calls really READ the flag: `OverlapFilter.filter_candset` on a (contrived) tokenizer that yields one
    token in bag mode and nothing in set mode keeps the candidate in bag mode and drops it in set mode -/
def exToks : TokFn := fun set _ => if set then [] else ["x"]
def exOvCand : ECall :=
  .overlapFilterCandset { overlapSize := .int 1, compOp := ">=", allowMissing := false }
    { candset := some { columns := ["_id", "l_id", "r_id"], rows := [[.int 0, .int 1, .int 7]] },
      candLKey := "l_id", candRKey := "r_id", ltable := some exL, rtable := some exR, lKey := "id", rKey := "id",
      lAttr := "name", rAttr := "name" } 0 exToks

/-- number of rows of a returned DataFrame -/
def exRowCount : EResult → Option Nat
  | .frame (.ok fr) => some fr.rows.length
  | _ => none

example : exRowCount (exOvCand.readResult 1 false) = some 1 ∧ exRowCount (exOvCand.readResult 1 true) = some 0 := by
  decide

/-- the translation to `MCall`s succeeds on a history of DataFrame-returning calls (so `frame_history_is_mixed_history`
    applies) and fails as soon as the profiler is among the calls -/
example (toks : TokFn) : ∃ ms, ((exMixed toks).take 7).mapM (ECall.toMCall 1) = some ms := ⟨_, rfl⟩
example (toks : TokFn) : (exMixed toks).mapM (ECall.toMCall 1) = none := rfl

/-- the non-inplace converter calls of the history return new objects -/
example : Converter.seriesToStr (fun _ => "?") { dtype := "float", values := [.flt 3, .missing] } false
    = .retCol { dtype := "str", values := [.str "3", .missing] } := by decide

end Examples

section AxiomCheck
#print axioms entry_points_are_read_only_calls
#print axioms entry_call_is_mixed_call
#print axioms entry_point_results
#print axioms entry_point_leaves_flag
#print axioms any_history_of_entry_points_independent
#print axioms outcome_after_any_prefix
#print axioms frame_history_is_mixed_history
#print axioms result_depends_on_own_flag_only
#print axioms tokenizer_free_calls_ignore_state
#print axioms join_results_ignore_state
#print axioms noninplace_converter_keeps_input
end AxiomCheck

end SSJ.Props.C12

/-
  C10 (continued) — KNOWN FINDING K5: the set-similarity joins are NOT independent of `n_jobs` on straddling pairs.

  C10 says the multiset of result rows of every join is unchanged by the value of `n_jobs`.  The theorems
  `njobs_irrelevant_setsim(_wide)` prove this for jaccard / cosine / dice on every NON-STRADDLING pair (the comparison has
  the same outcome on the similarity and on its 4-decimal rounding).  The hypothesis is not an artefact: `set_sim_join`
  tests `round(sim, 4)` against the threshold, while the position filter's bounds are computed for the unrounded
  similarity; a pair with Jaccard 2/3 = 0.66666… at threshold 0.6667 is accepted IF it survives the filter, and whether it
  does depends on the token order of the chunk it is processed in.  The model shows it (below: same call, `n_jobs` 1 vs 2,
  different results) and so does the real code (jaccard_join_py on these tables returns (1, 10, 0.6667) with n_jobs=1 and
  nothing with n_jobs=2) — recorded as K5 in /verif/known_findings.json, exercised as the fixed first case of the
  schedule oracle.

  The two facts below are EVALUATED (`#guard`, compiled evaluation of the executable model), not kernel-checked: the
  kernel does not reduce the model's merge sort in reasonable time.  They are tests of the model, labelled as such; the
  tie to the real code is the oracle case named above.
-/
import SSJ.Props.C10

namespace SSJ.Props.C10.K5
open SSJ

def k5L : Frame :=
  { columns := ["id", "s"], dtypes := ["int64", "object"], rows := [[.int 1, .str "x s1 s2 s3 s4"]] }

def k5R : Frame :=
  { columns := ["id", "s"], dtypes := ["int64", "object"],
    rows := [[.int 10, .str "y s1 s2 s3 s4"], [.int 11, .str "s1 s2 s3 s4 z"], [.int 12, .str "x y"],
             [.int 13, .str "x y"], [.int 14, .str "x y"], [.int 15, .str "x y"]] }

/-- whitespace tokenizer on the strings of the example -/
def k5Toks : TokFn := fun _ s =>
  if s = "x s1 s2 s3 s4" then ["x", "s1", "s2", "s3", "s4"]
  else if s = "y s1 s2 s3 s4" then ["y", "s1", "s2", "s3", "s4"]
  else if s = "s1 s2 s3 s4 z" then ["s1", "s2", "s3", "s4", "z"]
  else if s = "x y" then ["x", "y"] else []

/-- `jaccard_join_py(k5L, k5R, 'id', 'id', 's', 's', ws, 0.6667, n_jobs=nj)`; 0.6667 as the double nearest to it -/
def k5Args (nj : Int) : JoinArgs :=
  { ltable := some k5L, rtable := some k5R, lKey := "id", rKey := "id", lAttr := "s", rAttr := "s",
    threshold := .float (F64.rn (6667 / 10000)), nJobs := nj }

def k5Keys (nj : Int) : Option (List (Cell × Cell)) :=
  match (setSimJoinPy .jaccard (k5Args nj) {} k5Toks 16).result with
  | .ok fr => some (fr.rows.map SSJ.Props.rowKeys)
  | .error _ => none

-- with one job the straddling pair (1, 10) is returned …
#guard k5Keys 1 == some [(.int 1, .int 10)]
-- … with two jobs it is not
#guard k5Keys 2 == some []

end SSJ.Props.C10.K5

/-
  C10 (wide threshold scope) — Results depend only on the rows and parameters, not on schedule or presentation.

  Companion of SSJ/Props/C10.lean and SSJ/Props/C10_presentation.lean (same namespace `SSJ.Props.C10`; property text,
  model, vocabulary — `HasPair`, `j.set am nj`, `RowsPermuted`, `a.withTables l' r'` — as there).  Two jaccard / cosine /
  dice theorems there depend on the threshold scope of C01:
    * `presentation_row_permutation_setsim` (C10_presentation.lean) assumes a Python FLOAT threshold `thr` with
      `2⁻²⁰ ≤ thr ≤ 1` (`ThrOK`);
    * `njobs_irrelevant_setsim` (C10.lean) is stated RELATIVE to entry-level completeness (hypothesis `hcomplete`), which
      `C01.setsim_complete` provides under `ThrOK` only.

  WHAT CHANGED.
    * `presentation_row_permutation_setsim_wide`: the same conclusion with the threshold VALUE `a.threshold : PyV` under
      `WideThr m a.threshold` (SSJ/Proofs/ArithWide.lean): a Python float `t` with `thrLo m ≤ t ≤ 1` (`thrLo m = 2⁻⁹⁸⁹` for
      JACCARD and DICE, `2⁻⁴⁹⁵` for COSINE) or the Python int `1`; comparisons are against the value itself (`compFn` on
      `PyV`: int vs float numerically), non-straddling is `C13.NonStraddlingV`.
    * `njobs_irrelevant_setsim_wide`: `njobs_irrelevant_setsim` with the hypothesis `hcomplete` DISCHARGED by
      `C01.setsim_complete_wide` — unconditional for every covered threshold value, under `SetMeasure m` and `InScope`.
  `ThrOK` thresholds are covered (`ThrOK.wide`).  The other theorems of the two files do not depend on the threshold
  (`presentation_row_permutation_setsim_both_empty`, `…_missing`, the exact entry points, …).

  WHY THE RANGE STOPS AT `thrLo m`: completeness (C01) needs the pruning bounds to be right; binary64 OVERFLOW of the size
  upper bound (`n / t`, `((2 − t)/t) · n`, `n / (t·t)`, token counts up to `2³² − 1`) makes the generated code fail from
  `t = 2⁻⁹⁹³` / `2⁻⁹⁹²` / `2⁻⁴⁹⁷` on (`SSJ.cosine_overflow_at_500`).
  STILL OUTSIDE: thresholds in `(0, thrLo m)` (the real code raises `OverflowError` / `ZeroDivisionError` there for large
  enough token counts — recorded known finding K2 — or works for small ones; not covered by theorems); straddling pairs.
-/
import SSJ.Props.C10
import SSJ.Props.C10_presentation
import SSJ.Props.C13_wide
import SSJ.Proofs.BodyOK

namespace SSJ.Props.C10
open SSJ SSJ.Props SSJ.EP

/-- N_JOBS IS IRRELEVANT FOR NON-STRADDLING PAIRS, unconditionally for every covered threshold value (a float in
    `[thrLo m, 1]` or the int `1`): for two source rows with present join values and not both token sets empty, whose
    raw-and-rounded qualification (`qualStrict`) agrees with the rounded one (`qualRounded`), the results of the
    Jaccard / cosine / Dice join for any two `n_jobs` / cpu counts agree on whether the pair is reported. -/
theorem njobs_irrelevant_setsim_wide (m : Measure) (hm : SetMeasure m) (j : JoinArgs) (t : TokObj) (toks : TokFn)
    (l r : Frame) (hv : validateJoin m.name j t = .ok (l, r))
    (hth : WideThr m j.threshold) (hs : InScope (toks true) r)
    (ls rs : Row) (hls : ls ∈ l.rows) (hrs : rs ∈ r.rows)
    (hlp : Present l j.lAttr ls) (hrp : Present r j.rAttr rs)
    (hne : Spec.bothEmpty (tokensOf (toks true) l j.lAttr ls) (tokensOf (toks true) r j.rAttr rs) = false)
    (hns : Spec.qualStrict m j.compOp j.threshold (tokensOf (toks true) l j.lAttr ls)
              (tokensOf (toks true) r j.rAttr rs) =
           Spec.qualRounded m j.compOp j.threshold (tokensOf (toks true) l j.lAttr ls)
              (tokensOf (toks true) r j.rAttr rs))
    (nj cpu nj' cpu' : Int) (fr fr' : Frame)
    (h1 : (setSimJoinPy m (j.set j.allowMissing nj) t toks cpu).result = .ok fr)
    (h2 : (setSimJoinPy m (j.set j.allowMissing nj') t toks cpu').result = .ok fr') :
    HasPair j.toTableArgs l r fr ls rs ↔ HasPair j.toTableArgs l r fr' ls rs :=
  njobs_irrelevant_setsim m j t toks l r hv hs.nodup ls rs hls hrs hlp hrp hne
    (fun n c hq => by
      obtain ⟨fr'', hres, row, hrow, hk, -⟩ := C01.setsim_complete_wide m hm (j.set j.allowMissing n) t toks c l r hv hth hs
        ls hls rs hrs hlp hrp hne hq
        (let hb := setSimJoinPy_bodyOK m (j.set j.allowMissing nj) t toks cpu l r hv fr h1
         ⟨hb.lstr, hb.rstr, hb.noClash⟩)
      exact ⟨fr'', hres, row, hrow, hk⟩)
    hns nj cpu nj' cpu' fr fr' h1 h2

/-- ROW ORDER, jaccard / cosine / dice, NON-STRADDLING pairs, every covered threshold value: for two source rows with
    present join values, not both tokenizing to nothing, whose raw and rounded similarity lie on the same side of the
    threshold, the results of the call on the original and on the row-permuted tables agree on whether the pair is
    reported — namely iff its rounded similarity satisfies the comparison — and, with `out_sim_score`, both report the
    rounded similarity -/
theorem presentation_row_permutation_setsim_wide (m : Measure) (hm : SetMeasure m) (a : JoinArgs) (t : TokObj)
    (toks : TokFn) (cpu cpu' : Int) (l r l' r' : Frame) (hv : validateJoin m.name a t = .ok (l, r))
    (hth : WideThr m a.threshold) (hs : InScope (toks true) r)
    (hp : RowsPermuted l r l' r') (fr fr' : Frame)
    (hres : (setSimJoinPy m a t toks cpu).result = .ok fr)
    (hres' : (setSimJoinPy m (a.withTables l' r') t toks cpu').result = .ok fr')
    (ls rs : Row) (hls : ls ∈ l.rows) (hrs : rs ∈ r.rows)
    (hpl : Present l a.lAttr ls) (hpr : Present r a.rAttr rs)
    (hne : Spec.bothEmpty (tokensOf (toks true) l a.lAttr ls) (tokensOf (toks true) r a.rAttr rs) = false)
    (hns : C13.NonStraddlingV m a.compOp a.threshold (tokensOf (toks true) l a.lAttr ls) (tokensOf (toks true) r a.rAttr rs)) :
    (C13.InResult fr (keyOf l a.lKey ls) (keyOf r a.rKey rs) ↔ C13.InResult fr' (keyOf l a.lKey ls) (keyOf r a.rKey rs)) ∧
    (C13.InResult fr (keyOf l a.lKey ls) (keyOf r a.rKey rs) ↔
      Spec.qualRounded m a.compOp a.threshold (tokensOf (toks true) l a.lAttr ls)
        (tokensOf (toks true) r a.rAttr rs) = true) ∧
    (a.outSimScore = true →
      C13.ScoreOf fr (keyOf l a.lKey ls) (keyOf r a.rKey rs)
        (scoreCell (Spec.score4 m (tokensOf (toks true) l a.lAttr ls) (tokensOf (toks true) r a.rAttr rs))) ∧
      C13.ScoreOf fr' (keyOf l a.lKey ls) (keyOf r a.rKey rs)
        (scoreCell (Spec.score4 m (tokensOf (toks true) l a.lAttr ls) (tokensOf (toks true) r a.rAttr rs)))) := by
  have hv' := validateJoin_perm m.name a t l r l' r' hv hp
  have hs' : InScope (toks true) r' := ⟨hs.nodup, hs.small, by rw [hp.rRows.length_eq]; exact hs.rows⟩
  have h1 := C13.setsim_iff_wide m a t toks cpu l r hm hv hth hs fr hres ls rs hls hrs hpl hpr hne hns
  have h2 := C13.setsim_iff_wide m (a.withTables l' r') t toks cpu' l' r' hm hv' hth hs' fr' hres' ls rs
    (hp.lRows.mem_iff.2 hls) (hp.rRows.mem_iff.2 hrs)
    ((present_congr l l' hp.lCols _ _).2 hpl) ((present_congr r r' hp.rCols _ _).2 hpr)
    (by rw [tokensOf_congr _ l l' hp.lCols, tokensOf_congr _ r r' hp.rCols]; exact hne)
    (by rw [tokensOf_congr _ l l' hp.lCols, tokensOf_congr _ r r' hp.rCols]; exact hns)
  rw [keyOf_congr l l' hp.lCols, keyOf_congr r r' hp.rCols, tokensOf_congr _ l l' hp.lCols,
    tokensOf_congr _ r r' hp.rCols] at h2
  exact ⟨h1.1.trans h2.1.symm, h1.1, fun ho => ⟨h1.2 ho, h2.2 ho⟩⟩

/-! ## non-vacuity: the fixture of `EntrySetSim.Ex` at threshold `2⁻³⁰` (`EntryWide.Ex.exArgsSmall`) and at the int threshold
    `1` with the tokenization table `exToks1` (`exArgsInt`), rows of both tables reversed (`PresentationExample.revL/revR`);
    1 job on 4 cpus vs. 7 jobs on 2 cpus -/
section ExWide
open EntrySetSim.Ex EntryWide.Ex PresentationExample

/-- the tables of the fixture `EntrySetSim.Ex` (C10.lean has its own `exL`, `exR`) -/
local notation "eL" => EntrySetSim.Ex.exL
local notation "eR" => EntrySetSim.Ex.exR

example (fr fr' : Frame)
    (h : (setSimJoinPy .jaccard exArgsSmall {} exToks 4).result = .ok fr)
    (h' : (setSimJoinPy .jaccard (exArgsSmall.withTables revL revR) {} exToks 4).result = .ok fr') :
    C13.InResult fr (.int 1) (.int 7) ∧ C13.InResult fr' (.int 1) (.int 7) := by
  obtain ⟨h1, h2, -⟩ := presentation_row_permutation_setsim_wide .jaccard (Or.inl rfl) exArgsSmall {} exToks 4 4 eL eR
    revL revR exValidSmall (thrSmall .jaccard) exScope revPermuted fr fr' h h' exLs exRs exLs_mem exRs_mem exLs_present
    exRs_present exPair_nonempty (C13.exNSV _ (by decide) _ (by norm_num))
  have hin : C13.InResult fr (.int 1) (.int 7) := by
    refine h2.2 ?_
    show Spec.qualRounded .jaccard ">=" (.float (1 / 2 ^ 30)) (tokensOf (exToks true) eL exArgs.lAttr exLs)
      (tokensOf (exToks true) eR exArgs.rAttr exRs) = true
    rw [exLs_tokens, exRs_tokens]
    exact EntryLaws.Ex.exQualRounded _ (by norm_num)
  exact ⟨hin, h1.1 hin⟩

example (fr fr' : Frame)
    (h : (setSimJoinPy .jaccard exArgsInt {} exToks1 4).result = .ok fr)
    (h' : (setSimJoinPy .jaccard (exArgsInt.withTables revL revR) {} exToks1 4).result = .ok fr') :
    C13.InResult fr (.int 1) (.int 7) ↔ C13.InResult fr' (.int 1) (.int 7) :=
  (presentation_row_permutation_setsim_wide .jaccard (Or.inl rfl) exArgsInt {} exToks1 4 4 eL eR
    revL revR exValidInt .intOne exScope1 revPermuted fr fr' h h' exLs exRs exLs_mem exRs_mem exLs_present
    exRs_present exPair_nonempty1 (C13.exNSV_int _ _)).1

example (fr fr' : Frame)
    (h1 : (setSimJoinPy .jaccard (exArgsSmall.set exArgsSmall.allowMissing 1) {} exToks 4).result = .ok fr)
    (h2 : (setSimJoinPy .jaccard (exArgsSmall.set exArgsSmall.allowMissing 7) {} exToks 2).result = .ok fr') :
    HasPair exArgsSmall.toTableArgs eL eR fr exLs exRs ↔ HasPair exArgsSmall.toTableArgs eL eR fr' exLs exRs :=
  njobs_irrelevant_setsim_wide .jaccard (Or.inl rfl) exArgsSmall {} exToks eL eR exValidSmall (thrSmall .jaccard) exScope
    exLs exRs exLs_mem exRs_mem exLs_present exRs_present exPair_nonempty (C13.exNSV _ (by decide) _ (by norm_num))
    1 4 7 2 fr fr' h1 h2

example (fr fr' : Frame)
    (h1 : (setSimJoinPy .jaccard (exArgsInt.set exArgsInt.allowMissing 1) {} exToks1 4).result = .ok fr)
    (h2 : (setSimJoinPy .jaccard (exArgsInt.set exArgsInt.allowMissing (-1)) {} exToks1 2).result = .ok fr') :
    HasPair exArgsInt.toTableArgs eL eR fr exLs exRs ↔ HasPair exArgsInt.toTableArgs eL eR fr' exLs exRs :=
  njobs_irrelevant_setsim_wide .jaccard (Or.inl rfl) exArgsInt {} exToks1 eL eR exValidInt .intOne exScope1
    exLs exRs exLs_mem exRs_mem exLs_present exRs_present exPair_nonempty1 (C13.exNSV_int _ _)
    1 4 (-1) 2 fr fr' h1 h2

end ExWide

section AxiomCheck
#print axioms njobs_irrelevant_setsim_wide
#print axioms presentation_row_permutation_setsim_wide
end AxiomCheck

end SSJ.Props.C10

/-
  C10 (second half) — Results depend only on the rows and parameters, not on the PRESENTATION of the tables.

  "The result of every entry point … is unchanged by permuting the rows of either table, relabelling the DataFrame
   index, adding unrelated columns, and repeating the call."

  (The first half — independence of `n_jobs`, `_id = 0..n-1` — is `Props/C10.lean`.)

  MODEL.  The DataFrame-in / DataFrame-out entry points of `SSJ/Model/Frame.lean`: the four joins
  `setSimJoinPy m` (jaccard / cosine / dice), `overlapCoefficientJoinPy`, `overlapJoinPy`, `editDistanceJoinPy`, and
  `filterTables k` (Size/Prefix/Position/SuffixFilter.filter_tables), `overlapFilterTables`
  (OverlapFilter.filter_tables).  A table is a `Frame`: `columns` (labels), `dtypes`, `index` (labels), `rows`.
  Vocabulary (`Proofs/EntryPresentation.lean`, all spelled out in the section "vocabulary" below):
    `a.withTables l' r'`   — the same call with the tables `l'`, `r'` in place of `a.ltable`, `a.rtable`;
    `l.withIndex il`       — the frame `l` with the index labels `il` (ANY list, of any length);
    `EP.lUsed a`, `EP.rUsed a` — the column labels the call refers to: key, join attribute, requested output
                             attributes of the left resp. right table;
    `EP.Agree S f g`       — each label of `S` is a column of both `f` and `g` or of neither, with the same dtype, and
                             row by row the cells under these labels coincide (nothing is said about other columns,
                             the order of the columns, the index);
    `EP.WellFormed f`      — one dtype per column, every row as wide as the header (what pandas guarantees);
    `EP.ExtraColumn f f' c` — `f'` is `f` with the column `c ∉ f.columns` appended (a dtype appended to `dtypes`, one
                             cell appended to every row);  `EP.ExtraColumns S f f'` — zero or more such steps, no
                             label in `S`;
    `EP.RowsPermuted l r l' r'` — `l'`, `r'` have the columns and dtypes of `l`, `r`, and `l'.rows` / `r'.rows` are
                             permutations (`List.Perm`) of `l.rows` / `r.rows`; their index is unconstrained.

  BODY CONDITIONS.  The row-permutation theorems that CONCLUDE that both calls return frames assume `BodyOK` for the
  original tables (SSJ/Props/Common.lean: present join values are strings, no `_id` in the output header; invariant
  under row permutation, `RowsPermuted.bodyOK`); theorems about given results `… = .ok fr` do not.

  WHAT IS PROVED.
  1. INDEX (`presentation_index_irrelevant*`): replacing the index of either table by any labels changes NOTHING — the
     whole `Outcome` (result frame or exception, tokenizer flag) resp. `Except PyErr Frame` is EQUAL.  No hypothesis
     on the call (valid or not).
  2. EXTRA COLUMNS (`presentation_extra_columns_irrelevant*`): appending to well-formed tables any number of columns
     that are none of key / join attribute / requested output attributes changes NOTHING (equal outcomes, rejected
     calls included).  Both are instances of `presentation_same_view*`: two pairs of tables that `Agree` on the
     referenced columns give equal outcomes — which also covers reordering columns.
  3. ROW ORDER.  Validation gives the same verdict (`presentation_row_permutation_verdict`).  For the EXACT joins —
     `overlap_join`, `overlap_coefficient_join`, `OverlapFilter.filter_tables`, and `edit_distance_join` with a
     tokenizer obeying the q-gram count lemma, in particular the real q-gram tokenizer — both calls succeed, the
     columns are the same and the rows WITHOUT `_id` (keys, output attributes, score; missing-value rows included) are
     PERMUTATIONS of each other (`presentation_row_permutation_overlap / _ovc / _overlapFilterTables / _ed /
     _ed_qgrams`).  (`_id` numbers the rows in output order, so it is excluded by necessity.)
     For jaccard / cosine / dice (`presentation_row_permutation_setsim`): for every pair of source rows with present
     join values that is NON-STRADDLING (raw and rounded similarity on the same side of the threshold) and not
     empty/empty, the pair is named by a row of one result iff of the other, with the same `_sim_score`; empty/empty
     pairs likewise (`…_setsim_both_empty`).  For EVERY entry point the rows added by `allow_missing=True` are
     permuted (`presentation_row_permutation_missing`).
  4. REPEATING THE CALL: the model's entry points are pure functions, so two calls with the same arguments are the
     same term — `presentation_repeat`, by `rfl`: the triviality "a function of its arguments", kept only to mark the
     place.  It says NOTHING about the real code; that a repeated call, or a call in another process (`n_jobs`
     workers, a fresh interpreter, another hash seed), gives the same result is a RUNTIME fact, checked by the
     oracles of the harness (repeat / determinism suites), not by a theorem.  That a real second call sees the same
     tokenizer flag is C12; that a call does not modify its input tables is outside the model.

  HYPOTHESES, in plain words.  1 and 2: `a.ltable = some l`, `a.rtable = some r` (the call was given tables), nothing
  else.  3: the first call's arguments are valid (validity of the second is DERIVED; only `…_missing`, which speaks
  about all six entry points at once through `TableCall`, takes the second call's validity as a hypothesis — it
  follows from the first by `EP.validateJoin_perm` / `EP.validateTables_perm`, see the example); the right table has
  fewer than 2^40 rows; set-mode tokenizer output duplicate-free (exact joins) resp. `InScope`, float threshold `ThrOK`
  (jaccard / cosine / dice); the two calls may run with different CPU counts.

  NOT COVERED.  Python object identity, aliasing of the input tables, other processes: outside the model (differential oracle, thorough tier).  `_id` under row permutation (it is positional).
  Straddling pairs of jaccard/cosine/dice under row permutation (excluded by the property's sibling C13 as well: for
  them the library's answer legitimately depends on which of raw / rounded score is tested).  Row permutation for
  Size/Prefix/Position/SuffixFilter.filter_tables beyond the missing-value rows.  `apply_matcher` / `filter_candset`.
-/
import SSJ.Proofs.EntryPresentation
import SSJ.Props.C09
import SSJ.Props.C13

namespace SSJ.Props.C10
open SSJ SSJ.Props SSJ.EP

/-! ### vocabulary, unfolded -/

example (a : JoinArgs) (l r : Frame) : a.withTables l r = { a with ltable := some l, rtable := some r } := rfl
example (a : TableArgs) (l r : Frame) : a.withTables l r = { a with ltable := some l, rtable := some r } := rfl
example (f : Frame) (il : List Cell) : f.withIndex il = { f with index := il } := rfl
example (a : TableArgs) : lUsed a = a.lKey :: a.lAttr :: a.lOut.getD [] := rfl
example (a : TableArgs) : rUsed a = a.rKey :: a.rAttr :: a.rOut.getD [] := rfl
example (S : List String) (f g : Frame) : Agree S f g ↔
    (∀ c ∈ S, f.hasCol c = g.hasCol c) ∧ (∀ c ∈ S, f.dtype c = g.dtype c) ∧
    List.Forall₂ (fun x y => ∀ c ∈ S, Row.cell x (f.colIdx c) = Row.cell y (g.colIdx c)) f.rows g.rows :=
  ⟨fun h => ⟨h.hasCol, h.dtype, h.rows⟩, fun h => ⟨h.1, h.2.1, h.2.2⟩⟩
example (f : Frame) : WellFormed f ↔
    f.dtypes.length = f.columns.length ∧ ∀ row ∈ f.rows, row.length = f.columns.length :=
  ⟨fun h => ⟨h.dtypes, h.rows⟩, fun h => ⟨h.1, h.2⟩⟩
example (f f' : Frame) (c : String) : ExtraColumn f f' c ↔
    c ∉ f.columns ∧ f'.columns = f.columns ++ [c] ∧ (∃ d, f'.dtypes = f.dtypes ++ [d]) ∧
    List.Forall₂ (fun x y => ∃ v, y = x ++ [v]) f.rows f'.rows :=
  ⟨fun h => ⟨h.fresh, h.columns, h.dtypes, h.rows⟩, fun h => ⟨h.1, h.2.1, h.2.2.1, h.2.2.2⟩⟩
example (l r l' r' : Frame) : RowsPermuted l r l' r' ↔
    l'.columns = l.columns ∧ l'.dtypes = l.dtypes ∧ l'.rows.Perm l.rows ∧
    r'.columns = r.columns ∧ r'.dtypes = r.dtypes ∧ r'.rows.Perm r.rows :=
  ⟨fun h => ⟨h.lCols, h.lTypes, h.lRows, h.rCols, h.rTypes, h.rRows⟩,
   fun h => ⟨h.1, h.2.1, h.2.2.1, h.2.2.2.1, h.2.2.2.2.1, h.2.2.2.2.2⟩⟩

/-! ## 2'. the general statement: tables that agree on the referenced columns -/

/-- SAME VIEW, the four joins: if `l'` agrees with `l` and `r'` with `r` on the columns the call refers to, the call on
    `l'`, `r'` has the same outcome (result frame with all its columns, index, rows and `_id`s — or the same exception —
    and the same tokenizer flag) as the call on `l`, `r`.  No validity hypothesis. -/
theorem presentation_same_view (a : JoinArgs) (t : TokObj) (toks : TokFn) (cpu : Int) (l r l' r' : Frame)
    (hl : a.ltable = some l) (hr : a.rtable = some r)
    (hL : Agree (lUsed a.toTableArgs) l l') (hR : Agree (rUsed a.toTableArgs) r r') :
    (∀ m, setSimJoinPy m (a.withTables l' r') t toks cpu = setSimJoinPy m a t toks cpu) ∧
    overlapCoefficientJoinPy (a.withTables l' r') t toks cpu = overlapCoefficientJoinPy a t toks cpu ∧
    overlapJoinPy (a.withTables l' r') t toks cpu = overlapJoinPy a t toks cpu ∧
    editDistanceJoinPy (a.withTables l' r') t toks cpu = editDistanceJoinPy a t toks cpu :=
  ⟨fun m => setSimJoinPy_agree a t toks cpu l r l' r' m hl hr hL hR,
   overlapCoefficientJoinPy_agree a t toks cpu l r l' r' hl hr hL hR,
   overlapJoinPy_agree a t toks cpu l r l' r' hl hr hL hR,
   editDistanceJoinPy_agree a t toks cpu l r l' r' hl hr hL hR⟩

/-- SAME VIEW, `Size/Prefix/Position/SuffixFilter.filter_tables` -/
theorem presentation_same_view_filterTables (k : FilterKind) (f : FilterObj) (a : TableArgs) (t : TokObj) (toks : TokFn)
    (cpu : Int) (l r l' r' : Frame) (hl : a.ltable = some l) (hr : a.rtable = some r)
    (hL : Agree (lUsed a) l l') (hR : Agree (rUsed a) r r') :
    filterTables k f (a.withTables l' r') t toks cpu = filterTables k f a t toks cpu :=
  filterTables_agree a l r l' r' k f t toks cpu hl hr hL hR

/-- SAME VIEW, `OverlapFilter.filter_tables` -/
theorem presentation_same_view_overlapFilterTables (f : OverlapFilterObj) (a : TableArgs) (oss : Bool)
    (tok : String → List Tok) (cpu : Int) (l r l' r' : Frame) (hl : a.ltable = some l) (hr : a.rtable = some r)
    (hL : Agree (lUsed a) l l') (hR : Agree (rUsed a) r r') :
    overlapFilterTables f (a.withTables l' r') oss tok cpu = overlapFilterTables f a oss tok cpu :=
  overlapFilterTables_agree a l r l' r' f oss tok cpu hl hr hL hR

/-! ## 1. the index is irrelevant -/

/-- INDEX, the four joins: giving the two tables ANY other index labels `il`, `ir` does not change the outcome at all -/
theorem presentation_index_irrelevant (a : JoinArgs) (t : TokObj) (toks : TokFn) (cpu : Int) (l r : Frame)
    (hl : a.ltable = some l) (hr : a.rtable = some r) (il ir : List Cell) :
    (∀ m, setSimJoinPy m (a.withTables (l.withIndex il) (r.withIndex ir)) t toks cpu = setSimJoinPy m a t toks cpu) ∧
    overlapCoefficientJoinPy (a.withTables (l.withIndex il) (r.withIndex ir)) t toks cpu =
      overlapCoefficientJoinPy a t toks cpu ∧
    overlapJoinPy (a.withTables (l.withIndex il) (r.withIndex ir)) t toks cpu = overlapJoinPy a t toks cpu ∧
    editDistanceJoinPy (a.withTables (l.withIndex il) (r.withIndex ir)) t toks cpu = editDistanceJoinPy a t toks cpu :=
  presentation_same_view a t toks cpu l r _ _ hl hr (agree_withIndex _ l il) (agree_withIndex _ r ir)

/-- INDEX, `Size/Prefix/Position/SuffixFilter.filter_tables` -/
theorem presentation_index_irrelevant_filterTables (k : FilterKind) (f : FilterObj) (a : TableArgs) (t : TokObj)
    (toks : TokFn) (cpu : Int) (l r : Frame) (hl : a.ltable = some l) (hr : a.rtable = some r) (il ir : List Cell) :
    filterTables k f (a.withTables (l.withIndex il) (r.withIndex ir)) t toks cpu = filterTables k f a t toks cpu :=
  presentation_same_view_filterTables k f a t toks cpu l r _ _ hl hr (agree_withIndex _ l il) (agree_withIndex _ r ir)

/-- INDEX, `OverlapFilter.filter_tables` -/
theorem presentation_index_irrelevant_overlapFilterTables (f : OverlapFilterObj) (a : TableArgs) (oss : Bool)
    (tok : String → List Tok) (cpu : Int) (l r : Frame) (hl : a.ltable = some l) (hr : a.rtable = some r)
    (il ir : List Cell) :
    overlapFilterTables f (a.withTables (l.withIndex il) (r.withIndex ir)) oss tok cpu =
      overlapFilterTables f a oss tok cpu :=
  presentation_same_view_overlapFilterTables f a oss tok cpu l r _ _ hl hr (agree_withIndex _ l il)
    (agree_withIndex _ r ir)

/-! ## 2. unrelated columns are irrelevant -/

/-- an extra trailing column whose label the call does not refer to is invisible to it (well-formed frame): the
    positions of the referenced labels (`List.idxOf`) and the cells / dtypes found there are unchanged — also for a
    referenced label that is NOT a column (it is then found "one past the end" in both frames) -/
theorem presentation_extra_column_agree (S : List String) (f f' : Frame) (c : String) (hc : c ∉ S)
    (wf : WellFormed f) (h : ExtraColumn f f' c) : Agree S f f' ∧ WellFormed f' :=
  ⟨agree_of_extraColumn S f f' c hc wf h, wellFormed_of_extraColumn f f' c wf h⟩

/-- EXTRA COLUMNS, the four joins: appending to the (well-formed) tables any number of columns that are none of key,
    join attribute, requested output attributes does not change the outcome at all — in particular validation gives
    the same verdict (`ExtraColumns.none` leaves a table as it is, `ExtraColumns.one` adds a single column) -/
theorem presentation_extra_columns_irrelevant (a : JoinArgs) (t : TokObj) (toks : TokFn) (cpu : Int) (l r l' r' : Frame)
    (hl : a.ltable = some l) (hr : a.rtable = some r) (wl : WellFormed l) (wr : WellFormed r)
    (el : ExtraColumns (lUsed a.toTableArgs) l l') (er : ExtraColumns (rUsed a.toTableArgs) r r') :
    (∀ m, setSimJoinPy m (a.withTables l' r') t toks cpu = setSimJoinPy m a t toks cpu) ∧
    overlapCoefficientJoinPy (a.withTables l' r') t toks cpu = overlapCoefficientJoinPy a t toks cpu ∧
    overlapJoinPy (a.withTables l' r') t toks cpu = overlapJoinPy a t toks cpu ∧
    editDistanceJoinPy (a.withTables l' r') t toks cpu = editDistanceJoinPy a t toks cpu :=
  presentation_same_view a t toks cpu l r l' r' hl hr (agree_of_extraColumns wl el).1 (agree_of_extraColumns wr er).1

/-- EXTRA COLUMNS, `Size/Prefix/Position/SuffixFilter.filter_tables` -/
theorem presentation_extra_columns_irrelevant_filterTables (k : FilterKind) (f : FilterObj) (a : TableArgs) (t : TokObj)
    (toks : TokFn) (cpu : Int) (l r l' r' : Frame) (hl : a.ltable = some l) (hr : a.rtable = some r)
    (wl : WellFormed l) (wr : WellFormed r) (el : ExtraColumns (lUsed a) l l') (er : ExtraColumns (rUsed a) r r') :
    filterTables k f (a.withTables l' r') t toks cpu = filterTables k f a t toks cpu :=
  presentation_same_view_filterTables k f a t toks cpu l r l' r' hl hr (agree_of_extraColumns wl el).1
    (agree_of_extraColumns wr er).1

/-- EXTRA COLUMNS, `OverlapFilter.filter_tables` -/
theorem presentation_extra_columns_irrelevant_overlapFilterTables (f : OverlapFilterObj) (a : TableArgs) (oss : Bool)
    (tok : String → List Tok) (cpu : Int) (l r l' r' : Frame) (hl : a.ltable = some l) (hr : a.rtable = some r)
    (wl : WellFormed l) (wr : WellFormed r) (el : ExtraColumns (lUsed a) l l') (er : ExtraColumns (rUsed a) r r') :
    overlapFilterTables f (a.withTables l' r') oss tok cpu = overlapFilterTables f a oss tok cpu :=
  presentation_same_view_overlapFilterTables f a oss tok cpu l r l' r' hl hr (agree_of_extraColumns wl el).1
    (agree_of_extraColumns wr er).1

/-! ## 3. the order of the rows -/

/-- VERDICT: the validation block of a join accepts the row-permuted tables iff it accepts the original ones (and
    rejects with the same exception) -/
theorem presentation_row_permutation_verdict (mname : String) (a : JoinArgs) (t : TokObj) (l r l' r' : Frame)
    (hl : a.ltable = some l) (hr : a.rtable = some r) (hp : RowsPermuted l r l' r') :
    validateJoin mname (a.withTables l' r') t = (validateJoin mname a t).map (fun _ => (l', r')) :=
  validateJoin_vsame mname a t l r l' r' hl hr (hp.vsame _)

/-- ROW ORDER, `overlap_join`: on row-permuted tables both calls succeed, with the same columns, and the result rows
    without `_id` (keys, output attributes, `_sim_score`; rows of missing values included) are permutations of each
    other -/
theorem presentation_row_permutation_overlap (a : JoinArgs) (t : TokObj) (toks : TokFn) (cpu cpu' : Int)
    (f : OverlapFilterObj) (l r l' r' : Frame)
    (hf : mkOverlapFilter a.threshold a.compOp a.allowMissing t = .ok f)
    (hv : validateTablesAttrs a.toTableArgs = .ok (l, r)) (hk : validateOutAndKeys a.toTableArgs l r = .ok ())
    (hnd : ∀ s, (toks true s).Nodup) (hlen : r.rows.length < 2 ^ 40) (hp : RowsPermuted l r l' r')
    (hb : BodyOK a.toTableArgs l r a.outSimScore) :
    ∃ fr fr', (overlapJoinPy a t toks cpu).result = .ok fr ∧
      (overlapJoinPy (a.withTables l' r') t toks cpu').result = .ok fr' ∧
      fr.columns = fr'.columns ∧
      (fr.rows.map (fun row => row.drop 1)).Perm (fr'.rows.map (fun row => row.drop 1)) :=
  overlapJoinPy_perm a t toks cpu cpu' f l r l' r' hnd hf hv hk hlen hp hb

/-- ROW ORDER, `overlap_coefficient_join` -/
theorem presentation_row_permutation_ovc (a : JoinArgs) (t : TokObj) (toks : TokFn) (cpu cpu' : Int)
    (l r l' r' : Frame) (hv : validateJoin "OVERLAP_COEFFICIENT" a t = .ok (l, r))
    (hnd : ∀ s, (toks true s).Nodup) (hlen : r.rows.length < 2 ^ 40) (hp : RowsPermuted l r l' r')
    (hb : BodyOK a.toTableArgs l r a.outSimScore) :
    ∃ fr fr', (overlapCoefficientJoinPy a t toks cpu).result = .ok fr ∧
      (overlapCoefficientJoinPy (a.withTables l' r') t toks cpu').result = .ok fr' ∧
      fr.columns = fr'.columns ∧
      (fr.rows.map (fun row => row.drop 1)).Perm (fr'.rows.map (fun row => row.drop 1)) :=
  overlapCoefficientJoinPy_perm a t toks cpu cpu' l r l' r' hnd hv hlen hp hb

/-- ROW ORDER, `OverlapFilter.filter_tables` -/
theorem presentation_row_permutation_overlapFilterTables (f : OverlapFilterObj) (a : TableArgs) (oss : Bool)
    (tok : String → List Tok) (cpu cpu' : Int) (l r l' r' : Frame)
    (hv : validateTablesAttrs a = .ok (l, r)) (hk : validateOutAndKeys a l r = .ok ())
    (hnd : ∀ s, (tok s).Nodup) (hlen : r.rows.length < 2 ^ 40) (hp : RowsPermuted l r l' r')
    (hb : BodyOK a l r oss) :
    ∃ fr fr', overlapFilterTables f a oss tok cpu = .ok fr ∧
      overlapFilterTables f (a.withTables l' r') oss tok cpu' = .ok fr' ∧
      fr.columns = fr'.columns ∧
      (fr.rows.map (fun row => row.drop 1)).Perm (fr'.rows.map (fun row => row.drop 1)) :=
  overlapFilterTables_perm f a oss tok cpu cpu' l r l' r' hnd hv hk hlen hp hb

/-- ROW ORDER, `edit_distance_join`, for any bag tokenizer obeying the q-gram count lemma `hcount` (`tau` is the
    integral threshold `int(floor(threshold))`) -/
theorem presentation_row_permutation_ed (a : JoinArgs) (t : TokObj) (toks : TokFn) (cpu cpu' : Int)
    (l r l' r' : Frame) (tau : Int) (hv : validateJoin "EDIT_DISTANCE" a t = .ok (l, r))
    (htau : PyV.toInt (PyV.floor a.threshold) = .int tau) (hlen : r.rows.length < 2 ^ 40) (hq : 0 ≤ t.qval)
    (hcount : ∀ s s' : String, ((toks false s).diff (toks false s')).length ≤ t.qval.toNat * lev s s')
    (hp : RowsPermuted l r l' r')
    (hb : BodyOK a.toTableArgs l r a.outSimScore) :
    ∃ fr fr', (editDistanceJoinPy a t toks cpu).result = .ok fr ∧
      (editDistanceJoinPy (a.withTables l' r') t toks cpu').result = .ok fr' ∧
      fr.columns = fr'.columns ∧
      (fr.rows.map (fun row => row.drop 1)).Perm (fr'.rows.map (fun row => row.drop 1)) :=
  editDistanceJoinPy_perm a t toks cpu cpu' l r l' r' tau hv htau hlen hq hcount hp hb

/-- … in particular with the real q-gram tokenizer (`QgramTokenizer(qval=q, padding=pad, return_set=False)`) -/
theorem presentation_row_permutation_ed_qgrams (a : JoinArgs) (t : TokObj) (toks : TokFn) (cpu cpu' : Int)
    (l r l' r' : Frame) (tau : Int) (pad : Bool) (hv : validateJoin "EDIT_DISTANCE" a t = .ok (l, r))
    (htau : PyV.toInt (PyV.floor a.threshold) = .int tau) (hlen : r.rows.length < 2 ^ 40) (hq : 0 ≤ t.qval)
    (htok : toks false = qgrams t.qval.toNat pad) (hp : RowsPermuted l r l' r')
    (hb : BodyOK a.toTableArgs l r a.outSimScore) :
    ∃ fr fr', (editDistanceJoinPy a t toks cpu).result = .ok fr ∧
      (editDistanceJoinPy (a.withTables l' r') t toks cpu').result = .ok fr' ∧
      fr.columns = fr'.columns ∧
      (fr.rows.map (fun row => row.drop 1)).Perm (fr'.rows.map (fun row => row.drop 1)) :=
  presentation_row_permutation_ed a t toks cpu cpu' l r l' r' tau hv htau hlen hq
    (fun s s' => by rw [htok]; exact qgrams_diff_le _ pad s s') hp hb

/-- ROW ORDER, jaccard / cosine / dice, NON-STRADDLING pairs: for two source rows with present join values, not both
    tokenizing to nothing, whose raw and rounded similarity lie on the same side of the threshold, the results of the
    call on the original and on the row-permuted tables agree on whether the pair is reported — namely iff its rounded
    similarity satisfies the comparison — and, with `out_sim_score`, both report the rounded similarity -/
theorem presentation_row_permutation_setsim (m : Measure) (hm : SetMeasure m) (a : JoinArgs) (t : TokObj)
    (toks : TokFn) (cpu cpu' : Int) (l r l' r' : Frame) (hv : validateJoin m.name a t = .ok (l, r))
    (thr : Rat) (hthr : a.threshold = .float thr) (hok : ThrOK thr) (hs : InScope (toks true) r)
    (hp : RowsPermuted l r l' r') (fr fr' : Frame)
    (hres : (setSimJoinPy m a t toks cpu).result = .ok fr)
    (hres' : (setSimJoinPy m (a.withTables l' r') t toks cpu').result = .ok fr')
    (ls rs : Row) (hls : ls ∈ l.rows) (hrs : rs ∈ r.rows)
    (hpl : Present l a.lAttr ls) (hpr : Present r a.rAttr rs)
    (hne : Spec.bothEmpty (tokensOf (toks true) l a.lAttr ls) (tokensOf (toks true) r a.rAttr rs) = false)
    (hns : C13.NonStraddling m a.compOp thr (tokensOf (toks true) l a.lAttr ls) (tokensOf (toks true) r a.rAttr rs)) :
    (C13.InResult fr (keyOf l a.lKey ls) (keyOf r a.rKey rs) ↔ C13.InResult fr' (keyOf l a.lKey ls) (keyOf r a.rKey rs)) ∧
    (C13.InResult fr (keyOf l a.lKey ls) (keyOf r a.rKey rs) ↔
      Spec.qualRounded m a.compOp (.float thr) (tokensOf (toks true) l a.lAttr ls)
        (tokensOf (toks true) r a.rAttr rs) = true) ∧
    (a.outSimScore = true →
      C13.ScoreOf fr (keyOf l a.lKey ls) (keyOf r a.rKey rs)
        (scoreCell (Spec.score4 m (tokensOf (toks true) l a.lAttr ls) (tokensOf (toks true) r a.rAttr rs))) ∧
      C13.ScoreOf fr' (keyOf l a.lKey ls) (keyOf r a.rKey rs)
        (scoreCell (Spec.score4 m (tokensOf (toks true) l a.lAttr ls) (tokensOf (toks true) r a.rAttr rs)))) := by
  have hv' := validateJoin_perm m.name a t l r l' r' hv hp
  have hs' : InScope (toks true) r' := ⟨hs.nodup, hs.small, by rw [hp.rRows.length_eq]; exact hs.rows⟩
  have h1 := C13.setsim_iff m a t toks cpu l r hm hv thr hthr hok hs fr hres ls rs hls hrs hpl hpr hne hns
  have h2 := C13.setsim_iff m (a.withTables l' r') t toks cpu' l' r' hm hv' thr hthr hok hs' fr' hres' ls rs
    (hp.lRows.mem_iff.2 hls) (hp.rRows.mem_iff.2 hrs)
    ((present_congr l l' hp.lCols _ _).2 hpl) ((present_congr r r' hp.rCols _ _).2 hpr)
    (by rw [tokensOf_congr _ l l' hp.lCols, tokensOf_congr _ r r' hp.rCols]; exact hne)
    (by rw [tokensOf_congr _ l l' hp.lCols, tokensOf_congr _ r r' hp.rCols]; exact hns)
  rw [keyOf_congr l l' hp.lCols, keyOf_congr r r' hp.rCols, tokensOf_congr _ l l' hp.lCols,
    tokensOf_congr _ r r' hp.rCols] at h2
  exact ⟨h1.1.trans h2.1.symm, h1.1, fun ho => ⟨h1.2 ho, h2.2 ho⟩⟩

/-- ROW ORDER, jaccard / cosine / dice, EMPTY/EMPTY pairs: a pair of present rows both tokenizing to nothing is reported
    by the call on the original tables iff by the call on the row-permuted tables — namely iff `allow_empty` -/
theorem presentation_row_permutation_setsim_both_empty (m : Measure) (a : JoinArgs) (t : TokObj)
    (toks : TokFn) (cpu cpu' : Int) (l r l' r' : Frame) (hv : validateJoin m.name a t = .ok (l, r))
    (hs : InScope (toks true) r) (hp : RowsPermuted l r l' r') (fr fr' : Frame)
    (hres : (setSimJoinPy m a t toks cpu).result = .ok fr)
    (hres' : (setSimJoinPy m (a.withTables l' r') t toks cpu').result = .ok fr')
    (ls rs : Row) (hls : ls ∈ l.rows) (hrs : rs ∈ r.rows)
    (hpl : Present l a.lAttr ls) (hpr : Present r a.rAttr rs)
    (he : Spec.bothEmpty (tokensOf (toks true) l a.lAttr ls) (tokensOf (toks true) r a.rAttr rs) = true) :
    (C13.InResult fr (keyOf l a.lKey ls) (keyOf r a.rKey rs) ↔ C13.InResult fr' (keyOf l a.lKey ls) (keyOf r a.rKey rs)) ∧
    (C13.InResult fr (keyOf l a.lKey ls) (keyOf r a.rKey rs) ↔ a.allowEmpty = true) := by
  have hv' := validateJoin_perm m.name a t l r l' r' hv hp
  have hs' : InScope (toks true) r' := ⟨hs.nodup, hs.small, by rw [hp.rRows.length_eq]; exact hs.rows⟩
  have h1 := C09.setsim_both_empty_iff m a t toks cpu l r hv hs fr hres ls hls rs hrs hpl hpr he
  have h2 := C09.setsim_both_empty_iff m (a.withTables l' r') t toks cpu' l' r' hv' hs' fr' hres' ls
    (hp.lRows.mem_iff.2 hls) rs (hp.rRows.mem_iff.2 hrs)
    ((present_congr l l' hp.lCols _ _).2 hpl) ((present_congr r r' hp.rCols _ _).2 hpr)
    (by rw [tokensOf_congr _ l l' hp.lCols, tokensOf_congr _ r r' hp.rCols]; exact he)
  rw [keyOf_congr l l' hp.lCols, keyOf_congr r r' hp.rCols] at h2
  exact ⟨Iff.trans h1 (Iff.symm h2), h1⟩

/-- ROW ORDER, EVERY entry point (all joins, all `filter_tables`), the rows of MISSING VALUES: for the call on the
    original tables (`call`) and the call on the row-permuted tables (`call'`), the result with `allow_missing=True`
    is the result with `allow_missing=False` followed by a block `M` resp. `M'` of missing-value rows, and `M'` is a
    permutation of `M` -/
theorem presentation_row_permutation_missing {call call' : Bool → Int → Int → Except PyErr Frame} {a : TableArgs}
    {l r l' r' : Frame} {oss : Bool} (h : TableCall call a l r oss) (h' : TableCall call' (a.withTables l' r') l' r' oss)
    (hp : RowsPermuted l r l' r') (nj cpu nj' cpu' : Int) (frT frF frT' frF' : Frame)
    (hT : call true nj cpu = .ok frT) (hF : call false nj cpu = .ok frF)
    (hT' : call' true nj' cpu' = .ok frT') (hF' : call' false nj' cpu' = .ok frF') :
    ∃ M M' : List Row,
      frT.rows.map (fun row => row.drop 1) = frF.rows.map (fun row => row.drop 1) ++ M ∧
      frT'.rows.map (fun row => row.drop 1) = frF'.rows.map (fun row => row.drop 1) ++ M' ∧
      M.Perm M' :=
  ⟨RT.missingRows a l r oss, RT.missingRows a l' r' oss, missing_tail h nj cpu frT frF hT hF,
    missing_tail h' nj' cpu' frT' frF' hT' hF', missingRows_perm a l r l' r' oss hp⟩

/-! ## 4. repeating the call -/

/-- REPEAT: the entry points of the model are functions — the same arguments give the same outcome.  This is `rfl`:
    the triviality "a function of its arguments", true of every Lean function and carrying no information about
    the real code.  That repeating a REAL call, or running it in other processes, gives the same result is a runtime
    fact checked by the oracles of the harness, not here (what a second real call could see differently inside the
    model's vocabulary — the tokenizer flag — is C12). -/
theorem presentation_repeat (m : Measure) (a : JoinArgs) (t : TokObj) (toks : TokFn) (cpu : Int) :
    setSimJoinPy m a t toks cpu = setSimJoinPy m a t toks cpu ∧
    overlapCoefficientJoinPy a t toks cpu = overlapCoefficientJoinPy a t toks cpu ∧
    overlapJoinPy a t toks cpu = overlapJoinPy a t toks cpu ∧
    editDistanceJoinPy a t toks cpu = editDistanceJoinPy a t toks cpu := ⟨rfl, rfl, rfl, rfl⟩

/-! ## non-vacuity -/

namespace PresentationExample

/-- a (set-mode) tokenizer given by a table: whitespace tokens of the strings used below -/
def tk : TokFn := fun _ s =>
  if s = "a b" then ["a", "b"] else if s = "b c" then ["b", "c"] else if s = "b" then ["b"] else []

theorem tk_nodup : ∀ s, (tk true s).Nodup := by
  intro s; unfold tk; split_ifs <;> decide

def L : Frame := { columns := ["id", "s"], dtypes := ["int64", "object"], index := [.int 0, .int 1, .int 2],
                   rows := [[.int 1, .str "a b"], [.int 2, .str ""], [.int 3, .missing]] }
def R : Frame := { columns := ["rid", "u"], dtypes := ["int64", "object"], index := [.int 0, .int 1, .int 2],
                   rows := [[.int 7, .str "b c"], [.int 8, .str ""], [.int 9, .str "b"]] }
/-- `L` with its rows in another order and string index labels -/
def L' : Frame := { columns := ["id", "s"], dtypes := ["int64", "object"], index := [.str "x", .str "y", .str "z"],
                    rows := [[.int 3, .missing], [.int 1, .str "a b"], [.int 2, .str ""]] }
/-- `R` with its rows reversed -/
def R' : Frame := { columns := ["rid", "u"], dtypes := ["int64", "object"], index := [.int 2, .int 1, .int 0],
                    rows := [[.int 9, .str "b"], [.int 8, .str ""], [.int 7, .str "b c"]] }
/-- `L` with the extra column `zip` -/
def Lz : Frame := { columns := ["id", "s", "zip"], dtypes := ["int64", "object", "int64"],
                    index := [.int 0, .int 1, .int 2],
                    rows := [[.int 1, .str "a b", .int 53703], [.int 2, .str "", .int 53706], [.int 3, .missing, .missing]] }

/-- `overlap_join(L, R, 'id', 'rid', 's', 'u', tok, 1, allow_missing=True)` -/
def A : JoinArgs := { ltable := some L, rtable := some R, lKey := "id", rKey := "rid", lAttr := "s", rAttr := "u",
                      threshold := .int 1, allowMissing := true }
def F : OverlapFilterObj := { overlapSize := .int 1, compOp := ">=", allowMissing := true }

theorem permuted : RowsPermuted L R L' R' := ⟨rfl, rfl, by decide, rfl, rfl, by decide⟩
theorem wfL : WellFormed L := ⟨rfl, by decide⟩
theorem wfR : WellFormed R := ⟨rfl, by decide⟩
theorem extra : ExtraColumn L Lz "zip" :=
  ⟨by decide, rfl, ⟨"int64", rfl⟩, .cons ⟨_, rfl⟩ (.cons ⟨_, rfl⟩ (.cons ⟨_, rfl⟩ .nil))⟩

/-- the hypotheses of the extra-column theorem hold for the concrete call: the `zip` column changes nothing … -/
example : overlapJoinPy (A.withTables Lz R) {} tk 1 = overlapJoinPy A {} tk 1 :=
  (presentation_extra_columns_irrelevant A {} tk 1 L R Lz R rfl rfl wfL wfR (.one (by decide) extra) .none).2.2.1

/-- … and the outcome in question is a proper result: two matches, then the three pairs of the missing value -/
example : (overlapJoinPy A {} tk 1).result =
    .ok { columns := ["_id", "l_id", "r_rid", "_sim_score"], index := [.int 0, .int 1, .int 0, .int 1, .int 2],
          rows := [[.int 0, .int 1, .int 7, .int 1], [.int 1, .int 1, .int 9, .int 1],
                   [.int 2, .int 3, .int 7, .missing], [.int 3, .int 3, .int 8, .missing],
                   [.int 4, .int 3, .int 9, .missing]] } := by decide

/-- another index: nothing changes -/
example : overlapJoinPy (A.withTables (L.withIndex [.str "p", .str "q"]) (R.withIndex [])) {} tk 1 = overlapJoinPy A {} tk 1 :=
  (presentation_index_irrelevant A {} tk 1 L R rfl rfl _ _).2.2.1

/-- rows permuted: the hypotheses of `presentation_row_permutation_overlap` / `_ovc` hold -/
example : ∃ fr fr', (overlapJoinPy A {} tk 1).result = .ok fr ∧
    (overlapJoinPy (A.withTables L' R') {} tk 4).result = .ok fr' ∧ fr.columns = fr'.columns ∧
    (fr.rows.map (fun row => row.drop 1)).Perm (fr'.rows.map (fun row => row.drop 1)) :=
  presentation_row_permutation_overlap A {} tk 1 4 F L R L' R' rfl (by decide) (by decide) tk_nodup (by decide) permuted
    (by decide +kernel)

/-- … and the permuted call indeed lists the same rows in ANOTHER order (so "permutation" cannot be improved to
    "equal"): first the matches of right row 9, then of right row 7 -/
example : ((overlapJoinPy (A.withTables L' R') {} tk 1).result.toOption.map
      (fun fr => fr.rows.map (fun row => row.drop 1))) =
    some [[.int 1, .int 9, .int 1], [.int 1, .int 7, .int 1],
          [.int 3, .int 9, .missing], [.int 3, .int 8, .missing], [.int 3, .int 7, .missing]] := by decide

/-- the same for `overlap_coefficient_join` (threshold 1: the pairs (1,9) and — empty/empty — (2,8) qualify) -/
example : ∃ fr fr', (overlapCoefficientJoinPy A {} tk 1).result = .ok fr ∧
    (overlapCoefficientJoinPy (A.withTables L' R') {} tk 1).result = .ok fr' ∧
    fr.columns = fr'.columns ∧
    (fr.rows.map (fun row => row.drop 1)).Perm (fr'.rows.map (fun row => row.drop 1)) :=
  presentation_row_permutation_ovc A {} tk 1 1 L R L' R' (by decide) tk_nodup (by decide) permuted
    (by decide +kernel)

/-- edit distance with the real 2-gram tokenizer on the row-permuted fixture of C03 -/
example : ∃ fr fr', (editDistanceJoinPy C03.exA C03.exT C03.exToks 1).result = .ok fr ∧
    (editDistanceJoinPy (C03.exA.withTables { C03.exL with rows := C03.exL.rows.reverse }
        { C03.exR with rows := C03.exR.rows.reverse }) C03.exT C03.exToks 1).result = .ok fr' ∧
    fr.columns = fr'.columns ∧
    (fr.rows.map (fun row => row.drop 1)).Perm (fr'.rows.map (fun row => row.drop 1)) :=
  presentation_row_permutation_ed_qgrams C03.exA C03.exT C03.exToks 1 1 C03.exL C03.exR _ _ 1 true C03.ex_valid
    C03.ex_tau (by decide) (by decide) rfl
    ⟨rfl, rfl, (List.reverse_perm _), rfl, rfl, (List.reverse_perm _)⟩ (by decide +kernel)

section SetSim
open EntrySetSim.Ex

/-- the two tables of the fixture `EntrySetSim.Ex` with their rows reversed -/
def revL : Frame := { exL with rows := exL.rows.reverse }
def revR : Frame := { exR with rows := exR.rows.reverse }
theorem revPermuted : RowsPermuted exL exR revL revR :=
  ⟨rfl, rfl, List.reverse_perm _, rfl, rfl, List.reverse_perm _⟩

/-- jaccard: the fixture of `EntrySetSim.Ex` (see `Props/C01`, `Props/C13`) with both tables reversed; the pair
    ((1,"ab"), (7,"abc")) is non-straddling and is reported by both calls -/
example (fr fr' : Frame)
    (h : (setSimJoinPy .jaccard exArgs {} exToks 4).result = .ok fr)
    (h' : (setSimJoinPy .jaccard (exArgs.withTables revL revR) {} exToks 4).result = .ok fr') :
    C13.InResult fr (.int 1) (.int 7) ∧ C13.InResult fr' (.int 1) (.int 7) := by
  obtain ⟨h1, h2, -⟩ := presentation_row_permutation_setsim .jaccard (Or.inl rfl) exArgs {} exToks 4 4 exL exR revL revR
    exValid (1 / 2) rfl exThr exScope revPermuted fr fr' h h' exLs exRs exLs_mem exRs_mem exLs_present exRs_present
    exPair_nonempty (C13.exNS _ (by decide) _ (by norm_num))
  have hin : C13.InResult fr (.int 1) (.int 7) := by
    refine h2.2 ?_
    rw [exLs_tokens, exRs_tokens]
    exact EntryLaws.Ex.exQualRounded _ (by norm_num)
  exact ⟨hin, h1.1 hin⟩

/-- the same fixture, the rows of missing values (left row 3 and right row 9 have NaN join values): the hypotheses of
    `presentation_row_permutation_missing` hold — validity of the permuted call comes from `EP.validateJoin_perm` -/
example (frT frF frT' frF' : Frame)
    (hT : (setSimJoinPy .jaccard (exArgs.set true 2) {} exToks 4).result = .ok frT)
    (hF : (setSimJoinPy .jaccard (exArgs.set false 2) {} exToks 4).result = .ok frF)
    (hT' : (setSimJoinPy .jaccard ((exArgs.withTables revL revR).set true 1) {} exToks 8).result = .ok frT')
    (hF' : (setSimJoinPy .jaccard ((exArgs.withTables revL revR).set false 1) {} exToks 8).result = .ok frF') :
    ∃ M M' : List Row,
      frT.rows.map (fun row => row.drop 1) = frF.rows.map (fun row => row.drop 1) ++ M ∧
      frT'.rows.map (fun row => row.drop 1) = frF'.rows.map (fun row => row.drop 1) ++ M' ∧ M.Perm M' :=
  presentation_row_permutation_missing (a := exArgs.toTableArgs) (l' := revL) (r' := revR)
    (.setSim .jaccard exArgs {} exToks exL exR exValid)
    (.setSim .jaccard (exArgs.withTables revL revR) {} exToks revL revR
      (validateJoin_perm _ exArgs {} exL exR revL revR exValid revPermuted))
    revPermuted 2 4 1 8 frT frF frT' frF' hT hF hT' hF'

end SetSim

end PresentationExample

section AxiomCheck
#print axioms presentation_repeat
#print axioms presentation_same_view
#print axioms presentation_same_view_filterTables
#print axioms presentation_same_view_overlapFilterTables
#print axioms presentation_index_irrelevant
#print axioms presentation_index_irrelevant_filterTables
#print axioms presentation_index_irrelevant_overlapFilterTables
#print axioms presentation_extra_column_agree
#print axioms presentation_extra_columns_irrelevant
#print axioms presentation_extra_columns_irrelevant_filterTables
#print axioms presentation_extra_columns_irrelevant_overlapFilterTables
#print axioms presentation_row_permutation_verdict
#print axioms presentation_row_permutation_overlap
#print axioms presentation_row_permutation_ovc
#print axioms presentation_row_permutation_overlapFilterTables
#print axioms presentation_row_permutation_ed
#print axioms presentation_row_permutation_ed_qgrams
#print axioms presentation_row_permutation_setsim
#print axioms presentation_row_permutation_setsim_both_empty
#print axioms presentation_row_permutation_missing
end AxiomCheck

end SSJ.Props.C10

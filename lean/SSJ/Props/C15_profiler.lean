/-
  C15 (companion) — Invalid arguments are rejected up front; valid ones are never rejected:
                    the argument validation of `profile_table_for_join`.

  STATEMENT (C15).  Every join, filter constructor, filter_tables, filter_candset, apply_matcher and PROFILE call that
  is given an argument violating one of its documented preconditions raises TypeError (non-DataFrame table, …) or
  AssertionError (unknown attribute …) before doing any work ….  Conversely every call whose arguments satisfy the
  documented preconditions, on tables of any shape …, returns a DataFrame.
  `SSJ/Props/C15.lean` covers everything but the profiler; this file closes that gap.

  MODEL FUNCTION.  `SSJ.Profiler.profileTable t attrs` (`SSJ/Model/Profiler.lean`) = `profile_table_for_join(
  input_table, profile_attrs)`: `t : Option Frame` is the table argument (`none` = "not a DataFrame"),
  `attrs : Option (List String)` the `profile_attrs` argument (`none` = Python `None` = "all columns").  The result
  is `.error e` (an exception) or `.ok rows`, `rows` being the rows (Attribute, Unique values, Missing values,
  Comments) of the returned DataFrame, in order.  The code order is: `validate_input_table`; for every requested
  attribute `validate_attr`; `num_rows = len(table)`; then per attribute the statistics, whose percentages divide by
  `float(num_rows)` under `if num_rows > 0:` and are `0.0` otherwise (/repo 39fa1bc; before that a table without
  rows raised ZeroDivisionError).

  THEOREMS.
    `profile_rejects_non_dataframe`      not a DataFrame ⇒ TypeError, whatever the attribute list;
    `profile_rejects_unknown_attribute`  a requested attribute that is not a column ⇒ AssertionError, whatever the
                                         table's rows are (also for a table with no rows: the check comes first);
    `profile_accepts`                    DataFrame with ANY number of rows (none included), `profile_attrs` None or
                                         naming only existing columns (repeats allowed) ⇒ returns; one row per
                                         requested attribute in request order (all columns in column order for None),
                                         each row being the profile of that column (`profileColumn`, whose content is
                                         property C17);
    `profile_accepts_empty_request`      nothing to profile (explicitly empty list, or None on a table without
                                         columns) ⇒ returns the empty output;
    `profile_empty_table_returns`        "tables of any shape": a DataFrame with NO rows and existing attributes is
                                         answered with one row `(a, '0 (0.0%)', '0 (0.0%)', 'This attribute can be
                                         used as a key attribute.')` per profiled attribute (0 unique values, 0
                                         missing values, both 0.0 %; `unique_values == num_rows == 0` and nothing
                                         missing, hence the key comment);
    `profile_returns_iff`                complete characterisation: the call returns iff the table is a DataFrame and
                                         every requested attribute is a column;
    `profile_error_kind`                 the only exceptions are TypeError and AssertionError.

  SCOPE.  No hypothesis on the table beyond those written in each theorem: any columns, dtypes, cells (all missing,
  all equal, …), any number of rows.  "Before doing any work" is visible in the statements: the rejection theorems do
  not mention the rows.

  NOT COVERED.  The content of the statistics (C17).  A `profile_attrs` argument that is not a list (Python would
  iterate whatever it is given) has no counterpart in the model.  The returned frame's index (`set_index('Attribute')`)
  is represented by the first component of each row.  Tie to the real code: the `profiler` correspondence suite.
-/
import SSJ.Proofs.Gaps3
import SSJ.Proofs.ProfilerExact

namespace SSJ.Props.C15
open SSJ SSJ.Profiler

/-- the output row of attribute `a`: its name, the formatted unique-value and missing-value statistics, the comment -/
def profileRow (f : Frame) (a : String) : String × String × String × String :=
  (a, (profileColumn (f.col a)).1, (profileColumn (f.col a)).2.1, (profileColumn (f.col a)).2.2)

/-- the attributes that are profiled: the requested ones, or all columns when `profile_attrs` is None -/
def profiled (f : Frame) (attrs : Option (List String)) : List String := attrs.getD f.columns

/-- A table argument that is not a DataFrame ⇒ TypeError (first check), whatever `profile_attrs` is. -/
theorem profile_rejects_non_dataframe (attrs : Option (List String)) :
    profileTable none attrs = .error .typeErr :=
  profileTable_none attrs

/-- Some requested attribute is not a column of the table ⇒ AssertionError — whatever the other requested
    attributes and whatever the table's rows are (none, one, many). -/
theorem profile_rejects_unknown_attribute (f : Frame) (req : List String) (h : ∃ a ∈ req, f.hasCol a = false) :
    profileTable (some f) (some req) = .error .assertion :=
  profileTable_unknown f req h

/-- A DataFrame (any rows, none included), `profile_attrs` either None or a list of existing columns ⇒ the call
    returns: one row per requested attribute, in request order (for None: every column, in column order), and the row
    of attribute `a` is the profile of column `a`. -/
theorem profile_accepts (f : Frame) (attrs : Option (List String))
    (hattrs : ∀ req, attrs = some req → ∀ a ∈ req, f.hasCol a = true) :
    ∃ rows, profileTable (some f) attrs = .ok rows ∧
      rows.map (·.1) = profiled f attrs ∧
      rows = (profiled f attrs).map (profileRow f) := by
  refine ⟨_, ?_, ?_, rfl⟩
  · rw [profileTable_some_eq f attrs hattrs]
    rfl
  · rw [List.map_map]
    exact List.map_id' _

/-- Nothing to profile — an explicitly empty attribute list, or None on a table without columns — ⇒ the call
    returns the empty output. -/
theorem profile_accepts_empty_request (f : Frame) (attrs : Option (List String)) (h : profiled f attrs = []) :
    profileTable (some f) attrs = .ok [] := by
  have hattrs : ∀ req, attrs = some req → ∀ a ∈ req, f.hasCol a = true := by
    rintro req rfl a ha
    have : req = [] := h
    rw [this] at ha; cases ha
  unfold profiled at h
  rw [profileTable_some_eq f attrs hattrs, h]
  rfl

/-- … in particular for the explicitly empty list, on every DataFrame. -/
theorem profile_accepts_empty_list (f : Frame) : profileTable (some f) (some []) = .ok [] :=
  profile_accepts_empty_request f (some []) rfl

/-- the output row of an attribute of a table without rows: 0 unique values (0.0 %), 0 missing values (0.0 %), and —
    `unique_values == num_rows` and nothing missing — the key comment -/
def emptyTableRow (a : String) : String × String × String × String :=
  (a, "0 (0.0%)", "0 (0.0%)", "This attribute can be used as a key attribute.")

/-- A TABLE WITHOUT ROWS IS A VALID ARGUMENT.  A DataFrame with NO rows and attributes that all exist ⇒ the call
    returns one row `(a, '0 (0.0%)', '0 (0.0%)', 'This attribute can be used as a key attribute.')` per profiled
    attribute, in request order.  (Before /repo 39fa1bc the first statistic computed `float(k) / float(0)`:
    ZeroDivisionError.) -/
theorem profile_empty_table_returns (f : Frame) (attrs : Option (List String)) (hrows : f.rows = [])
    (hattrs : ∀ req, attrs = some req → ∀ a ∈ req, f.hasCol a = true) :
    profileTable (some f) attrs = .ok ((profiled f attrs).map emptyTableRow) := by
  obtain ⟨rows, h, -, hr⟩ := profile_accepts f attrs hattrs
  rw [h, hr]
  congr 1
  apply List.map_congr_left
  intro a _
  have hcol : f.col a = [] := by simp [Frame.col, hrows]
  unfold profileRow emptyTableRow
  rw [hcol, profileColumn_nil]

/-- COMPLETE CHARACTERISATION of the calls that return: a DataFrame and every requested attribute a column —
    nothing else, in particular no condition on the rows. -/
theorem profile_returns_iff (t : Option Frame) (attrs : Option (List String)) :
    (∃ rows, profileTable t attrs = .ok rows) ↔
      ∃ f, t = some f ∧ ∀ req, attrs = some req → ∀ a ∈ req, f.hasCol a = true := by
  constructor
  · rintro ⟨rows, h⟩
    cases t with
    | none => rw [profileTable_none] at h; cases h
    | some f =>
      refine ⟨f, rfl, ?_⟩
      rintro req rfl a ha
      by_contra hc
      rw [profileTable_unknown f req ⟨a, ha, by simpa using hc⟩] at h
      cases h
  · rintro ⟨f, rfl, hattrs⟩
    obtain ⟨rows, hr, -⟩ := profile_accepts f attrs hattrs
    exact ⟨rows, hr⟩

/-- The profiler raises nothing but TypeError and AssertionError (argument validation). -/
theorem profile_error_kind (t : Option Frame) (attrs : Option (List String)) (e : PyErr)
    (h : profileTable t attrs = .error e) : e = .typeErr ∨ e = .assertion := by
  cases t with
  | none => rw [profileTable_none] at h; cases h; exact Or.inl rfl
  | some f =>
    by_cases hattrs : ∀ req, attrs = some req → ∀ a ∈ req, f.hasCol a = true
    · rw [profileTable_some_eq f attrs hattrs] at h
      cases h
    · push Not at hattrs
      obtain ⟨req, rfl, a, ha, hc⟩ := hattrs
      rw [profileTable_unknown f req ⟨a, ha, by simpa using hc⟩] at h
      cases h; exact Or.inr rfl

/-! ## Non-vacuity -/

section Examples

/-- a table with two rows, one missing name … -/
def profEx : Frame := { columns := ["id", "name"], dtypes := ["int64", "object"],
                        rows := [[.int 1, .str "ann"], [.int 2, .missing]] }
/-- … and the same table without rows -/
def profExEmpty : Frame := { profEx with rows := [] }

/-- the hypotheses of `profile_accepts` are satisfiable: a repeated and reordered request of existing columns … -/
example : ∀ req, some ["name", "id", "name"] = some req → ∀ a ∈ req, profEx.hasCol a = true := by
  rintro req ⟨rfl⟩
  decide
/-- … giving three rows in request order; for None both columns in column order -/
example : ∃ rows, profileTable (some profEx) (some ["name", "id", "name"]) = .ok rows ∧
    rows.map (·.1) = ["name", "id", "name"] := by
  obtain ⟨rows, h, hn, -⟩ := profile_accepts profEx (some ["name", "id", "name"])
    (by rintro req ⟨rfl⟩; decide)
  exact ⟨rows, h, hn⟩
example : ∃ rows, profileTable (some profEx) none = .ok rows ∧ rows.map (·.1) = ["id", "name"] := by
  obtain ⟨rows, h, hn, -⟩ := profile_accepts profEx none (by rintro req h; cases h)
  exact ⟨rows, h, hn⟩
/-- the content of a row (C17): `name` has a missing value, `id` is a key -/
example : (profileRow profEx "id").2.2.2 = "This attribute can be used as a key attribute." := by decide
/-- rejection: unknown attribute (on the empty table too), non-DataFrame -/
example : profileTable (some profEx) (some ["name", "zip"]) = .error .assertion :=
  profile_rejects_unknown_attribute _ _ ⟨"zip", by decide, by decide⟩
example : profileTable (some profExEmpty) (some ["zip"]) = .error .assertion :=
  profile_rejects_unknown_attribute _ _ ⟨"zip", by decide, by decide⟩
example : profileTable none (some ["name"]) = .error .typeErr := profile_rejects_non_dataframe _
/-- the table without rows: one row per profiled attribute, every attribute "a key" -/
example : profileTable (some profExEmpty) none =
    .ok [("id", "0 (0.0%)", "0 (0.0%)", "This attribute can be used as a key attribute."),
         ("name", "0 (0.0%)", "0 (0.0%)", "This attribute can be used as a key attribute.")] :=
  profile_empty_table_returns _ _ rfl (by rintro req h; cases h)
example : profileTable (some profExEmpty) (some ["name"]) =
    .ok [("name", "0 (0.0%)", "0 (0.0%)", "This attribute can be used as a key attribute.")] :=
  profile_empty_table_returns _ _ rfl (by rintro req ⟨rfl⟩; decide)
example : profileTable (some profExEmpty) (some []) = .ok [] := profile_accepts_empty_list _

end Examples

section AxiomCheck
#print axioms profile_rejects_non_dataframe
#print axioms profile_rejects_unknown_attribute
#print axioms profile_accepts
#print axioms profile_accepts_empty_request
#print axioms profile_accepts_empty_list
#print axioms profile_empty_table_returns
#print axioms profile_returns_iff
#print axioms profile_error_kind
end AxiomCheck

end SSJ.Props.C15

/-
  C17 — The profiler reports exact unique/missing counts and key suitability.

  STATEMENT.  profile_table_for_join returns one row per profiled attribute, indexed by attribute name, whose
  'Unique values' and 'Missing values' entries contain the exact number (and percentage to two decimals) of distinct
  values (a missing value counting as one value) and of missing values in that column.  The comment recommends the
  attribute as a key exactly when all values are distinct and none is missing, and warns about ignored rows exactly
  when at least one value is missing.

  SPECIFICATION (`SSJ/Spec/ProfilerSpec.lean`, independent of the model): `distinctValues col` = cardinality of the
  set of Python values of the present cells + 1 if a cell is missing; `missingValues col`; `AllDistinct col`;
  `percentString k n` = `str(round(float(k) / float(n) * 100, 2))`; `statString k n` = `'<k> (<percent>%)'`.
  "Same value" is Python's `==` as pandas' `unique()` applies it: numbers by exact value across int / float / bool
  (`1`, `1.0`, `True` are one value; `2**53 + 1` and `float(2**53)` are two), `'1'` and `1` differ, every
  None / NaN / pd.NA / pd.NaT is the one missing value, `-0.0` is `0.0`, ±inf and opaque objects equal only
  themselves (scope: opaque objects are identified by the harness tag `type:repr`; objects that compare equal to a
  number or to a differently printed object — `Decimal(1)`, `Fraction(1)`, `(1, 2.0)` — are outside the model).

  MODEL.  `SSJ.Profiler.profileColumn col` (`SSJ/Model/Profiler.lean`) = (unique stat, missing stat, comment) of one
  column = list of cells; `uniqueCount` follows the code (`nunique(dropna=True)` as a table of pairwise-`==` distinct
  cells, `Cell.pyEq`, plus one if `missing_values > 0`); `percent` evaluates the float expression in `PyV`.
  `SSJ.Profiler.profileTable` = the whole call.

  HYPOTHESES.  The two entry theorems need fewer than 2^53 rows (row counts are then exact doubles).  Nothing else:
  any cells, any mix, any number of rows.  A TABLE WITHOUT ROWS (accepted since /repo 39fa1bc; it used to raise
  ZeroDivisionError) has the entries `'0 (0.0%)'`, `'0 (0.0%)'` and is recommended as a key (`empty_column_entries`):
  the code does not divide then but takes `0.0`, and the specification's `percentString k 0` is "0.0" as well
  (`percent_no_rows`; `k / 0 = 0` in `Rat`), so `unique_entry_exact` / `missing_entry_exact` hold for it too.  The
  hypothesis `1 ≤ n` is kept where the statement speaks of the exact percentage `100·k/n` (`percent_two_decimals`,
  `percent_correctly_rounded`), where it is needed for the statement to be true (`percent_all`: "100.0" — an empty
  table shows "0.0"), and `col ≠ []` in `counts_in_range` (an empty column has 0 distinct values, not ≥ 1).

  TRUSTED.  `reprHundredths c` is CPython's `repr` of the double nearest to `c/100` for `0 ≤ c ≤ 10000` (header of the
  spec file; exhaustively checked on CPython).  `percent_two_decimals` proves that the profiler's percentage is
  always such a double and that `c/100` is the exact percentage rounded to two decimals.

  NOT COVERED.  The returned frame's index (`set_index('Attribute')`) is represented by the first component of each
  row.  Tie to the real code: the `profiler` correspondence suite and the profiler oracle.
-/
import SSJ.Proofs.ProfilerExact

namespace SSJ.Props.C17
open SSJ SSJ.Profiler SSJ.ProfilerSpec

/-! ### the two statistics entries (main clause) -/

/-- the 'Unique values' entry is `'<d> (<p>%)'` with `d` the exact number of distinct values of the column (a missing
    value counting as one value) and `p` Python's two-decimal percentage of `d` in the number of rows (for a table
    without rows: `'0 (0.0%)'`, see `empty_column_entries`) -/
theorem unique_entry_exact (col : List Cell) (hn : col.length < 2 ^ 53) :
    (profileColumn col).1 = statString (distinctValues col) col.length :=
  profileColumn_fst col hn

/-- the 'Missing values' entry is `'<m> (<p>%)'` with `m` the exact number of missing values of the column -/
theorem missing_entry_exact (col : List Cell) (hn : col.length < 2 ^ 53) :
    (profileColumn col).2.1 = statString (missingValues col) col.length :=
  profileColumn_snd col hn

/-- a column of a table WITHOUT ROWS: 0 distinct values, 0 missing values, both shown with 0.0 %, and — all (zero)
    values distinct, none missing — the key recommendation.  Explicit strings: this does not go through the
    specification's `percentString`, whose expression `float(k) / float(n)` has no Python value for `n = 0` -/
theorem empty_column_entries :
    profileColumn [] = ("0 (0.0%)", "0 (0.0%)", "This attribute can be used as a key attribute.") :=
  profileColumn_nil

/-- the counts the model computes ARE the specification's numbers (any column, also the empty one) -/
theorem unique_count_exact (col : List Cell) : uniqueCount col = distinctValues col := uniqueCount_eq col

theorem missing_count_exact (col : List Cell) : missingCount col = missingValues col := missingCount_eq col

/-- the equality the model's table of unique values is keyed by (pairwise Python `==`) identifies exactly the cells
    that hold the same value -/
theorem cell_equality (a b : Cell) : a.pyEq b = true ↔ valueOf a = valueOf b := pyEq_iff a b

/-- "a missing value counts as one value": the distinct values are the distinct elements of the column read as
    optional values, `none` being the one missing value -/
theorem distinct_values_missing_as_one (col : List Cell) :
    distinctValues col = (col.map valueOf).toFinset.card :=
  distinctValues_eq_card col

/-- as many distinct values as rows exactly when no two cells hold the same value -/
theorem distinct_eq_rows_iff (col : List Cell) : distinctValues col = col.length ↔ AllDistinct col :=
  distinctValues_eq_length_iff col

/-- the counts are in range; a column with at least one row has at least one distinct value (the column of a table
    without rows has none: `col ≠ []` is needed for the middle clause only) -/
theorem counts_in_range (col : List Cell) (h : col ≠ []) :
    missingValues col ≤ col.length ∧ 1 ≤ distinctValues col ∧ distinctValues col ≤ col.length :=
  profileColumn_counts col h

theorem missing_count_pos_iff (col : List Cell) : 0 < missingValues col ↔ Cell.missing ∈ col :=
  missingValues_pos_iff col

/-! ### the percentage -/

/-- for a count `k` of a table with `n` rows (`0 ≤ k ≤ n < 2^53`; `n = 0` included, the percentage is then the
    literal `0.0`) the float expression `round(float(k) / float(n) * 100, 2)` evaluates to a double without any Python
    error, and the formatted statistic is the specification's string: the model's `"?%"` fallback is never taken -/
theorem percent_never_fallback (k n : Nat) (hk : k ≤ n) (hn : n < 2 ^ 53) :
    percent k n = .float (percentDouble k n) ∧ formatStatistic k (percent k n) = statString k n :=
  ⟨percent_eq k n hk hn, formatStatistic_percent k k n hk hn⟩

/-- a table without rows: the percentage is `0.0` in the model (no division is evaluated) and in the specification
    (`k / 0 = 0` in `Rat`), printed "0.0" -/
theorem percent_no_rows (k : Nat) :
    percent k 0 = .float 0 ∧ percentDouble k 0 = 0 ∧ percentString k 0 = "0.0" :=
  ⟨rfl, percentDouble_zero_rows k, percentString_zero_rows k⟩

/-- "percentage to two decimals": the percentage is the double nearest to a two-decimal number `c/100`
    (`0 ≤ c ≤ 10000`), it is printed as that decimal, and `c/100` is the exact percentage `100·k/n` rounded to two
    decimals (up to the `< 10⁻¹³` error of the two binary roundings in `float(k) / float(n) * 100`) -/
theorem percent_two_decimals (k n : Nat) (hk : k ≤ n) (h1 : 1 ≤ n) (hn : n < 2 ^ 53) :
    ∃ c : Nat, c ≤ 10000 ∧ percentDouble k n = F64.rn ((c : Rat) / 100) ∧
      percentString k n = reprHundredths c ∧
      |(c : Rat) / 100 - 100 * (k : Rat) / n| ≤ 1 / 200 + 1 / 10 ^ 13 := by
  obtain ⟨c0, c1⟩ := pctHundredths_bounds hk
  obtain ⟨c, hc⟩ := Int.eq_ofNat_of_zero_le c0
  refine ⟨c, by omega, ?_, ?_, ?_⟩
  · rw [percentDouble_eq_two_decimals, hc]; rfl
  · rw [percentString_eq hk, hc]; rfl
  · have := pctHundredths_close hk h1 hn
    rw [hc, Int.cast_natCast] at this
    exact this

/-- whenever the exact percentage, in hundredths (`10000·k/n`), is not within `10⁻¹⁰` of a rounding tie `c ± 1/2`,
    the printed percentage is the correctly rounded two-decimal number `c/100` -/
theorem percent_correctly_rounded (k n c : Nat) (hk : k ≤ n) (h1 : 1 ≤ n) (hn : n < 2 ^ 53)
    (hlo : (c : Rat) - 1 / 2 + 1 / 10 ^ 10 ≤ 10000 * (k : Rat) / n)
    (hhi : 10000 * (k : Rat) / n ≤ (c : Rat) + 1 / 2 - 1 / 10 ^ 10) :
    percentString k n = reprHundredths c := by
  rw [percentString_eq hk, pctHundredths_of_near c hk h1 hn hlo hhi]; rfl

/-- every row counted: "100.0" (needs a row: a table without rows shows "0.0", `percent_no_rows`); none: "0.0" -/
theorem percent_all (n : Nat) (h1 : 1 ≤ n) : percentString n n = "100.0" := by
  rw [percentString_eq le_rfl, pctHundredths_self h1]; decide

theorem percent_none (n : Nat) : percentString 0 n = "0.0" := by
  rw [percentString_eq (Nat.zero_le n), pctHundredths_zero]; decide

/-! ### the comment -/

/-- the comment recommends the attribute as a key exactly when all values are distinct and none is missing —
    for tables of ANY size (the pinned code decided on percentages rounded to two decimals), the table without rows
    included (vacuously all distinct, none missing: recommended) -/
theorem key_recommended_iff (col : List Cell) :
    (profileColumn col).2.2 = "This attribute can be used as a key attribute." ↔
      AllDistinct col ∧ Cell.missing ∉ col :=
  profileColumn_key_iff col

/-- the comment warns about ignored rows exactly when at least one value is missing -/
theorem warns_iff (col : List Cell) :
    "Joining on this attribute will ignore ".toList <+: (profileColumn col).2.2.toList ↔ Cell.missing ∈ col :=
  profileColumn_ignore_prefix_iff col

/-- … and the warning then quotes the 'Missing values' entry -/
theorem warning_text (col : List Cell) (hn : col.length < 2 ^ 53) (hm : Cell.missing ∈ col) :
    (profileColumn col).2.2 =
      s!"Joining on this attribute will ignore {statString (missingValues col) col.length} rows." := by
  rw [← missing_entry_exact col hn]
  exact (profileColumn_ignore_iff col).mpr hm

/-! ### the table -/

/-- one row per profiled attribute, in request order (all columns when `profile_attrs` is None), each row being the
    profile of that column -/
theorem one_row_per_attribute (f : Frame) (attrs : Option (List String)) (rows : List (String × String × String × String))
    (h : profileTable (some f) attrs = .ok rows) :
    rows = (attrs.getD f.columns).map (fun a => (a, (profileColumn (f.col a)).1, (profileColumn (f.col a)).2.1, (profileColumn (f.col a)).2.2)) := by
  unfold profileTable at h
  simp only [validateInputTable, bind, Except.bind, pure, Except.pure] at h
  cases attrs with
  | none =>
    simp only [Option.getD] at h ⊢
    simpa using h.symm
  | some l =>
    simp only [Option.getD] at h ⊢
    cases hv : (l.forM (fun a => validateAttr a f) : Except PyErr PUnit) with
    | error e => simp [hv] at h
    | ok u =>
      simp only [hv] at h
      simpa using h.symm

/-- argument validation of the profiler: a non-DataFrame is rejected with TypeError -/
theorem rejects_non_dataframe (attrs : Option (List String)) : profileTable none attrs = .error .typeErr := by
  simp [profileTable, validateInputTable, bind, Except.bind]

/-! ### row order and growth of the column

  The statistics are functions of the multiset of cells: re-ordering the rows of the table changes no entry; stacking
  two tables adds the missing counts, and the distinct count of the stack lies between each part's and their sum. -/

/-- the number of distinct values does not depend on the order of the rows -/
theorem distinct_perm {c₁ c₂ : List Cell} (h : c₁.Perm c₂) : distinctValues c₁ = distinctValues c₂ := by
  rw [distinct_values_missing_as_one, distinct_values_missing_as_one,
    List.toFinset_eq_of_perm _ _ (h.map valueOf)]

/-- the number of missing values does not depend on the order of the rows -/
theorem missing_perm {c₁ c₂ : List Cell} (h : c₁.Perm c₂) : missingValues c₁ = missingValues c₂ :=
  h.count_eq _

/-- both statistics entries of the profile are the same for every order of the rows -/
theorem entries_perm {c₁ c₂ : List Cell} (h : c₁.Perm c₂) (hn : c₁.length < 2 ^ 53) :
    (profileColumn c₁).1 = (profileColumn c₂).1 ∧ (profileColumn c₁).2.1 = (profileColumn c₂).2.1 := by
  have hn₂ : c₂.length < 2 ^ 53 := h.length_eq ▸ hn
  rw [unique_entry_exact c₁ hn, unique_entry_exact c₂ hn₂, missing_entry_exact c₁ hn, missing_entry_exact c₂ hn₂,
    distinct_perm h, missing_perm h, h.length_eq]
  exact ⟨rfl, rfl⟩

/-- the WHOLE profile of a column — both entries and the comment — is the same for every order of its rows, for
    columns of any length -/
theorem profile_perm {c₁ c₂ : List Cell} (h : c₁.Perm c₂) : profileColumn c₁ = profileColumn c₂ := by
  unfold profileColumn
  simp only [unique_count_exact, missing_count_exact, distinct_perm h, missing_perm h, h.length_eq]

/-- THE TABLE: a table whose rows are those of `f` in another order (same columns) gets the same profile — same
    rows of the result, same entries, same comments, same rejections — whatever attributes are requested -/
theorem table_row_order_irrelevant (f g : Frame) (attrs : Option (List String))
    (hc : g.columns = f.columns) (hr : g.rows.Perm f.rows) :
    profileTable (some g) attrs = profileTable (some f) attrs := by
  have hcol : ∀ a, profileColumn (g.col a) = profileColumn (f.col a) := fun a => by
    apply profile_perm
    unfold Frame.col Frame.colIdx
    rw [hc]
    exact hr.map _
  unfold profileTable
  simp only [validateInputTable, validateAttr, Frame.hasCol, hc, hcol, bind, Except.bind, pure, Except.pure]

/-- stacking two columns adds their missing counts -/
theorem missing_append (a b : List Cell) : missingValues (a ++ b) = missingValues a + missingValues b :=
  List.count_append

/-- stacking never loses a distinct value and never invents one -/
theorem distinct_append (a b : List Cell) :
    distinctValues a ≤ distinctValues (a ++ b) ∧ distinctValues b ≤ distinctValues (a ++ b) ∧
      distinctValues (a ++ b) ≤ distinctValues a + distinctValues b := by
  simp only [distinct_values_missing_as_one, List.map_append, List.toFinset_append]
  exact ⟨Finset.card_le_card Finset.subset_union_left, Finset.card_le_card Finset.subset_union_right,
    Finset.card_union_le _ _⟩

/-- a column that can serve as a key keeps that quality under any re-ordering of its rows -/
theorem all_distinct_perm {c₁ c₂ : List Cell} (h : c₁.Perm c₂) : AllDistinct c₁ ↔ AllDistinct c₂ :=
  (h.map valueOf).nodup_iff

example : distinctValues [.int 1, .missing, .flt 1] = distinctValues [.missing, .flt 1, .int 1] :=
  distinct_perm (by decide)
example : distinctValues ([.int 1, .str "a"] ++ [.flt 1, .missing]) = 3 := by decide

/-! ### non-vacuity -/

/-- a mixed object column: `1`, `1.0`, `True` are one value, `'1'` another, the two missing cells (None, NaN) a third -/
def mixed : List Cell := [.int 1, .flt 1, .other "bool:True", .str "1", .missing, .missing]

example : distinctValues mixed = 3 ∧ missingValues mixed = 2 := by decide
example : Cell.pyEq (.int 1) (.flt 1) = true ∧ Cell.pyEq (.flt 1) (.other "bool:True") = true ∧
    Cell.pyEq (.int 0) (.other "bool:False") = true ∧ Cell.pyEq (.str "1") (.int 1) = false ∧
    Cell.pyEq (.int 9007199254740993) (.flt 9007199254740992) = false := by decide
example : ¬ AllDistinct mixed := by decide
example : AllDistinct [.int 1, .str "1", .flt 2, .other "bool:False", .missing] := by decide

/-- the percentages of the task's examples -/
example : percentString 1 3 = "33.33" := by
  rw [percent_correctly_rounded 1 3 3333 (by norm_num) (by norm_num) (by norm_num) (by norm_num) (by norm_num)]; decide
example : percentString 2 3 = "66.67" := by
  rw [percent_correctly_rounded 2 3 6667 (by norm_num) (by norm_num) (by norm_num) (by norm_num) (by norm_num)]; decide
example : percentString 1 7 = "14.29" := by
  rw [percent_correctly_rounded 1 7 1429 (by norm_num) (by norm_num) (by norm_num) (by norm_num) (by norm_num)]; decide
example : percentString 1 10000 = "0.01" := by
  rw [percent_correctly_rounded 1 10000 1 (by norm_num) (by norm_num) (by norm_num) (by norm_num) (by norm_num)]; decide
example : percentString 1 40003 = "0.0" := by
  rw [percent_correctly_rounded 1 40003 0 (by norm_num) (by norm_num) (by norm_num) (by norm_num) (by norm_num)]; decide

/-- the whole profile of the mixed column -/
example : profileColumn mixed =
    ("3 (50.0%)", "2 (33.33%)", "Joining on this attribute will ignore 2 (33.33%) rows.") := by
  have hu : distinctValues mixed = 3 := by decide
  have hm : missingValues mixed = 2 := by decide
  have hl : mixed.length = 6 := rfl
  have hn : mixed.length < 2 ^ 53 := by rw [hl]; norm_num
  have e1 : percentString 3 6 = "50.0" := by
    rw [percent_correctly_rounded 3 6 5000 (by norm_num) (by norm_num) (by norm_num) (by norm_num) (by norm_num)]; decide
  have e2 : percentString 2 6 = "33.33" := by
    rw [percent_correctly_rounded 2 6 3333 (by norm_num) (by norm_num) (by norm_num) (by norm_num) (by norm_num)]; decide
  have s1 : statString 3 6 = "3 (50.0%)" := by unfold statString; rw [e1]; decide
  have s2 : statString 2 6 = "2 (33.33%)" := by unfold statString; rw [e2]; decide
  have a := unique_entry_exact mixed hn
  have b := missing_entry_exact mixed hn
  have c := warning_text mixed hn (by decide)
  rw [hu, hl, s1] at a
  rw [hm, hl, s2] at b
  rw [hm, hl, s2] at c
  exact Prod.ext a (Prod.ext b c)

/-- three rows, one duplicate ⇒ no key recommendation; the witness of the repaired defect is the same statement at
    20 001 rows, covered by `key_recommended_iff` for every length -/
example : (profileColumn [.int 1, .int 2, .int 1]).2.2 = "" := by decide
example : (profileColumn [.int 1, .int 2, .int 3]).2.2 = "This attribute can be used as a key attribute." := by decide
example : (profileColumn [.int 1, .flt 1, .int 3]).2.2 = "" := by decide

/-- the table without rows, through the general theorems: entry = `statString 0 0` = '0 (0.0%)' -/
example : (profileColumn []).1 = "0 (0.0%)" := by
  rw [unique_entry_exact [] (by norm_num)]
  show statString 0 0 = _
  exact statString_zero_rows

end SSJ.Props.C17

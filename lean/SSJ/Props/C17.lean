/-
  C17 — The profiler reports exact unique/missing counts and key suitability.

  Model: `SSJ.Profiler.profileColumn` (lean/SSJ/Model/Profiler.lean) on one column = list of cells, all missing
  values (None / NaN) being the one cell `Cell.missing`.  Tie to the real code: `profiler` correspondence suite
  (counts, the formatted "n (p%)" strings, comments, incl. tables beyond 20 000 rows) + the profiler oracle.
-/
import SSJ.Proofs.Profiler

namespace SSJ.Props.C17
open SSJ SSJ.Profiler

/-- the unique count is the number of distinct cells (a missing value counting as one value):
    it equals the number of rows exactly when all values are distinct -/
theorem unique_count_exact (col : List Cell) : uniqueCount col = col.length ↔ col.Nodup :=
  uniqueCount_eq_length_iff col

theorem counts_in_range (col : List Cell) (h : col ≠ []) :
    missingCount col ≤ col.length ∧ 1 ≤ uniqueCount col ∧ uniqueCount col ≤ col.length :=
  profileColumn_counts col h

theorem missing_count_pos_iff (col : List Cell) : 0 < missingCount col ↔ ∃ c ∈ col, c.isMissing = true :=
  missingCount_pos_iff col

/-- the comment recommends the attribute as a key exactly when all values are distinct and none is missing —
    for tables of ANY size (the pinned code decided on percentages rounded to two decimals) -/
theorem key_recommended_iff (col : List Cell) :
    (profileColumn col).2.2 = "This attribute can be used as a key attribute." ↔
      col.Nodup ∧ ∀ c ∈ col, c.isMissing = false :=
  profileColumn_key_iff col

/-- the comment warns about ignored rows exactly when at least one value is missing -/
theorem warns_iff (col : List Cell) :
    "Joining on this attribute will ignore ".toList <+: (profileColumn col).2.2.toList ↔
      ∃ c ∈ col, c.isMissing = true :=
  profileColumn_ignore_prefix_iff col

/-- one row per profiled attribute, in request order (all columns when `profile_attrs` is None), each row being the
    profile of that column -/
theorem one_row_per_attribute (f : Frame) (attrs : Option (List String)) (rows : List (String × String × String × String))
    (h : profileTable (some f) attrs = .ok rows) :
    rows = (attrs.getD f.columns).map (fun a => (a, (profileColumn (f.col a)).1, (profileColumn (f.col a)).2.1, (profileColumn (f.col a)).2.2)) := by
  unfold profileTable at h
  simp only [validateInputTable, bind, Except.bind, pure, Except.pure] at h
  cases attrs with
  | none =>
    simp only [Option.getD] at h ⊢
    split at h
    · simp at h
    · simpa using h.symm
  | some l =>
    simp only [Option.getD] at h ⊢
    cases hv : (l.forM (fun a => validateAttr a f) : Except PyErr PUnit) with
    | error e => simp [hv] at h
    | ok u =>
      simp only [hv] at h
      split at h
      · simp at h
      · simpa using h.symm

/-- argument validation of the profiler: a non-DataFrame is rejected with TypeError -/
theorem rejects_non_dataframe (attrs : Option (List String)) : profileTable none attrs = .error .typeErr := by
  simp [profileTable, validateInputTable, bind, Except.bind]

/-! non-vacuity: three rows, one duplicate ⇒ no key recommendation; the witness of the repaired defect is the same
    statement at 20 001 rows, covered by the theorem above for every length -/
example : (profileColumn [.int 1, .int 2, .int 1]).2.2 = "" := by decide
example : (profileColumn [.int 1, .int 2, .int 3]).2.2 = "This attribute can be used as a key attribute." := by decide

end SSJ.Props.C17

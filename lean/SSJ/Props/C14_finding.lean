/-
  C14 (continued) — KNOWN FINDING K4: where size tightness fails.

  C14 demands that SizeFilter "drops every pair whose counts put the best attainable similarity more than 1e-4 below
  the threshold".  `size_tight_right_empty` (SSJ/Props/C14.lean) proves this for a pair in which exactly one value has
  no tokens under the hypothesis `prefThr m ≤ thr` (1e-4 JACCARD, 2e-4 DICE, 1e-2 COSINE).  The hypothesis was forced by
  the proof, and it is not an artefact: at the excluded thresholds the REAL code (and the model, which follows it) keeps
  such a pair under COSINE.  `get_size_lower_bound` is `int(ceil(round(t*t*n, 4)))`; for `t*t*n < 5e-5` the rounding to
  four decimals gives `0.0`, the window of an `n`-token value starts at 0 and admits a value WITHOUT tokens, whose
  similarity is 0.  JACCARD and DICE are not affected (there `round(·,4) = 0` forces `t < 1e-4`, where the property's
  tolerance makes no demand).  Replayed on the real code: `SizeFilter(ws, 'COSINE', 0.001).filter_pair('a', '')` returns
  False (kept); recorded as K4 in /verif/known_findings.json (pruning only — no qualifying pair is lost).

  The statements below are kernel-checked facts about the model at threshold 1/1000.
-/
import SSJ.Props.C14

namespace SSJ.Props.C14
open SSJ SSJ.Spec SSJ.Props

/-- a tokenizer for the example: "a" ↦ {a}, everything else ↦ ∅ -/
def k4Tok (s : String) : List Tok := if s = "a" then ["a"] else []

/-- K4, arithmetic: under COSINE at threshold 0.001 the size window of a one-token value is `[0, 1000000]` -/
theorem k4_window : (cfgOf .cosine (1 / 1000)).lower 1 = 0 ∧ (cfgOf .cosine (1 / 1000)).upper 1 = 1000000 := by
  decide +kernel

/-- K4, filter level: `SizeFilter(tok, 'COSINE', 0.001).filter_pair("a", "")` KEEPS the pair although the second value
    has no tokens (similarity 0, more than 1e-4 below the threshold) — while `filter_pair("", "a")` drops it -/
theorem k4_size_filter_keeps_one_empty :
    filterPair .size { cfg := cfgOf .cosine (1 / 1000) } k4Tok (.str "a") (.str "") = false ∧
    filterPair .size { cfg := cfgOf .cosine (1 / 1000) } k4Tok (.str "") (.str "a") = true ∧
    simSet .cosine (k4Tok "a") (k4Tok "") = .int 0 := by
  decide +kernel

/-- … and at threshold 0.01 = `prefThr .cosine`, where `size_tight_right_empty` applies, the same pair is dropped -/
example : filterPair .size { cfg := cfgOf .cosine (1 / 100) } k4Tok (.str "a") (.str "") = true := by
  decide +kernel

end SSJ.Props.C14

/-
  C11 — Output tables have the documented columns and faithfully project source rows.

  "A join or filter_tables result has exactly the columns _id, prefixed left key, prefixed right key, the requested
   left output attributes, the requested right output attributes (each list with the key attribute and repeats
   removed, order kept, names prefixed), and _sim_score iff requested.  In every row each projected value equals
   the value of that attribute in the source row identified by the row's key, including when the join attribute
   itself or no attribute at all is requested."

  Model functions: the six entry points of `SSJ/Model/Frame.lean` — `setSimJoinPy` (jaccard / cosine / dice),
  `overlapCoefficientJoinPy`, `editDistanceJoinPy`, `overlapJoinPy`, `filterTables` (Size / Prefix / Position /
  Suffix filter) and `overlapFilterTables` — collected in `SSJ.TableCall` (`Proofs/EntryGeneric.lean`):
  `TableCall call a l r oss` says that `call am nj cpu` is the outcome of one of these entry points, applied to
  arguments that pass its validations (`l`, `r` are the validated tables, `a` the table arguments, `oss` whether a
  score column is requested), as a function of `allow_missing = am`, `n_jobs = nj` and the cpu count.

  Scope: every theorem holds for EVERY successful call: all tables, tokenizers, thresholds, operators, output
  attribute lists (absent, empty, containing the key, the join attribute, repeats), prefixes, `allow_missing`,
  `n_jobs`, cpu count — no size restriction.  The rows with missing join values (`allow_missing=True`) are covered
  as well.

  Not covered: `apply_matcher` (its output is described by `applyMatcher_spec`, Proofs/Matcher.lean) and
  `filter_candset` (returns the candset's own columns, `filterCandset_rows`); dtypes and the pandas index.
-/
import SSJ.Proofs.EntryGeneric
import SSJ.Props.Common

namespace SSJ.Props.C11
open SSJ

/-- the requested output attributes as the library uses them: after `remove_redundant_attrs` (`[]` if absent) -/
def outAttrs (out : Option (List String)) (key : String) : List String := (removeRedundantAttrs out key).getD []

/-- the documented column list -/
def documentedColumns (a : TableArgs) (oss : Bool) : List String :=
  ["_id", a.lPre ++ a.lKey, a.rPre ++ a.rKey] ++
    (outAttrs a.lOut a.lKey).map (a.lPre ++ ·) ++
    (outAttrs a.rOut a.rKey).map (a.rPre ++ ·) ++
    (if oss then ["_sim_score"] else [])

/-- the documented content of a result row between `_id` and the score: the two keys, then the requested left and
    right attribute values of the source rows `ls` (left table) and `rs` (right table) -/
def projectedRow (a : TableArgs) (l r : Frame) (ls rs : Row) : Row :=
  [keyOf l a.lKey ls, keyOf r a.rKey rs] ++
    (outAttrs a.lOut a.lKey).map (fun c => valOf l c ls) ++
    (outAttrs a.rOut a.rKey).map (fun c => valOf r c rs)

variable {call : Bool → Int → Int → Except PyErr Frame} {a : TableArgs} {l r : Frame} {oss : Bool}

/-- COLUMNS: every join / filter_tables result has exactly the columns `_id`, prefixed left key, prefixed right
    key, prefixed requested left attributes, prefixed requested right attributes, and `_sim_score` iff requested -/
theorem columns (h : TableCall call a l r oss) (am : Bool) (nj cpu : Int) (fr : Frame)
    (hfr : call am nj cpu = .ok fr) :
    fr.columns = documentedColumns a oss := by
  obtain ⟨_, _, hof⟩ := h.of_ok
  exact (hof am nj cpu fr hfr).1

/-- REQUESTED ATTRIBUTES: of a given list the key attribute and repeats are removed and the order is kept (the
    result is a duplicate-free sub-list of the request, containing exactly the requested non-key attributes);
    an absent list (`None`) means no attributes -/
theorem outAttrs_spec (key : String) :
    outAttrs none key = [] ∧
    ∀ out : List String,
      (outAttrs (some out) key).Nodup ∧ key ∉ outAttrs (some out) key ∧
      (∀ c, c ∈ outAttrs (some out) key ↔ (c ∈ out ∧ c ≠ key)) ∧
      (outAttrs (some out) key).Sublist out := by
  refine ⟨rfl, fun out => ?_⟩
  obtain ⟨x, hx, h1, h2, h3, h4⟩ := removeRedundantAttrs_spec out key
  have e : outAttrs (some out) key = x := by unfold outAttrs; rw [hx]; rfl
  rw [e]
  exact ⟨h1, h2, h3, h4⟩

/-- … and it is the request itself when that is duplicate-free and does not mention the key -/
theorem outAttrs_of_clean (key : String) (out : List String) (hnd : out.Nodup) (hk : key ∉ out) :
    outAttrs (some out) key = out := by
  unfold outAttrs removeRedundantAttrs
  have : out.filter (· ≠ key) = out := by
    rw [List.filter_eq_self]
    intro c hc
    simp only [ne_eq, decide_not, Bool.not_eq_eq_eq_not, Bool.not_true, decide_eq_false_iff_not]
    rintro rfl
    exact hk hc
  simp only [Option.map_some, Option.getD_some, this]
  exact dedup_of_nodup out hnd

/-- FAITHFUL PROJECTION: row number `i` of every result is `i` (the `_id`), followed by the keys and the
    requested attribute values of a left source row `ls` and a right source row `rs`, followed by one score cell
    iff a score column is requested.  `ls` and `rs` are THE rows of the two tables carrying the row's keys.
    This holds for the rows over present values and for the rows added by `allow_missing=True` alike. -/
theorem projection_faithful (h : TableCall call a l r oss) (am : Bool) (nj cpu : Int) (fr : Frame)
    (hfr : call am nj cpu = .ok fr) (i : Nat) (hi : i < fr.rows.length) :
    ∃ ls ∈ l.rows, ∃ rs ∈ r.rows, ∃ s : Cell,
      fr.rows[i] = Cell.int i :: (projectedRow a l r ls rs ++ (if oss then [s] else [])) ∧
      rowKeys fr.rows[i] = (keyOf l a.lKey ls, keyOf r a.rKey rs) ∧
      (∀ ls' ∈ l.rows, keyOf l a.lKey ls' = (rowKeys fr.rows[i]).1 → ls' = ls) ∧
      (∀ rs' ∈ r.rows, keyOf r a.rKey rs' = (rowKeys fr.rows[i]).2 → rs' = rs) := by
  obtain ⟨k1, k2, _⟩ := h.normal
  obtain ⟨work, hwf, hof⟩ := h.of_ok
  obtain ⟨_, hrows⟩ := hof am nj cpu fr hfr
  obtain ⟨x, hx, hxi⟩ := rows_getElem_of_eq _ _ hrows i hi
  have key : ∃ ls ∈ l.rows, ∃ rs ∈ r.rows, ∃ s, x = withScore oss (RT.docRow a l r ls rs) s := by
    rcases List.mem_append.1 hx with hx | hx
    · obtain ⟨ls, hls, rs, hrs, _, _, s, e⟩ := RT.presentRows_faithful hwf a l r nj cpu x hx
      exact ⟨ls, hls, rs, hrs, s, e⟩
    · cases am with
      | false => simp at hx
      | true =>
        obtain ⟨ls, hls, rs, hrs, _, e⟩ := RT.missingRows_faithful a l r oss x hx
        exact ⟨ls, hls, rs, hrs, _, e⟩
  obtain ⟨ls, hls, rs, hrs, s, rfl⟩ := key
  have hk := RT.cons_withScore_docRow_keys a l r ls rs oss s (Cell.int i)
  have hkeys : rowKeys fr.rows[i] = (keyOf l a.lKey ls, keyOf r a.rKey rs) := by
    rw [hxi]; unfold rowKeys; rw [hk.1, hk.2]; rfl
  refine ⟨ls, hls, rs, hrs, s, ?_, hkeys, ?_, ?_⟩
  · rw [hxi, eg_withScore_eq_append]; rfl
  · intro ls' hls' he
    rw [hkeys] at he
    exact row_eq_of_key_eq a.lKey l k1 ls' ls hls' hls he
  · intro rs' hrs' he
    rw [hkeys] at he
    exact row_eq_of_key_eq a.rKey r k2 rs' rs hrs' hrs he

/-- consequently every row is exactly as wide as the header -/
theorem row_width (h : TableCall call a l r oss) (am : Bool) (nj cpu : Int) (fr : Frame)
    (hfr : call am nj cpu = .ok fr) : ∀ row ∈ fr.rows, row.length = fr.columns.length := by
  intro row hrow
  obtain ⟨i, hi, rfl⟩ := List.getElem_of_mem hrow
  obtain ⟨ls, _, rs, _, s, e, _⟩ := projection_faithful h am nj cpu fr hfr i hi
  rw [e, columns h am nj cpu fr hfr]
  unfold documentedColumns projectedRow
  cases oss <;> simp

/-! ### the individual entry points (instances of the above) -/

/-- e.g. for the Jaccard / cosine / Dice joins: the statement about `setSimJoinPy` itself -/
theorem setSimJoin_columns (m : Measure) (j : JoinArgs) (t : TokObj) (toks : TokFn) (cpu : Int) (l r fr : Frame)
    (hv : validateJoin m.name j t = .ok (l, r)) (hfr : (setSimJoinPy m j t toks cpu).result = .ok fr) :
    fr.columns = documentedColumns j.toTableArgs j.outSimScore :=
  columns (.setSim m j t toks l r hv) j.allowMissing j.nJobs cpu fr hfr

theorem overlapCoefficientJoin_columns (j : JoinArgs) (t : TokObj) (toks : TokFn) (cpu : Int) (l r fr : Frame)
    (hv : validateJoin "OVERLAP_COEFFICIENT" j t = .ok (l, r))
    (hfr : (overlapCoefficientJoinPy j t toks cpu).result = .ok fr) :
    fr.columns = documentedColumns j.toTableArgs j.outSimScore :=
  columns (.ovc j t toks l r hv) j.allowMissing j.nJobs cpu fr hfr

theorem editDistanceJoin_columns (j : JoinArgs) (t : TokObj) (toks : TokFn) (cpu : Int) (l r fr : Frame)
    (hv : validateJoin "EDIT_DISTANCE" j t = .ok (l, r)) (hthr : FiniteNum j.threshold)
    (hfr : (editDistanceJoinPy j t toks cpu).result = .ok fr) :
    fr.columns = documentedColumns j.toTableArgs j.outSimScore :=
  columns (.ed j t toks l r hv hthr) j.allowMissing j.nJobs cpu fr hfr

theorem overlapJoin_columns (j : JoinArgs) (t : TokObj) (toks : TokFn) (cpu : Int) (l r fr : Frame)
    (f : OverlapFilterObj) (hf : mkOverlapFilter j.threshold j.compOp j.allowMissing t = .ok f)
    (hv : validateTablesAttrs j.toTableArgs = .ok (l, r)) (hk : validateOutAndKeys j.toTableArgs l r = .ok ())
    (hfr : (overlapJoinPy j t toks cpu).result = .ok fr) :
    fr.columns = documentedColumns j.toTableArgs j.outSimScore :=
  columns (.overlapJoin j t toks l r f hf hv hk) j.allowMissing j.nJobs cpu fr hfr

theorem filterTables_columns (k : FilterKind) (f : FilterObj) (a : TableArgs) (t : TokObj) (toks : TokFn) (cpu : Int)
    (l r fr : Frame) (hv : validateTablesAttrs a = .ok (l, r)) (hk : validateOutAndKeys a l r = .ok ())
    (hfr : filterTables k f a t toks cpu = .ok fr) :
    fr.columns = documentedColumns a false :=
  columns (.filterTables k f a t toks l r hv hk) f.allowMissing a.nJobs cpu fr hfr

theorem overlapFilterTables_columns (f : OverlapFilterObj) (a : TableArgs) (oss : Bool) (tok : String → List Tok)
    (cpu : Int) (l r fr : Frame) (hv : validateTablesAttrs a = .ok (l, r)) (hk : validateOutAndKeys a l r = .ok ())
    (hfr : overlapFilterTables f a oss tok cpu = .ok fr) :
    fr.columns = documentedColumns a oss :=
  columns (.overlapFilterTables f a oss tok l r hv hk) f.allowMissing a.nJobs cpu fr hfr

/-! ### non-vacuity: a concrete `OverlapFilter.filter_tables` call requesting the key, a repeat and the join
    attribute itself on the left and nothing on the right; one left join value is missing -/

def exL : Frame := { columns := ["id", "name", "zip"], dtypes := ["int64", "object", "object"],
                     rows := [[.int 1, .str "a b", .str "x"], [.int 2, .missing, .str "y"]] }
def exR : Frame := { columns := ["rid", "title"], dtypes := ["int64", "object"],
                     rows := [[.int 7, .str "b c"]] }
def exArgs : TableArgs := { ltable := some exL, rtable := some exR, lKey := "id", rKey := "rid", lAttr := "name",
                            rAttr := "title", lOut := some ["zip", "id", "name", "zip"], rOut := none }
def exTok : String → List Tok := fun s => if s = "a b" then ["a", "b"] else if s = "b c" then ["b", "c"] else []
def exFilter : OverlapFilterObj := { overlapSize := .int 1, compOp := ">=" }

example : TableCall (fun am nj cpu => overlapFilterTables { exFilter with allowMissing := am } (exArgs.withJobs nj) true exTok cpu)
    exArgs exL exR true :=
  .overlapFilterTables exFilter exArgs true exTok exL exR (by decide) (by decide)

example : documentedColumns exArgs true = ["_id", "l_id", "r_rid", "l_zip", "l_name", "_sim_score"] := by decide

example : overlapFilterTables { exFilter with allowMissing := true } exArgs true exTok 4 =
    .ok { columns := ["_id", "l_id", "r_rid", "l_zip", "l_name", "_sim_score"]
          index := [.int 0, .int 0]
          rows := [[.int 0, .int 1, .int 7, .str "x", .str "a b", .int 1],
                   [.int 1, .int 2, .int 7, .str "y", .missing, .missing]] } := by decide

section AxiomCheck
#print axioms columns
#print axioms outAttrs_spec
#print axioms outAttrs_of_clean
#print axioms projection_faithful
#print axioms row_width
#print axioms overlapFilterTables_columns
end AxiomCheck

end SSJ.Props.C11

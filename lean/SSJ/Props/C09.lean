/-
  C09 — Empty token sets are governed by allow_empty.

  (join part) "A pair whose two values both tokenize to no tokens is returned by jaccard, cosine, dice joins (with
   score 1.0) iff allow_empty is True, whatever the threshold and operator; a pair with exactly one empty side is
   never returned by a set-similarity join."

  Model: the `*_join_py` entry points of lean/SSJ/Model/Frame.lean — DataFrame in, DataFrame out, including
  validation, projection / dropna, `n_jobs` chunking of the right table, concatenation, missing-value pairs, `_id`.
  Vocabulary: lean/SSJ/Props/Common.lean (`keyOf`, `Present`, `tokensOf`, `rowKeys`, `rowScore`, `InScope`);
  specification: lean/SSJ/Spec/Spec.lean (`bothEmpty`).

  One section per join family; theorem names carry the family as prefix (`setsim_` = jaccard / cosine / dice).

  ── jaccard_join / cosine_join / dice_join: `setSimJoinPy m a t toks cpu` ──
  Hypotheses, in plain words:
    * the arguments pass the validation block of the join (`validateJoin … = .ok (l, r)`) — so threshold and
      operator are ANY accepted values; no further assumption on them;
    * scope (`InScope`): the tokenizer in set mode returns duplicate-free lists (of fewer than 2³² tokens), the
      right table has fewer than 2⁴⁰ rows;
    * the two rows are rows of the tables with present (non-missing) join values; everything else is arbitrary
      (other rows, `n_jobs`, CPU count, `allow_missing`, `out_sim_score`, output attributes).  The theorems hold for
      every measure tag `m`; the joins of the library are `m ∈ {jaccard, cosine, dice}`.
  "Returned" = some row of the result carries the two rows' keys (keys are unique by validation).
  NOT covered: tokenizers / tables outside `InScope`; rows with a missing join value (C08).
-/
import SSJ.Proofs.EntrySetSim
import SSJ.Props.C09_exact
import SSJ.Props.C09_filters

namespace SSJ.Props.C09
open SSJ SSJ.Props

/-! ## jaccard / cosine / dice -/

/-- A pair of rows (present join values) that both tokenize to nothing is returned iff `allow_empty` is set —
    whatever the threshold and the operator. -/
theorem setsim_both_empty_iff (m : Measure) (a : JoinArgs) (t : TokObj) (toks : TokFn) (cpu : Int)
    (l r : Frame) (hv : validateJoin m.name a t = .ok (l, r)) (hs : InScope (toks true) r)
    (fr : Frame) (hres : (setSimJoinPy m a t toks cpu).result = .ok fr)
    (ls : Row) (hls : ls ∈ l.rows) (rs : Row) (hrs : rs ∈ r.rows)
    (hpl : Present l a.lAttr ls) (hpr : Present r a.rAttr rs)
    (he : Spec.bothEmpty (tokensOf (toks true) l a.lAttr ls) (tokensOf (toks true) r a.rAttr rs) = true) :
    (∃ row ∈ fr.rows, rowKeys row = (keyOf l a.lKey ls, keyOf r a.rKey rs)) ↔ a.allowEmpty = true :=
  EntrySetSim.both_empty_iff m a t toks cpu l r hv hs fr hres ls hls rs hrs hpl hpr he

/-- … and every row returned for such a pair reports the score 1.0 (when scores are requested). -/
theorem setsim_both_empty_score (m : Measure) (a : JoinArgs) (t : TokObj) (toks : TokFn) (cpu : Int)
    (l r : Frame) (hv : validateJoin m.name a t = .ok (l, r)) (hs : InScope (toks true) r)
    (fr : Frame) (hres : (setSimJoinPy m a t toks cpu).result = .ok fr)
    (ls : Row) (hls : ls ∈ l.rows) (rs : Row) (hrs : rs ∈ r.rows)
    (hpl : Present l a.lAttr ls) (hpr : Present r a.rAttr rs)
    (he : Spec.bothEmpty (tokensOf (toks true) l a.lAttr ls) (tokensOf (toks true) r a.rAttr rs) = true)
    (row : Row) (hrow : row ∈ fr.rows) (hk : rowKeys row = (keyOf l a.lKey ls, keyOf r a.rKey rs))
    (hss : a.outSimScore = true) : rowScore row = Cell.flt 1 :=
  EntrySetSim.both_empty_score m a t toks cpu l r hv hs fr hres ls hls rs hrs hpl hpr he row hrow hk hss

/-- A pair of rows (present join values) exactly one of which tokenizes to nothing is never returned. -/
theorem setsim_one_empty_never (m : Measure) (a : JoinArgs) (t : TokObj) (toks : TokFn) (cpu : Int)
    (l r : Frame) (hv : validateJoin m.name a t = .ok (l, r)) (hs : InScope (toks true) r)
    (fr : Frame) (hres : (setSimJoinPy m a t toks cpu).result = .ok fr)
    (ls : Row) (hls : ls ∈ l.rows) (rs : Row) (hrs : rs ∈ r.rows)
    (hpl : Present l a.lAttr ls) (hpr : Present r a.rAttr rs)
    (hone : ¬ ((tokensOf (toks true) l a.lAttr ls).length = 0 ↔ (tokensOf (toks true) r a.rAttr rs).length = 0)) :
    ¬ ∃ row ∈ fr.rows, rowKeys row = (keyOf l a.lKey ls, keyOf r a.rKey rs) :=
  EntrySetSim.one_empty_never m a t toks cpu l r hv hs fr hres ls hls rs hrs hpl hpr hone

/-! non-vacuity: in the request of `EntrySetSim.Ex` (see `Props/C01`; `allow_empty` has its default True) the rows
    (2,"") and (8,"") are an empty-empty pair, (1,"ab") and (8,"") a pair with exactly one empty side. -/
section Example
open EntrySetSim.Ex

example : ∃ fr, (setSimJoinPy .jaccard exArgs {} exToks 4).result = .ok fr ∧
    (∃ row ∈ fr.rows, rowKeys row = (keyOf exL "id" exLe, keyOf exR "id" exRe)) ∧
    ¬ ∃ row ∈ fr.rows, rowKeys row = (keyOf exL "id" exLs, keyOf exR "id" exRe) := by
  obtain ⟨fr, hres⟩ := EntrySetSim.total .jaccard exArgs {} exToks 4 exL exR exValid (by decide +kernel)
  exact ⟨fr, hres,
    (setsim_both_empty_iff .jaccard exArgs {} exToks 4 exL exR exValid exScope fr hres exLe exLe_mem exRe exRe_mem
      exLe_present exRe_present exEmpty_both).2 rfl,
    setsim_one_empty_never .jaccard exArgs {} exToks 4 exL exR exValid exScope fr hres exLs exLs_mem exRe exRe_mem
      exLs_present exRe_present exOne_empty⟩

end Example

section AxiomCheck
#print axioms setsim_both_empty_iff
#print axioms setsim_both_empty_score
#print axioms setsim_one_empty_never
end AxiomCheck

end SSJ.Props.C09

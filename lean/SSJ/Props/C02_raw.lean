/-
  C02 (raw similarity) — what a set-similarity join's output says about the UNROUNDED similarity.

  Companion of SSJ/Props/C02.lean and C02_wide.lean (same namespace `SSJ.Props.C02`; property text, model and
  vocabulary as there).

  "Every output row of the five set-similarity joins … the similarity recomputed independently from the two rows'
   join values satisfies the requested comparison against the threshold.  When requested, _sim_score equals that
   similarity (rounded to 4 decimals for Jaccard/cosine/Dice …)."

  THE POINT.  `setsim_sound` / `setsim_sound_wide` conclude `Spec.qualRounded m op thr A B`: the comparison holds for
  the similarity ROUNDED to four decimals, `round(sim, 4)` — that is the value jaccard_join / cosine_join / dice_join
  test.  A reader may take "the similarity satisfies the comparison" to be about the unrounded similarity
  `rawSim m A B` (the exact rational value of the double `Spec.simSet m A B` that py_stringmatching's `get_raw_score`
  returns).  That is NOT guaranteed.  What is true, and proved here:

    the unrounded similarity can miss the threshold by at most half a unit of the fourth decimal, 1/20000
    (plus, for an arbitrary float threshold, one rounding error 2⁻⁵³ ≈ 1.1·10⁻¹⁶).

  WHY HALF A UNIT.  `round(x, 4) = rn (k / 10⁴)` with `k = rhe (x·10⁴)` the integer nearest to `x·10⁴` (ties to
  even), so `|k/10⁴ − x| ≤ 1/20000`; `rn` is the nearest double of the decimal `k/10⁴`.

  THEOREMS (token-set level; `A`, `B` duplicate-free with fewer than 2³² tokens, `m` ∈ {jaccard, cosine, dice}):
  * `rawSim_spec`: `Spec.simSet m A B` is the double `rawSim m A B`, or the int 0 of the empty shortcut (`rawSim = 0`).
  * ANY float threshold `0 < t ≤ 1`:
      `raw_within_half_unit_ge`  `>=` :  `t − 1/20000 − 2⁻⁵³ ≤ rawSim`
      `raw_within_half_unit_gt`  `>`  :  `t − 1/20000 − 2⁻⁵³ ≤ rawSim`       (strictness is lost)
      `raw_within_half_unit_eq`  `=`  :  `|rawSim − t| ≤ 1/20000 + 2⁻⁵³`
    (the int threshold `1` behaves as the float `1.0`: `qualRounded_int_one`).
  * a threshold WRITTEN WITH AT MOST FOUR DECIMALS, i.e. the double of `d = j/10⁴` (`0.8`, `0.75`, `0.6667`, `1.0` …),
    compared with the decimal `d` itself — exactly half a unit, no `2⁻⁵³`:
      `raw_within_half_unit_ge_dec`  `>=` :  `d − 1/20000 ≤ rawSim`
      `raw_within_half_unit_gt_dec`  `>`  :  `d + 1/20000 ≤ rawSim`          (so here `rawSim > d` does hold)
      `raw_within_half_unit_eq_dec`  `=`  :  `|rawSim − d| ≤ 1/20000`
  * a threshold that is a double (`rn t = t`; every Python float is), any size, compared with `t` itself:
      `raw_within_half_unit_gt_double`  `>`  :  `t − 1/20000 < rawSim`
      `raw_within_half_unit_ge_double`  `>=` :  `t − 1/20000 < rawSim`, unless the rounded score IS `t`.
  * SHARPNESS (`raw_can_miss`): Jaccard of {a,b} and {a,b,c} is 2/3 = 0.66666…; against the threshold `0.6667` the
    rounded score 0.6667 satisfies `>=`, the unrounded similarity does not.  So `qualRounded` cannot be replaced by a
    statement about the raw similarity without the half unit.
  * THE `2⁻⁵³` IS NOT AN ARTEFACT (`raw_can_miss_half_unit`): the statement "`>=` ⇒ `t − 1/20000 ≤ rawSim` for every
    double `t`" is FALSE.  Jaccard 9/160 = 0.05625 (a tie of the fourth decimal) against the threshold `0.0563`:
    the double of 9/160 lies above 0.05625 and rounds to 0.0563, so `>=` holds; but the double of 0.0563 lies further
    above 0.0563 than the double of 9/160 lies above 0.05625, so `rawSim < t − 1/20000` (by about 1.4·10⁻¹⁸).

  ENTRY LEVEL (`setSimJoinPy m a t toks cpu`, hypotheses as in C02.lean, the threshold a Python int or float):
  * `setsim_sound_raw`: every result row either stems from a missing value, or names two existing rows with present
    join values that are an admitted empty-empty pair or a pair whose unrounded similarity is `NearQual` the
    threshold: within `1/20000 + 2⁻⁵³` of satisfying the comparison;
  * `setsim_sound_raw_dec`: the same with exactly `1/20000` (`NearQualDec`) for a four-decimal threshold;
  * `setsim_sound_transfer`: the general principle both instantiate.
  NOT covered: overlap-coefficient join (its score is not rounded — C02_exact.lean applies to the raw value directly);
  non-numeric threshold values; tokenizers / tables outside `InScope`.
-/
import SSJ.Proofs.RoundSlack
import SSJ.Props.C02_wide

namespace SSJ.Props.C02
open SSJ SSJ.Props SSJ.F64 SSJ.RoundSlack

/-! ## vocabulary -/

/-- the exact rational value of a Python number (a finite double is the rational it denotes) -/
def numOf : PyV → Rat
  | .float q => q
  | .int i => i
  | _ => 0

/-- the UNROUNDED similarity of two token sets: the exact value of py_stringmatching's raw score `Spec.simSet` -/
def rawSim (m : Measure) (A B : List Tok) : Rat := numOf (Spec.simSet m A B)

/-- `s` satisfies `s op t` up to half a unit of the fourth decimal (plus one rounding error `2⁻⁵³`) -/
def NearQual (op : String) (t s : Rat) : Prop :=
  ((op = ">=" ∨ op = ">") ∧ t - 1 / 20000 - 1 / 2 ^ 53 ≤ s) ∨ (op = "=" ∧ |s - t| ≤ 1 / 20000 + 1 / 2 ^ 53)

/-- `s` against the decimal `d` when the comparison was made on four-decimal values: exactly half a unit -/
def NearQualDec (op : String) (d s : Rat) : Prop :=
  (op = ">=" ∧ d - 1 / 20000 ≤ s) ∨ (op = ">" ∧ d + 1 / 20000 ≤ s) ∨ (op = "=" ∧ |s - d| ≤ 1 / 20000)

/-! ## token-set level -/

/-- `rawSim` is faithful: inside the scope `Spec.simSet m A B` is the double `rawSim m A B`, or the int 0 of the
    empty shortcut (exactly one side empty), and then `rawSim m A B = 0`. -/
theorem rawSim_spec (m : Measure) (hm : SetMeasure m) (A B : List Tok) (hA : A.Nodup)
    (hAs : A.length < 2 ^ 32) (hBs : B.length < 2 ^ 32) :
    Spec.simSet m A B = .float (rawSim m A B) ∨ (Spec.simSet m A B = .int 0 ∧ rawSim m A B = 0) := by
  unfold rawSim
  rcases simSet_shape m hm A B hA hAs hBs with h | ⟨s, h⟩
  · right; rw [h]; exact ⟨rfl, by simp [numOf]⟩
  · left; rw [h]; rfl

/-- `>=`, any float threshold in (0, 1]: if the ROUNDED similarity reaches the threshold, the unrounded similarity
    misses it by at most half a unit of the fourth decimal (plus `2⁻⁵³`). -/
theorem raw_within_half_unit_ge (m : Measure) (hm : SetMeasure m) (A B : List Tok) (hA : A.Nodup)
    (hAs : A.length < 2 ^ 32) (hBs : B.length < 2 ^ 32) (t : Rat) (ht0 : 0 < t) (ht1 : t ≤ 1)
    (h : Spec.qualRounded m ">=" (.float t) A B = true) : t - 1 / 20000 - 1 / 2 ^ 53 ≤ rawSim m A B := by
  rcases rawSim_spec m hm A B hA hAs hBs with hs | ⟨hs, -⟩
  · exact round4_ge_slack ht0 ht1 ((qual_float m A B _ t hs).1.mp h)
  · rw [(qual_int_zero m A B t ht0 hs).1] at h; cases h

/-- `>`, any float threshold in (0, 1]: the same bound; strictness is lost. -/
theorem raw_within_half_unit_gt (m : Measure) (hm : SetMeasure m) (A B : List Tok) (hA : A.Nodup)
    (hAs : A.length < 2 ^ 32) (hBs : B.length < 2 ^ 32) (t : Rat) (ht0 : 0 < t) (ht1 : t ≤ 1)
    (h : Spec.qualRounded m ">" (.float t) A B = true) : t - 1 / 20000 - 1 / 2 ^ 53 ≤ rawSim m A B := by
  rcases rawSim_spec m hm A B hA hAs hBs with hs | ⟨hs, -⟩
  · exact round4_ge_slack ht0 ht1 ((qual_float m A B _ t hs).2.1.mp h).le
  · rw [(qual_int_zero m A B t ht0 hs).2.1] at h; cases h

/-- `=`, any float threshold in (0, 1]: the unrounded similarity is within half a unit of the fourth decimal
    (plus `2⁻⁵³`) of the threshold. -/
theorem raw_within_half_unit_eq (m : Measure) (hm : SetMeasure m) (A B : List Tok) (hA : A.Nodup)
    (hAs : A.length < 2 ^ 32) (hBs : B.length < 2 ^ 32) (t : Rat) (ht0 : 0 < t) (ht1 : t ≤ 1)
    (h : Spec.qualRounded m "=" (.float t) A B = true) : |rawSim m A B - t| ≤ 1 / 20000 + 1 / 2 ^ 53 := by
  rcases rawSim_spec m hm A B hA hAs hBs with hs | ⟨hs, -⟩
  · exact round4_eq_slack ht0 ht1 ((qual_float m A B _ t hs).2.2.mp h)
  · rw [(qual_int_zero m A B t ht0 hs).2.2] at h; cases h

/-- the three operators at once, for any numeric threshold the validation accepts (a float in (0, 1] or the int 1) -/
theorem raw_nearQual (m : Measure) (hm : SetMeasure m) (A B : List Tok) (hA : A.Nodup)
    (hAs : A.length < 2 ^ 32) (hBs : B.length < 2 ^ 32) (op : String) (hop : op = ">=" ∨ op = ">" ∨ op = "=")
    (th : PyV) (hth : (∃ t : Rat, th = .float t ∧ 0 < t ∧ t ≤ 1) ∨ th = .int 1)
    (h : Spec.qualRounded m op th A B = true) : NearQual op (numOf th) (rawSim m A B) := by
  have key : ∀ t : Rat, 0 < t → t ≤ 1 → Spec.qualRounded m op (.float t) A B = true →
      NearQual op t (rawSim m A B) := by
    intro t ht0 ht1 h
    rcases hop with rfl | rfl | rfl
    · exact Or.inl ⟨Or.inl rfl, raw_within_half_unit_ge m hm A B hA hAs hBs t ht0 ht1 h⟩
    · exact Or.inl ⟨Or.inr rfl, raw_within_half_unit_gt m hm A B hA hAs hBs t ht0 ht1 h⟩
    · exact Or.inr ⟨rfl, raw_within_half_unit_eq m hm A B hA hAs hBs t ht0 ht1 h⟩
  rcases hth with ⟨t, rfl, ht0, ht1⟩ | rfl
  · exact key t ht0 ht1 h
  · rw [qualRounded_int_one] at h
    have := key 1 (by norm_num) (le_refl _) h
    simpa [numOf] using this

/-! ### thresholds written with at most four decimals: exactly half a unit -/

/-- `>=` against the double of the decimal `d = j/10⁴`: `d − 1/20000 ≤ rawSim`. -/
theorem raw_within_half_unit_ge_dec (m : Measure) (hm : SetMeasure m) (A B : List Tok) (hA : A.Nodup)
    (hAs : A.length < 2 ^ 32) (hBs : B.length < 2 ^ 32) (j : Int) (hj0 : 0 < j) (hj : j ≤ 10000)
    (h : Spec.qualRounded m ">=" (.float (rn ((j : Rat) / 10000))) A B = true) :
    (j : Rat) / 10000 - 1 / 20000 ≤ rawSim m A B := by
  rcases rawSim_spec m hm A B hA hAs hBs with hs | ⟨hs, -⟩
  · exact round4_ge_dec hj0 hj ((qual_float m A B _ _ hs).1.mp h)
  · rw [(qual_int_zero m A B _ (dec_pos (by omega)) hs).1] at h; cases h

/-- `>` against the double of the decimal `d = j/10⁴`: `d + 1/20000 ≤ rawSim` — the rounded score is at least one
    unit of the fourth decimal above `d`, so the unrounded similarity exceeds `d` as well. -/
theorem raw_within_half_unit_gt_dec (m : Measure) (hm : SetMeasure m) (A B : List Tok) (hA : A.Nodup)
    (hAs : A.length < 2 ^ 32) (hBs : B.length < 2 ^ 32) (j : Int) (hj0 : 0 < j) (hj : j ≤ 10000)
    (h : Spec.qualRounded m ">" (.float (rn ((j : Rat) / 10000))) A B = true) :
    (j : Rat) / 10000 + 1 / 20000 ≤ rawSim m A B := by
  rcases rawSim_spec m hm A B hA hAs hBs with hs | ⟨hs, -⟩
  · exact round4_gt_dec hj0 hj ((qual_float m A B _ _ hs).2.1.mp h)
  · rw [(qual_int_zero m A B _ (dec_pos (by omega)) hs).2.1] at h; cases h

/-- `=` against the double of the decimal `d = j/10⁴`: `|rawSim − d| ≤ 1/20000`. -/
theorem raw_within_half_unit_eq_dec (m : Measure) (hm : SetMeasure m) (A B : List Tok) (hA : A.Nodup)
    (hAs : A.length < 2 ^ 32) (hBs : B.length < 2 ^ 32) (j : Int) (hj0 : 0 < j) (hj : j ≤ 10000)
    (h : Spec.qualRounded m "=" (.float (rn ((j : Rat) / 10000))) A B = true) :
    |rawSim m A B - (j : Rat) / 10000| ≤ 1 / 20000 := by
  rcases rawSim_spec m hm A B hA hAs hBs with hs | ⟨hs, -⟩
  · exact round4_eq_dec hj0 hj ((qual_float m A B _ _ hs).2.2.mp h)
  · rw [(qual_int_zero m A B _ (dec_pos (by omega)) hs).2.2] at h; cases h

/-- the three operators at once against a four-decimal threshold -/
theorem raw_nearQualDec (m : Measure) (hm : SetMeasure m) (A B : List Tok) (hA : A.Nodup)
    (hAs : A.length < 2 ^ 32) (hBs : B.length < 2 ^ 32) (op : String) (hop : op = ">=" ∨ op = ">" ∨ op = "=")
    (j : Int) (hj0 : 0 < j) (hj : j ≤ 10000)
    (h : Spec.qualRounded m op (.float (rn ((j : Rat) / 10000))) A B = true) :
    NearQualDec op ((j : Rat) / 10000) (rawSim m A B) := by
  rcases hop with rfl | rfl | rfl
  · exact Or.inl ⟨rfl, raw_within_half_unit_ge_dec m hm A B hA hAs hBs j hj0 hj h⟩
  · exact Or.inr (Or.inl ⟨rfl, raw_within_half_unit_gt_dec m hm A B hA hAs hBs j hj0 hj h⟩)
  · exact Or.inr (Or.inr ⟨rfl, raw_within_half_unit_eq_dec m hm A B hA hAs hBs j hj0 hj h⟩)

/-! ### thresholds that are doubles, compared with the double itself -/

/-- `>` against a positive threshold that is a double (`rn t = t`): `t − 1/20000 < rawSim`, exactly. -/
theorem raw_within_half_unit_gt_double (m : Measure) (hm : SetMeasure m) (A B : List Tok) (hA : A.Nodup)
    (hAs : A.length < 2 ^ 32) (hBs : B.length < 2 ^ 32) (t : Rat) (ht0 : 0 < t) (ht : rn t = t)
    (h : Spec.qualRounded m ">" (.float t) A B = true) : t - 1 / 20000 < rawSim m A B := by
  rcases rawSim_spec m hm A B hA hAs hBs with hs | ⟨hs, -⟩
  · exact round4_gt_double ht ((qual_float m A B _ t hs).2.1.mp h)
  · rw [(qual_int_zero m A B t ht0 hs).2.1] at h; cases h

/-- `>=` against a positive threshold that is a double: `t − 1/20000 < rawSim`, exactly, unless the reported
    (rounded) score IS the threshold — the case in which `2⁻⁵³` may be needed, see `raw_can_miss_half_unit`. -/
theorem raw_within_half_unit_ge_double (m : Measure) (hm : SetMeasure m) (A B : List Tok) (hA : A.Nodup)
    (hAs : A.length < 2 ^ 32) (hBs : B.length < 2 ^ 32) (t : Rat) (ht0 : 0 < t) (ht : rn t = t)
    (h : Spec.qualRounded m ">=" (.float t) A B = true) :
    Spec.score4 m A B = .float t ∨ t - 1 / 20000 < rawSim m A B := by
  rcases rawSim_spec m hm A B hA hAs hBs with hs | ⟨hs, -⟩
  · rcases round4_ge_double ht ((qual_float m A B _ t hs).1.mp h) with h1 | h1
    · left; unfold Spec.score4; rw [hs, round4_f, h1]
    · exact Or.inr h1
  · rw [(qual_int_zero m A B t ht0 hs).1] at h; cases h

/-! ## entry level -/

/-- TRANSFER.  Whatever follows from "the rounded similarity of two in-scope token sets, not both empty, satisfies
    the comparison" (`P A B`) holds for the two source rows named by every result row that does not stem from a
    missing value and is not an admitted empty-empty pair. -/
theorem setsim_sound_transfer (m : Measure) (a : JoinArgs) (t : TokObj) (toks : TokFn) (cpu : Int)
    (l r : Frame) (hv : validateJoin m.name a t = .ok (l, r)) (hs : InScope (toks true) r)
    (P : List Tok → List Tok → Prop)
    (hP : ∀ A B : List Tok, A.Nodup → B.Nodup → A.length < 2 ^ 32 → B.length < 2 ^ 32 →
      Spec.qualRounded m a.compOp a.threshold A B = true → P A B)
    (fr : Frame) (hres : (setSimJoinPy m a t toks cpu).result = .ok fr) (row : Row) (hrow : row ∈ fr.rows) :
    (a.allowMissing = true ∧ ∃ ls ∈ l.rows, ∃ rs ∈ r.rows,
      (¬ Present l a.lAttr ls ∨ ¬ Present r a.rAttr rs) ∧
      rowKeys row = (keyOf l a.lKey ls, keyOf r a.rKey rs)) ∨
    (∃ ls ∈ l.rows, ∃ rs ∈ r.rows, Present l a.lAttr ls ∧ Present r a.rAttr rs ∧
      rowKeys row = (keyOf l a.lKey ls, keyOf r a.rKey rs) ∧
      ((Spec.bothEmpty (tokensOf (toks true) l a.lAttr ls) (tokensOf (toks true) r a.rAttr rs) = true ∧
          a.allowEmpty = true) ∨
       (Spec.bothEmpty (tokensOf (toks true) l a.lAttr ls) (tokensOf (toks true) r a.rAttr rs) = false ∧
          P (tokensOf (toks true) l a.lAttr ls) (tokensOf (toks true) r a.rAttr rs)))) := by
  rcases setsim_sound_wide m a t toks cpu l r hv hs fr hres row hrow with
    ⟨h1, ls, hls, rs, hrs, h2, h3, -⟩ | ⟨ls, hls, rs, hrs, hpl, hpr, hk, hE⟩
  · exact Or.inl ⟨h1, ls, hls, rs, hrs, h2, h3⟩
  · refine Or.inr ⟨ls, hls, rs, hrs, hpl, hpr, hk, ?_⟩
    rcases hE with ⟨h1, h2, -⟩ | ⟨h1, h2, -⟩
    · exact Or.inl ⟨h1, h2⟩
    · exact Or.inr ⟨h1, hP _ _ (hs.nodup _) (hs.nodup _) (hs.small _) (hs.small _) h2⟩

/-- SOUNDNESS FOR THE UNROUNDED SIMILARITY.  For jaccard / cosine / dice joins with a numeric threshold: every row of
    the result either stems from a missing value, or names a pair of existing rows with present join values which is
    an accepted empty-empty pair, or a pair, not both empty, whose UNROUNDED similarity is within half a unit of the
    fourth decimal (plus `2⁻⁵³`) of satisfying the requested comparison against the threshold:
    `>=`, `>`: `thr − 1/20000 − 2⁻⁵³ ≤ rawSim`;  `=`: `|rawSim − thr| ≤ 1/20000 + 2⁻⁵³`. -/
theorem setsim_sound_raw (m : Measure) (hm : SetMeasure m) (a : JoinArgs) (t : TokObj) (toks : TokFn) (cpu : Int)
    (l r : Frame) (hv : validateJoin m.name a t = .ok (l, r))
    (hnum : (∃ q : Rat, a.threshold = .float q) ∨ ∃ i : Int, a.threshold = .int i)
    (hs : InScope (toks true) r)
    (fr : Frame) (hres : (setSimJoinPy m a t toks cpu).result = .ok fr) (row : Row) (hrow : row ∈ fr.rows) :
    (a.allowMissing = true ∧ ∃ ls ∈ l.rows, ∃ rs ∈ r.rows,
      (¬ Present l a.lAttr ls ∨ ¬ Present r a.rAttr rs) ∧
      rowKeys row = (keyOf l a.lKey ls, keyOf r a.rKey rs)) ∨
    (∃ ls ∈ l.rows, ∃ rs ∈ r.rows, Present l a.lAttr ls ∧ Present r a.rAttr rs ∧
      rowKeys row = (keyOf l a.lKey ls, keyOf r a.rKey rs) ∧
      ((Spec.bothEmpty (tokensOf (toks true) l a.lAttr ls) (tokensOf (toks true) r a.rAttr rs) = true ∧
          a.allowEmpty = true) ∨
       (Spec.bothEmpty (tokensOf (toks true) l a.lAttr ls) (tokensOf (toks true) r a.rAttr rs) = false ∧
          NearQual a.compOp (numOf a.threshold)
            (rawSim m (tokensOf (toks true) l a.lAttr ls) (tokensOf (toks true) r a.rAttr rs))))) := by
  have hth : (∃ q : Rat, a.threshold = .float q ∧ 0 < q ∧ q ≤ 1) ∨ a.threshold = .int 1 := by
    obtain ⟨hf, hi⟩ := valid_threshold m hm a t l r hv
    rcases hnum with ⟨q, hq⟩ | ⟨i, hi'⟩
    · exact Or.inl ⟨q, hq, hf q hq⟩
    · exact Or.inr (by rw [hi', hi i hi'])
  exact setsim_sound_transfer m a t toks cpu l r hv hs
    (fun A B => NearQual a.compOp (numOf a.threshold) (rawSim m A B))
    (fun A B hA _ hAs hBs h =>
      raw_nearQual m hm A B hA hAs hBs a.compOp (valid_op m hm a t l r hv) a.threshold hth h)
    fr hres row hrow

/-- The same for a threshold written with at most four decimals (the double of `d = j/10⁴`, e.g. `0.8`, `0.6667`),
    against the decimal `d`, with exactly half a unit: `>=`: `d − 1/20000 ≤ rawSim`;  `>`: `d + 1/20000 ≤ rawSim`;
    `=`: `|rawSim − d| ≤ 1/20000`. -/
theorem setsim_sound_raw_dec (m : Measure) (hm : SetMeasure m) (a : JoinArgs) (t : TokObj) (toks : TokFn) (cpu : Int)
    (l r : Frame) (hv : validateJoin m.name a t = .ok (l, r))
    (j : Int) (hj0 : 0 < j) (hj : j ≤ 10000) (hthr : a.threshold = .float (rn ((j : Rat) / 10000)))
    (hs : InScope (toks true) r)
    (fr : Frame) (hres : (setSimJoinPy m a t toks cpu).result = .ok fr) (row : Row) (hrow : row ∈ fr.rows) :
    (a.allowMissing = true ∧ ∃ ls ∈ l.rows, ∃ rs ∈ r.rows,
      (¬ Present l a.lAttr ls ∨ ¬ Present r a.rAttr rs) ∧
      rowKeys row = (keyOf l a.lKey ls, keyOf r a.rKey rs)) ∨
    (∃ ls ∈ l.rows, ∃ rs ∈ r.rows, Present l a.lAttr ls ∧ Present r a.rAttr rs ∧
      rowKeys row = (keyOf l a.lKey ls, keyOf r a.rKey rs) ∧
      ((Spec.bothEmpty (tokensOf (toks true) l a.lAttr ls) (tokensOf (toks true) r a.rAttr rs) = true ∧
          a.allowEmpty = true) ∨
       (Spec.bothEmpty (tokensOf (toks true) l a.lAttr ls) (tokensOf (toks true) r a.rAttr rs) = false ∧
          NearQualDec a.compOp ((j : Rat) / 10000)
            (rawSim m (tokensOf (toks true) l a.lAttr ls) (tokensOf (toks true) r a.rAttr rs))))) :=
  setsim_sound_transfer m a t toks cpu l r hv hs
    (fun A B => NearQualDec a.compOp ((j : Rat) / 10000) (rawSim m A B))
    (fun A B hA _ hAs hBs h =>
      raw_nearQualDec m hm A B hA hAs hBs a.compOp (valid_op m hm a t l r hv) j hj0 hj (hthr ▸ h))
    fr hres row hrow

/-! ## sharpness and non-vacuity -/
section Example

/-- Jaccard of {a, b} and {a, b, c}: the double nearest to 2/3 -/
theorem ex_rawSim : Spec.simSet .jaccard ["a", "b"] ["a", "b", "c"] = .float (rn (2 / 3)) ∧
    rawSim .jaccard ["a", "b"] ["a", "b", "c"] = rn (2 / 3) := by
  have h1 : Spec.sameSet ["a", "b"] ["a", "b", "c"] = false := by decide +kernel
  have h2 : interCount ["a", "b"] ["a", "b", "c"] = 2 := by decide +kernel
  have h3 : simFormula .jaccard 2 2 3 = .float (rn (2 / 3)) := by
    rw [simFormula_eq .jaccard (Or.inl rfl) 2 3 2 (by norm_num) (by norm_num) (by norm_num) (by norm_num)
      (by norm_num)]
    simp only [simF]
    norm_num
  have h : Spec.simSet .jaccard ["a", "b"] ["a", "b", "c"] = .float (rn (2 / 3)) := by
    unfold Spec.simSet
    rw [h1, h2]
    exact h3
  exact ⟨h, by unfold rawSim; rw [h]; rfl⟩

/-- SHARPNESS: rounded qualifies, raw does not.  Jaccard 2/3 against the threshold `0.6667` (as a double): the
    rounded score `0.6667` satisfies `>=`, the unrounded similarity `0.6666…` is below the threshold (and below the
    decimal 0.6667), while it is within half a unit, as `raw_within_half_unit_ge_dec` says. -/
theorem raw_can_miss :
    Spec.qualRounded .jaccard ">=" (.float (rn (6667 / 10000))) ["a", "b"] ["a", "b", "c"] = true ∧
    ¬ (rn (6667 / 10000) ≤ rawSim .jaccard ["a", "b"] ["a", "b", "c"]) ∧
    ¬ ((6667 : Rat) / 10000 ≤ rawSim .jaccard ["a", "b"] ["a", "b", "c"]) ∧
    (6667 : Rat) / 10000 - 1 / 20000 ≤ rawSim .jaccard ["a", "b"] ["a", "b", "c"] := by
  obtain ⟨h, hr⟩ := ex_rawSim
  have hq : Spec.qualRounded .jaccard ">=" (.float (rn (6667 / 10000))) ["a", "b"] ["a", "b", "c"] = true := by
    rw [(qual_float .jaccard _ _ _ _ h).1]
    decide +kernel
  refine ⟨hq, ?_, ?_, ?_⟩
  · rw [hr]; decide +kernel
  · rw [hr]; decide +kernel
  · have := raw_within_half_unit_ge_dec .jaccard (Or.inl rfl) ["a", "b"] ["a", "b", "c"] (by decide)
      (by decide) (by decide) 6667 (by norm_num) (by norm_num) (by push_cast; exact hq)
    push_cast at this
    exact this

/-- nine tokens `0 … 8` and one hundred and sixty tokens `0 … 159` -/
def ex9 : List Tok := (List.range 9).map toString
def ex160 : List Tok := (List.range 160).map toString

/-- THE `2⁻⁵³` IS NEEDED: Jaccard 9/160 = 0.05625 against the threshold `0.0563` (a double, `rn t = t`): the rounded
    score satisfies `>=`, yet the unrounded similarity is below `t − 1/20000` — so "`>=` ⇒ `t − 1/20000 ≤ rawSim`"
    is false for double thresholds in general; `raw_within_half_unit_ge` (with `2⁻⁵³`) and
    `raw_within_half_unit_ge_dec` (against the decimal 0.0563) hold. -/
theorem raw_can_miss_half_unit :
    rn (rn (563 / 10000)) = rn (563 / 10000) ∧
    Spec.qualRounded .jaccard ">=" (.float (rn (563 / 10000))) ex9 ex160 = true ∧
    ¬ (rn (563 / 10000) - 1 / 20000 ≤ rawSim .jaccard ex9 ex160) ∧
    (563 : Rat) / 10000 - 1 / 20000 ≤ rawSim .jaccard ex9 ex160 := by
  have h1 : Spec.sameSet ex9 ex160 = false := by decide +kernel
  have h2 : interCount ex9 ex160 = 9 := by decide +kernel
  have h4 : ex9.length = 9 := by decide +kernel
  have h5 : ex160.length = 160 := by decide +kernel
  have h3 : simFormula .jaccard 9 9 160 = .float (rn (9 / 160)) := by
    rw [simFormula_eq .jaccard (Or.inl rfl) 9 160 9 (by norm_num) (by norm_num) (by norm_num) (by norm_num)
      (by norm_num)]
    simp only [simF]
    norm_num
  have h : Spec.simSet .jaccard ex9 ex160 = .float (rn (9 / 160)) := by
    unfold Spec.simSet
    rw [h1, h2, h4, h5]
    exact h3
  have hr : rawSim .jaccard ex9 ex160 = rn (9 / 160) := by unfold rawSim; rw [h]; rfl
  obtain ⟨s1, s2, s3⟩ := slack_needed
  refine ⟨s1, ?_, ?_, ?_⟩
  · rw [(qual_float .jaccard _ _ _ _ h).1]; exact s2
  · rw [hr]; exact s3
  · rw [hr]; decide +kernel

open EntrySetSim.Ex

/-- non-vacuity of the entry-level theorems: the request of `EntrySetSim.Ex` (see C02.lean: valid, in scope, threshold
    the float 0.5 = 5000/10⁴, operator `>=`, its result exists and contains a row for the key pair (1, 7)) -/
example (fr : Frame) (hres : (setSimJoinPy .jaccard exArgs {} exToks 4).result = .ok fr) (row : Row)
    (hrow : row ∈ fr.rows) :=
  setsim_sound_raw .jaccard (Or.inl rfl) exArgs {} exToks 4 exL exR exValid (Or.inl ⟨1 / 2, rfl⟩) exScope fr hres
    row hrow

example (fr : Frame) (hres : (setSimJoinPy .jaccard exArgs {} exToks 4).result = .ok fr) (row : Row)
    (hrow : row ∈ fr.rows) :=
  setsim_sound_raw_dec .jaccard (Or.inl rfl) exArgs {} exToks 4 exL exR exValid 5000 (by norm_num) (by norm_num)
    (by show PyV.float (1 / 2) = _
        congr 1
        decide +kernel) exScope fr hres row hrow

end Example

section AxiomCheck
#print axioms rawSim_spec
#print axioms raw_within_half_unit_ge
#print axioms raw_within_half_unit_gt
#print axioms raw_within_half_unit_eq
#print axioms raw_nearQual
#print axioms raw_within_half_unit_ge_dec
#print axioms raw_within_half_unit_gt_dec
#print axioms raw_within_half_unit_eq_dec
#print axioms raw_nearQualDec
#print axioms raw_within_half_unit_gt_double
#print axioms raw_within_half_unit_ge_double
#print axioms setsim_sound_transfer
#print axioms setsim_sound_raw
#print axioms setsim_sound_raw_dec
#print axioms raw_can_miss
#print axioms raw_can_miss_half_unit
end AxiomCheck

end SSJ.Props.C02

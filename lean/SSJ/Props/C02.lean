/-
  C02 — Set-similarity joins return only qualifying pairs, once, with true score.

  "Every output row of the five set-similarity joins that does not stem from a missing value names an existing left
   key and right key, occurs at most once per key pair, and the similarity recomputed independently from the two
   rows' join values satisfies the requested comparison against the threshold.  When requested, _sim_score equals
   that similarity (rounded to 4 decimals for Jaccard/cosine/Dice, unrounded for overlap coefficient, the integer
   overlap for overlap_join, 1.0 for admitted empty-empty pairs)."

  Model: the `*_join_py` entry points of lean/SSJ/Model/Frame.lean — DataFrame in, DataFrame out, including
  validation, projection / dropna, `n_jobs` chunking of the right table, concatenation, missing-value pairs, `_id`.
  Vocabulary: lean/SSJ/Props/Common.lean (`keyOf`, `Present`, `tokensOf`, `rowKeys`, `rowScore`, `InScope`);
  specification: lean/SSJ/Spec/Spec.lean (`simSet`, `score4`, `qualRounded`, `bothEmpty`).

  One section per join family; theorem names carry the family as prefix (`setsim_` = jaccard / cosine / dice).

  ── jaccard_join / cosine_join / dice_join: `setSimJoinPy m a t toks cpu` ──
  Hypotheses, in plain words:
    * the arguments pass the validation block of the join (`validateJoin … = .ok (l, r)`; in particular both key
      columns are keys: no duplicates, no missing values);
    * the threshold is a Python float `thr` (any value the validation accepts);
    * scope (`InScope`): the tokenizer in set mode returns duplicate-free lists (of fewer than 2³² tokens), the
      right table has fewer than 2⁴⁰ rows;
    * everything else is arbitrary: tables, `n_jobs`, CPU count, operator, `allow_empty`, `allow_missing`,
      `out_sim_score`, output attributes and prefixes.  The theorems hold for every measure tag `m`; the joins of
      the library are `m ∈ {jaccard, cosine, dice}`.
  "The similarity recomputed independently" is `Spec.simSet` (py_stringmatching's `get_raw_score` on the two token
  sets), the reported score `Spec.score4 = round(simSet, 4)`; "satisfies" is `Spec.qualRounded` (the comparison
  holds for the reported score — the library tests the rounded value).
  NOT covered: a threshold passed as the Python int `1`; tokenizers / tables outside `InScope`.
-/
import SSJ.Proofs.EntrySetSim
import SSJ.Props.C02_exact

namespace SSJ.Props.C02
open SSJ SSJ.Props

/-! ## jaccard / cosine / dice -/

/-- Every row of the result either stems from a missing value (then `allow_missing` was set, it names a pair of
    existing rows at least one of whose join values is missing, and its score is NaN), or names a pair of existing
    rows with present join values which is
    * an accepted empty-empty pair (`allow_empty` set), reported with 1.0, or
    * a pair, not both empty, whose rounded similarity satisfies the comparison and is the reported score. -/
theorem setsim_sound (m : Measure) (a : JoinArgs) (t : TokObj) (toks : TokFn) (cpu : Int)
    (l r : Frame) (hv : validateJoin m.name a t = .ok (l, r))
    (thr : Rat) (hthr : a.threshold = .float thr) (hs : InScope (toks true) r)
    (fr : Frame) (hres : (setSimJoinPy m a t toks cpu).result = .ok fr) (row : Row) (hrow : row ∈ fr.rows) :
    (a.allowMissing = true ∧ ∃ ls ∈ l.rows, ∃ rs ∈ r.rows,
      (¬ Present l a.lAttr ls ∨ ¬ Present r a.rAttr rs) ∧
      rowKeys row = (keyOf l a.lKey ls, keyOf r a.rKey rs) ∧
      (a.outSimScore = true → rowScore row = Cell.missing)) ∨
    (∃ ls ∈ l.rows, ∃ rs ∈ r.rows, Present l a.lAttr ls ∧ Present r a.rAttr rs ∧
      rowKeys row = (keyOf l a.lKey ls, keyOf r a.rKey rs) ∧
      ((Spec.bothEmpty (tokensOf (toks true) l a.lAttr ls) (tokensOf (toks true) r a.rAttr rs) = true ∧
          a.allowEmpty = true ∧ (a.outSimScore = true → rowScore row = Cell.flt 1)) ∨
       (Spec.bothEmpty (tokensOf (toks true) l a.lAttr ls) (tokensOf (toks true) r a.rAttr rs) = false ∧
          Spec.qualRounded m a.compOp (.float thr) (tokensOf (toks true) l a.lAttr ls)
            (tokensOf (toks true) r a.rAttr rs) = true ∧
          (a.outSimScore = true → rowScore row = scoreCell (Spec.score4 m (tokensOf (toks true) l a.lAttr ls)
            (tokensOf (toks true) r a.rAttr rs)))))) :=
  EntrySetSim.sound m a t toks cpu l r hv thr hthr hs fr hres row hrow

/-- The same, read from the rows' side: a result row carrying the keys of two rows `ls`, `rs` with present join
    values is about exactly that pair (keys are unique) — an accepted empty-empty pair with 1.0, or a pair whose
    rounded similarity satisfies the comparison and is the reported score. -/
theorem setsim_sound_of_keys (m : Measure) (a : JoinArgs) (t : TokObj) (toks : TokFn) (cpu : Int)
    (l r : Frame) (hv : validateJoin m.name a t = .ok (l, r))
    (thr : Rat) (hthr : a.threshold = .float thr) (hs : InScope (toks true) r)
    (fr : Frame) (hres : (setSimJoinPy m a t toks cpu).result = .ok fr) (row : Row) (hrow : row ∈ fr.rows)
    (ls : Row) (hls : ls ∈ l.rows) (rs : Row) (hrs : rs ∈ r.rows)
    (hpl : Present l a.lAttr ls) (hpr : Present r a.rAttr rs)
    (hk : rowKeys row = (keyOf l a.lKey ls, keyOf r a.rKey rs)) :
    (Spec.bothEmpty (tokensOf (toks true) l a.lAttr ls) (tokensOf (toks true) r a.rAttr rs) = true ∧
        a.allowEmpty = true ∧ (a.outSimScore = true → rowScore row = Cell.flt 1)) ∨
    (Spec.bothEmpty (tokensOf (toks true) l a.lAttr ls) (tokensOf (toks true) r a.rAttr rs) = false ∧
        Spec.qualRounded m a.compOp (.float thr) (tokensOf (toks true) l a.lAttr ls)
          (tokensOf (toks true) r a.rAttr rs) = true ∧
        (a.outSimScore = true → rowScore row = scoreCell (Spec.score4 m (tokensOf (toks true) l a.lAttr ls)
          (tokensOf (toks true) r a.rAttr rs)))) := by
  obtain ⟨s, ⟨-, hE⟩, hsc⟩ := EntrySetSim.row_inv m a t toks cpu l r hv hs fr hres row hrow ls hls rs hrs hpl hpr hk
  rcases hE with ⟨h1, h2, rfl⟩ | ⟨h1, h2, rfl⟩
  · exact Or.inl ⟨h1, h2, hsc⟩
  · exact Or.inr ⟨h1, hthr ▸ h2, hsc⟩

/-- ONCE, in the strongest form: no key pair occurs twice in the whole result — neither among the rows of present
    pairs, nor among the missing-value rows, nor across the two kinds. -/
theorem setsim_once (m : Measure) (a : JoinArgs) (t : TokObj) (toks : TokFn) (cpu : Int)
    (l r : Frame) (hv : validateJoin m.name a t = .ok (l, r)) (hs : InScope (toks true) r)
    (fr : Frame) (hres : (setSimJoinPy m a t toks cpu).result = .ok fr) :
    (fr.rows.map rowKeys).Nodup :=
  EntrySetSim.once m a t toks cpu l r hv hs fr hres

/-- ONCE, by positions: two different rows of the result never name the same key pair. -/
theorem setsim_once_positions (m : Measure) (a : JoinArgs) (t : TokObj) (toks : TokFn) (cpu : Int)
    (l r : Frame) (hv : validateJoin m.name a t = .ok (l, r)) (hs : InScope (toks true) r)
    (fr : Frame) (hres : (setSimJoinPy m a t toks cpu).result = .ok fr)
    (i j : Nat) (hi : i < fr.rows.length) (hj : j < fr.rows.length) (hij : i ≠ j) :
    rowKeys fr.rows[i] ≠ rowKeys fr.rows[j] :=
  EntrySetSim.once_positions m a t toks cpu l r hv hs fr hres i j hi hj hij

/-! non-vacuity: the request of `EntrySetSim.Ex` (see `Props/C01`) is valid and in scope; its result exists, is
    duplicate-free in the key pairs, and contains a row for the key pair (1, 7) — to which `setsim_sound` applies. -/
section Example
open EntrySetSim.Ex

example : ∃ fr, (setSimJoinPy .jaccard exArgs {} exToks 4).result = .ok fr ∧ (fr.rows.map rowKeys).Nodup ∧
    ∃ row ∈ fr.rows, rowKeys row = (keyOf exL "id" exLs, keyOf exR "id" exRs) := by
  obtain ⟨fr, hres, row, hrow, hk, -⟩ :=
    EntrySetSim.complete .jaccard exArgs {} exToks 4 exL exR (Or.inl rfl) exValid (1 / 2) rfl exThr exScope
      exLs exLs_mem exRs exRs_mem exLs_present exRs_present exPair_nonempty exPair_qual (by decide +kernel)
  exact ⟨fr, hres, setsim_once .jaccard exArgs {} exToks 4 exL exR exValid exScope fr hres, row, hrow, hk⟩

example (fr : Frame) (hres : (setSimJoinPy .jaccard exArgs {} exToks 4).result = .ok fr) (row : Row)
    (hrow : row ∈ fr.rows) :=
  setsim_sound .jaccard exArgs {} exToks 4 exL exR exValid (1 / 2) rfl exScope fr hres row hrow

end Example

section AxiomCheck
#print axioms setsim_sound
#print axioms setsim_sound_of_keys
#print axioms setsim_once
#print axioms setsim_once_positions
end AxiomCheck

end SSJ.Props.C02

/-
  C01 (exact joins) — completeness of `overlap_join` and `overlap_coefficient_join`, as part of an IFF characterisation.

  Property C01: "… For jaccard_join, cosine_join, dice_join, overlap_coefficient_join and overlap_join, every (left row,
  right row) pair whose join values are both present and whose token-set similarity satisfies the requested comparison
  against the threshold is present in the output, whatever other rows the two tables contain … (overlap and
  overlap-coefficient are not rounded); pairs of two empty token sets are governed by allow_empty instead (C09)."

  Model functions: `overlapJoinPy a t toks cpu` (= `overlap_join_py`: OverlapFilter constructed from the arguments, then
  `OverlapFilter.filter_tables` with the tokenizer in set mode) and `overlapCoefficientJoinPy a t toks cpu` of
  `SSJ/Model/Frame.lean`; DataFrame in, DataFrame out.

  Hypotheses (the same in every theorem):
  * the call's arguments are valid —
      overlap_join:             `mkOverlapFilter a.threshold a.compOp a.allowMissing t = .ok f` (tokenizer object, threshold > 0,
                                operator in {>=, >, =}), `validateTablesAttrs a.toTableArgs = .ok (l, r)` (tables, key and join
                                columns, string dtype) and `validateOutAndKeys a.toTableArgs l r = .ok ()` (output columns
                                exist, keys unique and present);
      overlap_coefficient_join: `validateJoin "OVERLAP_COEFFICIENT" a t = .ok (l, r)` (all of the above, threshold in (0,1]);
  * the tokenizer in set mode returns duplicate-free token lists (`∀ s, (toks true s).Nodup`); no bound on their length;
  * the right table has fewer than 2^40 rows (under which `split_table`'s float arithmetic provably partitions it).
  * BODY CONDITIONS `BodyOK` (SSJ/Props/Common.lean) in the theorems that CONCLUDE that the call returns a frame: both
    join columns hold only strings and missing values (a present value of another type makes the tokenizer raise
    TypeError) and the output header has no column `_id` (else the final `insert(0, '_id', …)` raises ValueError); the
    theorems about a GIVEN result `… = .ok fr` need no such hypothesis (a returned frame implies both, `C15_body`);
  Everything else is arbitrary: the tables and whatever other rows they contain, the tokenizer function, threshold,
  operator, `allow_empty`, `allow_missing`, output attributes, prefixes, `out_sim_score`, `n_jobs`, the CPU count.

  Vocabulary (`SSJ/Props/Common.lean`): a result row is `_id :: left key :: right key :: …`; `rowKeys row` are its two key
  cells, `rowScore row` its last cell; `keyOf`/`valOf` are the key / join cell of a source row, `Present` says the join
  value is not None/NaN, `tokensOf (toks true) l a.lAttr ls` is the token list of the row's join value.
  `interCount A B` is `|set(A) ∩ set(B)|`; `Spec.ovcScore A B` is `float(|A∩B|) / min(|A|,|B|)` in double precision, NOT
  rounded; `Spec.bothEmpty A B` says both token lists are empty; `compFn op x thr` is `COMP_OP_MAP[op](x, thr)`.

  Because these two joins count common tokens through an inverted index (no filtering bounds, no rounding), the result is
  characterised EXACTLY: `overlap_exact` / `ovc_exact` state totality of the call, uniqueness of key pairs, the IFF
  "a present pair has a result row ⇔ it qualifies", and the reported score.  C01 (`overlap_complete`, `ovc_complete`) is
  the ⇐ direction; C02 and C09 (files C02_exact.lean, C09_exact.lean) are the other corollaries.
  `ovc_no_common_never` records why nothing is lost by the inverted index: a pair without a common token has overlap
  coefficient 0.0 (or a ZeroDivisionError value), which never satisfies `>=`, `>`, `=` against a positive threshold.

  NOT covered here: jaccard / cosine / dice (files C01.lean, C02.lean, C09.lean); the rows produced for missing join values
  are only located (they name existing rows, appear only with `allow_missing`, carry a missing score) — their exact list
  is property C08; the restoration of the tokenizer flag is C12; rejected calls are C15.
-/
import SSJ.Proofs.EntryExact

namespace SSJ.Props.C01
open SSJ SSJ.Props

/-- `overlap_join` with valid arguments returns a frame; no key pair occurs twice in it; a pair of rows with present
    join values has a result row IFF the number of common tokens satisfies `comp_op` against the threshold; and with
    `out_sim_score` that row's `_sim_score` is the integer number of common tokens. -/
theorem overlap_exact (a : JoinArgs) (t : TokObj) (toks : TokFn) (cpu : Int) (f : OverlapFilterObj) (l r : Frame)
    (hf : mkOverlapFilter a.threshold a.compOp a.allowMissing t = .ok f)
    (hv : validateTablesAttrs a.toTableArgs = .ok (l, r))
    (hk : validateOutAndKeys a.toTableArgs l r = .ok ())
    (hnd : ∀ s, (toks true s).Nodup) (hlen : r.rows.length < 2 ^ 40)
    (hb : BodyOK a.toTableArgs l r a.outSimScore) :
    ∃ fr, (overlapJoinPy a t toks cpu).result = .ok fr ∧
      (fr.rows.map rowKeys).Nodup ∧
      ∀ ls ∈ l.rows, ∀ rs ∈ r.rows, Present l a.lAttr ls → Present r a.rAttr rs →
        let A := tokensOf (toks true) l a.lAttr ls
        let B := tokensOf (toks true) r a.rAttr rs
        ((∃ row ∈ fr.rows, rowKeys row = (keyOf l a.lKey ls, keyOf r a.rKey rs)) ↔
            compFn a.compOp (.int (interCount A B)) a.threshold = true) ∧
        (a.outSimScore = true → ∀ row ∈ fr.rows, rowKeys row = (keyOf l a.lKey ls, keyOf r a.rKey rs) →
            rowScore row = .int (interCount A B)) := by
  obtain ⟨fr, hfr, hd⟩ := EX.overlapJoinPy_described a t toks cpu f l r hnd hf hv hk hlen hb
  obtain ⟨hkl, hkr⟩ := validateOutAndKeys_keys _ l r hk
  obtain ⟨hthr, hop⟩ := EX.mkOverlapFilter_valid _ _ _ _ _ hf
  refine ⟨fr, hfr, hd.once, ?_⟩
  intro ls hls rs hrs hpl hpr A B
  refine ⟨?_, ?_⟩
  · rw [hd.iff hkl hkr ls hls rs hrs hpl hpr]
    exact EX.POverlap_exists_iff _ (toks true) _ _ hop hthr
  · intro ho row hrow hkeys
    obtain ⟨s, hs, hsc⟩ := hd.of_keys hkl hkr ls hls rs hrs hpl hpr row hrow hkeys
    rw [hsc ho]
    exact hs.2.1

/-- `overlap_coefficient_join` with valid arguments returns a frame; no key pair occurs twice in it; a pair of rows with
    present join values has a result row IFF either both token sets are empty and `allow_empty` holds, or the (unrounded)
    overlap coefficient satisfies `comp_op` against the threshold; with `out_sim_score` that row's `_sim_score` is 1.0
    for an empty-empty pair and the unrounded overlap coefficient otherwise. -/
theorem ovc_exact (a : JoinArgs) (t : TokObj) (toks : TokFn) (cpu : Int) (l r : Frame)
    (hv : validateJoin "OVERLAP_COEFFICIENT" a t = .ok (l, r))
    (hnd : ∀ s, (toks true s).Nodup) (hlen : r.rows.length < 2 ^ 40)
    (hb : BodyOK a.toTableArgs l r a.outSimScore) :
    ∃ fr, (overlapCoefficientJoinPy a t toks cpu).result = .ok fr ∧
      (fr.rows.map rowKeys).Nodup ∧
      ∀ ls ∈ l.rows, ∀ rs ∈ r.rows, Present l a.lAttr ls → Present r a.rAttr rs →
        let A := tokensOf (toks true) l a.lAttr ls
        let B := tokensOf (toks true) r a.rAttr rs
        ((∃ row ∈ fr.rows, rowKeys row = (keyOf l a.lKey ls, keyOf r a.rKey rs)) ↔
            ((Spec.bothEmpty A B = true ∧ a.allowEmpty = true) ∨
             compFn a.compOp (Spec.ovcScore A B) a.threshold = true)) ∧
        (a.outSimScore = true → ∀ row ∈ fr.rows, rowKeys row = (keyOf l a.lKey ls, keyOf r a.rKey rs) →
            rowScore row = if Spec.bothEmpty A B then .flt 1 else scoreCell (Spec.ovcScore A B)) := by
  obtain ⟨fr, hfr, hd⟩ := EX.overlapCoefficientJoinPy_described a t toks cpu l r hnd hv hlen hb
  obtain ⟨hkl, hkr⟩ := validateOutAndKeys_of_validateJoin _ a t l r hv
  obtain ⟨hthr, hop⟩ := EX.ovc_valid_thr_op a t l r hv
  refine ⟨fr, hfr, hd.once, ?_⟩
  intro ls hls rs hrs hpl hpr A B
  refine ⟨?_, ?_⟩
  · rw [hd.iff hkl hkr ls hls rs hrs hpl hpr]
    exact EX.POvc_exists_iff _ _ _ (toks true) _ _ hop hthr
  · intro ho row hrow hkeys
    obtain ⟨s, hs, hsc⟩ := hd.of_keys hkl hkr ls hls rs hrs hpl hpr row hrow hkeys
    rw [hsc ho]
    exact EX.POvc_score _ _ _ _ _ _ _ hs

/-- (C01, overlap_join) every pair of rows with present join values whose number of common tokens satisfies the
    comparison against the threshold is in the output, whatever else the tables contain. -/
theorem overlap_complete (a : JoinArgs) (t : TokObj) (toks : TokFn) (cpu : Int) (f : OverlapFilterObj) (l r : Frame)
    (hf : mkOverlapFilter a.threshold a.compOp a.allowMissing t = .ok f)
    (hv : validateTablesAttrs a.toTableArgs = .ok (l, r))
    (hk : validateOutAndKeys a.toTableArgs l r = .ok ())
    (hnd : ∀ s, (toks true s).Nodup) (hlen : r.rows.length < 2 ^ 40)
    (fr : Frame) (hfr : (overlapJoinPy a t toks cpu).result = .ok fr)
    (ls : Row) (hls : ls ∈ l.rows) (rs : Row) (hrs : rs ∈ r.rows)
    (hpl : Present l a.lAttr ls) (hpr : Present r a.rAttr rs)
    (hq : compFn a.compOp (.int (interCount (tokensOf (toks true) l a.lAttr ls) (tokensOf (toks true) r a.rAttr rs))) a.threshold = true) :
    ∃ row ∈ fr.rows, rowKeys row = (keyOf l a.lKey ls, keyOf r a.rKey rs) := by
  have hd := EX.overlapJoinPy_described_of_ok a t toks cpu f l r hnd hf hv hk hlen fr hfr
  obtain ⟨hkl, hkr⟩ := validateOutAndKeys_keys _ l r hk
  obtain ⟨hthr, hop⟩ := EX.mkOverlapFilter_valid _ _ _ _ _ hf
  rw [hd.iff hkl hkr ls hls rs hrs hpl hpr]
  exact (EX.POverlap_exists_iff _ (toks true) _ _ hop hthr).2 hq

/-- (C01, overlap_coefficient_join) every pair of rows with present join values whose unrounded overlap coefficient
    satisfies the comparison against the threshold is in the output, whatever else the tables contain. -/
theorem ovc_complete (a : JoinArgs) (t : TokObj) (toks : TokFn) (cpu : Int) (l r : Frame)
    (hv : validateJoin "OVERLAP_COEFFICIENT" a t = .ok (l, r))
    (hnd : ∀ s, (toks true s).Nodup) (hlen : r.rows.length < 2 ^ 40)
    (fr : Frame) (hfr : (overlapCoefficientJoinPy a t toks cpu).result = .ok fr)
    (ls : Row) (hls : ls ∈ l.rows) (rs : Row) (hrs : rs ∈ r.rows)
    (hpl : Present l a.lAttr ls) (hpr : Present r a.rAttr rs)
    (hq : compFn a.compOp (Spec.ovcScore (tokensOf (toks true) l a.lAttr ls) (tokensOf (toks true) r a.rAttr rs)) a.threshold = true) :
    ∃ row ∈ fr.rows, rowKeys row = (keyOf l a.lKey ls, keyOf r a.rKey rs) := by
  have hd := EX.overlapCoefficientJoinPy_described_of_ok a t toks cpu l r hnd hv hlen fr hfr
  obtain ⟨hkl, hkr⟩ := validateOutAndKeys_of_validateJoin _ a t l r hv
  obtain ⟨hthr, hop⟩ := EX.ovc_valid_thr_op a t l r hv
  rw [hd.iff hkl hkr ls hls rs hrs hpl hpr]
  exact (EX.POvc_exists_iff _ _ _ (toks true) _ _ hop hthr).2 (Or.inr hq)

/-- two token sets without a common token never satisfy a validated overlap-coefficient request: their coefficient is
    0.0 (or the ZeroDivisionError value when a side is empty), the threshold is positive, the operator `>=`, `>` or `=`.
    Hence probing only the pairs that share a token (the inverted index) loses nothing. -/
theorem ovc_no_common_never (a : JoinArgs) (t : TokObj) (l r : Frame)
    (hv : validateJoin "OVERLAP_COEFFICIENT" a t = .ok (l, r)) (A B : List Tok) (h : interCount A B = 0) :
    compFn a.compOp (Spec.ovcScore A B) a.threshold = false :=
  EX.ovc_no_common_false a t l r hv A B h

/-- … and likewise no pair without a common token satisfies a validated overlap_join request (threshold > 0). -/
theorem overlap_no_common_never (a : JoinArgs) (t : TokObj) (f : OverlapFilterObj)
    (hf : mkOverlapFilter a.threshold a.compOp a.allowMissing t = .ok f) (A B : List Tok) (h : interCount A B = 0) :
    compFn a.compOp (.int (interCount A B)) a.threshold = false := by
  obtain ⟨hthr, hop⟩ := EX.mkOverlapFilter_valid _ _ _ _ _ hf
  rw [h]
  exact EX.compFn_zero_false _ _ _ hop hthr (Or.inr (Or.inl rfl))

/-! ### non-vacuity: a concrete call satisfying all hypotheses -/
namespace Example

/-- a (set-mode) tokenizer given by a table: whitespace tokens of the four strings used below -/
def tk : TokFn := fun _ s =>
  if s = "a b" then ["a", "b"] else if s = "b c" then ["b", "c"] else if s = "b" then ["b"] else []

theorem tk_nodup : ∀ s, (tk true s).Nodup := by
  intro s; unfold tk; split_ifs <;> decide

def L : Frame := { columns := ["id", "s"], dtypes := ["int64", "object"],
                   rows := [[.int 1, .str "a b"], [.int 2, .str ""], [.int 3, .missing]] }
def R : Frame := { columns := ["rid", "u"], dtypes := ["int64", "object"],
                   rows := [[.int 7, .str "b c"], [.int 8, .str ""], [.int 9, .str "b"]] }
/-- `threshold = 1`, `comp_op = ">="`, `allow_empty = True`, `allow_missing = False`, `out_sim_score = True`, `n_jobs = 1` -/
def A : JoinArgs := { ltable := some L, rtable := some R, lKey := "id", rKey := "rid", lAttr := "s", rAttr := "u",
                      threshold := .int 1 }
def F : OverlapFilterObj := { overlapSize := .int 1, compOp := ">=" }

example : mkOverlapFilter A.threshold A.compOp A.allowMissing {} = .ok F := rfl
example : validateTablesAttrs A.toTableArgs = .ok (L, R) := by decide
example : validateOutAndKeys A.toTableArgs L R = .ok () := by decide
example : validateJoin "OVERLAP_COEFFICIENT" A {} = .ok (L, R) := by decide
example : R.rows.length < 2 ^ 40 := by decide

/-- the overlap join of the two tables: rows (1,7) and (1,9), each with one common token -/
example : (overlapJoinPy A {} tk 1).result =
    .ok { columns := ["_id", "l_id", "r_rid", "_sim_score"], index := [.int 0, .int 1],
          rows := [[.int 0, .int 1, .int 7, .int 1], [.int 1, .int 1, .int 9, .int 1]] } := by decide

/-- `overlap_complete` applies: the pair (1, 9) qualifies, hence is in the output -/
example (fr : Frame) (hfr : (overlapJoinPy A {} tk 1).result = .ok fr) :
    ∃ row ∈ fr.rows, rowKeys row = (.int 1, .int 9) :=
  overlap_complete A {} tk 1 F L R rfl (by decide) (by decide) tk_nodup (by decide) fr hfr
    [.int 1, .str "a b"] (by decide) [.int 9, .str "b"] (by decide) rfl rfl (by decide)

/-- `ovc_exact` applies: the empty-empty pair (2, 8) is in the output of the overlap-coefficient join (allow_empty) -/
example : ∃ fr, (overlapCoefficientJoinPy A {} tk 1).result = .ok fr ∧
    ∃ row ∈ fr.rows, rowKeys row = (.int 2, .int 8) := by
  obtain ⟨fr, hfr, _, h⟩ := ovc_exact A {} tk 1 L R (by decide) tk_nodup (by decide) (by decide)
  exact ⟨fr, hfr, ((h [.int 2, .str ""] (by decide) [.int 8, .str ""] (by decide) rfl rfl).1).2
    (Or.inl (by decide))⟩

end Example

end SSJ.Props.C01

/-
  C08 (continued) — `filter_candset` of the five concrete filters and missing join values.

  PROPERTY (C08).  "With allow_missing=False … filter_pair/filter_candset/apply_matcher drop such pairs [pairs in which a
  join/filter value is missing (None/NaN)].  With allow_missing=True the output additionally contains every pair in
  which at least one side is missing …"

  `C08.filterCandset_missing` (SSJ/Props/C08.lean) states the `filter_candset` clause for ANY `filter_pair` function `fp`
  that answers `!allow_missing` on a pair with a missing side, under a hypothesis `hchunks` ("the chunks of the candidate
  set concatenate to the candidate set") that talks about the implementation.  This file
    1. discharges `hchunks` from the size of the candidate set — fewer than 2⁴⁰ rows, any `n_jobs`, any cpu count
       (`SSJ.chunksFor_flatten`, SSJ/Proofs/Split.lean): `filterCandset_missing_len`;
    2. instantiates the generic theorem for the five concrete filters with `C08.filterPair_missing` /
       `C08.overlapFilterPair_missing`:
         `filterCandset_missing_filter`  (Size / Prefix / Position / SuffixFilter: `filterPairPy k f tok`),
         `filterCandset_missing_overlap` (OverlapFilter: `overlapFilterPairPy f tok`)
       — in the shape of `filterCandset_missing` (`lval cr` / `rval cr`: the join values of the rows carrying the keys of
       candidate row `cr`); they CONCLUDE that the call returns, for which the two filter columns must hold only strings
       and missing values (`StrColumn`; else TypeError, C15);
    3. gives the same in the shape of the C04 candset theorems (`EntryFilters.CandsetValid`, a returned frame `hres`,
       candidate row `cr` carrying the keys of table rows `ls`, `rs`): `candset_missing_filter`,
       `candset_missing_overlap_filter` — a candidate row in which a referenced join value is missing is dropped when
       `allow_missing = False` and kept when `allow_missing = True`.  No hypothesis on the column contents: whenever the
       call returned, the verdict on such a row is as stated.
  All of these are instantiations of the generic candset theorem; nothing new is proved about `filter_candset`.

  MODEL: `filterCandset a fp cpu` (`Filter.filter_candset`, SSJ/Model/Matcher.lean); `f.allowMissing` is the filter
  object's `allow_missing`.  Any filter object (measure, threshold, `allow_empty`), tokenizer, `n_jobs`, cpu count.
  NOT COVERED: which rows with two present values are kept (C04, C06, C14).
-/
import SSJ.Props.C08
import SSJ.Proofs.CandsetInst

namespace SSJ.Props.C08
open SSJ SSJ.Props

/-! ### 1. `filterCandset_missing` without the implementation-level hypothesis -/

/-- `C08.filterCandset_missing` with `hchunks` replaced by "the candidate set has fewer than 2⁴⁰ rows": for ANY
    `filter_pair` call `fp` which on the referenced pairs answers the total function `fpb`, and `fpb` answering
    `!allow_missing` on pairs with a missing side, `filter_candset` returns the candidate rows `fpb` does not drop; a
    candidate row with a missing referenced value is dropped when `allow_missing=False` and kept when it is `True` -/
theorem filterCandset_missing_len (a : CandsetArgs) (fp : Cell → Cell → Except PyErr Bool) (fpb : Cell → Cell → Bool)
    (am : Bool) (hfp : ∀ lv rv, lv.isMissing = true ∨ rv.isMissing = true → fpb lv rv = !am)
    (cpu : Int) (c l r : Frame)
    (hc : a.candset = some c) (hlt : a.ltable = some l) (hrt : a.rtable = some r)
    (hv1 : validateAttr a.candLKey c = .ok ()) (hv2 : validateAttr a.candRKey c = .ok ())
    (hv3 : validateAttr a.lKey l = .ok ()) (hv4 : validateAttr a.rKey r = .ok ())
    (hv5 : validateAttr a.lAttr l = .ok ()) (hv6 : validateAttr a.rAttr r = .ok ())
    (hv7 : validateAttrType a.lAttr l = .ok ()) (hv8 : validateAttrType a.rAttr r = .ok ())
    (hv9 : validateKeyAttr a.lKey l = .ok ()) (hv10 : validateKeyAttr a.rKey r = .ok ())
    (lval rval : Row → Cell)
    (hl : ∀ cr ∈ c.rows, ∃ ls ∈ l.rows, (keyOf l a.lKey ls).pyEq (cr.cell (c.colIdx a.candLKey)) = true ∧
                                        valOf l a.lAttr ls = lval cr)
    (hr : ∀ cr ∈ c.rows, ∃ rs ∈ r.rows, (keyOf r a.rKey rs).pyEq (cr.cell (c.colIdx a.candRKey)) = true ∧
                                        valOf r a.rAttr rs = rval cr)
    (hok : ∀ cr ∈ c.rows, fp (lval cr) (rval cr) = .ok (fpb (lval cr) (rval cr)))
    (hlen : c.rows.length < 2 ^ 40) :
    ∃ fr, filterCandset a fp cpu = .ok fr ∧
      fr.rows = c.rows.filter (fun cr => !fpb (lval cr) (rval cr)) ∧
      ∀ cr ∈ c.rows, (lval cr).isMissing = true ∨ (rval cr).isMissing = true →
        (am = false → cr ∉ fr.rows) ∧ (am = true → cr ∈ fr.rows) :=
  filterCandset_missing a fp fpb am hfp cpu c l r hc hlt hrt hv1 hv2 hv3 hv4 hv5 hv6 hv7 hv8 hv9 hv10 lval rval hl hr hok
    (EntryFilters.candset_chunks_flatten c a.nJobs cpu hlen)

/-! ### 2. the five filters, in the shape of `filterCandset_missing` -/

/-- Size / Prefix / Position / SuffixFilter (`k`): on string filter columns `filter_candset` returns the candidate rows
    `filterPair` does not drop, and a candidate row in which a referenced join value is missing is dropped when the
    filter's `allow_missing` is `False` and kept when it is `True` -/
theorem filterCandset_missing_filter (k : FilterKind) (f : FilterObj) (tok : String → List Tok)
    (a : CandsetArgs) (cpu : Int) (c l r : Frame)
    (hc : a.candset = some c) (hlt : a.ltable = some l) (hrt : a.rtable = some r)
    (hv1 : validateAttr a.candLKey c = .ok ()) (hv2 : validateAttr a.candRKey c = .ok ())
    (hv3 : validateAttr a.lKey l = .ok ()) (hv4 : validateAttr a.rKey r = .ok ())
    (hv5 : validateAttr a.lAttr l = .ok ()) (hv6 : validateAttr a.rAttr r = .ok ())
    (hv7 : validateAttrType a.lAttr l = .ok ()) (hv8 : validateAttrType a.rAttr r = .ok ())
    (hv9 : validateKeyAttr a.lKey l = .ok ()) (hv10 : validateKeyAttr a.rKey r = .ok ())
    (lval rval : Row → Cell)
    (hl : ∀ cr ∈ c.rows, ∃ ls ∈ l.rows, (keyOf l a.lKey ls).pyEq (cr.cell (c.colIdx a.candLKey)) = true ∧
                                        valOf l a.lAttr ls = lval cr)
    (hr : ∀ cr ∈ c.rows, ∃ rs ∈ r.rows, (keyOf r a.rKey rs).pyEq (cr.cell (c.colIdx a.candRKey)) = true ∧
                                        valOf r a.rAttr rs = rval cr)
    (hsl : StrColumn l a.lAttr) (hsr : StrColumn r a.rAttr)
    (hlen : c.rows.length < 2 ^ 40) :
    ∃ fr, filterCandset a (filterPairPy k f tok) cpu = .ok fr ∧
      fr.rows = c.rows.filter (fun cr => !filterPair k f tok (lval cr) (rval cr)) ∧
      ∀ cr ∈ c.rows, (lval cr).isMissing = true ∨ (rval cr).isMissing = true →
        (f.allowMissing = false → cr ∉ fr.rows) ∧ (f.allowMissing = true → cr ∈ fr.rows) :=
  filterCandset_missing_len a _ (filterPair k f tok) f.allowMissing (filterPair_missing k f tok) cpu c l r hc hlt hrt
    hv1 hv2 hv3 hv4 hv5 hv6 hv7 hv8 hv9 hv10 lval rval hl hr
    (fun cr hcr => by
      obtain ⟨ls, hls, -, e1⟩ := hl cr hcr
      obtain ⟨rs, hrs, -, e2⟩ := hr cr hcr
      rw [← e1, ← e2]
      exact filterPairPy_columns k f tok l r a.lAttr a.rAttr hsl hsr ls hls rs hrs) hlen

/-- the same for the OverlapFilter -/
theorem filterCandset_missing_overlap (f : OverlapFilterObj) (tok : String → List Tok)
    (a : CandsetArgs) (cpu : Int) (c l r : Frame)
    (hc : a.candset = some c) (hlt : a.ltable = some l) (hrt : a.rtable = some r)
    (hv1 : validateAttr a.candLKey c = .ok ()) (hv2 : validateAttr a.candRKey c = .ok ())
    (hv3 : validateAttr a.lKey l = .ok ()) (hv4 : validateAttr a.rKey r = .ok ())
    (hv5 : validateAttr a.lAttr l = .ok ()) (hv6 : validateAttr a.rAttr r = .ok ())
    (hv7 : validateAttrType a.lAttr l = .ok ()) (hv8 : validateAttrType a.rAttr r = .ok ())
    (hv9 : validateKeyAttr a.lKey l = .ok ()) (hv10 : validateKeyAttr a.rKey r = .ok ())
    (lval rval : Row → Cell)
    (hl : ∀ cr ∈ c.rows, ∃ ls ∈ l.rows, (keyOf l a.lKey ls).pyEq (cr.cell (c.colIdx a.candLKey)) = true ∧
                                        valOf l a.lAttr ls = lval cr)
    (hr : ∀ cr ∈ c.rows, ∃ rs ∈ r.rows, (keyOf r a.rKey rs).pyEq (cr.cell (c.colIdx a.candRKey)) = true ∧
                                        valOf r a.rAttr rs = rval cr)
    (hsl : StrColumn l a.lAttr) (hsr : StrColumn r a.rAttr)
    (hlen : c.rows.length < 2 ^ 40) :
    ∃ fr, filterCandset a (overlapFilterPairPy f tok) cpu = .ok fr ∧
      fr.rows = c.rows.filter (fun cr => !overlapFilterPair f tok (lval cr) (rval cr)) ∧
      ∀ cr ∈ c.rows, (lval cr).isMissing = true ∨ (rval cr).isMissing = true →
        (f.allowMissing = false → cr ∉ fr.rows) ∧ (f.allowMissing = true → cr ∈ fr.rows) :=
  filterCandset_missing_len a _ (overlapFilterPair f tok) f.allowMissing (overlapFilterPair_missing f tok) cpu c l r hc
    hlt hrt hv1 hv2 hv3 hv4 hv5 hv6 hv7 hv8 hv9 hv10 lval rval hl hr
    (fun cr hcr => by
      obtain ⟨ls, hls, -, e1⟩ := hl cr hcr
      obtain ⟨rs, hrs, -, e2⟩ := hr cr hcr
      rw [← e1, ← e2]
      exact overlapFilterPairPy_columns f tok l r a.lAttr a.rAttr hsl hsr ls hls rs hrs) hlen

/-! ### 3. the five filters, for a returned call (the shape of the C04 candset theorems) -/

section Returned
variable (a : CandsetArgs) (cpu : Int) (c l r fr : Frame) (hval : EntryFilters.CandsetValid a c l r)
  (cr ls rs : Row) (hcr : cr ∈ c.rows) (hls : ls ∈ l.rows) (hrs : rs ∈ r.rows)
  (hkl : keyOf l a.lKey ls = cr.cell (c.colIdx a.candLKey)) (hkr : keyOf r a.rKey rs = cr.cell (c.colIdx a.candRKey))
  (hm : ¬ Present l a.lAttr ls ∨ ¬ Present r a.rAttr rs)
include hval hcr hls hrs hkl hkr hm

/-- `filter_candset` of Size / Prefix / Position / SuffixFilter (`k`): a candidate row referencing a table row whose join
    value is missing (on either side) is dropped when `allow_missing = False` and kept when `allow_missing = True` —
    whatever the measure, the threshold, the tokenizer and the other value are -/
theorem candset_missing_filter (k : FilterKind) (f : FilterObj) (tok : String → List Tok)
    (hres : filterCandset a (filterPairPy k f tok) cpu = .ok fr) :
    (f.allowMissing = false → cr ∉ fr.rows) ∧ (f.allowMissing = true → cr ∈ fr.rows) := by
  have hm' : (valOf l a.lAttr ls).isMissing = true ∨ (valOf r a.rAttr rs).isMissing = true := by
    simpa only [Present, Bool.not_eq_false] using hm
  rw [EntryFilters.filterCandset_mem_iff_filter k f tok a cpu c l r fr hval hres cr ls rs hcr hls hrs hkl hkr,
    filterPair_missing k f tok _ _ hm']
  cases f.allowMissing <;> simp

/-- the same for OverlapFilter.filter_candset -/
theorem candset_missing_overlap_filter (f : OverlapFilterObj) (tok : String → List Tok)
    (hres : filterCandset a (overlapFilterPairPy f tok) cpu = .ok fr) :
    (f.allowMissing = false → cr ∉ fr.rows) ∧ (f.allowMissing = true → cr ∈ fr.rows) := by
  have hm' : (valOf l a.lAttr ls).isMissing = true ∨ (valOf r a.rAttr rs).isMissing = true := by
    simpa only [Present, Bool.not_eq_false] using hm
  rw [EntryFilters.filterCandset_mem_iff_overlap f tok a cpu c l r fr hval hres cr ls rs hcr hls hrs hkl hkr,
    overlapFilterPair_missing f tok _ _ hm']
  cases f.allowMissing <;> simp

end Returned

/-! ### non-vacuity: the two small tables of SSJ/Proofs/EntryFilters.lean (left row 3 has a missing value) and a
    candidate set of two rows, the second of which references left row 3; `n_jobs = 2` -/
section NonVacuity
open EntryFilters.Ex

def candC : Frame := { columns := ["_id", "l_id", "r_id"], index := [.int 0, .int 1],
                       rows := [[.int 0, .int 1, .int 7], [.int 1, .int 3, .int 9]] }
def candArgs : CandsetArgs :=
  { candset := some candC, candLKey := "l_id", candRKey := "r_id", ltable := some EntryFilters.Ex.exL,
    rtable := some EntryFilters.Ex.exR, lKey := "id", rKey := "id", lAttr := "name", rAttr := "name", nJobs := 2 }

theorem candArgs_valid : EntryFilters.CandsetValid candArgs candC EntryFilters.Ex.exL EntryFilters.Ex.exR :=
  ⟨rfl, rfl, rfl, by decide, by decide, by decide, by decide, by decide, by decide, by decide, by decide, by decide,
    by decide, by decide, by decide⟩

/-- PrefixFilter (JACCARD 0.25), `allow_missing = True`: the call returns and keeps the row (1, 3, 9) -/
example : ∃ fr, filterCandset candArgs
      (filterPairPy .prefix { cfg := cfgOf .jaccard (1 / 4), allowMissing := true } exTok) 4 = .ok fr ∧
    [Cell.int 1, .int 3, .int 9] ∈ fr.rows := by
  obtain ⟨fr, hfr, -, -⟩ := EntryFilters.filterCandset_keeps candArgs _ _ 4 candC EntryFilters.Ex.exL EntryFilters.Ex.exR
    candArgs_valid (filterPairPy_columns .prefix { cfg := cfgOf .jaccard (1 / 4), allowMissing := true } exTok
      EntryFilters.Ex.exL EntryFilters.Ex.exR "name" "name" (by decide) (by decide))
  exact ⟨fr, hfr, (candset_missing_filter candArgs 4 candC _ _ fr candArgs_valid _ [.int 3, .missing] [.int 9, .str "z"]
    (by decide) (by decide) (by decide) (by decide) (by decide) (Or.inl (by unfold Present; decide)) .prefix _ exTok hfr).2
    rfl⟩

/-- … with `allow_missing = False` (the default) it returns and drops that row -/
example : ∃ fr, filterCandset candArgs (filterPairPy .prefix { cfg := cfgOf .jaccard (1 / 4) } exTok) 4 = .ok fr ∧
    [Cell.int 1, .int 3, .int 9] ∉ fr.rows := by
  obtain ⟨fr, hfr, -, -⟩ := EntryFilters.filterCandset_keeps candArgs _ _ 4 candC EntryFilters.Ex.exL EntryFilters.Ex.exR
    candArgs_valid (filterPairPy_columns .prefix { cfg := cfgOf .jaccard (1 / 4) } exTok
      EntryFilters.Ex.exL EntryFilters.Ex.exR "name" "name" (by decide) (by decide))
  exact ⟨fr, hfr, (candset_missing_filter candArgs 4 candC _ _ fr candArgs_valid _ [.int 3, .missing] [.int 9, .str "z"]
    (by decide) (by decide) (by decide) (by decide) (by decide) (Or.inl (by unfold Present; decide)) .prefix _ exTok hfr).1
    rfl⟩

/-- OverlapFilter with `allow_missing = True` on the same call: evaluated, both rows are kept -/
example : filterCandset candArgs
      (overlapFilterPairPy { overlapSize := .int 1, compOp := ">=", allowMissing := true } EntryFilters.Ex.exTok) 4 =
    .ok candC := by decide +kernel

end NonVacuity

/-- info: 'SSJ.Props.C08.filterCandset_missing_len' depends on axioms: [propext, Classical.choice, Quot.sound] -/
#guard_msgs in #print axioms filterCandset_missing_len
/-- info: 'SSJ.Props.C08.filterCandset_missing_filter' depends on axioms: [propext, Classical.choice, Quot.sound] -/
#guard_msgs in #print axioms filterCandset_missing_filter
/-- info: 'SSJ.Props.C08.filterCandset_missing_overlap' depends on axioms: [propext, Classical.choice, Quot.sound] -/
#guard_msgs in #print axioms filterCandset_missing_overlap
/-- info: 'SSJ.Props.C08.candset_missing_filter' depends on axioms: [propext, Classical.choice, Quot.sound] -/
#guard_msgs in #print axioms candset_missing_filter
/-- info: 'SSJ.Props.C08.candset_missing_overlap_filter' depends on axioms: [propext, Classical.choice, Quot.sound] -/
#guard_msgs in #print axioms candset_missing_overlap_filter

end SSJ.Props.C08

/-
  C10 (second half, candidate-set entry points) — Results depend only on the rows and parameters, not on the
  PRESENTATION of the tables: `apply_matcher` and `Filter.filter_candset`.

  "The result of every entry point … is unchanged by permuting the rows of either table, relabelling the DataFrame
   index, adding unrelated columns, and repeating the call."

  `SSJ/Props/C10_presentation.lean` proves this for the joins and `filter_tables`; its header lists `apply_matcher` /
  `filter_candset` as not covered.  This file covers them.  (Independence of `n_jobs`: `C10.applyMatcher_njobs`,
  `C10.filterCandset_njobs` in `SSJ/Props/C10.lean`.)

  MODEL FUNCTIONS (`SSJ/Model/Matcher.lean`).
    `applyMatcher a t toks sim cpu` — `apply_matcher(candset, …, ltable, rtable, …, tokenizer, sim_function, …)`;
    `filterCandset a fp cpu`        — `Filter.filter_candset(candset, …)` of any filter, given as its `filter_pair` `fp`
                                       (a Python call that may raise: `Cell → Cell → Except PyErr Bool`).
  These entry points take THREE frames: the candidate set `c` and the two tables `l`, `r`.  The candidate set is not a
  mere input table: `filter_candset` returns a sub-frame of it, `apply_matcher` one output row per kept candidate row, in
  candset order.  So the property splits:

  A. THE TWO TABLES presented differently — the result is UNCHANGED (equal outcome: the whole result frame with
     columns, dtypes, index, rows — or the same exception):
       1. another index on either table: `candset_table_index_irrelevant_*`  — no hypothesis on the call at all;
       2. extra columns on either table that are not key / match attribute / requested output attribute:
          `candset_table_extra_columns_irrelevant_*` — no hypothesis on the call (rejected calls included); both are
          instances of `candset_same_view_*` (tables that `EP.Agree` on the referenced columns), which also covers
          reordered columns;
       3. rows of either table permuted: `candset_table_row_permutation_*` — under the hypotheses of C05 / C04 (the
          first call is valid, candidate keys occur in the tables, `< 2⁴⁰` candidates, nothing raises in the body);
          validity of the second call is DERIVED.  Reason (`row_spec_table_row_permutation`, `src_row_row_permutation`):
          keys are unique up to Python equality, so the lookup `table_dict[key]` finds the same source row whatever
          the order of the rows; C05's `rowSpec` is invariant.
  B. THE CANDIDATE SET presented differently — the result changes ACCORDINGLY, and in no other way:
       4. rows of the candset permuted: the result rows are permuted (`List.Perm`), columns (and dtypes) unchanged:
          `candset_row_permutation_apply_matcher` (the result rows are `c'.rows.filterMap (rowSpec …)` for the SAME
          per-row function as before), `candset_row_permutation_filter_candset` (every kept row keeps ITS index label:
          the list of (row, label) pairs is permuted);
       5. index of the candset relabelled: `filter_candset` keeps the same rows, and only the result's index changes —
          each kept row carries its NEW label (`candset_index_relabel_filter_candset`); `apply_matcher` never reads the
          candset's index: the outcome is EQUAL, except that an EMPTY candset is returned as it is and so shows its new
          labels (`candset_index_relabel_apply_matcher`, no hypothesis on the call).
  REPEATING THE CALL: the entry points are pure functions of their arguments — `candset_repeat`, by `rfl`.

  VOCABULARY (`Proofs/EntryPresentation.lean`, `Proofs/PresentationCandset.lean`; unfolded in the first section):
    `a.withTables l' r'`, `a.withCandset c'` — the same call with other tables / another candset;
    `f.withIndex il` — the frame `f` with the index labels `il` (ANY list, of any length);
    `EP.lUsed a.toTableArgs` = `a.lKey :: a.lAttr :: a.lOut.getD []` — the left columns an `apply_matcher` call refers to
        (right: `EP.rUsed`); for `filter_candset`: `a.lUsed = [a.lKey, a.lAttr]`, `a.rUsed = [a.rKey, a.rAttr]`;
    `EP.Agree S f g`, `EP.WellFormed f`, `EP.ExtraColumns S f f'`, `EP.RowsPermuted l r l' r'` — as in C10_presentation;
    `candLabelled c` — the candset's rows paired with their index labels (`c.rows.zip c.index` when there is one label
        per row; missing labels padded with NaN);
    `EP.CandLabelPermuted c c'` — `c'` has the columns and dtypes of `c` and its (row, label) pairs are a permutation.

  HYPOTHESES of A.3, B.4, B.5 (`filter_candset`), in plain words (those of `C05.keeps_exactly` resp. `C04.candset_keeps_iff`):
    the validation block accepts the first call (`validateMatcher a t = .ok (c, l, r)` / `validateCandset a = .ok …`);
    every candidate key occurs in its table up to Python equality (`PyMem`; otherwise KeyError); fewer than 2⁴⁰ candidate
    rows; with a tokenizer both match columns hold only strings and missing values (`hstr`) resp. `filter_pair` does not
    raise on pairs of values of the two columns (`hfp`; for the package's filters implied by string columns:
    `candset_table_row_permutation_filter_candset_filters`).  The two calls may run with different `cpu` counts.

  NOT COVERED.  `apply_matcher`'s result INDEX when the candset's rows are permuted: in the model, as with `pd.concat` of
  the per-chunk frames, it restarts at 0 in every chunk — it depends on how many candidates each chunk keeps, hence on
  the order of the candset (rows, order-as-permuted, columns do not; C05's header).  Calls that raise in the body
  (KeyError, TypeError) under row permutation: WHICH exception is raised first may depend on the order of the candset.
  Extra columns of the CANDSET: `filter_candset` returns them (they are part of the result), `apply_matcher` drops them
  (`C11.matcher_columns`).  Python object identity / aliasing / mutation of inputs: outside the model.
-/
import SSJ.Proofs.PresentationCandset
import SSJ.Props.C05

namespace SSJ.Props.C10
open SSJ SSJ.Props SSJ.EP

/-! ### vocabulary, unfolded -/

example (a : MatcherArgs) (l r : Frame) : a.withTables l r = { a with ltable := some l, rtable := some r } := rfl
example (a : MatcherArgs) (c : Frame) : a.withCandset c = { a with candset := some c } := rfl
example (a : CandsetArgs) (l r : Frame) : a.withTables l r = { a with ltable := some l, rtable := some r } := rfl
example (a : CandsetArgs) (c : Frame) : a.withCandset c = { a with candset := some c } := rfl
example (a : MatcherArgs) : lUsed a.toTableArgs = a.lKey :: a.lAttr :: a.lOut.getD [] := rfl
example (a : MatcherArgs) : rUsed a.toTableArgs = a.rKey :: a.rAttr :: a.rOut.getD [] := rfl
example (a : CandsetArgs) : a.lUsed = [a.lKey, a.lAttr] ∧ a.rUsed = [a.rKey, a.rAttr] := ⟨rfl, rfl⟩
example (c : Frame) :
    candLabelled c = c.rows.zip (c.index ++ List.replicate (c.rows.length - c.index.length) Cell.missing) := rfl
example (c : Frame) (h : c.index.length = c.rows.length) : candLabelled c = c.rows.zip c.index := by
  unfold candLabelled; rw [h, Nat.sub_self]; simp
example (c c' : Frame) : CandLabelPermuted c c' ↔
    c'.columns = c.columns ∧ c'.dtypes = c.dtypes ∧ (candLabelled c').Perm (candLabelled c) :=
  ⟨fun h => ⟨h.cols, h.types, h.labelled⟩, fun h => ⟨h.1, h.2.1, h.2.2⟩⟩

/-! ## A.  The two tables presented differently: the result is unchanged -/

/-- SAME VIEW, `apply_matcher`: if `l'` agrees with `l` and `r'` with `r` on the columns the call refers to (keys, match
    attributes, requested output attributes), the call on `l'`, `r'` has the same outcome — the same result frame with
    all its columns, index and rows, or the same exception — as the call on `l`, `r`.  No validity hypothesis; any
    tokenizer, similarity function, `n_jobs`, cpu count. -/
theorem candset_same_view_apply_matcher (a : MatcherArgs) (t : Option TokObj) (toks : TokFn)
    (sim : SimArg → SimArg → PyV) (cpu : Int) (l r l' r' : Frame)
    (hl : a.ltable = some l) (hr : a.rtable = some r)
    (hL : Agree (lUsed a.toTableArgs) l l') (hR : Agree (rUsed a.toTableArgs) r r') :
    applyMatcher (a.withTables l' r') t toks sim cpu = applyMatcher a t toks sim cpu :=
  applyMatcher_agree a t toks sim cpu l r l' r' hl hr hL hR

/-- SAME VIEW, `filter_candset` of any filter (`fp` = its `filter_pair`): tables that agree on key and filter attribute
    give the same outcome.  No validity hypothesis. -/
theorem candset_same_view_filter_candset (a : CandsetArgs) (fp : Cell → Cell → Except PyErr Bool) (cpu : Int)
    (l r l' r' : Frame) (hl : a.ltable = some l) (hr : a.rtable = some r)
    (hL : Agree a.lUsed l l') (hR : Agree a.rUsed r r') :
    filterCandset (a.withTables l' r') fp cpu = filterCandset a fp cpu :=
  filterCandset_agree a fp cpu l r l' r' hl hr hL hR

/-- INDEX of the tables, `apply_matcher`: replacing the index labels of `ltable` and / or `rtable` by ANY labels changes
    nothing. -/
theorem candset_table_index_irrelevant_apply_matcher (a : MatcherArgs) (t : Option TokObj) (toks : TokFn)
    (sim : SimArg → SimArg → PyV) (cpu : Int) (l r : Frame) (hl : a.ltable = some l) (hr : a.rtable = some r)
    (il ir : List Cell) :
    applyMatcher (a.withTables (l.withIndex il) (r.withIndex ir)) t toks sim cpu = applyMatcher a t toks sim cpu :=
  candset_same_view_apply_matcher a t toks sim cpu l r _ _ hl hr (agree_withIndex _ l il) (agree_withIndex _ r ir)

/-- INDEX of the tables, `filter_candset`. -/
theorem candset_table_index_irrelevant_filter_candset (a : CandsetArgs) (fp : Cell → Cell → Except PyErr Bool)
    (cpu : Int) (l r : Frame) (hl : a.ltable = some l) (hr : a.rtable = some r) (il ir : List Cell) :
    filterCandset (a.withTables (l.withIndex il) (r.withIndex ir)) fp cpu = filterCandset a fp cpu :=
  candset_same_view_filter_candset a fp cpu l r _ _ hl hr (agree_withIndex _ l il) (agree_withIndex _ r ir)

/-- EXTRA COLUMNS, `apply_matcher`: appending to (well-formed) tables any number of columns that are none of key /
    match attribute / requested output attribute changes nothing — result frame or exception alike. -/
theorem candset_table_extra_columns_irrelevant_apply_matcher (a : MatcherArgs) (t : Option TokObj) (toks : TokFn)
    (sim : SimArg → SimArg → PyV) (cpu : Int) (l r l' r' : Frame) (hl : a.ltable = some l) (hr : a.rtable = some r)
    (wl : WellFormed l) (wr : WellFormed r)
    (hL : ExtraColumns (lUsed a.toTableArgs) l l') (hR : ExtraColumns (rUsed a.toTableArgs) r r') :
    applyMatcher (a.withTables l' r') t toks sim cpu = applyMatcher a t toks sim cpu :=
  candset_same_view_apply_matcher a t toks sim cpu l r l' r' hl hr (agree_of_extraColumns wl hL).1
    (agree_of_extraColumns wr hR).1

/-- EXTRA COLUMNS, `filter_candset`: columns other than key and filter attribute are invisible. -/
theorem candset_table_extra_columns_irrelevant_filter_candset (a : CandsetArgs) (fp : Cell → Cell → Except PyErr Bool)
    (cpu : Int) (l r l' r' : Frame) (hl : a.ltable = some l) (hr : a.rtable = some r)
    (wl : WellFormed l) (wr : WellFormed r) (hL : ExtraColumns a.lUsed l l') (hR : ExtraColumns a.rUsed r r') :
    filterCandset (a.withTables l' r') fp cpu = filterCandset a fp cpu :=
  candset_same_view_filter_candset a fp cpu l r l' r' hl hr (agree_of_extraColumns wl hL).1
    (agree_of_extraColumns wr hR).1

/-- WHY row order is irrelevant: with a validated key column (pairwise Python-different cells) the lookup
    `table_dict[k]` — C05's `srcRow` — finds the same source row in a table whose rows are permuted. -/
theorem src_row_row_permutation (f g : Frame) (key : String) (hc : g.columns = f.columns) (hp : g.rows.Perm f.rows)
    (hk : PyDistinct (f.col key)) (k : Cell) : C05.srcRow g key k = C05.srcRow f key k :=
  findKey_perm f g key hc hp hk k

/-- … hence C05's per-candidate specification `rowSpec` (look the two source rows up, decide, build the output row)
    is the same function for row-permuted tables. -/
theorem row_spec_table_row_permutation (a : MatcherArgs) (tok : Option (String → List Tok)) (sim : SimArg → SimArg → PyV)
    (c l r l' r' : Frame) (hp : RowsPermuted l r l' r')
    (hlk : PyDistinct (l.col a.lKey)) (hrk : PyDistinct (r.col a.rKey)) :
    C05.rowSpec a tok sim c l' r' = C05.rowSpec a tok sim c l r := by
  funext cr
  unfold C05.rowSpec
  rw [src_row_row_permutation l l' a.lKey hp.lCols hp.lRows hlk, src_row_row_permutation r r' a.rKey hp.rCols hp.rRows hrk]
  unfold C05.pairSpecK C05.outRowK keyOf valOf
  rw [colIdx_congr l l' hp.lCols, colIdx_congr r r' hp.rCols]

/-- ROW ORDER of the tables, `apply_matcher`.  Under the hypotheses of `C05.keeps_exactly` for the call on `l`, `r`, the
    call on row-permuted tables `l'`, `r'` is valid too and returns the SAME frame (rows in the same order, columns,
    index — everything). -/
theorem candset_table_row_permutation_apply_matcher (a : MatcherArgs) (t : Option TokObj) (toks : TokFn)
    (sim : SimArg → SimArg → PyV) (cpu : Int) (c l r l' r' : Frame) (hv : validateMatcher a t = .ok (c, l, r))
    (hl : ∀ cr ∈ c.rows, PyMem (cr.cell (c.colIdx a.candLKey)) (l.col a.lKey))
    (hr : ∀ cr ∈ c.rows, PyMem (cr.cell (c.colIdx a.candRKey)) (r.col a.rKey))
    (hlen : c.rows.length < 2 ^ 40)
    (hstr : t.isSome → StrColumn l a.lAttr ∧ StrColumn r a.rAttr)
    (hp : RowsPermuted l r l' r') :
    validateMatcher (a.withTables l' r') t = .ok (c, l', r') ∧
    ∃ fr, applyMatcher a t toks sim cpu = .ok fr ∧ applyMatcher (a.withTables l' r') t toks sim cpu = .ok fr ∧
      fr.rows = c.rows.filterMap (C05.rowSpec a (C05.tokOf t toks) sim c l r) := by
  obtain ⟨hv', he⟩ := applyMatcher_perm_tables a t toks sim cpu c l r l' r' hv hl hr hlen hstr hp
  obtain ⟨fr, hfr, hrows, -⟩ := C05.keeps_exactly a t toks sim cpu c l r hv hl hr hlen hstr
  exact ⟨hv', fr, hfr, he.trans hfr, hrows⟩

/-- ROW ORDER of the tables, `filter_candset` of any filter: valid first call, candidate keys present, `< 2⁴⁰` candidates,
    `filter_pair` not raising on pairs of values of the two columns — the call on row-permuted tables is valid too and
    returns the SAME frame. -/
theorem candset_table_row_permutation_filter_candset (a : CandsetArgs) (fp : Cell → Cell → Except PyErr Bool)
    (cpu : Int) (c l r l' r' : Frame) (hv : validateCandset a = .ok (c, l, r))
    (hl : ∀ cr ∈ c.rows, PyMem (cr.cell (c.colIdx a.candLKey)) (l.col a.lKey))
    (hr : ∀ cr ∈ c.rows, PyMem (cr.cell (c.colIdx a.candRKey)) (r.col a.rKey))
    (hlen : c.rows.length < 2 ^ 40)
    (hfp : ∀ ls ∈ l.rows, ∀ rs ∈ r.rows, ∃ b, fp (valOf l a.lAttr ls) (valOf r a.rAttr rs) = .ok b)
    (hp : RowsPermuted l r l' r') :
    validateCandset (a.withTables l' r') = .ok (c, l', r') ∧
    ∃ fr, filterCandset a fp cpu = .ok fr ∧ filterCandset (a.withTables l' r') fp cpu = .ok fr ∧
      fr.columns = c.columns ∧ fr.rows.Sublist c.rows := by
  obtain ⟨hv', he⟩ := filterCandset_perm_tables a fp cpu c l r l' r' hv hl hr hlen hfp hp
  obtain ⟨fr, hfr, hcols, -, hsub⟩ := filterCandset_total a fp cpu c l r hv hl hr hlen hfp
  exact ⟨hv', fr, hfr, he.trans hfr, hcols, hsub⟩

/-- … in particular for Size / Prefix / Position / SuffixFilter.filter_candset on string columns (then `filter_pair`
    never raises). -/
theorem candset_table_row_permutation_filter_candset_filters (k : FilterKind) (f : FilterObj) (tok : String → List Tok)
    (a : CandsetArgs) (cpu : Int) (c l r l' r' : Frame) (hv : validateCandset a = .ok (c, l, r))
    (hl : ∀ cr ∈ c.rows, PyMem (cr.cell (c.colIdx a.candLKey)) (l.col a.lKey))
    (hr : ∀ cr ∈ c.rows, PyMem (cr.cell (c.colIdx a.candRKey)) (r.col a.rKey))
    (hlen : c.rows.length < 2 ^ 40) (hsl : StrColumn l a.lAttr) (hsr : StrColumn r a.rAttr)
    (hp : RowsPermuted l r l' r') :
    ∃ fr, filterCandset a (filterPairPy k f tok) cpu = .ok fr ∧
      filterCandset (a.withTables l' r') (filterPairPy k f tok) cpu = .ok fr := by
  obtain ⟨-, fr, h1, h2, -⟩ := candset_table_row_permutation_filter_candset a (filterPairPy k f tok) cpu c l r l' r'
    hv hl hr hlen (fun ls hls rs hrs => ⟨_, filterPairPy_columns k f tok l r a.lAttr a.rAttr hsl hsr ls hls rs hrs⟩) hp
  exact ⟨fr, h1, h2⟩

/-! ## B.  The candidate set presented differently: the result changes accordingly -/

/-- ROW ORDER of the candset, `apply_matcher`.  `c'` has the header of `c` and its rows permuted.  Then (C05's
    hypotheses for the call on `c`) both calls return frames with the same columns, each result consists of the
    `rowSpec` images of ITS candset's rows in ITS order — for one and the same per-row function — and therefore the
    result rows are a permutation of each other.  (`cpu`, `cpu'`: the two calls may run on different machines.) -/
theorem candset_row_permutation_apply_matcher (a : MatcherArgs) (t : Option TokObj) (toks : TokFn)
    (sim : SimArg → SimArg → PyV) (cpu cpu' : Int) (c l r c' : Frame) (hv : validateMatcher a t = .ok (c, l, r))
    (hl : ∀ cr ∈ c.rows, PyMem (cr.cell (c.colIdx a.candLKey)) (l.col a.lKey))
    (hr : ∀ cr ∈ c.rows, PyMem (cr.cell (c.colIdx a.candRKey)) (r.col a.rKey))
    (hlen : c.rows.length < 2 ^ 40)
    (hstr : t.isSome → StrColumn l a.lAttr ∧ StrColumn r a.rAttr)
    (hcols : c'.columns = c.columns) (hrows : c'.rows.Perm c.rows) :
    ∃ fr fr', applyMatcher a t toks sim cpu = .ok fr ∧ applyMatcher (a.withCandset c') t toks sim cpu' = .ok fr' ∧
      fr'.columns = fr.columns ∧
      fr.rows = c.rows.filterMap (C05.rowSpec a (C05.tokOf t toks) sim c l r) ∧
      fr'.rows = c'.rows.filterMap (C05.rowSpec a (C05.tokOf t toks) sim c l r) ∧
      fr'.rows.Perm fr.rows := by
  have hV := (validateMatcher_ok_iff a t c l r).1 hv
  have hv' : validateMatcher (a.withCandset c') t = .ok (c', l, r) :=
    (validateMatcher_ok_iff _ t c' l r).2 (matcherValid_cand hV hcols)
  have hspec : C05.rowSpec (a.withCandset c') (C05.tokOf t toks) sim c' l r
      = C05.rowSpec a (C05.tokOf t toks) sim c l r := by
    funext cr
    show C05.rowSpec a (C05.tokOf t toks) sim c' l r cr = _
    unfold C05.rowSpec
    rw [colIdx_congr c c' hcols]
  obtain ⟨fr, hfr, hr1, hc1⟩ := C05.keeps_exactly a t toks sim cpu c l r hv hl hr hlen hstr
  obtain ⟨fr', hfr', hr2, hc2⟩ := C05.keeps_exactly (a.withCandset c') t toks sim cpu' c' l r hv'
    (fun cr hcr => by
      have := hl cr (hrows.mem_iff.1 hcr)
      rw [colIdx_congr c c' hcols]; exact this)
    (fun cr hcr => by
      have := hr cr (hrows.mem_iff.1 hcr)
      rw [colIdx_congr c c' hcols]; exact this)
    (by rw [hrows.length_eq]; exact hlen) hstr
  rw [hspec] at hr2
  refine ⟨fr, fr', hfr, hfr', ?_, hr1, hr2, ?_⟩
  · rw [hc1, hc2, isEmpty_perm hrows, hcols]; rfl
  · rw [hr1, hr2]
    exact hrows.filterMap _

/-- ROW ORDER of the candset, `filter_candset`.  `c'` has the columns and dtypes of `c`, and its (row, index label)
    pairs are a permutation of those of `c`.  Then both calls return frames with the same columns and dtypes whose
    (row, label) pairs are a permutation of each other: the result rows are permuted and every kept row keeps its own
    index label. -/
theorem candset_row_permutation_filter_candset (a : CandsetArgs) (fp : Cell → Cell → Except PyErr Bool)
    (cpu cpu' : Int) (c l r c' : Frame) (hv : validateCandset a = .ok (c, l, r))
    (hl : ∀ cr ∈ c.rows, PyMem (cr.cell (c.colIdx a.candLKey)) (l.col a.lKey))
    (hr : ∀ cr ∈ c.rows, PyMem (cr.cell (c.colIdx a.candRKey)) (r.col a.rKey))
    (hlen : c.rows.length < 2 ^ 40)
    (hfp : ∀ ls ∈ l.rows, ∀ rs ∈ r.rows, ∃ b, fp (valOf l a.lAttr ls) (valOf r a.rAttr rs) = .ok b)
    (hp : CandLabelPermuted c c') :
    ∃ fr fr', filterCandset a fp cpu = .ok fr ∧ filterCandset (a.withCandset c') fp cpu' = .ok fr' ∧
      fr'.columns = fr.columns ∧ fr'.dtypes = fr.dtypes ∧
      (candLabelled fr').Perm (candLabelled fr) ∧ fr'.rows.Perm fr.rows := by
  obtain ⟨h1, h2⟩ := filterCandset_two_candsets a fp cpu cpu' c l r c' hv hl hr hlen hfp hp.cols hp.rows
  have hlab := (hp.labelled.filter (fun p => candKeep a fp c l r p.1))
  have hL : (candLabelled (if c'.rows.isEmpty then c' else
        { c' with index := ((candLabelled c').filter (fun p => candKeep a fp c l r p.1)).map (·.2),
                  rows := ((candLabelled c').filter (fun p => candKeep a fp c l r p.1)).map (·.1) })).Perm
      (candLabelled (if c.rows.isEmpty then c else
        { c with index := ((candLabelled c).filter (fun p => candKeep a fp c l r p.1)).map (·.2),
                 rows := ((candLabelled c).filter (fun p => candKeep a fp c l r p.1)).map (·.1) })) := by
    rw [candLabelled_result, candLabelled_result]; exact hlab
  refine ⟨_, _, h1, h2, ?_, ?_, hL, ?_⟩
  · rw [isEmpty_perm hp.rows]; split <;> exact hp.cols
  · rw [isEmpty_perm hp.rows]; split <;> exact hp.types
  · rw [← candLabelled_map_fst, ← candLabelled_map_fst (c := if c.rows.isEmpty then c else _)]
    exact hL.map _

/-- INDEX of the candset, `filter_candset`.  Relabelling the candset's index changes ONLY the result's index: there is
    a row predicate `keep` (does `filter_pair` keep the pair the row references) such that, with the old labels and
    with the new ones alike, the result's (row, label) pairs are the candset's (row, label) pairs with `keep` — so the
    same rows in the same order, each carrying the label it has in the candset handed in; the two results differ in
    nothing but the index. -/
theorem candset_index_relabel_filter_candset (a : CandsetArgs) (fp : Cell → Cell → Except PyErr Bool)
    (cpu cpu' : Int) (c l r : Frame) (idx : List Cell) (hv : validateCandset a = .ok (c, l, r))
    (hl : ∀ cr ∈ c.rows, PyMem (cr.cell (c.colIdx a.candLKey)) (l.col a.lKey))
    (hr : ∀ cr ∈ c.rows, PyMem (cr.cell (c.colIdx a.candRKey)) (r.col a.rKey))
    (hlen : c.rows.length < 2 ^ 40)
    (hfp : ∀ ls ∈ l.rows, ∀ rs ∈ r.rows, ∃ b, fp (valOf l a.lAttr ls) (valOf r a.rAttr rs) = .ok b) :
    ∃ (keep : Row → Bool) (fr fr' : Frame), filterCandset a fp cpu = .ok fr ∧
      filterCandset (a.withCandset (c.withIndex idx)) fp cpu' = .ok fr' ∧
      fr' = fr.withIndex fr'.index ∧
      candLabelled fr = (candLabelled c).filter (fun p => keep p.1) ∧
      candLabelled fr' = (candLabelled (c.withIndex idx)).filter (fun p => keep p.1) := by
  obtain ⟨h1, h2⟩ := filterCandset_two_candsets a fp cpu cpu' c l r (c.withIndex idx) hv hl hr hlen hfp rfl
    (List.Perm.refl _)
  refine ⟨candKeep a fp c l r, _, _, h1, h2, ?_, candLabelled_result c _, candLabelled_result (c.withIndex idx) _⟩
  have e1 : (c.withIndex idx).rows = c.rows := rfl
  have e2 : (c.withIndex idx).columns = c.columns := rfl
  have e3 : (c.withIndex idx).dtypes = c.dtypes := rfl
  have hfst : ∀ c0 : Frame, c0.rows = c.rows →
      ((candLabelled c0).filter (fun p => candKeep a fp c l r p.1)).map (·.1) = c.rows.filter (candKeep a fp c l r) := by
    intro c0 h0
    rw [show (fun p : Row × Cell => candKeep a fp c l r p.1) = (candKeep a fp c l r) ∘ Prod.fst from rfl,
      ← List.filter_map, candLabelled_map_fst, h0]
  by_cases hemp : c.rows.isEmpty = true
  · simp only [e1, hemp, if_true]
    rfl
  · simp only [e1, e2, e3, hemp, hfst (c.withIndex idx) rfl, hfst c rfl]
    rfl

/-- INDEX of the candset, `apply_matcher`.  `apply_matcher` never reads the candset's index labels: relabelling them
    leaves the outcome EQUAL (result frame — whose index is built afresh, restarting at 0 in every chunk — or
    exception), except when the candset is EMPTY: then the candset itself is returned and shows its new labels.
    No hypothesis on the call. -/
theorem candset_index_relabel_apply_matcher (a : MatcherArgs) (t : Option TokObj) (toks : TokFn)
    (sim : SimArg → SimArg → PyV) (cpu : Int) (c : Frame) (idx : List Cell) (hc : a.candset = some c) :
    applyMatcher (a.withCandset (c.withIndex idx)) t toks sim cpu =
      (applyMatcher a t toks sim cpu).map (fun fr => if c.rows.isEmpty then fr.withIndex idx else fr) :=
  applyMatcher_relabel_candset a t toks sim cpu c idx hc

/-- … so for a non-empty candset the outcome is literally the same. -/
theorem candset_index_irrelevant_apply_matcher (a : MatcherArgs) (t : Option TokObj) (toks : TokFn)
    (sim : SimArg → SimArg → PyV) (cpu : Int) (c : Frame) (idx : List Cell) (hc : a.candset = some c)
    (hne : c.rows ≠ []) :
    applyMatcher (a.withCandset (c.withIndex idx)) t toks sim cpu = applyMatcher a t toks sim cpu := by
  rw [candset_index_relabel_apply_matcher a t toks sim cpu c idx hc]
  have hemp : c.rows.isEmpty = false := by
    cases h : c.rows with
    | nil => exact absurd h hne
    | cons _ _ => rfl
  simp only [hemp, Bool.false_eq_true, if_false]
  cases applyMatcher a t toks sim cpu <;> rfl

/-- REPEATING THE CALL: the model's entry points are functions of their arguments; two calls with the same arguments
    are the same term. -/
theorem candset_repeat (a : MatcherArgs) (t : Option TokObj) (toks : TokFn) (sim : SimArg → SimArg → PyV) (cpu : Int)
    (b : CandsetArgs) (fp : Cell → Cell → Except PyErr Bool) :
    applyMatcher a t toks sim cpu = applyMatcher a t toks sim cpu ∧ filterCandset b fp cpu = filterCandset b fp cpu :=
  ⟨rfl, rfl⟩

/-! ## Non-vacuity -/

section Examples

/-- the tables of C05's example, presented differently: rows reversed and other index labels … -/
def csL' : Frame := { C05.exL with rows := C05.exL.rows.reverse, index := [.str "x", .str "y"] }
def csR' : Frame := { C05.exR with rows := C05.exR.rows.reverse }
/-- … and with an extra column `zip` -/
def csLz : Frame := { columns := ["id", "name", "zip"], dtypes := ["int64", "object", "int64"],
                      rows := [[.int 1, .str "ann", .int 53706], [.int 2, .missing, .int 53703]] }
/-- the candset of C05's example with index labels, and the same with rows (and labels) rotated -/
def csC : Frame := { C05.exC with index := [.str "a", .str "b", .str "c"] }
def csC' : Frame := { columns := ["_id", "l_id", "r_rid"], index := [.str "c", .str "a", .str "b"],
                      rows := [[.int 2, .int 2, .int 7], [.int 0, .int 1, .int 7], [.int 1, .int 1, .int 8]] }
def csArgs : MatcherArgs := { C05.exArgs with candset := some csC, allowMissing := true }
def csCand : CandsetArgs :=
  { candset := some csC, candLKey := "l_id", candRKey := "r_rid", ltable := some C05.exL, rtable := some C05.exR,
    lKey := "id", rKey := "rid", lAttr := "name", rAttr := "title" }
/-- a `filter_pair` dropping the pairs whose two values differ -/
def csFp : Cell → Cell → Except PyErr Bool := fun x y => .ok (x != y)

theorem csPermuted : RowsPermuted C05.exL C05.exR csL' csR' := ⟨rfl, rfl, by decide, rfl, rfl, by decide⟩
theorem csLabelPermuted : CandLabelPermuted csC csC' := ⟨rfl, rfl, by decide⟩

/-- the hypotheses of A.3 / B.4 / B.5 hold for these calls -/
example : validateMatcher csArgs none = .ok (csC, C05.exL, C05.exR) := by decide
example : validateCandset csCand = .ok (csC, C05.exL, C05.exR) := by decide
example : ∀ cr ∈ csC.rows, PyMem (cr.cell (csC.colIdx csArgs.candLKey)) (C05.exL.col csArgs.lKey) := by decide
example : ∀ cr ∈ csC.rows, PyMem (cr.cell (csC.colIdx csArgs.candRKey)) (C05.exR.col csArgs.rKey) := by decide
example : ExtraColumn C05.exL csLz "zip" :=
  ⟨by decide, rfl, ⟨"int64", rfl⟩, .cons ⟨_, rfl⟩ (.cons ⟨_, rfl⟩ .nil)⟩

/-- the results are not trivial: `apply_matcher` keeps the first candidate (score 1) and the third (missing value,
    `allow_missing`), `filter_candset` keeps the first with its label `"a"` -/
example : (applyMatcher csArgs none (fun _ _ => []) C05.exSim 1).map (·.rows)
    = .ok [[.int 0, .int 1, .int 7, .int 1], [.int 2, .int 2, .int 7, .missing]] := by decide
example : filterCandset csCand csFp 1 = .ok { csC with index := [.str "a"], rows := [[.int 0, .int 1, .int 7]] } := by
  decide

/-- A.3 on the reversed tables: the very same outcome -/
example : applyMatcher (csArgs.withTables csL' csR') none (fun _ _ => []) C05.exSim 1
    = applyMatcher csArgs none (fun _ _ => []) C05.exSim 1 := by
  obtain ⟨-, fr, h1, h2, -⟩ := candset_table_row_permutation_apply_matcher csArgs none (fun _ _ => []) C05.exSim 1
    csC C05.exL C05.exR csL' csR' (by decide) (by decide) (by decide) (by decide) (fun h => by cases h) csPermuted
  rw [h1, h2]
example : filterCandset (csCand.withTables csL' csR') csFp 3 = filterCandset csCand csFp 3 := by
  obtain ⟨-, fr, h1, h2, -⟩ := candset_table_row_permutation_filter_candset csCand csFp 3
    csC C05.exL C05.exR csL' csR' (by decide) (by decide) (by decide) (by decide) (fun _ _ _ _ => ⟨_, rfl⟩) csPermuted
  rw [h1, h2]
/-- A.2 with the extra column `zip` -/
example : applyMatcher (csArgs.withTables csLz C05.exR) none (fun _ _ => []) C05.exSim 1
    = applyMatcher csArgs none (fun _ _ => []) C05.exSim 1 :=
  candset_table_extra_columns_irrelevant_apply_matcher csArgs none _ _ 1 C05.exL C05.exR csLz C05.exR rfl rfl
    ⟨rfl, by decide⟩ ⟨rfl, by decide⟩
    (.one (by decide) ⟨by decide, rfl, ⟨"int64", rfl⟩, .cons ⟨_, rfl⟩ (.cons ⟨_, rfl⟩ .nil)⟩) .none
/-- B.4: the rotated candset gives the rotated result, the label `"a"` travelling with its row -/
example : (applyMatcher (csArgs.withCandset csC') none (fun _ _ => []) C05.exSim 1).map (·.rows)
    = .ok [[.int 2, .int 2, .int 7, .missing], [.int 0, .int 1, .int 7, .int 1]] := by decide
example : filterCandset (csCand.withCandset csC') csFp 1
    = .ok { csC' with index := [.str "a"], rows := [[.int 0, .int 1, .int 7]] } := by decide
/-- B.5: relabelled candset, `filter_candset` — same row, new label -/
example : filterCandset (csCand.withCandset (csC.withIndex [.int 10, .int 11, .int 12])) csFp 1
    = .ok { csC with index := [.int 10], rows := [[.int 0, .int 1, .int 7]] } := by decide

end Examples

section AxiomCheck
#print axioms candset_same_view_apply_matcher
#print axioms candset_same_view_filter_candset
#print axioms candset_table_index_irrelevant_apply_matcher
#print axioms candset_table_index_irrelevant_filter_candset
#print axioms candset_table_extra_columns_irrelevant_apply_matcher
#print axioms candset_table_extra_columns_irrelevant_filter_candset
#print axioms src_row_row_permutation
#print axioms row_spec_table_row_permutation
#print axioms candset_table_row_permutation_apply_matcher
#print axioms candset_table_row_permutation_filter_candset
#print axioms candset_table_row_permutation_filter_candset_filters
#print axioms candset_row_permutation_apply_matcher
#print axioms candset_row_permutation_filter_candset
#print axioms candset_index_relabel_filter_candset
#print axioms candset_index_relabel_apply_matcher
#print axioms candset_index_irrelevant_apply_matcher
#print axioms candset_repeat
end AxiomCheck

end SSJ.Props.C10

/-
  C09 (filter part) — pairs of values that both tokenize to nothing.
  "A pair whose two values both tokenize to no tokens survives Size/Prefix/Position/Suffix filters under
  JACCARD/COSINE/DICE iff allow_empty is True, whatever the threshold; such a pair is never kept by filters under
  OVERLAP."   (The join half of C09 is in the join's property file; this file is merged with it.)

  MODEL.  `filterPair k f tok l r` (`filter_pair` of the filter of kind `k`; `true` = dropped) and
  `filterTables k f a t toks cpu` (`filter_tables`, DataFrame in / DataFrame out) of SSJ/Model/Frame.lean; a filter
  object `f : FilterObj` carries `f.cfg` (measure, threshold, q), `f.allowEmpty`, `f.allowMissing`.

  WHAT IS PROVED — all four filter kinds, ANY threshold value (not even validated), any tokenizer, any `n_jobs`:
    filter_pair   : `filter_pair_both_empty_iff` (JACCARD/COSINE/DICE: not dropped ⇔ `allow_empty`),
                    `filter_pair_both_empty_overlap` (OVERLAP: dropped), `filter_pair_both_empty_ed`
                    (EDIT_DISTANCE: NOT dropped, whatever `allow_empty`).
    filter_tables : `filter_tables_both_empty_iff` (JACCARD/COSINE/DICE: the pair is listed ⇔ `allow_empty`),
                    `filter_tables_both_empty_overlap` (OVERLAP: never listed),
                    `filter_tables_both_empty_ed` (EDIT_DISTANCE: never listed — note the difference to filter_pair,
                    which keeps such a pair; recorded here because it is what the code does:
                    `handle_empty = allow_empty and measure not in ['OVERLAP', 'EDIT_DISTANCE']`).

  HYPOTHESES.  The two values are present (not None/NaN) and tokenize to the empty list.  For filter_tables: valid
  table arguments (`validateTablesAttrs`, `validateOutAndKeys`), right table of fewer than 2⁴⁰ rows (chunking
  provably partitions it), the pair given as two source rows; "listed" = the result has a row with their two keys.
  NOT COVERED here: the join entry points (join half of C09), `filter_candset` (row-wise `filter_pair`, C06).
-/
import SSJ.Proofs.EntryFilters

namespace SSJ.Props.C09
open SSJ SSJ.Spec SSJ.Props

/-! ## filter_pair -/

section Pair
variable (k : FilterKind) (f : FilterObj) (tok : String → List Tok) (l r : Cell)
  (hl : l.isMissing = false) (hr : r.isMissing = false) (ha : tok l.strVal = []) (hb : tok r.strVal = [])
include hl hr ha hb

/-- JACCARD / COSINE / DICE: `filter_pair` of any of the four filters keeps a pair of present values without tokens
    iff `allow_empty`; whatever the threshold -/
theorem filter_pair_both_empty_iff (hm : SetMeasure f.cfg.measure) :
    filterPair k f tok l r = false ↔ f.allowEmpty = true := by
  rw [EntryFilters.filterPair_empty f tok k l r hl hr ha hb, EntryFilters.emptyPairDropped_set f hm]
  cases f.allowEmpty <;> simp

/-- OVERLAP: such a pair is always dropped -/
theorem filter_pair_both_empty_overlap (hm : f.cfg.measure = .overlap) : filterPair k f tok l r = true := by
  rw [EntryFilters.filterPair_empty f tok k l r hl hr ha hb]
  unfold emptyPairDropped; rw [hm]

/-- EDIT_DISTANCE: such a pair is never dropped by `filter_pair` -/
theorem filter_pair_both_empty_ed (hm : f.cfg.measure = .editDistance) : filterPair k f tok l r = false := by
  rw [EntryFilters.filterPair_empty f tok k l r hl hr ha hb]
  unfold emptyPairDropped; rw [hm]

end Pair

/-! ## filter_tables -/

section Tables
variable (k : FilterKind) (f : FilterObj) (a : TableArgs) (t : TokObj) (toks : TokFn) (cpu : Int) (l r fr : Frame)
  (hv : validateTablesAttrs a = .ok (l, r)) (hk : validateOutAndKeys a l r = .ok ())
  (hrows : r.rows.length < 2 ^ 40) (hres : filterTables k f a t toks cpu = .ok fr)
  (ls rs : Row) (hls : ls ∈ l.rows) (hrs : rs ∈ r.rows)
  (hlp : Present l a.lAttr ls) (hrp : Present r a.rAttr rs)
  (ha : tokensOf (toks t.returnSet) l a.lAttr ls = []) (hb : tokensOf (toks t.returnSet) r a.rAttr rs = [])
include hv hk hrows hres hls hrs hlp hrp ha hb

/-- JACCARD / COSINE / DICE: `filter_tables` of any of the four filters lists a pair of source rows whose present
    join values both have no tokens iff `allow_empty`; whatever the threshold -/
theorem filter_tables_both_empty_iff (hm : SetMeasure f.cfg.measure) :
    (∃ row ∈ fr.rows, rowKeys row = (keyOf l a.lKey ls, keyOf r a.rKey rs)) ↔ f.allowEmpty = true := by
  rw [EntryFilters.filterTables_bothEmpty_iff k f a t toks cpu l r fr hv hk hrows hres ls rs hls hrs hlp hrp ha hb,
    EntryFilters.handleEmpty_set f hm]

/-- OVERLAP: such a pair is never listed -/
theorem filter_tables_both_empty_overlap (hm : f.cfg.measure = .overlap) :
    ¬ ∃ row ∈ fr.rows, rowKeys row = (keyOf l a.lKey ls, keyOf r a.rKey rs) := by
  rw [EntryFilters.filterTables_bothEmpty_iff k f a t toks cpu l r fr hv hk hrows hres ls rs hls hrs hlp hrp ha hb,
    EntryFilters.handleEmpty_overlap f hm]
  simp

/-- EDIT_DISTANCE: such a pair is never listed by `filter_tables` (although `filter_pair` keeps it) -/
theorem filter_tables_both_empty_ed (hm : f.cfg.measure = .editDistance) :
    ¬ ∃ row ∈ fr.rows, rowKeys row = (keyOf l a.lKey ls, keyOf r a.rKey rs) := by
  rw [EntryFilters.filterTables_bothEmpty_iff k f a t toks cpu l r fr hv hk hrows hres ls rs hls hrs hlp hrp ha hb,
    EntryFilters.handleEmpty_ed f hm]
  simp

end Tables

/-! ## non-vacuity -/
section NonVacuity
open EntryFilters.Ex

/-- two empty strings (no tokens), DICE, `allow_empty = True` (default): kept by the SuffixFilter; `False`: dropped -/
example : filterPair .suffix { cfg := cfgOf .dice (1 / 2) } exTok (.str "") (.str "") = false :=
  (filter_pair_both_empty_iff .suffix _ exTok _ _ rfl rfl (by decide) (by decide) (Or.inr (Or.inr rfl))).2 rfl

example : filterPair .suffix { cfg := cfgOf .dice (1 / 2), allowEmpty := false } exTok (.str "") (.str "") ≠ false :=
  fun h => absurd ((filter_pair_both_empty_iff .suffix _ exTok _ _ rfl rfl (by decide) (by decide)
    (Or.inr (Or.inr rfl))).1 h) (by decide)

/-- rows 2 / 8 of the two small tables hold empty strings: with `allow_empty` the PositionFilter lists the pair -/
example : ∃ fr, filterTables .position { cfg := cfgOf .dice (1 / 2) } exA exT exToks 4 = .ok fr ∧
    ∃ row ∈ fr.rows, rowKeys row = (Cell.int 2, Cell.int 8) := by
  obtain ⟨fr, hfr⟩ := EntryFilters.filterTables_total .position { cfg := cfgOf .dice (1 / 2) } exA exT exToks 4 exL exR
    ex_valid ex_keys (by decide +kernel)
  exact ⟨fr, hfr, (filter_tables_both_empty_iff .position _ exA exT exToks 4 exL exR fr ex_valid ex_keys (by decide) hfr
    [.int 2, .str ""] [.int 8, .str ""] (by decide) (by decide) (by unfold Present; decide) (by unfold Present; decide)
    (by decide) (by decide) (Or.inr (Or.inr rfl))).2 rfl⟩

end NonVacuity

end SSJ.Props.C09
